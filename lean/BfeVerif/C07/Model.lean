/-
  C07 / C08 — model of the retry loop of `ReverseProxy.clusterInvoke` + `FinishReq`
  (bfe_server/reverseproxy.go) together with `BalanceGslb.Balance` (bfe_balance/bal_gslb/bal_gslb.go)
  and the smooth weighted round robin it calls (bfe_balance/bal_slb/bal_rr.go: smoothBalance).
  Core-only.  It mirrors the code AFTER the two repairs recorded in /verif/fixes/C07-*.md, C08-*.md:

    for i := 0; i < 20; i++ {
        clusterBackend, err = bal.Balance(request)
        if err == ErrBkCrossRetryBalance { request.RetryTime += 1; continue }
        if err != nil { break }
        if request.Trans.Backend != nil { request.Trans.Backend.DecConnNum(); request.Trans.Backend = nil }
        request.SetRequestTransport(clusterBackend, clusterTransport)
        if FilterForward(request) == BfeHandlerFinish { request.Trans.Backend = nil /*fix*/; action = closeAfterReply; return }
        backend := request.Trans.Backend;  backend.IncConnNum()
        res, err = transport.RoundTrip(outreq)
        if err == nil { request.ErrCode = nil; break }
        allowRetry := switch err.(type) { ConnectError: true; Write/ReadRespHeader/Timeout/Broken: checkAllowRetry; default: false }
        if !allowRetry { break }
        request.RetryTime += 1
    }
    FinishReq:  defer { if request.Trans.Backend != nil { request.Trans.Backend.DecConnNum() } }

  Round 2: the selection of a backend INSIDE a sub-cluster and the health bookkeeping after a RoundTrip
  are a parameter (`Policy`) of `balance` / `loop` / `runSched`; every theorem of C07 and C08 is stated for
  an arbitrary policy, so it covers WRR, least-connection (whose choice reads the very counters C07 is
  about), sticky sessions, slow start, and backends flipping availability between attempts alike.
  `realPolicy` mirrors the code that exists (smoothBalance, leastConnsSmoothBalance, stickyBalance,
  OnFail/OnSuccess + UpdateStatus) and is what the correspondence run compares with the implementation.
  A HandleForward callback may also REPLACE request.Trans.Backend (the code re-reads it after the callback).

  External inputs are explicit parameters: the per-attempt outcomes (HandleForward verdict, RoundTrip result)
  are a script, the murmur3 hash residue of the client address is `Cfg.w`, and the values drawn by
  `randomSelectExclude` (rand seeded with the clock) are the oracle stream `choices`.
-/
namespace BfeVerif.C07

/-- one backend of a sub-cluster: initial availability flag and configured weight -/
structure Back where
  up : Bool
  weight : Int
  deriving Inhabited

structure Sub where
  name : String
  weight : Int
  black : Bool          -- name == "GSLB_BLACKHOLE"
  backs : List Back
  deriving Inhabited

/-- verdict of the HandleForward callback chain: Finish ends the request; `replace k` = the callback put
    the k-th backend of the cluster (enumeration order) into request.Trans.Backend and went on;
    everything else is ignored by clusterInvoke -/
inductive Fwd where
  | goon | finish | replace (k : Nat)
  | panic   -- the filter panics (conn.serve recovers: clusterInvoke is left, FinishReq never runs)
  deriving DecidableEq, Inhabited

/-- result of one RoundTrip (http and fcgi error types fall in the same `case` arms);
    `writeT` = WriteRequestError whose CheckTargetError is true (caused by the client side: no OnFail) -/
inductive Rt where
  | ok (status : Nat) | connect | write | writeT | rhdr | timeout | broken | other
  | panic   -- RoundTrip panics (after IncConnNum; conn.serve recovers, FinishReq never runs)
  deriving DecidableEq, Inhabited

structure Attempt where
  fwd : Fwd
  rt : Rt
  deriving Inhabited

/-- what happens when the script is exhausted: callback goes on, backend answers 200 -/
def Attempt.dflt : Attempt := ⟨.goon, .ok 200⟩

structure Cfg where
  rm : Int              -- bal.retryMax
  cr : Int              -- bal.crossRetry
  rl : Nat              -- cluster.RetryLevel()
  h : Nat               -- murmur3.Sum64(hashKey)
  mode : Nat            -- 0 WRR smooth, 1 WLC smooth (BalanceMode WLC), 2 sticky (SessionSticky)
  failNum : Nat         -- health check FailNum of the cluster, 0 = no health-check configuration
  subs : List Sub       -- bal.subClusters (sorted by name)
  od : Nat := 0         -- OutlierDetectionHttpCode: 0 "", 1 "5xx", 2 "503", 3 "4xx|503", 4 "3xx|404"

/-- verdict of one HandleRequestFinish filter: `other` = Redirect / Response / Close (they stop the chain but
    FinishReq only reacts to Finish); `panic` = the filter panics -/
inductive FinV where
  | goon | finish | other | panic
  deriving DecidableEq, Inhabited

structure ReqSpec where
  isGET : Bool          -- outreq.Method == "GET"
  noBody : Bool         -- checkRequestWithoutBody(outreq)
  script : List Attempt
  finish : List FinV := []     -- verdicts of the HandleRequestFinish filters, in chain order (missing = goon)
  pre : Option Nat := none     -- some act: a HandleBeforeLocation filter ended the request (ServeHTTP returned
                               -- action `act` before clusterInvoke was reached: no backend was selected)

/-- number of HandleRequestFinish filters the harness registers -/
def finFilters : Nat := 4

/-- FinishReq's callback block: `retVal := hl.FilterResponse(..)` runs the filters until one does not go on;
    `case BfeHandlerFinish: action = closeAfterReply; return`.  Result: (action, filters run, panicked).
    Whatever this returns, the deferred `DecConnNum` of FinishReq runs afterwards. -/
def finChain (vs : List FinV) : Nat → Nat → Nat × Nat × Bool
  | 0, ran => (0, ran, false)
  | left + 1, ran =>
    match vs.getD ran .goon with
    | .goon => finChain vs left (ran + 1)
    | .finish => (1, ran + 1, false)
    | .other => (0, ran + 1, false)
    | .panic => (0, ran + 1, true)

/-- global backend id -/
def bid (sub idx : Nat) : Nat := sub * 8 + idx

/-- all backends of the cluster in (sub-cluster, index) order -/
def allBids (cfg : Cfg) : List Nat :=
  (cfg.subs.zipIdx.map fun (s, i) => (List.range s.backs.length).map fun j => bid i j).flatten

def upd (f : Nat → Int) (b : Nat) (d : Int) : Nat → Int := fun x => if x = b then f x + d else f x

/-! ### balancer state and the selection policy -/

/-- mutable state of the balancer and its backends (everything except connNum) -/
structure BalSt where
  cur : List (List Int)      -- BackendRR.current per sub-cluster / backend
  up : List (List Bool)      -- BfeBackend.avail
  fails : List (List Nat)    -- BfeBackend.failNum
  gone : List (List Bool) := []  -- removed from the sub-cluster's list by a backend-table reload

/-- how a backend is chosen inside sub-cluster `si` (given the connNums), and what a RoundTrip result does
    to the balancer state.  The theorems hold for every policy. -/
structure Policy where
  sel : Cfg → BalSt → (Nat → Int) → Nat → Option Nat × BalSt
  note : Cfg → BalSt → Nat → Rt → BalSt

def modAt (l : List Int) (i : Nat) (d : Int) : List Int :=
  match l, i with
  | [], _ => []
  | x :: xs, 0 => (x + d) :: xs
  | x :: xs, i + 1 => x :: modAt xs i d

/-- the `for` loop of smoothBalance over the backends flagged eligible: (best index, total, updated currents) -/
def smoothPass : List Back → List Bool → List Int → Nat → Option Nat → Int → Int → Option Nat × Int × List Int
  | b :: bs, e :: es, c :: cs, i, best, mx, total =>
    if !e then
      let r := smoothPass bs es cs (i + 1) best mx total
      (r.1, r.2.1, c :: r.2.2)
    else
      let pick := best.isNone || c > mx
      let r := smoothPass bs es cs (i + 1) (if pick then some i else best) (if pick then c else mx) (total + c)
      (r.1, r.2.1, (c + b.weight * 100) :: r.2.2)
  | _, _, cs, _, best, _, total => (best, total, cs)

def smoothBalance (backs : List Back) (elig : List Bool) (cur : List Int) : Option Nat × List Int :=
  match smoothPass backs elig cur 0 none 0 0 with
  | (none, _, cur') => (none, cur')
  | (some i, total, cur') => (some i, modAt cur' i (-total))

def setAt {α : Type} (l : List α) (i : Nat) (v : α) : List α :=
  match l, i with
  | [], _ => []
  | _ :: xs, 0 => v :: xs
  | x :: xs, i + 1 => x :: setAt xs i v

/-- `backend.Avail() && backendRR.weight > 0` per backend of sub-cluster `si` -/
def eligible (sub : Sub) (ups gone : List Bool) : List Bool :=
  sub.backs.zipIdx.map fun (b, j) => ups.getD j false && !gone.getD j false && decide (b.weight * 100 > 0)

/-- compLCWeight(best, j) as the integer `ret` -/
def compLC (sub : Sub) (conn : Nat → Int) (si best j : Nat) : Int :=
  conn (bid si best) * ((sub.backs.getD j default).weight * 100) -
  conn (bid si j) * ((sub.backs.getD best default).weight * 100)

/-- first loop of leastConnsBalance: (best, singleBackend) -/
def lcBest (sub : Sub) (conn : Nat → Int) (si : Nat) : List Bool → Nat → Option Nat → Bool → Option Nat × Bool
  | [], _, best, single => (best, single)
  | e :: es, j, best, single =>
    if !e then lcBest sub conn si es (j + 1) best single
    else
      match best with
      | none => lcBest sub conn si es (j + 1) (some j) true
      | some bj =>
        let ret := compLC sub conn si bj j
        if ret > 0 then lcBest sub conn si es (j + 1) (some j) true
        else if ret = 0 then lcBest sub conn si es (j + 1) best false
        else lcBest sub conn si es (j + 1) best single

/-- leastConnsBalance: flags of the candidates (none = all backends down) -/
def lcCands (sub : Sub) (conn : Nat → Int) (si : Nat) (elig : List Bool) : Option (List Bool) :=
  match lcBest sub conn si elig 0 none true with
  | (none, _) => none
  | (some bj, true) => some (elig.zipIdx.map fun (_, j) => j == bj)
  | (some bj, false) => some (elig.zipIdx.map fun (e, j) => e && compLC sub conn si bj j == 0)

/-- stickyBalance: the loop `value -= weight; if value < 0` over the candidates -/
def stickyPick : List Back → List Bool → Nat → Int → Option Nat
  | b :: bs, e :: es, j, v =>
    if !e then stickyPick bs es (j + 1) v
    else if v - b.weight * 100 < 0 then some j else stickyPick bs es (j + 1) (v - b.weight * 100)
  | _, _, _, _ => none

def eligWeight (backs : List Back) (elig : List Bool) : Int :=
  ((backs.zip elig).map fun (b, e) => if e then b.weight * 100 else 0).foldl (· + ·) 0

/-- SubCluster.balance with the algorithm Balance selects (WrrSmooth / WlcSmooth / WrrSticky) -/
def realSel (cfg : Cfg) (bs : BalSt) (conn : Nat → Int) (si : Nat) : Option Nat × BalSt :=
  let sub := cfg.subs.getD si default
  let gone := bs.gone.getD si []
  if sub.backs.length == (gone.filter id).length then (none, bs)     -- sub.backends.Len() == 0
  else
    let elig := eligible sub (bs.up.getD si []) gone
    if cfg.mode == 2 then
      let total := eligWeight sub.backs elig
      if total ≤ 0 then (none, bs)
      else (stickyPick sub.backs elig 0 ((cfg.h : Int) % total), bs)
    else if cfg.mode == 1 then
      match lcCands sub conn si elig with
      | none => (none, bs)
      | some cands =>
        if (cands.filter id).length == 1 then (cands.findIdx? id, bs)
        else
          let r := smoothBalance sub.backs cands (bs.cur.getD si [])
          (r.1, { bs with cur := setAt bs.cur si r.2 })
    else
      let r := smoothBalance sub.backs elig (bs.cur.getD si [])
      (r.1, { bs with cur := setAt bs.cur si r.2 })

/-- checkBackendStatus(cluster.OutlierDetectionHttpCode(), status) for the settings the scenarios use -/
def outlier (od status : Nat) : Bool :=
  if od == 1 then status / 100 == 5
  else if od == 2 then status == 503
  else if od == 3 then status / 100 == 4 || status == 503
  else if od == 4 then status / 100 == 3 || status == 404
  else false

/-- backend.OnFail / OnSuccess + UpdateStatus as clusterInvoke calls them after a RoundTrip to backend `b` -/
def realNote (cfg : Cfg) (bs : BalSt) (b : Nat) (o : Rt) : BalSt :=
  let si := b / 8
  let j := b % 8
  let f := (bs.fails.getD si []).getD j 0
  let failed : Option Bool :=        -- some true = OnFail, some false = OnSuccess, none = neither
    match o with
    | .ok st => some (outlier cfg.od st)
    | .connect | .write | .rhdr | .timeout => some true
    | _ => none
  match failed with
  | some false => { bs with fails := setAt bs.fails si (setAt (bs.fails.getD si []) j 0) }
  | some true =>
    let f' := f + 1
    let bs1 := { bs with fails := setAt bs.fails si (setAt (bs.fails.getD si []) j f') }
    if cfg.failNum > 0 && f' ≥ cfg.failNum then
      { bs1 with up := setAt bs1.up si (setAt (bs1.up.getD si []) j false) }
    else bs1
  | none => bs

def realPolicy : Policy := ⟨realSel, realNote⟩

def initBal (subs : List Sub) : BalSt :=
  ⟨subs.map fun s => s.backs.map fun b => b.weight * 100,
   subs.map fun s => s.backs.map fun b => b.up,
   subs.map fun s => s.backs.map fun _ => 0,
   subs.map fun s => s.backs.map fun _ => false⟩

/-! ### sub-cluster selection -/

def totalWeight (subs : List Sub) : Int :=
  (subs.map fun s => if s.weight > 0 then s.weight else 0).foldl (· + ·) 0

def availCount (subs : List Sub) : Nat := (subs.filter fun s => decide (s.weight > 0)).length

/-- bal.avail: the index of the last sub-cluster with positive weight -/
def lastAvail : List Sub → Nat → Nat → Nat
  | [], _, acc => acc
  | s :: ss, i, acc => lastAvail ss (i + 1) (if s.weight > 0 then i else acc)

/-- the loop of subClusterBalance -/
def hashPick : List Sub → Nat → Int → Option Nat
  | [], _, _ => none
  | s :: ss, i, w =>
    if s.weight ≤ 0 then hashPick ss (i + 1) w
    else if w - s.weight < 0 then some i else hashPick ss (i + 1) (w - s.weight)

/-- the sub-cluster the request is hashed to (GetHash(key, totalWeight) = h % totalWeight) -/
def primary (cfg : Cfg) : Nat :=
  if availCount cfg.subs == 1 then lastAvail cfg.subs 0 0
  else (hashPick cfg.subs 0 ((cfg.h : Int) % totalWeight cfg.subs)).getD (cfg.subs.length - 1)

def crossOK (s : Sub) : Bool := decide (s.weight ≥ 0) && !s.black

/-- candidates of randomSelectExclude, in list order -/
def crossCandsAux : List Sub → Nat → Nat → List Nat
  | [], _, _ => []
  | s :: ss, i, p => if i ≠ p && crossOK s then i :: crossCandsAux ss (i + 1) p else crossCandsAux ss (i + 1) p

def crossCands (cfg : Cfg) (p : Nat) : List Nat := crossCandsAux cfg.subs 0 p

/-! ### state -/

inductive Ec where
  | none | connect | write | rhdr | timeout | broken | blackhole | nobackend | nosubcross
  deriving DecidableEq, Inhabited

inductive Err where
  | nil | connect | write | rhdr | timeout | broken | other
  | toomany | blackhole | nobackend | nosubcross | crossbal
  deriving DecidableEq, Inhabited

/-- state threaded through one clusterInvoke -/
structure LS where
  bs : BalSt                 -- balancer / backend state (shared)
  conn : Nat → Int           -- BfeBackend.connNum of every backend (shared)
  tb : Option Nat            -- request.Trans.Backend
  retry : Nat                -- request.RetryTime
  ec : Ec                    -- request.ErrCode
  cross : Bool               -- request.Stat.IsCrossCluster
  script : List Attempt
  choices : List Nat         -- oracle: values of r.Int31() in randomSelectExclude
  picks : List Nat := []     -- backends returned by Balance so far, newest first (for the trace only)

inductive BalRes where
  | ok (b : Nat) (sub : Nat) (viaCross : Bool)
  | err (e : Err)

/-- BalanceGslb.Balance from "check if cross retry is disabled" on; `p` = the hashed sub-cluster -/
def crossPhase (pol : Policy) (cfg : Cfg) (p : Nat) (s1 : LS) : BalRes × LS :=
  if cfg.cr ≤ 0 then (.err .nobackend, { s1 with ec := .nobackend })
  else
    let s2 := { s1 with cross := true }
    let cands := crossCands cfg p
    if cands.length == 0 then (.err .nosubcross, { s2 with ec := .nosubcross })
    else
      let q := cands.getD (s2.choices.headD 0 % cands.length) 0
      let s3 := { s2 with choices := s2.choices.tail }
      match pol.sel cfg s3.bs s3.conn q with
      | (some j, bs') => (.ok (bid q j) q true, { s3 with bs := bs' })
      | (none, bs') => (.err .crossbal, { s3 with bs := bs', ec := .nobackend })

/-- BalanceGslb.Balance -/
def balance (pol : Policy) (cfg : Cfg) (s : LS) : BalRes × LS :=
  if (s.retry : Int) > cfg.rm + cfg.cr then (.err .toomany, s)
  else
    let p := primary cfg
    if (cfg.subs.getD p default).black then (.err .blackhole, { s with ec := .blackhole })
    else if (s.retry : Int) ≤ cfg.rm then
      match pol.sel cfg s.bs s.conn p with
      | (some j, bs') => (.ok (bid p j) p false, { s with bs := bs' })
      | (none, bs') => crossPhase pol cfg p { s with bs := bs', retry := cfg.rm.toNat }
    else crossPhase pol cfg p s

/-- the `switch err.(type)` of clusterInvoke + checkAllowRetry -/
def allowRetry (cfg : Cfg) (rq : ReqSpec) : Rt → Bool
  | .ok _ => false
  | .connect => true
  | .other => false
  | .panic => false
  | _ => cfg.rl == 1 && rq.isGET && rq.noBody

def ecOf (old : Ec) : Rt → Ec
  | .ok _ => .none
  | .connect => .connect
  | .write => .write
  | .writeT => .write
  | .rhdr => .rhdr
  | .timeout => .timeout
  | .broken => .broken
  | .other => old
  | .panic => old

def errOf : Rt → Err
  | .ok _ => .nil
  | .connect => .connect
  | .write => .write
  | .writeT => .write
  | .rhdr => .rhdr
  | .timeout => .timeout
  | .broken => .broken
  | .other => .other
  | .panic => .nil

/-- verdicts after which clusterInvoke is left before the backend is counted: Finish (return) and a panicking
    filter.  `LR.act` = 9 marks "left by a panic". -/
def endsRequest : Fwd → Bool
  | .finish | .panic => true
  | _ => false

/-- the backend the request is sent to: the one Balance chose unless the callback replaced it -/
def target (cfg : Cfg) (f : Fwd) (b : Nat) : Nat :=
  match f with
  | .replace k => (allBids cfg).getD k b
  | _ => b

/-- observable events of one clusterInvoke -/
inductive Ev where
  /-- RoundTrip to backend `b` (after a possible replacement by the callback); `sub` = the sub-cluster
      Balance selected; `snap` = all connNums at that moment -/
  | rt (b sub : Nat) (viaCross : Bool) (snap : Nat → Int) (out : Rt)
  /-- HandleForward returned Finish for backend `b` (no RoundTrip) -/
  | fin (b sub : Nat)

structure LR where
  res : Option Nat    -- status of the response, none = nil
  err : Err
  act : Nat           -- 1 = closeAfterReply
  st : LS
  evs : List Ev

def decTb (conn : Nat → Int) : Option Nat → Nat → Int
  | some o => upd conn o (-1)
  | none => conn

/-- the retry loop; first Nat = iterations left (20 at entry), `last` = current value of `err` -/
def loop (pol : Policy) (cfg : Cfg) (rq : ReqSpec) : Nat → LS → Err → LR
  | 0, s, last => ⟨none, last, 0, s, []⟩
  | n + 1, s, _ =>
    match balance pol cfg s with
    | (.err .crossbal, s1) => loop pol cfg rq n { s1 with retry := s1.retry + 1 } .crossbal
    | (.err e, s1) => ⟨none, e, 0, s1, []⟩
    | (.ok b0 sub x, s1) =>
      let conn1 := decTb s1.conn s1.tb
      let a := s1.script.headD Attempt.dflt
      if endsRequest a.fwd then
        ⟨none, .nil, (if a.fwd = .panic then 9 else 1), { s1 with conn := conn1, tb := none, script := s1.script.tail, picks := b0 :: s1.picks }, [.fin b0 sub]⟩
      else
        let b := target cfg a.fwd b0
        let conn2 := upd conn1 b 1
        let s2 : LS := { s1 with bs := pol.note cfg s1.bs b a.rt, conn := conn2, tb := some b,
                                 script := s1.script.tail, ec := ecOf s1.ec a.rt, picks := b0 :: s1.picks }
        let e := Ev.rt b sub x conn2 a.rt
        match a.rt with
        | .ok st => ⟨some st, .nil, 0, s2, [e]⟩
        | o =>
          if allowRetry cfg rq o then
            let r := loop pol cfg rq n { s2 with retry := s2.retry + 1 } (errOf o)
            { r with evs := e :: r.evs }
          else ⟨none, errOf o, (if o = .panic then 9 else 0), s2, [e]⟩

/-! ### several requests sharing one balancer: schedules of invoke / finish steps -/

structure RqSt where
  tb : Option Nat := none
  invoked : Bool := false
  done : Bool := false
  dead : Bool := false   -- its clusterInvoke was left by a panic: FinishReq will never run for it
  deriving Inhabited

inductive Step where
  | inv (k : Nat) | fin (k : Nat)
  /-- health-check events on backend `b`: `up` = the checker saw it recover (SetRestart(true); SetAvail(true):
      avail := true, failNum := 0), `down` = UpdateStatus took it out (SetAvail(false)).  They may come at any
      point of a schedule, also while requests are in flight on `b`; they must not touch connNum. -/
  | up (b : Nat) | down (b : Nat)
  /-- the backend table is reloaded without backend `b` (BalanceRR.Update drops it from the list; requests in
      flight keep the old object and its counter) -/
  | remove (b : Nat)

inductive StepOut where
  | inv (k : Nat) (r : LR)
  | fin (k : Nat) (act ran : Nat) (panicked : Bool) (conn : Nat → Int)
  | flip (isUp : Bool) (b : Nat) (conn : Nat → Int) (bs : BalSt)
  | removed (b : Nat) (conn : Nat → Int) (bs : BalSt)
  | deadFin (k : Nat) (conn : Nat → Int)
  | bad

structure G where
  bs : BalSt
  conn : Nat → Int
  rqs : List RqSt
  outs : List StepOut     -- newest first

def setRq (l : List RqSt) (i : Nat) (v : RqSt) : List RqSt :=
  match l, i with
  | [], _ => []
  | _ :: xs, 0 => v :: xs
  | x :: xs, i + 1 => x :: setRq xs i v

def G.init (cfg : Cfg) (nreq : Nat) : G :=
  ⟨initBal cfg.subs, fun _ => 0, List.replicate nreq {}, []⟩

/-- the state clusterInvoke starts from -/
def entryLS (g : G) (rq : ReqSpec) (ch : List Nat) : LS :=
  ⟨g.bs, g.conn, none, 0, .none, false, rq.script, ch, []⟩

/-- BfeBackend.setAvail on backend `b` (global id) -/
def setAvail (bs : BalSt) (b : Nat) (avail : Bool) : BalSt :=
  let si := b / 8
  let j := b % 8
  let bs1 := { bs with up := setAt bs.up si (setAt (bs.up.getD si []) j avail) }
  if avail then { bs1 with fails := setAt bs1.fails si (setAt (bs1.fails.getD si []) j 0) } else bs1

/-- what step `i<k>` runs: clusterInvoke, unless a HandleBeforeLocation filter made ServeHTTP return
    (action `act`) before clusterInvoke was reached -/
def invoke (pol : Policy) (cfg : Cfg) (rq : ReqSpec) (g : G) (ch : List Nat) : LR :=
  match rq.pre with
  | some act => ⟨none, .nil, act, entryLS g rq ch, []⟩
  | none => loop pol cfg rq 20 (entryLS g rq ch) .nil

/-- one step; `ch` = the oracle values for this step (used by `inv` only) -/
def step (pol : Policy) (cfg : Cfg) (reqs : List ReqSpec) (g : G) (st : Step) (ch : List Nat) : G :=
  match st with
  | .inv k =>
    match reqs[k]?, g.rqs[k]? with
    | some rq, some r =>
      if r.invoked then { g with outs := .bad :: g.outs }
      else
        let lr := invoke pol cfg rq g ch
        { bs := lr.st.bs, conn := lr.st.conn,
          rqs := setRq g.rqs k { tb := lr.st.tb, invoked := true, done := false, dead := lr.act == 9 },
          outs := .inv k lr :: g.outs }
    | _, _ => { g with outs := .bad :: g.outs }
  | .fin k =>
    match g.rqs[k]? with
    | some r =>
      if !r.invoked || r.done then { g with outs := .bad :: g.outs }
      else if r.dead then
        -- nothing runs; a request that panicked inside RoundTrip keeps its count for ever (known finding)
        { g with outs := .deadFin k g.conn :: g.outs }
      else
        let fc := finChain ((reqs.getD k ⟨false, false, [], [], none⟩).finish) finFilters 0
        -- deferred in FinishReq: runs on every way out of the callback block (early return on Finish, panic)
        let conn' := decTb g.conn r.tb
        { g with conn := conn', rqs := setRq g.rqs k { tb := none, invoked := true, done := true },
                 outs := .fin k fc.1 fc.2.1 fc.2.2 conn' :: g.outs }
    | none => { g with outs := .bad :: g.outs }
  | .up b => { g with bs := setAvail g.bs b true, outs := .flip true b g.conn (setAvail g.bs b true) :: g.outs }
  | .down b => { g with bs := setAvail g.bs b false, outs := .flip false b g.conn (setAvail g.bs b false) :: g.outs }
  | .remove b =>
    let bs' := { g.bs with gone := setAt g.bs.gone (b / 8) (setAt (g.bs.gone.getD (b / 8) []) (b % 8) true) }
    { g with bs := bs', outs := .removed b g.conn bs' :: g.outs }

def runSched (pol : Policy) (cfg : Cfg) (reqs : List ReqSpec) : G → List Step → List (List Nat) → G
  | g, [], _ => g
  | g, st :: rest, chs => runSched pol cfg reqs (step pol cfg reqs g st (chs.headD [])) rest chs.tail

/-- number of requests whose Trans.Backend is `b` -/
def inflight : List RqSt → Nat → Int
  | [], _ => 0
  | r :: rs, b => (if r.tb = some b then 1 else 0) + inflight rs b

end BfeVerif.C07
