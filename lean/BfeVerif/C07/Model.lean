/-
  C07 / C08 — model of the retry loop of `ReverseProxy.clusterInvoke` + `FinishReq`
  (bfe_server/reverseproxy.go) together with `BalanceGslb.Balance` (bfe_balance/bal_gslb/bal_gslb.go)
  and the smooth weighted round robin it calls (bfe_balance/bal_slb/bal_rr.go: smoothBalance).
  Core-only.  It mirrors the code AFTER the two repairs recorded in /verif/fixes/C07-*.md, C08-*.md:

    for i := 0; i < 20; i++ {
        clusterBackend, err = bal.Balance(request)
        if err == ErrBkCrossRetryBalance { request.RetryTime += 1; continue }
        if err != nil { break }
        if request.Trans.Backend != nil { request.Trans.Backend.DecConnNum(); request.Trans.Backend = nil }
        request.SetRequestTransport(clusterBackend, clusterTransport)
        if FilterForward(request) == BfeHandlerFinish { request.Trans.Backend = nil /*fix*/; action = closeAfterReply; return }
        backend := request.Trans.Backend;  backend.IncConnNum()
        res, err = transport.RoundTrip(outreq)
        if err == nil { request.ErrCode = nil; break }
        allowRetry := switch err.(type) { ConnectError: true; Write/ReadRespHeader/Timeout/Broken: checkAllowRetry; default: false }
        if !allowRetry { break }
        request.RetryTime += 1
    }
    FinishReq:  defer { if request.Trans.Backend != nil { request.Trans.Backend.DecConnNum() } }

  External inputs are explicit parameters: the per-attempt outcomes (HandleForward verdict, RoundTrip result)
  are a script, the murmur3 hash residue of the client address is `Cfg.w`, and the values drawn by
  `randomSelectExclude` (rand seeded with the clock) are the oracle stream `choices`.
-/
namespace BfeVerif.C07

/-- one backend of a sub-cluster: availability flag and configured weight -/
structure Back where
  up : Bool
  weight : Int
  deriving Inhabited

structure Sub where
  name : String
  weight : Int
  black : Bool          -- name == "GSLB_BLACKHOLE"
  backs : List Back
  deriving Inhabited

/-- verdict of the HandleForward callback chain: everything except Finish is ignored by clusterInvoke -/
inductive Fwd where
  | goon | finish
  deriving DecidableEq, Inhabited

/-- result of one RoundTrip (http and fcgi error types fall in the same `case` arms) -/
inductive Rt where
  | ok (status : Nat) | connect | write | rhdr | timeout | broken | other
  deriving DecidableEq, Inhabited

structure Attempt where
  fwd : Fwd
  rt : Rt
  deriving Inhabited

/-- what happens when the script is exhausted: callback goes on, backend answers 200 -/
def Attempt.dflt : Attempt := ⟨.goon, .ok 200⟩

structure Cfg where
  rm : Int              -- bal.retryMax
  cr : Int              -- bal.crossRetry
  rl : Nat              -- cluster.RetryLevel()
  w : Nat               -- GetHash(hashKey, totalWeight)
  subs : List Sub       -- bal.subClusters (sorted by name)

structure ReqSpec where
  isGET : Bool          -- outreq.Method == "GET"
  noBody : Bool         -- checkRequestWithoutBody(outreq)
  script : List Attempt

/-! ### smooth weighted round robin inside one sub-cluster -/

def modAt (l : List Int) (i : Nat) (d : Int) : List Int :=
  match l, i with
  | [], _ => []
  | x :: xs, 0 => (x + d) :: xs
  | x :: xs, i + 1 => x :: modAt xs i d

/-- the `for` loop of smoothBalance: (best index, total, updated currents) -/
def smoothPass : List Back → List Int → Nat → Option Nat → Int → Int → Option Nat × Int × List Int
  | b :: bs, c :: cs, i, best, mx, total =>
    if !b.up || b.weight * 100 ≤ 0 then
      let r := smoothPass bs cs (i + 1) best mx total
      (r.1, r.2.1, c :: r.2.2)
    else
      let pick := best.isNone || c > mx
      let r := smoothPass bs cs (i + 1) (if pick then some i else best) (if pick then c else mx) (total + c)
      (r.1, r.2.1, (c + b.weight * 100) :: r.2.2)
  | _, cs, _, best, _, total => (best, total, cs)

def smoothBalance (backs : List Back) (cur : List Int) : Option Nat × List Int :=
  match smoothPass backs cur 0 none 0 0 with
  | (none, _, cur') => (none, cur')
  | (some i, total, cur') => (some i, modAt cur' i (-total))

def setAt (l : List (List Int)) (i : Nat) (v : List Int) : List (List Int) :=
  match l, i with
  | [], _ => []
  | _ :: xs, 0 => v :: xs
  | x :: xs, i + 1 => x :: setAt xs i v

/-- SubCluster.balance: backend index inside sub-cluster `si` (none = error), updated currents -/
def subBalance (cfg : Cfg) (cur : List (List Int)) (si : Nat) : Option Nat × List (List Int) :=
  let sub := cfg.subs.getD si default
  if sub.backs.length == 0 then (none, cur)
  else
    let r := smoothBalance sub.backs (cur.getD si [])
    (r.1, setAt cur si r.2)

def initCur (subs : List Sub) : List (List Int) :=
  subs.map fun s => s.backs.map fun b => b.weight * 100

/-! ### sub-cluster selection -/

def totalWeight (subs : List Sub) : Int :=
  (subs.map fun s => if s.weight > 0 then s.weight else 0).foldl (· + ·) 0

def availCount (subs : List Sub) : Nat := (subs.filter fun s => decide (s.weight > 0)).length

/-- bal.avail: the index of the last sub-cluster with positive weight -/
def lastAvail : List Sub → Nat → Nat → Nat
  | [], _, acc => acc
  | s :: ss, i, acc => lastAvail ss (i + 1) (if s.weight > 0 then i else acc)

/-- the loop of subClusterBalance -/
def hashPick : List Sub → Nat → Int → Option Nat
  | [], _, _ => none
  | s :: ss, i, w =>
    if s.weight ≤ 0 then hashPick ss (i + 1) w
    else if w - s.weight < 0 then some i else hashPick ss (i + 1) (w - s.weight)

/-- the sub-cluster the request is hashed to -/
def primary (cfg : Cfg) : Nat :=
  if availCount cfg.subs == 1 then lastAvail cfg.subs 0 0
  else (hashPick cfg.subs 0 cfg.w).getD (cfg.subs.length - 1)

def crossOK (s : Sub) : Bool := decide (s.weight ≥ 0) && !s.black

/-- candidates of randomSelectExclude, in list order -/
def crossCandsAux : List Sub → Nat → Nat → List Nat
  | [], _, _ => []
  | s :: ss, i, p => if i ≠ p && crossOK s then i :: crossCandsAux ss (i + 1) p else crossCandsAux ss (i + 1) p

def crossCands (cfg : Cfg) (p : Nat) : List Nat := crossCandsAux cfg.subs 0 p

/-- global backend id -/
def bid (sub idx : Nat) : Nat := sub * 8 + idx

/-! ### state -/

inductive Ec where
  | none | connect | write | rhdr | timeout | broken | blackhole | nobackend | nosubcross
  deriving DecidableEq, Inhabited

inductive Err where
  | nil | connect | write | rhdr | timeout | broken | other
  | toomany | blackhole | nobackend | nosubcross | crossbal
  deriving DecidableEq, Inhabited

def upd (f : Nat → Int) (b : Nat) (d : Int) : Nat → Int := fun x => if x = b then f x + d else f x

/-- state threaded through one clusterInvoke -/
structure LS where
  cur : List (List Int)      -- WRR currents of all sub-clusters (shared balancer state)
  conn : Nat → Int           -- BfeBackend.connNum of every backend (shared)
  tb : Option Nat            -- request.Trans.Backend
  retry : Nat                -- request.RetryTime
  ec : Ec                    -- request.ErrCode
  cross : Bool               -- request.Stat.IsCrossCluster
  script : List Attempt
  choices : List Nat         -- oracle: values of r.Int31() in randomSelectExclude

inductive BalRes where
  | ok (b : Nat) (sub : Nat) (viaCross : Bool)
  | err (e : Err)

/-- BalanceGslb.Balance from "check if cross retry is disabled" on; `p` = the hashed sub-cluster -/
def crossPhase (cfg : Cfg) (p : Nat) (s1 : LS) : BalRes × LS :=
  if cfg.cr ≤ 0 then (.err .nobackend, { s1 with ec := .nobackend })
  else
    let s2 := { s1 with cross := true }
    let cands := crossCands cfg p
    if cands.length == 0 then (.err .nosubcross, { s2 with ec := .nosubcross })
    else
      let q := cands.getD (s2.choices.headD 0 % cands.length) 0
      let s3 := { s2 with choices := s2.choices.tail }
      match subBalance cfg s3.cur q with
      | (some j, cur') => (.ok (bid q j) q true, { s3 with cur := cur' })
      | (none, cur') => (.err .crossbal, { s3 with cur := cur', ec := .nobackend })

/-- BalanceGslb.Balance -/
def balance (cfg : Cfg) (s : LS) : BalRes × LS :=
  if (s.retry : Int) > cfg.rm + cfg.cr then (.err .toomany, s)
  else
    let p := primary cfg
    if (cfg.subs.getD p default).black then (.err .blackhole, { s with ec := .blackhole })
    else if (s.retry : Int) ≤ cfg.rm then
      match subBalance cfg s.cur p with
      | (some j, cur') => (.ok (bid p j) p false, { s with cur := cur' })
      | (none, cur') => crossPhase cfg p { s with cur := cur', retry := cfg.rm.toNat }
    else crossPhase cfg p s

/-- the `switch err.(type)` of clusterInvoke + checkAllowRetry -/
def allowRetry (cfg : Cfg) (rq : ReqSpec) : Rt → Bool
  | .ok _ => false
  | .connect => true
  | .other => false
  | _ => cfg.rl == 1 && rq.isGET && rq.noBody

def ecOf (old : Ec) : Rt → Ec
  | .ok _ => .none
  | .connect => .connect
  | .write => .write
  | .rhdr => .rhdr
  | .timeout => .timeout
  | .broken => .broken
  | .other => old

def errOf : Rt → Err
  | .ok _ => .nil
  | .connect => .connect
  | .write => .write
  | .rhdr => .rhdr
  | .timeout => .timeout
  | .broken => .broken
  | .other => .other

/-- observable events of one clusterInvoke -/
inductive Ev where
  /-- RoundTrip to backend `b` of sub-cluster `sub`; `snap` = all connNums at that moment -/
  | rt (b sub : Nat) (viaCross : Bool) (snap : Nat → Int) (out : Rt)
  /-- HandleForward returned Finish for backend `b` (no RoundTrip) -/
  | fin (b sub : Nat)

structure LR where
  res : Option Nat    -- status of the response, none = nil
  err : Err
  act : Nat           -- 1 = closeAfterReply
  st : LS
  evs : List Ev

def decTb (conn : Nat → Int) : Option Nat → Nat → Int
  | some o => upd conn o (-1)
  | none => conn

/-- the retry loop; first argument = iterations left (20 at entry), `last` = current value of `err` -/
def loop (cfg : Cfg) (rq : ReqSpec) : Nat → LS → Err → LR
  | 0, s, last => ⟨none, last, 0, s, []⟩
  | n + 1, s, _ =>
    match balance cfg s with
    | (.err .crossbal, s1) => loop cfg rq n { s1 with retry := s1.retry + 1 } .crossbal
    | (.err e, s1) => ⟨none, e, 0, s1, []⟩
    | (.ok b sub x, s1) =>
      let conn1 := decTb s1.conn s1.tb
      let a := s1.script.headD Attempt.dflt
      match a.fwd with
      | .finish =>
        ⟨none, .nil, 1, { s1 with conn := conn1, tb := none, script := s1.script.tail }, [.fin b sub]⟩
      | .goon =>
        let conn2 := upd conn1 b 1
        let s2 := { s1 with conn := conn2, tb := some b, script := s1.script.tail, ec := ecOf s1.ec a.rt }
        let e := Ev.rt b sub x conn2 a.rt
        match a.rt with
        | .ok st => ⟨some st, .nil, 0, s2, [e]⟩
        | o =>
          if allowRetry cfg rq o then
            let r := loop cfg rq n { s2 with retry := s2.retry + 1 } (errOf o)
            { r with evs := e :: r.evs }
          else ⟨none, errOf o, 0, s2, [e]⟩

/-! ### several requests sharing one balancer: schedules of invoke / finish steps -/

structure RqSt where
  tb : Option Nat := none
  invoked : Bool := false
  done : Bool := false
  deriving Inhabited

inductive Step where
  | inv (k : Nat) | fin (k : Nat)

inductive StepOut where
  | inv (k : Nat) (r : LR)
  | fin (k : Nat) (conn : Nat → Int)
  | bad

structure G where
  cur : List (List Int)
  conn : Nat → Int
  rqs : List RqSt
  outs : List StepOut     -- newest first

def setRq (l : List RqSt) (i : Nat) (v : RqSt) : List RqSt :=
  match l, i with
  | [], _ => []
  | _ :: xs, 0 => v :: xs
  | x :: xs, i + 1 => x :: setRq xs i v

def G.init (cfg : Cfg) (nreq : Nat) : G :=
  ⟨initCur cfg.subs, fun _ => 0, List.replicate nreq {}, []⟩

/-- one step; `ch` = the oracle values for this step (used by `inv` only) -/
def step (cfg : Cfg) (reqs : List ReqSpec) (g : G) (st : Step) (ch : List Nat) : G :=
  match st with
  | .inv k =>
    match reqs[k]?, g.rqs[k]? with
    | some rq, some r =>
      if r.invoked then { g with outs := .bad :: g.outs }
      else
        let lr := loop cfg rq 20 ⟨g.cur, g.conn, none, 0, .none, false, rq.script, ch⟩ .nil
        { cur := lr.st.cur, conn := lr.st.conn,
          rqs := setRq g.rqs k { tb := lr.st.tb, invoked := true, done := false },
          outs := .inv k lr :: g.outs }
    | _, _ => { g with outs := .bad :: g.outs }
  | .fin k =>
    match g.rqs[k]? with
    | some r =>
      if !r.invoked || r.done then { g with outs := .bad :: g.outs }
      else
        let conn' := decTb g.conn r.tb
        { g with conn := conn', rqs := setRq g.rqs k { tb := none, invoked := true, done := true },
                 outs := .fin k conn' :: g.outs }
    | none => { g with outs := .bad :: g.outs }

def runSched (cfg : Cfg) (reqs : List ReqSpec) : G → List Step → List (List Nat) → G
  | g, [], _ => g
  | g, st :: rest, chs => runSched cfg reqs (step cfg reqs g st (chs.headD [])) rest chs.tail

/-- number of requests whose Trans.Backend is `b` -/
def inflight : List RqSt → Nat → Int
  | [], _ => 0
  | r :: rs, b => (if r.tb = some b then 1 else 0) + inflight rs b

end BfeVerif.C07
