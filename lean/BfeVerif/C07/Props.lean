import BfeVerif.C07.Proofs
import BfeVerif.Generated.C07
/-!
  C07 — active-connection counts match in-flight requests.
  Property theorems only (helper lemmas are in `Proofs.lean`).  The model is the repaired code
  (fix C07-forward-finish: a HandleForward Finish verdict clears Trans.Backend; before the fix the
  schedule `[inv 0, fin 0]` with script `[finish]` left the chosen backend at -1, see corpus/C07).

  `inflight rqs b` = number of requests whose `Trans.Backend` is backend `b`.  `Trans.Backend` is set
  exactly when the request is sent to a backend (theorem `C07_assigned_is_last_roundtrip`).
-/
namespace BfeVerif.C07

/-- **C07 (full strength)**: whatever the cluster configuration, the scripts (transport errors, retry
    decisions, HandleForward verdicts), the schedule of clusterInvoke / FinishReq steps of several
    requests - with health-check events (backends taken out / coming back) and reloads that remove a backend from the table
    at arbitrary points in between, filters or transports that panic -
    and the random cross-sub-cluster choices: after every schedule each backend's connNum
    equals the number of requests currently assigned to it, is never negative, and is zero once every
    invoked request has finished.  (A schedule is arbitrary, so this covers every prefix.) -/
theorem C07_balanced (pol : Policy) (cfg : Cfg) (reqs : List ReqSpec) (sched : List Step) (chs : List (List Nat)) :
    let g := runSched pol cfg reqs (G.init cfg reqs.length) sched chs
    (∀ b, g.conn b = inflight g.rqs b) ∧ (∀ b, 0 ≤ g.conn b) ∧
    ((∀ r ∈ g.rqs, r.invoked = true → r.done = true) → ∀ b, g.conn b = 0) := by
  intro g
  have h : WF g := WF_run pol cfg reqs sched _ chs (WF_init cfg reqs.length)
  refine ⟨h.1, fun b => ?_, fun hall b => ?_⟩
  · rw [h.1 b]; exact inflight_nonneg _ _
  · rw [h.1 b]
    apply inflight_zero
    intro r hr
    apply h.2 r hr
    cases hi : r.invoked with
    | false => exact Or.inl rfl
    | true => exact Or.inr (hall r hr hi)

/-- The same inside a clusterInvoke: at the moment of every RoundTrip (to backend `b'`) of a request that
    starts from a consistent state, each backend's connNum is the number of OTHER requests assigned to it
    plus one for `b'` — also in the middle of a retry sequence that moves the request between backends. -/
theorem C07_roundtrip_snapshot (pol : Policy) (cfg : Cfg) (reqs : List ReqSpec) (sched : List Step) (chs : List (List Nat))
    (rq : ReqSpec) (ch : List Nat) (b' sub : Nat) (x : Bool) (snap : Nat → Int) (o : Rt) :
    let g := runSched pol cfg reqs (G.init cfg reqs.length) sched chs
    Ev.rt b' sub x snap o ∈ (loop pol cfg rq 20 (entryLS g rq ch) .nil).evs →
    ∀ b, snap b = inflight g.rqs b + (if b = b' then 1 else 0) := by
  intro g he b
  have h : WF g := WF_run pol cfg reqs sched _ chs (WF_init cfg reqs.length)
  have := (loop_frame pol cfg rq 20 (entryLS g rq ch) .nil).2 _ he b
  rw [show (entryLS g rq ch).conn = g.conn from rfl, show (entryLS g rq ch).tb = none from rfl] at this
  rw [← h.1 b]
  simp only [ind] at this
  by_cases hb : b = b'
  · subst hb; simp at this ⊢; omega
  · have h2 : ¬ b' = b := fun e => hb e.symm
    simp [hb, h2] at this ⊢; omega

/-- `Trans.Backend` after clusterInvoke is the backend of the last RoundTrip, and nothing if the last
    event was a HandleForward Finish verdict or no backend was ever selected. -/
theorem C07_assigned_is_last_roundtrip (pol : Policy) (cfg : Cfg) (rq : ReqSpec) (n : Nat) (s : LS) (last : Err) :
    (loop pol cfg rq n s last).st.tb =
      match (loop pol cfg rq n s last).evs.getLast? with
      | some (.rt b _ _ _ _) => some b
      | some (.fin _ _) => none
      | none => s.tb := by
  induction n generalizing s last with
  | zero => simp [loop]
  | succ n ih =>
    have hb := balance_frame pol cfg s
    rw [loop]
    split
    · rename_i s1 heq
      rw [heq] at hb
      rw [ih]; dsimp only; rw [hb.2]
    · rename_i e s1 _ heq
      rw [heq] at hb
      simp only [List.getLast?_nil]
      exact hb.2
    · dsimp only
      split
      · simp
      · split
        · simp
        · split
          · dsimp only
            rw [ih]
            dsimp only
            cases hl : (loop pol cfg rq n _ _).evs.getLast? with
            | none =>
              rw [List.getLast?_eq_none_iff] at hl
              rw [hl]; simp
            | some e =>
              have : ∀ (e0 : Ev) (l : List Ev), l.getLast? = some e → (e0 :: l).getLast? = some e := by
                intro e0 l h
                cases l with
                | nil => simp at h
                | cons y ys => rw [List.getLast?_cons_cons]; exact h
              rw [this _ _ hl]
              cases e <;> rfl
          · simp

/-- **C07 for the websocket and TLS-stream proxies**: whatever the balance handler answers (errors, any
    backend), whichever dials succeed, and however the serve() calls of several client connections are
    started and ended: each backend's connNum equals the number of proxied connections currently holding
    it, is never negative, and is zero once every started serve() has returned. -/
theorem C07_proxy_balanced (dial : Nat → Bool) (rm : Nat) (scripts : List (List Px.Pick)) (sched : List Step) :
    let g := Px.prun dial rm scripts (Px.PG.init scripts.length) sched
    (∀ b, g.conn b = inflight g.conns b) ∧ (∀ b, 0 ≤ g.conn b) ∧
    ((∀ r ∈ g.conns, r.invoked = true → r.done = true) → ∀ b, g.conn b = 0) := by
  intro g
  have h : PWF g := PWF_run dial rm scripts sched _ (PWF_init scripts.length)
  refine ⟨h.1, fun b => ?_, fun hall b => ?_⟩
  · rw [h.1 b]; exact inflight_nonneg _ _
  · rw [h.1 b]
    apply inflight_zero
    intro r hr
    apply h.2 r hr
    cases hi : r.invoked with
    | false => exact Or.inl rfl
    | true => exact Or.inr (hall r hr hi)

/-- a refused dial gives the count back; an established connection holds exactly one -/
example : let g := Px.prun (fun j => j == 1) 0 [[.be 0, .err, .be 1]] (Px.PG.init 1) [.inv 0]
    g.conn 0 = 0 ∧ g.conn 1 = 1 := by decide
example : let g := Px.prun (fun j => j == 1) 0 [[.be 0, .err, .be 1]] (Px.PG.init 1) [.inv 0, .fin 0]
    g.conn 0 = 0 ∧ g.conn 1 = 0 := by decide

/-! Non-vacuity / regression examples with the policy of the code (`realPolicy`).
    `cfg1`: one sub-cluster `a` with two live backends (ids 0 and 1), WRR; `cfgLC`: the same with WLC. -/
def cfg1 : Cfg := ⟨2, 0, 0, 0, 0, 0, [⟨"a", 1, false, [⟨true, 1⟩, ⟨true, 1⟩]⟩], 0⟩
def cfgLC : Cfg := { cfg1 with mode := 1 }

/-- the former witness: a Finish verdict on the first attempt; the counter stays 0 (was -1) -/
example : let g := runSched realPolicy cfg1 [⟨true, true, [⟨.finish, .ok 200⟩], [], none⟩] (G.init cfg1 1) [.inv 0, .fin 0] []
    g.conn 0 = 0 ∧ g.conn 1 = 0 := by decide

/-- connect error on a0, retry goes to a1, Finish verdict there: both counters are 0 afterwards -/
example : let g := runSched realPolicy cfg1 [⟨true, true, [⟨.goon, .connect⟩, ⟨.finish, .ok 200⟩], [], none⟩] (G.init cfg1 1) [.inv 0] []
    g.conn 0 = 0 ∧ g.conn 1 = 0 ∧ (g.rqs.map (·.tb)) = [none] := by decide

/-- two requests in flight on different backends -/
example : let g := runSched realPolicy cfg1 [⟨true, true, [], [], none⟩, ⟨false, false, [⟨.goon, .write⟩], [], none⟩] (G.init cfg1 2) [.inv 0, .inv 1] []
    g.conn 0 = 1 ∧ g.conn 1 = 1 := by decide

/-- least-connection: with request 0 holding a0, requests 1 and 2 are both sent to ... a1 then a tie again;
    after request 1 finished the next one goes to a1 again (the counters feed the choice) -/
example : let g := runSched realPolicy cfgLC [⟨true, true, [], [], none⟩, ⟨true, true, [], [], none⟩, ⟨true, true, [], [], none⟩] (G.init cfgLC 3) [.inv 0, .inv 1, .fin 1, .inv 2] []
    g.conn 0 = 1 ∧ g.conn 1 = 1 ∧ (g.rqs.map (·.tb)) = [some 0, none, some 1] := by decide

/-- the callback replaces the backend chosen by Balance (a0) by a1: the request is counted on a1, the
    one it is sent to, and released from a1 by FinishReq -/
example : let g := runSched realPolicy cfg1 [⟨true, true, [⟨.replace 1, .ok 200⟩], [], none⟩] (G.init cfg1 1) [.inv 0] []
    g.conn 0 = 0 ∧ g.conn 1 = 1 := by decide
example : let g := runSched realPolicy cfg1 [⟨true, true, [⟨.replace 1, .ok 200⟩], [], none⟩] (G.init cfg1 1) [.inv 0, .fin 0] []
    g.conn 0 = 0 ∧ g.conn 1 = 0 := by decide

/-- **C07 (tie to the source, regenerated facts)**: in package bfe_server the connection counters and
    `request.Trans.Backend` are touched only where the model does it - in clusterInvoke (decrement / clear / SetRequestTransport / increment)
    and FinishReq (decrement), or in helpers that only these two (transitively) call; the extractor follows
    same-package helpers, methods and closures, so the fact is about behaviour-relevant structure, not syntax -
    so the callback points consulted in ServeHTTP (HandleBeforeLocation, HandleFoundProduct, HandleAfterLocation,
    HandleReadResponse) cannot change a counter whatever they answer; and FinishReq's decrement is a `defer`
    registered before the HandleRequestFinish callback block, so it runs for every verdict (also the early
    return on Finish) and when a filter panics - which is how `step (.fin k)` models it. -/
theorem C07_sites_as_modelled :
    BfeVerif.Generated.C07.invokeKinds = ["clear", "dec", "inc", "set"] ∧
    BfeVerif.Generated.C07.finishKinds = ["dec"] ∧
    BfeVerif.Generated.C07.counterSitesConfined = true ∧
    BfeVerif.Generated.C07.finishReqDecDeferredFirst = true := by
  decide

/-- HandleRequestFinish filters: whatever they answer - Finish (FinishReq returns early), another verdict, a
    panic - the request's backend is released (the decrement is deferred); a request that a
    HandleBeforeLocation filter ended never took a backend and releases nothing -/
example : let g := runSched realPolicy cfg1 [⟨true, true, [], [.goon, .finish], none⟩, ⟨true, true, [], [.panic], none⟩,
      ⟨true, true, [], [.other], none⟩] (G.init cfg1 3) [.inv 0, .inv 1, .inv 2, .fin 0, .fin 1, .fin 2] []
    g.conn 0 = 0 ∧ g.conn 1 = 0 := by decide
example : let g := runSched realPolicy cfg1 [⟨true, true, [], [.finish], some 1⟩] (G.init cfg1 1) [.inv 0, .fin 0] []
    g.conn 0 = 0 ∧ g.conn 1 = 0 := by decide
example : finChain [.goon, .finish, .panic] finFilters 0 = (1, 2, false) := by decide

/-- health-check events (a backend is taken out and comes back) while a request is in flight on it leave its
    count alone; the request still releases it afterwards.  `C07_balanced` quantifies over schedules that contain
    such `up` / `down` steps at arbitrary positions. -/
example : let g := runSched realPolicy cfg1 [⟨true, true, [], [], none⟩] (G.init cfg1 1) [.inv 0, .down 0, .up 0] []
    g.conn 0 = 1 ∧ g.conn 1 = 0 := by decide
example : let g := runSched realPolicy cfg1 [⟨true, true, [], [], none⟩] (G.init cfg1 1) [.inv 0, .down 0, .up 0, .fin 0] []
    g.conn 0 = 0 ∧ g.conn 1 = 0 := by decide

/-- a backend removed by a reload of the backend table while a request is in flight on it: the old object keeps
    the count until FinishReq, is never negative, and new requests go elsewhere -/
example : let g := runSched realPolicy cfg1 [⟨true, true, [], [], none⟩, ⟨true, true, [], [], none⟩] (G.init cfg1 2) [.inv 0, .remove 0, .inv 1] []
    g.conn 0 = 1 ∧ g.conn 1 = 1 := by decide
example : let g := runSched realPolicy cfg1 [⟨true, true, [], [], none⟩, ⟨true, true, [], [], none⟩] (G.init cfg1 2) [.inv 0, .remove 0, .inv 1, .fin 0, .fin 1] []
    g.conn 0 = 0 ∧ g.conn 1 = 0 := by decide

/-- a panicking HandleForward filter leaves nothing counted; a panic inside RoundTrip (after IncConnNum) leaves the
    request counted for ever because conn.serve's recover skips FinishReq - the model mirrors this (known finding
    `leak-after-panic`); `C07_balanced`'s equation still holds, its last clause does not apply (the request is
    never `done`) -/
example : let g := runSched realPolicy cfg1 [⟨true, true, [⟨.panic, .ok 200⟩], [], none⟩] (G.init cfg1 1) [.inv 0, .fin 0] []
    g.conn 0 = 0 ∧ g.conn 1 = 0 := by decide
example : let g := runSched realPolicy cfg1 [⟨true, true, [⟨.goon, .panic⟩], [], none⟩] (G.init cfg1 1) [.inv 0, .fin 0] []
    g.conn 0 = 1 ∧ (g.rqs.map (·.done)) = [false] := by decide

end BfeVerif.C07
