import BfeVerif.C07.Driver
def main : IO Unit := BfeVerif.Proto.driverMain BfeVerif.C07.run
