import BfeVerif.C07.Model
import BfeVerif.C07.Proxy
/-! C07 — helper lemmas: the per-request frame property of `loop`, and the global counting invariant. -/
namespace BfeVerif.C07

/-- contribution of a request whose Trans.Backend is `tb` to the count of backend `b` -/
def ind (tb : Option Nat) (b : Nat) : Int := if tb = some b then 1 else 0

theorem frame_fin (conn : Nat → Int) (tb : Option Nat) (b : Nat) :
    decTb conn tb b - ind none b = conn b - ind tb b := by
  cases tb with
  | none => simp [decTb, ind]
  | some o =>
    simp only [decTb, upd, ind]
    by_cases h : b = o
    · subst h; simp; omega
    · have : ¬ o = b := fun e => h e.symm
      simp [h, this]

theorem frame_rt (conn : Nat → Int) (tb : Option Nat) (b' b : Nat) :
    upd (decTb conn tb) b' 1 b - ind (some b') b = conn b - ind tb b := by
  have h := frame_fin conn tb b
  simp only [ind] at h ⊢
  simp only [upd]
  by_cases hb : b = b'
  · subst hb; simp at h ⊢; omega
  · have : ¬ b' = b := fun e => hb e.symm
    simp [hb, this] at h ⊢; omega

theorem crossPhase_frame (pol : Policy) (cfg : Cfg) (p : Nat) (s : LS) :
    (crossPhase pol cfg p s).2.conn = s.conn ∧ (crossPhase pol cfg p s).2.tb = s.tb := by
  unfold crossPhase
  split
  · simp
  · simp only []
    split
    · simp
    · split <;> simp

theorem balance_frame (pol : Policy) (cfg : Cfg) (s : LS) :
    (balance pol cfg s).2.conn = s.conn ∧ (balance pol cfg s).2.tb = s.tb := by
  unfold balance
  split
  · simp
  · simp only []
    split
    · simp
    · split
      · split
        · simp
        · rw [(crossPhase_frame _ _ _ _).1, (crossPhase_frame _ _ _ _).2]; simp
      · exact crossPhase_frame _ _ _ _

/-- at the moment of a RoundTrip to `b'` the counters are the ones at entry, minus this request's old
    contribution, plus one for `b'` -/
def SnapOK (c0 : Nat → Int) (tb0 : Option Nat) : Ev → Prop
  | .rt b' _ _ snap _ => ∀ b, snap b - ind (some b') b = c0 b - ind tb0 b
  | .fin _ _ => True

theorem loop_frame (pol : Policy) (cfg : Cfg) (rq : ReqSpec) : ∀ (n : Nat) (s : LS) (last : Err),
    (∀ b, (loop pol cfg rq n s last).st.conn b - ind (loop pol cfg rq n s last).st.tb b = s.conn b - ind s.tb b) ∧
    (∀ e ∈ (loop pol cfg rq n s last).evs, SnapOK s.conn s.tb e) := by
  intro n
  induction n with
  | zero => intro s last; simp [loop]
  | succ n ih =>
    intro s last
    have hb := balance_frame pol cfg s
    rw [loop]
    split
    · -- crossbal: continue
      rename_i s1 heq
      rw [heq] at hb
      dsimp only at hb
      rw [← hb.1, ← hb.2]
      exact ih { s1 with retry := s1.retry + 1 } .crossbal
    · rename_i e s1 _ heq
      rw [heq] at hb
      dsimp only at hb
      simp [hb.1, hb.2]
    · rename_i b0 sub x s1 heq
      rw [heq] at hb
      dsimp only at hb
      have hfr : ∀ b b', upd (decTb s1.conn s1.tb) b 1 b' - ind (some b) b' = s.conn b' - ind s.tb b' := by
        intro b b'; rw [frame_rt, hb.1, hb.2]
      have hff : ∀ b', decTb s1.conn s1.tb b' - ind none b' = s.conn b' - ind s.tb b' := by
        intro b'; rw [frame_fin, hb.1, hb.2]
      dsimp only
      split
      · -- forward finish
        refine ⟨fun b' => ?_, ?_⟩
        · dsimp only; exact hff b'
        · intro e he; dsimp only at he; simp only [List.mem_singleton] at he; subst he; trivial
      · split
        · -- response
          refine ⟨fun b' => ?_, ?_⟩
          · dsimp only; exact hfr _ b'
          · intro e he; dsimp only at he; simp only [List.mem_singleton] at he; subst he; exact hfr _
        · split
          · -- retry
            have ih' := ih ⟨pol.note cfg s1.bs (target cfg (s1.script.headD Attempt.dflt).fwd b0)
                           (s1.script.headD Attempt.dflt).rt,
                         upd (decTb s1.conn s1.tb) (target cfg (s1.script.headD Attempt.dflt).fwd b0) 1,
                         some (target cfg (s1.script.headD Attempt.dflt).fwd b0), s1.retry + 1,
                         ecOf s1.ec (s1.script.headD Attempt.dflt).rt, s1.cross, s1.script.tail, s1.choices,
                         b0 :: s1.picks⟩
                       (errOf (s1.script.headD Attempt.dflt).rt)
            refine ⟨fun b' => ?_, ?_⟩
            · dsimp only
              have h1 := ih'.1 b'
              dsimp only at h1
              rw [h1]; exact hfr _ b'
            · intro e he
              dsimp only at he
              simp only [List.mem_cons] at he
              rcases he with he | he
              · subst he; exact hfr _
              · have h2 := ih'.2 e he
                cases e with
                | fin _ _ => trivial
                | rt b2 sub2 x2 snap2 o2 =>
                  intro b'
                  have h3 := h2 b'
                  dsimp only at h3
                  rw [h3]; exact hfr _ b'
          · refine ⟨fun b' => ?_, ?_⟩
            · dsimp only; exact hfr _ b'
            · intro e he; dsimp only at he; simp only [List.mem_singleton] at he; subst he; exact hfr _

/-! ### the global invariant over schedules -/

theorem inflight_eq (rqs : List RqSt) (b : Nat) :
    inflight rqs b = match rqs with | [] => 0 | r :: rs => ind r.tb b + inflight rs b := by
  cases rqs <;> simp [inflight, ind]

theorem inflight_nonneg (rqs : List RqSt) (b : Nat) : 0 ≤ inflight rqs b := by
  induction rqs with
  | nil => simp [inflight]
  | cons r rs ih => simp only [inflight]; split <;> omega

theorem inflight_zero (rqs : List RqSt) (h : ∀ r ∈ rqs, r.tb = none) (b : Nat) : inflight rqs b = 0 := by
  induction rqs with
  | nil => simp [inflight]
  | cons r rs ih =>
    simp only [inflight]
    have h1 := h r (by simp)
    have h2 := ih (fun r' hr' => h r' (by simp [hr']))
    simp [h1, h2]

theorem inflight_setRq (rqs : List RqSt) (k : Nat) (old v : RqSt) (h : rqs[k]? = some old) (b : Nat) :
    inflight (setRq rqs k v) b = inflight rqs b - ind old.tb b + ind v.tb b := by
  induction rqs generalizing k with
  | nil => simp at h
  | cons r rs ih =>
    cases k with
    | zero =>
      simp at h; subst h
      simp only [setRq, inflight, ind]; omega
    | succ k =>
      simp at h
      simp only [setRq, inflight]
      rw [ih k h]; omega

theorem mem_setRq (rqs : List RqSt) (k : Nat) (v r : RqSt) (h : r ∈ setRq rqs k v) : r = v ∨ r ∈ rqs := by
  induction rqs generalizing k with
  | nil => simp [setRq] at h
  | cons x xs ih =>
    cases k with
    | zero => simp [setRq] at h; rcases h with h | h <;> simp [h]
    | succ k =>
      simp [setRq] at h
      rcases h with h | h
      · simp [h]
      · rcases ih k h with h' | h' <;> simp [h']

/-- the invariant: every counter equals the number of requests assigned to that backend, and
    requests that are not between their clusterInvoke and their FinishReq are assigned to nothing -/
def WF (g : G) : Prop :=
  (∀ b, g.conn b = inflight g.rqs b) ∧
  (∀ r ∈ g.rqs, (r.invoked = false ∨ r.done = true) → r.tb = none)

theorem WF_init (cfg : Cfg) (n : Nat) : WF (G.init cfg n) := by
  constructor
  · intro b
    simp only [G.init]
    rw [inflight_zero]
    intro r hr
    simp [List.mem_replicate] at hr
    rw [hr.2]
  · intro r hr _
    simp [G.init, List.mem_replicate] at hr
    rw [hr.2]

theorem WF_step (pol : Policy) (cfg : Cfg) (reqs : List ReqSpec) (g : G) (st : Step) (ch : List Nat) (h : WF g) :
    WF (step pol cfg reqs g st ch) := by
  obtain ⟨hc, hq⟩ := h
  cases st with
  | inv k =>
    simp only [step]
    split
    · rename_i rq r hrq hr
      split
      · exact ⟨hc, hq⟩
      · rename_i hinv
        have hmem : r ∈ g.rqs := List.mem_of_getElem? hr
        have htb : r.tb = none := hq r hmem (Or.inl (by simpa using hinv))
        have hf : ∀ b, (invoke pol cfg rq g ch).st.conn b - ind (invoke pol cfg rq g ch).st.tb b =
            (entryLS g rq ch).conn b - ind (entryLS g rq ch).tb b := by
          intro b
          unfold invoke
          cases rq.pre with
          | some act => rfl
          | none => exact (loop_frame pol cfg rq 20 (entryLS g rq ch) .nil).1 b
        constructor
        · intro b
          dsimp only
          rw [inflight_setRq g.rqs k r _ hr b]
          have := hf b
          rw [show (entryLS g rq ch).conn = g.conn from rfl, show (entryLS g rq ch).tb = none from rfl] at this
          rw [htb, ← hc b]
          simp only [ind] at this ⊢
          simp at this ⊢
          omega
        · intro r' hr' hcond
          dsimp only at hr'
          rcases mem_setRq _ _ _ _ hr' with h' | h'
          · subst h'; simp at hcond
          · exact hq r' h' hcond
    · exact ⟨hc, hq⟩
  | fin k =>
    simp only [step]
    split
    · rename_i r hr
      split
      · exact ⟨hc, hq⟩
      · split
        · exact ⟨hc, hq⟩
        · constructor
          · intro b
            dsimp only
            rw [inflight_setRq g.rqs k r _ hr b]
            have := frame_fin g.conn r.tb b
            rw [← hc b]
            simp only [ind] at this ⊢
            simp at this ⊢
            omega
          · intro r' hr' hcond
            dsimp only at hr'
            rcases mem_setRq _ _ _ _ hr' with h' | h'
            · subst h'; rfl
            · exact hq r' h' hcond
    · exact ⟨hc, hq⟩
  | up b => exact ⟨hc, hq⟩
  | down b => exact ⟨hc, hq⟩
  | remove b => exact ⟨hc, hq⟩

theorem WF_run (pol : Policy) (cfg : Cfg) (reqs : List ReqSpec) (sched : List Step) :
    ∀ (g : G) (chs : List (List Nat)), WF g → WF (runSched pol cfg reqs g sched chs) := by
  induction sched with
  | nil => intro g chs h; simpa [runSched] using h
  | cons st rest ih =>
    intro g chs h
    simp only [runSched]
    exact ih _ _ (WF_step pol cfg reqs g st _ h)

/-! ### websocket / stream proxies -/
open Px in
theorem find_frame (dial : Nat → Bool) : ∀ (n : Nat) (sc : List Pick) (conn : Nat → Int) (b : Nat),
    (find dial n sc conn).2.1 b - ind (find dial n sc conn).1 b = conn b := by
  intro n
  induction n with
  | zero => intro sc conn b; simp [find, ind]
  | succ n ih =>
    intro sc conn b
    cases sc with
    | nil => simp only [find]; exact ih [] conn b
    | cons p ps =>
      cases p with
      | err => simp only [find]; exact ih ps conn b
      | be j =>
        simp only [find]
        split
        · simp only [ind, upd]
          by_cases hb : b = j
          · subst hb; simp
          · have : ¬ j = b := fun e => hb e.symm
            simp [hb, this]
        · dsimp only
          rw [ih ps _ b]
          simp only [upd]
          split <;> omega

open Px in
/-- the invariant of the proxy model (same shape as `WF`) -/
def PWF (g : PG) : Prop :=
  (∀ b, g.conn b = inflight g.conns b) ∧
  (∀ r ∈ g.conns, (r.invoked = false ∨ r.done = true) → r.tb = none)

open Px in
theorem PWF_init (n : Nat) : PWF (PG.init n) := by
  constructor
  · intro b
    simp only [PG.init]
    rw [inflight_zero]
    intro r hr
    simp [List.mem_replicate] at hr
    rw [hr.2]
  · intro r hr _
    simp [PG.init, List.mem_replicate] at hr
    rw [hr.2]

open Px in
theorem PWF_step (dial : Nat → Bool) (rm : Nat) (scripts : List (List Pick)) (g : PG) (st : Step)
    (h : PWF g) : PWF (pstep dial rm scripts g st) := by
  obtain ⟨hc, hq⟩ := h
  cases st with
  | inv k =>
    simp only [pstep]
    split
    · rename_i sc r hsc hr
      split
      · exact ⟨hc, hq⟩
      · rename_i hinv
        have hmem : r ∈ g.conns := List.mem_of_getElem? hr
        have htb : r.tb = none := hq r hmem (Or.inl (by simpa using hinv))
        constructor
        · intro b
          dsimp only
          rw [inflight_setRq g.conns k r _ hr b]
          have := find_frame dial (effRetry rm) sc g.conn b
          rw [htb, ← hc b]
          simp only [ind] at this ⊢
          simp at this ⊢
          omega
        · intro r' hr' hcond
          dsimp only at hr'
          rcases mem_setRq _ _ _ _ hr' with h' | h'
          · subst h'; simp at hcond
          · exact hq r' h' hcond
    · exact ⟨hc, hq⟩
  | fin k =>
    simp only [pstep]
    split
    · rename_i r hr
      split
      · exact ⟨hc, hq⟩
      · constructor
        · intro b
          dsimp only
          rw [inflight_setRq g.conns k r _ hr b]
          have := frame_fin g.conn r.tb b
          rw [← hc b]
          simp only [ind] at this ⊢
          simp at this ⊢
          omega
        · intro r' hr' hcond
          dsimp only at hr'
          rcases mem_setRq _ _ _ _ hr' with h' | h'
          · subst h'; rfl
          · exact hq r' h' hcond
    · exact ⟨hc, hq⟩
  | up b => exact ⟨hc, hq⟩
  | down b => exact ⟨hc, hq⟩
  | remove b => exact ⟨hc, hq⟩

open Px in
theorem PWF_run (dial : Nat → Bool) (rm : Nat) (scripts : List (List Pick)) (sched : List Step) :
    ∀ (g : PG), PWF g → PWF (prun dial rm scripts g sched) := by
  induction sched with
  | nil => intro g h; simpa [prun] using h
  | cons st rest ih =>
    intro g h
    simp only [prun]
    exact ih _ (PWF_step dial rm scripts g st h)

end BfeVerif.C07
