import BfeVerif.C07.Model
/-! C07 — helper lemmas: the per-request frame property of `loop`, and the global counting invariant. -/
namespace BfeVerif.C07

/-- contribution of a request whose Trans.Backend is `tb` to the count of backend `b` -/
def ind (tb : Option Nat) (b : Nat) : Int := if tb = some b then 1 else 0

theorem frame_fin (conn : Nat → Int) (tb : Option Nat) (b : Nat) :
    decTb conn tb b - ind none b = conn b - ind tb b := by
  cases tb with
  | none => simp [decTb, ind]
  | some o =>
    simp only [decTb, upd, ind]
    by_cases h : b = o
    · subst h; simp; omega
    · have : ¬ o = b := fun e => h e.symm
      simp [h, this]

theorem frame_rt (conn : Nat → Int) (tb : Option Nat) (b' b : Nat) :
    upd (decTb conn tb) b' 1 b - ind (some b') b = conn b - ind tb b := by
  have h := frame_fin conn tb b
  simp only [ind] at h ⊢
  simp only [upd]
  by_cases hb : b = b'
  · subst hb; simp at h ⊢; omega
  · have : ¬ b' = b := fun e => hb e.symm
    simp [hb, this] at h ⊢; omega

theorem crossPhase_frame (cfg : Cfg) (p : Nat) (s : LS) :
    (crossPhase cfg p s).2.conn = s.conn ∧ (crossPhase cfg p s).2.tb = s.tb := by
  unfold crossPhase
  split
  · simp
  · simp only []
    split
    · simp
    · split <;> simp

theorem balance_frame (cfg : Cfg) (s : LS) :
    (balance cfg s).2.conn = s.conn ∧ (balance cfg s).2.tb = s.tb := by
  unfold balance
  split
  · simp
  · simp only []
    split
    · simp
    · split
      · split
        · simp
        · rw [(crossPhase_frame _ _ _).1, (crossPhase_frame _ _ _).2]; simp
      · exact crossPhase_frame _ _ _

/-- at the moment of a RoundTrip to `b'` the counters are the ones at entry, minus this request's old
    contribution, plus one for `b'` -/
def SnapOK (c0 : Nat → Int) (tb0 : Option Nat) : Ev → Prop
  | .rt b' _ _ snap _ => ∀ b, snap b - ind (some b') b = c0 b - ind tb0 b
  | .fin _ _ => True

theorem loop_frame (cfg : Cfg) (rq : ReqSpec) : ∀ (n : Nat) (s : LS) (last : Err),
    (∀ b, (loop cfg rq n s last).st.conn b - ind (loop cfg rq n s last).st.tb b = s.conn b - ind s.tb b) ∧
    (∀ e ∈ (loop cfg rq n s last).evs, SnapOK s.conn s.tb e) := by
  intro n
  induction n with
  | zero => intro s last; simp [loop]
  | succ n ih =>
    intro s last
    have hb := balance_frame cfg s
    rw [loop]
    split
    · -- crossbal: continue
      rename_i s1 heq
      rw [heq] at hb
      dsimp only at hb
      rw [← hb.1, ← hb.2]
      exact ih { s1 with retry := s1.retry + 1 } .crossbal
    · rename_i e s1 _ heq
      rw [heq] at hb
      dsimp only at hb
      simp [hb.1, hb.2]
    · rename_i b sub x s1 heq
      rw [heq] at hb
      dsimp only at hb
      have hfr : ∀ b', upd (decTb s1.conn s1.tb) b 1 b' - ind (some b) b' = s.conn b' - ind s.tb b' := by
        intro b'; rw [frame_rt, hb.1, hb.2]
      have hff : ∀ b', decTb s1.conn s1.tb b' - ind none b' = s.conn b' - ind s.tb b' := by
        intro b'; rw [frame_fin, hb.1, hb.2]
      dsimp only
      split
      · -- forward finish
        refine ⟨fun b' => ?_, ?_⟩
        · dsimp only; exact hff b'
        · intro e he; dsimp only at he; simp only [List.mem_singleton] at he; subst he; trivial
      · split
        · -- response
          refine ⟨fun b' => ?_, ?_⟩
          · dsimp only; exact hfr b'
          · intro e he; dsimp only at he; simp only [List.mem_singleton] at he; subst he; exact hfr
        · split
          · -- retry
            have ih' := ih ⟨s1.cur, upd (decTb s1.conn s1.tb) b 1, some b, s1.retry + 1,
                         ecOf s1.ec (s1.script.headD Attempt.dflt).rt, s1.cross, s1.script.tail, s1.choices⟩
                       (errOf (s1.script.headD Attempt.dflt).rt)
            refine ⟨fun b' => ?_, ?_⟩
            · dsimp only
              have h1 := ih'.1 b'
              dsimp only at h1
              rw [h1]; exact hfr b'
            · intro e he
              dsimp only at he
              simp only [List.mem_cons] at he
              rcases he with he | he
              · subst he; exact hfr
              · have h2 := ih'.2 e he
                cases e with
                | fin _ _ => trivial
                | rt b2 sub2 x2 snap2 o2 =>
                  intro b'
                  have h3 := h2 b'
                  dsimp only at h3
                  rw [h3]; exact hfr b'
          · refine ⟨fun b' => ?_, ?_⟩
            · dsimp only; exact hfr b'
            · intro e he; dsimp only at he; simp only [List.mem_singleton] at he; subst he; exact hfr

/-! ### the global invariant over schedules -/

theorem inflight_eq (rqs : List RqSt) (b : Nat) :
    inflight rqs b = match rqs with | [] => 0 | r :: rs => ind r.tb b + inflight rs b := by
  cases rqs <;> simp [inflight, ind]

theorem inflight_nonneg (rqs : List RqSt) (b : Nat) : 0 ≤ inflight rqs b := by
  induction rqs with
  | nil => simp [inflight]
  | cons r rs ih => simp only [inflight]; split <;> omega

theorem inflight_zero (rqs : List RqSt) (h : ∀ r ∈ rqs, r.tb = none) (b : Nat) : inflight rqs b = 0 := by
  induction rqs with
  | nil => simp [inflight]
  | cons r rs ih =>
    simp only [inflight]
    have h1 := h r (by simp)
    have h2 := ih (fun r' hr' => h r' (by simp [hr']))
    simp [h1, h2]

theorem inflight_setRq (rqs : List RqSt) (k : Nat) (old v : RqSt) (h : rqs[k]? = some old) (b : Nat) :
    inflight (setRq rqs k v) b = inflight rqs b - ind old.tb b + ind v.tb b := by
  induction rqs generalizing k with
  | nil => simp at h
  | cons r rs ih =>
    cases k with
    | zero =>
      simp at h; subst h
      simp only [setRq, inflight, ind]; omega
    | succ k =>
      simp at h
      simp only [setRq, inflight]
      rw [ih k h]; omega

theorem mem_setRq (rqs : List RqSt) (k : Nat) (v r : RqSt) (h : r ∈ setRq rqs k v) : r = v ∨ r ∈ rqs := by
  induction rqs generalizing k with
  | nil => simp [setRq] at h
  | cons x xs ih =>
    cases k with
    | zero => simp [setRq] at h; rcases h with h | h <;> simp [h]
    | succ k =>
      simp [setRq] at h
      rcases h with h | h
      · simp [h]
      · rcases ih k h with h' | h' <;> simp [h']

/-- the invariant: every counter equals the number of requests assigned to that backend, and
    requests that are not between their clusterInvoke and their FinishReq are assigned to nothing -/
def WF (g : G) : Prop :=
  (∀ b, g.conn b = inflight g.rqs b) ∧
  (∀ r ∈ g.rqs, (r.invoked = false ∨ r.done = true) → r.tb = none)

theorem WF_init (cfg : Cfg) (n : Nat) : WF (G.init cfg n) := by
  constructor
  · intro b
    simp only [G.init]
    rw [inflight_zero]
    intro r hr
    simp [List.mem_replicate] at hr
    rw [hr.2]
  · intro r hr _
    simp [G.init, List.mem_replicate] at hr
    rw [hr.2]

theorem WF_step (cfg : Cfg) (reqs : List ReqSpec) (g : G) (st : Step) (ch : List Nat) (h : WF g) :
    WF (step cfg reqs g st ch) := by
  obtain ⟨hc, hq⟩ := h
  cases st with
  | inv k =>
    simp only [step]
    split
    · rename_i rq r hrq hr
      split
      · exact ⟨hc, hq⟩
      · rename_i hinv
        have hmem : r ∈ g.rqs := List.mem_of_getElem? hr
        have htb : r.tb = none := hq r hmem (Or.inl (by simpa using hinv))
        have hf := (loop_frame cfg rq 20 ⟨g.cur, g.conn, none, 0, .none, false, rq.script, ch⟩ .nil).1
        constructor
        · intro b
          dsimp only
          rw [inflight_setRq g.rqs k r _ hr b]
          have := hf b
          dsimp only at this
          rw [htb, ← hc b]
          simp only [ind] at this ⊢
          simp at this ⊢
          omega
        · intro r' hr' hcond
          dsimp only at hr'
          rcases mem_setRq _ _ _ _ hr' with h' | h'
          · subst h'; simp at hcond
          · exact hq r' h' hcond
    · exact ⟨hc, hq⟩
  | fin k =>
    simp only [step]
    split
    · rename_i r hr
      split
      · exact ⟨hc, hq⟩
      · constructor
        · intro b
          dsimp only
          rw [inflight_setRq g.rqs k r _ hr b]
          have := frame_fin g.conn r.tb b
          rw [← hc b]
          simp only [ind] at this ⊢
          simp at this ⊢
          omega
        · intro r' hr' hcond
          dsimp only at hr'
          rcases mem_setRq _ _ _ _ hr' with h' | h'
          · subst h'; rfl
          · exact hq r' h' hcond
    · exact ⟨hc, hq⟩

theorem WF_run (cfg : Cfg) (reqs : List ReqSpec) (sched : List Step) :
    ∀ (g : G) (chs : List (List Nat)), WF g → WF (runSched cfg reqs g sched chs) := by
  induction sched with
  | nil => intro g chs h; simpa [runSched] using h
  | cons st rest ih =>
    intro g chs h
    simp only [runSched]
    exact ih _ _ (WF_step cfg reqs g st _ h)

end BfeVerif.C07
