/-
  C52 — model of bfe_modules/mod_cors (mod_cors.go, cors_rule_load.go), core-only.

  Go strings are byte strings: `Str = List UInt8`.  A response header is reduced to the seven keys the
  module can touch (each a list of values, `[]` = key absent), a rule to the fields the handlers read.

  Mirrors, after the C52 fix of `addVaryHeader` (the appended value used to be computed but never
  stored back):

    func addVaryHeader(h) {
        v := h.Get("Vary")                       // first value or ""
        if len(v) == 0 { h.Add("Vary", "Origin"); return }
        if v == "*" { return }
        for _, item := range strings.Split(v, ",") { if strings.TrimSpace(item) == "Origin" { return } }
        h.Add("Vary", "Origin")
    }
    func matchOriginAllowed(origin, rule) (bool, string)   // "%origin" > "*" > exact
    setRespHeaderForPreflght / setRespHeaderForNonPreflight / checkCorsPreflight /
    corsPreflightHandler (HandleFoundProduct) / corsHandler (HandleReadResponse) / ruleConvert (origin and
    max-age validation)
-/
namespace BfeVerif.C52

abbrev Str := List UInt8

def sOrigin : Str := [0x4f, 0x72, 0x69, 0x67, 0x69, 0x6e]          -- "Origin"
def sStar : Str := [0x2a]                                          -- "*"
def sPctOrigin : Str := [0x25, 0x6f, 0x72, 0x69, 0x67, 0x69, 0x6e] -- "%origin"
def sNull : Str := [0x6e, 0x75, 0x6c, 0x6c]                        -- "null"
def sTrue : Str := [0x74, 0x72, 0x75, 0x65]                        -- "true"
def sOptions : Str := [0x4f, 0x50, 0x54, 0x49, 0x4f, 0x4e, 0x53]   -- "OPTIONS"

def ofString (s : String) : Str := s.toUTF8.toList

/-- the keys of `supportedMethod` (cors_rule_load.go) -/
def supportedMethods : List Str :=
  ["GET", "HEAD", "POST", "PUT", "DELETE", "CONNECT", "OPTIONS", "TRACE", "PATCH"].map ofString

/-- `strings.Split(s, ",")` for a one-byte separator -/
def splitOn (sep : UInt8) : Str → List Str
  | [] => [[]]
  | c :: cs =>
    if c == sep then [] :: splitOn sep cs
    else match splitOn sep cs with
      | h :: t => (c :: h) :: t
      | [] => [[c]]

/-- ASCII white space as seen by `strings.TrimSpace` (values are ASCII: stated assumption) -/
def isSpace (c : UInt8) : Bool :=
  c == 0x20 || c == 0x09 || c == 0x0a || c == 0x0b || c == 0x0c || c == 0x0d

def trimSpace (s : Str) : Str :=
  ((s.dropWhile isSpace).reverse.dropWhile isSpace).reverse

/-- `strings.Join(xs, ",")` -/
def joinComma : List Str → Str
  | [] => []
  | [x] => x
  | x :: xs => x ++ 0x2c :: joinComma xs

structure Hdr where
  acao : List Str := []
  acac : List Str := []
  acam : List Str := []
  acah : List Str := []
  acma : List Str := []
  aceh : List Str := []
  vary : List Str := []
  deriving DecidableEq, Repr

structure Rule where
  hit : Bool              -- outcome of `rule.Cond.Match(request)`
  origins : List Str      -- AccessControlAllowOrigins (keys of AccessControlAllowOriginMap)
  creds : Bool
  expose : List Str
  methods : List Str
  headers : List Str
  maxAge : Option Int
  deriving DecidableEq, Repr

structure Req where
  method : Str
  origin : Str            -- Header.Get("Origin"): first value, "" when absent
  acrm : Str              -- Header.Get("Access-Control-Request-Method")
  acrh : Str := []        -- Header.Get("Access-Control-Request-Headers"): never read by the module
  deriving DecidableEq, Repr

/-- the origin checks of `ruleConvert` -/
def originOk (r : Rule) (o : Str) : Bool :=
  !(o.head? == some 0x25 && o != sPctOrigin) &&
  !(o.contains 0x2a && o.length != 1) &&
  !(o == sStar && r.creds) &&
  !((o == sNull || o == sStar) && r.origins.length != 1)

/-- the wildcard checks `ruleConvert` applies to each of the three lists -/
def listItemOk (l : List Str) (x : Str) : Bool :=
  !(x.contains 0x2a && x.length != 1) && !(x == sStar && l.length != 1)

def methodOk (l : List Str) (x : Str) : Bool :=
  listItemOk l x && (x == sStar || supportedMethods.contains x)

def ruleOk (r : Rule) : Bool :=
  !r.origins.isEmpty && r.origins.all (originOk r) &&
  r.headers.all (listItemOk r.headers) && r.expose.all (listItemOk r.expose) &&
  r.methods.all (methodOk r.methods) &&
  (match r.maxAge with
   | none => true
   | some m => !(decide (m < -1) || decide (m > 86400)))

/-- `h.Get(k)` on the list of values of one key -/
def getFirst (vs : List Str) : Str := vs.headD []

/-- does one Vary line name `Origin` (the loop of addVaryHeader) -/
def lineHasOrigin (v : Str) : Bool :=
  (splitOn 0x2c v).any fun item => trimSpace item == sOrigin

def addVary (vary : List Str) : List Str :=
  let v := getFirst vary
  if v.length == 0 then vary ++ [sOrigin]
  else if v == sStar then vary
  else if lineHasOrigin v then vary
  else vary ++ [sOrigin]

def matchOrigin (origin : Str) (r : Rule) : Bool × Str :=
  if r.origins.contains sPctOrigin then (true, origin)
  else if r.origins.contains sStar then (true, sStar)
  else if r.origins.contains origin then (true, origin)
  else (false, [])

def itoa (n : Int) : Str := ofString (toString n)

def setPreflight (req : Req) (h : Hdr) (r : Rule) : Hdr :=
  let (allow, mo) := matchOrigin req.origin r
  if !allow then h
  else
    let h := { h with acao := [mo] }
    let h := if r.creds then { h with acac := [sTrue] } else h
    let h := if r.methods.length > 0 then { h with acam := [joinComma r.methods] } else h
    let h := if r.headers.length > 0 then { h with acah := [joinComma r.headers] } else h
    let h := match r.maxAge with
      | some m => { h with acma := [itoa m] }
      | none => h
    { h with vary := addVary h.vary }

def setNonPreflight (req : Req) (h : Hdr) (r : Rule) : Hdr :=
  let (allow, mo) := matchOrigin req.origin r
  if !allow then h
  else
    let h := { h with acao := [mo] }
    let h := if r.creds then { h with acac := [sTrue] } else h
    let h := if r.expose.length > 0 then { h with aceh := [joinComma r.expose] } else h
    { h with vary := addVary h.vary }

def isPreflight (req : Req) : Bool :=
  req.method == sOptions && req.origin != [] && supportedMethods.contains req.acrm

/-- `ruleTable.Search(product)` then the first rule whose condition matches -/
def firstMatch (hasRules : Bool) (rules : List Rule) : Option Rule :=
  if hasRules then rules.find? (·.hit) else none

inductive Kind | P | N
  deriving DecidableEq, Repr

/-- corsPreflightHandler at HandleFoundProduct; when it does not answer, the backend response passes
    corsHandler at HandleReadResponse. -/
def handle (hasRules : Bool) (rules : List Rule) (req : Req) (backend : Hdr) : Kind × Hdr :=
  let sel := firstMatch hasRules rules
  match (if isPreflight req then sel else none) with
  | some r => (Kind.P, setPreflight req {} r)
  | none =>
    if req.origin == [] then (Kind.N, backend)
    else if isPreflight req then (Kind.N, backend)
    else match sel with
      | some r => (Kind.N, setNonPreflight req backend r)
      | none => (Kind.N, backend)

/-- `ruleListConvert`: any invalid rule rejects the whole list -/
def loadOk (hasRules : Bool) (rules : List Rule) : Bool := !hasRules || rules.all ruleOk

/-! ### Specification (independent of the handlers' control flow) -/

/-- the rule that governs the request -/
def governing (hasRules : Bool) (rules : List Rule) : Option Rule := firstMatch hasRules rules

/-- the documented meaning of AccessControlAllowOrigins -/
def allowedBy (origin : Str) (r : Rule) : Bool :=
  r.origins.contains origin || r.origins.contains sPctOrigin || r.origins.contains sStar

/-- `'*' as configured`, otherwise the request's origin is echoed -/
def expectedAcao (origin : Str) (r : Rule) : Str :=
  if r.origins.contains sStar && !r.origins.contains sPctOrigin then sStar else origin

/-- some Vary line has the member `Origin` (or `*`, which subsumes every header) -/
def varyCovers (vary : List Str) : Bool :=
  vary.any fun line => (splitOn 0x2c line).any fun t => trimSpace t == sOrigin || trimSpace t == sStar

/-- is the request answered by the module itself (204) rather than by the backend -/
def answeredByModule (hasRules : Bool) (rules : List Rule) (req : Req) : Bool :=
  isPreflight req && (governing hasRules rules).isSome

def baseHdr (k : Kind) (backend : Hdr) : Hdr := match k with | .P => {} | .N => backend

/-- Spec oracle: verdict on an observed result `(k, h)`. -/
def verdict (hasRules : Bool) (rules : List Rule) (req : Req) (backend : Hdr) (k : Kind) (h : Hdr) : String :=
  let kExp := if answeredByModule hasRules rules req then Kind.P else Kind.N
  if k != kExp then "FAIL:wrong-handler" else
  let base := baseHdr k backend
  match governing hasRules rules with
  | none => if h == base then "ok" else if h.acao != base.acao then "FAIL:granted-without-rule" else "FAIL:changed-without-rule"
  | some r =>
    if req.origin == [] || !allowedBy req.origin r then
      if h.acao != base.acao then "FAIL:granted-not-allowed"
      else if h != base then "FAIL:changed-not-allowed"
      -- the response would differ for an allowed Origin, so it depends on Origin
      else if !varyCovers h.vary then "FAIL:vary-absent-when-not-granted"
      else "ok"
    else
      if h.acao != [expectedAcao req.origin r] then "FAIL:acao-wrong"
      -- Fetch: `Access-Control-Allow-Origin: *` must not be combined with `Access-Control-Allow-Credentials: true`
      else if h.acao == [sStar] && h.acac == [sTrue] then "FAIL:star-with-credentials"
      else if !base.vary.isPrefixOf h.vary then "FAIL:vary-lost-values"
      else if !varyCovers h.vary then "FAIL:vary-missing-origin"
      else if h.acac != (if r.creds then [sTrue] else base.acac) then "FAIL:credentials-wrong"
      else
        let pre := k == Kind.P
        let eAcam := if pre && r.methods.length > 0 then [joinComma r.methods] else base.acam
        let eAcah := if pre && r.headers.length > 0 then [joinComma r.headers] else base.acah
        let eAcma := match (if pre then r.maxAge else none) with | some m => [itoa m] | none => base.acma
        let eAceh := if !pre && r.expose.length > 0 then [joinComma r.expose] else base.aceh
        if h.acam != eAcam || h.acah != eAcah || h.acma != eAcma || h.aceh != eAceh then "FAIL:aux-wrong"
        else "ok"

/-! ### hot reloads: a history of configurations loaded into one module -/

structure Conf where
  version : Str
  products : List (Str × List Rule)     -- product -> rules (product names distinct)
  fileOk : Bool := true                 -- the rule FILE decodes (JSON of the right shape, Config present, conditions build)

/-- CorsRuleFileLoad rejects a file as a whole when it does not decode, has no Version / Config (CorsRuleCheck),
    or any rule of any product is invalid -/
def confOk (c : Conf) : Bool := c.fileOk && c.version != [] && c.products.all fun p => p.2.all ruleOk

/-- `loadRuleData`: a rejected configuration leaves the table alone, an accepted one REPLACES it
    (`CorsRuleTable.Update`: `t.productRule = ruleConf.Config`) -/
def update (t : List (Str × List Rule)) (c : Conf) : List (Str × List Rule) :=
  if confOk c then c.products else t

def tableAfter (cs : List Conf) : List (Str × List Rule) := cs.foldl update []

/-- `ruleTable.Search(product)` -/
def lookup (t : List (Str × List Rule)) (product : Str) : Option (List Rule) :=
  (t.find? fun p => p.1 == product).map (·.2)

/-- the handlers after a reload history -/
def handleH (cs : List Conf) (product : Str) (req : Req) (backend : Hdr) : Kind × Hdr :=
  match lookup (tableAfter cs) product with
  | some rules => handle true rules req backend
  | none => handle false [] req backend

/-- spec side: the configuration in force is the last one that was accepted -/
def inForce (cs : List Conf) : Option Conf := cs.reverse.find? confOk

def rulesInForce (cs : List Conf) (product : Str) : Option (List Rule) :=
  match inForce cs with
  | some c => lookup c.products product
  | none => none

end BfeVerif.C52
