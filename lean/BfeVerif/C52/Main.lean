import BfeVerif.C52.Driver
def main : IO Unit := BfeVerif.Proto.driverMain BfeVerif.C52.run
