import BfeVerif.C52.Model
/-! Lemmas for C52 (core Lean only). -/
namespace BfeVerif.C52

theorem matchOrigin_fst (o : Str) (r : Rule) : (matchOrigin o r).1 = allowedBy o r := by
  unfold matchOrigin allowedBy
  by_cases h1 : sPctOrigin ∈ r.origins
  · simp [h1]
  · by_cases h2 : sStar ∈ r.origins
    · simp [h1, h2]
    · by_cases h3 : o ∈ r.origins
      · simp [h1, h2, h3]
      · simp [h1, h2, h3]

theorem matchOrigin_snd (o : Str) (r : Rule) (h : allowedBy o r = true) :
    (matchOrigin o r).2 = expectedAcao o r := by
  unfold matchOrigin expectedAcao
  unfold allowedBy at h
  by_cases h1 : sPctOrigin ∈ r.origins
  · simp [h1]
  · by_cases h2 : sStar ∈ r.origins
    · simp [h1, h2]
    · by_cases h3 : o ∈ r.origins
      · simp [h1, h2, h3]
      · simp [h1, h2, h3] at h

theorem matchOrigin_eq (o : Str) (r : Rule) :
    matchOrigin o r = (allowedBy o r, if allowedBy o r then expectedAcao o r else []) := by
  by_cases h : allowedBy o r = true
  · rw [Prod.ext_iff]; simp only [matchOrigin_fst, matchOrigin_snd o r h, h, if_true, and_self]
  · rw [Prod.ext_iff]
    refine ⟨matchOrigin_fst o r, ?_⟩
    have h' := h
    unfold allowedBy at h'
    unfold matchOrigin
    by_cases h1 : sPctOrigin ∈ r.origins
    · simp [h1] at h'
    · by_cases h2 : sStar ∈ r.origins
      · simp [h2] at h'
      · by_cases h3 : o ∈ r.origins
        · simp [h3] at h'
        · simp [h1, h2, h3, h]

theorem addVary_prefix (v : List Str) : v <+: addVary v := by
  unfold addVary
  simp only []
  split
  · exact List.prefix_append _ _
  · split
    · exact List.prefix_refl _
    · split
      · exact List.prefix_refl _
      · exact List.prefix_append _ _

theorem covers_origin_line : varyCovers [sOrigin] = true := by decide

theorem varyCovers_append_origin (v : List Str) : varyCovers (v ++ [sOrigin]) = true := by
  unfold varyCovers
  rw [List.any_append]
  have := covers_origin_line
  unfold varyCovers at this
  rw [this]; simp

theorem varyCovers_addVary (v : List Str) : varyCovers (addVary v) = true := by
  unfold addVary
  simp only []
  split
  · exact varyCovers_append_origin v
  · rename_i hlen
    split
    · rename_i hstar
      cases v with
      | nil => simp [getFirst] at hlen
      | cons a t =>
        simp only [getFirst, List.headD_cons, beq_iff_eq] at hstar
        subst hstar
        unfold varyCovers
        rw [List.any_cons]
        have : ((splitOn 0x2c sStar).any fun t => trimSpace t == sOrigin || trimSpace t == sStar) = true := by decide
        rw [this]; rfl
    · split
      · rename_i hline
        cases v with
        | nil => simp [getFirst] at hlen
        | cons a t =>
          simp only [getFirst, List.headD_cons] at hline
          unfold varyCovers
          rw [List.any_cons]
          unfold lineHasOrigin at hline
          rw [List.any_eq_true] at hline
          obtain ⟨x, hx, hx2⟩ := hline
          have : ((splitOn 0x2c a).any fun t => trimSpace t == sOrigin || trimSpace t == sStar) = true := by
            rw [List.any_eq_true]
            exact ⟨x, hx, by rw [hx2]; rfl⟩
          rw [this]; rfl
      · exact varyCovers_append_origin v

end BfeVerif.C52
