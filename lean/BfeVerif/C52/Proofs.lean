import BfeVerif.C52.Model
/-! Lemmas for C52 (core Lean only). -/
namespace BfeVerif.C52

theorem matchOrigin_fst (o : Str) (r : Rule) : (matchOrigin o r).1 = allowedBy o r := by
  unfold matchOrigin allowedBy
  by_cases h1 : sPctOrigin ∈ r.origins
  · simp [h1]
  · by_cases h2 : sStar ∈ r.origins
    · simp [h1, h2]
    · by_cases h3 : o ∈ r.origins
      · simp [h1, h2, h3]
      · simp [h1, h2, h3]

theorem matchOrigin_snd (o : Str) (r : Rule) (h : allowedBy o r = true) :
    (matchOrigin o r).2 = expectedAcao o r := by
  unfold matchOrigin expectedAcao
  unfold allowedBy at h
  by_cases h1 : sPctOrigin ∈ r.origins
  · simp [h1]
  · by_cases h2 : sStar ∈ r.origins
    · simp [h1, h2]
    · by_cases h3 : o ∈ r.origins
      · simp [h1, h2, h3]
      · simp [h1, h2, h3] at h

theorem matchOrigin_eq (o : Str) (r : Rule) :
    matchOrigin o r = (allowedBy o r, if allowedBy o r then expectedAcao o r else []) := by
  by_cases h : allowedBy o r = true
  · rw [Prod.ext_iff]; simp only [matchOrigin_fst, matchOrigin_snd o r h, h, if_true, and_self]
  · rw [Prod.ext_iff]
    refine ⟨matchOrigin_fst o r, ?_⟩
    have h' := h
    unfold allowedBy at h'
    unfold matchOrigin
    by_cases h1 : sPctOrigin ∈ r.origins
    · simp [h1] at h'
    · by_cases h2 : sStar ∈ r.origins
      · simp [h2] at h'
      · by_cases h3 : o ∈ r.origins
        · simp [h3] at h'
        · simp [h1, h2, h3, h]

theorem addVary_prefix (v : List Str) : v <+: addVary v := by
  unfold addVary
  simp only []
  split
  · exact List.prefix_append _ _
  · split
    · exact List.prefix_refl _
    · split
      · exact List.prefix_refl _
      · exact List.prefix_append _ _

theorem covers_origin_line : varyCovers [sOrigin] = true := by decide

theorem varyCovers_append_origin (v : List Str) : varyCovers (v ++ [sOrigin]) = true := by
  unfold varyCovers
  rw [List.any_append]
  have := covers_origin_line
  unfold varyCovers at this
  rw [this]; simp

theorem varyCovers_addVary (v : List Str) : varyCovers (addVary v) = true := by
  unfold addVary
  simp only []
  split
  · exact varyCovers_append_origin v
  · rename_i hlen
    split
    · rename_i hstar
      cases v with
      | nil => simp [getFirst] at hlen
      | cons a t =>
        simp only [getFirst, List.headD_cons, beq_iff_eq] at hstar
        subst hstar
        unfold varyCovers
        rw [List.any_cons]
        have : ((splitOn 0x2c sStar).any fun t => trimSpace t == sOrigin || trimSpace t == sStar) = true := by decide
        rw [this]; rfl
    · split
      · rename_i hline
        cases v with
        | nil => simp [getFirst] at hlen
        | cons a t =>
          simp only [getFirst, List.headD_cons] at hline
          unfold varyCovers
          rw [List.any_cons]
          unfold lineHasOrigin at hline
          rw [List.any_eq_true] at hline
          obtain ⟨x, hx, hx2⟩ := hline
          have : ((splitOn 0x2c a).any fun t => trimSpace t == sOrigin || trimSpace t == sStar) = true := by
            rw [List.any_eq_true]
            exact ⟨x, hx, by rw [hx2]; rfl⟩
          rw [this]; rfl
      · exact varyCovers_append_origin v

/-- the auxiliary headers of a granted response, as documented per handler -/
theorem handle_aux (hasRules : Bool) (rules : List Rule) (req : Req) (backend : Hdr) (r : Rule)
    (ho : req.origin ≠ []) (hg : governing hasRules rules = some r) (ha : allowedBy req.origin r = true) :
    let res := handle hasRules rules req backend
    let base := baseHdr res.1 backend
    let pre := res.1 == Kind.P
    res.2.acac = (if r.creds then [sTrue] else base.acac) ∧
    res.2.acam = (if pre && r.methods.length > 0 then [joinComma r.methods] else base.acam) ∧
    res.2.acah = (if pre && r.headers.length > 0 then [joinComma r.headers] else base.acah) ∧
    res.2.acma = (match (if pre then r.maxAge else none) with | some m => [itoa m] | none => base.acma) ∧
    res.2.aceh = (if !pre && r.expose.length > 0 then [joinComma r.expose] else base.aceh) := by
  unfold handle governing at *
  simp only [hg]
  by_cases hp : isPreflight req = true
  · simp only [hp, if_true, setPreflight, matchOrigin_eq, ha, baseHdr]
    simp only [Bool.not_true, Bool.false_eq_true, if_false]
    cases r.creds <;> cases hm : r.maxAge <;> by_cases h1 : r.methods.length > 0 <;> by_cases h2 : r.headers.length > 0 <;>
      simp [h1, h2]
  · simp only [hp, ho, beq_iff_eq, if_false, setNonPreflight, matchOrigin_eq, ha, baseHdr]
    simp only [Bool.not_true, Bool.false_eq_true, if_false]
    cases r.creds <;> by_cases h1 : r.expose.length > 0 <;> simp [h1]


theorem foldl_update (cs : List Conf) (t : List (Str × List Rule)) :
    cs.foldl update t = match cs.reverse.find? confOk with
      | some c => c.products
      | none => t := by
  induction cs generalizing t with
  | nil => rfl
  | cons c cs ih =>
    simp only [List.foldl_cons, List.reverse_cons, List.find?_append]
    rw [ih]
    cases hf : cs.reverse.find? confOk with
    | some c' => rfl
    | none =>
      simp only [Option.none_or, List.find?_cons, List.find?_nil, update]
      cases hc : confOk c <;> simp


end BfeVerif.C52
