import BfeVerif.Common.Proto
import BfeVerif.C52.Model
/-!
  C52 driver.
  op  = `cors hr=<0|1>;m=<hex>;o=<hex>;a=<hex>;b=<hdr>;r=<rules>;h=<hex Access-Control-Request-Headers>`
        hdr   = 7 fields `acao|acac|acam|acah|acma|aceh|vary`, field = `_` (key absent) or hex values joined by `,`
        rules = `_` or rules joined by `/`; rule = `match:origins:creds:expose:methods:headers:maxage`
                (lists = `_` or hex joined by `,`; maxage = `n` or a decimal integer)
  result = `err:rule` | `<P|N>;<hdr>`
-/
namespace BfeVerif.C52
open BfeVerif.Proto

def hexStr (s : Str) : String := hexField s

def parseList (s : String) : Option (List Str) :=
  if s == "_" then some []
  else (s.splitOn ",").mapM bytesOfHex

def renderList (l : List Str) : String :=
  if l.isEmpty then "_" else ",".intercalate (l.map hexStr)

def renderHdr (h : Hdr) : String :=
  "|".intercalate [renderList h.acao, renderList h.acac, renderList h.acam, renderList h.acah,
    renderList h.acma, renderList h.aceh, renderList h.vary]

def parseHdr (s : String) : Option Hdr :=
  match (s.splitOn "|").mapM parseList with
  | some [a, b, c, d, e, f, g] => some { acao := a, acac := b, acam := c, acah := d, acma := e, aceh := f, vary := g }
  | _ => none

def parseRule (s : String) : Option Rule :=
  match s.splitOn ":" with
  | [m, os, c, ex, ms, hs, ma] => do
    let os ← parseList os
    let ex ← parseList ex
    let ms ← parseList ms
    let hs ← parseList hs
    let ma ← (if ma == "n" then some none else ma.toInt?.map some)
    some { hit := m == "1", origins := os, creds := c == "1", expose := ex, methods := ms, headers := hs, maxAge := ma }
  | _ => none

def parseRules (s : String) : Option (List Rule) :=
  if s == "_" then some [] else (s.splitOn "/").mapM parseRule

def kv (s : String) (k : String) : Option String :=
  if s.startsWith (k ++ "=") then some (s.drop (k.length + 1)).toString else none

def parseResult (s : String) : Option (Kind × Hdr) :=
  match s.splitOn ";" with
  | [k, h] => do
    let h ← parseHdr h
    if k == "P" then some (Kind.P, h) else if k == "N" then some (Kind.N, h) else none
  | _ => none

def renderKind : Kind → String | .P => "P" | .N => "N"

/-- conf = `<version hex>:<products>`; products = `_` or `<product hex>=<rules>` joined by `&` -/
def parseConf (s : String) : Option Conf :=
  let parseProducts := fun (ps : String) => (if ps == "_" then some [] else (ps.splitOn "&").mapM fun x =>
      match x.splitOn "=" with
      | [p, rs] => do
        let p ← bytesOfHex p
        let rs ← parseRules rs
        some (p, rs)
      | _ => none)
  match s.splitOn "@" with
  | [v, ps] => do
    let v ← bytesOfHex v
    let ps ← parseProducts ps
    some { version := v, products := ps }
  | [flag, v, ps] => do    -- rule FILE: <ok|garbage|nover|nocfg|badcond>@<version hex>@<products>
    let v ← bytesOfHex v
    let ps ← parseProducts ps
    some { version := (if flag == "nover" then [] else v), products := ps, fileOk := flag == "ok" || flag == "nover" }
  | _ => none

/-- `corsh c=<conf>~<conf>…;p=<product hex>;m=…;o=…;a=…;b=…;h=…` -/
def runHistory (op impl : String) : Ans :=
  let bad : Ans := { model := "bad-op", verdict := "skip" }
  let files := op.startsWith "corsf "
  match ((op.drop 6).toString.splitOn ";").take 7 with
  | [c, p, m, o, a, b, h] =>
    match (kv c "c").bind (fun s => (s.splitOn "~").mapM parseConf), (kv p "p").bind bytesOfHex,
          (kv m "m").bind bytesOfHex, (kv o "o").bind bytesOfHex, (kv a "a").bind bytesOfHex,
          (kv b "b").bind parseHdr, (kv h "h").bind bytesOfHex with
    | some cs, some product, some m, some o, some a, some backend, some acrh =>
      let req : Req := { method := m, origin := o, acrm := a, acrh := acrh }
      let (k, hd) := handleH cs product req backend
      let loads := if files then String.ofList (cs.map fun c => if confOk c then '1' else '0') ++ "|" else ""
      let model := loads ++ renderKind k ++ ";" ++ renderHdr hd
      let (loadsOk, impl) := if files then
          (match impl.splitOn "|" with
           | l :: rest => (l ++ "|" == loads, "|".intercalate rest)
           | [] => (false, impl))
        else (true, impl)
      -- the oracle is the single-configuration oracle, evaluated under the configuration in force
      let (hasRules, rules) := match rulesInForce cs product with
        | some rs => (true, rs)
        | none => (false, [])
      let everHad := cs.any fun c => confOk c && (lookup c.products product).isSome
      let tags := [if files then "files" else "hist", "confs" ++ toString cs.length] ++
        (if cs.any (fun c => !confOk c) then ["rejected-conf"] else []) ++
        (if everHad && !hasRules then ["product-removed"] else []) ++
        (if hasRules then ["nt"] else [])
      match parseResult impl with
      | none => { model := model, verdict := "FAIL:unparsable-result", tags := tags }
      | some (ki, hi) =>
        let v := if !loadsOk then "FAIL:loader-verdict" else verdict hasRules rules req backend ki hi
        -- a failure that would not be one under an EARLIER configuration's rules is stale state
        let v := if v.startsWith "FAIL:" && v != "FAIL:vary-absent-when-not-granted" && v != "FAIL:star-with-credentials" &&
                    v != "FAIL:loader-verdict" && cs.length > 1 then "FAIL:stale-conf-" ++ (v.drop 5).toString else v
        { model := model, verdict := v, tags := tags }
    | _, _, _, _, _, _, _ => bad
  | _ => bad

def run (op impl : String) : Ans :=
  let bad : Ans := { model := "bad-op", verdict := "skip" }
  if op.startsWith "corsh " || op.startsWith "corsf " then runHistory op impl else
  if !op.startsWith "cors " then bad else
  match ((op.drop 5).toString.splitOn ";").take 6 with
  | [hr, m, o, a, b, r] =>
    match kv hr "hr", (kv m "m").bind bytesOfHex, (kv o "o").bind bytesOfHex, (kv a "a").bind bytesOfHex,
          (kv b "b").bind parseHdr, (kv r "r").bind parseRules with
    | some hr, some m, some o, some a, some backend, some rules =>
      let hasRules := hr == "1"
      let req : Req := { method := m, origin := o, acrm := a }
      if !loadOk hasRules rules then
        { model := "err:rule", verdict := (if impl == "err:rule" then "ok" else "FAIL:invalid-rule-loaded"), tags := ["err-rule"] }
      else
        let (k, h) := handle hasRules rules req backend
        let model := renderKind k ++ ";" ++ renderHdr h
        let gov := governing hasRules rules
        let granted := o != [] && (match gov with | some r => allowedBy o r | none => false)
        let tags :=
          [if isPreflight req then "preflight" else if o == [] then "no-origin" else "simple"] ++
          [match gov with
            | none => "no-rule"
            | some r => if !allowedBy o r then "denied" else if expectedAcao o r == sStar then "star"
                        else if r.origins.contains sPctOrigin then "pct" else "exact"] ++
          [if backend.vary.isEmpty then "vary-none" else if backend.vary.length > 1 then "vary-multi"
           else if varyCovers backend.vary then "vary-has" else "vary-other"] ++
          (if granted && backend.acac == [sTrue] then ["backend-acac"] else []) ++
          (if granted && !(isPreflight req && k == Kind.N) then ["nt"] else [])
        match parseResult impl with
        | none => { model := model, verdict := "FAIL:unparsable-result", tags := tags }
        | some (ki, hi) => { model := model, verdict := verdict hasRules rules req backend ki hi, tags := tags }
    | _, _, _, _, _, _ => bad
  | _ => bad

end BfeVerif.C52
