import BfeVerif.C52.Proofs
/-!
  C52 — CORS headers are granted only to allowed origins and vary on Origin.
  Property theorems only (helper lemmas are in `Proofs.lean`).  `handle` is the model of
  corsPreflightHandler + corsHandler with `addVaryHeader` as fixed (the appended value is stored).
-/
namespace BfeVerif.C52

/-- The request carries an Origin that the governing rule (first rule of the product whose condition
    matches) allows: `%origin`, `*`, or an exact member of AccessControlAllowOrigins. -/
def Granted (hasRules : Bool) (rules : List Rule) (req : Req) : Prop :=
  req.origin ≠ [] ∧ ∃ r, governing hasRules rules = some r ∧ allowedBy req.origin r = true

/-- **C52_only_allowed**: when the Origin is not allowed (no Origin, no governing rule, or not in the
    rule's list) the module changes nothing: the preflight answer is bare, a backend response keeps every
    header (in particular no Access-Control-Allow-* header is added). -/
theorem C52_only_allowed (hasRules : Bool) (rules : List Rule) (req : Req) (backend : Hdr)
    (h : ¬ Granted hasRules rules req) :
    (handle hasRules rules req backend).2 = baseHdr (handle hasRules rules req backend).1 backend := by
  unfold Granted at h
  unfold governing at h
  unfold handle
  simp only []
  cases hs : firstMatch hasRules rules with
  | none => simp [baseHdr]
  | some r =>
    have hna : ¬ (req.origin ≠ [] ∧ allowedBy req.origin r = true) := by
      intro ⟨h1, h2⟩; exact h ⟨h1, r, hs, h2⟩
    by_cases hp : isPreflight req = true
    · have ho : req.origin ≠ [] := by
        unfold isPreflight at hp; simp at hp; exact hp.1.2
      have hal : allowedBy req.origin r = false := by
        cases hx : allowedBy req.origin r with
        | false => rfl
        | true => exact absurd ⟨ho, hx⟩ hna
      simp [hp, baseHdr, setPreflight, matchOrigin_eq, hal]
    · simp only [hp]
      by_cases ho : req.origin = []
      · simp [ho, baseHdr]
      · have hal : allowedBy req.origin r = false := by
          cases hx : allowedBy req.origin r with
          | false => rfl
          | true => exact absurd ⟨ho, hx⟩ hna
        simp [ho, baseHdr, setNonPreflight, matchOrigin_eq, hal]

/-- **C52_echo_or_star**: when granted, Access-Control-Allow-Origin is exactly one value: `*` if the rule
    lists `*` (and not `%origin`), otherwise the request's own Origin echoed. -/
theorem C52_echo_or_star (hasRules : Bool) (rules : List Rule) (req : Req) (backend : Hdr) (r : Rule)
    (ho : req.origin ≠ []) (hg : governing hasRules rules = some r) (ha : allowedBy req.origin r = true) :
    (handle hasRules rules req backend).2.acao = [expectedAcao req.origin r] ∧
    (expectedAcao req.origin r = req.origin ∨ (expectedAcao req.origin r = sStar ∧ sStar ∈ r.origins)) := by
  constructor
  · unfold handle governing at *
    simp only [hg]
    by_cases hp : isPreflight req = true
    · simp only [hp, if_true, setPreflight, matchOrigin_eq, ha]
      simp only [Bool.not_true, Bool.false_eq_true, if_false]
      split <;> split <;> split <;> split <;> rfl
    · simp only [hp, ho, beq_iff_eq, if_false, setNonPreflight, matchOrigin_eq, ha]
      simp only [Bool.not_true, Bool.false_eq_true, if_false, if_true, Bool.false_eq_true]
      split <;> split <;> rfl
  · unfold expectedAcao
    by_cases hs : sStar ∈ r.origins
    · by_cases hpct : sPctOrigin ∈ r.origins
      · left; simp [hpct]
      · right; simp [hs, hpct]
    · left; simp [hs]

/-- For a rule the loader accepts, `*` stands alone, so "`*` as configured" is unambiguous. -/
theorem C52_star_as_configured (r : Rule) (o : Str) (hok : ruleOk r = true) (hs : sStar ∈ r.origins) :
    expectedAcao o r = sStar := by
  have hall : r.origins.all (originOk r) = true := by
    unfold ruleOk at hok
    simp only [Bool.and_eq_true] at hok
    exact hok.1.1.1.1.2
  have h1 := List.all_eq_true.mp hall sStar hs
  unfold originOk at h1
  have hlen : r.origins.length = 1 := by
    simp at h1
    exact h1.2
  have : r.origins = [sStar] := by
    match hr : r.origins, hlen, hs with
    | [x], _, hs' => simp at hs'; rw [hs']
  unfold expectedAcao
  rw [this]
  have : ([sStar].contains sStar && ![sStar].contains sPctOrigin) = true := by decide
  rw [if_pos this]

/-- **C52_vary** (granted responses): every pre-existing Vary value is kept, in order, and some Vary line
    has the member `Origin` (or is `*`). -/
theorem C52_vary (hasRules : Bool) (rules : List Rule) (req : Req) (backend : Hdr) (r : Rule)
    (ho : req.origin ≠ []) (hg : governing hasRules rules = some r) (ha : allowedBy req.origin r = true) :
    (baseHdr (handle hasRules rules req backend).1 backend).vary <+: (handle hasRules rules req backend).2.vary ∧
    varyCovers (handle hasRules rules req backend).2.vary = true := by
  unfold handle governing at *
  simp only [hg]
  by_cases hp : isPreflight req = true
  · simp only [hp, if_true, setPreflight, matchOrigin_eq, ha, baseHdr]
    simp only [Bool.not_true, Bool.false_eq_true, if_false]
    have e : ∀ (h : Hdr), ({ h with vary := addVary h.vary } : Hdr).vary = addVary h.vary := fun _ => rfl
    split <;> split <;> split <;> split <;> exact ⟨addVary_prefix _, varyCovers_addVary _⟩
  · simp only [hp, ho, beq_iff_eq, if_false, setNonPreflight, matchOrigin_eq, ha, baseHdr]
    simp only [Bool.not_true, Bool.false_eq_true, if_false, if_true, Bool.false_eq_true]
    split <;> split <;> exact ⟨addVary_prefix _, varyCovers_addVary _⟩

/-- The property's Vary clause read literally: *whenever* the response depends on the request's Origin
    (some other Origin value would have produced a different response) Vary lists Origin. -/
def C52_vary_full : Prop :=
  ∀ (hasRules : Bool) (rules : List Rule) (req : Req) (backend : Hdr),
    (∃ o', handle hasRules rules { req with origin := o' } backend ≠ handle hasRules rules req backend) →
    varyCovers (handle hasRules rules req backend).2.vary = true

def witnessRule : Rule :=
  { hit := true, origins := [[0x61]], creds := false, expose := [], methods := [], headers := [], maxAge := none }
def witnessReq : Req := { method := [0x47], origin := [0x78], acrm := [] }

/-- **Finding** (`vary-absent-when-not-granted`): `addVaryHeader` is only reached on the granted path.  With the
    rule "allow origin `a`", a request from origin `x` gets a response without CORS headers *and without*
    `Vary: Origin`, although origin `a` would have got a different response — a shared cache may serve the
    denied variant to `a`. -/
theorem C52_witness_vary_not_granted : ¬ C52_vary_full := by
  intro h
  have := h true [witnessRule] witnessReq {} ⟨[0x61], by decide⟩
  revert this
  decide

/-- `C52_vary_full` restricted to the responses the module grants is `C52_vary`; for every other response
    the Vary header is simply the backend's (`C52_only_allowed`), so it lists Origin iff the backend did. -/
theorem C52_vary_full_partial (hasRules : Bool) (rules : List Rule) (req : Req) (backend : Hdr) :
    Granted hasRules rules req ∨ varyCovers (baseHdr (handle hasRules rules req backend).1 backend).vary = true →
    varyCovers (handle hasRules rules req backend).2.vary = true := by
  intro h
  by_cases hg : Granted hasRules rules req
  · obtain ⟨ho, r, hr, ha⟩ := hg
    exact (C52_vary hasRules rules req backend r ho hr ha).2
  · rcases h with h | h
    · exact absurd h hg
    · rw [C52_only_allowed hasRules rules req backend hg]; exact h

/-- **Model meets the spec oracle**: on the model's own result the oracle the driver applies to the
    implementation answers `ok`, except for the recorded finding, which it reports exactly when the module
    declined (not granted) under a governing rule and the untouched Vary does not list Origin. -/
theorem C52_model_meets_spec (hasRules : Bool) (rules : List Rule) (req : Req) (backend : Hdr) :
    let res := handle hasRules rules req backend
    verdict hasRules rules req backend res.1 res.2 = "ok" ∨
    (verdict hasRules rules req backend res.1 res.2 = "FAIL:vary-absent-when-not-granted" ∧
      ¬ Granted hasRules rules req ∧ (governing hasRules rules).isSome = true ∧
      varyCovers (baseHdr res.1 backend).vary = false) ∨
    (verdict hasRules rules req backend res.1 res.2 = "FAIL:star-with-credentials" ∧
      Granted hasRules rules req ∧ res.2.acao = [sStar] ∧ res.2.acac = [sTrue]) := by
  intro res
  have hres : res = handle hasRules rules req backend := rfl
  have hk : res.1 = (if answeredByModule hasRules rules req then Kind.P else Kind.N) := by
    rw [hres]; unfold handle answeredByModule governing
    simp only []
    cases firstMatch hasRules rules with
    | none => simp
    | some r =>
      by_cases hp : isPreflight req = true
      · simp [hp]
      · simp [hp]; split <;> rfl
  cases hg : governing hasRules rules with
  | none =>
    left
    have hng : ¬ Granted hasRules rules req := by
      intro ⟨_, r, hr, _⟩; rw [hg] at hr; cases hr
    have hb := C52_only_allowed hasRules rules req backend hng
    unfold verdict
    simp only [hg, ← hk, bne_self_eq_false, Bool.false_eq_true, if_false]
    rw [← hres] at hb
    simp [hb]
  | some r =>
    by_cases hgr : req.origin ≠ [] ∧ allowedBy req.origin r = true
    · obtain ⟨ho, ha⟩ := hgr
      have h1 := (C52_echo_or_star hasRules rules req backend r ho hg ha).1
      have h2 := C52_vary hasRules rules req backend r ho hg ha
      rw [← hres] at h1 h2
      have haux := handle_aux hasRules rules req backend r ho hg ha
      rw [← hres] at haux
      have ho' : (req.origin == []) = false := by simpa using ho
      cases hsc : ([expectedAcao req.origin r] == [sStar] && res.2.acac == [sTrue]) with
      | true =>
        right; right
        have hv : verdict hasRules rules req backend res.1 res.2 = "FAIL:star-with-credentials" := by
          unfold verdict
          simp only [hg, ← hk, bne_self_eq_false, Bool.false_eq_true, if_false]
          simp only [ho', ha, Bool.not_true, Bool.or_self, Bool.false_eq_true, if_false, h1, bne_self_eq_false,
            hsc, if_true]
        simp only [Bool.and_eq_true, beq_iff_eq] at hsc
        exact ⟨hv, ⟨ho, r, hg, ha⟩, by rw [h1, hsc.1], hsc.2⟩
      | false =>
        left
        unfold verdict
        simp only [hg, ← hk, bne_self_eq_false, Bool.false_eq_true, if_false]
        simp only [ho', ha, Bool.not_true, Bool.or_self, Bool.false_eq_true, if_false, h1, bne_self_eq_false,
          h2.2, List.isPrefixOf_iff_prefix.mpr h2.1, hsc]
        simp only [haux.1, haux.2.1, haux.2.2.1, haux.2.2.2.1, haux.2.2.2.2, bne_self_eq_false, Bool.or_self,
          Bool.false_eq_true, if_false]
        simp
        generalize res.fst = k
        cases k <;> rfl
    · have hng : ¬ Granted hasRules rules req := by
        intro ⟨ho, r', hr, ha⟩; rw [hg] at hr; cases hr; exact hgr ⟨ho, ha⟩
      have hb := C52_only_allowed hasRules rules req backend hng
      rw [← hres] at hb
      have hcond : (req.origin == [] || !allowedBy req.origin r) = true := by
        by_cases ho : req.origin = []
        · simp [ho]
        · have : allowedBy req.origin r = false := by
            cases hx : allowedBy req.origin r with
            | false => rfl
            | true => exact absurd ⟨ho, hx⟩ hgr
          simp [this]
      unfold verdict
      simp only [hg, ← hk, bne_self_eq_false, Bool.false_eq_true, if_false, hcond, if_true]
      rw [hb]
      simp only [bne_self_eq_false, Bool.false_eq_true, if_false]
      cases hv : varyCovers (baseHdr res.1 backend).vary with
      | true => left; simp
      | false => right; left; simp [hng]

/-! ### preflight handling in full -/

/-- **C52_preflight_answered_iff**: the module answers a request itself (204, never reaching the backend)
    exactly when it is an OPTIONS request with an Origin and a supported Access-Control-Request-Method and
    some rule of the product governs it. -/
theorem C52_preflight_answered_iff (hasRules : Bool) (rules : List Rule) (req : Req) (backend : Hdr) :
    (handle hasRules rules req backend).1 = Kind.P ↔
      (req.method = sOptions ∧ req.origin ≠ [] ∧ req.acrm ∈ supportedMethods ∧
        (governing hasRules rules).isSome = true) := by
  unfold handle governing
  simp only []
  have hpf : isPreflight req = true ↔ (req.method = sOptions ∧ req.origin ≠ [] ∧ req.acrm ∈ supportedMethods) := by
    unfold isPreflight; simp [and_assoc]
  cases hs : firstMatch hasRules rules with
  | none =>
    simp only [ite_self, Option.isSome_none, Bool.false_eq_true, and_false, iff_false]
    intro h; cases h
  | some r =>
    by_cases hp : isPreflight req = true
    · simp [hp, hpf.mp hp]
    · simp only [hp, Bool.false_eq_true, if_false, Option.isSome_some, and_true]
      constructor
      · intro h; split at h <;> (try split at h) <;> cases h
      · intro h; exact absurd (hpf.mpr h) hp

/-- **C52_preflight_response**: the complete header set of a granted preflight answer: the allowed origin,
    `Access-Control-Allow-Credentials: true` iff configured, the configured method and header lists joined by
    commas (absent when empty), `Access-Control-Max-Age` iff configured, no Expose-Headers, `Vary: Origin`. -/
theorem C52_preflight_response (hasRules : Bool) (rules : List Rule) (req : Req) (backend : Hdr) (r : Rule)
    (hp : isPreflight req = true) (hg : governing hasRules rules = some r) (ha : allowedBy req.origin r = true) :
    handle hasRules rules req backend =
      (Kind.P, { acao := [expectedAcao req.origin r],
                 acac := if r.creds then [sTrue] else [],
                 acam := if r.methods.length > 0 then [joinComma r.methods] else [],
                 acah := if r.headers.length > 0 then [joinComma r.headers] else [],
                 acma := match r.maxAge with | some m => [itoa m] | none => [],
                 aceh := [],
                 vary := [sOrigin] }) := by
  unfold handle governing at *
  simp only [hg, hp, if_true, setPreflight, matchOrigin_eq, ha]
  simp only [Bool.not_true, Bool.false_eq_true, if_false]
  have hv : addVary [] = [sOrigin] := by decide
  cases r.creds <;> cases r.maxAge <;> by_cases h1 : r.methods.length > 0 <;> by_cases h2 : r.headers.length > 0 <;>
    simp [h1, h2, hv]

/-- **C52_preflight_ignores_requested**: the answer lists what the rule allows; it does not depend on WHICH
    supported method is asked for nor on Access-Control-Request-Headers (the module never compares them with
    AccessControlAllowMethods / AccessControlAllowHeaders — under Fetch that comparison is the browser's). -/
theorem C52_preflight_ignores_requested (hasRules : Bool) (rules : List Rule) (req : Req) (backend : Hdr)
    (a1 a2 h1 h2 : Str) (hs1 : a1 ∈ supportedMethods) (hs2 : a2 ∈ supportedMethods) :
    handle hasRules rules { req with acrm := a1, acrh := h1 } backend =
    handle hasRules rules { req with acrm := a2, acrh := h2 } backend := by
  have e : isPreflight { req with acrm := a1, acrh := h1 } = isPreflight { req with acrm := a2, acrh := h2 } := by
    unfold isPreflight; simp [hs1, hs2]
  unfold handle
  simp only [e, setPreflight, setNonPreflight]

/-- **C52_max_age_range**: a rule the loader accepts carries a max-age within [-1, 86400]. -/
theorem C52_max_age_range (r : Rule) (m : Int) (hok : ruleOk r = true) (hm : r.maxAge = some m) :
    -1 ≤ m ∧ m ≤ 86400 := by
  unfold ruleOk at hok
  simp only [Bool.and_eq_true, hm] at hok
  have := hok.2
  simp at this
  omega

/-- **C52_star_no_credentials**: for a loader-accepted rule and a request whose Origin is not the literal `*`,
    a granted `Access-Control-Allow-Origin: *` is never accompanied by a module-set credentials header: the
    rule has credentials off and Access-Control-Allow-Credentials is whatever the backend sent. -/
theorem C52_star_no_credentials (hasRules : Bool) (rules : List Rule) (req : Req) (backend : Hdr) (r : Rule)
    (hok : ruleOk r = true) (ho : req.origin ≠ []) (hns : req.origin ≠ sStar)
    (hg : governing hasRules rules = some r) (ha : allowedBy req.origin r = true)
    (hstar : (handle hasRules rules req backend).2.acao = [sStar]) :
    r.creds = false ∧
    (handle hasRules rules req backend).2.acac = (baseHdr (handle hasRules rules req backend).1 backend).acac := by
  have h1 := (C52_echo_or_star hasRules rules req backend r ho hg ha)
  rw [hstar] at h1
  have hexp : expectedAcao req.origin r = sStar := by
    have := h1.1; simp at this; exact this.symm
  have hmem : sStar ∈ r.origins := by
    rcases h1.2 with h | h
    · rw [hexp] at h; exact absurd h.symm hns
    · exact h.2
  have hall : r.origins.all (originOk r) = true := by
    unfold ruleOk at hok
    simp only [Bool.and_eq_true] at hok
    exact hok.1.1.1.1.2
  have hso := List.all_eq_true.mp hall sStar hmem
  have hc : r.creds = false := by
    unfold originOk at hso
    cases hcr : r.creds with
    | false => rfl
    | true => rw [hcr] at hso; simp at hso
  refine ⟨hc, ?_⟩
  have haux := (handle_aux hasRules rules req backend r ho hg ha).1
  simp only [hc, Bool.false_eq_true, if_false] at haux
  exact haux

/-- **Finding** (`star-with-credentials`): the module does not look at credentials headers the backend already
    put on the response.  Rule `AccessControlAllowOrigins ["*"]` (credentials off), backend response carrying
    `Access-Control-Allow-Credentials: true`: the client receives `*` together with `true`, which Fetch
    forbids (browsers then refuse credentialed requests: fails closed). -/
theorem C52_witness_star_with_credentials :
    let r : Rule := { witnessRule with origins := [sStar] }
    ruleOk r = true ∧
    (handle true [r] { witnessReq with origin := [0x61] } { acac := [sTrue] }).2.acao = [sStar] ∧
    (handle true [r] { witnessReq with origin := [0x61] } { acac := [sTrue] }).2.acac = [sTrue] := by decide

/-- Not a violation of bfe's documentation (the loader comment says so), but worth knowing: a credentialed
    rule may list `*` as method / header, which Fetch then treats as the literal name `*`. -/
example : ruleOk { witnessRule with origins := [sPctOrigin], creds := true, methods := [sStar], headers := [sStar] } = true := by
  decide

/-! ### hot reloads -/

/-- **C52_reload_in_force**: whatever the history of reloads (accepted and rejected configurations, same or
    different version strings, products added / removed / changed), the rules the handlers see for a product
    are exactly those of the LAST ACCEPTED configuration; nothing of an earlier configuration survives. -/
theorem C52_reload_in_force (cs : List Conf) (product : Str) :
    lookup (tableAfter cs) product = rulesInForce cs product := by
  unfold tableAfter rulesInForce inForce
  rw [foldl_update]
  cases cs.reverse.find? confOk with
  | some c => rfl
  | none => rfl

/-- **C52_reload_last_conf**: after any history, a successfully loaded configuration alone decides the answer. -/
theorem C52_reload_last_conf (cs : List Conf) (c : Conf) (hok : confOk c = true)
    (product : Str) (req : Req) (backend : Hdr) :
    handleH (cs ++ [c]) product req backend = handleH [c] product req backend := by
  unfold handleH
  rw [C52_reload_in_force, C52_reload_in_force]
  unfold rulesInForce inForce
  simp [hok]

/-- a rejected configuration changes nothing -/
theorem C52_reload_rejected_keeps (cs : List Conf) (c : Conf) (hbad : confOk c = false)
    (product : Str) (req : Req) (backend : Hdr) :
    handleH (cs ++ [c]) product req backend = handleH cs product req backend := by
  unfold handleH
  rw [C52_reload_in_force, C52_reload_in_force]
  unfold rulesInForce inForce
  simp [hbad]

/-- a product withdrawn by a reload gets no CORS header any more (the case the merged-map defect broke) -/
example : (handleH [{ version := [1], products := [([0x70], [{ witnessRule with origins := [sPctOrigin] }])] },
                    { version := [1], products := [] }]
    [0x70] witnessReq {}).2 = {} := by decide

/-! Non-vacuity -/
example : Granted true [witnessRule] { witnessReq with origin := [0x61] } :=
  ⟨by decide, witnessRule, by decide, by decide⟩
example : (handle true [witnessRule] { witnessReq with origin := [0x61] }
    { vary := [[0x41]] }).2.vary = [[0x41], sOrigin] := by decide
example : ruleOk { witnessRule with origins := [sStar] } = true ∧ sStar ∈ ({ witnessRule with origins := [sStar] } : Rule).origins := by
  decide
/-- the pre-fix defect: `Vary: Accept-Encoding` stayed as it was; now `Origin` is appended -/
example : addVary [[0x41, 0x2d, 0x45]] = [[0x41, 0x2d, 0x45], sOrigin] := by decide

end BfeVerif.C52
