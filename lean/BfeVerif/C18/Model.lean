import BfeVerif.C17.Model
/-!
  C18 — model of ALL condition primitives as wired in `buildPrimitive` (build.go): Fetcher ∘ Matcher of
  `primitive.go`.  Core-only.  Strings are byte lists; `strings.ToUpper/ToLower` are modelled on ASCII.

  External functions are parameters (`Orc`): regexp (Compile ok / MatchString), the murmur3 bucket
  `GetHash(value, HashMatcherBucketSize)`, and the `C17.Ext` functions (net.ParseIP, bfe_util.ParseTime,
  fmt.Sscanf).  `sort.Strings` is modelled by insertion sort (the sorted list of distinct byte strings is unique)
  and `sort.SearchStrings` by the actual binary search loop of package sort.
-/
namespace BfeVerif.C18
open BfeVerif.C17 (Bytes splitOn upper bytesLt isV4 Ext)

structure Tls where
  sni : Bytes
  clientAuth : Bool
  ca : Bytes

structure Resp where
  code : Bytes                           -- strconv.Itoa(StatusCode)
  headers : List (Bytes × Bytes)

structure Req where
  host : Bytes                          -- HttpRequest.Host
  path : Bytes                          -- HttpRequest.URL.Path
  method : Bytes
  query : List (Bytes × Bytes)          -- parsed query in order; `Values.Get` = first value of the key
  headers : List (Bytes × Bytes)        -- canonical key, first value
  cookies : List (Bytes × Bytes)        -- in order; the first cookie of a name wins
  tags : List (Bytes × List Bytes)      -- Tags.TagTable (a map: the first entry of a key is the entry)
  cip : Option Bytes                    -- ClientAddr.IP.To16(), none if ClientAddr is nil
  vip : Option Bytes                    -- Session.Vip.To16(), none if nil
  uri : Bytes := []                     -- HttpRequest.RequestURI
  proto : Bytes := []                   -- HttpRequest.Proto
  secure : Bool := false                -- Session.IsSecure
  sesProto : Bytes := []                -- Session.Proto
  tls : Option Tls := none              -- Session.TlsState
  sip : Option Bytes := none            -- Session.RemoteAddr.IP.To16()
  hostTag : Bytes := []                 -- Route.HostTag
  trusted : Bool := false               -- Session.TrustSource()
  resp : Option Resp := none            -- HttpResponse
  ctx : Option (List (Bytes × Option Bytes)) := none   -- Context (none = nil map); value none = not a string
  cipStr : Bytes := []                  -- ClientAddr.IP.String()

structure Orc where
  x : Ext
  reMatch : Bytes → Bytes → Bool        -- regexp.MustCompile(p).MatchString(v)
  bucket : Bytes → Nat                  -- GetHash([]byte(v), HashMatcherBucketSize)

def assoc (k : Bytes) : List (Bytes × Bytes) → Option Bytes
  | [] => none
  | (a, v) :: rest => if a == k then some v else assoc k rest

def upperIf (fold : Bool) (s : Bytes) : Bytes := if fold then upper s else s
def lowerB (s : Bytes) : Bytes := s.map fun b => if 65 ≤ b && b ≤ 90 then b + 32 else b

/-- `strings.HasPrefix`: `len(s) >= len(p) && s[:len(p)] == p` -/
def hasPrefix (s p : Bytes) : Bool := decide (p.length ≤ s.length) && s.take p.length == p
/-- `strings.HasSuffix`: `len(s) >= len(p) && s[len(s)-len(p):] == p` -/
def hasSuffix (s p : Bytes) : Bool := decide (p.length ≤ s.length) && s.drop (s.length - p.length) == p
/-- `strings.Contains` -/
def containsB (s p : Bytes) : Bool :=
  (List.range (s.length + 1)).any fun i => decide (i + p.length ≤ s.length) && (s.drop i).take p.length == p

/-! ### sort.Strings / sort.SearchStrings -/
def bytesLe (a b : Bytes) : Bool := !(bytesLt b a)

def insertSorted (x : Bytes) : List Bytes → List Bytes
  | [] => [x]
  | y :: ys => if bytesLe x y then x :: y :: ys else y :: insertSorted x ys

def sortStrings : List Bytes → List Bytes
  | [] => []
  | x :: xs => insertSorted x (sortStrings xs)

/-- the loop of `sort.Search(n, func(h) bool { return a[h] >= x })` -/
def searchLoop (a : List Bytes) (x : Bytes) : Nat → Nat → Nat → Nat
  | 0, i, _ => i
  | fuel + 1, i, j =>
    if i < j then
      let h := (i + j) / 2
      if bytesLt (a.getD h []) x then searchLoop a x fuel (h + 1) j else searchLoop a x fuel i h
    else i

def searchStrings (a : List Bytes) (x : Bytes) : Nat := searchLoop a x (a.length + 1) 0 a.length

/-- `in(v, patterns)`: `i := sort.SearchStrings(patterns, v); i < len(patterns) && patterns[i] == v` -/
def inSorted (v : Bytes) (a : List Bytes) : Bool :=
  let i := searchStrings a v
  decide (i < a.length) && a.getD i [] == v

/-! ### matchers (primitive.go) -/
/-- NewInMatcher / InMatcher.Match, with the sort as a parameter -/
def inMWith (sort : List Bytes → List Bytes) (ps : Bytes) (fold : Bool) (v : Bytes) : Bool :=
  inSorted (upperIf fold v) (sort ((splitOn 124 ps).map (upperIf fold)))
def inM := inMWith sortStrings
def prefixM (ps : Bytes) (fold : Bool) (v : Bytes) : Bool :=
  ((splitOn 124 ps).map (upperIf fold)).any (fun p => hasPrefix (upperIf fold v) p)
def suffixM (ps : Bytes) (fold : Bool) (v : Bytes) : Bool :=
  ((splitOn 124 ps).map (upperIf fold)).any (fun p => hasSuffix (upperIf fold v) p)
def containM (ps : Bytes) (fold : Bool) (v : Bytes) : Bool :=
  ((splitOn 124 ps).map (upperIf fold)).any (fun p => containsB (upperIf fold v) p)
def addSlash (s : Bytes) : Bytes := if hasSuffix s [47] then s else s ++ [47]
def pathElemM (ps : Bytes) (fold : Bool) (v : Bytes) : Bool :=
  ((splitOn 124 ps).map (fun p => upperIf fold (addSlash p))).any (fun p => hasPrefix (upperIf fold (addSlash v)) p)
/-- ExactMatcher (req_proto_match): both sides upper-cased -/
def exactM (p : Bytes) (v : Bytes) : Bool := upper v == upper p

/-- the sections of a hash bucket list (all valid), as (start, end) pairs -/
def hashSections (p : Bytes) : Option (List (Nat × Nat)) := (splitOn 124 p).mapM C17.hashSection
/-- HashValueMatcher: `buckets[GetHash(value)]` -/
def hashM (o : Orc) (secs : List (Nat × Nat)) (insensitive : Bool) (v : Bytes) : Bool :=
  let b := o.bucket (if insensitive then lowerB v else v)
  secs.any fun se => decide (se.1 ≤ b) && decide (b ≤ se.2)

def ipLe (a b : Bytes) : Bool := !(bytesLt b a)
def ipRangeM (s e ip : Bytes) : Bool := ipLe s ip && ipLe ip e

/-! ### fetchers -/
inductive Fetched where
  | err                     -- the fetcher returns an error: the primitive is false
  | str (v : Bytes)
  | nonstr                  -- a value that is not a string (nil interface …): every string matcher is false
  deriving Repr

/-- `strings.SplitN(Host, ":", 2)[0]` -/
def hostOf (h : Bytes) : Bytes := h.takeWhile (· != 58)
/-- `port := "80"; i := strings.Index(Host, ":"); if i > 0 { port = Host[i+1:] }` -/
def portOf (h : Bytes) : Bytes :=
  let i := (h.takeWhile (· != 58)).length
  if i < h.length ∧ i > 0 then h.drop (i + 1) else [56, 48]
def queryGet (r : Req) (k : Bytes) : Bytes := (assoc k r.query).getD []
/-- `validHeaderFieldByte` of net/textproto: the token characters of RFC 7230 -/
def tokenByte (c : UInt8) : Bool :=
  (48 ≤ c && c ≤ 57) || (65 ≤ c && c ≤ 90) || (97 ≤ c && c ≤ 122) ||
  [33, 35, 36, 37, 38, 39, 42, 43, 45, 46, 94, 95, 96, 124, 126].contains c

def canonLoop : Bool → Bytes → Bytes
  | _, [] => []
  | up, c :: rest =>
    let c' := if up && (97 ≤ c && c ≤ 122) then c - 32 else if !up && (65 ≤ c && c ≤ 90) then c + 32 else c
    c' :: canonLoop (c == 45) rest

/-- `textproto.CanonicalMIMEHeaderKey`: keys with a byte that is not a token character are left alone -/
def canonKey (k : Bytes) : Bytes := if k.all tokenByte then canonLoop true k else k

/-- `Header.Get(key)`: first value stored under the canonical form of the key, "" if none -/
def headerGet (hs : List (Bytes × Bytes)) (k : Bytes) : Bytes := (assoc (canonKey k) hs).getD []
def tagsOf (r : Req) (k : Bytes) : Option (List Bytes) := (r.tags.find? (fun t => t.1 == k)).map (·.2)
def uaKey : Bytes := [85, 115, 101, 114, 45, 65, 103, 101, 110, 116]            -- "User-Agent"
def dtKey : Bytes := [88, 45, 66, 102, 101, 45, 68, 101, 98, 117, 103, 45, 84, 105, 109, 101]  -- "X-Bfe-Debug-Time"
/-- req.Protocol() -/
def protocolOf (r : Req) : Bytes := if r.secure then r.sesProto else r.proto
def sniOf (r : Req) : Fetched :=
  match r.secure, r.tls with
  | true, some t => if t.sni.isEmpty then .err else .str t.sni
  | _, _ => .err
def caOf (r : Req) : Fetched :=
  match r.secure, r.tls with
  | true, some t => if !t.clientAuth || t.ca.isEmpty then .err else .str t.ca
  | _, _ => .err
def ctxOf (r : Req) (k : Bytes) : Fetched :=
  match r.ctx with
  | none => .err
  | some m =>
    if k.isEmpty then .err
    else match m.find? (fun e => e.1 == k) with
      | some (_, some v) => .str v
      | _ => .nonstr
/-- BfeTimeFetcher with the X-Bfe-Debug-Time header (without it the clock is read: not modelled) -/
def timeOf (o : Orc) (r : Req) : Option Int :=
  match assoc dtKey r.headers with
  | some v => o.x.parseTime v
  | none => none

def onStr (f : Fetched) (m : Bytes → Bool) : Bool :=
  match f with
  | .str v => m v
  | _ => false

def ipFetch (ip : Option Bytes) (m : Bytes → Bool) : Bool :=
  match ip with
  | some a => m a
  | none => false

/-- seconds of the day of unix time `t` in the zone with offset `off` -/
def clockSecs (t off : Int) : Int := (t + off) % 86400

def mIpRange (o : Orc) (a0 a1 : Bytes) (ip : Option Bytes) : Option Bool :=
  match o.x.parseIP a0, o.x.parseIP a1 with
  | some s, some e =>
    if isV4 s != isV4 e then none else if bytesLt e s then none else some (ipFetch ip (ipRangeM s e))
  | _, _ => none
def mRe (o : Orc) (p : Bytes) (f : Fetched) : Option Bool := if o.x.regexOk p then some (onStr f (o.reMatch p)) else none
def mHash (o : Orc) (p : Bytes) (ins : Bool) (f : Fetched) : Option Bool :=
  match hashSections p with
  | some secs => some (onStr f (hashM o secs ins))
  | none => none
def cookieF (r : Req) (k : Bytes) : Fetched := match assoc k r.cookies with | some v => .str v | none => .err
def rhdrF (r : Req) (k : Bytes) : Fetched := match r.resp with | some p => .str (headerGet p.headers k) | none => .err

/-- the condition built for `prim(a0[, a1][, fold])`, applied to a request.
    `none` = Build returns an error. -/
def matchPrim (o : Orc) (prim : String) (a0 a1 : Bytes) (fold : Bool) (r : Req) : Option Bool :=
  match prim with
  | "default_t" => some true
  | "req_cip_trusted" => some r.trusted
  | "req_proto_secure" => some r.secure
  | "req_proto_match" => some (exactM a0 (protocolOf r))
  | "req_host_in" =>
    if (splitOn 124 a0).any (fun s => s.contains 58) then none else some (inM a0 true (hostOf r.host))
  | "req_host_suffix_in" => some (suffixM a0 true (hostOf r.host))
  | "req_host_tag_in" => some (inM a0 true r.hostTag)
  | "req_host_regmatch" => mRe o a0 (.str (hostOf r.host))
  | "req_port_in" => some (inM a0 false (portOf r.host))
  | "req_method_in" => some (inM a0 true r.method)
  | "req_path_in" => some (inM a0 fold r.path)
  | "req_path_prefix_in" => some (prefixM a0 fold r.path)
  | "req_path_suffix_in" => some (suffixM a0 fold r.path)
  | "req_path_contain" => some (containM a0 fold r.path)
  | "req_path_element_prefix_in" => some (pathElemM a0 fold r.path)
  | "req_path_regmatch" => mRe o a0 (.str r.path)
  | "req_url_regmatch" => mRe o a0 (.str r.uri)
  | "req_ua_regmatch" => mRe o a0 (.str (headerGet r.headers uaKey))
  | "req_query_exist" => some (!r.query.isEmpty)
  | "req_query_key_in" => some ((splitOn 124 a0).any (fun k => (assoc k r.query).isSome))
  | "req_query_key_prefix_in" => some (r.query.any (fun kv => (splitOn 124 a0).any (fun p => hasPrefix kv.1 p)))
  | "req_query_value_in" => some (inM a1 fold (queryGet r a0))
  | "req_query_value_prefix_in" => some (prefixM a1 fold (queryGet r a0))
  | "req_query_value_suffix_in" => some (suffixM a1 fold (queryGet r a0))
  | "req_query_value_contain" => some (containM a1 fold (queryGet r a0))
  | "req_query_value_regmatch" => mRe o a1 (.str (queryGet r a0))
  | "req_query_value_hash_in" => mHash o a1 fold (.str (queryGet r a0))
  | "req_header_key_in" => some ((splitOn 124 a0).any (fun k => headerGet r.headers k != []))
  | "req_header_value_in" => some (inM a1 fold (headerGet r.headers a0))
  | "req_header_value_prefix_in" => some (prefixM a1 fold (headerGet r.headers a0))
  | "req_header_value_suffix_in" => some (suffixM a1 fold (headerGet r.headers a0))
  | "req_header_value_contain" => some (containM a1 fold (headerGet r.headers a0))
  | "req_header_value_regmatch" => mRe o a1 (.str (headerGet r.headers a0))
  | "req_header_value_hash_in" => mHash o a1 fold (.str (headerGet r.headers a0))
  | "req_cookie_key_in" => some ((splitOn 124 a0).any (fun k => (assoc k r.cookies).isSome))
  | "req_cookie_value_in" => some (onStr (cookieF r a0) (inM a1 fold))
  | "req_cookie_value_prefix_in" => some (onStr (cookieF r a0) (prefixM a1 fold))
  | "req_cookie_value_suffix_in" => some (onStr (cookieF r a0) (suffixM a1 fold))
  | "req_cookie_value_contain" => some (onStr (cookieF r a0) (containM a1 fold))
  | "req_cookie_value_hash_in" => mHash o a1 fold (cookieF r a0)
  | "req_tag_match" =>
    some (match tagsOf r a0 with
      | some ts => ts.any (fun tag => (splitOn 58 tag).head? == some a1)
      | none => false)
  | "req_context_value_in" => some (onStr (ctxOf r a0) (inM a1 fold))
  | "req_cip_range" => mIpRange o a0 a1 r.cip
  | "req_vip_range" => mIpRange o a0 a1 r.vip
  | "ses_vip_range" => mIpRange o a0 a1 r.vip
  | "ses_sip_range" => mIpRange o a0 a1 r.sip
  | "req_cip_hash_in" => mHash o a0 false (match r.cip with | some _ => .str r.cipStr | none => .err)
  | "req_vip_in" =>
    let ps := (splitOn 124 a0).map o.x.parseIP
    if ps.all (·.isSome) then some (ipFetch r.vip (fun ip => ps.any (· == some ip))) else none
  | "res_code_in" => some (onStr (match r.resp with | some p => .str p.code | none => .err) (inM a0 false))
  | "res_header_key_in" =>
    some (match r.resp with
      | some p => (splitOn 124 a0).any (fun k => headerGet p.headers k != [])
      | none => false)
  | "res_header_value_in" => some (onStr (rhdrF r a0) (inM a1 fold))
  | "ses_tls_sni_in" => some (onStr (sniOf r) (inM a0 true))
  | "ses_tls_client_auth" => some (match r.secure, r.tls with | true, some t => t.clientAuth | _, _ => false)
  | "ses_tls_client_ca_in" => some (onStr (caOf r) (inM a0 false))
  | "bfe_time_range" =>
    match o.x.parseTime a0, o.x.parseTime a1 with
    | some s, some e =>
      if s > e then none
      else some (match timeOf o r with | some t => decide (s ≤ t) && decide (t ≤ e) | none => false)
    | _, _ => none
  | "bfe_periodic_time_range" =>
    -- a1 is the end time, the period argument (must be empty) is checked by the harness side of Build
    match C17.parseTimeOfDay o.x a0, C17.parseTimeOfDay o.x a1 with
    | some (some (s1, o1)), some (some (s2, o2)) =>
      if s1 > s2 then none else if o1 != o2 then none
      else some (match timeOf o r with
        | some t => decide ((s1 : Int) ≤ clockSecs t o1) && decide (clockSecs t o1 ≤ (s2 : Int))
        | none => false)
    | _, _ => none
  | _ => none

/-! ### Specification, written from docs/en_us/condition/**/*.md (independent of the matchers):
    every primitive is "the attribute exists and passes the documented test". -/
def lower1 (b : UInt8) : UInt8 := if 65 ≤ b && b ≤ 90 then b + 32 else b
/-- equal, ignoring ASCII case when `fold` -/
def eqv (fold : Bool) : Bytes → Bytes → Bool
  | [], [] => true
  | a :: as, b :: bs => (if fold then lower1 a == lower1 b else a == b) && eqv fold as bs
  | _, _ => false

def patterns (ps : Bytes) : List Bytes := splitOn 124 ps

def specIn (ps : Bytes) (fold : Bool) (v : Bytes) : Bool := (patterns ps).any (fun p => eqv fold p v)
def specPrefix (ps : Bytes) (fold : Bool) (v : Bytes) : Bool :=
  (patterns ps).any (fun p => decide (p.length ≤ v.length) && eqv fold p (v.take p.length))
def specSuffix (ps : Bytes) (fold : Bool) (v : Bytes) : Bool :=
  (patterns ps).any (fun p => decide (p.length ≤ v.length) && eqv fold p (v.drop (v.length - p.length)))
def specContain (ps : Bytes) (fold : Bool) (v : Bytes) : Bool :=
  (patterns ps).any (fun p => (List.range (v.length + 1)).any (fun i =>
    decide (i + p.length ≤ v.length) && eqv fold p ((v.drop i).take p.length)))
/-- path element prefix: both sides get a trailing '/' when they lack one -/
def norm (s : Bytes) : Bytes := if s.getLast? == some 47 then s else s ++ [47]
def specPathElem (ps : Bytes) (fold : Bool) (v : Bytes) : Bool :=
  (patterns ps).any (fun p => decide ((norm p).length ≤ (norm v).length) && eqv fold (norm p) ((norm v).take (norm p).length))

/-- host name and port of a Host header value: `name[:port]` or `[v6-literal][:port]` -/
def specHostPort (h : Bytes) : Bytes × Option Bytes :=
  match h with
  | 91 :: rest =>                                   -- '[' … ']' [':' port]
    let inner := rest.takeWhile (· != 93)
    let after := (rest.dropWhile (· != 93)).drop 1
    (91 :: inner ++ [93], match after with | 58 :: p => some p | _ => none)
  | _ =>
    let name := h.takeWhile (· != 58)
    (name, match h.dropWhile (· != 58) with | 58 :: p => some p | _ => none)

/-- "attribute exists and satisfies the test" -/
def attr (a : Option Bytes) (t : Bytes → Bool) : Bool :=
  match a with
  | some v => t v
  | none => false

def specHash (o : Orc) (p : Bytes) (ins : Bool) (a : Option Bytes) : Option Bool :=
  match hashSections p with
  | some secs => some (attr a fun v => secs.any fun se =>
      decide (se.1 ≤ o.bucket (if ins then lowerB v else v)) && decide (o.bucket (if ins then lowerB v else v) ≤ se.2))
  | none => none

def specIpRange (o : Orc) (a0 a1 : Bytes) (ip : Option Bytes) : Option Bool :=
  match o.x.parseIP a0, o.x.parseIP a1 with
  | some s, some e =>
    if isV4 s != isV4 e then none else if bytesLt e s then none
    else some (attr ip fun a => !(bytesLt a s) && !(bytesLt e a))
  | _, _ => none

def specTls (r : Req) : Option Tls := if r.secure then r.tls else none

def sRe (o : Orc) (p : Bytes) (a : Option Bytes) : Option Bool := if o.x.regexOk p then some (attr a (o.reMatch p)) else none
def sRh (r : Req) (k : Bytes) : Option Bytes := match r.resp with | some p => assoc (canonKey k) p.headers | none => none

/-- the documented meaning; a missing attribute makes the primitive false -/
def specPrim (o : Orc) (prim : String) (a0 a1 : Bytes) (fold : Bool) (r : Req) : Option Bool :=
  match prim with
  | "default_t" => some true
  | "req_cip_trusted" => some r.trusted
  | "req_proto_secure" => some r.secure
  | "req_proto_match" => some (eqv true a0 (if r.secure then r.sesProto else r.proto))
  | "req_host_in" =>
    if (patterns a0).any (fun s => s.contains 58) then none else some (specIn a0 true (specHostPort r.host).1)
  | "req_host_suffix_in" => some (specSuffix a0 true (specHostPort r.host).1)
  | "req_host_tag_in" => some (specIn a0 true r.hostTag)
  | "req_host_regmatch" => sRe o a0 (some (specHostPort r.host).1)
  | "req_port_in" => some (specIn a0 false ((specHostPort r.host).2.getD [56, 48]))
  | "req_method_in" => some (specIn a0 true r.method)
  | "req_path_in" => some (specIn a0 fold r.path)
  | "req_path_prefix_in" => some (specPrefix a0 fold r.path)
  | "req_path_suffix_in" => some (specSuffix a0 fold r.path)
  | "req_path_contain" => some (specContain a0 fold r.path)
  | "req_path_element_prefix_in" => some (specPathElem a0 fold r.path)
  | "req_path_regmatch" => sRe o a0 (some r.path)
  | "req_url_regmatch" => sRe o a0 (some r.uri)
  | "req_ua_regmatch" => sRe o a0 (assoc (canonKey uaKey) r.headers)
  | "req_query_exist" => some (r.query.length != 0)
  | "req_query_key_in" => some ((patterns a0).any (fun k => r.query.any (fun kv => kv.1 == k)))
  | "req_query_key_prefix_in" =>
    some ((patterns a0).any (fun p => r.query.any (fun kv => decide (p.length ≤ kv.1.length) && kv.1.take p.length == p)))
  | "req_query_value_in" => some (attr (assoc a0 r.query) (specIn a1 fold))
  | "req_query_value_prefix_in" => some (attr (assoc a0 r.query) (specPrefix a1 fold))
  | "req_query_value_suffix_in" => some (attr (assoc a0 r.query) (specSuffix a1 fold))
  | "req_query_value_contain" => some (attr (assoc a0 r.query) (specContain a1 fold))
  | "req_query_value_regmatch" => sRe o a1 (assoc a0 r.query)
  | "req_query_value_hash_in" => specHash o a1 fold (assoc a0 r.query)
  | "req_header_key_in" => some ((patterns a0).any (fun k => r.headers.any (fun kv => kv.1 == canonKey k)))
  | "req_header_value_in" => some (attr (assoc (canonKey a0) r.headers) (specIn a1 fold))
  | "req_header_value_prefix_in" => some (attr (assoc (canonKey a0) r.headers) (specPrefix a1 fold))
  | "req_header_value_suffix_in" => some (attr (assoc (canonKey a0) r.headers) (specSuffix a1 fold))
  | "req_header_value_contain" => some (attr (assoc (canonKey a0) r.headers) (specContain a1 fold))
  | "req_header_value_regmatch" => sRe o a1 (assoc (canonKey a0) r.headers)
  | "req_header_value_hash_in" => specHash o a1 fold (assoc (canonKey a0) r.headers)
  | "req_cookie_key_in" => some ((patterns a0).any (fun k => r.cookies.any (fun kv => kv.1 == k)))
  | "req_cookie_value_in" => some (attr (assoc a0 r.cookies) (specIn a1 fold))
  | "req_cookie_value_prefix_in" => some (attr (assoc a0 r.cookies) (specPrefix a1 fold))
  | "req_cookie_value_suffix_in" => some (attr (assoc a0 r.cookies) (specSuffix a1 fold))
  | "req_cookie_value_contain" => some (attr (assoc a0 r.cookies) (specContain a1 fold))
  | "req_cookie_value_hash_in" => specHash o a1 fold (assoc a0 r.cookies)
  | "req_tag_match" =>
    some (match tagsOf r a0 with
      | some ts => ts.any (fun tag => tag.takeWhile (· != 58) == a1)
      | none => false)
  | "req_context_value_in" =>
    some (match r.ctx with
      | some m => !a0.isEmpty && (match m.find? (fun e => e.1 == a0) with
          | some (_, some v) => specIn a1 fold v
          | _ => false)
      | none => false)
  | "req_cip_range" => specIpRange o a0 a1 r.cip
  | "req_vip_range" => specIpRange o a0 a1 r.vip
  | "ses_vip_range" => specIpRange o a0 a1 r.vip
  | "ses_sip_range" => specIpRange o a0 a1 r.sip
  | "req_cip_hash_in" => specHash o a0 false (r.cip.map fun _ => r.cipStr)
  | "req_vip_in" =>
    let ps := (patterns a0).map o.x.parseIP
    if ps.all (·.isSome) then some (attr r.vip fun ip => ps.contains (some ip)) else none
  | "res_code_in" => some (attr (r.resp.map (·.code)) (specIn a0 false))
  | "res_header_key_in" => some (attr (r.resp.map fun _ => []) fun _ =>
      (patterns a0).any (fun k => (r.resp.map (·.headers)).getD [] |>.any (fun kv => kv.1 == canonKey k)))
  | "res_header_value_in" => some (attr (sRh r a0) (specIn a1 fold))
  | "ses_tls_sni_in" => some (attr ((specTls r).bind fun t => if t.sni.isEmpty then none else some t.sni) (specIn a0 true))
  | "ses_tls_client_auth" => some (match specTls r with | some t => t.clientAuth | none => false)
  | "ses_tls_client_ca_in" =>
    some (attr ((specTls r).bind fun t => if t.clientAuth && !t.ca.isEmpty then some t.ca else none) (specIn a0 false))
  | "bfe_time_range" =>
    match o.x.parseTime a0, o.x.parseTime a1 with
    | some s, some e =>
      if s > e then none
      else some (match timeOf o r with | some t => decide (s ≤ t ∧ t ≤ e) | none => false)
    | _, _ => none
  | "bfe_periodic_time_range" =>
    match C17.parseTimeOfDay o.x a0, C17.parseTimeOfDay o.x a1 with
    | some (some (s1, o1)), some (some (s2, o2)) =>
      if s1 > s2 then none else if o1 != o2 then none
      else some (match timeOf o r with
        | some t => decide ((s1 : Int) ≤ (t + o1) % 86400 ∧ (t + o1) % 86400 ≤ (s2 : Int))
        | none => false)
    | _, _ => none
  | _ => none

end BfeVerif.C18
