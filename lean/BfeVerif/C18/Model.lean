import BfeVerif.C17.Model
/-!
  C18 — model of condition primitives as wired in `buildPrimitive` (build.go): Fetcher ∘ Matcher of
  `primitive.go`, for the host / port / path / query / header / cookie / method / tag / client-IP-range / VIP
  families.  Core-only.  Strings are byte lists; `strings.ToUpper` is modelled on ASCII.

  `InMatcher` / `HostMatcher` (sort.Strings + sort.SearchStrings) are modelled as membership in the pattern
  list; regexp and murmur3 primitives are not modelled here (external functions).
-/
namespace BfeVerif.C18
open BfeVerif.C17 (Bytes splitOn upper bytesLt isV4)

structure Req where
  host : Bytes                          -- HttpRequest.Host
  path : Bytes                          -- HttpRequest.URL.Path
  method : Bytes
  query : List (Bytes × Bytes)          -- parsed query in order; `Values.Get` = first value of the key
  headers : List (Bytes × Bytes)        -- canonical key, first value
  cookies : List (Bytes × Bytes)        -- in order; the first cookie of a name wins
  tags : List (Bytes × List Bytes)      -- Tags.TagTable
  cip : Option Bytes                    -- ClientAddr.IP.To16(), none if ClientAddr is nil
  vip : Option Bytes                    -- Session.Vip.To16(), none if nil

def assoc (k : Bytes) : List (Bytes × Bytes) → Option Bytes
  | [] => none
  | (a, v) :: rest => if a == k then some v else assoc k rest

def upperIf (fold : Bool) (s : Bytes) : Bytes := if fold then upper s else s

def isSuffixOf (p v : Bytes) : Bool := p.reverse.isPrefixOf v.reverse

def tails : Bytes → List Bytes
  | [] => [[]]
  | c :: rest => (c :: rest) :: tails rest

def contains (v p : Bytes) : Bool := (tails v).any (fun t => p.isPrefixOf t)

/-! matchers (primitive.go) -/
def inM (ps : Bytes) (fold : Bool) (v : Bytes) : Bool :=
  ((splitOn 124 ps).map (upperIf fold)).contains (upperIf fold v)
def prefixM (ps : Bytes) (fold : Bool) (v : Bytes) : Bool :=
  ((splitOn 124 ps).map (upperIf fold)).any (fun p => p.isPrefixOf (upperIf fold v))
def suffixM (ps : Bytes) (fold : Bool) (v : Bytes) : Bool :=
  ((splitOn 124 ps).map (upperIf fold)).any (fun p => isSuffixOf p (upperIf fold v))
def containM (ps : Bytes) (fold : Bool) (v : Bytes) : Bool :=
  ((splitOn 124 ps).map (upperIf fold)).any (fun p => contains (upperIf fold v) p)
def addSlash (s : Bytes) : Bytes := if isSuffixOf [47] s then s else s ++ [47]
def pathElemM (ps : Bytes) (fold : Bool) (v : Bytes) : Bool :=
  ((splitOn 124 ps).map (fun p => upperIf fold (addSlash p))).any (fun p => p.isPrefixOf (upperIf fold (addSlash v)))

/-! fetchers -/
/-- `strings.SplitN(Host, ":", 2)[0]` -/
def hostOf (h : Bytes) : Bytes := h.takeWhile (· != 58)
/-- `port := "80"; i := strings.Index(Host, ":"); if i > 0 { port = Host[i+1:] }` -/
def portOf (h : Bytes) : Bytes :=
  let i := (h.takeWhile (· != 58)).length
  if i < h.length ∧ i > 0 then h.drop (i + 1) else [56, 48]
def queryGet (r : Req) (k : Bytes) : Bytes := (assoc k r.query).getD []
def headerGet (r : Req) (k : Bytes) : Bytes := (assoc k r.headers).getD []

def ipLe (a b : Bytes) : Bool := !(bytesLt b a)

/-- the condition built for `prim(a0[, a1][, fold])`, applied to a request; `pips` = net.ParseIP of the
    IP patterns (oracle).  `none` = Build returns an error / primitive not modelled. -/
def matchPrim (prim : String) (a0 a1 : Bytes) (fold : Bool) (pips : List (Option Bytes)) (r : Req) : Option Bool :=
  match prim with
  | "req_host_in" =>
    if (splitOn 124 a0).any (fun s => s.contains 58) then none else some (inM a0 true (hostOf r.host))
  | "req_host_suffix_in" => some (suffixM a0 true (hostOf r.host))
  | "req_port_in" => some (inM a0 false (portOf r.host))
  | "req_method_in" => some (inM a0 true r.method)
  | "req_path_in" => some (inM a0 fold r.path)
  | "req_path_prefix_in" => some (prefixM a0 fold r.path)
  | "req_path_suffix_in" => some (suffixM a0 fold r.path)
  | "req_path_contain" => some (containM a0 fold r.path)
  | "req_path_element_prefix_in" => some (pathElemM a0 fold r.path)
  | "req_query_key_in" => some ((splitOn 124 a0).any (fun k => (assoc k r.query).isSome))
  | "req_query_value_in" => some (inM a1 fold (queryGet r a0))
  | "req_query_value_prefix_in" => some (prefixM a1 fold (queryGet r a0))
  | "req_query_value_suffix_in" => some (suffixM a1 fold (queryGet r a0))
  | "req_query_value_contain" => some (containM a1 fold (queryGet r a0))
  | "req_header_key_in" => some ((splitOn 124 a0).any (fun k => headerGet r k != []))
  | "req_header_value_in" => some (inM a1 fold (headerGet r a0))
  | "req_header_value_prefix_in" => some (prefixM a1 fold (headerGet r a0))
  | "req_header_value_suffix_in" => some (suffixM a1 fold (headerGet r a0))
  | "req_header_value_contain" => some (containM a1 fold (headerGet r a0))
  | "req_cookie_key_in" => some ((splitOn 124 a0).any (fun k => (assoc k r.cookies).isSome))
  | "req_cookie_value_in" => some (match assoc a0 r.cookies with | some v => inM a1 fold v | none => false)
  | "req_cookie_value_prefix_in" => some (match assoc a0 r.cookies with | some v => prefixM a1 fold v | none => false)
  | "req_tag_match" =>
    some (match r.tags.find? (fun t => t.1 == a0) with
      | some t => t.2.any (fun tag => (splitOn 58 tag).head? == some a1)
      | none => false)
  | "req_cip_range" =>
    match pips with
    | [some s, some e] =>
      if isV4 s != isV4 e then none else if bytesLt e s then none
      else some (match r.cip with | some ip => ipLe s ip && ipLe ip e | none => false)
    | _ => none
  | "req_vip_in" =>
    if pips.all (·.isSome) && !pips.isEmpty then
      some (match r.vip with | some ip => pips.any (· == some ip) | none => false)
    else none
  | _ => none

/-! ### Specification, written from docs/en_us/condition/request/*.md (independent of the matchers) -/
def lower1 (b : UInt8) : UInt8 := if 65 ≤ b && b ≤ 90 then b + 32 else b
/-- equal, ignoring ASCII case when `fold` -/
def eqv (fold : Bool) : Bytes → Bytes → Bool
  | [], [] => true
  | a :: as, b :: bs => (if fold then lower1 a == lower1 b else a == b) && eqv fold as bs
  | _, _ => false

def patterns (ps : Bytes) : List Bytes := splitOn 124 ps

def specIn (ps : Bytes) (fold : Bool) (v : Bytes) : Bool := (patterns ps).any (fun p => eqv fold p v)
def specPrefix (ps : Bytes) (fold : Bool) (v : Bytes) : Bool :=
  (patterns ps).any (fun p => decide (p.length ≤ v.length) && eqv fold p (v.take p.length))
def specSuffix (ps : Bytes) (fold : Bool) (v : Bytes) : Bool :=
  (patterns ps).any (fun p => decide (p.length ≤ v.length) && eqv fold p (v.drop (v.length - p.length)))
def specContain (ps : Bytes) (fold : Bool) (v : Bytes) : Bool :=
  (patterns ps).any (fun p => (List.range (v.length + 1)).any (fun i =>
    decide (i + p.length ≤ v.length) && eqv fold p ((v.drop i).take p.length)))
/-- path element prefix: both sides get a trailing '/' when they lack one -/
def specPathElem (ps : Bytes) (fold : Bool) (v : Bytes) : Bool :=
  let norm := fun (s : Bytes) => if s.getLast? == some 47 then s else s ++ [47]
  (patterns ps).any (fun p => decide ((norm p).length ≤ (norm v).length) && eqv fold (norm p) ((norm v).take (norm p).length))

/-- host name and port of a Host header value: `name[:port]` or `[v6-literal][:port]` -/
def specHostPort (h : Bytes) : Bytes × Option Bytes :=
  match h with
  | 91 :: rest =>                                   -- '[' … ']' [':' port]
    let inner := rest.takeWhile (· != 93)
    let after := (rest.dropWhile (· != 93)).drop 1
    (91 :: inner ++ [93], match after with | 58 :: p => some p | _ => none)
  | _ =>
    let name := h.takeWhile (· != 58)
    (name, match h.dropWhile (· != 58) with | 58 :: p => some p | _ => none)

/-- the documented meaning; a missing attribute makes the primitive false -/
def specPrim (prim : String) (a0 a1 : Bytes) (fold : Bool) (pips : List (Option Bytes)) (r : Req) : Option Bool :=
  match prim with
  | "req_host_in" =>
    if (patterns a0).any (fun s => s.contains 58) then none else some (specIn a0 true (specHostPort r.host).1)
  | "req_host_suffix_in" => some (specSuffix a0 true (specHostPort r.host).1)
  | "req_port_in" => some (specIn a0 false ((specHostPort r.host).2.getD [56, 48]))
  | "req_method_in" => some (specIn a0 true r.method)
  | "req_path_in" => some (specIn a0 fold r.path)
  | "req_path_prefix_in" => some (specPrefix a0 fold r.path)
  | "req_path_suffix_in" => some (specSuffix a0 fold r.path)
  | "req_path_contain" => some (specContain a0 fold r.path)
  | "req_path_element_prefix_in" => some (specPathElem a0 fold r.path)
  | "req_query_key_in" => some ((patterns a0).any (fun k => r.query.any (fun kv => kv.1 == k)))
  | "req_query_value_in" => some (match assoc a0 r.query with | some v => specIn a1 fold v | none => false)
  | "req_query_value_prefix_in" => some (match assoc a0 r.query with | some v => specPrefix a1 fold v | none => false)
  | "req_query_value_suffix_in" => some (match assoc a0 r.query with | some v => specSuffix a1 fold v | none => false)
  | "req_query_value_contain" => some (match assoc a0 r.query with | some v => specContain a1 fold v | none => false)
  | "req_header_key_in" => some ((patterns a0).any (fun k => r.headers.any (fun kv => kv.1 == k)))
  | "req_header_value_in" => some (match assoc a0 r.headers with | some v => specIn a1 fold v | none => false)
  | "req_header_value_prefix_in" => some (match assoc a0 r.headers with | some v => specPrefix a1 fold v | none => false)
  | "req_header_value_suffix_in" => some (match assoc a0 r.headers with | some v => specSuffix a1 fold v | none => false)
  | "req_header_value_contain" => some (match assoc a0 r.headers with | some v => specContain a1 fold v | none => false)
  | "req_cookie_key_in" => some ((patterns a0).any (fun k => r.cookies.any (fun kv => kv.1 == k)))
  | "req_cookie_value_in" => some (match assoc a0 r.cookies with | some v => specIn a1 fold v | none => false)
  | "req_cookie_value_prefix_in" => some (match assoc a0 r.cookies with | some v => specPrefix a1 fold v | none => false)
  | "req_tag_match" =>
    some (r.tags.any (fun t => t.1 == a0 && t.2.any (fun tag => tag.takeWhile (· != 58) == a1)))
  | "req_cip_range" =>
    match pips with
    | [some s, some e] =>
      if isV4 s != isV4 e then none else if bytesLt e s then none
      else some (match r.cip with | some ip => !(bytesLt ip s) && !(bytesLt e ip) | none => false)
    | _ => none
  | "req_vip_in" =>
    if pips.all (·.isSome) && !pips.isEmpty then
      some (match r.vip with | some ip => pips.contains (some ip) | none => false)
    else none
  | _ => none

end BfeVerif.C18
