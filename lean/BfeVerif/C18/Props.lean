import BfeVerif.C18.Proofs
/-!
  C18 — condition primitives implement their documented matching.
  Property theorems only (helper lemmas are in `Proofs.lean`).

  `matchPrim` = Fetcher ∘ Matcher as wired in buildPrimitive; `specPrim` = the documented test
  (docs/en_us/condition/request/*.md), with "a missing attribute makes the primitive false".

  FULL STATEMENT (C18, for the modelled primitives), false on the current tree (see the witnesses):
      ∀ prim a0 a1 fold pips r, matchPrim prim a0 a1 fold pips r = specPrim prim a0 a1 fold pips r
-/
namespace BfeVerif.C18
open BfeVerif.C17 (Bytes splitOn upper bytesLt isV4)

/-- exact match against a `|` list, with the documented case handling (for every pattern list and value) -/
theorem C18_in_matcher (ps : Bytes) (fold : Bool) (v : Bytes) : inM ps fold v = specIn ps fold v :=
  inM_eq_spec ps fold v

/-- prefix match against a `|` list, with the documented case handling -/
theorem C18_prefix_matcher (ps : Bytes) (fold : Bool) (v : Bytes) : prefixM ps fold v = specPrefix ps fold v :=
  prefixM_eq_spec ps fold v

/-- primitives whose attribute always exists and whose matcher is proved: path / method -/
theorem C18_path_method (prim : String) (h : prim ∈ ["req_path_in", "req_path_prefix_in", "req_method_in"])
    (a0 a1 : Bytes) (fold : Bool) (pips : List (Option Bytes)) (r : Req) :
    matchPrim prim a0 a1 fold pips r = specPrim prim a0 a1 fold pips r := by
  simp only [List.mem_cons, List.mem_nil_iff, or_false] at h
  rcases h with rfl | rfl | rfl <;> simp [matchPrim, specPrim, inM_eq_spec, prefixM_eq_spec]

/-- cookie values: a missing cookie makes the primitive false, a present one is matched as documented -/
theorem C18_cookie_value (prim : String) (h : prim ∈ ["req_cookie_value_in", "req_cookie_value_prefix_in"])
    (a0 a1 : Bytes) (fold : Bool) (pips : List (Option Bytes)) (r : Req) :
    matchPrim prim a0 a1 fold pips r = specPrim prim a0 a1 fold pips r := by
  simp only [List.mem_cons, List.mem_nil_iff, or_false] at h
  rcases h with rfl | rfl <;> simp only [matchPrim, specPrim] <;> cases assoc a0 r.cookies <;>
    simp [inM_eq_spec, prefixM_eq_spec]

/-- **C18_header_query_value_partial**: header / query values are matched as documented WHEN the
    header / query key is present in the request. -/
theorem C18_header_query_value_partial (a0 a1 : Bytes) (fold : Bool) (pips : List (Option Bytes)) (r : Req) :
    ((assoc a0 r.headers).isSome →
      matchPrim "req_header_value_in" a0 a1 fold pips r = specPrim "req_header_value_in" a0 a1 fold pips r ∧
      matchPrim "req_header_value_prefix_in" a0 a1 fold pips r = specPrim "req_header_value_prefix_in" a0 a1 fold pips r) ∧
    ((assoc a0 r.query).isSome →
      matchPrim "req_query_value_in" a0 a1 fold pips r = specPrim "req_query_value_in" a0 a1 fold pips r ∧
      matchPrim "req_query_value_prefix_in" a0 a1 fold pips r = specPrim "req_query_value_prefix_in" a0 a1 fold pips r) := by
  constructor
  · intro h
    cases hv : assoc a0 r.headers with
    | none => rw [hv] at h; simp at h
    | some v => simp [matchPrim, specPrim, headerGet, hv, inM_eq_spec, prefixM_eq_spec]
  · intro h
    cases hv : assoc a0 r.query with
    | none => rw [hv] at h; simp at h
    | some v => simp [matchPrim, specPrim, queryGet, hv, inM_eq_spec, prefixM_eq_spec]

def emptyReq : Req := { host := [], path := [47], method := [71, 69, 84], query := [], headers := [], cookies := [],
                        tags := [], cip := none, vip := none }

/-- **C18_missing_witness**: the full statement is false — `req_header_value_in("X", "", false)` and
    `req_query_value_prefix_in("k", "", false)` are TRUE on a request that has no header X / no query key k
    (the fetchers return "" for an absent attribute); documented: a missing attribute makes the primitive false. -/
theorem C18_missing_witness :
    matchPrim "req_header_value_in" [88] [] false [] emptyReq = some true ∧
    specPrim "req_header_value_in" [88] [] false [] emptyReq = some false ∧
    matchPrim "req_query_value_prefix_in" [107] [] false [] emptyReq = some true ∧
    specPrim "req_query_value_prefix_in" [107] [] false [] emptyReq = some false := by decide

/-- client address range: both bounds are included, a request without client address never matches,
    and ranges with reversed bounds or mixed IPv4/IPv6 bounds are build errors -/
theorem C18_cip_range (a0 a1 : Bytes) (fold : Bool) (pips : List (Option Bytes)) (r : Req) :
    matchPrim "req_cip_range" a0 a1 fold pips r = specPrim "req_cip_range" a0 a1 fold pips r := by
  simp only [matchPrim, specPrim, ipLe]

theorem C18_cip_range_bounds (s e : Bytes) (h4 : isV4 s = isV4 e) (hle : bytesLt e s = false) (r : Req) :
    matchPrim "req_cip_range" [] [] false [some s, some e] { r with cip := some s } = some true ∧
    matchPrim "req_cip_range" [] [] false [some s, some e] { r with cip := some e } = some true ∧
    matchPrim "req_cip_range" [] [] false [some s, some e] { r with cip := none } = some false := by
  have irr : ∀ a : Bytes, bytesLt a a = false := by
    intro a; induction a with
    | nil => rfl
    | cons x xs ih => simp [bytesLt, ih]
  simp [matchPrim, h4, hle, ipLe, irr]

/-- host name: for Host values that do not start with `[` (no IPv6 literal) the host primitives see
    the documented host name (the part before the optional `:port`) -/
theorem C18_host_partial (a0 a1 : Bytes) (fold : Bool) (pips : List (Option Bytes)) (r : Req)
    (h : r.host.head? ≠ some 91) :
    matchPrim "req_host_in" a0 a1 fold pips r = specPrim "req_host_in" a0 a1 fold pips r := by
  have hh : (specHostPort r.host).1 = hostOf r.host := by
    unfold specHostPort hostOf
    cases hr : r.host with
    | nil => rfl
    | cons c cs =>
      rw [hr] at h
      have : c ≠ 91 := by intro hc; apply h; simp [hc]
      split
      · rename_i heq; simp at heq; exact absurd heq.1 this
      · rfl
  simp [matchPrim, specPrim, patterns, hh, inM_eq_spec]

/-- **C18_port_witness**: `req_port_in("8080")` is false for `Host: [::1]:8080` (the port is cut at the
    first colon of the IPv6 literal) and for `Host: :8080`; documented: the port of the request. -/
theorem C18_port_witness :
    matchPrim "req_port_in" [56, 48, 56, 48] [] false [] { emptyReq with host := [91, 58, 58, 49, 93, 58, 56, 48, 56, 48] } = some false ∧
    specPrim "req_port_in" [56, 48, 56, 48] [] false [] { emptyReq with host := [91, 58, 58, 49, 93, 58, 56, 48, 56, 48] } = some true := by
  decide

/-! Non-vacuity -/
example : matchPrim "req_path_prefix_in" [47, 65] [] true [] { emptyReq with path := [47, 97, 47, 98] } = some true := by decide
example : (assoc [88] { emptyReq with headers := [([88], [118])] }.headers).isSome = true := by decide
example : specPrim "req_header_value_in" [88] [86] true [] { emptyReq with headers := [([88], [118])] } = some true := by decide

end BfeVerif.C18
