import BfeVerif.C18.Proofs
/-!
  C18 — condition primitives implement their documented matching.
  Property theorems only (helper lemmas are in `Proofs.lean`).

  `matchPrim o prim a0 a1 fold r` = Fetcher ∘ Matcher as wired in buildPrimitive for ALL 56 primitives of
  funcProtos; `specPrim` = the documented test (docs/en_us/condition/**), "the attribute exists and passes
  the test".  `o : Orc` are the external functions (regexp, murmur3 bucket, net.ParseIP, ParseTime, Sscanf):
  every theorem holds for all of them.

  FULL STATEMENT (C18), false on the current tree (see the four witnesses):
      ∀ o prim a0 a1 fold r, matchPrim o prim a0 a1 fold r = specPrim o prim a0 a1 fold r
-/
namespace BfeVerif.C18
open BfeVerif.C17 (Bytes splitOn upper bytesLt isV4)

/-- `in(v, patterns)` — the binary search of sort.SearchStrings — is membership on EVERY sorted list. -/
theorem C18_binsearch_mem (a : List Bytes) (v : Bytes) (hs : Sorted a) : inSorted v a = true ↔ v ∈ a :=
  inSorted_iff_mem a v hs

/-- InMatcher / NewInMatcher with ANY sort function that returns a sorted list with the same members:
    the documented exact match (with case folding).  The sortedness the binary search needs is that of the
    list AFTER folding — discharged here because the model (like NewInMatcher) sorts after `toUpper`. -/
theorem C18_in_matcher_any_sort (sort : List Bytes → List Bytes)
    (hsorted : ∀ l, Sorted (sort l)) (hmem : ∀ l v, v ∈ sort l ↔ v ∈ l)
    (ps : Bytes) (fold : Bool) (v : Bytes) : inMWith sort ps fold v = specIn ps fold v :=
  inMWith_eq_spec sort hsorted hmem ps fold v

/-- the sort used by the executable model meets that contract (non-vacuity of the previous theorem) -/
theorem C18_sort_contract : (∀ l, Sorted (sortStrings l)) ∧ (∀ l v, v ∈ sortStrings l ↔ v ∈ l) :=
  ⟨sorted_sortStrings, fun l v => mem_sortStrings v l⟩

/-- sorting BEFORE folding does not give what the search needs: ["B","a"] is sorted, its folding ["B","A"] is
    not, and the search misses "A" (this is the seeded change the check caught). -/
theorem C18_sort_before_fold_breaks :
    inSorted (upper [97]) ((sortStrings [[66], [97]]).map upper) = false ∧ upper [97] ∈ (sortStrings [[66], [97]]).map upper := by
  decide

theorem C18_in_matcher (ps : Bytes) (fold : Bool) (v : Bytes) : inM ps fold v = specIn ps fold v := inM_eq_spec ps fold v
theorem C18_prefix_matcher (ps : Bytes) (fold : Bool) (v : Bytes) : prefixM ps fold v = specPrefix ps fold v := prefixM_eq_spec ps fold v
theorem C18_suffix_matcher (ps : Bytes) (fold : Bool) (v : Bytes) : suffixM ps fold v = specSuffix ps fold v := suffixM_eq_spec ps fold v
theorem C18_contain_matcher (ps : Bytes) (fold : Bool) (v : Bytes) : containM ps fold v = specContain ps fold v := containM_eq_spec ps fold v
theorem C18_path_element_matcher (ps : Bytes) (fold : Bool) (v : Bytes) : pathElemM ps fold v = specPathElem ps fold v := pathElemM_eq_spec ps fold v

/-- the primitives for which model = documented meaning holds for ALL arguments, requests and oracles
    (a missing attribute makes them false) -/
def unconditional : List String := ["default_t", "req_cip_trusted", "req_proto_secure", "req_proto_match", "req_host_tag_in", "req_method_in", "req_path_in", "req_path_prefix_in", "req_path_suffix_in", "req_path_contain", "req_path_element_prefix_in", "req_path_regmatch", "req_url_regmatch", "req_query_exist", "req_query_key_in", "req_query_key_prefix_in", "req_cookie_key_in", "req_cookie_value_in", "req_cookie_value_prefix_in", "req_cookie_value_suffix_in", "req_cookie_value_contain", "req_cookie_value_hash_in", "req_tag_match", "req_context_value_in", "req_cip_range", "req_vip_range", "ses_vip_range", "ses_sip_range", "req_cip_hash_in", "req_vip_in", "res_code_in", "ses_tls_sni_in", "ses_tls_client_auth", "ses_tls_client_ca_in", "bfe_time_range", "bfe_periodic_time_range"]

theorem C18_unconditional (prim : String) (h : prim ∈ unconditional)
    (o : Orc) (a0 a1 : Bytes) (fold : Bool) (r : Req) :
    matchPrim o prim a0 a1 fold r = specPrim o prim a0 a1 fold r := by
  unfold unconditional at h
  simp only [List.mem_cons, List.mem_nil_iff, or_false] at h
  rcases h with rfl | rfl | rfl | rfl | rfl | rfl | rfl | rfl | rfl | rfl | rfl | rfl | rfl | rfl | rfl | rfl | rfl | rfl | rfl | rfl | rfl | rfl | rfl | rfl | rfl | rfl | rfl | rfl | rfl | rfl | rfl | rfl | rfl | rfl | rfl | rfl
  · exact eq_default_t o a0 a1 fold r
  · exact eq_req_cip_trusted o a0 a1 fold r
  · exact eq_req_proto_secure o a0 a1 fold r
  · exact eq_req_proto_match o a0 a1 fold r
  · exact eq_req_host_tag_in o a0 a1 fold r
  · exact eq_req_method_in o a0 a1 fold r
  · exact eq_req_path_in o a0 a1 fold r
  · exact eq_req_path_prefix_in o a0 a1 fold r
  · exact eq_req_path_suffix_in o a0 a1 fold r
  · exact eq_req_path_contain o a0 a1 fold r
  · exact eq_req_path_element_prefix_in o a0 a1 fold r
  · exact eq_req_path_regmatch o a0 a1 fold r
  · exact eq_req_url_regmatch o a0 a1 fold r
  · exact eq_req_query_exist o a0 a1 fold r
  · exact eq_req_query_key_in o a0 a1 fold r
  · exact eq_req_query_key_prefix_in o a0 a1 fold r
  · exact eq_req_cookie_key_in o a0 a1 fold r
  · exact eq_req_cookie_value_in o a0 a1 fold r
  · exact eq_req_cookie_value_prefix_in o a0 a1 fold r
  · exact eq_req_cookie_value_suffix_in o a0 a1 fold r
  · exact eq_req_cookie_value_contain o a0 a1 fold r
  · exact eq_req_cookie_value_hash_in o a0 a1 fold r
  · exact eq_req_tag_match o a0 a1 fold r
  · exact eq_req_context_value_in o a0 a1 fold r
  · exact eq_req_cip_range o a0 a1 fold r
  · exact eq_req_vip_range o a0 a1 fold r
  · exact eq_ses_vip_range o a0 a1 fold r
  · exact eq_ses_sip_range o a0 a1 fold r
  · exact eq_req_cip_hash_in o a0 a1 fold r
  · exact eq_req_vip_in o a0 a1 fold r
  · exact eq_res_code_in o a0 a1 fold r
  · exact eq_ses_tls_sni_in o a0 a1 fold r
  · exact eq_ses_tls_client_auth o a0 a1 fold r
  · exact eq_ses_tls_client_ca_in o a0 a1 fold r
  · exact eq_bfe_time_range o a0 a1 fold r
  · exact eq_bfe_periodic_time_range o a0 a1 fold r

/-- header / query value primitives (in, prefix, suffix, contain, regmatch, hash): documented meaning
    WHEN the header / query key is present -/
def headerValuePrims : List String := ["req_header_value_in", "req_header_value_prefix_in", "req_header_value_suffix_in", "req_header_value_contain", "req_header_value_regmatch", "req_header_value_hash_in"]
def queryValuePrims : List String := ["req_query_value_in", "req_query_value_prefix_in", "req_query_value_suffix_in", "req_query_value_contain", "req_query_value_regmatch", "req_query_value_hash_in"]
def valuePrims : List String := headerValuePrims ++ queryValuePrims

theorem C18_header_value_present_partial (prim : String) (h : prim ∈ headerValuePrims)
    (o : Orc) (a0 a1 : Bytes) (fold : Bool) (r : Req) (v : Bytes) (hp : assoc (canonKey a0) r.headers = some v) :
    matchPrim o prim a0 a1 fold r = specPrim o prim a0 a1 fold r := by
  unfold headerValuePrims at h
  simp only [List.mem_cons, List.mem_nil_iff, or_false] at h
  rcases h with rfl | rfl | rfl | rfl | rfl | rfl
  · exact eq_req_header_value_in o a0 a1 fold r v hp
  · exact eq_req_header_value_prefix_in o a0 a1 fold r v hp
  · exact eq_req_header_value_suffix_in o a0 a1 fold r v hp
  · exact eq_req_header_value_contain o a0 a1 fold r v hp
  · exact eq_req_header_value_regmatch o a0 a1 fold r v hp
  · exact eq_req_header_value_hash_in o a0 a1 fold r v hp

theorem C18_query_value_present_partial (prim : String) (h : prim ∈ queryValuePrims)
    (o : Orc) (a0 a1 : Bytes) (fold : Bool) (r : Req) (v : Bytes) (hp : assoc a0 r.query = some v) :
    matchPrim o prim a0 a1 fold r = specPrim o prim a0 a1 fold r := by
  unfold queryValuePrims at h
  simp only [List.mem_cons, List.mem_nil_iff, or_false] at h
  rcases h with rfl | rfl | rfl | rfl | rfl | rfl
  · exact eq_req_query_value_in o a0 a1 fold r v hp
  · exact eq_req_query_value_prefix_in o a0 a1 fold r v hp
  · exact eq_req_query_value_suffix_in o a0 a1 fold r v hp
  · exact eq_req_query_value_contain o a0 a1 fold r v hp
  · exact eq_req_query_value_regmatch o a0 a1 fold r v hp
  · exact eq_req_query_value_hash_in o a0 a1 fold r v hp

theorem C18_ua_res_header_partial (o : Orc) (a0 a1 : Bytes) (fold : Bool) (r : Req) :
    ((assoc (canonKey uaKey) r.headers).isSome → matchPrim o "req_ua_regmatch" a0 a1 fold r = specPrim o "req_ua_regmatch" a0 a1 fold r) ∧
    ((∀ p, r.resp = some p → (assoc (canonKey a0) p.headers).isSome) →
      matchPrim o "res_header_value_in" a0 a1 fold r = specPrim o "res_header_value_in" a0 a1 fold r) := by
  constructor
  · intro h
    cases hv : assoc (canonKey uaKey) r.headers with
    | none => rw [hv] at h; cases h
    | some v => exact eq_req_ua_regmatch o a0 a1 fold r v hv
  · exact eq_res_header_value_in o a0 a1 fold r

/-- host primitives: documented host name for Host values without an IPv6 literal; port primitive: also
    not starting with ':' -/
theorem C18_host_port_partial (o : Orc) (a0 a1 : Bytes) (fold : Bool) (r : Req) (h : r.host.head? ≠ some 91) :
    matchPrim o "req_host_in" a0 a1 fold r = specPrim o "req_host_in" a0 a1 fold r ∧
    matchPrim o "req_host_suffix_in" a0 a1 fold r = specPrim o "req_host_suffix_in" a0 a1 fold r ∧
    matchPrim o "req_host_regmatch" a0 a1 fold r = specPrim o "req_host_regmatch" a0 a1 fold r ∧
    (r.host.head? ≠ some 58 → matchPrim o "req_port_in" a0 a1 fold r = specPrim o "req_port_in" a0 a1 fold r) :=
  ⟨eq_req_host_in o a0 a1 fold r h, eq_req_host_suffix_in o a0 a1 fold r h, eq_req_host_regmatch o a0 a1 fold r h,
   fun h2 => eq_req_port_in o a0 a1 fold r h h2⟩

/-- header key primitives: documented meaning when no header of the request / response has an empty value -/
theorem C18_header_key_partial (o : Orc) (a0 a1 : Bytes) (fold : Bool) (r : Req) :
    ((∀ kv ∈ r.headers, kv.2 ≠ []) →
      matchPrim o "req_header_key_in" a0 a1 fold r = specPrim o "req_header_key_in" a0 a1 fold r) ∧
    ((∀ p, r.resp = some p → ∀ kv ∈ p.headers, kv.2 ≠ []) →
      matchPrim o "res_header_key_in" a0 a1 fold r = specPrim o "res_header_key_in" a0 a1 fold r) :=
  ⟨eq_req_header_key_in o a0 a1 fold r, eq_res_header_key_in o a0 a1 fold r⟩

/-- header names are case-insensitive for all header primitives: two names that differ only in ASCII case
    select the same header — when every byte is a token character; a name with another byte (a blank …) is
    looked up literally, as net/textproto does. -/
theorem C18_header_name_case_insensitive (k k' : Bytes) (h : eqv true k k' = true) (ht : k.all tokenByte = true)
    (hs : List (Bytes × Bytes)) : headerGet hs k = headerGet hs k' := by
  have ht' : k'.all tokenByte = true := by rw [← allToken_fold k k' h]; exact ht
  unfold headerGet canonKey
  rw [if_pos ht, if_pos ht', canonLoop_fold k k' h true]

/-- every primitive of funcProtos is covered by one of the theorems above -/
theorem C18_all_primitives_covered :
    (BfeVerif.Generated.C17.funcProtosS.map (·.1)).all (fun n =>
      unconditional.contains n || valuePrims.contains n ||
      ["req_ua_regmatch", "res_header_value_in", "req_host_in", "req_host_suffix_in", "req_host_regmatch",
       "req_port_in", "req_header_key_in", "res_header_key_in"].contains n) = true := by decide

/-- **missing attribute ⇒ false**, where it is true: cookie, client / virtual / socket address, response,
    TLS state, context, tag, unparsable debug time -/
theorem C18_missing_false (o : Orc) (a0 a1 : Bytes) (fold : Bool) (r : Req) :
    (assoc a0 r.cookies = none →
      matchPrim o "req_cookie_value_in" a0 a1 fold r = some false ∧
      matchPrim o "req_cookie_value_prefix_in" a0 a1 fold r = some false ∧
      matchPrim o "req_cookie_value_suffix_in" a0 a1 fold r = some false ∧
      matchPrim o "req_cookie_value_contain" a0 a1 fold r = some false ∧
      matchPrim o "req_cookie_value_hash_in" a0 a1 fold r ≠ some true) ∧
    (r.cip = none → matchPrim o "req_cip_range" a0 a1 fold r ≠ some true ∧ matchPrim o "req_cip_hash_in" a0 a1 fold r ≠ some true) ∧
    (r.vip = none → matchPrim o "req_vip_range" a0 a1 fold r ≠ some true ∧ matchPrim o "ses_vip_range" a0 a1 fold r ≠ some true ∧
      matchPrim o "req_vip_in" a0 a1 fold r ≠ some true) ∧
    (r.sip = none → matchPrim o "ses_sip_range" a0 a1 fold r ≠ some true) ∧
    (r.resp = none → matchPrim o "res_code_in" a0 a1 fold r = some false ∧ matchPrim o "res_header_key_in" a0 a1 fold r = some false ∧
      matchPrim o "res_header_value_in" a0 a1 fold r = some false) ∧
    ((r.secure = false ∨ r.tls = none) → matchPrim o "ses_tls_sni_in" a0 a1 fold r = some false ∧
      matchPrim o "ses_tls_client_auth" a0 a1 fold r = some false ∧ matchPrim o "ses_tls_client_ca_in" a0 a1 fold r = some false) ∧
    (r.ctx = none → matchPrim o "req_context_value_in" a0 a1 fold r = some false) ∧
    (tagsOf r a0 = none → matchPrim o "req_tag_match" a0 a1 fold r = some false) ∧
    (timeOf o r = none → matchPrim o "bfe_time_range" a0 a1 fold r ≠ some true ∧
      matchPrim o "bfe_periodic_time_range" a0 a1 fold r ≠ some true) := by
  refine ⟨?_, ?_, ?_, ?_, ?_, ?_, ?_, ?_, ?_⟩
  · intro h
    have hc : cookieF r a0 = .err := by unfold cookieF; rw [h]
    refine ⟨?_, ?_, ?_, ?_, ?_⟩
    · rw [mEq_req_cookie_value_in, hc]; rfl
    · rw [mEq_req_cookie_value_prefix_in, hc]; rfl
    · rw [mEq_req_cookie_value_suffix_in, hc]; rfl
    · rw [mEq_req_cookie_value_contain, hc]; rfl
    · rw [mEq_req_cookie_value_hash_in, hc]; unfold mHash; cases hashSections a1 <;> simp [onStr]
  · intro h
    constructor
    · rw [mEq_req_cip_range, h]; exact mIpRange_none o a0 a1
    · rw [mEq_req_cip_hash_in, h]; unfold mHash; cases hashSections a0 <;> simp [onStr]
  · intro h
    refine ⟨?_, ?_, ?_⟩
    · rw [mEq_req_vip_range, h]; exact mIpRange_none o a0 a1
    · rw [mEq_ses_vip_range, h]; exact mIpRange_none o a0 a1
    · rw [mEq_req_vip_in, h]; simp only [ipFetch]; split <;> simp
  · intro h
    rw [mEq_ses_sip_range, h]; exact mIpRange_none o a0 a1
  · intro h
    refine ⟨?_, ?_, ?_⟩
    · rw [mEq_res_code_in, h]; rfl
    · rw [mEq_res_header_key_in, h]
    · rw [mEq_res_header_value_in]; unfold rhdrF; rw [h]; rfl
  · intro h
    refine ⟨?_, ?_, ?_⟩
    · rw [mEq_ses_tls_sni_in]; unfold sniOf
      rcases h with h | h
      · rw [h]; rfl
      · rw [h]; cases r.secure <;> rfl
    · rw [mEq_ses_tls_client_auth]
      rcases h with h | h
      · rw [h]
      · rw [h]; cases r.secure <;> rfl
    · rw [mEq_ses_tls_client_ca_in]; unfold caOf
      rcases h with h | h
      · rw [h]; rfl
      · rw [h]; cases r.secure <;> rfl
  · intro h
    rw [mEq_req_context_value_in]; unfold ctxOf; rw [h]; rfl
  · intro h
    rw [mEq_req_tag_match, h]
  · intro h
    constructor
    · rw [mEq_bfe_time_range, h]
      rcases o.x.parseTime a0 with _ | s <;> rcases o.x.parseTime a1 with _ | e <;> simp
    · rw [mEq_bfe_periodic_time_range, h]
      rcases C17.parseTimeOfDay o.x a0 with _ | _ | ⟨s1, o1⟩ <;>
        rcases C17.parseTimeOfDay o.x a1 with _ | _ | ⟨s2, o2⟩ <;> simp

/-- the time of day the periodic matcher compares is the LOCAL time of day in the zone of the pattern
    (`tm.In(time.FixedZone(offset)).Clock()`): the unique s in [0, 86400) with t + offset = 86400·k + s —
    also when the local date is the previous or the next day (zones west / east of UTC). -/
theorem C18_periodic_local_time (t off s : Int) :
    clockSecs t off = s ↔ (0 ≤ s ∧ s < 86400 ∧ ∃ k : Int, t + off = 86400 * k + s) := by
  unfold clockSecs
  constructor
  · intro h; exact ⟨by omega, by omega, (t + off) / 86400, by omega⟩
  · rintro ⟨h0, h1, k, hk⟩; omega

/-- 00:59:58 UTC in zone Y (UTC-12) is 12:59:58 of the previous day; a remainder that keeps the sign
    (Go's `%`, `Int.tmod`) would give a negative time of day instead. -/
theorem C18_periodic_west_of_utc :
    clockSecs 3598 (-43200) = 46798 ∧ Int.tmod (3598 + (-43200)) 86400 = -39602 := by decide

/-! ### witnesses: the full statement is false on the current tree -/
def orc0 : Orc :=
  { x := { regexOk := fun _ => true, parseIP := fun _ => none, parseTime := fun _ => none, sscanf6 := fun _ => none },
    reMatch := fun _ v => v.isEmpty, bucket := fun _ => 0 }
def emptyReq : Req := { host := [], path := [47], method := [71, 69, 84], query := [], headers := [], cookies := [],
                        tags := [], cip := none, vip := none }

/-- **C18_missing_witness**: `req_header_value_in("X", "", false)`, `req_query_value_prefix_in("k", "", false)` and
    `req_header_value_regmatch("X", re)` with a regexp that matches "" are TRUE on a request without header X /
    query key k (the fetchers return "" for an absent attribute); documented: missing attribute ⇒ false. -/
theorem C18_missing_witness :
    matchPrim orc0 "req_header_value_in" [88] [] false emptyReq = some true ∧
    specPrim orc0 "req_header_value_in" [88] [] false emptyReq = some false ∧
    matchPrim orc0 "req_query_value_prefix_in" [107] [] false emptyReq = some true ∧
    specPrim orc0 "req_query_value_prefix_in" [107] [] false emptyReq = some false ∧
    matchPrim orc0 "req_header_value_regmatch" [88] [97, 42] false emptyReq = some true ∧
    specPrim orc0 "req_header_value_regmatch" [88] [97, 42] false emptyReq = some false := by
  rw [mEq_req_header_value_in, sEq_req_header_value_in, mEq_req_query_value_prefix_in, sEq_req_query_value_prefix_in,
    mEq_req_header_value_regmatch, sEq_req_header_value_regmatch]
  decide

/-- **C18_missing_hash_witness**: `req_header_value_hash_in("X", "0", false)` is TRUE without header X whenever
    the empty string hashes into a configured bucket. -/
theorem C18_missing_hash_witness :
    matchPrim orc0 "req_header_value_hash_in" [88] [48] false emptyReq = some true ∧
    specPrim orc0 "req_header_value_hash_in" [88] [48] false emptyReq = some false := by
  rw [mEq_req_header_value_hash_in, sEq_req_header_value_hash_in]
  decide

/-- **C18_port_witness**: `req_port_in("8080")` is false for `Host: [::1]:8080` and for `Host: :8080`. -/
theorem C18_port_witness :
    matchPrim orc0 "req_port_in" [56, 48, 56, 48] [] false { emptyReq with host := [91, 58, 58, 49, 93, 58, 56, 48, 56, 48] } = some false ∧
    specPrim orc0 "req_port_in" [56, 48, 56, 48] [] false { emptyReq with host := [91, 58, 58, 49, 93, 58, 56, 48, 56, 48] } = some true ∧
    matchPrim orc0 "req_port_in" [56, 48, 56, 48] [] false { emptyReq with host := [58, 56, 48, 56, 48] } = some false ∧
    specPrim orc0 "req_port_in" [56, 48, 56, 48] [] false { emptyReq with host := [58, 56, 48, 56, 48] } = some true := by
  rw [mEq_req_port_in, sEq_req_port_in, mEq_req_port_in, sEq_req_port_in]
  decide

/-- **C18_header_key_witness**: a header present with an empty value is not seen by `req_header_key_in`. -/
theorem C18_header_key_witness :
    matchPrim orc0 "req_header_key_in" [88] [] false { emptyReq with headers := [([88], [])] } = some false ∧
    specPrim orc0 "req_header_key_in" [88] [] false { emptyReq with headers := [([88], [])] } = some true := by
  rw [mEq_req_header_key_in, sEq_req_header_key_in]
  decide

/-- address ranges include both bounds -/
theorem C18_ip_range_bounds (s e : Bytes) (hle : bytesLt e s = false) :
    ipRangeM s e s = true ∧ ipRangeM s e e = true := by
  simp [ipRangeM, ipLe, hle, lt_irrefl]

/-! Non-vacuity -/
example : canonKey [120, 45, 107, 69, 121] = [88, 45, 75, 101, 121] := by decide   -- "x-kEy" -> "X-Key"
example : canonKey [120, 32, 107] = [120, 32, 107] := by decide                       -- "x k" is left alone
example : Sorted [[65], [66, 67], [97]] := by unfold Sorted; decide
example : inSorted [66, 67] [[65], [66, 67], [97]] = true := by decide
example : matchPrim orc0 "req_path_suffix_in" [46, 74, 80, 71] [] true { emptyReq with path := [47, 120, 46, 106, 112, 103] } = some true := by
  rw [mEq_req_path_suffix_in]; decide
example : (assoc [88] { emptyReq with headers := [([88], [118])] }.headers) = some [118] := by decide

end BfeVerif.C18
