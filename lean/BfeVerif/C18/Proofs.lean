import BfeVerif.C18.Model
/-! Lemmas for C18 (core Lean only). -/
namespace BfeVerif.C18
open BfeVerif.C17 (Bytes splitOn upper bytesLt isV4)

def up1 (b : UInt8) : UInt8 := if 97 ≤ b && b ≤ 122 then b - 32 else b

theorem upper_eq_map : upper = List.map up1 := by
  funext s; simp [upper, up1]

theorem all_u8 (P : UInt8 → Prop) (h : ∀ n : Fin 256, P (UInt8.ofNat n.val)) : ∀ a, P a := by
  intro a
  have := h ⟨a.toNat, a.toNat_lt⟩
  simpa using this

set_option maxRecDepth 8000 in
theorem lower_up : ∀ a : UInt8, lower1 (up1 a) = lower1 a := all_u8 _ (by decide)
set_option maxRecDepth 8000 in
theorem up_lower : ∀ a : UInt8, up1 (lower1 a) = up1 a := all_u8 _ (by decide)

theorem up1_eq_iff_lower1 (a b : UInt8) : (up1 a = up1 b) ↔ (lower1 a = lower1 b) := by
  constructor
  · intro h; rw [← lower_up a, ← lower_up b, h]
  · intro h; rw [← up_lower a, ← up_lower b, h]

theorem upper_length (s : Bytes) : (upper s).length = s.length := by simp [upper]
theorem upper_take (n : Nat) (s : Bytes) : upper (s.take n) = (upper s).take n := by
  simp [upper, List.map_take]

theorem eqv_true_iff (a b : Bytes) : eqv true a b = true ↔ upper a = upper b := by
  rw [upper_eq_map]
  induction a generalizing b with
  | nil => cases b <;> simp [eqv]
  | cons x xs ih =>
    cases b with
    | nil => simp [eqv]
    | cons y ys =>
      simp only [eqv, if_true, Bool.and_eq_true, beq_iff_eq, List.map_cons, List.cons.injEq, ih ys,
        up1_eq_iff_lower1]

theorem eqv_false_iff (a b : Bytes) : eqv false a b = true ↔ a = b := by
  induction a generalizing b with
  | nil => cases b <;> simp [eqv]
  | cons x xs ih =>
    cases b with
    | nil => simp [eqv]
    | cons y ys => simp [eqv, ih ys]

theorem eqv_iff (fold : Bool) (a b : Bytes) : eqv fold a b = true ↔ upperIf fold a = upperIf fold b := by
  cases fold
  · simp [upperIf, eqv_false_iff]
  · simp [upperIf, eqv_true_iff]

theorem upperIf_length (f : Bool) (s : Bytes) : (upperIf f s).length = s.length := by
  cases f <;> simp [upperIf, upper_length]
theorem upperIf_take (f : Bool) (n : Nat) (s : Bytes) : upperIf f (s.take n) = (upperIf f s).take n := by
  cases f <;> simp [upperIf, upper_take]

theorem inM_eq_spec (ps : Bytes) (fold : Bool) (v : Bytes) : inM ps fold v = specIn ps fold v := by
  unfold inM specIn patterns
  rw [Bool.eq_iff_iff]
  simp only [List.contains_iff_mem, List.mem_map, List.any_eq_true, eqv_iff]

theorem isPrefixOf_iff_take (p v : Bytes) :
    p.isPrefixOf v = true ↔ p.length ≤ v.length ∧ p = v.take p.length := by
  rw [List.isPrefixOf_iff_prefix]
  constructor
  · intro h
    exact ⟨h.length_le, (List.prefix_iff_eq_take.mp h)⟩
  · rintro ⟨_, h⟩
    rw [h]; exact List.take_prefix _ _

theorem prefixM_eq_spec (ps : Bytes) (fold : Bool) (v : Bytes) : prefixM ps fold v = specPrefix ps fold v := by
  unfold prefixM specPrefix patterns
  rw [Bool.eq_iff_iff]
  simp only [List.any_eq_true, List.mem_map, Bool.and_eq_true, decide_eq_true_eq, eqv_iff]
  constructor
  · rintro ⟨q, ⟨p, hp, rfl⟩, h⟩
    rw [isPrefixOf_iff_take, upperIf_length, upperIf_length] at h
    exact ⟨p, hp, h.1, by rw [upperIf_take]; exact h.2⟩
  · rintro ⟨p, hp, hl, h⟩
    refine ⟨upperIf fold p, ⟨p, hp, rfl⟩, ?_⟩
    rw [isPrefixOf_iff_take, upperIf_length, upperIf_length]
    exact ⟨hl, by rw [← upperIf_take]; exact h⟩

end BfeVerif.C18
