import BfeVerif.C18.Model
/-! Lemmas for C18 (core Lean only). -/
namespace BfeVerif.C18
open BfeVerif.C17 (Bytes splitOn upper bytesLt isV4 Ext)

/-! ### byte-wise lexicographic order (Go string comparison) -/
theorem u8_lt_irrefl (a : UInt8) : ¬ a < a := by rw [UInt8.lt_iff_toNat_lt]; omega
theorem u8_lt_trans {a b c : UInt8} : a < b → b < c → a < c := by
  simp only [UInt8.lt_iff_toNat_lt]; omega
theorem u8_tri (a b : UInt8) : a < b ∨ a = b ∨ b < a := by
  rw [← UInt8.toNat_inj]; simp only [UInt8.lt_iff_toNat_lt]; omega

theorem lt_irrefl (a : Bytes) : bytesLt a a = false := by
  induction a with
  | nil => rfl
  | cons x xs ih => simp [bytesLt, ih]

theorem lt_cons (x y : UInt8) (xs ys : Bytes) :
    bytesLt (x :: xs) (y :: ys) = true ↔ x < y ∨ (x = y ∧ bytesLt xs ys = true) := by
  simp [bytesLt]

theorem lt_trans : ∀ (a b c : Bytes), bytesLt a b = true → bytesLt b c = true → bytesLt a c = true := by
  intro a
  induction a with
  | nil =>
    intro b c h1 h2
    cases b with
    | nil => simp [bytesLt] at h1
    | cons y ys => cases c with
      | nil => simp [bytesLt] at h2
      | cons z zs => simp [bytesLt]
  | cons x xs ih =>
    intro b c h1 h2
    cases b with
    | nil => simp [bytesLt] at h1
    | cons y ys =>
      cases c with
      | nil => simp [bytesLt] at h2
      | cons z zs =>
        rw [lt_cons] at h1 h2 ⊢
        rcases h1 with h1 | ⟨rfl, h1⟩
        · rcases h2 with h2 | ⟨rfl, _⟩
          · exact Or.inl (u8_lt_trans h1 h2)
          · exact Or.inl h1
        · rcases h2 with h2 | ⟨rfl, h2⟩
          · exact Or.inl h2
          · exact Or.inr ⟨rfl, ih _ _ h1 h2⟩

theorem lt_tri : ∀ (a b : Bytes), bytesLt a b = true ∨ a = b ∨ bytesLt b a = true := by
  intro a
  induction a with
  | nil => intro b; cases b <;> simp [bytesLt]
  | cons x xs ih =>
    intro b
    cases b with
    | nil => simp [bytesLt]
    | cons y ys =>
      rcases u8_tri x y with h | rfl | h
      · exact Or.inl ((lt_cons _ _ _ _).mpr (Or.inl h))
      · rcases ih ys with h | rfl | h
        · exact Or.inl ((lt_cons _ _ _ _).mpr (Or.inr ⟨rfl, h⟩))
        · exact Or.inr (Or.inl rfl)
        · exact Or.inr (Or.inr ((lt_cons _ _ _ _).mpr (Or.inr ⟨rfl, h⟩)))
      · exact Or.inr (Or.inr ((lt_cons _ _ _ _).mpr (Or.inl h)))

/-- `a ≤ b` and `b < c` give `a < c` (with `a ≤ b` as `¬ b < a`) -/
theorem le_lt_trans {a b c : Bytes} (h1 : bytesLt b a = false) (h2 : bytesLt b c = true) : bytesLt a c = true := by
  rcases lt_tri a b with h | rfl | h
  · exact lt_trans _ _ _ h h2
  · exact h2
  · rw [h] at h1; cases h1

theorem le_trans' {a b c : Bytes} (h1 : bytesLt b a = false) (h2 : bytesLt c b = false) : bytesLt c a = false := by
  cases h : bytesLt c a with
  | false => rfl
  | true =>
    have := le_lt_trans h2 h     -- b < a
    rw [this] at h1; cases h1

/-! ### sort.Strings (insertion sort): sorted, same members -/
def Sorted (l : List Bytes) : Prop := List.Pairwise (fun a b => bytesLt b a = false) l

theorem mem_insertSorted (x v : Bytes) (l : List Bytes) : v ∈ insertSorted x l ↔ v = x ∨ v ∈ l := by
  induction l with
  | nil => simp [insertSorted]
  | cons y ys ih =>
    simp only [insertSorted]
    split
    · simp
    · simp [ih]; constructor <;> (intro h; rcases h with h | h | h <;> simp [h])

theorem mem_sortStrings (v : Bytes) (l : List Bytes) : v ∈ sortStrings l ↔ v ∈ l := by
  induction l with
  | nil => simp [sortStrings]
  | cons x xs ih => simp [sortStrings, mem_insertSorted, ih]

theorem sorted_insert (x : Bytes) (l : List Bytes) (h : Sorted l) : Sorted (insertSorted x l) := by
  induction l with
  | nil => simp [insertSorted, Sorted]
  | cons y ys ih =>
    unfold Sorted at h ih ⊢
    rw [List.pairwise_cons] at h
    simp only [insertSorted]
    split
    · rename_i hle
      rw [List.pairwise_cons]
      refine ⟨?_, List.pairwise_cons.mpr h⟩
      intro a ha
      have hxy : bytesLt y x = false := by simpa [bytesLe] using hle
      rcases List.mem_cons.mp ha with rfl | ha
      · exact hxy
      · exact le_trans' hxy (h.1 a ha)
    · rename_i hle
      rw [List.pairwise_cons]
      refine ⟨?_, ih h.2⟩
      intro a ha
      rcases (mem_insertSorted x a ys).mp ha with rfl | ha
      · -- ¬ (x ≤ y) means y < x, hence ¬ x < y … we need bytesLt x y = false
        have hyx : bytesLt y a = true := by
          cases hb : bytesLt y a with
          | true => rfl
          | false => simp [bytesLe, hb] at hle
        cases hxy : bytesLt a y with
        | false => rfl
        | true => have := lt_trans _ _ _ hyx hxy; rw [lt_irrefl] at this; cases this
      · exact h.1 a ha

theorem sorted_sortStrings (l : List Bytes) : Sorted (sortStrings l) := by
  induction l with
  | nil => simp [sortStrings, Sorted]
  | cons x xs ih => exact sorted_insert x _ ih

/-! ### sort.SearchStrings on a sorted list -/
theorem sorted_idx {a : List Bytes} (h : Sorted a) (p q : Nat) (hpq : p ≤ q) (hq : q < a.length) :
    bytesLt (a.getD q []) (a.getD p []) = false := by
  have hp : p < a.length := by omega
  simp only [List.getD_eq_getElem?_getD, List.getElem?_eq_getElem hq, List.getElem?_eq_getElem hp, Option.getD_some]
  rcases Nat.lt_or_eq_of_le hpq with hlt | rfl
  · exact (List.pairwise_iff_getElem.mp h) p q hp hq hlt
  · exact lt_irrefl _

theorem searchLoop_spec (a : List Bytes) (x : Bytes) (hs : Sorted a) :
    ∀ fuel i j, i ≤ j → j ≤ a.length → j - i ≤ fuel →
      (∀ k, k < i → bytesLt (a.getD k []) x = true) →
      (∀ k, j ≤ k → k < a.length → bytesLt (a.getD k []) x = false) →
      (∀ k, k < searchLoop a x fuel i j → bytesLt (a.getD k []) x = true) ∧
      (∀ k, searchLoop a x fuel i j ≤ k → k < a.length → bytesLt (a.getD k []) x = false) ∧
      searchLoop a x fuel i j ≤ a.length := by
  intro fuel
  induction fuel with
  | zero =>
    intro i j hij hj hf hlo hhi
    have : i = j := by omega
    subst this
    simp only [searchLoop]
    exact ⟨hlo, hhi, hj⟩
  | succ fuel ih =>
    intro i j hij hj hf hlo hhi
    simp only [searchLoop]
    by_cases hlt : i < j
    · simp only [hlt, if_true]
      have hh1 : i ≤ (i + j) / 2 := by omega
      have hh2 : (i + j) / 2 < j := by omega
      cases hc : bytesLt (a.getD ((i + j) / 2) []) x with
      | true =>
        simp only [if_true]
        apply ih ((i + j) / 2 + 1) j (by omega) hj (by omega)
        · intro k hk
          have := sorted_idx hs k ((i + j) / 2) (by omega) (by omega)
          exact le_lt_trans this hc
        · exact hhi
      | false =>
        simp only [Bool.false_eq_true, if_false]
        apply ih i ((i + j) / 2) hh1 (by omega) (by omega) hlo
        intro k hk1 hk2
        have := sorted_idx hs ((i + j) / 2) k hk1 hk2
        cases hk : bytesLt (a.getD k []) x with
        | false => rfl
        | true => have := le_lt_trans this hk; rw [this] at hc; cases hc
    · have : i = j := by omega
      subst this
      simp only [hlt, if_false]
      exact ⟨hlo, hhi, hj⟩

/-- **binary search = membership on every sorted list** -/
theorem inSorted_iff_mem (a : List Bytes) (v : Bytes) (hs : Sorted a) : inSorted v a = true ↔ v ∈ a := by
  obtain ⟨hlo, hhi, hlen⟩ := searchLoop_spec a v hs (a.length + 1) 0 a.length (by omega) (by omega) (by omega)
    (by intro k hk; omega) (by intro k h1 h2; omega)
  unfold inSorted
  simp only [Bool.and_eq_true, decide_eq_true_eq, beq_iff_eq]
  show searchStrings a v < a.length ∧ a.getD (searchStrings a v) [] = v ↔ v ∈ a
  change (∀ k, k < searchStrings a v → _) at hlo
  change (∀ k, searchStrings a v ≤ k → _) at hhi
  change searchStrings a v ≤ a.length at hlen
  constructor
  · rintro ⟨hl, he⟩
    rw [← he, List.getD_eq_getElem?_getD, List.getElem?_eq_getElem hl]
    exact List.getElem_mem hl
  · intro hm
    obtain ⟨k, hk, hkv⟩ := List.mem_iff_getElem.mp hm
    have hkd : a.getD k [] = v := by rw [List.getD_eq_getElem?_getD, List.getElem?_eq_getElem hk]; exact hkv
    have hge : searchStrings a v ≤ k := by
      rcases Nat.lt_or_ge k (searchStrings a v) with h | h
      · have := hlo k h; rw [hkd, lt_irrefl] at this; cases this
      · exact h
    have hl : searchStrings a v < a.length := by omega
    refine ⟨hl, ?_⟩
    have h1 := hhi _ (Nat.le_refl _) hl                      -- ¬ a[r] < v
    have h2 := sorted_idx hs (searchStrings a v) k hge hk    -- ¬ a[k] < a[r]
    rw [hkd] at h2
    rcases lt_tri (a.getD (searchStrings a v) []) v with h | h | h
    · rw [h] at h1; cases h1
    · exact h
    · rw [h] at h2; cases h2


/-! ### case folding -/
def up1 (b : UInt8) : UInt8 := if 97 ≤ b && b ≤ 122 then b - 32 else b

theorem upper_eq_map : upper = List.map up1 := by
  funext s; simp [upper, up1]

theorem all_u8 (P : UInt8 → Prop) (h : ∀ n : Fin 256, P (UInt8.ofNat n.val)) : ∀ a, P a := by
  intro a
  have := h ⟨a.toNat, a.toNat_lt⟩
  simpa using this

set_option maxRecDepth 8000 in
theorem lower_up : ∀ a : UInt8, lower1 (up1 a) = lower1 a := all_u8 _ (by decide)
set_option maxRecDepth 8000 in
theorem up_lower : ∀ a : UInt8, up1 (lower1 a) = up1 a := all_u8 _ (by decide)

theorem up1_eq_iff_lower1 (a b : UInt8) : (up1 a = up1 b) ↔ (lower1 a = lower1 b) := by
  constructor
  · intro h; rw [← lower_up a, ← lower_up b, h]
  · intro h; rw [← up_lower a, ← up_lower b, h]

theorem upper_length (s : Bytes) : (upper s).length = s.length := by simp [upper]

theorem eqv_true_iff (a b : Bytes) : eqv true a b = true ↔ upper a = upper b := by
  rw [upper_eq_map]
  induction a generalizing b with
  | nil => cases b <;> simp [eqv]
  | cons x xs ih =>
    cases b with
    | nil => simp [eqv]
    | cons y ys =>
      simp only [eqv, if_true, Bool.and_eq_true, beq_iff_eq, List.map_cons, List.cons.injEq, ih ys,
        up1_eq_iff_lower1]

theorem eqv_false_iff (a b : Bytes) : eqv false a b = true ↔ a = b := by
  induction a generalizing b with
  | nil => cases b <;> simp [eqv]
  | cons x xs ih =>
    cases b with
    | nil => simp [eqv]
    | cons y ys => simp [eqv, ih ys]

theorem eqv_iff (fold : Bool) (a b : Bytes) : eqv fold a b = true ↔ upperIf fold a = upperIf fold b := by
  cases fold
  · simp [upperIf, eqv_false_iff]
  · simp [upperIf, eqv_true_iff]

theorem eqv_eq (fold : Bool) (a b : Bytes) : eqv fold a b = (upperIf fold a == upperIf fold b) := by
  rw [Bool.eq_iff_iff, eqv_iff]; simp

theorem upperIf_length (f : Bool) (s : Bytes) : (upperIf f s).length = s.length := by
  cases f <;> simp [upperIf, upper_length]
theorem upperIf_take (f : Bool) (n : Nat) (s : Bytes) : upperIf f (s.take n) = (upperIf f s).take n := by
  cases f <;> simp [upperIf, upper, List.map_take]
theorem upperIf_drop (f : Bool) (n : Nat) (s : Bytes) : upperIf f (s.drop n) = (upperIf f s).drop n := by
  cases f <;> simp [upperIf, upper, List.map_drop]

theorem beq_comm' (a b : Bytes) : (a == b) = (b == a) := by
  rw [Bool.eq_iff_iff, beq_iff_eq, beq_iff_eq]; exact eq_comm

/-- HasPrefix after folding both sides = documented prefix test -/
theorem hasPrefix_fold (f : Bool) (v p : Bytes) :
    hasPrefix (upperIf f v) (upperIf f p) = (decide (p.length ≤ v.length) && eqv f p (v.take p.length)) := by
  unfold hasPrefix
  rw [upperIf_length, upperIf_length, eqv_eq, upperIf_take, beq_comm']

theorem hasSuffix_fold (f : Bool) (v p : Bytes) :
    hasSuffix (upperIf f v) (upperIf f p) =
      (decide (p.length ≤ v.length) && eqv f p (v.drop (v.length - p.length))) := by
  unfold hasSuffix
  rw [upperIf_length, upperIf_length, eqv_eq, upperIf_drop, beq_comm']

theorem containsB_fold (f : Bool) (v p : Bytes) :
    containsB (upperIf f v) (upperIf f p) =
      (List.range (v.length + 1)).any (fun i =>
        decide (i + p.length ≤ v.length) && eqv f p ((v.drop i).take p.length)) := by
  unfold containsB
  rw [upperIf_length, upperIf_length]
  congr 1
  funext i
  rw [eqv_eq, upperIf_take, upperIf_drop, beq_comm']

/-! ### matchers = documented tests -/
theorem inMWith_eq_spec (sort : List Bytes → List Bytes)
    (hsorted : ∀ l, Sorted (sort l)) (hmem : ∀ l v, v ∈ sort l ↔ v ∈ l)
    (ps : Bytes) (fold : Bool) (v : Bytes) : inMWith sort ps fold v = specIn ps fold v := by
  unfold inMWith specIn patterns
  rw [Bool.eq_iff_iff, inSorted_iff_mem _ _ (hsorted _), hmem]
  simp only [List.mem_map, List.any_eq_true, eqv_iff]

theorem inM_eq_spec (ps : Bytes) (fold : Bool) (v : Bytes) : inM ps fold v = specIn ps fold v :=
  inMWith_eq_spec sortStrings sorted_sortStrings (fun l v => mem_sortStrings v l) ps fold v

theorem prefixM_eq_spec (ps : Bytes) (fold : Bool) (v : Bytes) : prefixM ps fold v = specPrefix ps fold v := by
  unfold prefixM specPrefix patterns
  rw [List.any_map]; congr 1; funext p
  simp only [Function.comp, hasPrefix_fold]

theorem suffixM_eq_spec (ps : Bytes) (fold : Bool) (v : Bytes) : suffixM ps fold v = specSuffix ps fold v := by
  unfold suffixM specSuffix patterns
  rw [List.any_map]; congr 1; funext p
  simp only [Function.comp, hasSuffix_fold]

theorem containM_eq_spec (ps : Bytes) (fold : Bool) (v : Bytes) : containM ps fold v = specContain ps fold v := by
  unfold containM specContain patterns
  rw [List.any_map]; congr 1; funext p
  simp only [Function.comp, containsB_fold]

theorem hasSuffix_slash (s : Bytes) : hasSuffix s [47] = (s.getLast? == some 47) := by
  rw [Bool.eq_iff_iff]
  simp only [hasSuffix, List.length_cons, List.length_nil, Bool.and_eq_true, decide_eq_true_eq, beq_iff_eq]
  rw [List.getLast?_eq_some_iff]
  constructor
  · rintro ⟨hl, hd⟩
    refine ⟨s.take (s.length - 1), ?_⟩
    rw [← hd, List.take_append_drop]
  · rintro ⟨ys, rfl⟩
    simp

theorem addSlash_eq_norm (s : Bytes) : addSlash s = norm s := by
  unfold addSlash norm; rw [hasSuffix_slash]

theorem pathElemM_eq_spec (ps : Bytes) (fold : Bool) (v : Bytes) : pathElemM ps fold v = specPathElem ps fold v := by
  unfold pathElemM specPathElem patterns
  rw [List.any_map]; congr 1; funext p
  simp only [Function.comp, hasPrefix_fold, addSlash_eq_norm]

theorem exactM_eq (p v : Bytes) : exactM p v = eqv true p v := by
  rw [eqv_eq]; simp [exactM, upperIf, beq_comm']

/-! ### fetch helpers -/
theorem assoc_isSome (k : Bytes) (l : List (Bytes × Bytes)) :
    (assoc k l).isSome = l.any (fun kv => kv.1 == k) := by
  induction l with
  | nil => rfl
  | cons hd tl ih =>
    obtain ⟨a, v⟩ := hd
    simp only [assoc, List.any_cons]
    by_cases h : (a == k) = true
    · simp [h]
    · simp [h, ih]

theorem assoc_some_mem {k v : Bytes} {l : List (Bytes × Bytes)} (h : assoc k l = some v) : (k, v) ∈ l := by
  induction l with
  | nil => simp [assoc] at h
  | cons hd tl ih =>
    obtain ⟨a, w⟩ := hd
    simp only [assoc] at h
    by_cases hk : (a == k) = true
    · simp only [hk, if_true, Option.some.injEq] at h
      have : a = k := by simpa using hk
      subst this; subst h; exact List.mem_cons_self
    · simp only [hk] at h
      exact List.mem_cons_of_mem _ (ih h)

/-- with no empty header values, "Get(key) != \"\"" is presence of the key -/
theorem headerGet_ne_nil (hs : List (Bytes × Bytes)) (hne : ∀ kv ∈ hs, kv.2 ≠ []) (k : Bytes) :
    (headerGet hs k != []) = hs.any (fun kv => kv.1 == canonKey k) := by
  rw [← assoc_isSome]
  unfold headerGet
  cases h : assoc (canonKey k) hs with
  | none => simp
  | some v =>
    have := hne _ (assoc_some_mem h)
    simp [this]

theorem any_comm {α β : Type} (l1 : List α) (l2 : List β) (p : α → β → Bool) :
    l1.any (fun a => l2.any (fun b => p a b)) = l2.any (fun b => l1.any (fun a => p a b)) := by
  rw [Bool.eq_iff_iff]
  simp only [List.any_eq_true]
  constructor
  · rintro ⟨a, ha, b, hb, h⟩; exact ⟨b, hb, a, ha, h⟩
  · rintro ⟨b, hb, a, ha, h⟩; exact ⟨a, ha, b, hb, h⟩

theorem splitOn_head (sep : UInt8) (s : Bytes) :
    (splitOn sep s).head? = some (s.takeWhile (· != sep)) := by
  induction s with
  | nil => simp [splitOn]
  | cons c rest ih =>
    simp only [splitOn]
    cases hs : splitOn sep rest with
    | nil => rw [hs] at ih; simp at ih
    | cons h t =>
      rw [hs] at ih
      simp only [List.head?_cons, Option.some.injEq] at ih
      by_cases hc : c = sep
      · subst hc; simp [List.takeWhile]
      · have h1 : (c == sep) = false := by simpa using hc
        have h2 : (c != sep) = true := by simp [hc]
        simp [h1, List.takeWhile, h2, ih]

theorem hostOf_eq_spec (h : Bytes) (hh : h.head? ≠ some 91) : (specHostPort h).1 = hostOf h := by
  unfold specHostPort hostOf
  cases h with
  | nil => rfl
  | cons c cs =>
    have : c ≠ 91 := by intro hc; apply hh; simp [hc]
    split
    · rename_i heq; simp at heq; exact absurd heq.1 this
    · rfl

theorem dropWhile_eq_drop (p : UInt8 → Bool) (l : Bytes) : l.dropWhile p = l.drop (l.takeWhile p).length := by
  induction l with
  | nil => rfl
  | cons x xs ih =>
    by_cases hp : p x = true
    · simp [List.dropWhile, List.takeWhile, hp, ih]
    · simp [List.dropWhile, List.takeWhile, hp]

theorem portOf_eq_spec (h : Bytes) (h1 : h.head? ≠ some 91) (h2 : h.head? ≠ some 58) :
    (specHostPort h).2.getD [56, 48] = portOf h := by
  unfold specHostPort portOf
  cases h with
  | nil => simp
  | cons c cs =>
    have hc1 : c ≠ 91 := by intro hc; apply h1; simp [hc]
    have hc2 : c ≠ 58 := by intro hc; apply h2; simp [hc]
    split
    · rename_i heq; simp at heq; exact absurd heq.1 hc1
    · simp only
      rw [dropWhile_eq_drop]
      have hne : (c != 58) = true := by simp [hc2]
      have htw : ((c :: cs).takeWhile (· != 58)).length > 0 := by
        simp [List.takeWhile, hne]
      generalize hi : ((c :: cs).takeWhile (· != 58)).length = i at *
      have hle : i ≤ (c :: cs).length := by
        have := congrArg List.length (List.takeWhile_append_dropWhile (p := (· != 58)) (l := c :: cs))
        rw [List.length_append, hi] at this; omega
      by_cases hlt : i < (c :: cs).length
      · have hx : ((c :: cs).drop i).head? = some 58 := by
          have := List.head?_dropWhile_not (· != 58) (c :: cs)
          rw [dropWhile_eq_drop, hi] at this
          cases hd : ((c :: cs).drop i) with
          | nil => have := List.drop_eq_nil_iff.mp hd; omega
          | cons y ys => rw [hd] at this; simp at this; simp [this]
        cases hd : (c :: cs).drop i with
        | nil => rw [hd] at hx; simp at hx
        | cons y ys =>
          rw [hd] at hx
          simp only [List.head?_cons, Option.some.injEq] at hx
          subst hx
          have h3 : (c :: cs).drop (i + 1) = ys := by
            rw [← List.drop_drop, hd]; rfl
          rw [if_pos ⟨hlt, htw⟩, h3]; rfl
      · have h3 : (c :: cs).drop i = [] := List.drop_eq_nil_iff.mpr (by omega)
        rw [h3, if_neg (fun h => hlt h.1)]; rfl


/-! ### unfolding equations of matchPrim / specPrim, one per primitive (by `rfl`) -/
theorem mEq_default_t (o : Orc) (a0 a1 : Bytes) (fold : Bool) (r : Req) :
    matchPrim o "default_t" a0 a1 fold r = ( some true) := rfl

theorem mEq_req_cip_trusted (o : Orc) (a0 a1 : Bytes) (fold : Bool) (r : Req) :
    matchPrim o "req_cip_trusted" a0 a1 fold r = ( some r.trusted) := rfl

theorem mEq_req_proto_secure (o : Orc) (a0 a1 : Bytes) (fold : Bool) (r : Req) :
    matchPrim o "req_proto_secure" a0 a1 fold r = ( some r.secure) := rfl

theorem mEq_req_proto_match (o : Orc) (a0 a1 : Bytes) (fold : Bool) (r : Req) :
    matchPrim o "req_proto_match" a0 a1 fold r = ( some (exactM a0 (protocolOf r))) := rfl

theorem mEq_req_host_in (o : Orc) (a0 a1 : Bytes) (fold : Bool) (r : Req) :
    matchPrim o "req_host_in" a0 a1 fold r = (    if (splitOn 124 a0).any (fun s => s.contains 58) then none else some (inM a0 true (hostOf r.host))) := rfl

theorem mEq_req_host_suffix_in (o : Orc) (a0 a1 : Bytes) (fold : Bool) (r : Req) :
    matchPrim o "req_host_suffix_in" a0 a1 fold r = ( some (suffixM a0 true (hostOf r.host))) := rfl

theorem mEq_req_host_tag_in (o : Orc) (a0 a1 : Bytes) (fold : Bool) (r : Req) :
    matchPrim o "req_host_tag_in" a0 a1 fold r = ( some (inM a0 true r.hostTag)) := rfl

theorem mEq_req_host_regmatch (o : Orc) (a0 a1 : Bytes) (fold : Bool) (r : Req) :
    matchPrim o "req_host_regmatch" a0 a1 fold r = ( mRe o a0 (.str (hostOf r.host))) := rfl

theorem mEq_req_port_in (o : Orc) (a0 a1 : Bytes) (fold : Bool) (r : Req) :
    matchPrim o "req_port_in" a0 a1 fold r = ( some (inM a0 false (portOf r.host))) := rfl

theorem mEq_req_method_in (o : Orc) (a0 a1 : Bytes) (fold : Bool) (r : Req) :
    matchPrim o "req_method_in" a0 a1 fold r = ( some (inM a0 true r.method)) := rfl

theorem mEq_req_path_in (o : Orc) (a0 a1 : Bytes) (fold : Bool) (r : Req) :
    matchPrim o "req_path_in" a0 a1 fold r = ( some (inM a0 fold r.path)) := rfl

theorem mEq_req_path_prefix_in (o : Orc) (a0 a1 : Bytes) (fold : Bool) (r : Req) :
    matchPrim o "req_path_prefix_in" a0 a1 fold r = ( some (prefixM a0 fold r.path)) := rfl

theorem mEq_req_path_suffix_in (o : Orc) (a0 a1 : Bytes) (fold : Bool) (r : Req) :
    matchPrim o "req_path_suffix_in" a0 a1 fold r = ( some (suffixM a0 fold r.path)) := rfl

theorem mEq_req_path_contain (o : Orc) (a0 a1 : Bytes) (fold : Bool) (r : Req) :
    matchPrim o "req_path_contain" a0 a1 fold r = ( some (containM a0 fold r.path)) := rfl

theorem mEq_req_path_element_prefix_in (o : Orc) (a0 a1 : Bytes) (fold : Bool) (r : Req) :
    matchPrim o "req_path_element_prefix_in" a0 a1 fold r = ( some (pathElemM a0 fold r.path)) := rfl

theorem mEq_req_path_regmatch (o : Orc) (a0 a1 : Bytes) (fold : Bool) (r : Req) :
    matchPrim o "req_path_regmatch" a0 a1 fold r = ( mRe o a0 (.str r.path)) := rfl

theorem mEq_req_url_regmatch (o : Orc) (a0 a1 : Bytes) (fold : Bool) (r : Req) :
    matchPrim o "req_url_regmatch" a0 a1 fold r = ( mRe o a0 (.str r.uri)) := rfl

theorem mEq_req_ua_regmatch (o : Orc) (a0 a1 : Bytes) (fold : Bool) (r : Req) :
    matchPrim o "req_ua_regmatch" a0 a1 fold r = ( mRe o a0 (.str (headerGet r.headers uaKey))) := rfl

theorem mEq_req_query_exist (o : Orc) (a0 a1 : Bytes) (fold : Bool) (r : Req) :
    matchPrim o "req_query_exist" a0 a1 fold r = ( some (!r.query.isEmpty)) := rfl

theorem mEq_req_query_key_in (o : Orc) (a0 a1 : Bytes) (fold : Bool) (r : Req) :
    matchPrim o "req_query_key_in" a0 a1 fold r = ( some ((splitOn 124 a0).any (fun k => (assoc k r.query).isSome))) := rfl

theorem mEq_req_query_key_prefix_in (o : Orc) (a0 a1 : Bytes) (fold : Bool) (r : Req) :
    matchPrim o "req_query_key_prefix_in" a0 a1 fold r = ( some (r.query.any (fun kv => (splitOn 124 a0).any (fun p => hasPrefix kv.1 p)))) := rfl

theorem mEq_req_query_value_in (o : Orc) (a0 a1 : Bytes) (fold : Bool) (r : Req) :
    matchPrim o "req_query_value_in" a0 a1 fold r = ( some (inM a1 fold (queryGet r a0))) := rfl

theorem mEq_req_query_value_prefix_in (o : Orc) (a0 a1 : Bytes) (fold : Bool) (r : Req) :
    matchPrim o "req_query_value_prefix_in" a0 a1 fold r = ( some (prefixM a1 fold (queryGet r a0))) := rfl

theorem mEq_req_query_value_suffix_in (o : Orc) (a0 a1 : Bytes) (fold : Bool) (r : Req) :
    matchPrim o "req_query_value_suffix_in" a0 a1 fold r = ( some (suffixM a1 fold (queryGet r a0))) := rfl

theorem mEq_req_query_value_contain (o : Orc) (a0 a1 : Bytes) (fold : Bool) (r : Req) :
    matchPrim o "req_query_value_contain" a0 a1 fold r = ( some (containM a1 fold (queryGet r a0))) := rfl

theorem mEq_req_query_value_regmatch (o : Orc) (a0 a1 : Bytes) (fold : Bool) (r : Req) :
    matchPrim o "req_query_value_regmatch" a0 a1 fold r = ( mRe o a1 (.str (queryGet r a0))) := rfl

theorem mEq_req_query_value_hash_in (o : Orc) (a0 a1 : Bytes) (fold : Bool) (r : Req) :
    matchPrim o "req_query_value_hash_in" a0 a1 fold r = ( mHash o a1 fold (.str (queryGet r a0))) := rfl

theorem mEq_req_header_key_in (o : Orc) (a0 a1 : Bytes) (fold : Bool) (r : Req) :
    matchPrim o "req_header_key_in" a0 a1 fold r = ( some ((splitOn 124 a0).any (fun k => headerGet r.headers k != []))) := rfl

theorem mEq_req_header_value_in (o : Orc) (a0 a1 : Bytes) (fold : Bool) (r : Req) :
    matchPrim o "req_header_value_in" a0 a1 fold r = ( some (inM a1 fold (headerGet r.headers a0))) := rfl

theorem mEq_req_header_value_prefix_in (o : Orc) (a0 a1 : Bytes) (fold : Bool) (r : Req) :
    matchPrim o "req_header_value_prefix_in" a0 a1 fold r = ( some (prefixM a1 fold (headerGet r.headers a0))) := rfl

theorem mEq_req_header_value_suffix_in (o : Orc) (a0 a1 : Bytes) (fold : Bool) (r : Req) :
    matchPrim o "req_header_value_suffix_in" a0 a1 fold r = ( some (suffixM a1 fold (headerGet r.headers a0))) := rfl

theorem mEq_req_header_value_contain (o : Orc) (a0 a1 : Bytes) (fold : Bool) (r : Req) :
    matchPrim o "req_header_value_contain" a0 a1 fold r = ( some (containM a1 fold (headerGet r.headers a0))) := rfl

theorem mEq_req_header_value_regmatch (o : Orc) (a0 a1 : Bytes) (fold : Bool) (r : Req) :
    matchPrim o "req_header_value_regmatch" a0 a1 fold r = ( mRe o a1 (.str (headerGet r.headers a0))) := rfl

theorem mEq_req_header_value_hash_in (o : Orc) (a0 a1 : Bytes) (fold : Bool) (r : Req) :
    matchPrim o "req_header_value_hash_in" a0 a1 fold r = ( mHash o a1 fold (.str (headerGet r.headers a0))) := rfl

theorem mEq_req_cookie_key_in (o : Orc) (a0 a1 : Bytes) (fold : Bool) (r : Req) :
    matchPrim o "req_cookie_key_in" a0 a1 fold r = ( some ((splitOn 124 a0).any (fun k => (assoc k r.cookies).isSome))) := rfl

theorem mEq_req_cookie_value_in (o : Orc) (a0 a1 : Bytes) (fold : Bool) (r : Req) :
    matchPrim o "req_cookie_value_in" a0 a1 fold r = ( some (onStr (cookieF r a0) (inM a1 fold))) := rfl

theorem mEq_req_cookie_value_prefix_in (o : Orc) (a0 a1 : Bytes) (fold : Bool) (r : Req) :
    matchPrim o "req_cookie_value_prefix_in" a0 a1 fold r = ( some (onStr (cookieF r a0) (prefixM a1 fold))) := rfl

theorem mEq_req_cookie_value_suffix_in (o : Orc) (a0 a1 : Bytes) (fold : Bool) (r : Req) :
    matchPrim o "req_cookie_value_suffix_in" a0 a1 fold r = ( some (onStr (cookieF r a0) (suffixM a1 fold))) := rfl

theorem mEq_req_cookie_value_contain (o : Orc) (a0 a1 : Bytes) (fold : Bool) (r : Req) :
    matchPrim o "req_cookie_value_contain" a0 a1 fold r = ( some (onStr (cookieF r a0) (containM a1 fold))) := rfl

theorem mEq_req_cookie_value_hash_in (o : Orc) (a0 a1 : Bytes) (fold : Bool) (r : Req) :
    matchPrim o "req_cookie_value_hash_in" a0 a1 fold r = ( mHash o a1 fold (cookieF r a0)) := rfl

theorem mEq_req_tag_match (o : Orc) (a0 a1 : Bytes) (fold : Bool) (r : Req) :
    matchPrim o "req_tag_match" a0 a1 fold r = (    some (match tagsOf r a0 with
      | some ts => ts.any (fun tag => (splitOn 58 tag).head? == some a1)
      | none => false)) := rfl

theorem mEq_req_context_value_in (o : Orc) (a0 a1 : Bytes) (fold : Bool) (r : Req) :
    matchPrim o "req_context_value_in" a0 a1 fold r = ( some (onStr (ctxOf r a0) (inM a1 fold))) := rfl

theorem mEq_req_cip_range (o : Orc) (a0 a1 : Bytes) (fold : Bool) (r : Req) :
    matchPrim o "req_cip_range" a0 a1 fold r = ( mIpRange o a0 a1 r.cip) := rfl

theorem mEq_req_vip_range (o : Orc) (a0 a1 : Bytes) (fold : Bool) (r : Req) :
    matchPrim o "req_vip_range" a0 a1 fold r = ( mIpRange o a0 a1 r.vip) := rfl

theorem mEq_ses_vip_range (o : Orc) (a0 a1 : Bytes) (fold : Bool) (r : Req) :
    matchPrim o "ses_vip_range" a0 a1 fold r = ( mIpRange o a0 a1 r.vip) := rfl

theorem mEq_ses_sip_range (o : Orc) (a0 a1 : Bytes) (fold : Bool) (r : Req) :
    matchPrim o "ses_sip_range" a0 a1 fold r = ( mIpRange o a0 a1 r.sip) := rfl

theorem mEq_req_cip_hash_in (o : Orc) (a0 a1 : Bytes) (fold : Bool) (r : Req) :
    matchPrim o "req_cip_hash_in" a0 a1 fold r = ( mHash o a0 false (match r.cip with | some _ => .str r.cipStr | none => .err)) := rfl

theorem mEq_req_vip_in (o : Orc) (a0 a1 : Bytes) (fold : Bool) (r : Req) :
    matchPrim o "req_vip_in" a0 a1 fold r = (    let ps := (splitOn 124 a0).map o.x.parseIP
    if ps.all (·.isSome) then some (ipFetch r.vip (fun ip => ps.any (· == some ip))) else none) := rfl

theorem mEq_res_code_in (o : Orc) (a0 a1 : Bytes) (fold : Bool) (r : Req) :
    matchPrim o "res_code_in" a0 a1 fold r = ( some (onStr (match r.resp with | some p => .str p.code | none => .err) (inM a0 false))) := rfl

theorem mEq_res_header_key_in (o : Orc) (a0 a1 : Bytes) (fold : Bool) (r : Req) :
    matchPrim o "res_header_key_in" a0 a1 fold r = (    some (match r.resp with
      | some p => (splitOn 124 a0).any (fun k => headerGet p.headers k != [])
      | none => false)) := rfl

theorem mEq_res_header_value_in (o : Orc) (a0 a1 : Bytes) (fold : Bool) (r : Req) :
    matchPrim o "res_header_value_in" a0 a1 fold r = ( some (onStr (rhdrF r a0) (inM a1 fold))) := rfl

theorem mEq_ses_tls_sni_in (o : Orc) (a0 a1 : Bytes) (fold : Bool) (r : Req) :
    matchPrim o "ses_tls_sni_in" a0 a1 fold r = ( some (onStr (sniOf r) (inM a0 true))) := rfl

theorem mEq_ses_tls_client_auth (o : Orc) (a0 a1 : Bytes) (fold : Bool) (r : Req) :
    matchPrim o "ses_tls_client_auth" a0 a1 fold r = ( some (match r.secure, r.tls with | true, some t => t.clientAuth | _, _ => false)) := rfl

theorem mEq_ses_tls_client_ca_in (o : Orc) (a0 a1 : Bytes) (fold : Bool) (r : Req) :
    matchPrim o "ses_tls_client_ca_in" a0 a1 fold r = ( some (onStr (caOf r) (inM a0 false))) := rfl

theorem mEq_bfe_time_range (o : Orc) (a0 a1 : Bytes) (fold : Bool) (r : Req) :
    matchPrim o "bfe_time_range" a0 a1 fold r = (    match o.x.parseTime a0, o.x.parseTime a1 with
    | some s, some e =>
      if s > e then none
      else some (match timeOf o r with | some t => decide (s ≤ t) && decide (t ≤ e) | none => false)
    | _, _ => none) := rfl

theorem mEq_bfe_periodic_time_range (o : Orc) (a0 a1 : Bytes) (fold : Bool) (r : Req) :
    matchPrim o "bfe_periodic_time_range" a0 a1 fold r = (    -- a1 is the end time, the period argument (must be empty) is checked by the harness side of Build
    match C17.parseTimeOfDay o.x a0, C17.parseTimeOfDay o.x a1 with
    | some (some (s1, o1)), some (some (s2, o2)) =>
      if s1 > s2 then none else if o1 != o2 then none
      else some (match timeOf o r with
        | some t => decide ((s1 : Int) ≤ clockSecs t o1) && decide (clockSecs t o1 ≤ (s2 : Int))
        | none => false)
    | _, _ => none) := rfl

theorem sEq_default_t (o : Orc) (a0 a1 : Bytes) (fold : Bool) (r : Req) :
    specPrim o "default_t" a0 a1 fold r = ( some true) := rfl

theorem sEq_req_cip_trusted (o : Orc) (a0 a1 : Bytes) (fold : Bool) (r : Req) :
    specPrim o "req_cip_trusted" a0 a1 fold r = ( some r.trusted) := rfl

theorem sEq_req_proto_secure (o : Orc) (a0 a1 : Bytes) (fold : Bool) (r : Req) :
    specPrim o "req_proto_secure" a0 a1 fold r = ( some r.secure) := rfl

theorem sEq_req_proto_match (o : Orc) (a0 a1 : Bytes) (fold : Bool) (r : Req) :
    specPrim o "req_proto_match" a0 a1 fold r = ( some (eqv true a0 (if r.secure then r.sesProto else r.proto))) := rfl

theorem sEq_req_host_in (o : Orc) (a0 a1 : Bytes) (fold : Bool) (r : Req) :
    specPrim o "req_host_in" a0 a1 fold r = (    if (patterns a0).any (fun s => s.contains 58) then none else some (specIn a0 true (specHostPort r.host).1)) := rfl

theorem sEq_req_host_suffix_in (o : Orc) (a0 a1 : Bytes) (fold : Bool) (r : Req) :
    specPrim o "req_host_suffix_in" a0 a1 fold r = ( some (specSuffix a0 true (specHostPort r.host).1)) := rfl

theorem sEq_req_host_tag_in (o : Orc) (a0 a1 : Bytes) (fold : Bool) (r : Req) :
    specPrim o "req_host_tag_in" a0 a1 fold r = ( some (specIn a0 true r.hostTag)) := rfl

theorem sEq_req_host_regmatch (o : Orc) (a0 a1 : Bytes) (fold : Bool) (r : Req) :
    specPrim o "req_host_regmatch" a0 a1 fold r = ( sRe o a0 (some (specHostPort r.host).1)) := rfl

theorem sEq_req_port_in (o : Orc) (a0 a1 : Bytes) (fold : Bool) (r : Req) :
    specPrim o "req_port_in" a0 a1 fold r = ( some (specIn a0 false ((specHostPort r.host).2.getD [56, 48]))) := rfl

theorem sEq_req_method_in (o : Orc) (a0 a1 : Bytes) (fold : Bool) (r : Req) :
    specPrim o "req_method_in" a0 a1 fold r = ( some (specIn a0 true r.method)) := rfl

theorem sEq_req_path_in (o : Orc) (a0 a1 : Bytes) (fold : Bool) (r : Req) :
    specPrim o "req_path_in" a0 a1 fold r = ( some (specIn a0 fold r.path)) := rfl

theorem sEq_req_path_prefix_in (o : Orc) (a0 a1 : Bytes) (fold : Bool) (r : Req) :
    specPrim o "req_path_prefix_in" a0 a1 fold r = ( some (specPrefix a0 fold r.path)) := rfl

theorem sEq_req_path_suffix_in (o : Orc) (a0 a1 : Bytes) (fold : Bool) (r : Req) :
    specPrim o "req_path_suffix_in" a0 a1 fold r = ( some (specSuffix a0 fold r.path)) := rfl

theorem sEq_req_path_contain (o : Orc) (a0 a1 : Bytes) (fold : Bool) (r : Req) :
    specPrim o "req_path_contain" a0 a1 fold r = ( some (specContain a0 fold r.path)) := rfl

theorem sEq_req_path_element_prefix_in (o : Orc) (a0 a1 : Bytes) (fold : Bool) (r : Req) :
    specPrim o "req_path_element_prefix_in" a0 a1 fold r = ( some (specPathElem a0 fold r.path)) := rfl

theorem sEq_req_path_regmatch (o : Orc) (a0 a1 : Bytes) (fold : Bool) (r : Req) :
    specPrim o "req_path_regmatch" a0 a1 fold r = ( sRe o a0 (some r.path)) := rfl

theorem sEq_req_url_regmatch (o : Orc) (a0 a1 : Bytes) (fold : Bool) (r : Req) :
    specPrim o "req_url_regmatch" a0 a1 fold r = ( sRe o a0 (some r.uri)) := rfl

theorem sEq_req_ua_regmatch (o : Orc) (a0 a1 : Bytes) (fold : Bool) (r : Req) :
    specPrim o "req_ua_regmatch" a0 a1 fold r = ( sRe o a0 (assoc (canonKey uaKey) r.headers)) := rfl

theorem sEq_req_query_exist (o : Orc) (a0 a1 : Bytes) (fold : Bool) (r : Req) :
    specPrim o "req_query_exist" a0 a1 fold r = ( some (r.query.length != 0)) := rfl

theorem sEq_req_query_key_in (o : Orc) (a0 a1 : Bytes) (fold : Bool) (r : Req) :
    specPrim o "req_query_key_in" a0 a1 fold r = ( some ((patterns a0).any (fun k => r.query.any (fun kv => kv.1 == k)))) := rfl

theorem sEq_req_query_key_prefix_in (o : Orc) (a0 a1 : Bytes) (fold : Bool) (r : Req) :
    specPrim o "req_query_key_prefix_in" a0 a1 fold r = (    some ((patterns a0).any (fun p => r.query.any (fun kv => decide (p.length ≤ kv.1.length) && kv.1.take p.length == p)))) := rfl

theorem sEq_req_query_value_in (o : Orc) (a0 a1 : Bytes) (fold : Bool) (r : Req) :
    specPrim o "req_query_value_in" a0 a1 fold r = ( some (attr (assoc a0 r.query) (specIn a1 fold))) := rfl

theorem sEq_req_query_value_prefix_in (o : Orc) (a0 a1 : Bytes) (fold : Bool) (r : Req) :
    specPrim o "req_query_value_prefix_in" a0 a1 fold r = ( some (attr (assoc a0 r.query) (specPrefix a1 fold))) := rfl

theorem sEq_req_query_value_suffix_in (o : Orc) (a0 a1 : Bytes) (fold : Bool) (r : Req) :
    specPrim o "req_query_value_suffix_in" a0 a1 fold r = ( some (attr (assoc a0 r.query) (specSuffix a1 fold))) := rfl

theorem sEq_req_query_value_contain (o : Orc) (a0 a1 : Bytes) (fold : Bool) (r : Req) :
    specPrim o "req_query_value_contain" a0 a1 fold r = ( some (attr (assoc a0 r.query) (specContain a1 fold))) := rfl

theorem sEq_req_query_value_regmatch (o : Orc) (a0 a1 : Bytes) (fold : Bool) (r : Req) :
    specPrim o "req_query_value_regmatch" a0 a1 fold r = ( sRe o a1 (assoc a0 r.query)) := rfl

theorem sEq_req_query_value_hash_in (o : Orc) (a0 a1 : Bytes) (fold : Bool) (r : Req) :
    specPrim o "req_query_value_hash_in" a0 a1 fold r = ( specHash o a1 fold (assoc a0 r.query)) := rfl

theorem sEq_req_header_key_in (o : Orc) (a0 a1 : Bytes) (fold : Bool) (r : Req) :
    specPrim o "req_header_key_in" a0 a1 fold r = ( some ((patterns a0).any (fun k => r.headers.any (fun kv => kv.1 == canonKey k)))) := rfl

theorem sEq_req_header_value_in (o : Orc) (a0 a1 : Bytes) (fold : Bool) (r : Req) :
    specPrim o "req_header_value_in" a0 a1 fold r = ( some (attr (assoc (canonKey a0) r.headers) (specIn a1 fold))) := rfl

theorem sEq_req_header_value_prefix_in (o : Orc) (a0 a1 : Bytes) (fold : Bool) (r : Req) :
    specPrim o "req_header_value_prefix_in" a0 a1 fold r = ( some (attr (assoc (canonKey a0) r.headers) (specPrefix a1 fold))) := rfl

theorem sEq_req_header_value_suffix_in (o : Orc) (a0 a1 : Bytes) (fold : Bool) (r : Req) :
    specPrim o "req_header_value_suffix_in" a0 a1 fold r = ( some (attr (assoc (canonKey a0) r.headers) (specSuffix a1 fold))) := rfl

theorem sEq_req_header_value_contain (o : Orc) (a0 a1 : Bytes) (fold : Bool) (r : Req) :
    specPrim o "req_header_value_contain" a0 a1 fold r = ( some (attr (assoc (canonKey a0) r.headers) (specContain a1 fold))) := rfl

theorem sEq_req_header_value_regmatch (o : Orc) (a0 a1 : Bytes) (fold : Bool) (r : Req) :
    specPrim o "req_header_value_regmatch" a0 a1 fold r = ( sRe o a1 (assoc (canonKey a0) r.headers)) := rfl

theorem sEq_req_header_value_hash_in (o : Orc) (a0 a1 : Bytes) (fold : Bool) (r : Req) :
    specPrim o "req_header_value_hash_in" a0 a1 fold r = ( specHash o a1 fold (assoc (canonKey a0) r.headers)) := rfl

theorem sEq_req_cookie_key_in (o : Orc) (a0 a1 : Bytes) (fold : Bool) (r : Req) :
    specPrim o "req_cookie_key_in" a0 a1 fold r = ( some ((patterns a0).any (fun k => r.cookies.any (fun kv => kv.1 == k)))) := rfl

theorem sEq_req_cookie_value_in (o : Orc) (a0 a1 : Bytes) (fold : Bool) (r : Req) :
    specPrim o "req_cookie_value_in" a0 a1 fold r = ( some (attr (assoc a0 r.cookies) (specIn a1 fold))) := rfl

theorem sEq_req_cookie_value_prefix_in (o : Orc) (a0 a1 : Bytes) (fold : Bool) (r : Req) :
    specPrim o "req_cookie_value_prefix_in" a0 a1 fold r = ( some (attr (assoc a0 r.cookies) (specPrefix a1 fold))) := rfl

theorem sEq_req_cookie_value_suffix_in (o : Orc) (a0 a1 : Bytes) (fold : Bool) (r : Req) :
    specPrim o "req_cookie_value_suffix_in" a0 a1 fold r = ( some (attr (assoc a0 r.cookies) (specSuffix a1 fold))) := rfl

theorem sEq_req_cookie_value_contain (o : Orc) (a0 a1 : Bytes) (fold : Bool) (r : Req) :
    specPrim o "req_cookie_value_contain" a0 a1 fold r = ( some (attr (assoc a0 r.cookies) (specContain a1 fold))) := rfl

theorem sEq_req_cookie_value_hash_in (o : Orc) (a0 a1 : Bytes) (fold : Bool) (r : Req) :
    specPrim o "req_cookie_value_hash_in" a0 a1 fold r = ( specHash o a1 fold (assoc a0 r.cookies)) := rfl

theorem sEq_req_tag_match (o : Orc) (a0 a1 : Bytes) (fold : Bool) (r : Req) :
    specPrim o "req_tag_match" a0 a1 fold r = (    some (match tagsOf r a0 with
      | some ts => ts.any (fun tag => tag.takeWhile (· != 58) == a1)
      | none => false)) := rfl

theorem sEq_req_context_value_in (o : Orc) (a0 a1 : Bytes) (fold : Bool) (r : Req) :
    specPrim o "req_context_value_in" a0 a1 fold r = (    some (match r.ctx with
      | some m => !a0.isEmpty && (match m.find? (fun e => e.1 == a0) with
          | some (_, some v) => specIn a1 fold v
          | _ => false)
      | none => false)) := rfl

theorem sEq_req_cip_range (o : Orc) (a0 a1 : Bytes) (fold : Bool) (r : Req) :
    specPrim o "req_cip_range" a0 a1 fold r = ( specIpRange o a0 a1 r.cip) := rfl

theorem sEq_req_vip_range (o : Orc) (a0 a1 : Bytes) (fold : Bool) (r : Req) :
    specPrim o "req_vip_range" a0 a1 fold r = ( specIpRange o a0 a1 r.vip) := rfl

theorem sEq_ses_vip_range (o : Orc) (a0 a1 : Bytes) (fold : Bool) (r : Req) :
    specPrim o "ses_vip_range" a0 a1 fold r = ( specIpRange o a0 a1 r.vip) := rfl

theorem sEq_ses_sip_range (o : Orc) (a0 a1 : Bytes) (fold : Bool) (r : Req) :
    specPrim o "ses_sip_range" a0 a1 fold r = ( specIpRange o a0 a1 r.sip) := rfl

theorem sEq_req_cip_hash_in (o : Orc) (a0 a1 : Bytes) (fold : Bool) (r : Req) :
    specPrim o "req_cip_hash_in" a0 a1 fold r = ( specHash o a0 false (r.cip.map fun _ => r.cipStr)) := rfl

theorem sEq_req_vip_in (o : Orc) (a0 a1 : Bytes) (fold : Bool) (r : Req) :
    specPrim o "req_vip_in" a0 a1 fold r = (    let ps := (patterns a0).map o.x.parseIP
    if ps.all (·.isSome) then some (attr r.vip fun ip => ps.contains (some ip)) else none) := rfl

theorem sEq_res_code_in (o : Orc) (a0 a1 : Bytes) (fold : Bool) (r : Req) :
    specPrim o "res_code_in" a0 a1 fold r = ( some (attr (r.resp.map (·.code)) (specIn a0 false))) := rfl

theorem sEq_res_header_key_in (o : Orc) (a0 a1 : Bytes) (fold : Bool) (r : Req) :
    specPrim o "res_header_key_in" a0 a1 fold r = ( some (attr (r.resp.map fun _ => []) fun _ =>
      (patterns a0).any (fun k => (r.resp.map (·.headers)).getD [] |>.any (fun kv => kv.1 == canonKey k)))) := rfl

theorem sEq_res_header_value_in (o : Orc) (a0 a1 : Bytes) (fold : Bool) (r : Req) :
    specPrim o "res_header_value_in" a0 a1 fold r = ( some (attr (sRh r a0) (specIn a1 fold))) := rfl

theorem sEq_ses_tls_sni_in (o : Orc) (a0 a1 : Bytes) (fold : Bool) (r : Req) :
    specPrim o "ses_tls_sni_in" a0 a1 fold r = ( some (attr ((specTls r).bind fun t => if t.sni.isEmpty then none else some t.sni) (specIn a0 true))) := rfl

theorem sEq_ses_tls_client_auth (o : Orc) (a0 a1 : Bytes) (fold : Bool) (r : Req) :
    specPrim o "ses_tls_client_auth" a0 a1 fold r = ( some (match specTls r with | some t => t.clientAuth | none => false)) := rfl

theorem sEq_ses_tls_client_ca_in (o : Orc) (a0 a1 : Bytes) (fold : Bool) (r : Req) :
    specPrim o "ses_tls_client_ca_in" a0 a1 fold r = (    some (attr ((specTls r).bind fun t => if t.clientAuth && !t.ca.isEmpty then some t.ca else none) (specIn a0 false))) := rfl

theorem sEq_bfe_time_range (o : Orc) (a0 a1 : Bytes) (fold : Bool) (r : Req) :
    specPrim o "bfe_time_range" a0 a1 fold r = (    match o.x.parseTime a0, o.x.parseTime a1 with
    | some s, some e =>
      if s > e then none
      else some (match timeOf o r with | some t => decide (s ≤ t ∧ t ≤ e) | none => false)
    | _, _ => none) := rfl

theorem sEq_bfe_periodic_time_range (o : Orc) (a0 a1 : Bytes) (fold : Bool) (r : Req) :
    specPrim o "bfe_periodic_time_range" a0 a1 fold r = (    match C17.parseTimeOfDay o.x a0, C17.parseTimeOfDay o.x a1 with
    | some (some (s1, o1)), some (some (s2, o2)) =>
      if s1 > s2 then none else if o1 != o2 then none
      else some (match timeOf o r with
        | some t => decide ((s1 : Int) ≤ (t + o1) % 86400 ∧ (t + o1) % 86400 ≤ (s2 : Int))
        | none => false)
    | _, _ => none) := rfl


/-! ### model = documented meaning, primitive by primitive -/
section PrimEq
variable (o : Orc) (a0 a1 : Bytes) (fold : Bool) (r : Req)

theorem eq_default_t : matchPrim o "default_t" a0 a1 fold r = specPrim o "default_t" a0 a1 fold r := rfl
theorem eq_req_cip_trusted : matchPrim o "req_cip_trusted" a0 a1 fold r = specPrim o "req_cip_trusted" a0 a1 fold r := rfl
theorem eq_req_proto_secure : matchPrim o "req_proto_secure" a0 a1 fold r = specPrim o "req_proto_secure" a0 a1 fold r := rfl
theorem eq_req_proto_match : matchPrim o "req_proto_match" a0 a1 fold r = specPrim o "req_proto_match" a0 a1 fold r := by
  rw [mEq_req_proto_match, sEq_req_proto_match, exactM_eq]; rfl
theorem eq_req_host_tag_in : matchPrim o "req_host_tag_in" a0 a1 fold r = specPrim o "req_host_tag_in" a0 a1 fold r := by
  rw [mEq_req_host_tag_in, sEq_req_host_tag_in, inM_eq_spec]
theorem eq_req_method_in : matchPrim o "req_method_in" a0 a1 fold r = specPrim o "req_method_in" a0 a1 fold r := by
  rw [mEq_req_method_in, sEq_req_method_in, inM_eq_spec]
theorem eq_req_path_in : matchPrim o "req_path_in" a0 a1 fold r = specPrim o "req_path_in" a0 a1 fold r := by
  rw [mEq_req_path_in, sEq_req_path_in, inM_eq_spec]
theorem eq_req_path_prefix_in : matchPrim o "req_path_prefix_in" a0 a1 fold r = specPrim o "req_path_prefix_in" a0 a1 fold r := by
  rw [mEq_req_path_prefix_in, sEq_req_path_prefix_in, prefixM_eq_spec]
theorem eq_req_path_suffix_in : matchPrim o "req_path_suffix_in" a0 a1 fold r = specPrim o "req_path_suffix_in" a0 a1 fold r := by
  rw [mEq_req_path_suffix_in, sEq_req_path_suffix_in, suffixM_eq_spec]
theorem eq_req_path_contain : matchPrim o "req_path_contain" a0 a1 fold r = specPrim o "req_path_contain" a0 a1 fold r := by
  rw [mEq_req_path_contain, sEq_req_path_contain, containM_eq_spec]
theorem eq_req_path_element_prefix_in : matchPrim o "req_path_element_prefix_in" a0 a1 fold r = specPrim o "req_path_element_prefix_in" a0 a1 fold r := by
  rw [mEq_req_path_element_prefix_in, sEq_req_path_element_prefix_in, pathElemM_eq_spec]
theorem eq_req_path_regmatch : matchPrim o "req_path_regmatch" a0 a1 fold r = specPrim o "req_path_regmatch" a0 a1 fold r := by
  rw [mEq_req_path_regmatch, sEq_req_path_regmatch]; rfl
theorem eq_req_url_regmatch : matchPrim o "req_url_regmatch" a0 a1 fold r = specPrim o "req_url_regmatch" a0 a1 fold r := by
  rw [mEq_req_url_regmatch, sEq_req_url_regmatch]; rfl
theorem eq_req_query_exist : matchPrim o "req_query_exist" a0 a1 fold r = specPrim o "req_query_exist" a0 a1 fold r := by
  rw [mEq_req_query_exist, sEq_req_query_exist]; cases r.query <;> simp
theorem eq_req_query_key_in : matchPrim o "req_query_key_in" a0 a1 fold r = specPrim o "req_query_key_in" a0 a1 fold r := by
  rw [mEq_req_query_key_in, sEq_req_query_key_in]; simp only [assoc_isSome, patterns]
theorem eq_req_cookie_key_in : matchPrim o "req_cookie_key_in" a0 a1 fold r = specPrim o "req_cookie_key_in" a0 a1 fold r := by
  rw [mEq_req_cookie_key_in, sEq_req_cookie_key_in]; simp only [assoc_isSome, patterns]
theorem eq_req_query_key_prefix_in : matchPrim o "req_query_key_prefix_in" a0 a1 fold r = specPrim o "req_query_key_prefix_in" a0 a1 fold r := by
  rw [mEq_req_query_key_prefix_in, sEq_req_query_key_prefix_in, any_comm]; rfl

theorem onStr_cookie (m : Bytes → Bool) : onStr (cookieF r a0) m = attr (assoc a0 r.cookies) m := by
  unfold cookieF; cases assoc a0 r.cookies <;> rfl

theorem eq_req_cookie_value_in : matchPrim o "req_cookie_value_in" a0 a1 fold r = specPrim o "req_cookie_value_in" a0 a1 fold r := by
  rw [mEq_req_cookie_value_in, sEq_req_cookie_value_in, onStr_cookie]; congr; funext v; exact inM_eq_spec _ _ _
theorem eq_req_cookie_value_prefix_in : matchPrim o "req_cookie_value_prefix_in" a0 a1 fold r = specPrim o "req_cookie_value_prefix_in" a0 a1 fold r := by
  rw [mEq_req_cookie_value_prefix_in, sEq_req_cookie_value_prefix_in, onStr_cookie]; congr; funext v; exact prefixM_eq_spec _ _ _
theorem eq_req_cookie_value_suffix_in : matchPrim o "req_cookie_value_suffix_in" a0 a1 fold r = specPrim o "req_cookie_value_suffix_in" a0 a1 fold r := by
  rw [mEq_req_cookie_value_suffix_in, sEq_req_cookie_value_suffix_in, onStr_cookie]; congr; funext v; exact suffixM_eq_spec _ _ _
theorem eq_req_cookie_value_contain : matchPrim o "req_cookie_value_contain" a0 a1 fold r = specPrim o "req_cookie_value_contain" a0 a1 fold r := by
  rw [mEq_req_cookie_value_contain, sEq_req_cookie_value_contain, onStr_cookie]; congr; funext v; exact containM_eq_spec _ _ _
theorem eq_req_cookie_value_hash_in : matchPrim o "req_cookie_value_hash_in" a0 a1 fold r = specPrim o "req_cookie_value_hash_in" a0 a1 fold r := by
  rw [mEq_req_cookie_value_hash_in, sEq_req_cookie_value_hash_in]
  unfold mHash specHash; cases hashSections a1 with
  | none => rfl
  | some secs => simp only [onStr_cookie]; rfl

theorem eq_req_tag_match : matchPrim o "req_tag_match" a0 a1 fold r = specPrim o "req_tag_match" a0 a1 fold r := by
  rw [mEq_req_tag_match, sEq_req_tag_match]
  cases tagsOf r a0 with
  | none => rfl
  | some ts => simp [splitOn_head]

theorem eq_req_context_value_in : matchPrim o "req_context_value_in" a0 a1 fold r = specPrim o "req_context_value_in" a0 a1 fold r := by
  rw [mEq_req_context_value_in, sEq_req_context_value_in]
  unfold ctxOf
  cases r.ctx with
  | none => rfl
  | some m =>
    by_cases he : a0.isEmpty = true
    · simp [he, onStr]
    · simp only [he, Bool.false_eq_true, if_false, Bool.not_false, Bool.true_and]
      cases m.find? (fun e => e.1 == a0) with
      | none => rfl
      | some e =>
        obtain ⟨k, v⟩ := e
        cases v with
        | none => rfl
        | some v => simp [onStr, inM_eq_spec]

theorem ipRange_eq (ip : Option Bytes) : mIpRange o a0 a1 ip = specIpRange o a0 a1 ip := by
  unfold mIpRange specIpRange
  cases o.x.parseIP a0 <;> cases o.x.parseIP a1 <;> rfl

theorem eq_req_cip_range : matchPrim o "req_cip_range" a0 a1 fold r = specPrim o "req_cip_range" a0 a1 fold r := by
  rw [mEq_req_cip_range, sEq_req_cip_range, ipRange_eq]
theorem eq_req_vip_range : matchPrim o "req_vip_range" a0 a1 fold r = specPrim o "req_vip_range" a0 a1 fold r := by
  rw [mEq_req_vip_range, sEq_req_vip_range, ipRange_eq]
theorem eq_ses_vip_range : matchPrim o "ses_vip_range" a0 a1 fold r = specPrim o "ses_vip_range" a0 a1 fold r := by
  rw [mEq_ses_vip_range, sEq_ses_vip_range, ipRange_eq]
theorem eq_ses_sip_range : matchPrim o "ses_sip_range" a0 a1 fold r = specPrim o "ses_sip_range" a0 a1 fold r := by
  rw [mEq_ses_sip_range, sEq_ses_sip_range, ipRange_eq]
theorem eq_req_cip_hash_in : matchPrim o "req_cip_hash_in" a0 a1 fold r = specPrim o "req_cip_hash_in" a0 a1 fold r := by
  rw [mEq_req_cip_hash_in, sEq_req_cip_hash_in]
  unfold mHash specHash
  cases hashSections a0 <;> cases r.cip <;> rfl
theorem any_beq_contains (l : List (Option Bytes)) (a : Option Bytes) : l.any (· == a) = l.contains a := by
  rw [Bool.eq_iff_iff]; simp [List.any_eq_true, List.contains_iff_mem]
theorem eq_req_vip_in : matchPrim o "req_vip_in" a0 a1 fold r = specPrim o "req_vip_in" a0 a1 fold r := by
  rw [mEq_req_vip_in, sEq_req_vip_in]
  cases r.vip <;> simp only [patterns, ipFetch, attr, any_beq_contains] <;> (split <;> simp_all)
theorem eq_res_code_in : matchPrim o "res_code_in" a0 a1 fold r = specPrim o "res_code_in" a0 a1 fold r := by
  rw [mEq_res_code_in, sEq_res_code_in]
  cases r.resp <;> simp [onStr, attr, inM_eq_spec]
theorem eq_ses_tls_sni_in : matchPrim o "ses_tls_sni_in" a0 a1 fold r = specPrim o "ses_tls_sni_in" a0 a1 fold r := by
  rw [mEq_ses_tls_sni_in, sEq_ses_tls_sni_in]
  unfold sniOf specTls
  cases r.secure <;> cases r.tls with
  | none => rfl
  | some t =>
    first
    | rfl
    | (by_cases h : t.sni = []
       · simp [h, onStr, attr]
       · have h' : t.sni.isEmpty = false := by cases hs : t.sni <;> simp_all
         simp [h, h', onStr, attr, inM_eq_spec])
theorem eq_ses_tls_client_auth : matchPrim o "ses_tls_client_auth" a0 a1 fold r = specPrim o "ses_tls_client_auth" a0 a1 fold r := by
  rw [mEq_ses_tls_client_auth, sEq_ses_tls_client_auth]
  unfold specTls
  cases r.secure <;> cases r.tls <;> rfl
theorem eq_ses_tls_client_ca_in : matchPrim o "ses_tls_client_ca_in" a0 a1 fold r = specPrim o "ses_tls_client_ca_in" a0 a1 fold r := by
  rw [mEq_ses_tls_client_ca_in, sEq_ses_tls_client_ca_in]
  unfold caOf specTls
  cases r.secure <;> cases r.tls with
  | none => rfl
  | some t =>
    first
    | rfl
    | (cases h1 : t.clientAuth <;> by_cases h2 : t.ca = []
       · simp [h1, h2, onStr, attr]
       · have h' : t.ca.isEmpty = false := by cases hs : t.ca <;> simp_all
         simp [h1, h2, h', onStr, attr]
       · simp [h1, h2, onStr, attr]
       · have h' : t.ca.isEmpty = false := by cases hs : t.ca <;> simp_all
         simp [h1, h2, h', onStr, attr, inM_eq_spec])
theorem eq_bfe_time_range : matchPrim o "bfe_time_range" a0 a1 fold r = specPrim o "bfe_time_range" a0 a1 fold r := by
  rw [mEq_bfe_time_range, sEq_bfe_time_range]
  simp only [Bool.decide_and]
theorem eq_bfe_periodic_time_range : matchPrim o "bfe_periodic_time_range" a0 a1 fold r = specPrim o "bfe_periodic_time_range" a0 a1 fold r := by
  rw [mEq_bfe_periodic_time_range, sEq_bfe_periodic_time_range]
  rcases C17.parseTimeOfDay o.x a0 with _ | _ | ⟨s1, o1⟩ <;>
    rcases C17.parseTimeOfDay o.x a1 with _ | _ | ⟨s2, o2⟩ <;>
    cases timeOf o r <;> simp [clockSecs, Bool.decide_and] <;>
    (by_cases h1 : s2 < s1 <;> by_cases h2 : o1 = o2 <;> simp [h1, h2])

/-! conditional ones -/
theorem onStr_str (v : Bytes) (m : Bytes → Bool) : onStr (.str v) m = m v := rfl

theorem eq_req_host_in (h : r.host.head? ≠ some 91) :
    matchPrim o "req_host_in" a0 a1 fold r = specPrim o "req_host_in" a0 a1 fold r := by
  rw [mEq_req_host_in, sEq_req_host_in, hostOf_eq_spec _ h, inM_eq_spec]; rfl
theorem eq_req_host_suffix_in (h : r.host.head? ≠ some 91) :
    matchPrim o "req_host_suffix_in" a0 a1 fold r = specPrim o "req_host_suffix_in" a0 a1 fold r := by
  rw [mEq_req_host_suffix_in, sEq_req_host_suffix_in, hostOf_eq_spec _ h, suffixM_eq_spec]
theorem eq_req_host_regmatch (h : r.host.head? ≠ some 91) :
    matchPrim o "req_host_regmatch" a0 a1 fold r = specPrim o "req_host_regmatch" a0 a1 fold r := by
  rw [mEq_req_host_regmatch, sEq_req_host_regmatch, hostOf_eq_spec _ h]; rfl
theorem eq_req_port_in (h1 : r.host.head? ≠ some 91) (h2 : r.host.head? ≠ some 58) :
    matchPrim o "req_port_in" a0 a1 fold r = specPrim o "req_port_in" a0 a1 fold r := by
  rw [mEq_req_port_in, sEq_req_port_in, portOf_eq_spec _ h1 h2, inM_eq_spec]

theorem eq_req_header_key_in (hne : ∀ kv ∈ r.headers, kv.2 ≠ []) :
    matchPrim o "req_header_key_in" a0 a1 fold r = specPrim o "req_header_key_in" a0 a1 fold r := by
  rw [mEq_req_header_key_in, sEq_req_header_key_in]
  simp only [headerGet_ne_nil _ hne, patterns]
theorem eq_res_header_key_in (hne : ∀ p, r.resp = some p → ∀ kv ∈ p.headers, kv.2 ≠ []) :
    matchPrim o "res_header_key_in" a0 a1 fold r = specPrim o "res_header_key_in" a0 a1 fold r := by
  rw [mEq_res_header_key_in, sEq_res_header_key_in]
  cases hr : r.resp with
  | none => rfl
  | some p => simp [headerGet_ne_nil _ (hne p hr), patterns, attr]

end PrimEq

section Present
variable (o : Orc) (a0 a1 : Bytes) (fold : Bool) (r : Req)

theorem eq_req_header_value_in (v : Bytes) (h : assoc (canonKey a0) r.headers = some v) :
    matchPrim o "req_header_value_in" a0 a1 fold r = specPrim o "req_header_value_in" a0 a1 fold r := by
  rw [mEq_req_header_value_in, sEq_req_header_value_in]; simp only [headerGet, queryGet, h, Option.getD_some, attr, inM_eq_spec]

theorem eq_req_header_value_prefix_in (v : Bytes) (h : assoc (canonKey a0) r.headers = some v) :
    matchPrim o "req_header_value_prefix_in" a0 a1 fold r = specPrim o "req_header_value_prefix_in" a0 a1 fold r := by
  rw [mEq_req_header_value_prefix_in, sEq_req_header_value_prefix_in]; simp only [headerGet, queryGet, h, Option.getD_some, attr, prefixM_eq_spec]

theorem eq_req_header_value_suffix_in (v : Bytes) (h : assoc (canonKey a0) r.headers = some v) :
    matchPrim o "req_header_value_suffix_in" a0 a1 fold r = specPrim o "req_header_value_suffix_in" a0 a1 fold r := by
  rw [mEq_req_header_value_suffix_in, sEq_req_header_value_suffix_in]; simp only [headerGet, queryGet, h, Option.getD_some, attr, suffixM_eq_spec]

theorem eq_req_header_value_contain (v : Bytes) (h : assoc (canonKey a0) r.headers = some v) :
    matchPrim o "req_header_value_contain" a0 a1 fold r = specPrim o "req_header_value_contain" a0 a1 fold r := by
  rw [mEq_req_header_value_contain, sEq_req_header_value_contain]; simp only [headerGet, queryGet, h, Option.getD_some, attr, containM_eq_spec]

theorem eq_req_header_value_regmatch (v : Bytes) (h : assoc (canonKey a0) r.headers = some v) :
    matchPrim o "req_header_value_regmatch" a0 a1 fold r = specPrim o "req_header_value_regmatch" a0 a1 fold r := by
  rw [mEq_req_header_value_regmatch, sEq_req_header_value_regmatch]; simp only [headerGet, queryGet, h, Option.getD_some, mRe, sRe, attr, onStr]

theorem eq_req_header_value_hash_in (v : Bytes) (h : assoc (canonKey a0) r.headers = some v) :
    matchPrim o "req_header_value_hash_in" a0 a1 fold r = specPrim o "req_header_value_hash_in" a0 a1 fold r := by
  rw [mEq_req_header_value_hash_in, sEq_req_header_value_hash_in]; simp only [headerGet, queryGet, h, Option.getD_some, mHash, specHash, attr, onStr, hashM]

theorem eq_req_query_value_in (v : Bytes) (h : assoc a0 r.query = some v) :
    matchPrim o "req_query_value_in" a0 a1 fold r = specPrim o "req_query_value_in" a0 a1 fold r := by
  rw [mEq_req_query_value_in, sEq_req_query_value_in]; simp only [headerGet, queryGet, h, Option.getD_some, attr, inM_eq_spec]

theorem eq_req_query_value_prefix_in (v : Bytes) (h : assoc a0 r.query = some v) :
    matchPrim o "req_query_value_prefix_in" a0 a1 fold r = specPrim o "req_query_value_prefix_in" a0 a1 fold r := by
  rw [mEq_req_query_value_prefix_in, sEq_req_query_value_prefix_in]; simp only [headerGet, queryGet, h, Option.getD_some, attr, prefixM_eq_spec]

theorem eq_req_query_value_suffix_in (v : Bytes) (h : assoc a0 r.query = some v) :
    matchPrim o "req_query_value_suffix_in" a0 a1 fold r = specPrim o "req_query_value_suffix_in" a0 a1 fold r := by
  rw [mEq_req_query_value_suffix_in, sEq_req_query_value_suffix_in]; simp only [headerGet, queryGet, h, Option.getD_some, attr, suffixM_eq_spec]

theorem eq_req_query_value_contain (v : Bytes) (h : assoc a0 r.query = some v) :
    matchPrim o "req_query_value_contain" a0 a1 fold r = specPrim o "req_query_value_contain" a0 a1 fold r := by
  rw [mEq_req_query_value_contain, sEq_req_query_value_contain]; simp only [headerGet, queryGet, h, Option.getD_some, attr, containM_eq_spec]

theorem eq_req_query_value_regmatch (v : Bytes) (h : assoc a0 r.query = some v) :
    matchPrim o "req_query_value_regmatch" a0 a1 fold r = specPrim o "req_query_value_regmatch" a0 a1 fold r := by
  rw [mEq_req_query_value_regmatch, sEq_req_query_value_regmatch]; simp only [headerGet, queryGet, h, Option.getD_some, mRe, sRe, attr, onStr]

theorem eq_req_query_value_hash_in (v : Bytes) (h : assoc a0 r.query = some v) :
    matchPrim o "req_query_value_hash_in" a0 a1 fold r = specPrim o "req_query_value_hash_in" a0 a1 fold r := by
  rw [mEq_req_query_value_hash_in, sEq_req_query_value_hash_in]; simp only [headerGet, queryGet, h, Option.getD_some, mHash, specHash, attr, onStr, hashM]

theorem eq_req_ua_regmatch (v : Bytes) (h : assoc (canonKey uaKey) r.headers = some v) :
    matchPrim o "req_ua_regmatch" a0 a1 fold r = specPrim o "req_ua_regmatch" a0 a1 fold r := by
  rw [mEq_req_ua_regmatch, sEq_req_ua_regmatch]; simp only [headerGet, h, Option.getD_some, mRe, sRe, attr, onStr]
theorem eq_res_header_value_in (hp : ∀ p, r.resp = some p → (assoc (canonKey a0) p.headers).isSome) :
    matchPrim o "res_header_value_in" a0 a1 fold r = specPrim o "res_header_value_in" a0 a1 fold r := by
  rw [mEq_res_header_value_in, sEq_res_header_value_in]
  unfold rhdrF sRh
  cases hr : r.resp with
  | none => rfl
  | some p =>
    have := hp p hr
    cases hv : assoc (canonKey a0) p.headers with
    | none => rw [hv] at this; cases this
    | some v => simp [headerGet, hv, onStr, attr, inM_eq_spec]
end Present

theorem mIpRange_none (o : Orc) (a0 a1 : Bytes) : mIpRange o a0 a1 none ≠ some true := by
  unfold mIpRange
  rcases o.x.parseIP a0 with _ | s <;> rcases o.x.parseIP a1 with _ | e
  · simp
  · simp
  · simp
  · simp only [ipFetch]
    by_cases h1 : (isV4 s != isV4 e) = true
    · simp [h1]
    · by_cases h2 : bytesLt e s = true <;> simp [h1, h2]

/-! ### header names: Header.Get is case-insensitive -/
def canon1 (up : Bool) (c : UInt8) : UInt8 :=
  if up && (97 ≤ c && c ≤ 122) then c - 32 else if !up && (65 ≤ c && c ≤ 90) then c + 32 else c

theorem canonLoop_cons (up : Bool) (c : UInt8) (rest : Bytes) :
    canonLoop up (c :: rest) = canon1 up c :: canonLoop (c == 45) rest := rfl

set_option maxRecDepth 8000 in
theorem canon1_lower_t : ∀ c : UInt8, canon1 true c = canon1 true (lower1 c) := all_u8 _ (by decide)
set_option maxRecDepth 8000 in
theorem canon1_lower_f : ∀ c : UInt8, canon1 false c = canon1 false (lower1 c) := all_u8 _ (by decide)
set_option maxRecDepth 8000 in
theorem dash_lower : ∀ c : UInt8, (c == 45) = (lower1 c == 45) := all_u8 _ (by decide)
set_option maxRecDepth 8000 in
theorem token_lower : ∀ c : UInt8, tokenByte c = tokenByte (lower1 c) := all_u8 _ (by decide)

theorem canon1_lower (up : Bool) (c : UInt8) : canon1 up c = canon1 up (lower1 c) := by
  cases up
  · exact canon1_lower_f c
  · exact canon1_lower_t c

theorem eqv_true_cons (a b : UInt8) (as bs : Bytes) :
    eqv true (a :: as) (b :: bs) = true ↔ lower1 a = lower1 b ∧ eqv true as bs = true := by
  simp [eqv]

theorem canonLoop_fold (k k' : Bytes) (h : eqv true k k' = true) : ∀ up, canonLoop up k = canonLoop up k' := by
  induction k generalizing k' with
  | nil => cases k' with
    | nil => intro _; rfl
    | cons _ _ => simp [eqv] at h
  | cons c cs ih =>
    cases k' with
    | nil => simp [eqv] at h
    | cons d ds =>
      rw [eqv_true_cons] at h
      intro up
      rw [canonLoop_cons, canonLoop_cons, canon1_lower up c, canon1_lower up d, h.1, dash_lower c, dash_lower d, h.1,
        ih ds h.2]

theorem allToken_fold (k k' : Bytes) (h : eqv true k k' = true) : k.all tokenByte = k'.all tokenByte := by
  induction k generalizing k' with
  | nil => cases k' with
    | nil => rfl
    | cons _ _ => simp [eqv] at h
  | cons c cs ih =>
    cases k' with
    | nil => simp [eqv] at h
    | cons d ds =>
      rw [eqv_true_cons] at h
      simp only [List.all_cons]
      rw [token_lower c, token_lower d, h.1, ih ds h.2]

end BfeVerif.C18
