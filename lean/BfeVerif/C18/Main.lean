import BfeVerif.C18.Driver
def main : IO Unit := BfeVerif.Proto.driverMain BfeVerif.C18.run
