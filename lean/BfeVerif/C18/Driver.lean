import BfeVerif.Common.Proto
import BfeVerif.C18.Model
/-!
  C18 driver.  op = `m;prim;a0;a1;fold;pips;host;path;method;query;headers;cookies;tags;cip;vip`
  (hex fields, `-` = empty; lists comma separated `k:v`; tags `k:v/v/…`; cip/vip `n` = nil).
  result = `T` | `F` | `builderr`.
-/
namespace BfeVerif.C18
open BfeVerif.Proto

def hexB (s : String) : Option (List UInt8) := bytesOfHex s

def pairs (s : String) : Option (List (List UInt8 × List UInt8)) :=
  if s == "-" then some []
  else (s.splitOn ",").mapM fun kv =>
    match kv.splitOn ":" with
    | [k, v] => match hexB k, hexB v with
      | some a, some b => some (a, b)
      | _, _ => none
    | _ => none

def tagList (s : String) : Option (List (List UInt8 × List (List UInt8))) :=
  if s == "-" then some []
  else (s.splitOn ",").mapM fun kv =>
    match kv.splitOn ":" with
    | [k, vs] => match hexB k, (vs.splitOn "/").mapM hexB with
      | some a, some b => some (a, b)
      | _, _ => none
    | _ => none

def ipOpt (s : String) : Option (Option (List UInt8)) :=
  if s == "n" then some none else (hexB s).map some

def render : Option Bool → String
  | some true => "T" | some false => "F" | none => "builderr"

def run (op impl : String) : Ans :=
  match op.splitOn ";" with
  | ["m", prim, a0, a1, fold, pips, host, path, method, query, headers, cookies, tags, cip, vip] =>
    match hexB a0, hexB a1, hexB host, hexB path, hexB method, pairs query, pairs headers, pairs cookies,
          tagList tags, ipOpt cip, ipOpt vip with
    | some a0, some a1, some host, some path, some method, some query, some headers, some cookies,
      some tags, some cip, some vip =>
      let pl : List (Option (List UInt8)) :=
        if pips == "-" then [] else (pips.splitOn ",").map (fun s => if s == "x" then none else hexB s)
      let r : Req := { host, path, method, query, headers, cookies, tags, cip, vip }
      let f := fold == "1"
      let m := matchPrim prim a0 a1 f pl r
      let s := specPrim prim a0 a1 f pl r
      let isVal := (prim.startsWith "req_header_value" || prim.startsWith "req_query_value")
      let absent := if prim.startsWith "req_header_value" then (assoc a0 headers).isNone
                    else if prim.startsWith "req_query_value" then (assoc a0 query).isNone else false
      let cls :=
        if isVal && absent then "missing-attr-empty-pattern"
        else if (prim == "req_port_in" || prim.startsWith "req_host") && host.head? == some 91 then "ipv6-host-literal"
        else if prim == "req_port_in" && host.head? == some 58 then "empty-host-port"
        else if prim == "req_header_key_in" then "header-key-empty-value"
        else "other"
      let verdict :=
        if impl == render s then "ok"
        else if impl == "T" || impl == "F" || impl == "builderr" then "FAIL:" ++ cls
        else "FAIL:crash"
      let tags :=
        [prim, render m] ++ (if m.isSome then ["nt"] else []) ++ (if f then ["fold"] else []) ++
        (if absent then ["absent"] else [])
      { model := render m, verdict := verdict, tags := tags }
    | _, _, _, _, _, _, _, _, _, _, _ => { model := "bad-op", verdict := "skip" }
  | _ => { model := "bad-op", verdict := "skip" }

end BfeVerif.C18
