import BfeVerif.Common.Proto
import BfeVerif.C17.Driver
import BfeVerif.C18.Model
/-!
  C18 driver.  op = `;`-separated fields
    0 m  1 prim  2 a0  3 a1  4 fold  5 hints(C17 format: i/t/s/r)  6 host  7 path  8 method  9 query  10 headers
    11 cookies  12 tags  13 cip  14 vip  15 uri  16 proto  17 secure  18 sesproto  19 tls(n | sni:auth:ca)
    20 sip  21 hosttag  22 trusted  23 resp(n | code|k:v,…)  24 ctx(n | k:v,… v=* non-string)  25 cipstr
    26 re(- | x | v=0/1,…  MatchString of the regexp argument on candidate values)  27 hb(v=bucket,…)
  (hex fields, `-` = empty; lists comma separated `k:v`; tags `k:v/v/…`; ips `n` = nil).
  result = `T` | `F` | `builderr`.
-/
namespace BfeVerif.C18
open BfeVerif.Proto

def hexB (s : String) : Option (List UInt8) := bytesOfHex s

def pairs (s : String) : Option (List (List UInt8 × List UInt8)) :=
  if s == "-" then some []
  else (s.splitOn ",").mapM fun kv =>
    match kv.splitOn ":" with
    | [k, v] => match hexB k, hexB v with
      | some a, some b => some (a, b)
      | _, _ => none
    | _ => none

def tagList (s : String) : Option (List (List UInt8 × List (List UInt8))) :=
  if s == "-" then some []
  else (s.splitOn ",").mapM fun kv =>
    match kv.splitOn ":" with
    | [k, vs] => match hexB k, (vs.splitOn "/").mapM hexB with
      | some a, some b => some (a, b)
      | _, _ => none
    | _ => none

def ctxList (s : String) : Option (Option (List (List UInt8 × Option (List UInt8)))) :=
  if s == "n" then some none
  else if s == "-" then some (some [])
  else ((s.splitOn ",").mapM fun (kv : String) =>
    match kv.splitOn ":" with
    | [k, v] => match hexB k with
      | some a => if v == "*" then some (a, (none : Option (List UInt8))) else (hexB v).map fun b => (a, some b)
      | none => none
    | _ => none).map some

def ipOpt (s : String) : Option (Option (List UInt8)) :=
  if s == "n" then some none else (hexB s).map some

def tlsOpt (s : String) : Option (Option Tls) :=
  if s == "n" then some none
  else match s.splitOn ":" with
    | [a, b, c] => match hexB a, hexB c with
      | some sni, some ca => some (some { sni := sni, clientAuth := b == "1", ca := ca })
      | _, _ => none
    | _ => none

def respOpt (s : String) : Option (Option Resp) :=
  if s == "n" then some none
  else match s.splitOn "|" with
    | [c, h] => match hexB c, pairs h with
      | some code, some hs => some (some { code := code, headers := hs })
      | _, _ => none
    | _ => none

def kvTable (s : String) : List (List UInt8 × String) :=
  if s == "-" || s == "x" then []
  else (s.splitOn ",").filterMap fun kv =>
    match kv.splitOn "=" with
    | [k, v] => (hexB k).map fun a => (a, v)
    | _ => none

def render : Option Bool → String
  | some true => "T" | some false => "F" | none => "builderr"

def endsWithAny (s : String) (l : List String) : Bool := l.any (fun e => s.endsWith e)

def run (op impl : String) : Ans :=
  let fs := op.splitOn ";"
  let f (i : Nat) : String := fs.getD i ""
  if fs.length != 28 || f 0 != "m" then { model := "bad-op", verdict := "skip" }
  else
    match hexB (f 2), hexB (f 3), hexB (f 6), hexB (f 7), hexB (f 8), pairs (f 9), pairs (f 10), pairs (f 11),
          tagList (f 12), ipOpt (f 13), ipOpt (f 14) with
    | some a0, some a1, some host, some path, some method, some query, some headers, some cookies,
      some tags, some cip, some vip =>
      match hexB (f 15), hexB (f 16), hexB (f 18), tlsOpt (f 19), ipOpt (f 20), hexB (f 21), respOpt (f 23),
            ctxList (f 24), hexB (f 25) with
      | some uri, some proto, some sesProto, some tls, some sip, some hostTag, some resp, some ctx, some cipStr =>
        let prim := f 1
        let hs := if f 5 == "-" then [] else ((f 5).splitOn ",").filterMap BfeVerif.C17.parseHint
        let reT := kvTable (f 26)
        let hbT := kvTable (f 27)
        let o : Orc := {
          x := { BfeVerif.C17.extOf hs with regexOk := fun _ => f 26 != "x" }
          reMatch := fun _ v => (reT.find? (fun e => e.1 == v)).map (·.2) == some "1"
          bucket := fun v => ((hbT.find? (fun e => e.1 == v)).bind (fun e => e.2.toNat?)).getD 0 }
        let r : Req := { host, path, method, query, headers, cookies, tags, cip, vip, uri, proto,
                         secure := f 17 == "1", sesProto, tls, sip, hostTag, trusted := f 22 == "1", resp, ctx, cipStr }
        let fold := f 4 == "1"
        -- a literal with a NUL byte or invalid UTF-8 is a scanner error of Build (C17), whatever the primitive
        let srcErr := a0.contains 0 || a1.contains 0 || !(BfeVerif.C17.validUtf8 a0.length a0) || !(BfeVerif.C17.validUtf8 a1.length a1)
        let m := if srcErr then none else matchPrim o prim a0 a1 fold r
        let s := if srcErr then none else specPrim o prim a0 a1 fold r
        let absent :=
          if prim.startsWith "req_header_value" then (assoc (canonKey a0) headers).isNone
          else if prim.startsWith "req_query_value" then (assoc a0 query).isNone
          else if prim == "req_ua_regmatch" then (assoc uaKey headers).isNone
          else if prim == "res_header_value_in" then (match resp with | some p => (assoc (canonKey a0) p.headers).isNone | none => false)
          else false
        let cls :=
          if absent then (if prim.endsWith "hash_in" then "missing-attr-hash" else "missing-attr-empty-pattern")
          else if (prim == "req_port_in" || prim.startsWith "req_host") && host.head? == some 91 then "ipv6-host-literal"
          else if prim == "req_port_in" && host.head? == some 58 then "empty-host-port"
          else if prim == "req_header_key_in" || prim == "res_header_key_in" then "header-key-empty-value"
          else "other"
        let verdict :=
          if impl == render s then "ok"
          else if impl == "T" || impl == "F" || impl == "builderr" then "FAIL:" ++ cls
          else "FAIL:crash"
        let tags :=
          [prim, render m] ++ (if m.isSome then ["nt"] else []) ++ (if fold then ["fold"] else []) ++
          (if absent then ["absent"] else []) ++
          (if a0.any (· ≥ 128) || a1.any (· ≥ 128) || path.any (· ≥ 128) then ["non-ascii"] else []) ++
          (if (a0.contains 124 && (BfeVerif.C17.splitOn 124 a0).contains []) || (a1.contains 124 && (BfeVerif.C17.splitOn 124 a1).contains []) then ["empty-member"] else []) ++
          (if (prim.startsWith "req_header" || prim.startsWith "res_header") && (BfeVerif.C17.splitOn 124 a0).any (fun k => canonKey k != k) then ["odd-case-key"] else [])
        { model := render m, verdict := verdict, tags := tags }
      | _, _, _, _, _, _, _, _, _ => { model := "bad-op", verdict := "skip" }
    | _, _, _, _, _, _, _, _, _, _, _ => { model := "bad-op", verdict := "skip" }

end BfeVerif.C18
