import BfeVerif.C31.Model
/-!
  The Write loop with an emit callback (`writeLoopE`, used by the driver for every case) specialises, for the
  plain callback, to the loop the C31 theorems are about (`writeLoop` / `decodeChunks`).  Core Lean only.
-/
namespace BfeVerif.C31
open BfeVerif.C30

def EErr.toD : EErr → Option DErr
  | .dec e => some e
  | .emit => none

def EState.toD (s : EState) : DState := { dec := s.dec, save := s.save, out := s.out }

theorem writeLoopE_none (T : Tables) : ∀ (f : Nat) (st : EState) (buf : List Nat), st.enabled = true →
    (writeLoopE T .none f st buf).1.enabled = true ∧
    (∀ e, (writeLoopE T .none f st buf).2.1 = some e → e ≠ .emit) ∧
    writeLoop T f st.dec buf st.out =
      ((writeLoopE T .none f st buf).1.toD, (writeLoopE T .none f st buf).2.1.bind EErr.toD) := by
  intro f
  induction f with
  | zero => intro st buf he; exact ⟨he, by simp [writeLoopE], by simp [writeLoopE, writeLoop, EState.toD]⟩
  | succ n ih =>
    intro st buf he
    rw [writeLoopE, writeLoop]
    by_cases h0 : buf.length = 0
    · simp only [if_pos h0]
      exact ⟨he, by simp, by simp [EState.toD]⟩
    · simp only [if_neg h0, he, if_true]
      have he' : ∀ (x : EState), x.enabled = true → x.enabled = true := fun _ h => h
      cases hp : parseRepr T st.dec buf with
      | error e =>
        cases e with
        | needMore =>
          simp only []
          split
          · exact ⟨by first | exact he | rfl | trivial, by simp, by simp [EState.toD, EErr.toD]⟩
          · exact ⟨by first | exact he | rfl | trivial, by simp, by simp [EState.toD]⟩
        | _ => simp only []; exact ⟨by first | exact he | rfl | trivial, by simp, by simp [EState.toD, EErr.toD]⟩
      | ok pr =>
        obtain ⟨d', rest, em⟩ := pr
        cases em with
        | none =>
          simp only []
          exact ih { dec := d', save := st.save, out := st.out, enabled := true, cnt := st.cnt } rest rfl
        | some hf =>
          simp only []
          exact ih { dec := d', save := st.save, out := st.out ++ [hf], enabled := true, cnt := st.cnt + 1 } rest rfl

theorem feedE_none (T : Tables) : ∀ (chunks : List (List Nat)) (st : EState) (ns : List Nat), st.enabled = true →
    feed T st.toD chunks =
      ((feedE T .none st chunks ns).1.toD, (feedE T .none st chunks ns).2.1.bind EErr.toD) ∧
    (∀ e, (feedE T .none st chunks ns).2.1 = some e → e ≠ .emit) := by
  intro chunks
  induction chunks with
  | nil => intro st ns _; simp [feed, feedE]
  | cons c cs ih =>
    intro st ns he
    rw [feedE]
    by_cases hc : c.length = 0
    · simp only [if_pos hc]
      have := ih st (ns ++ [0]) he
      simp only [feed, DState.write, EState.toD, if_pos hc] at this ⊢
      exact this
    · simp only [if_neg hc]
      have hw := writeLoopE_none T ((st.save ++ c).length + 1) { st with save := [] } (st.save ++ c) he
      simp only [feed, DState.write, EState.toD, if_neg hc]
      simp only [] at hw
      rw [hw.2.2]
      cases hr : writeLoopE T .none ((st.save ++ c).length + 1) { st with save := [] } (st.save ++ c) with
      | mk st' r2 =>
        obtain ⟨e', g⟩ := r2
        rw [hr] at hw
        simp only [] at hw
        cases e' with
        | some e =>
          cases e with
          | dec de => simp [EErr.toD, EState.toD]
          | emit => exact absurd rfl (hw.2.1 _ rfl)
        | none =>
          simp only [Option.bind_none]
          have := ih st' (ns ++ [c.length]) hw.1
          simp only [EState.toD] at this
          exact this

/-- **the driver's loop with the plain callback is the loop of the theorems**: same fields, same error, same table -/
theorem decodeChunksE_none (T : Tables) (c : Cfg) (chunks : List (List Nat)) :
    (decodeChunksE T c .none chunks).fields = (decodeChunks T c chunks).fields ∧
    (decodeChunksE T c .none chunks).err.bind EErr.toD = (decodeChunks T c chunks).err ∧
    (decodeChunksE T c .none chunks).tab = (decodeChunks T c chunks).tab := by
  have h := feedE_none T chunks { dec := c.dec, enabled := true } [] rfl
  unfold decodeChunksE decodeChunks
  have h0 : ((EMode.none != EMode.quiet) : Bool) = true := by decide
  simp only [h0]
  have hd : ({ dec := c.dec } : DState) = ({ dec := c.dec, enabled := true } : EState).toD := rfl
  rw [hd, h.1]
  cases hr : feedE T .none { dec := c.dec, enabled := true } chunks [] with
  | mk st r2 =>
    obtain ⟨e', ns⟩ := r2
    rw [hr] at h
    simp only [] at h ⊢
    cases e' with
    | some e =>
      cases e with
      | dec de => simp [EErr.toD, EState.toD]
      | emit => exact absurd rfl (h.2 _ rfl)
    | none =>
      simp only [Option.bind_none, DState.close, EState.toD]
      by_cases hs : st.save.length > 0
      · simp [hs, EErr.toD]
      · simp [hs]

end BfeVerif.C31
