import BfeVerif.C31.Driver
def main : IO Unit := BfeVerif.Proto.driverMain BfeVerif.C31.run
