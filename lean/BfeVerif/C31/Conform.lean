import BfeVerif.C31.Split
import BfeVerif.C30.Sync
import BfeVerif.C31.HuffRef
/-!
  Block-level agreement of the (fixed) decoder model with the RFC 7541 reference (core Lean only;
  SetMaxStringLength not used).
-/
namespace BfeVerif.C31
open BfeVerif.C30

def toD : RErr → DErr
  | .truncated => .needMore | .varint => .overflow | .index => .invalidIndex | .size => .sizeTooLarge
  | .strlen => .strLen | .huffEos => .huffman | .huffPadLong => .huffman | .huffPadBits => .huffman

/-! ### integers -/

theorem rfcIntTail_rel : ∀ (p : List Nat) (k i : Nat),
    match rfcIntTail p k with
    | .ok (v, r) => readVarIntTail p i (7 * k) = .ok (i + v, r)
    | .error e => e.isHuff = false ∧ readVarIntTail p i (7 * k) = .error (toD e) := by
  intro p
  induction p with
  | nil => intro k i; simp [rfcIntTail, readVarIntTail, toD, RErr.isHuff]
  | cons b p ih =>
    intro k i
    have hpow : 2 ^ (7 * k) = 128 ^ k := by rw [Nat.pow_mul]
    unfold rfcIntTail readVarIntTail
    by_cases hb : b < 128
    · simp only [if_pos hb]
      rw [Nat.mod_eq_of_lt hb, hpow]
    · simp only [if_neg hb]
      by_cases hk : k ≥ 8
      · have : 7 * k + 7 ≥ 63 := by omega
        simp only [if_pos hk, if_pos this]
        exact ⟨rfl, rfl⟩
      · have : ¬ (7 * k + 7 ≥ 63) := by omega
        simp only [if_neg hk, if_neg this]
        have h7 : 7 * k + 7 = 7 * (k + 1) := by omega
        have := ih (k + 1) (i + b % 128 * 2 ^ (7 * k))
        rw [h7]
        cases hr : rfcIntTail p (k + 1) with
        | error e => rw [hr] at this; simpa using this
        | ok pr =>
          obtain ⟨v, r⟩ := pr
          rw [hr] at this
          simp only [] at this ⊢
          rw [this, hpow, Nat.add_assoc]

theorem rfcInt_rel (n : Nat) (p : List Nat) :
    match rfcInt n p with
    | .ok (v, r) => readVarInt n p = .ok (v, r)
    | .error e => e.isHuff = false ∧ readVarInt n p = .error (toD e) := by
  cases p with
  | nil => simp [rfcInt, readVarInt, toD, RErr.isHuff]
  | cons b p =>
    unfold rfcInt readVarInt
    simp only []
    by_cases hb : b % 2 ^ n < 2 ^ n - 1
    · simp only [if_pos hb]
    · simp only [if_neg hb]
      have := rfcIntTail_rel p 0 (b % 2 ^ n)
      simp only [Nat.mul_zero] at this
      cases hr : rfcIntTail p 0 with
      | error e => rw [hr] at this; simpa using this
      | ok pr =>
        obtain ⟨v, r⟩ := pr
        rw [hr] at this
        simpa using this

/-! ### strings, indexes -/

theorem rfcString_rel {T : Tables} (ok : TablesOk T) (p : List Nat) :
    match rfcString T 0 p with
    | .ok (v, r) => readString T 0 p = .ok (v, r)
    | .error e => readString T 0 p = .error (toD e) := by
  cases p with
  | nil => simp [rfcString, readString, toD]
  | cons b p =>
    have hi := rfcInt_rel 7 (b :: p)
    unfold rfcString readString
    simp only []
    cases hr : rfcInt 7 (b :: p) with
    | error e =>
      rw [hr] at hi
      simp only [hi.2]
    | ok pr =>
      obtain ⟨n, rest⟩ := pr
      rw [hr] at hi
      simp only [] at hi
      simp only [hi, ne_eq, not_true_eq_false, false_and, if_false]
      by_cases hl : rest.length < n
      · simp only [if_pos hl]; rfl
      · simp only [if_neg hl]
        by_cases hb : b < 128
        · have : ¬ (b ≥ 128) := by omega
          simp [hb, this]
        · have : b ≥ 128 := by omega
          simp only [if_neg hb, this, decide_true, Bool.not_true, Bool.false_eq_true, if_false]
          cases hh : rfcHuff T (List.take n rest) with
          | error e =>
            have hg := (huffman_err_iff_rfc ok _).mpr ⟨e, hh⟩
            have hH := rfcHuff_err T _ e hh
            simp only []
            rw [hg]
            cases e <;> first | rfl | (simp [RErr.isHuff] at hH)
          | ok s =>
            simp only []
            rw [huffman_agrees_of_rfc_ok ok _ s hh]
            rfl

theorem rfcAt_eq (T : Tables) (d : Dec) (i : Nat) : rfcAt T d.tab i = d.at T i := by
  unfold rfcAt
  by_cases h0 : i = 0
  · subst h0; simp [Dec.at]
  · simp only [if_neg h0]
    rw [at_eq T d i (by omega)]
    rfl

/-! ### one literal -/

theorem rfcLiteral_rel {T : Tables} (ok : TablesOk T) (d : Dec) (hd : d.maxStrLen = 0) (n it : Nat) (buf : List Nat) :
    match rfcLiteral T 0 d.tab n buf with
    | .ok (nm, v, rest) =>
        parseFieldLiteral T d buf n it =
          .ok (if it = 0 then { d with tab := d.tab.add { name := nm, value := v } } else d, rest,
               some { name := nm, value := v, sensitive := it = 2 })
    | .error e => parseFieldLiteral T d buf n it = .error (toD e) := by
  have hi := rfcInt_rel n buf
  unfold rfcLiteral parseFieldLiteral
  simp only []
  cases hr : rfcInt n buf with
  | error e =>
    rw [hr] at hi
    simp only [hi.2]
  | ok pr =>
    obtain ⟨idx, rest⟩ := pr
    rw [hr] at hi
    simp only [] at hi
    simp only [hi, hd]
    -- the name
    have hname : match (if idx = 0 then rfcString T 0 rest
                  else match rfcAt T d.tab idx with
                    | none => (.error .index : Except RErr (List Nat × List Nat))
                    | some (nm, _) => .ok (nm, rest)) with
        | .ok (nm, r) => (if idx > 0 then
                  (match d.at T idx with
                    | none => (.error .invalidIndex : Except DErr (List Nat × List Nat))
                    | some (nm, _) => .ok (nm, rest))
                else readString T 0 rest) = .ok (nm, r)
        | .error e => (if idx > 0 then
                  (match d.at T idx with
                    | none => (.error .invalidIndex : Except DErr (List Nat × List Nat))
                    | some (nm, _) => .ok (nm, rest))
                else readString T 0 rest) = .error (toD e) := by
      by_cases h0 : idx = 0
      · have : ¬ (idx > 0) := by omega
        simp only [if_pos h0, if_neg this]
        exact rfcString_rel ok rest
      · have : idx > 0 := by omega
        simp only [if_neg h0, if_pos this, rfcAt_eq]
        cases d.at T idx with
        | none => rfl
        | some nv => obtain ⟨nm, v⟩ := nv; rfl
    generalize (if idx = 0 then rfcString T 0 rest
                  else match rfcAt T d.tab idx with
                    | none => (.error .index : Except RErr (List Nat × List Nat))
                    | some (nm, _) => .ok (nm, rest)) = rn at hname ⊢
    generalize (if idx > 0 then
                  (match d.at T idx with
                    | none => (.error .invalidIndex : Except DErr (List Nat × List Nat))
                    | some (nm, _) => .ok (nm, rest))
                else readString T 0 rest) = gn at hname ⊢
    cases rn with
    | error e =>
      simp only [] at hname ⊢
      rw [hname]
    | ok pn =>
      obtain ⟨nm, r1⟩ := pn
      simp only [] at hname ⊢
      rw [hname]
      simp only []
      have hs := rfcString_rel ok r1
      cases hv : rfcString T 0 r1 with
      | error e =>
        rw [hv] at hs
        simp only [] at hs ⊢
        rw [hs]
      | ok pv =>
        obtain ⟨v, r2⟩ := pv
        rw [hv] at hs
        simp only [] at hs ⊢
        rw [hs]
        simp only []
        unfold callEmit
        split <;> simp [hd]

/-! ### whole blocks -/

/-- what the block-level comparison claims about `writeLoop` for a reference result -/
def BlockRel (T : Tables) (f : Nat) (d : Dec) (buf : List Nat) (out : List HF) :
    Except RErr (List HF × DynTab) → Prop
  | .ok (fs, t) => ∃ d', writeLoop T f d buf out = ({ dec := d', save := [], out := fs }, none) ∧ d'.tab = t
  | .error e =>
      (e = .truncated ∧ ∃ s, writeLoop T f d buf out = (s, none) ∧ s.save ≠ []) ∨
      (e ≠ .truncated ∧ ∃ s, writeLoop T f d buf out = (s, some (toD e)))

theorem writeLoop_succ_err (T : Tables) (n : Nat) (d : Dec) (buf : List Nat) (out : List HF) (e : DErr)
    (hp : parseRepr T d buf = .error e) (h0 : ¬ buf.length = 0) (hd : d.maxStrLen = 0) :
    (e = .needMore → writeLoop T (n + 1) d buf out = ({ dec := d, save := buf, out := out }, none)) ∧
    (e ≠ .needMore → writeLoop T (n + 1) d buf out = ({ dec := d, out := out }, some e)) := by
  rw [writeLoop]
  simp only [if_neg h0, hp]
  have hcond : ¬ (d.maxStrLen ≠ 0 ∧ buf.length > 2 * (d.maxStrLen + 8)) := fun h => h.1 hd
  cases e with
  | needMore =>
    simp only [if_neg hcond]
    constructor <;> intro h <;> first | rfl | trivial | exact absurd rfl h
  | _ => constructor <;> intro h <;> first | rfl | trivial | cases h

/-- a step on which the reference fails (not for a Huffman reason) and the decoder fails alike -/
theorem blockRel_err (T : Tables) (n : Nat) (d : Dec) (buf : List Nat) (out : List HF) (e : RErr)
    (h0 : ¬ buf.length = 0) (hd : d.maxStrLen = 0) (h : parseRepr T d buf = .error (toD e)) :
    BlockRel T (n + 1) d buf out (.error e) := by
  unfold BlockRel
  have hw := writeLoop_succ_err T n d buf out (toD e) h h0 hd
  cases e with
  | truncated =>
    refine Or.inl ⟨rfl, _, hw.1 rfl, ?_⟩
    intro hnil
    simp only [] at hnil
    rw [hnil] at h0; exact h0 rfl
  | _ => exact Or.inr ⟨(by intro hc; cases hc), _, hw.2 (by intro hc; cases hc)⟩

theorem blockRel_step (T : Tables) (n : Nat) (d d1 : Dec) (buf rest : List Nat) (out : List HF) (em : Option HF)
    (r : Except RErr (List HF × DynTab)) (h0 : ¬ buf.length = 0)
    (hp : parseRepr T d buf = .ok (d1, rest, em)) (h : BlockRel T n d1 rest (emitOut out em) r) :
    BlockRel T (n + 1) d buf out r := by
  unfold BlockRel at *
  rw [writeLoop_succ_ok T n d d1 buf rest em out hp h0]
  exact h

theorem rfcBlock_rel {T : Tables} (ok : TablesOk T) : ∀ (f : Nat) (d : Dec) (buf : List Nat) (out : List HF),
    d.maxStrLen = 0 → buf.length < f →
    BlockRel T f d buf out (rfcBlock T d.allowed 0 f d.tab buf out) := by
  intro f
  induction f with
  | zero => intro d buf out _ h; omega
  | succ n ih =>
    intro d buf out hd hf
    cases buf with
    | nil => exact ⟨d, by simp [writeLoop], rfl⟩
    | cons b r =>
      have h0 : ¬ (b :: r).length = 0 := by simp
      have hcons := (parseRepr_props T d (b :: r) []).2
      unfold ConsumesP at hcons
      rw [rfcBlock]
      have hpc := parseRepr_cons T d b r
      by_cases c1 : b ≥ 128
      · -- indexed
        simp only [if_pos c1] at hpc ⊢
        have hi := rfcInt_rel 7 (b :: r)
        cases hr : rfcInt 7 (b :: r) with
        | error e =>
          rw [hr] at hi
          simp only []
          refine blockRel_err T n d _ out e h0 hd ?_
          rw [hpc]; unfold parseFieldIndexed; simp only [hi.2]
        | ok pr =>
          obtain ⟨i, rest⟩ := pr
          rw [hr] at hi
          simp only [] at hi ⊢
          rw [rfcAt_eq]
          cases hat : d.at T i with
          | none =>
            simp only []
            refine blockRel_err T n d _ out .index h0 hd ?_
            rw [hpc]; unfold parseFieldIndexed; simp only [hi, hat]; rfl
          | some nv =>
            obtain ⟨nm, v⟩ := nv
            have hp : parseRepr T d (b :: r) = .ok (d, rest, some { name := nm, value := v }) := by
              rw [hpc]; unfold parseFieldIndexed; simp only [hi, hat]; unfold callEmit; simp [hd]
            have hlen := (hcons _ _ _ hp).1
            simp only [tooLong, bne_self_eq_false, Bool.false_and, Bool.false_eq_true, if_false]
            exact blockRel_step T n d d _ rest out _ _ h0 hp (ih d rest _ hd (by simp at hlen hf ⊢; omega))
      · simp only [if_neg c1] at hpc ⊢
        by_cases c2 : b ≥ 64
        · -- literal with incremental indexing
          simp only [if_pos c2] at hpc ⊢
          have hl := rfcLiteral_rel ok d hd 6 0 (b :: r)
          cases hr : rfcLiteral T 0 d.tab 6 (b :: r) with
          | error e =>
            rw [hr] at hl
            simp only [] at hl ⊢
            exact blockRel_err T n d _ out e h0 hd (by rw [hpc]; exact hl)
          | ok pr =>
            obtain ⟨nm, v, rest⟩ := pr
            rw [hr] at hl
            simp only [if_true] at hl ⊢
            have hp : parseRepr T d (b :: r) = .ok ({ d with tab := d.tab.add { name := nm, value := v } }, rest,
                some { name := nm, value := v, sensitive := decide (0 = 2) }) := by rw [hpc]; exact hl
            have hlen := (hcons _ _ _ hp).1
            simp only [tooLong, bne_self_eq_false, Bool.false_and, Bool.false_eq_true, if_false]
            exact blockRel_step T n d _ _ rest out _ _ h0 hp
              (ih { d with tab := d.tab.add { name := nm, value := v } } rest _ hd (by simp at hlen hf ⊢; omega))
        · simp only [if_neg c2] at hpc ⊢
          by_cases c3 : b ≥ 32
          · -- size update
            have c3a : ¬ (b < 16) := by omega
            have c3b : ¬ (b < 32) := by omega
            simp only [if_pos c3] at ⊢
            simp only [if_neg c3a, if_neg c3b] at hpc
            have hi := rfcInt_rel 5 (b :: r)
            cases hr : rfcInt 5 (b :: r) with
            | error e =>
              rw [hr] at hi
              simp only []
              refine blockRel_err T n d _ out e h0 hd ?_
              rw [hpc]; unfold parseDynamicTableSizeUpdate; simp only [hi.2]
            | ok pr =>
              obtain ⟨sz, rest⟩ := pr
              rw [hr] at hi
              simp only [] at hi ⊢
              by_cases hs : sz > d.allowed
              · simp only [if_pos hs]
                refine blockRel_err T n d _ out .size h0 hd ?_
                rw [hpc]; unfold parseDynamicTableSizeUpdate; simp only [hi, if_pos hs]; rfl
              · simp only [if_neg hs]
                have hp : parseRepr T d (b :: r) = .ok ({ d with tab := d.tab.setMaxSize sz }, rest, none) := by
                  rw [hpc]; unfold parseDynamicTableSizeUpdate; simp only [hi, if_neg hs]
                have hlen := (hcons _ _ _ hp).1
                exact blockRel_step T n d _ _ rest out _ _ h0 hp
                  (ih { d with tab := d.tab.setMaxSize sz } rest _ hd (by simp at hlen hf ⊢; omega))
          · -- literal without / never indexing
            simp only [if_neg c3] at ⊢
            have hit : ∃ it, (it = 1 ∨ it = 2) ∧ parseRepr T d (b :: r) = parseFieldLiteral T d (b :: r) 4 it ∧
                decide (it = 2) = decide (b ≥ 16) := by
              by_cases c4 : b < 16
              · exact ⟨1, Or.inl rfl, by rw [hpc, if_pos c4], by simp; omega⟩
              · have c5 : b < 32 := by omega
                exact ⟨2, Or.inr rfl, by rw [hpc, if_neg c4, if_pos c5], by simp; omega⟩
            obtain ⟨it, hit12, hpit, hsens⟩ := hit
            have hit0 : ¬ it = 0 := by omega
            have hl := rfcLiteral_rel ok d hd 4 it (b :: r)
            cases hr : rfcLiteral T 0 d.tab 4 (b :: r) with
            | error e =>
              rw [hr] at hl
              simp only [] at hl ⊢
              exact blockRel_err T n d _ out e h0 hd (by rw [hpit]; exact hl)
            | ok pr =>
              obtain ⟨nm, v, rest⟩ := pr
              rw [hr] at hl
              simp only [if_neg hit0] at hl ⊢
              have hp : parseRepr T d (b :: r) = .ok (d, rest, some { name := nm, value := v, sensitive := decide (b ≥ 16) }) := by
                rw [hpit, hl, hsens]
              have hlen := (hcons _ _ _ hp).1
              simp only [tooLong, bne_self_eq_false, Bool.false_and, Bool.false_eq_true, if_false]
              exact blockRel_step T n d d _ rest out _ _ h0 hp (ih d rest _ hd (by simp at hlen hf ⊢; omega))

end BfeVerif.C31
