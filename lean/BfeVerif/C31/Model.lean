import BfeVerif.C30.Core
import BfeVerif.Generated.C31
/-
  C31 — the decoder model (shared `C30.Core`, instantiated with the tables `./check C31` extracted
  itself) driven over a split delivery, and an independent RFC 7541 reference decoder `rfcBlock`
  (bit-level Huffman with the padding rules of §5.2, §2.3.3 index space, §6.3 size-update bound,
  §5.1 integers with the implementation limit "at most 9 continuation octets").
-/
namespace BfeVerif.C31
open BfeVerif.C30
open BfeVerif.Generated.C31 (staticTable huffCodes eosCode)

/-- the tables of the current source tree -/
def T : Tables := mkTables staticTable huffCodes eosCode

/-- decoder settings: NewDecoder(maxSize); SetAllowedMaxDynamicTableSize(allowed); SetMaxStringLength(maxStr) -/
structure Cfg where
  maxSize : Nat
  allowed : Nat
  maxStr : Nat
  deriving Repr, DecidableEq

def Cfg.dec (c : Cfg) : Dec := { (Dec.new c.maxSize) with allowed := c.allowed, maxStrLen := c.maxStr }

/-- what a caller observes from `Write(chunk₁) … Write(chunkₙ); Close()` (stopping at the first error) -/
structure Outcome where
  fields : List HF
  err : Option DErr        -- `needMore` here stands for Close's "truncated headers"
  tab : DynTab
  deriving Repr, DecidableEq

def feed (T : Tables) : DState → List (List Nat) → DState × Option DErr
  | s, [] => (s, none)
  | s, c :: cs =>
    match s.write T c with
    | (s', some e) => (s', some e)
    | (s', none) => feed T s' cs

def decodeChunks (T : Tables) (c : Cfg) (chunks : List (List Nat)) : Outcome :=
  match feed T { dec := c.dec } chunks with
  | (s, some e) => { fields := s.out, err := some e, tab := s.dec.tab }
  | (s, none) =>
    let (s', tr) := s.close
    { fields := s'.out, err := if tr then some .needMore else none, tab := s'.dec.tab }

/-! ### digests pinning the extracted tables to the reviewed ones (RFC 7541 Appendix A and B) -/

def dig (l : List Nat) (h : Nat) : Nat := l.foldl (fun h b => (h * 131 + b + 1) % 4294967296) h

def staticDigest (t : List (List Nat × List Nat)) : Nat :=
  t.foldl (fun h e => (dig e.2 ((dig e.1 h) * 131 % 4294967296)) * 131 % 4294967296) 0

def codesDigest (c : List (List Bool)) : Nat :=
  c.foldl (fun h bs => (dig (bs.map fun b => if b then 1 else 0) h) * 131 % 4294967296) 0

/-! ### RFC 7541 reference -/

inductive RErr where
  | truncated | varint | index | size | strlen
  | huffEos        -- §5.2: a string containing the EOS symbol
  | huffPadLong    -- §5.2: padding strictly longer than 7 bits
  | huffPadBits    -- §5.2: padding not the most significant bits of EOS
  deriving Repr, DecidableEq

def RErr.isHuff : RErr → Bool
  | .huffEos | .huffPadLong | .huffPadBits => true
  | _ => false

/-- first code of the list that is a prefix of `bs`: (position, length) -/
def matchCode (bs : List Bool) : List (List Bool) → Nat → Option (Nat × Nat)
  | [], _ => none
  | c :: cs, i => if c.isPrefixOf bs then some (i, c.length) else matchCode bs cs (i + 1)

/-- §5.2 on the bit string: codes (EOS = position 256 forbidden), then < 8 one-bits of padding -/
def rfcHuffBits (T : Tables) : Nat → List Bool → List Nat → Except RErr (List Nat)
  | 0, _, out => .ok out
  | f + 1, bs, out =>
    match matchCode bs (T.codes ++ [T.eos]) 0 with
    | some (s, l) =>
      if s ≥ T.codes.length then .error .huffEos else rfcHuffBits T f (bs.drop l) (out ++ [s])
    | none =>
      if bs.length ≥ 8 then .error .huffPadLong
      else if bs.all id then .ok out
      else .error .huffPadBits

def rfcHuff (T : Tables) (v : List Nat) : Except RErr (List Nat) :=
  rfcHuffBits T ((bytesBits v).length + 1) (bytesBits v) []

/-- §5.1 continuation octets, least significant group first; at most 9 of them -/
def rfcIntTail : List Nat → Nat → Except RErr (Nat × List Nat)
  | [], _ => .error .truncated
  | b :: p, k =>
    if b < 128 then .ok (b * 128 ^ k, p)
    else if k ≥ 8 then .error .varint
    else
      match rfcIntTail p (k + 1) with
      | .error e => .error e
      | .ok (v, r) => .ok ((b % 128) * 128 ^ k + v, r)

def rfcInt (n : Nat) : List Nat → Except RErr (Nat × List Nat)
  | [] => .error .truncated
  | b :: p =>
    let i := b % 2 ^ n
    if i < 2 ^ n - 1 then .ok (i, p)
    else
      match rfcIntTail p 0 with
      | .error e => .error e
      | .ok (v, r) => .ok (i + v, r)

def rfcString (T : Tables) (maxStr : Nat) (p : List Nat) : Except RErr (List Nat × List Nat) :=
  match p with
  | [] => .error .truncated
  | b :: _ =>
    match rfcInt 7 p with
    | .error e => .error e
    | .ok (n, rest) =>
      if maxStr ≠ 0 ∧ n > maxStr then .error .strlen
      else if rest.length < n then .error .truncated
      else if b < 128 then .ok (rest.take n, rest.drop n)
      else
        match rfcHuff T (rest.take n) with
        | .error e => .error e
        | .ok s => if maxStr ≠ 0 ∧ s.length > maxStr then .error .strlen else .ok (s, rest.drop n)

/-- §2.3.3: one index space, static table first, then the dynamic table newest first -/
def rfcAt (T : Tables) (t : DynTab) (i : Nat) : Option (List Nat × List Nat) :=
  if i = 0 then none else (T.static ++ dynPairs t.ents)[i - 1]?

def rfcLiteral (T : Tables) (maxStr : Nat) (t : DynTab) (n : Nat) (buf : List Nat) :
    Except RErr (List Nat × List Nat × List Nat) :=
  match rfcInt n buf with
  | .error e => .error e
  | .ok (idx, rest) =>
    let nameRes : Except RErr (List Nat × List Nat) :=
      if idx = 0 then rfcString T maxStr rest
      else match rfcAt T t idx with
        | none => .error .index
        | some (nm, _) => .ok (nm, rest)
    match nameRes with
    | .error e => .error e
    | .ok (nm, rest) =>
      match rfcString T maxStr rest with
      | .error e => .error e
      | .ok (val, rest) => .ok (nm, val, rest)

/-- the implementation limit SetMaxStringLength applies to every emitted field (also table entries) -/
def tooLong (maxStr : Nat) (nm v : List Nat) : Bool :=
  maxStr != 0 && (decide (nm.length > maxStr) || decide (v.length > maxStr))

/-- decode a whole header block -/
def rfcBlock (T : Tables) (allowed maxStr : Nat) : Nat → DynTab → List Nat → List HF → Except RErr (List HF × DynTab)
  | 0, t, _, out => .ok (out, t)
  | f + 1, t, buf, out =>
    match buf with
    | [] => .ok (out, t)
    | b :: _ =>
      if b ≥ 128 then               -- §6.1 indexed
        match rfcInt 7 buf with
        | .error e => .error e
        | .ok (i, rest) =>
          match rfcAt T t i with
          | none => .error .index
          | some (nm, v) =>
            if tooLong maxStr nm v then .error .strlen
            else rfcBlock T allowed maxStr f t rest (out ++ [{ name := nm, value := v }])
      else if b ≥ 64 then           -- §6.2.1 incremental indexing
        match rfcLiteral T maxStr t 6 buf with
        | .error e => .error e
        | .ok (nm, v, rest) =>
          if tooLong maxStr nm v then .error .strlen
          else rfcBlock T allowed maxStr f (t.add { name := nm, value := v }) rest (out ++ [{ name := nm, value := v }])
      else if b ≥ 32 then           -- §6.3 size update
        match rfcInt 5 buf with
        | .error e => .error e
        | .ok (sz, rest) =>
          if sz > allowed then .error .size else rfcBlock T allowed maxStr f (t.setMaxSize sz) rest out
      else                          -- §6.2.2 / §6.2.3
        match rfcLiteral T maxStr t 4 buf with
        | .error e => .error e
        | .ok (nm, v, rest) =>
          if tooLong maxStr nm v then .error .strlen
          else rfcBlock T allowed maxStr f t rest (out ++ [{ name := nm, value := v, sensitive := decide (b ≥ 16) }])

def rfcDecode (T : Tables) (c : Cfg) (bytes : List Nat) : Except RErr (List HF × DynTab) :=
  rfcBlock T c.allowed c.maxStr (bytes.length + 1) c.dec.tab bytes []

end BfeVerif.C31
