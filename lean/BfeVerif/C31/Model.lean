import BfeVerif.C30.Core
import BfeVerif.Generated.C31
/-
  C31 — the decoder model (shared `C30.Core`, instantiated with the tables `./check C31` extracted
  itself) driven over a split delivery, and an independent RFC 7541 reference decoder `rfcBlock`
  (bit-level Huffman with the padding rules of §5.2, §2.3.3 index space, §6.3 size-update bound,
  §5.1 integers with the implementation limit "at most 9 continuation octets").
-/
namespace BfeVerif.C31
open BfeVerif.C30
open BfeVerif.Generated.C31 (staticTable huffCodes eosCode)

/-- the tables of the current source tree -/
def T : Tables := mkTables staticTable huffCodes eosCode

/-- decoder settings: NewDecoder(maxSize); SetAllowedMaxDynamicTableSize(allowed); SetMaxStringLength(maxStr) -/
structure Cfg where
  maxSize : Nat
  allowed : Nat
  maxStr : Nat
  deriving Repr, DecidableEq

def Cfg.dec (c : Cfg) : Dec := { (Dec.new c.maxSize) with allowed := c.allowed, maxStrLen := c.maxStr }

/-- what a caller observes from `Write(chunk₁) … Write(chunkₙ); Close()` (stopping at the first error) -/
structure Outcome where
  fields : List HF
  err : Option DErr        -- `needMore` here stands for Close's "truncated headers"
  tab : DynTab
  deriving Repr, DecidableEq

def feed (T : Tables) : DState → List (List Nat) → DState × Option DErr
  | s, [] => (s, none)
  | s, c :: cs =>
    match s.write T c with
    | (s', some e) => (s', some e)
    | (s', none) => feed T s' cs

def decodeChunks (T : Tables) (c : Cfg) (chunks : List (List Nat)) : Outcome :=
  match feed T { dec := c.dec } chunks with
  | (s, some e) => { fields := s.out, err := some e, tab := s.dec.tab }
  | (s, none) =>
    let (s', tr) := s.close
    { fields := s'.out, err := if tr then some .needMore else none, tab := s'.dec.tab }

/-! ### digests pinning the extracted tables to the reviewed ones (RFC 7541 Appendix A and B) -/

def dig (l : List Nat) (h : Nat) : Nat := l.foldl (fun h b => (h * 131 + b + 1) % 4294967296) h

def staticDigest (t : List (List Nat × List Nat)) : Nat :=
  t.foldl (fun h e => (dig e.2 ((dig e.1 h) * 131 % 4294967296)) * 131 % 4294967296) 0

def codesDigest (c : List (List Bool)) : Nat :=
  c.foldl (fun h bs => (dig (bs.map fun b => if b then 1 else 0) h) * 131 % 4294967296) 0

/-! ### RFC 7541 reference -/

inductive RErr where
  | truncated | varint | index | size | strlen
  | huffEos        -- §5.2: a string containing the EOS symbol
  | huffPadLong    -- §5.2: padding strictly longer than 7 bits
  | huffPadBits    -- §5.2: padding not the most significant bits of EOS
  deriving Repr, DecidableEq

def RErr.isHuff : RErr → Bool
  | .huffEos | .huffPadLong | .huffPadBits => true
  | _ => false

/-- first code of the list that is a prefix of `bs`: (position, length) -/
def matchCode (bs : List Bool) : List (List Bool) → Nat → Option (Nat × Nat)
  | [], _ => none
  | c :: cs, i => if c.isPrefixOf bs then some (i, c.length) else matchCode bs cs (i + 1)

/-- §5.2 on the bit string: codes (EOS = position 256 forbidden), then < 8 one-bits of padding -/
def rfcHuffBits (T : Tables) : Nat → List Bool → List Nat → Except RErr (List Nat)
  | 0, _, out => .ok out
  | f + 1, bs, out =>
    match matchCode bs (T.codes ++ [T.eos]) 0 with
    | some (s, l) =>
      if s ≥ T.codes.length then .error .huffEos else rfcHuffBits T f (bs.drop l) (out ++ [s])
    | none =>
      if bs.length ≥ 8 then .error .huffPadLong
      else if bs.all id then .ok out
      else .error .huffPadBits

def rfcHuff (T : Tables) (v : List Nat) : Except RErr (List Nat) :=
  rfcHuffBits T ((bytesBits v).length + 1) (bytesBits v) []

/-- §5.1 continuation octets, least significant group first; at most 9 of them -/
def rfcIntTail : List Nat → Nat → Except RErr (Nat × List Nat)
  | [], _ => .error .truncated
  | b :: p, k =>
    if b < 128 then .ok (b * 128 ^ k, p)
    else if k ≥ 8 then .error .varint
    else
      match rfcIntTail p (k + 1) with
      | .error e => .error e
      | .ok (v, r) => .ok ((b % 128) * 128 ^ k + v, r)

def rfcInt (n : Nat) : List Nat → Except RErr (Nat × List Nat)
  | [] => .error .truncated
  | b :: p =>
    let i := b % 2 ^ n
    if i < 2 ^ n - 1 then .ok (i, p)
    else
      match rfcIntTail p 0 with
      | .error e => .error e
      | .ok (v, r) => .ok (i + v, r)

def rfcString (T : Tables) (maxStr : Nat) (p : List Nat) : Except RErr (List Nat × List Nat) :=
  match p with
  | [] => .error .truncated
  | b :: _ =>
    match rfcInt 7 p with
    | .error e => .error e
    | .ok (n, rest) =>
      if maxStr ≠ 0 ∧ n > maxStr then .error .strlen
      else if rest.length < n then .error .truncated
      else if b < 128 then .ok (rest.take n, rest.drop n)
      else
        match rfcHuff T (rest.take n) with
        | .error e => .error e
        | .ok s => if maxStr ≠ 0 ∧ s.length > maxStr then .error .strlen else .ok (s, rest.drop n)

/-- §2.3.3: one index space, static table first, then the dynamic table newest first -/
def rfcAt (T : Tables) (t : DynTab) (i : Nat) : Option (List Nat × List Nat) :=
  if i = 0 then none else (T.static ++ dynPairs t.ents)[i - 1]?

def rfcLiteral (T : Tables) (maxStr : Nat) (t : DynTab) (n : Nat) (buf : List Nat) :
    Except RErr (List Nat × List Nat × List Nat) :=
  match rfcInt n buf with
  | .error e => .error e
  | .ok (idx, rest) =>
    let nameRes : Except RErr (List Nat × List Nat) :=
      if idx = 0 then rfcString T maxStr rest
      else match rfcAt T t idx with
        | none => .error .index
        | some (nm, _) => .ok (nm, rest)
    match nameRes with
    | .error e => .error e
    | .ok (nm, rest) =>
      match rfcString T maxStr rest with
      | .error e => .error e
      | .ok (val, rest) => .ok (nm, val, rest)

/-- the implementation limit SetMaxStringLength applies to every emitted field (also table entries) -/
def tooLong (maxStr : Nat) (nm v : List Nat) : Bool :=
  maxStr != 0 && (decide (nm.length > maxStr) || decide (v.length > maxStr))

/-- decode a whole header block -/
def rfcBlock (T : Tables) (allowed maxStr : Nat) : Nat → DynTab → List Nat → List HF → Except RErr (List HF × DynTab)
  | 0, t, _, out => .ok (out, t)
  | f + 1, t, buf, out =>
    match buf with
    | [] => .ok (out, t)
    | b :: _ =>
      if b ≥ 128 then               -- §6.1 indexed
        match rfcInt 7 buf with
        | .error e => .error e
        | .ok (i, rest) =>
          match rfcAt T t i with
          | none => .error .index
          | some (nm, v) =>
            if tooLong maxStr nm v then .error .strlen
            else rfcBlock T allowed maxStr f t rest (out ++ [{ name := nm, value := v }])
      else if b ≥ 64 then           -- §6.2.1 incremental indexing
        match rfcLiteral T maxStr t 6 buf with
        | .error e => .error e
        | .ok (nm, v, rest) =>
          if tooLong maxStr nm v then .error .strlen
          else rfcBlock T allowed maxStr f (t.add { name := nm, value := v }) rest (out ++ [{ name := nm, value := v }])
      else if b ≥ 32 then           -- §6.3 size update
        match rfcInt 5 buf with
        | .error e => .error e
        | .ok (sz, rest) =>
          if sz > allowed then .error .size else rfcBlock T allowed maxStr f (t.setMaxSize sz) rest out
      else                          -- §6.2.2 / §6.2.3
        match rfcLiteral T maxStr t 4 buf with
        | .error e => .error e
        | .ok (nm, v, rest) =>
          if tooLong maxStr nm v then .error .strlen
          else rfcBlock T allowed maxStr f t rest (out ++ [{ name := nm, value := v, sensitive := decide (b ≥ 16) }])

def rfcDecode (T : Tables) (c : Cfg) (bytes : List Nat) : Except RErr (List HF × DynTab) :=
  rfcBlock T c.allowed c.maxStr (bytes.length + 1) c.dec.tab bytes []

/-! ### RFC 7541 §4.2: a dynamic table size update must stand at the beginning of a header block -/

/-- walks the block like `rfcBlock` and reports whether a size update representation is met after a field
    representation (before any error).  RFC 7541 §4.2 makes such a block a decoding error. -/
def updateAfterField (T : Tables) (allowed maxStr : Nat) : Nat → DynTab → List Nat → Bool → Bool
  | 0, _, _, _ => false
  | f + 1, t, buf, seen =>
    match buf with
    | [] => false
    | b :: _ =>
      if b ≥ 128 then
        match rfcInt 7 buf with
        | .error _ => false
        | .ok (i, rest) =>
          match rfcAt T t i with
          | none => false
          | some (nm, v) => if tooLong maxStr nm v then false else updateAfterField T allowed maxStr f t rest true
      else if b ≥ 64 then
        match rfcLiteral T maxStr t 6 buf with
        | .error _ => false
        | .ok (nm, v, rest) =>
          if tooLong maxStr nm v then false
          else updateAfterField T allowed maxStr f (t.add { name := nm, value := v }) rest true
      else if b ≥ 32 then
        if seen then true
        else
          match rfcInt 5 buf with
          | .error _ => false
          | .ok (sz, rest) =>
            if sz > allowed then false else updateAfterField T allowed maxStr f (t.setMaxSize sz) rest seen
      else
        match rfcLiteral T maxStr t 4 buf with
        | .error _ => false
        | .ok (nm, v, rest) =>
          if tooLong maxStr nm v then false else updateAfterField T allowed maxStr f t rest true

def rfcUpdateAfterField (T : Tables) (c : Cfg) (bytes : List Nat) : Bool :=
  updateAfterField T c.allowed c.maxStr (bytes.length + 1) c.dec.tab bytes false

/-! ### the emit callback as bfe_http2/frame.go uses it: it may switch emission off, or fail -/

/-- what the callback does: nothing special / emission disabled before the first Write /
    SetEmitEnabled(false) (returning nil, field dropped) at its k-th call / return an error at its k-th call -/
inductive EMode where
  | none | quiet | disableAt (k : Nat) | failAt (k : Nat)
  deriving Repr, DecidableEq

/-- `readString` with wantStr = false: lengths are checked, the octets are skipped (no Huffman decoding) -/
def readStringQ (maxStrLen : Nat) (p : List Nat) : Except DErr (List Nat × List Nat) :=
  match p with
  | [] => .error .needMore
  | _ :: _ =>
    match readVarInt 7 p with
    | .error e => .error e
    | .ok (strLen, p) =>
      if maxStrLen ≠ 0 ∧ strLen > maxStrLen then .error .strLen
      else if p.length < strLen then .error .needMore
      else .ok ([], p.drop strLen)

/-- callEmit with emitEnabled = false: only the string-length limit -/
def callEmitQ (d : Dec) (rest : List Nat) (nm v : List Nat) : Parsed :=
  if d.maxStrLen ≠ 0 ∧ (nm.length > d.maxStrLen ∨ v.length > d.maxStrLen) then .error .strLen
  else .ok (d, rest, none)

def parseFieldLiteralQ (T : Tables) (d : Dec) (buf : List Nat) (n : Nat) (it : Nat) : Parsed :=
  match readVarInt n buf with
  | .error e => .error e
  | .ok (nameIdx, rest) =>
    let rd := fun (p : List Nat) => if it = 0 then readString T d.maxStrLen p else readStringQ d.maxStrLen p
    let nameRes : Except DErr (List Nat × List Nat) :=
      if nameIdx > 0 then
        match d.at T nameIdx with
        | none => .error .invalidIndex
        | some (nm, _) => .ok (nm, rest)
      else rd rest
    match nameRes with
    | .error e => .error e
    | .ok (nm, rest) =>
      match rd rest with
      | .error e => .error e
      | .ok (val, rest) =>
        let d' : Dec := if it = 0 then { d with tab := d.tab.add { name := nm, value := val } } else d
        callEmitQ d' rest nm val

/-- `parseHeaderFieldRepr` while emitEnabled = false -/
def parseReprQ (T : Tables) (d : Dec) (buf : List Nat) : Parsed :=
  match buf with
  | [] => .error .needMore
  | b :: _ =>
    if b ≥ 128 then
      match readVarInt 7 buf with
      | .error e => .error e
      | .ok (idx, rest) =>
        match d.at T idx with
        | none => .error .invalidIndex
        | some (n, v) => callEmitQ d rest n v
    else if b ≥ 64 then parseFieldLiteralQ T d buf 6 0
    else if b < 16 then parseFieldLiteralQ T d buf 4 1
    else if b < 32 then parseFieldLiteralQ T d buf 4 2
    else parseDynamicTableSizeUpdate d buf

inductive EErr where
  | dec (e : DErr)
  | emit                 -- the error the callback returned
  deriving Repr, DecidableEq

structure EState where
  dec : Dec
  save : List Nat := []
  out : List HF := []
  enabled : Bool := true
  cnt : Nat := 0         -- calls of the emit callback so far
  deriving Repr, DecidableEq

/-- `Write`'s loop with the callback behaviour `mode`; the Bool says that the errNeedMore guard returned
    (0, ErrStringLength) -/
def writeLoopE (T : Tables) (mode : EMode) : Nat → EState → List Nat → EState × Option EErr × Bool
  | 0, st, buf => ({ st with save := buf }, none, false)
  | f + 1, st, buf =>
    if buf.length = 0 then ({ st with save := [] }, none, false)
    else
      match (if st.enabled then parseRepr T st.dec buf else parseReprQ T st.dec buf) with
      | .error .needMore =>
        if st.dec.maxStrLen ≠ 0 ∧ buf.length > 2 * (st.dec.maxStrLen + 8) then
          ({ st with save := [] }, some (.dec .strLen), true)
        else ({ st with save := buf }, none, false)
      | .error e => ({ st with save := [] }, some (.dec e), false)
      | .ok (d', rest, em) =>
        match em with
        | none => writeLoopE T mode f { st with dec := d' } rest
        | some hf =>
          match mode with
          | .failAt k =>
            if st.cnt = k then ({ st with dec := d', save := [], cnt := st.cnt + 1 }, some .emit, false)
            else writeLoopE T mode f { st with dec := d', out := st.out ++ [hf], cnt := st.cnt + 1 } rest
          | .disableAt k =>
            if st.cnt = k then writeLoopE T mode f { st with dec := d', enabled := false, cnt := st.cnt + 1 } rest
            else writeLoopE T mode f { st with dec := d', out := st.out ++ [hf], cnt := st.cnt + 1 } rest
          | _ => writeLoopE T mode f { st with dec := d', out := st.out ++ [hf], cnt := st.cnt + 1 } rest

/-- outcome of a delivery incl. the `n` each `Write` returned -/
structure OutcomeE where
  fields : List HF
  err : Option EErr        -- `dec needMore` stands for Close's "truncated headers"
  tab : DynTab
  ns : List Nat
  deriving Repr, DecidableEq

/-- `Write(c)` for each chunk (stopping at the first error), collecting the returned counts -/
def feedE (T : Tables) (mode : EMode) : EState → List (List Nat) → List Nat → EState × Option EErr × List Nat
  | st, [], ns => (st, none, ns)
  | st, c :: cs, ns =>
    if c.length = 0 then feedE T mode st cs (ns ++ [0])
    else
      let buf := st.save ++ c
      match writeLoopE T mode (buf.length + 1) { st with save := [] } buf with
      | (st', some e, g) => (st', some e, ns ++ [if g then 0 else c.length])
      | (st', none, _) => feedE T mode st' cs (ns ++ [c.length])

def decodeChunksE (T : Tables) (c : Cfg) (mode : EMode) (chunks : List (List Nat)) : OutcomeE :=
  match feedE T mode { dec := c.dec, enabled := mode != .quiet } chunks [] with
  | (st, some e, ns) => { fields := st.out, err := some e, tab := st.dec.tab, ns := ns }
  | (st, none, ns) =>
    { fields := st.out, err := if st.save.length > 0 then some (.dec .needMore) else none, tab := st.dec.tab, ns := ns }

end BfeVerif.C31
