import BfeVerif.C31.Model
/-!
  Split invariance of `Decoder.Write` (core Lean only): parsing one representation is stable under
  appending more input (unless it asked for more), consumes at least one octet, and never changes the
  settings; hence `Write(c₁) … Write(cₙ)` computes what one `Write(c₁ ++ … ++ cₙ)` computes
  when SetMaxStringLength is not used.
-/
namespace BfeVerif.C31
open BfeVerif.C30

/-! ### stability under more input -/

theorem readVarIntTail_more (more : List Nat) : ∀ (p : List Nat) (i m : Nat),
    (∀ v rest, readVarIntTail p i m = .ok (v, rest) → readVarIntTail (p ++ more) i m = .ok (v, rest ++ more)) ∧
    (∀ e, readVarIntTail p i m = .error e → e ≠ .needMore → readVarIntTail (p ++ more) i m = .error e) := by
  intro p
  induction p with
  | nil =>
    intro i m
    constructor
    · intro v rest h; simp [readVarIntTail] at h
    · intro e h hne; simp [readVarIntTail] at h; exact absurd h.symm hne
  | cons b p ih =>
    intro i m
    simp only [List.cons_append, readVarIntTail]
    by_cases hb : b < 128
    · simp only [hb, if_true]
      constructor
      · intro v rest h; simp only [Except.ok.injEq, Prod.mk.injEq] at h; rw [← h.1, ← h.2]
      · intro e h; cases h
    · simp only [hb, if_false]
      by_cases ho : m + 7 ≥ 63
      · simp only [ho, if_true]
        constructor
        · intro v rest h; cases h
        · intro e h _; exact h
      · simp only [ho, if_false]
        exact ih _ _

theorem readVarInt_more (more : List Nat) (n : Nat) (p : List Nat) :
    (∀ v rest, readVarInt n p = .ok (v, rest) → readVarInt n (p ++ more) = .ok (v, rest ++ more)) ∧
    (∀ e, readVarInt n p = .error e → e ≠ .needMore → readVarInt n (p ++ more) = .error e) := by
  cases p with
  | nil =>
    constructor
    · intro v rest h; simp [readVarInt] at h
    · intro e h hne; simp [readVarInt] at h; exact absurd h.symm hne
  | cons b p =>
    simp only [List.cons_append, readVarInt]
    by_cases hb : b % 2 ^ n < 2 ^ n - 1
    · simp only [hb, if_true]
      constructor
      · intro v rest h; simp only [Except.ok.injEq, Prod.mk.injEq] at h; rw [← h.1, ← h.2]
      · intro e h; cases h
    · simp only [hb, if_false]
      exact readVarIntTail_more more p _ 0

theorem readVarInt_consumes (n : Nat) (p : List Nat) (v : Nat) (rest : List Nat) (h : readVarInt n p = .ok (v, rest)) :
    rest.length < p.length := by
  have tail : ∀ (p : List Nat) (i m v : Nat) (rest : List Nat), readVarIntTail p i m = .ok (v, rest) →
      rest.length < p.length := by
    intro p
    induction p with
    | nil => intro i m v rest h; simp [readVarIntTail] at h
    | cons b p ih =>
      intro i m v rest h
      simp only [readVarIntTail] at h
      by_cases hb : b < 128
      · simp only [hb, if_true, Except.ok.injEq, Prod.mk.injEq] at h; rw [← h.2]; simp
      · simp only [hb, if_false] at h
        by_cases ho : m + 7 ≥ 63
        · simp [ho] at h
        · simp only [ho, if_false] at h
          have := ih _ _ _ _ h
          simp; omega
  cases p with
  | nil => simp [readVarInt] at h
  | cons b p =>
    simp only [readVarInt] at h
    by_cases hb : b % 2 ^ n < 2 ^ n - 1
    · simp only [hb, if_true, Except.ok.injEq, Prod.mk.injEq] at h; rw [← h.2]; simp
    · simp only [hb, if_false] at h
      have := tail _ _ _ _ _ h
      simp; omega

theorem readString_more (T : Tables) (ms : Nat) (more p : List Nat) :
    (∀ v rest, readString T ms p = .ok (v, rest) → readString T ms (p ++ more) = .ok (v, rest ++ more)) ∧
    (∀ e, readString T ms p = .error e → e ≠ .needMore → readString T ms (p ++ more) = .error e) := by
  cases p with
  | nil =>
    constructor
    · intro v rest h; simp [readString] at h
    · intro e h hne; simp [readString] at h; exact absurd h.symm hne
  | cons b p =>
    have hv := readVarInt_more more 7 (b :: p)
    simp only [List.cons_append] at hv ⊢
    unfold readString
    simp only []
    cases hr : readVarInt 7 (b :: p) with
    | error e0 =>
      simp only []
      constructor
      · intro v rest h; cases h
      · intro e h hne
        simp only [Except.error.injEq] at h
        subst h
        rw [hv.2 _ hr hne]
    | ok pr =>
      obtain ⟨strLen, p'⟩ := pr
      rw [hv.1 _ _ hr]
      simp only []
      by_cases hm : ms ≠ 0 ∧ strLen > ms
      · simp only [if_pos hm]
        constructor
        · intro v rest h; cases h
        · intro e h _; exact h
      · simp only [if_neg hm]
        by_cases hl : p'.length < strLen
        · simp only [hl, if_true]
          constructor
          · intro v rest h; cases h
          · intro e h hne; simp only [Except.error.injEq] at h; exact absurd h.symm hne
        · have hl2 : ¬ ((p' ++ more).length < strLen) := by rw [List.length_append]; omega
          simp only [hl, hl2, if_false]
          rw [List.take_append_of_le_length (by omega), List.drop_append_of_le_length (by omega)]
          by_cases hh : (!decide (b ≥ 128)) = true
          · simp only [hh, if_true]
            constructor
            · intro v rest h; simp only [Except.ok.injEq, Prod.mk.injEq] at h; rw [← h.1, ← h.2]
            · intro e h; cases h
          · simp only [hh, if_false]
            cases hd : liftH (huffmanDecode T ms (List.take strLen p')) with
            | error e0 =>
              simp only []
              constructor
              · intro v rest h; cases h
              · intro e h _; exact h
            | ok s =>
              simp only []
              constructor
              · intro v rest h; cases h; rfl
              · intro e h; cases h

theorem readString_consumes (T : Tables) (ms : Nat) (p v rest : List Nat) (h : readString T ms p = .ok (v, rest)) :
    rest.length < p.length := by
  cases p with
  | nil => simp [readString] at h
  | cons b p =>
    unfold readString at h
    simp only [] at h
    cases hr : readVarInt 7 (b :: p) with
    | error e0 => simp [hr] at h
    | ok pr =>
      obtain ⟨strLen, p'⟩ := pr
      have hc := readVarInt_consumes 7 _ _ _ hr
      simp only [hr] at h
      have hd : ∀ x : List Nat, (List.drop strLen p').length < (b :: p).length := by
        intro _; rw [List.length_drop]; omega
      split at h
      · cases h
      · split at h
        · cases h
        · split at h
          · simp only [Except.ok.injEq, Prod.mk.injEq] at h; rw [← h.2]; exact hd []
          · split at h
            · cases h
            · simp only [Except.ok.injEq, Prod.mk.injEq] at h; rw [← h.2]; exact hd []

/-- stability of a representation parser under more input -/
def StableP (g : List Nat → Parsed) (buf more : List Nat) : Prop :=
  (∀ d' rest em, g buf = .ok (d', rest, em) → g (buf ++ more) = .ok (d', rest ++ more, em)) ∧
  (∀ e, g buf = .error e → e ≠ .needMore → g (buf ++ more) = .error e)

/-- a successful parse consumes input and keeps the settings -/
def ConsumesP (d : Dec) (g : List Nat → Parsed) (buf : List Nat) : Prop :=
  ∀ d' rest em, g buf = .ok (d', rest, em) → rest.length < buf.length ∧ d'.maxStrLen = d.maxStrLen

theorem callEmit_cases (d : Dec) (rest : List Nat) (hf : HF) :
    callEmit d rest hf = .ok (d, rest, some hf) ∨ (callEmit d rest hf = .error .strLen ∧ ∀ r, callEmit d r hf = .error .strLen) := by
  unfold callEmit
  split
  · exact Or.inr ⟨rfl, fun _ => rfl⟩
  · exact Or.inl rfl

theorem callEmit_ok (d : Dec) (rest r : List Nat) (hf : HF) (h : callEmit d rest hf = .ok (d, rest, some hf)) :
    callEmit d r hf = .ok (d, r, some hf) := by
  unfold callEmit at *
  split at h
  · cases h
  · rename_i hc; simp [hc]

theorem indexed_props (T : Tables) (d : Dec) (buf more : List Nat) :
    StableP (parseFieldIndexed T d) buf more ∧ ConsumesP d (parseFieldIndexed T d) buf := by
  have hv := readVarInt_more more 7 buf
  unfold StableP ConsumesP parseFieldIndexed
  cases hr : readVarInt 7 buf with
  | error e0 =>
    refine ⟨⟨fun _ _ _ h => (by cases h), fun e h hne => ?_⟩, fun _ _ _ h => by cases h⟩
    simp only [Except.error.injEq] at h; subst h; rw [hv.2 _ hr hne]
  | ok pr =>
    obtain ⟨idx, rest0⟩ := pr
    have hc := readVarInt_consumes 7 _ _ _ hr
    rw [hv.1 _ _ hr]
    simp only []
    cases hat : d.at T idx with
    | none =>
      simp only []
      exact ⟨⟨fun _ _ _ h => (by cases h), fun e h _ => h⟩, fun _ _ _ h => by cases h⟩
    | some nv =>
      obtain ⟨n, v⟩ := nv
      simp only []
      rcases callEmit_cases d rest0 { name := n, value := v } with hok | ⟨herr, hall⟩
      · rw [hok, callEmit_ok d rest0 (rest0 ++ more) _ hok]
        refine ⟨⟨fun _ _ _ h => (by cases h; rfl), fun e h => by cases h⟩, fun _ _ _ h => ?_⟩
        cases h; exact ⟨hc, rfl⟩
      · rw [herr, hall]
        exact ⟨⟨fun _ _ _ h => (by cases h), fun e h _ => h⟩, fun _ _ _ h => by cases h⟩

theorem sizeUpdate_props (d : Dec) (buf more : List Nat) :
    StableP (parseDynamicTableSizeUpdate d) buf more ∧ ConsumesP d (parseDynamicTableSizeUpdate d) buf := by
  have hv := readVarInt_more more 5 buf
  unfold StableP ConsumesP parseDynamicTableSizeUpdate
  cases hr : readVarInt 5 buf with
  | error e0 =>
    refine ⟨⟨fun _ _ _ h => (by cases h), fun e h hne => ?_⟩, fun _ _ _ h => by cases h⟩
    simp only [Except.error.injEq] at h; subst h; rw [hv.2 _ hr hne]
  | ok pr =>
    obtain ⟨size, rest0⟩ := pr
    have hc := readVarInt_consumes 5 _ _ _ hr
    rw [hv.1 _ _ hr]
    simp only []
    by_cases hs : size > d.allowed
    · simp only [if_pos hs]
      exact ⟨⟨fun _ _ _ h => (by cases h), fun e h _ => h⟩, fun _ _ _ h => by cases h⟩
    · simp only [if_neg hs]
      refine ⟨⟨fun _ _ _ h => (by cases h; rfl), fun e h => by cases h⟩, fun _ _ _ h => ?_⟩
      cases h; exact ⟨hc, rfl⟩

theorem literal_props (T : Tables) (d : Dec) (n it : Nat) (buf more : List Nat) :
    StableP (fun b => parseFieldLiteral T d b n it) buf more ∧ ConsumesP d (fun b => parseFieldLiteral T d b n it) buf := by
  have hv := readVarInt_more more n buf
  unfold StableP ConsumesP parseFieldLiteral
  simp only []
  cases hr : readVarInt n buf with
  | error e0 =>
    refine ⟨⟨fun _ _ _ h => (by cases h), fun e h hne => ?_⟩, fun _ _ _ h => by cases h⟩
    simp only [Except.error.injEq] at h; subst h; rw [hv.2 _ hr hne]
  | ok pr =>
    obtain ⟨nameIdx, rest0⟩ := pr
    have hc := readVarInt_consumes n _ _ _ hr
    rw [hv.1 _ _ hr]
    simp only []
    -- the name
    have hname : ∀ (nr : Except DErr (List Nat × List Nat)) (nr' : Except DErr (List Nat × List Nat)),
        nr = (if nameIdx > 0 then (match d.at T nameIdx with | none => .error .invalidIndex | some (nm, _) => .ok (nm, rest0))
              else readString T d.maxStrLen rest0) →
        nr' = (if nameIdx > 0 then (match d.at T nameIdx with | none => .error .invalidIndex | some (nm, _) => .ok (nm, rest0 ++ more))
              else readString T d.maxStrLen (rest0 ++ more)) →
        (∀ nm r, nr = .ok (nm, r) → nr' = .ok (nm, r ++ more) ∧ r.length ≤ rest0.length) ∧
        (∀ e, nr = .error e → e ≠ .needMore → nr' = .error e) := by
      intro nr nr' h1 h2
      by_cases hi : nameIdx > 0
      · rw [if_pos hi] at h1 h2
        cases hat : d.at T nameIdx with
        | none =>
          rw [hat] at h1 h2; subst h1 h2
          exact ⟨fun _ _ h => (by cases h), fun e h _ => h⟩
        | some nv =>
          obtain ⟨nm0, v0⟩ := nv
          rw [hat] at h1 h2; subst h1 h2
          exact ⟨fun _ _ h => (by cases h; exact ⟨rfl, Nat.le_refl _⟩), fun e h => by cases h⟩
      · rw [if_neg hi] at h1 h2
        subst h1 h2
        have hs := readString_more T d.maxStrLen more rest0
        exact ⟨fun nm r h => ⟨hs.1 _ _ h, Nat.le_of_lt (readString_consumes T _ _ _ _ h)⟩, hs.2⟩
    obtain ⟨hn1, hn2⟩ := hname _ _ rfl rfl
    generalize (if nameIdx > 0 then (match d.at T nameIdx with | none => (Except.error DErr.invalidIndex : Except DErr (List Nat × List Nat)) | some (nm, _) => .ok (nm, rest0))
              else readString T d.maxStrLen rest0) = nr at hn1 hn2 ⊢
    generalize (if nameIdx > 0 then (match d.at T nameIdx with | none => (Except.error DErr.invalidIndex : Except DErr (List Nat × List Nat)) | some (nm, _) => .ok (nm, rest0 ++ more))
              else readString T d.maxStrLen (rest0 ++ more)) = nr' at hn1 hn2 ⊢
    cases nr with
    | error e0 =>
      simp only []
      refine ⟨⟨fun _ _ _ h => (by cases h), fun e h hne => ?_⟩, fun _ _ _ h => by cases h⟩
      simp only [Except.error.injEq] at h; subst h; rw [hn2 _ rfl hne]
    | ok pn =>
      obtain ⟨nm, rest1⟩ := pn
      obtain ⟨hnr', hlen1⟩ := hn1 nm rest1 rfl
      rw [hnr']
      simp only []
      have hs := readString_more T d.maxStrLen more rest1
      cases hrv : readString T d.maxStrLen rest1 with
      | error e0 =>
        simp only []
        refine ⟨⟨fun _ _ _ h => (by cases h), fun e h hne => ?_⟩, fun _ _ _ h => by cases h⟩
        simp only [Except.error.injEq] at h; subst h; rw [hs.2 _ hrv hne]
      | ok pv =>
        obtain ⟨val, rest2⟩ := pv
        have hc2 := readString_consumes T _ _ _ _ hrv
        rw [hs.1 _ _ hrv]
        simp only []
        have hd1 : ∀ (dd : Dec), dd = (if it = 0 then { d with tab := d.tab.add { name := nm, value := val } } else d) →
            dd.maxStrLen = d.maxStrLen := by
          intro dd h; subst h; split <;> rfl
        rcases callEmit_cases (if it = 0 then { d with tab := d.tab.add { name := nm, value := val } } else d) rest2
            { name := nm, value := val, sensitive := it = 2 } with hok | ⟨herr, hall⟩
        · rw [hok, callEmit_ok _ rest2 (rest2 ++ more) _ hok]
          refine ⟨⟨fun _ _ _ h => (by cases h; rfl), fun e h => by cases h⟩, fun _ _ _ h => ?_⟩
          cases h; exact ⟨by omega, hd1 _ rfl⟩
        · rw [herr, hall]
          exact ⟨⟨fun _ _ _ h => (by cases h), fun e h _ => h⟩, fun _ _ _ h => by cases h⟩

theorem parseRepr_props (T : Tables) (d : Dec) (buf more : List Nat) :
    StableP (parseRepr T d) buf more ∧ ConsumesP d (parseRepr T d) buf := by
  cases buf with
  | nil =>
    refine ⟨⟨fun _ _ _ h => (by simp [parseRepr] at h), fun e h hne => ?_⟩, fun _ _ _ h => (by simp [parseRepr] at h)⟩
    simp [parseRepr] at h; exact absurd h.symm hne
  | cons b r =>
    have h1 := indexed_props T d (b :: r) more
    have h2 := literal_props T d 6 0 (b :: r) more
    have h3 := literal_props T d 4 1 (b :: r) more
    have h4 := literal_props T d 4 2 (b :: r) more
    have h5 := sizeUpdate_props d (b :: r) more
    unfold StableP ConsumesP at *
    simp only [List.cons_append] at *
    unfold parseRepr
    simp only []
    by_cases c1 : b ≥ 128
    · simp only [if_pos c1]; exact h1
    · simp only [if_neg c1]
      by_cases c2 : b ≥ 64
      · simp only [if_pos c2]; exact h2
      · simp only [if_neg c2]
        by_cases c3 : b < 16
        · simp only [if_pos c3]; exact h3
        · simp only [if_neg c3]
          by_cases c4 : b < 32
          · simp only [if_pos c4]; exact h4
          · simp only [if_neg c4]; exact h5

/-! ### `Write` on a growing buffer -/

def emitOut (out : List HF) : Option HF → List HF
  | some h => out ++ [h]
  | none => out

theorem writeLoop_succ_ok (T : Tables) (n : Nat) (d d' : Dec) (buf rest : List Nat) (em : Option HF) (out : List HF)
    (hp : parseRepr T d buf = .ok (d', rest, em)) (h0 : ¬ buf.length = 0) :
    writeLoop T (n + 1) d buf out = writeLoop T n d' rest (emitOut out em) := by
  rw [writeLoop]
  simp only [if_neg h0, hp]
  cases em <;> rfl

theorem writeLoop_fuel (T : Tables) : ∀ (f1 f2 : Nat) (d : Dec) (buf : List Nat) (out : List HF),
    buf.length < f1 → buf.length < f2 → writeLoop T f1 d buf out = writeLoop T f2 d buf out := by
  intro f1
  induction f1 with
  | zero => intro f2 d buf out h; omega
  | succ n ih =>
    intro f2 d buf out h1 h2
    obtain ⟨m, rfl⟩ : ∃ m, f2 = m + 1 := ⟨f2 - 1, by omega⟩
    rw [writeLoop, writeLoop]
    by_cases h0 : buf.length = 0
    · simp only [if_pos h0]
    · simp only [if_neg h0]
      cases hp : parseRepr T d buf with
      | error e => cases e <;> rfl
      | ok pr =>
        obtain ⟨d', rest, em⟩ := pr
        have hc := ((parseRepr_props T d buf []).2 d' rest em hp).1
        simp only []
        exact ih m d' rest _ (by omega) (by omega)

/-- what a later `Write` of `more` makes of the state a `Write` left behind (no SetMaxStringLength) -/
theorem writeLoop_more (T : Tables) (more : List Nat) : ∀ (f : Nat) (d : Dec) (buf : List Nat) (out : List HF),
    d.maxStrLen = 0 → buf.length < f →
    (∀ s, writeLoop T f d buf out = (s, none) →
        s.dec.maxStrLen = 0 ∧ ∀ f2 f3, (s.save ++ more).length < f2 → (buf ++ more).length < f3 →
          writeLoop T f3 d (buf ++ more) out = writeLoop T f2 s.dec (s.save ++ more) s.out) ∧
    (∀ s e, writeLoop T f d buf out = (s, some e) →
        ∀ f3, (buf ++ more).length < f3 → writeLoop T f3 d (buf ++ more) out = (s, some e)) := by
  intro f
  induction f with
  | zero => intro d buf out _ h; omega
  | succ n ih =>
    intro d buf out hd hf
    rw [writeLoop]
    by_cases h0 : buf.length = 0
    · have hnil : buf = [] := List.eq_nil_of_length_eq_zero h0
      subst hnil
      simp only [List.length_nil, if_true, List.nil_append]
      refine ⟨fun s h => ?_, fun s e h => by cases h⟩
      cases h
      exact ⟨hd, fun f2 f3 h2 h3 => writeLoop_fuel T f3 f2 d more out (by simpa using h3) (by simpa using h2)⟩
    · simp only [if_neg h0]
      have hprops := parseRepr_props T d buf more
      have hne : ¬ ((buf ++ more).length = 0) := by rw [List.length_append]; omega
      cases hp : parseRepr T d buf with
      | error e =>
        cases e with
        | needMore =>
          have hcond : ¬ (d.maxStrLen ≠ 0 ∧ buf.length > 2 * (d.maxStrLen + 8)) := fun h => h.1 hd
          simp only [if_neg hcond]
          refine ⟨fun s h => ?_, fun s e h => (by cases h)⟩
          cases h
          exact ⟨hd, fun f2 f3 h2 h3 => writeLoop_fuel T f3 f2 d (buf ++ more) out h3 h2⟩
        | _ =>
          have hstab := hprops.1.2 _ hp (by intro h; cases h)
          simp only []
          refine ⟨fun s h => (by cases h), fun s e' h f3 h3 => ?_⟩
          cases h
          obtain ⟨m, rfl⟩ : ∃ m, f3 = m + 1 := ⟨f3 - 1, by omega⟩
          rw [writeLoop]
          simp only [if_neg hne, hstab]
      | ok pr =>
        obtain ⟨d', rest, em⟩ := pr
        obtain ⟨hc, hms⟩ := hprops.2 d' rest em hp
        have hstab := hprops.1.1 d' rest em hp
        have hcur : ∀ (X : DState × Option DErr),
            (match (Except.ok (d', rest, em) : Parsed) with
              | .error .needMore =>
                if d.maxStrLen ≠ 0 ∧ buf.length > 2 * (d.maxStrLen + 8) then (({ dec := d, out := out } : DState), some DErr.strLen)
                else ({ dec := d, save := buf, out := out }, none)
              | .error e => ({ dec := d, out := out }, some e)
              | .ok (d', rest, em) => writeLoop T n d' rest (match em with | some h => out ++ [h] | none => out)) = X ↔
            writeLoop T n d' rest (emitOut out em) = X := by
          intro X; cases em <;> exact Iff.rfl
        simp only [hcur]
        have hIH := ih d' rest (emitOut out em) (by rw [hms]; exact hd) (by omega)
        have hext : ∀ f3, (buf ++ more).length < f3 → writeLoop T f3 d (buf ++ more) out =
            writeLoop T (f3 - 1) d' (rest ++ more) (emitOut out em) := by
          intro f3 h3
          obtain ⟨m, rfl⟩ : ∃ m, f3 = m + 1 := ⟨f3 - 1, by omega⟩
          rw [writeLoop_succ_ok T m d d' _ _ em out hstab hne, Nat.add_sub_cancel]
        have hlen : (rest ++ more).length < (buf ++ more).length := by
          rw [List.length_append, List.length_append]; omega
        refine ⟨fun s h => ?_, fun s e h f3 h3 => ?_⟩
        · obtain ⟨h1, h2⟩ := hIH.1 s h
          refine ⟨h1, fun f2 f3 hf2 hf3 => ?_⟩
          rw [hext f3 hf3]
          exact h2 f2 (f3 - 1) hf2 (by omega)
        · rw [hext f3 h3]
          exact hIH.2 s e h (f3 - 1) (by omega)

/-- `Write(c₁) … Write(cₙ)` from a state that a `Write` of `buf` produced = one `Write` of everything -/
theorem feed_eq (T : Tables) : ∀ (chunks : List (List Nat)) (s : DState) (f : Nat) (d : Dec) (buf : List Nat) (out : List HF),
    d.maxStrLen = 0 → buf.length < f → writeLoop T f d buf out = (s, none) →
    feed T s chunks = writeLoop T ((buf ++ chunks.flatten).length + 1) d (buf ++ chunks.flatten) out := by
  intro chunks
  induction chunks with
  | nil =>
    intro s f d buf out hd hf hw
    simp only [feed, List.flatten_nil, List.append_nil]
    rw [← hw]
    exact writeLoop_fuel T _ _ d buf out hf (by omega)
  | cons c cs ih =>
    intro s f d buf out hd hf hw
    obtain ⟨hsd, hmore⟩ := (writeLoop_more T c f d buf out hd hf).1 s hw
    simp only [feed, List.flatten_cons]
    by_cases hc0 : c.length = 0
    · have hcn : c = [] := List.eq_nil_of_length_eq_zero hc0
      subst hcn
      simp only [DState.write, List.length_nil, if_true, List.nil_append]
      exact ih s f d buf out hd hf hw
    · -- a real Write
      have hwrite : s.write T c = writeLoop T ((buf ++ c).length + 1) d (buf ++ c) out := by
        simp only [DState.write, if_neg hc0]
        exact (hmore _ _ (by omega) (by omega)).symm
      rw [hwrite, ← List.append_assoc]
      cases hres : writeLoop T ((buf ++ c).length + 1) d (buf ++ c) out with
      | mk s' e' =>
        cases e' with
        | none =>
          simp only []
          exact ih s' _ d (buf ++ c) out hd (by omega) hres
        | some e =>
          simp only []
          have := (writeLoop_more T cs.flatten _ d (buf ++ c) out hd (by omega)).2 s' e hres
            ((buf ++ c ++ cs.flatten).length + 1) (by omega)
          rw [this]

end BfeVerif.C31
