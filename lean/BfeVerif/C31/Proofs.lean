import BfeVerif.C31.Model
import BfeVerif.C30.Huffman
import BfeVerif.C31.HuffRef
import BfeVerif.C31.Split
import BfeVerif.C31.Conform
import BfeVerif.C31.Emit
/-! Lemmas for C31 are in HuffRef (Huffman reference), Split (split invariance), Conform (block-level agreement). -/
