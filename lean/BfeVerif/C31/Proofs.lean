import BfeVerif.C31.Model
import BfeVerif.C30.Huffman
/-! Lemmas for C31 (core Lean only). -/
namespace BfeVerif.C31
open BfeVerif.C30

theorem matchCode_some (bs : List Bool) : ∀ (cs : List (List Bool)) (i s l : Nat),
    matchCode bs cs i = some (s, l) →
    ∃ j, ∃ (hj : j < cs.length), s = i + j ∧ l = cs[j].length ∧ cs[j] <+: bs := by
  intro cs
  induction cs with
  | nil => intro i s l h; simp [matchCode] at h
  | cons c cs ih =>
    intro i s l h
    unfold matchCode at h
    by_cases hp : c.isPrefixOf bs = true
    · simp only [hp, if_true, Option.some.injEq, Prod.mk.injEq] at h
      exact ⟨0, by simp, by omega, by simp [h.2], by simpa using List.isPrefixOf_iff_prefix.mp hp⟩
    · simp only [hp, if_false] at h
      obtain ⟨j, hj, h1, h2, h3⟩ := ih (i + 1) s l h
      exact ⟨j + 1, by simpa using hj, by omega, by simpa using h2, by simpa using h3⟩

theorem all_id_eq_ones (bs : List Bool) (h : bs.all id = true) : bs = ones bs.length := by
  unfold ones
  apply List.eq_replicate_iff.mpr
  refine ⟨rfl, fun b hb => ?_⟩
  simpa using List.all_eq_true.mp h b hb

/-- whatever the reference accepts is a canonical stream: codes of the output, then < 8 one-bits -/
theorem rfcHuffBits_sound {T : Tables} (ok : TablesOk T) : ∀ (f : Nat) (bs : List Bool) (out res : List Nat),
    bs.length < f → rfcHuffBits T f bs out = .ok res →
    ∃ syms k, res = out ++ syms ∧ bs = encBits T syms ++ ones k ∧ k < 8 ∧ ∀ x ∈ syms, x < T.codes.length := by
  intro f
  induction f with
  | zero => intro bs out res h; omega
  | succ f ih =>
    intro bs out res hlen h
    unfold rfcHuffBits at h
    cases hm : matchCode bs (T.codes ++ [T.eos]) 0 with
    | none =>
      simp only [hm] at h
      by_cases h8 : bs.length ≥ 8
      · simp [h8] at h
      · simp only [h8, if_false] at h
        by_cases ha : bs.all id = true
        · simp only [ha, if_true, Except.ok.injEq] at h
          exact ⟨[], bs.length, by simp [h], by simpa [encBits] using all_id_eq_ones bs ha, by omega, by simp⟩
        · simp [ha] at h
    | some p =>
      obtain ⟨s, l⟩ := p
      simp only [hm] at h
      by_cases hs : s ≥ T.codes.length
      · simp [hs] at h
      · simp only [hs, if_false] at h
        obtain ⟨j, hj, hsj, hl, hpre⟩ := matchCode_some bs _ 0 s l hm
        have hjs : j = s := by omega
        subst hjs
        have hs' : j < T.codes.length := by omega
        have hcode : (T.codes ++ [T.eos])[j] = T.codes[j] := List.getElem_append_left hs'
        rw [hcode] at hl hpre
        have hne := codes_ne_nil ok j hs'
        have hlpos : 0 < l := by rw [hl]; exact List.length_pos_iff.mpr hne
        obtain ⟨t, ht⟩ := hpre
        have hdrop : bs.drop l = t := by rw [← ht, hl, List.drop_left]
        have hll : l ≤ bs.length := by rw [← ht, hl]; simp
        have hlt : (bs.drop l).length < f := by
          rw [List.length_drop]; omega
        obtain ⟨syms, k, h1, h2, h3, h4⟩ := ih (bs.drop l) (out ++ [j]) res hlt h
        refine ⟨j :: syms, k, by simp [h1], ?_, h3, ?_⟩
        · rw [← ht, ← hdrop, h2]; simp [encBits, symCode_eq T j hs']
        · intro x hx
          rcases List.mem_cons.mp hx with rfl | hx
          · exact hs'
          · exact h4 x hx

/-- on every string the RFC reference accepts, the decoder as coded returns the same octets -/
theorem huffman_agrees_of_rfc_ok {T : Tables} (ok : TablesOk T) (v s : List Nat) (h : rfcHuff T v = .ok s) :
    huffmanDecode T 0 v = .ok s := by
  unfold rfcHuff at h
  obtain ⟨syms, k, h1, h2, h3, h4⟩ := rfcHuffBits_sound ok _ _ [] s (by omega) h
  simp only [List.nil_append] at h1
  subst h1
  exact huffman_canon ok s k h3 h4 v h2

end BfeVerif.C31
