import BfeVerif.C31.Model
import BfeVerif.C30.Huffman
/-! Lemmas about the RFC Huffman reference (core Lean only). -/
namespace BfeVerif.C31
open BfeVerif.C30

theorem matchCode_some (bs : List Bool) : ∀ (cs : List (List Bool)) (i s l : Nat),
    matchCode bs cs i = some (s, l) →
    ∃ j, ∃ (hj : j < cs.length), s = i + j ∧ l = cs[j].length ∧ cs[j] <+: bs := by
  intro cs
  induction cs with
  | nil => intro i s l h; simp [matchCode] at h
  | cons c cs ih =>
    intro i s l h
    unfold matchCode at h
    by_cases hp : c.isPrefixOf bs = true
    · simp only [hp, if_true, Option.some.injEq, Prod.mk.injEq] at h
      exact ⟨0, by simp, by omega, by simp [h.2], by simpa using List.isPrefixOf_iff_prefix.mp hp⟩
    · simp only [hp] at h
      obtain ⟨j, hj, h1, h2, h3⟩ := ih (i + 1) s l h
      exact ⟨j + 1, by simpa using hj, by omega, by simpa using h2, by simpa using h3⟩

theorem all_id_eq_ones (bs : List Bool) (h : bs.all id = true) : bs = ones bs.length := by
  unfold ones
  apply List.eq_replicate_iff.mpr
  refine ⟨rfl, fun b hb => ?_⟩
  simpa using List.all_eq_true.mp h b hb

/-- whatever the reference accepts is a canonical stream: codes of the output, then < 8 one-bits -/
theorem rfcHuffBits_sound {T : Tables} (ok : TablesOk T) : ∀ (f : Nat) (bs : List Bool) (out res : List Nat),
    bs.length < f → rfcHuffBits T f bs out = .ok res →
    ∃ syms k, res = out ++ syms ∧ bs = encBits T syms ++ ones k ∧ k < 8 ∧ ∀ x ∈ syms, x < T.codes.length := by
  intro f
  induction f with
  | zero => intro bs out res h; omega
  | succ f ih =>
    intro bs out res hlen h
    unfold rfcHuffBits at h
    cases hm : matchCode bs (T.codes ++ [T.eos]) 0 with
    | none =>
      simp only [hm] at h
      by_cases h8 : bs.length ≥ 8
      · simp [h8] at h
      · simp only [h8, if_false] at h
        by_cases ha : bs.all id = true
        · simp only [ha, if_true, Except.ok.injEq] at h
          exact ⟨[], bs.length, by simp [h], by simpa [encBits] using all_id_eq_ones bs ha, by omega, by simp⟩
        · simp [ha] at h
    | some p =>
      obtain ⟨s, l⟩ := p
      simp only [hm] at h
      by_cases hs : s ≥ T.codes.length
      · simp [hs] at h
      · simp only [hs, if_false] at h
        obtain ⟨j, hj, hsj, hl, hpre⟩ := matchCode_some bs _ 0 s l hm
        have hjs : j = s := by omega
        subst hjs
        have hs' : j < T.codes.length := by omega
        have hcode : (T.codes ++ [T.eos])[j] = T.codes[j] := List.getElem_append_left hs'
        rw [hcode] at hl hpre
        have hne := codes_ne_nil ok j hs'
        have hlpos : 0 < l := by rw [hl]; exact List.length_pos_iff.mpr hne
        obtain ⟨t, ht⟩ := hpre
        have hdrop : bs.drop l = t := by rw [← ht, hl, List.drop_left]
        have hll : l ≤ bs.length := by rw [← ht, hl]; simp
        have hlt : (bs.drop l).length < f := by
          rw [List.length_drop]; omega
        obtain ⟨syms, k, h1, h2, h3, h4⟩ := ih (bs.drop l) (out ++ [j]) res hlt h
        refine ⟨j :: syms, k, by simp [h1], ?_, h3, ?_⟩
        · rw [← ht, ← hdrop, h2]; simp [encBits, symCode_eq T j hs']
        · intro x hx
          rcases List.mem_cons.mp hx with rfl | hx
          · exact hs'
          · exact h4 x hx

/-- on every string the RFC reference accepts, the decoder as coded returns the same octets -/
theorem huffman_agrees_of_rfc_ok {T : Tables} (ok : TablesOk T) (v s : List Nat) (h : rfcHuff T v = .ok s) :
    huffmanDecode T 0 v = .ok s := by
  unfold rfcHuff at h
  obtain ⟨syms, k, h1, h2, h3, h4⟩ := rfcHuffBits_sound ok _ _ [] s (by omega) h
  simp only [List.nil_append] at h1
  subst h1
  exact huffman_canon ok s k h3 h4 v h2

/-- the reference's Huffman decoder only raises Huffman errors -/
theorem rfcHuffBits_err (T : Tables) : ∀ (f : Nat) (bs : List Bool) (out : List Nat) (e : RErr),
    rfcHuffBits T f bs out = .error e → e.isHuff = true := by
  intro f
  induction f with
  | zero => intro bs out e h; simp [rfcHuffBits] at h
  | succ f ih =>
    intro bs out e h
    unfold rfcHuffBits at h
    split at h
    · split at h
      · cases h; rfl
      · exact ih _ _ _ h
    · split at h
      · cases h; rfl
      · split at h
        · cases h
        · cases h; rfl

theorem rfcHuff_err (T : Tables) (v : List Nat) (e : RErr) (h : rfcHuff T v = .error e) : e.isHuff = true :=
  rfcHuffBits_err T _ _ _ e h

/-! ### completeness of the reference on canonical streams -/

theorem matchCode_hit (bs : List Bool) : ∀ (cs : List (List Bool)) (i s : Nat) (hs : s < cs.length),
    cs[s] <+: bs → (∀ j (hj : j < cs.length), j ≠ s → ¬ cs[j] <+: bs) →
    matchCode bs cs i = some (i + s, cs[s].length) := by
  intro cs
  induction cs with
  | nil => intro i s hs; simp at hs
  | cons c cs ih =>
    intro i s hs hpre hothers
    cases s with
    | zero =>
      simp only [List.getElem_cons_zero] at hpre
      simp [matchCode, List.isPrefixOf_iff_prefix.mpr hpre]
    | succ s =>
      have h0 := hothers 0 (by simp) (by omega)
      simp only [List.getElem_cons_zero] at h0
      have h0' : ¬ c.isPrefixOf bs = true := fun h => h0 (List.isPrefixOf_iff_prefix.mp h)
      simp only [matchCode, h0', List.getElem_cons_succ]
      simp only [List.getElem_cons_succ] at hpre
      rw [ih (i + 1) s (by simpa using hs) hpre (fun j hj hjs => by
        have := hothers (j + 1) (by simpa using hj) (by omega)
        simpa using this)]
      have : i + 1 + s = i + (s + 1) := by omega
      rw [this]
      simp

theorem matchCode_none (bs : List Bool) : ∀ (cs : List (List Bool)) (i : Nat),
    (∀ c ∈ cs, ¬ c <+: bs) → matchCode bs cs i = none := by
  intro cs
  induction cs with
  | nil => intro i _; rfl
  | cons c cs ih =>
    intro i h
    have h0 : ¬ c.isPrefixOf bs = true := fun hh => h c (by simp) (List.isPrefixOf_iff_prefix.mp hh)
    simp only [matchCode, h0]
    exact ih (i + 1) (fun d hd => h d (by simp [hd]))

theorem allCodes_noPre {T : Tables} (ok : TablesOk T) (i j : Nat) (hi : i < (allCodes T).length)
    (hj : j < (allCodes T).length) (hij : i ≠ j) : NoPre (allCodes T)[i] (allCodes T)[j] := by
  have := List.pairwise_iff_getElem.mp (pfCheck_pairwise 31 _ ok.pf)
  by_cases h : i < j
  · exact this i j hi hj h
  · have := this j i hj hi (by omega)
    exact ⟨this.2, this.1⟩

theorem ones_prefix (k n : Nat) (h : k ≤ n) : ones k <+: ones n := by
  unfold ones
  exact ⟨List.replicate (n - k) true, by rw [List.replicate_append_replicate]; congr 1; omega⟩

theorem rfcHuffBits_complete {T : Tables} (ok : TablesOk T) (k : Nat) (hk : k < 8) :
    ∀ (syms : List Nat) (f : Nat) (out : List Nat), (∀ x ∈ syms, x < T.codes.length) →
    (encBits T syms ++ ones k).length < f →
    rfcHuffBits T f (encBits T syms ++ ones k) out = .ok (out ++ syms) := by
  have hlenAll : (allCodes T).length = T.codes.length + 1 := by simp [allCodes]
  have heosIdx : (allCodes T)[T.codes.length]'(by omega) = T.eos := by simp [allCodes]
  intro syms
  induction syms with
  | nil =>
    intro f out _ hf
    cases f with
    | zero => omega
    | succ f =>
      simp only [encBits, List.nil_append, List.append_nil]
      rw [rfcHuffBits]
      have hnone : matchCode (ones k) (T.codes ++ [T.eos]) 0 = none := by
        apply matchCode_none
        intro c hc hpre
        obtain ⟨j, hj, rfl⟩ := List.getElem_of_mem hc
        have hj' : j < (allCodes T).length := hj
        by_cases hje : j = T.codes.length
        · subst hje
          have : (T.codes ++ [T.eos])[T.codes.length] = T.eos := heosIdx
          have hpre' : T.eos <+: ones k := by rw [← this]; exact hpre
          rw [ok.eos] at hpre'
          have := hpre'.length_le
          simp [ones] at this; omega
        · have hne := allCodes_noPre ok j T.codes.length hj' (by omega) hje
          rw [heosIdx, ok.eos] at hne
          exact hne.1 (hpre.trans (ones_prefix k 30 (by omega)))
      rw [hnone]
      have h8 : ¬ ((ones k).length ≥ 8) := by rw [length_ones]; omega
      have hall : (ones k).all id = true := by simp [ones]
      simp only [h8, if_false, hall, if_true]
  | cons c syms ih =>
    intro f out hall hf
    cases f with
    | zero => omega
    | succ f =>
      have hcl : c < T.codes.length := hall c (by simp)
      have hsc := symCode_eq T c hcl
      rw [rfcHuffBits]
      have hci : (T.codes ++ [T.eos])[c]'(by simp; omega) = T.codes[c] := List.getElem_append_left hcl
      have hpre : (T.codes ++ [T.eos])[c]'(by simp; omega) <+: encBits T (c :: syms) ++ ones k := by
        rw [hci]; simp only [encBits, hsc, List.append_assoc]; exact List.prefix_append _ _
      have hhit := matchCode_hit (encBits T (c :: syms) ++ ones k) (T.codes ++ [T.eos]) 0 c (by simp; omega) hpre
        (fun j hj hjc hjp => by
          have hne := allCodes_noPre ok j c hj (by rw [hlenAll]; omega) hjc
          rcases List.prefix_or_prefix_of_prefix hjp hpre with h1 | h1
          · exact hne.1 h1
          · exact hne.2 h1)
      rw [hhit]
      simp only [Nat.zero_add]
      have hnge : ¬ (c ≥ T.codes.length) := by omega
      simp only [hnge, if_false, hci]
      have hdrop : List.drop T.codes[c].length (encBits T (c :: syms) ++ ones k) = encBits T syms ++ ones k := by
        simp only [encBits, hsc, List.append_assoc, List.drop_left]
      rw [hdrop, ih f (out ++ [c]) (all_lt_tail hall) ?_]
      · simp
      · have hne := codes_ne_nil ok c hcl
        have hpos : 0 < T.codes[c].length := List.length_pos_iff.mpr hne
        simp only [encBits, hsc, List.length_append] at hf ⊢
        omega

/-- **the fixed `huffmanDecode` accepts exactly what RFC 7541 §5.2 accepts, with the same result** -/
theorem huffman_iff_rfc {T : Tables} (ok : TablesOk T) (v s : List Nat) :
    huffmanDecode T 0 v = .ok s ↔ rfcHuff T v = .ok s := by
  constructor
  · intro h
    obtain ⟨k, hk, hb, hv⟩ := huffman_sound T 0 v s h
    unfold rfcHuff
    rw [hb]
    have := rfcHuffBits_complete ok k hk s ((encBits T s ++ ones k).length + 1) [] hv (by omega)
    simpa using this
  · exact huffman_agrees_of_rfc_ok ok v s

/-- and rejects (ErrInvalidHuffman) exactly what it rejects -/
theorem huffman_err_iff_rfc {T : Tables} (ok : TablesOk T) (v : List Nat) :
    huffmanDecode T 0 v = .error .invalid ↔ ∃ e, rfcHuff T v = .error e := by
  constructor
  · intro h
    cases hr : rfcHuff T v with
    | error e => exact ⟨e, rfl⟩
    | ok s => rw [(huffman_iff_rfc ok v s).mpr hr] at h; cases h
  · rintro ⟨e, he⟩
    cases hg : huffmanDecode T 0 v with
    | error e' => rw [huffman_err0 T v e' hg]
    | ok s => rw [(huffman_iff_rfc ok v s).mp hg] at he; cases he

end BfeVerif.C31
