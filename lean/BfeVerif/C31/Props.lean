import BfeVerif.C31.Proofs
/-!
  C31 — HPACK decoding conforms to RFC 7541.  Property theorems only.
  (After the C31 fix: huffmanDecode carries upstream's nil / `sbits > 7` / EOS-prefix-padding checks.)
-/
namespace BfeVerif.C31
open BfeVerif.C30

/-- the decoder's outcome agrees with the reference: same fields and table when the reference accepts,
    an error (not a panic) when the reference rejects -/
def Agrees (o : Outcome) (r : Except RErr (List HF × DynTab)) : Prop :=
  match r with
  | .ok (fs, t) => o.err = none ∧ o.fields = fs ∧ o.tab = t
  | .error _ => o.err.isSome = true ∧ o.err ≠ some .crash

/-- **C31 at full strength**: for all settings and every way of delivering the block, the decoder agrees with
    RFC 7541.  Proved below for every setting without SetMaxStringLength (`C31_conforms_partial`); with
    SetMaxStringLength it does NOT hold (`C31_not_conforms`, the split-dependent guard of `Write`). -/
def C31_Conforms (T : Tables) : Prop :=
  ∀ (c : Cfg) (chunks : List (List Nat)), Agrees (decodeChunks T c chunks) (rfcDecode T c chunks.flatten)

/-! Facts about the tables extracted on this run (finite, checked by the kernel). -/

theorem C31_table_prefix_free : pfCheck 31 (allCodes T) = true := by decide +kernel
theorem C31_table_pad_ok : padOk T = true := by decide +kernel
theorem C31_table_eos : T.eos = List.replicate 30 true := by decide +kernel
/-- the static table and the 257 Huffman codes are the ones reviewed against RFC 7541 Appendix A / B
    (a changed entry in tables.go changes the digest and re-opens this obligation) -/
theorem C31_table_digests : staticDigest T.static = 2989562081 ∧ codesDigest (allCodes T) = 4143188944 := by
  decide +kernel

theorem C31_tables_ok : TablesOk T := ⟨C31_table_prefix_free, C31_table_pad_ok, C31_table_eos⟩

/-- **Huffman strings conform to RFC 7541 §5.2 (full)**: `huffmanDecode` (byte-wise trie walk, tail loop, final
    checks, as coded) accepts exactly the strings the independent bit-level reference accepts — codes, then at
    most 7 bits of padding that is a prefix of EOS, no EOS — with the same octets … -/
theorem C31_huffman_conforms (v s : List Nat) : huffmanDecode T 0 v = .ok s ↔ rfcHuff T v = .ok s :=
  huffman_iff_rfc C31_tables_ok v s

/-- … and answers ErrInvalidHuffman exactly on the strings the reference rejects (padding > 7 bits, padding not
    a prefix of EOS, EOS inside the string).  The model has no panic outcome left in `huffmanDecode`. -/
theorem C31_huffman_rejects (v : List Nat) : huffmanDecode T 0 v = .error .invalid ↔ ∃ e, rfcHuff T v = .error e :=
  huffman_err_iff_rfc C31_tables_ok v

/-- non-vacuity: `07` is the canonical coding of "0"; the RFC C.4.1 name `www.example.com` -/
example : rfcHuff T [0x07] = .ok [48] := by decide +kernel
example : rfcHuff T [0xf1, 0xe3, 0xc2, 0xe5, 0xf2, 0x3a, 0x6b, 0xa0, 0xab, 0x90, 0xf4, 0xff] =
    .ok [119, 119, 119, 46, 101, 120, 97, 109, 112, 108, 101, 46, 99, 111, 109] := by decide +kernel

/-- index bounds: `Decoder.at` answers exactly for 1 ≤ i ≤ 61 + (dynamic entries) -/
theorem C31_index_bounds (d : Dec) (i : Nat) :
    (d.at T i).isSome = true ↔ 1 ≤ i ∧ i ≤ T.static.length + d.tab.ents.length := by
  unfold Dec.at
  by_cases h1 : i < 1
  · simp [h1]; omega
  · by_cases h2 : i > d.tab.ents.length + T.static.length
    · simp [h1, h2]; omega
    · by_cases h3 : i ≤ T.static.length
      · simp only [h1, h2, h3, if_false, if_true]
        rw [List.getElem?_eq_getElem (by omega)]; simp; omega
      · simp only [h1, h2, h3, if_false]
        rw [List.getElem?_eq_getElem (by omega)]; simp; omega

/-- size updates above the allowed maximum are errors, accepted ones set `maxSize` within it -/
theorem C31_size_update_bound (d d' : Dec) (buf rest : List Nat) (em : Option HF)
    (h : parseDynamicTableSizeUpdate d buf = .ok (d', rest, em)) :
    d'.tab.maxSize ≤ d.allowed ∧ em = none := by
  unfold parseDynamicTableSizeUpdate at h
  cases hr : readVarInt 5 buf with
  | error e => simp [hr] at h
  | ok p =>
    obtain ⟨size, r⟩ := p
    simp only [hr] at h
    by_cases hs : size > d.allowed
    · simp [hs] at h
    · simp only [hs, if_false, Except.ok.injEq, Prod.mk.injEq] at h
      obtain ⟨h1, _, h3⟩ := h
      subst h1
      exact ⟨by simp [DynTab.setMaxSize, DynTab.evict]; omega, h3.symm⟩

def cfg0 : Cfg := { maxSize := 4096, allowed := 4096, maxStr := 0 }

/-! The inputs the unfixed huffmanDecode mishandled (kept in corpus/C31): now decoding errors, as in the reference. -/

/-- name `00 3f ff ff ff` = `'0' '0' EOS` (was: nil dereference, panic) -/
theorem C31_fixed_eos :
    (decodeChunks T cfg0 [[0x00, 0x85, 0x00, 0x3f, 0xff, 0xff, 0xff]]).err = some .huffman ∧
    rfcDecode T cfg0 [0x00, 0x85, 0x00, 0x3f, 0xff, 0xff, 0xff] = .error .huffEos := by
  decide +kernel

/-- name `07 ff` = `'0'` + 11 one-bits, and `ff` = 8 one-bits (were: accepted) -/
theorem C31_fixed_pad_long :
    (decodeChunks T cfg0 [[0x00, 0x82, 0x07, 0xff, 0x00]]).err = some .huffman ∧
    rfcDecode T cfg0 [0x00, 0x82, 0x07, 0xff, 0x00] = .error .huffPadLong ∧
    (decodeChunks T cfg0 [[0x00, 0x81, 0xff, 0x00]]).err = some .huffman := by
  decide +kernel

/-- name `00` = `'0'` + three ZERO bits of padding (was: accepted) -/
theorem C31_fixed_pad_zero :
    (decodeChunks T cfg0 [[0x00, 0x81, 0x00, 0x00]]).err = some .huffman ∧
    rfcDecode T cfg0 [0x00, 0x81, 0x00, 0x00] = .error .huffPadBits := by
  decide +kernel

/-- **C31, block-level conformance for every byte string** (every table setting; SetMaxStringLength not used): the
    decoder as coded agrees with the RFC 7541 reference — same fields (names, values, never-index flags) and same
    final dynamic table when the reference accepts; an error and no panic when it rejects (Huffman padding / EOS
    rules, truncated block, index outside the tables, size update above the allowed maximum, integer with more
    than 9 continuation octets). -/
theorem C31_conforms_whole_partial (c : Cfg) (hc : c.maxStr = 0) (bytes : List Nat) :
    Agrees (decodeChunks T c [bytes]) (rfcDecode T c bytes) := by
  have hd : c.dec.maxStrLen = 0 := hc
  have hrel := rfcBlock_rel C31_tables_ok (bytes.length + 1) c.dec bytes [] hd (by omega)
  have hrd : rfcDecode T c bytes = rfcBlock T c.dec.allowed 0 (bytes.length + 1) c.dec.tab bytes [] := by
    unfold rfcDecode; rw [hc]; rfl
  rw [← hrd] at hrel
  have hfeed : feed T { dec := c.dec } [bytes] =
      (if bytes.length = 0 then (({ dec := c.dec } : DState), none)
       else writeLoop T (bytes.length + 1) c.dec bytes []) := by
    by_cases h0 : bytes.length = 0
    · simp [feed, DState.write, h0]
    · simp only [feed, DState.write, if_neg h0, List.nil_append]
      cases writeLoop T (bytes.length + 1) c.dec bytes [] with
      | mk s e => cases e <;> rfl
  have hw0 : bytes.length = 0 → writeLoop T (bytes.length + 1) c.dec bytes [] = ({ dec := c.dec }, none) := by
    intro h0
    have : bytes = [] := List.eq_nil_of_length_eq_zero h0
    subst this; simp [writeLoop]
  have hfeed' : feed T { dec := c.dec } [bytes] = writeLoop T (bytes.length + 1) c.dec bytes [] := by
    rw [hfeed]; split
    · rename_i h0; rw [hw0 h0]
    · rfl
  unfold Agrees decodeChunks
  rw [hfeed']
  cases hr : rfcDecode T c bytes with
  | ok pr =>
    obtain ⟨fs, t⟩ := pr
    rw [hr] at hrel
    obtain ⟨d', hw, ht⟩ := hrel
    rw [hw]
    simp [DState.close, ht]
  | error e =>
    rw [hr] at hrel
    rcases hrel with ⟨rfl, s, hw, hs⟩ | ⟨hnt, s, hw⟩
    · rw [hw]
      have hpos : s.save.length > 0 := List.length_pos_iff.mpr hs
      simp [DState.close, hpos]
    · rw [hw]
      simp only []
      refine ⟨rfl, ?_⟩
      cases e <;> simp [toD]

/-- **split invariance, partial (SetMaxStringLength not used)**: for every table setting and every way of cutting
    the block into `Write` calls (empty chunks included), the fields emitted, the error (if any) and the
    final dynamic table are those of one `Write` of the whole block. -/
theorem C31_split_invariant_partial (c : Cfg) (hc : c.maxStr = 0) (chunks : List (List Nat)) :
    decodeChunks T c chunks = decodeChunks T c [chunks.flatten] := by
  have h0 : writeLoop T 1 c.dec [] [] = ({ dec := c.dec }, none) := by simp [writeLoop]
  have hd : c.dec.maxStrLen = 0 := hc
  have e1 := feed_eq T chunks { dec := c.dec } 1 c.dec [] [] hd (by simp) h0
  have e2 := feed_eq T [chunks.flatten] { dec := c.dec } 1 c.dec [] [] hd (by simp) h0
  unfold decodeChunks
  rw [e1, e2]
  simp

/-- **C31 for every setting without SetMaxStringLength**: all byte strings, all table settings, every split
    delivery — the statement of `C31_Conforms` restricted to `maxStr = 0`. -/
theorem C31_conforms_partial (c : Cfg) (hc : c.maxStr = 0) (chunks : List (List Nat)) :
    Agrees (decodeChunks T c chunks) (rfcDecode T c chunks.flatten) := by
  rw [C31_split_invariant_partial c hc chunks]
  exact C31_conforms_whole_partial c hc chunks.flatten

/-- **split invariance at full strength** (does NOT hold when SetMaxStringLength is used, witness below;
    for maxStr = 0 it is `C31_split_invariant_partial`) -/
def C31_SplitInvariant (T : Tables) : Prop :=
  ∀ (c : Cfg) (chunks : List (List Nat)), decodeChunks T c chunks = decodeChunks T c [chunks.flatten]

def vi127 : List Nat := [127, 128, 128, 128, 128, 128, 128, 128, 128, 0]
def splitBlk : List Nat := [0] ++ vi127 ++ List.replicate 127 97 ++ vi127 ++ List.replicate 127 97
def cfg127 : Cfg := { maxSize := 4096, allowed := 4096, maxStr := 127 }

/-- a valid 275-octet literal field is accepted in one Write (and by the reference) but rejected (ErrStringLength)
    when its last octet arrives in a second Write: the `len(buf) > 2*(maxStrLen+8)` guard fires on the incomplete
    buffer (known finding `split-differs`) -/
theorem C31_witness_split_differs :
    (decodeChunks T cfg127 [splitBlk]).err = none ∧
    (decodeChunks T cfg127 [splitBlk.take 274, splitBlk.drop 274]).err = some .strLen ∧
    (rfcDecode T cfg127 splitBlk).toOption.isSome = true := by
  decide +kernel

theorem C31_not_split_invariant : ¬ C31_SplitInvariant T := by
  intro h
  have h1 := h cfg127 [splitBlk.take 274, splitBlk.drop 274]
  have hf : [splitBlk.take 274, splitBlk.drop 274].flatten = splitBlk := by
    simp only [List.flatten_cons, List.flatten_nil, List.append_nil, List.take_append_drop]
  rw [hf] at h1
  have hw := C31_witness_split_differs
  rw [h1] at hw
  rw [hw.1] at hw
  exact absurd hw.2.1 (by simp)

theorem C31_not_conforms_of (T : Tables) (c : Cfg) (chunks : List (List Nat)) (e : DErr)
    (h1 : (decodeChunks T c chunks).err = some e) (h2 : (rfcDecode T c chunks.flatten).toOption.isSome = true) :
    ¬ C31_Conforms T := by
  intro h
  have h3 := h c chunks
  unfold Agrees at h3
  cases hr : rfcDecode T c chunks.flatten with
  | error e' => rw [hr] at h2; simp [Except.toOption] at h2
  | ok p => rw [hr] at h3; simp only [] at h3; rw [h1] at h3; exact absurd h3.1 (by simp)

theorem C31_witness_split_ref :
    (rfcDecode T cfg127 [splitBlk.take 274, splitBlk.drop 274].flatten).toOption.isSome = true := by
  decide +kernel

/-- hence the full-strength statement (all settings) is false: with SetMaxStringLength the split delivery errors
    on a block the reference accepts -/
theorem C31_not_conforms : ¬ C31_Conforms T :=
  C31_not_conforms_of T cfg127 _ _ C31_witness_split_differs.2.1 C31_witness_split_ref

/-! ### hardening round: the driver's loop, RFC 7541 §4.2 -/

/-- the loop the driver runs for every case (`writeLoopE`, with the emit callback of bfe_http2/frame.go) is, for the
    plain callback, the loop of the theorems above: same fields, same error, same final table -/
theorem C31_plain_callback_is_model (c : Cfg) (chunks : List (List Nat)) :
    (decodeChunksE T c .none chunks).fields = (decodeChunks T c chunks).fields ∧
    (decodeChunksE T c .none chunks).err.bind EErr.toD = (decodeChunks T c chunks).err ∧
    (decodeChunksE T c .none chunks).tab = (decodeChunks T c chunks).tab :=
  decodeChunksE_none T c chunks

/-- **RFC 7541 §4.2 at full strength**: a block with a dynamic table size update after a field representation is
    a decoding error.  NOT enforced by the code (known finding `accepted-size-update-after-field`). -/
def C31_UpdateFirst (T : Tables) : Prop :=
  ∀ (c : Cfg) (bytes : List Nat), rfcUpdateAfterField T c bytes = true → (decodeChunks T c [bytes]).err.isSome = true

/-- `82 20` = indexed field `:method GET`, then "table size := 0" in the middle of the block: accepted -/
theorem C31_witness_update_after_field :
    rfcUpdateAfterField T cfg0 [0x82, 0x20] = true ∧ (decodeChunks T cfg0 [[0x82, 0x20]]).err = none ∧
    (decodeChunks T cfg0 [[0x82, 0x20]]).tab.maxSize = 0 := by
  decide +kernel

theorem C31_not_update_first : ¬ C31_UpdateFirst T := by
  intro h
  have h1 := h cfg0 [0x82, 0x20] C31_witness_update_after_field.1
  rw [C31_witness_update_after_field.2.1] at h1
  cases h1

end BfeVerif.C31
