import BfeVerif.C31.Proofs
/-!
  C31 — HPACK decoding conforms to RFC 7541.  Property theorems only.
-/
namespace BfeVerif.C31
open BfeVerif.C30

/-- the decoder's outcome agrees with the reference: same fields and table when the reference accepts,
    an error (not a panic) when the reference rejects -/
def Agrees (o : Outcome) (r : Except RErr (List HF × DynTab)) : Prop :=
  match r with
  | .ok (fs, t) => o.err = none ∧ o.fields = fs ∧ o.tab = t
  | .error _ => o.err.isSome = true ∧ o.err ≠ some .crash

/-- **C31 at full strength** (does NOT hold for the unchanged code, see the witnesses below):
    for all settings and every way of delivering the block, the decoder agrees with RFC 7541. -/
def C31_Conforms (T : Tables) : Prop :=
  ∀ (c : Cfg) (chunks : List (List Nat)), Agrees (decodeChunks T c chunks) (rfcDecode T c chunks.flatten)

theorem C31_not_conforms_of_crash (T : Tables) (c : Cfg) (chunks : List (List Nat))
    (hc : (decodeChunks T c chunks).err = some .crash) : ¬ C31_Conforms T := by
  intro h
  have h1 := h c chunks
  unfold Agrees at h1
  cases hr : rfcDecode T c chunks.flatten with
  | ok p => rw [hr] at h1; simp only [] at h1; rw [hc] at h1; exact absurd h1.1 (by simp)
  | error e => rw [hr] at h1; exact h1.2 hc

/-! Facts about the tables extracted on this run (finite, checked by the kernel). -/

theorem C31_table_prefix_free : pfCheck 31 (allCodes T) = true := by decide +kernel
theorem C31_table_pad_ok : padOk T = true := by decide +kernel
theorem C31_table_eos : T.eos = List.replicate 30 true := by decide +kernel
/-- the static table and the 257 Huffman codes are the ones reviewed against RFC 7541 Appendix A / B
    (a changed entry in tables.go changes the digest and re-opens this obligation) -/
theorem C31_table_digests : staticDigest T.static = 2989562081 ∧ codesDigest (allCodes T) = 4143188944 := by
  decide +kernel

theorem C31_tables_ok : TablesOk T := ⟨C31_table_prefix_free, C31_table_pad_ok, C31_table_eos⟩

/-- **Huffman strings, partial conformance**: on every string the RFC 7541 §5.2 reference accepts
    (codes, then at most 7 bits of EOS-prefix padding, no EOS), `huffmanDecode` returns the same octets. -/
theorem C31_huffman_conforms_partial (v s : List Nat) (h : rfcHuff T v = .ok s) :
    huffmanDecode T 0 v = .ok s :=
  huffman_agrees_of_rfc_ok C31_tables_ok v s h

/-- non-vacuity: `07` is the canonical coding of "0"; the RFC C.4.1 name `www.example.com` -/
example : rfcHuff T [0x07] = .ok [48] := by decide +kernel
example : rfcHuff T [0xf1, 0xe3, 0xc2, 0xe5, 0xf2, 0x3a, 0x6b, 0xa0, 0xab, 0x90, 0xf4, 0xff] =
    .ok [119, 119, 119, 46, 101, 120, 97, 109, 112, 108, 101, 46, 99, 111, 109] := by decide +kernel

/-- consequently every error (and every panic) of `huffmanDecode` is on a string the RFC rejects:
    no spurious Huffman errors -/
theorem C31_huffman_error_sound_partial (v : List Nat) (e : HErr) (h : huffmanDecode T 0 v = .error e) :
    ∃ e', rfcHuff T v = .error e' := by
  cases hr : rfcHuff T v with
  | error e' => exact ⟨e', rfl⟩
  | ok s => rw [C31_huffman_conforms_partial v s hr] at h; cases h

/-- index bounds: `Decoder.at` answers exactly for 1 ≤ i ≤ 61 + (dynamic entries) -/
theorem C31_index_bounds (d : Dec) (i : Nat) :
    (d.at T i).isSome = true ↔ 1 ≤ i ∧ i ≤ T.static.length + d.tab.ents.length := by
  unfold Dec.at
  by_cases h1 : i < 1
  · simp [h1]; omega
  · by_cases h2 : i > d.tab.ents.length + T.static.length
    · simp [h1, h2]; omega
    · by_cases h3 : i ≤ T.static.length
      · simp only [h1, h2, h3, if_false, if_true]
        rw [List.getElem?_eq_getElem (by omega)]; simp; omega
      · simp only [h1, h2, h3, if_false]
        rw [List.getElem?_eq_getElem (by omega)]; simp; omega

/-- size updates above the allowed maximum are errors, accepted ones set `maxSize` within it -/
theorem C31_size_update_bound (d d' : Dec) (buf rest : List Nat) (em : Option HF)
    (h : parseDynamicTableSizeUpdate d buf = .ok (d', rest, em)) :
    d'.tab.maxSize ≤ d.allowed ∧ em = none := by
  unfold parseDynamicTableSizeUpdate at h
  cases hr : readVarInt 5 buf with
  | error e => simp [hr] at h
  | ok p =>
    obtain ⟨size, r⟩ := p
    simp only [hr] at h
    by_cases hs : size > d.allowed
    · simp [hs] at h
    · simp only [hs, if_false, Except.ok.injEq, Prod.mk.injEq] at h
      obtain ⟨h1, _, h3⟩ := h
      subst h1
      exact ⟨by simp [DynTab.setMaxSize, DynTab.evict]; omega, h3.symm⟩

def cfg0 : Cfg := { maxSize := 4096, allowed := 4096, maxStr := 0 }

/-- literal field whose Huffman-coded name is `'0' '0' EOS` (`00 3f ff ff ff`): the tail loop of
    huffmanDecode follows a nil child — a panic — where RFC 7541 §5.2 demands a decoding error -/
theorem C31_witness_eos_panic :
    (decodeChunks T cfg0 [[0x00, 0x85, 0x00, 0x3f, 0xff, 0xff, 0xff]]).err = some .crash ∧
    rfcDecode T cfg0 [0x00, 0x85, 0x00, 0x3f, 0xff, 0xff, 0xff] = .error .huffEos := by
  decide +kernel

/-- name `07 ff` = `'0'` followed by 11 one-bits of padding: accepted (RFC: padding > 7 bits is an error) -/
theorem C31_witness_pad_long :
    (decodeChunks T cfg0 [[0x00, 0x82, 0x07, 0xff, 0x00]]).err = none ∧
    (decodeChunks T cfg0 [[0x00, 0x82, 0x07, 0xff, 0x00]]).fields = [{ name := [48], value := [] }] ∧
    rfcDecode T cfg0 [0x00, 0x82, 0x07, 0xff, 0x00] = .error .huffPadLong := by
  decide +kernel

/-- name `00` = `'0'` followed by three ZERO bits of padding: accepted (RFC: padding must be the MSBs of EOS) -/
theorem C31_witness_pad_zero :
    (decodeChunks T cfg0 [[0x00, 0x81, 0x00, 0x00]]).err = none ∧
    rfcDecode T cfg0 [0x00, 0x81, 0x00, 0x00] = .error .huffPadBits := by
  decide +kernel

/-- name `ff` = 8 bits of padding and no symbol: accepted as the empty name -/
theorem C31_witness_pad_eight :
    (decodeChunks T cfg0 [[0x00, 0x81, 0xff, 0x00]]).err = none ∧
    rfcDecode T cfg0 [0x00, 0x81, 0xff, 0x00] = .error .huffPadLong := by
  decide +kernel

/-- **split invariance at full strength** (does NOT hold when SetMaxStringLength is used, witness below;
    for maxStr = 0 it is exercised by the correspondence run at every split point, not proved) -/
def C31_SplitInvariant (T : Tables) : Prop :=
  ∀ (c : Cfg) (chunks : List (List Nat)), decodeChunks T c chunks = decodeChunks T c [chunks.flatten]

def vi127 : List Nat := [127, 128, 128, 128, 128, 128, 128, 128, 128, 0]
def splitBlk : List Nat := [0] ++ vi127 ++ List.replicate 127 97 ++ vi127 ++ List.replicate 127 97
def cfg127 : Cfg := { maxSize := 4096, allowed := 4096, maxStr := 127 }

/-- a valid 275-octet literal field is accepted in one Write but rejected (ErrStringLength) when its last
    octet arrives in a second Write: the `len(buf) > 2*(maxStrLen+8)` guard fires on the incomplete buffer -/
theorem C31_witness_split_differs :
    (decodeChunks T cfg127 [splitBlk]).err = none ∧
    (decodeChunks T cfg127 [splitBlk.take 274, splitBlk.drop 274]).err = some .strLen := by
  decide +kernel

theorem C31_not_split_invariant : ¬ C31_SplitInvariant T := by
  intro h
  have h1 := h cfg127 [splitBlk.take 274, splitBlk.drop 274]
  have hf : [splitBlk.take 274, splitBlk.drop 274].flatten = splitBlk := by
    simp only [List.flatten_cons, List.flatten_nil, List.append_nil, List.take_append_drop]
  rw [hf] at h1
  have hw := C31_witness_split_differs
  rw [h1] at hw
  rw [hw.1] at hw
  exact absurd hw.2 (by simp)

/-- hence the full-strength statement is false for the tables of the current tree -/
theorem C31_not_conforms : ¬ C31_Conforms T :=
  C31_not_conforms_of_crash T cfg0 _ C31_witness_eos_panic.1

end BfeVerif.C31
