import BfeVerif.Common.Proto
import BfeVerif.C31.Model
/-!
  C31 driver.
  op     = `M=<maxSize>,A=<allowed>,S=<maxStrLen>[,E=<-|q|d<k>|x<k>>];<chunk hex>,<chunk hex>,…`
           E = behaviour of the emit callback: `-` plain, `q` SetEmitEnabled(false) before the first Write,
           `d<k>` SetEmitEnabled(false) inside its k-th call (field dropped), `x<k>` returns an error at its k-th call
  result = `W:<outcome>#S:<outcome>#B:<outcome>#D:<F…|E…>` : the whole block in one Write / the chunks one Write each /
           one octet per Write, each followed by Close; D = DecodeFull (plain callback only, else `-`).
           outcome = `F<name:value:s,…>|Enone|T<n>,<size>,<max>,<hash>|N<n₁.n₂.…>`  or  `F<…>|E<err>|N<…>`  or  `PANIC`
           (N = the counts returned by the Write calls; input buffers are overwritten after each Write and the
           fields are rendered after Close)
-/
namespace BfeVerif.C31
open BfeVerif.Proto BfeVerif.C30

def hexN (l : List Nat) : String := hexField (l.map fun b => UInt8.ofNat b)
def unhexN (s : String) : Option (List Nat) := (bytesOfHex s).map fun l => l.map fun b => b.toNat

def renderHF (f : HF) : String := hexN f.name ++ ":" ++ hexN f.value ++ ":" ++ (if f.sensitive then "1" else "0")
def renderFields (fs : List HF) : String := if fs.isEmpty then "-" else ",".intercalate (fs.map renderHF)

def renderErr : Option DErr → String
  | none => "none"
  | some .needMore => "err:truncated"
  | some .overflow => "err:varint"
  | some .invalidIndex => "err:index"
  | some .sizeTooLarge => "err:size"
  | some .huffman => "err:huffman"
  | some .strLen => "err:strlen"
  | some .crash => "PANIC"

def tabHash (t : DynTab) : Nat :=
  t.ents.foldl (fun h e =>
    let h := e.name.foldl (fun h b => (h * 131 + b + 1) % 4294967296) h
    let h := (h * 131) % 4294967296
    let h := e.value.foldl (fun h b => (h * 131 + b + 1) % 4294967296) h
    (h * 131) % 4294967296) 0

def renderTab (t : DynTab) : String := s!"{t.ents.length},{t.size},{t.maxSize},{tabHash t}"

def renderEErr : Option EErr → String
  | none => "none"
  | some (.dec e) => renderErr (some e)
  | some .emit => "err:emit"

def renderNs (ns : List Nat) : String := if ns.isEmpty then "-" else ".".intercalate (ns.map toString)

/-- outcome without the N part -/
def renderCore (o : OutcomeE) : String :=
  if o.err.isSome then "F" ++ renderFields o.fields ++ "|E" ++ renderEErr o.err   -- the connection is dead: table not observed
  else "F" ++ renderFields o.fields ++ "|Enone|T" ++ renderTab o.tab

def renderOutcomeE (o : OutcomeE) : String :=
  if o.err = some (.dec .crash) then "PANIC" else renderCore o ++ "|N" ++ renderNs o.ns

def rerrName : RErr → String
  | .truncated => "truncated" | .varint => "varint" | .index => "index" | .size => "size" | .strlen => "strlen"
  | .huffEos => "huff-eos" | .huffPadLong => "huff-pad-long" | .huffPadBits => "huff-pad-bits"

def parseMode (s : String) : Option EMode :=
  if s == "-" then some .none
  else if s == "q" then some .quiet
  else if s.startsWith "d" then ((s.drop 1).toString.toNat?).map .disableAt
  else if s.startsWith "x" then ((s.drop 1).toString.toNat?).map .failAt
  else none

def parseCfg (s : String) : Option (Cfg × EMode) :=
  match (s.splitOn ",").map (fun kv => kv.splitOn "=") with
  | [["M", m], ["A", a], ["S", st]] =>
    match m.toNat?, a.toNat?, st.toNat? with
    | some m, some a, some st => some ({ maxSize := m, allowed := a, maxStr := st }, .none)
    | _, _, _ => none
  | [["M", m], ["A", a], ["S", st], ["E", e]] =>
    match m.toNat?, a.toNat?, st.toNat?, parseMode e with
    | some m, some a, some st, some e => some ({ maxSize := m, allowed := a, maxStr := st }, e)
    | _, _, _, _ => none
  | _ => none

/-- core (without `|N…`) and the N list of an implementation outcome -/
def splitN (o : String) : String × List String :=
  match o.splitOn "|N" with
  | [c, n] => (c, if n == "-" then [] else n.splitOn ".")
  | _ => (o, [])

def hasErr (core : String) : Bool := !((core.splitOn "|E").getD 1 "").startsWith "none"

/-- what the property demands of the one-Write delivery, judged on the implementation's output -/
def judgeWhole (mode : EMode) (ref : Except RErr (List HF × DynTab)) (strictViol : Bool) (w : String) : String :=
  let refName := match ref with | .ok _ => "valid" | .error e => rerrName e
  let isHuff := match ref with | .error e => e.isHuff | .ok _ => false
  if w == "PANIC" then (if isHuff then "FAIL:panic-huffman" else "FAIL:panic-" ++ refName)
  else
    let wErr := hasErr w
    match ref with
    | .error e =>
      if wErr then "ok"
      else if (e.isHuff ∨ e = .strlen) ∧ mode != .none then "ok"   -- strings of non-indexed fields are skipped (not
                                                                    -- decoded, so not measured) while emission is off
      else "FAIL:accepted-" ++ rerrName e
    | .ok (fs, t) =>
      match mode with
      | .none =>
        if strictViol then (if wErr then "ok" else "FAIL:accepted-size-update-after-field")
        else if w == "F" ++ renderFields fs ++ "|Enone|T" ++ renderTab t then "ok"
        else if wErr then "FAIL:spurious-error" else "FAIL:fields-differ"
      | .quiet =>
        if w == "F-|Enone|T" ++ renderTab t then "ok" else if wErr then "FAIL:spurious-error" else "FAIL:quiet-differs"
      | .disableAt k =>
        if w == "F" ++ renderFields (fs.take k) ++ "|Enone|T" ++ renderTab t then "ok"
        else if wErr then "FAIL:spurious-error" else "FAIL:disable-differs"
      | .failAt k =>
        if fs.length > k then
          (if w == "F" ++ renderFields (fs.take k) ++ "|Eerr:emit" then "ok" else "FAIL:emit-error-lost")
        else if w == "F" ++ renderFields fs ++ "|Enone|T" ++ renderTab t then "ok"
        else if wErr then "FAIL:spurious-error" else "FAIL:fields-differ"

/-- the counts returned by Write: the chunk length, except 0 for an empty chunk and for the errNeedMore guard -/
def judgeNs (chunks : List (List Nat)) (core : String) (ns : List String) : Bool :=
  let exp := chunks.map fun c => toString c.length
  let k := ns.length
  if hasErr core ∧ !core.endsWith "err:truncated" then
    k ≥ 1 ∧ k ≤ exp.length ∧ ns.take (k - 1) == exp.take (k - 1) ∧
      (ns.getD (k - 1) "?" == exp.getD (k - 1) "!" ∨ (ns.getD (k - 1) "?" == "0" ∧ core.endsWith "err:strlen"))
  else ns == exp

def judgeDelivery (cfg : Cfg) (tag : String) (chunks : List (List Nat)) (wcore : String) (o : String) : String :=
  if o == "PANIC" then "FAIL:panic-" ++ tag
  else
    let (core, ns) := splitN o
    if core != wcore then
      (if cfg.maxStr ≠ 0 ∧ core.endsWith "err:strlen" ∧ ns.getLast? == some "0" ∧ !hasErr wcore then "FAIL:split-strlen-guard"
       else "FAIL:split-differs")
    else if !judgeNs chunks core ns then "FAIL:write-count"
    else "ok"

def firstFail (l : List String) : String := (l.find? (· != "ok")).getD "ok"

def run (op impl : String) : Ans :=
  match op.splitOn ";" with
  | [c, ch] =>
    match parseCfg c, (ch.splitOn ",").map unhexN with
    | some (cfg, mode), chunks =>
      if !chunks.all Option.isSome then { model := "bad-op", verdict := "skip" } else
      let chunks := chunks.filterMap id
      let whole := chunks.foldl (· ++ ·) []
      let bytewise := whole.map fun b => [b]
      let mw := decodeChunksE T cfg mode [whole]
      let ms := decodeChunksE T cfg mode chunks
      let mb := decodeChunksE T cfg mode bytewise
      let md := if mode == .none then
          "F" ++ renderFields (if mw.err.isSome then [] else mw.fields) ++ "|E" ++ renderEErr mw.err else "-"
      let m := "W:" ++ renderOutcomeE mw ++ "#S:" ++ renderOutcomeE ms ++ "#B:" ++ renderOutcomeE mb ++ "#D:" ++ md
      let ref := rfcDecode T cfg whole
      let strictViol := rfcUpdateAfterField T cfg whole
      let parts := impl.splitOn "#"
      let get := fun (pre : String) => ((parts.find? (·.startsWith pre)).map fun x => (x.drop pre.length).toString).getD "?"
      let (wcore, wns) := splitN (get "W:")
      let v1 := judgeWhole mode ref strictViol (if get "W:" == "PANIC" then "PANIC" else wcore)
      let v2 := if get "W:" == "PANIC" then "ok" else if judgeNs [whole] wcore wns then "ok" else "FAIL:write-count"
      let v3 := judgeDelivery cfg "split" chunks wcore (get "S:")
      let v4 := judgeDelivery cfg "bytewise" bytewise wcore (get "B:")
      let v5 := if mode != .none then "ok"
        else
          let d := get "D:"
          let expD := if hasErr wcore then "F-|E" ++ ((wcore.splitOn "|E").getD 1 "") else (wcore.splitOn "|T").getD 0 ""
          if d == expD then "ok" else "FAIL:decodefull-differs"
      let refTag := match ref with | .ok _ => "r-ok" | .error e => "r-" ++ rerrName e
      let nfields := match ref with | .ok (fs, _) => fs.length | .error _ => mw.fields.length
      { model := m, verdict := firstFail [v1, v2, v3, v4, v5],
        tags := [refTag] ++ (if chunks.length > 1 then ["split"] else []) ++
          (if cfg.maxStr ≠ 0 then ["maxstr"] else []) ++
          (match mode with | .none => [] | .quiet => ["emit-q"] | .disableAt _ => ["emit-d"] | .failAt _ => ["emit-x"]) ++
          (if strictViol then ["upd-after-field"] else []) ++
          (if mw.tab.ents.length > 0 then ["dyn"] else []) ++
          (if nfields ≥ 1 then ["nt"] else []) }
    | _, _ => { model := "bad-op", verdict := "skip" }
  | _ => { model := "bad-op", verdict := "skip" }

end BfeVerif.C31
