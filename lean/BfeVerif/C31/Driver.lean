import BfeVerif.Common.Proto
import BfeVerif.C31.Model
/-!
  C31 driver.
  op     = `M=<maxSize>,A=<allowed>,S=<maxStrLen>;<chunk hex>,<chunk hex>,…`
  result = `W:<outcome>#S:<outcome>` : the whole block in one Write / the chunks one Write each, then Close.
           outcome = `F<name:value:s,…>|Enone|T<n>,<size>,<max>,<hash>`  or  `F<…>|E<err>`  or  `PANIC`
-/
namespace BfeVerif.C31
open BfeVerif.Proto BfeVerif.C30

def hexN (l : List Nat) : String := hexField (l.map fun b => UInt8.ofNat b)
def unhexN (s : String) : Option (List Nat) := (bytesOfHex s).map fun l => l.map fun b => b.toNat

def renderHF (f : HF) : String := hexN f.name ++ ":" ++ hexN f.value ++ ":" ++ (if f.sensitive then "1" else "0")
def renderFields (fs : List HF) : String := if fs.isEmpty then "-" else ",".intercalate (fs.map renderHF)

def renderErr : Option DErr → String
  | none => "none"
  | some .needMore => "err:truncated"
  | some .overflow => "err:varint"
  | some .invalidIndex => "err:index"
  | some .sizeTooLarge => "err:size"
  | some .huffman => "err:huffman"
  | some .strLen => "err:strlen"
  | some .crash => "PANIC"

def tabHash (t : DynTab) : Nat :=
  t.ents.foldl (fun h e =>
    let h := e.name.foldl (fun h b => (h * 131 + b + 1) % 4294967296) h
    let h := (h * 131) % 4294967296
    let h := e.value.foldl (fun h b => (h * 131 + b + 1) % 4294967296) h
    (h * 131) % 4294967296) 0

def renderTab (t : DynTab) : String := s!"{t.ents.length},{t.size},{t.maxSize},{tabHash t}"

def renderOutcome (o : Outcome) : String :=
  if o.err = some .crash then "PANIC"
  else if o.err.isSome then "F" ++ renderFields o.fields ++ "|E" ++ renderErr o.err   -- the connection is dead: table not observed
  else "F" ++ renderFields o.fields ++ "|E" ++ renderErr o.err ++ "|T" ++ renderTab o.tab

def rerrName : RErr → String
  | .truncated => "truncated" | .varint => "varint" | .index => "index" | .size => "size" | .strlen => "strlen"
  | .huffEos => "huff-eos" | .huffPadLong => "huff-pad-long" | .huffPadBits => "huff-pad-bits"

def parseCfg (s : String) : Option Cfg :=
  match (s.splitOn ",").map (fun kv => kv.splitOn "=") with
  | [["M", m], ["A", a], ["S", st]] =>
    match m.toNat?, a.toNat?, st.toNat? with
    | some m, some a, some st => some { maxSize := m, allowed := a, maxStr := st }
    | _, _, _ => none
  | _ => none

/-- spec oracle on the implementation's two outcomes -/
def judge (ref : Except RErr (List HF × DynTab)) (w s : String) : String :=
  let refName := match ref with | .ok _ => "valid" | .error e => rerrName e
  let isHuff := match ref with | .error e => e.isHuff | .ok _ => false
  if w == "PANIC" then (if isHuff then "FAIL:panic-huffman" else "FAIL:panic-" ++ refName)
  else
    let wErr := !((w.splitOn "|E").getD 1 "").startsWith "none"
    let first :=
      match ref with
      | .ok (fs, t) =>
        if w == "F" ++ renderFields fs ++ "|Enone|T" ++ renderTab t then "ok"
        else if wErr then "FAIL:spurious-error" else "FAIL:fields-differ"
      | .error e => if wErr then "ok" else "FAIL:accepted-" ++ rerrName e
    if first != "ok" then first
    else if s == "PANIC" then "FAIL:panic-split-" ++ refName
    else if s != w then "FAIL:split-differs"
    else "ok"

def run (op impl : String) : Ans :=
  match op.splitOn ";" with
  | [c, ch] =>
    match parseCfg c, (ch.splitOn ",").map unhexN with
    | some cfg, chunks =>
      if !chunks.all Option.isSome then { model := "bad-op", verdict := "skip" } else
      let chunks := chunks.filterMap id
      let whole := chunks.foldl (· ++ ·) []
      let mw := decodeChunks T cfg [whole]
      let ms := decodeChunks T cfg chunks
      let m := "W:" ++ renderOutcome mw ++ "#S:" ++ renderOutcome ms
      let ref := rfcDecode T cfg whole
      let (w, s) := match impl.splitOn "#S:" with
        | [w, s] => ((w.drop 2).toString, s)
        | _ => ("?", "?")
      let refTag := match ref with | .ok _ => "r-ok" | .error e => "r-" ++ rerrName e
      let hasHuff := whole.length > 0  -- refined below by the outcome tags
      let nfields := match ref with | .ok (fs, _) => fs.length | .error _ => mw.fields.length
      { model := m, verdict := judge ref w s,
        tags := [refTag] ++ (if chunks.length > 1 then ["split"] else []) ++
          (if cfg.maxStr ≠ 0 then ["maxstr"] else []) ++
          (if mw.tab.ents.length > 0 then ["dyn"] else []) ++
          (if hasHuff ∧ nfields ≥ 1 then ["nt"] else []) }
    | _, _ => { model := "bad-op", verdict := "skip" }
  | _ => { model := "bad-op", verdict := "skip" }

end BfeVerif.C31
