/-
  C04 — model of weighted-least-connection selection (bfe_balance/bal_slb/bal_rr.go).
  Core-only.  Mirrors the Go code:

    compLCWeight(a,b):  ret := a.conn*b.weight - b.conn*a.weight ; sign(ret)
    leastConnsBalance(backs):
        pass 1: walk in list order, skip `!Avail() || weight <= 0`; first eligible becomes `best`;
                ret := compLCWeight(best, x): ret>0 -> best=x, single=true ; ret==0 -> single=false
        best==nil -> error "all backend is down"
        single    -> [best]
        pass 2: all eligible x (list order) with compLCWeight(best,x)==0
    leastConnsSmoothBalance: 1 candidate -> it ; else smoothBalance(candidates)
    leastConnsSimpleBalance: 1 candidate -> it ; else randomBalance: empty list -> error, else candidates[rand.Int() % len]
    smoothBalance(backs): walk, skip ineligible; keep first strict maximum of `current`
        (`best == nil || current > max`); total += current; current += weight; finally best.current -= total

  Go `int` is modelled as `Int` (no wrap-around: see assumptions in checks/C04.json).
  `rand.Int()` is the oracle parameter `n`.
-/
namespace BfeVerif.C04

structure B where
  w : Int       -- BackendRR.weight
  cur : Int     -- BackendRR.current
  conn : Int    -- BfeBackend.connNum
  avail : Bool  -- BfeBackend.avail
deriving Repr, DecidableEq

/-- the negation of the skip test `!backend.Avail() || backendRR.weight <= 0` -/
def elig (b : B) : Bool := b.avail && decide (0 < b.w)

/-- `compLCWeight` -/
def compLC (a b : B) : Int :=
  let ret := a.conn * b.w - b.conn * a.w
  if ret > 0 then 1 else if ret = 0 then 0 else -1

/-- list with positions, `(index, backend)` -/
def enum (bs : List B) : List (Nat × B) := bs.zipIdx.map fun p => (p.2, p.1)

/-- first pass of `leastConnsBalance`; state = (`best`, `singleBackend`) -/
def pass1 : List (Nat × B) → Option (Nat × B) × Bool → Option (Nat × B) × Bool
  | [], st => st
  | x :: rest, (best, single) =>
    if !elig x.2 then pass1 rest (best, single)
    else
      match best with
      | none => pass1 rest (some x, true)
      | some bb =>
        let ret := compLC bb.2 x.2
        if ret > 0 then pass1 rest (some x, true)
        else if ret = 0 then pass1 rest (some bb, false)
        else pass1 rest (some bb, single)

/-- second pass: every eligible backend that compares equal to `best` -/
def pass2 (best : B) (en : List (Nat × B)) : List Nat :=
  (en.filter fun x => elig x.2 && decide (compLC best x.2 = 0)).map (·.1)

/-- `leastConnsBalance` on an enumerated list: `none` = error "all backend is down" -/
def leastConnsE (en : List (Nat × B)) : Option (List Nat) :=
  match pass1 en (none, true) with
  | (none, _) => none
  | (some bb, true) => some [bb.1]
  | (some bb, false) => some (pass2 bb.2 en)

def leastConns (bs : List B) : Option (List Nat) := leastConnsE (enum bs)

/-- the loop of `smoothBalance` restricted to the backends whose index satisfies `sel`
    (the candidate list is a sub-list, in list order, of the same `*BackendRR` objects).
    Returns (best, total, list with `current += weight` applied). -/
def smoothLoop (sel : Nat → Bool) : List (Nat × B) → Option Nat → Int → Int → Option Nat × Int × List B
  | [], best, _, total => (best, total, [])
  | x :: rest, best, max, total =>
    if !(sel x.1) || !elig x.2 then
      let r := smoothLoop sel rest best max total
      (r.1, r.2.1, x.2 :: r.2.2)
    else
      let bm : Option Nat × Int := if best.isNone || x.2.cur > max then (some x.1, x.2.cur) else (best, max)
      let r := smoothLoop sel rest bm.1 bm.2 (total + x.2.cur)
      (r.1, r.2.1, { x.2 with cur := x.2.cur + x.2.w } :: r.2.2)

def modAt (l : List B) (i : Nat) (f : B → B) : List B :=
  (l.zipIdx).map fun p => if p.2 = i then f p.1 else p.1

/-- `smoothBalance(candidates)`: (chosen index or error, new state) -/
def smooth (bs : List B) (sel : Nat → Bool) : Option Nat × List B :=
  let r := smoothLoop sel (enum bs) none 0 0
  match r.1 with
  | none => (none, r.2.2)
  | some j => (some j, modAt r.2.2 j fun b => { b with cur := b.cur - r.2.1 })

inductive Mode | smoothTie | randomTie
deriving DecidableEq

/-- `leastConnsSmoothBalance` / `leastConnsSimpleBalance`; `n` = value of `rand.Int()` -/
def wlc (m : Mode) (bs : List B) (n : Nat) : Option Nat × List B :=
  match leastConns bs with
  | none => (none, bs)
  | some [c] => (some c, bs)
  | some cs =>
    match m with
    | .smoothTie => smooth bs (fun i => cs.contains i)
    | .randomTie => (cs[n % cs.length]?, bs)

/-- `BalanceRR.Update(conf)`: the old list is walked in order; a backend found in the conf (`keep`: old position ->
    configured weight) survives with `UpdateWeight` (weight = 100*c; current := 0 if c <= 0, otherwise untouched;
    connNum and avail belong to the surviving BfeBackend), the others are released; backends only in the conf are
    appended as new (weight = current = 100*c, no connection, available). -/
def update (bs : List B) (keep : List (Nat × Int)) (new : List Int) : List B :=
  ((enum bs).filterMap fun x =>
      (keep.find? (·.1 == x.1)).map fun k =>
        { x.2 with w := 100 * k.2, cur := if k.2 ≤ 0 then 0 else x.2.cur }) ++
    new.map fun c => { w := 100 * c, cur := 100 * c, conn := 0, avail := true }

/-! ### specification side (used by the driver as oracle, independent of the two-pass algorithm) -/

/-- `a` has connections/weight ≤ `b`, cross-multiplied (both weights are > 0 when used) -/
def leR (a b : B) : Prop := a.conn * b.w ≤ b.conn * a.w

instance (a b : B) : Decidable (leR a b) := by unfold leR; infer_instance

/-- index `i` is an eligible backend minimising connections/weight among all eligible backends -/
def IsMin (bs : List B) (i : Nat) : Prop :=
  ∃ b, bs[i]? = some b ∧ elig b = true ∧ ∀ (j : Nat) (b' : B), bs[j]? = some b' → elig b' = true → leR b b'

/-- executable form of `IsMin` -/
def isMinB (bs : List B) (i : Nat) : Bool :=
  match bs[i]? with
  | none => false
  | some b => elig b && bs.all fun b' => !elig b' || decide (leR b b')

/-- all minimisers, in list order -/
def minimisers (bs : List B) : List Nat := (List.range bs.length).filter (isMinB bs)

def anyElig (bs : List B) : Bool := bs.any elig

end BfeVerif.C04
