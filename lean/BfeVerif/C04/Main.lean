import BfeVerif.C04.Driver
def main : IO Unit := BfeVerif.Proto.driverMain BfeVerif.C04.run
