import BfeVerif.C04.Model
import Mathlib.Tactic.Ring
/-! C04 helper lemmas -/
namespace BfeVerif.C04

theorem leR_refl (a : B) : leR a a := by unfold leR; exact Int.le_refl _

theorem leR_total (a b : B) : leR a b ∨ leR b a := by unfold leR; omega

/-- transitivity of the cross-multiplied comparison needs the middle weight to be positive -/
theorem leR_trans {a b c : B} (hb : 0 < b.w) (ha : 0 ≤ a.w) (hc : 0 ≤ c.w)
    (h1 : leR a b) (h2 : leR b c) : leR a c := by
  unfold leR at *
  have e1 : a.conn * b.w * c.w ≤ b.conn * a.w * c.w := Int.mul_le_mul_of_nonneg_right h1 hc
  have e2 : b.conn * c.w * a.w ≤ c.conn * b.w * a.w := Int.mul_le_mul_of_nonneg_right h2 ha
  have e3 : (a.conn * c.w) * b.w ≤ (c.conn * a.w) * b.w := by
    have : a.conn * c.w * b.w = a.conn * b.w * c.w := by ring
    have : b.conn * a.w * c.w = b.conn * c.w * a.w := by ring
    have : c.conn * a.w * b.w = c.conn * b.w * a.w := by ring
    omega
  exact Int.le_of_mul_le_mul_right e3 hb

theorem compLC_pos (a b : B) : compLC a b > 0 ↔ ¬ leR a b := by
  unfold compLC leR; simp only []; split
  · constructor
    · intro _; omega
    · intro _; decide
  · split
    · constructor
      · intro h; exact absurd h (by decide)
      · intro h; omega
    · constructor
      · intro h; exact absurd h (by decide)
      · intro h; omega

theorem compLC_zero (a b : B) : compLC a b = 0 ↔ (leR a b ∧ leR b a) := by
  unfold compLC leR; simp only []; split
  · constructor
    · intro h; exact absurd h (by decide)
    · intro h; omega
  · split
    · constructor
      · intro _; omega
      · intro _; rfl
    · constructor
      · intro h; exact absurd h (by decide)
      · intro h; omega

theorem elig_pos {b : B} (h : elig b = true) : 0 < b.w := by
  unfold elig at h; simp at h; exact h.2

/-- invariant of the first pass after the prefix `pre` has been walked -/
def Inv (pre : List (Nat × B)) (st : Option (Nat × B) × Bool) : Prop :=
  match st.1 with
  | none => ∀ y ∈ pre, elig y.2 = false
  | some x => x ∈ pre ∧ elig x.2 = true ∧ (∀ y ∈ pre, elig y.2 = true → leR x.2 y.2) ∧
      (st.2 = true → ∀ y ∈ pre, elig y.2 = true → y ≠ x → ¬ leR y.2 x.2)

theorem pass1_inv : ∀ (rest pre : List (Nat × B)) (st : Option (Nat × B) × Bool),
    Inv pre st → Inv (pre ++ rest) (pass1 rest st) := by
  intro rest
  induction rest with
  | nil => intro pre st h; simpa [pass1] using h
  | cons x rest ih =>
    intro pre st h
    obtain ⟨best, single⟩ := st
    have happ : pre ++ x :: rest = (pre ++ [x]) ++ rest := by simp
    rw [happ]
    unfold pass1
    by_cases he : elig x.2 = true
    · simp only [he, Bool.not_true, Bool.false_eq_true, if_false]
      cases best with
      | none =>
        simp only []
        apply ih
        simp only [Inv] at h ⊢
        refine ⟨by simp, he, ?_, ?_⟩
        · intro y hy hye
          rcases List.mem_append.mp hy with hy | hy
          · rw [h y hy] at hye; exact absurd hye (by decide)
          · simp at hy; subst hy; exact leR_refl _
        · intro _ y hy hye hne
          rcases List.mem_append.mp hy with hy | hy
          · rw [h y hy] at hye; exact absurd hye (by decide)
          · simp at hy; exact absurd hy hne
      | some bb =>
        simp only [Inv] at h
        obtain ⟨hmem, hbe, hmin, hsing⟩ := h
        have hbw := elig_pos hbe
        have hxw := elig_pos he
        simp only []
        by_cases hpos : compLC bb.2 x.2 > 0
        · simp only [hpos, if_true]
          apply ih
          have hnle := (compLC_pos _ _).mp hpos
          have hxb : leR x.2 bb.2 := (leR_total x.2 bb.2).resolve_right hnle
          simp only [Inv]
          refine ⟨by simp, he, ?_, ?_⟩
          · intro y hy hye
            rcases List.mem_append.mp hy with hy | hy
            · exact leR_trans hbw (Int.le_of_lt hxw) (Int.le_of_lt (elig_pos hye)) hxb (hmin y hy hye)
            · simp at hy; subst hy; exact leR_refl _
          · intro _ y hy hye hne hle
            rcases List.mem_append.mp hy with hy | hy
            · exact hnle (leR_trans (elig_pos hye) (Int.le_of_lt hbw) (Int.le_of_lt hxw) (hmin y hy hye) hle)
            · simp at hy; exact hne hy
        · simp only [hpos, if_false]
          have hle : leR bb.2 x.2 := by
            by_cases h' : leR bb.2 x.2
            · exact h'
            · exact absurd ((compLC_pos _ _).mpr h') hpos
          by_cases hz : compLC bb.2 x.2 = 0
          · simp only [hz, if_true]
            apply ih
            simp only [Inv]
            refine ⟨by simp [hmem], hbe, ?_, ?_⟩
            · intro y hy hye
              rcases List.mem_append.mp hy with hy | hy
              · exact hmin y hy hye
              · simp at hy; subst hy; exact hle
            · intro hc; exact absurd hc (by decide)
          · simp only [hz, if_false]
            apply ih
            simp only [Inv]
            refine ⟨by simp [hmem], hbe, ?_, ?_⟩
            · intro y hy hye
              rcases List.mem_append.mp hy with hy | hy
              · exact hmin y hy hye
              · simp at hy; subst hy; exact hle
            · intro hs y hy hye hne
              rcases List.mem_append.mp hy with hy | hy
              · exact hsing hs y hy hye hne
              · simp at hy; subst hy
                intro hxb; exact hz ((compLC_zero _ _).mpr ⟨hle, hxb⟩)
    · have he' : elig x.2 = false := by simpa using he
      simp only [he', Bool.not_false, if_true]
      apply ih
      simp only [Inv] at h ⊢
      cases best with
      | none =>
        simp only [] at h ⊢
        intro y hy
        rcases List.mem_append.mp hy with hy | hy
        · exact h y hy
        · simp at hy; subst hy; exact he'
      | some bb =>
        simp only [] at h ⊢
        obtain ⟨hmem, hbe, hmin, hsing⟩ := h
        refine ⟨by simp [hmem], hbe, ?_, ?_⟩
        · intro y hy hye
          rcases List.mem_append.mp hy with hy | hy
          · exact hmin y hy hye
          · simp at hy; subst hy; rw [he'] at hye; exact absurd hye (by decide)
        · intro hs y hy hye hne
          rcases List.mem_append.mp hy with hy | hy
          · exact hsing hs y hy hye hne
          · simp at hy; subst hy; rw [he'] at hye; exact absurd hye (by decide)

theorem pass1_final (en : List (Nat × B)) : Inv en (pass1 en (none, true)) := by
  have := pass1_inv en [] (none, true) (by simp [Inv])
  simpa using this

/-- minimiser among an enumerated list -/
def IsMinE (en : List (Nat × B)) (i : Nat) : Prop :=
  ∃ b, (i, b) ∈ en ∧ elig b = true ∧ ∀ y ∈ en, elig y.2 = true → leR b y.2

theorem leastConnsE_exact (en : List (Nat × B)) (cs : List Nat) (h : leastConnsE en = some cs) :
    ∀ i, i ∈ cs ↔ IsMinE en i := by
  have hinv := pass1_final en
  unfold leastConnsE at h
  generalize hp : pass1 en (none, true) = st at h hinv
  obtain ⟨best, single⟩ := st
  cases best with
  | none => simp at h
  | some bb =>
    simp only [Inv] at hinv
    obtain ⟨hmem, hbe, hmin, hsing⟩ := hinv
    cases single with
    | true =>
      simp only [Option.some.injEq] at h
      subst h
      intro i
      constructor
      · intro hi
        simp at hi; subst hi
        exact ⟨bb.2, hmem, hbe, hmin⟩
      · rintro ⟨b, hib, hbe', hbmin⟩
        by_cases heq : (i, b) = bb
        · simp [← heq]
        · exact absurd (hbmin bb hmem hbe) (hsing rfl (i, b) hib hbe' heq)
    | false =>
      simp only [Option.some.injEq] at h
      subst h
      intro i
      unfold pass2
      simp only [List.mem_map, List.mem_filter, Bool.and_eq_true, decide_eq_true_eq]
      constructor
      · rintro ⟨y, ⟨hy, hye, hc⟩, rfl⟩
        have ⟨_, hyb⟩ := (compLC_zero _ _).mp hc
        refine ⟨y.2, hy, hye, ?_⟩
        intro z hz hze
        exact leR_trans (elig_pos hbe) (Int.le_of_lt (elig_pos hye)) (Int.le_of_lt (elig_pos hze)) hyb (hmin z hz hze)
      · rintro ⟨b, hib, hbe', hbmin⟩
        exact ⟨(i, b), ⟨hib, hbe', (compLC_zero _ _).mpr ⟨hmin _ hib hbe', hbmin bb hmem hbe⟩⟩, rfl⟩

theorem leastConnsE_none (en : List (Nat × B)) :
    leastConnsE en = none ↔ ∀ y ∈ en, elig y.2 = false := by
  have hinv := pass1_final en
  unfold leastConnsE
  generalize hp : pass1 en (none, true) = st at hinv
  obtain ⟨best, single⟩ := st
  cases best with
  | none => simp only [Inv] at hinv; simp; intro a b hab; exact hinv (a, b) hab
  | some bb =>
    simp only [Inv] at hinv
    obtain ⟨hmem, hbe, _, _⟩ := hinv
    cases single <;> simp <;> exact ⟨bb.1, bb.2, hmem, hbe⟩

theorem mem_enum (bs : List B) (i : Nat) (b : B) : (i, b) ∈ enum bs ↔ bs[i]? = some b := by
  unfold enum
  simp only [List.mem_map, Prod.mk.injEq]
  constructor
  · rintro ⟨p, hp, rfl, rfl⟩
    exact (List.mem_zipIdx_iff_getElem? (x := p)).mp hp
  · intro h
    exact ⟨(b, i), (List.mem_zipIdx_iff_getElem? (x := (b, i))).mpr h, rfl, rfl⟩

theorem isMinE_enum (bs : List B) (i : Nat) : IsMinE (enum bs) i ↔ IsMin bs i := by
  unfold IsMinE IsMin
  constructor
  · rintro ⟨b, hb, he, hmin⟩
    exact ⟨b, (mem_enum _ _ _).mp hb, he, fun j b' hj he' => hmin (j, b') ((mem_enum _ _ _).mpr hj) he'⟩
  · rintro ⟨b, hb, he, hmin⟩
    exact ⟨b, (mem_enum _ _ _).mpr hb, he, fun y hy he' => hmin y.1 y.2 ((mem_enum _ _ _).mp hy) he'⟩

/-! smoothBalance on the candidates -/

theorem smoothLoop_some (sel : Nat → Bool) : ∀ (en : List (Nat × B)) (best : Option Nat) (mx total : Int) (j : Nat),
    (smoothLoop sel en best mx total).1 = some j →
      best = some j ∨ ∃ b, (j, b) ∈ en ∧ sel j = true ∧ elig b = true := by
  intro en
  induction en with
  | nil => intro best mx total j h; simp [smoothLoop] at h; exact Or.inl h
  | cons x rest ih =>
    intro best mx total j h
    unfold smoothLoop at h
    by_cases hc : (!(sel x.1) || !elig x.2) = true
    · simp only [hc, if_true] at h
      rcases ih _ _ _ _ h with h' | ⟨b, hb, hs, he⟩
      · exact Or.inl h'
      · exact Or.inr ⟨b, List.mem_cons_of_mem _ hb, hs, he⟩
    · simp only [hc] at h
      have hc' : sel x.1 = true ∧ elig x.2 = true := by
        simp at hc; exact hc
      rcases ih _ _ _ _ h with h' | ⟨b, hb, hs, he⟩
      · split at h'
        · simp at h'; subst h'
          exact Or.inr ⟨x.2, by simp, hc'.1, hc'.2⟩
        · exact Or.inl h'
      · exact Or.inr ⟨b, List.mem_cons_of_mem _ hb, hs, he⟩

theorem smoothLoop_none (sel : Nat → Bool) : ∀ (en : List (Nat × B)) (best : Option Nat) (mx total : Int),
    (smoothLoop sel en best mx total).1 = none →
      best = none ∧ ∀ y ∈ en, ¬ (sel y.1 = true ∧ elig y.2 = true) := by
  intro en
  induction en with
  | nil => intro best mx total h; simp [smoothLoop] at h; exact ⟨h, by simp⟩
  | cons x rest ih =>
    intro best mx total h
    unfold smoothLoop at h
    by_cases hc : (!(sel x.1) || !elig x.2) = true
    · simp only [hc, if_true] at h
      obtain ⟨h1, h2⟩ := ih _ _ _ h
      refine ⟨h1, ?_⟩
      intro y hy
      rcases List.mem_cons.mp hy with rfl | hy
      · simp at hc; intro ⟨a, b⟩; rcases hc with h' | h' <;> simp_all
      · exact h2 y hy
    · simp only [hc] at h
      obtain ⟨h1, _⟩ := ih _ _ _ h
      split at h1
      · simp at h1
      · rename_i hn; simp only [] at h1; subst h1; simp at hn

end BfeVerif.C04

namespace BfeVerif.C04

theorem smooth_some (bs : List B) (sel : Nat → Bool) (j : Nat) (h : (smooth bs sel).1 = some j) :
    ∃ b, bs[j]? = some b ∧ sel j = true ∧ elig b = true := by
  unfold smooth at h
  simp only [] at h
  split at h
  · simp at h
  · rename_i j' hj
    simp at h; subst h
    rcases smoothLoop_some _ _ _ _ _ _ hj with h' | ⟨b, hb, hs, he⟩
    · simp at h'
    · exact ⟨b, (mem_enum _ _ _).mp hb, hs, he⟩

theorem smooth_none (bs : List B) (sel : Nat → Bool) (h : (smooth bs sel).1 = none) :
    ∀ i b, bs[i]? = some b → ¬ (sel i = true ∧ elig b = true) := by
  unfold smooth at h
  simp only [] at h
  split at h
  · rename_i hn
    obtain ⟨_, hall⟩ := smoothLoop_none _ _ _ _ _ hn
    intro i b hb
    exact hall (i, b) ((mem_enum _ _ _).mpr hb)
  · simp at h

end BfeVerif.C04
