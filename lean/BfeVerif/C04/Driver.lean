import BfeVerif.Common.Proto
import BfeVerif.C04.Model
/-!
  C04 driver.
  op     = `wlc <S|R> <backends> <steps>`
           backends = `w:cur:conn:avail,...` (`-` = empty list), list order = `brr.backends` order
           steps    = comma list of  `b` (Balance)  `B` (Balance, then IncConnNum on the chosen backend)
                      `c<i>=<n>` (connNum := n)  `a<i>=<0|1>` (SetAvail)  `w<i>=<n>` (raw weight := n)
  result = per `b`/`B` step `<chosen index>/<candidate indices joined by .>` or `E`, joined by `,` (`-` if none)
  S = WlcSmooth (exact prediction), R = WlcSimple (`rand.Int()` is read back from the implementation's
  choice: the model result repeats it iff it lies in the model's candidate list).
-/
namespace BfeVerif.C04
open BfeVerif.Proto

def parseB (s : String) : Option B :=
  match s.splitOn ":" with
  | [w, c, n, a] =>
    match w.toInt?, c.toInt?, n.toInt? with
    | some w, some c, some n => some { w := w, cur := c, conn := n, avail := a == "1" }
    | _, _, _ => none
  | _ => none

def parseBs (s : String) : Option (List B) :=
  if s == "-" then some [] else (s.splitOn ",").mapM parseB

def dots (l : List Nat) : String := ".".intercalate (l.map toString)

def setAt (l : List B) (i : Nat) (f : B → B) : List B := modAt l i f

structure St where
  bs : List B
  out : List String := []      -- model tokens (reversed)
  verdict : String := "ok"
  tags : List String := []
  bad : Bool := false

def addTag (st : St) (t : String) : St := if st.tags.contains t then st else { st with tags := t :: st.tags }

def fail (st : St) (c : String) : St := if st.verdict == "ok" then { st with verdict := "FAIL:" ++ c } else st

/-- parse `<i>=<n>` -/
def parseSet (s : String) : Option (Nat × Int) :=
  match s.splitOn "=" with
  | [i, n] => match i.toNat?, n.toInt? with
    | some i, some n => some (i, n)
    | _, _ => none
  | _ => none

def parseTok (t : String) : Option (Nat × List Nat) :=
  match t.splitOn "/" with
  | [i, cs] =>
    match i.toNat? with
    | some i =>
      if cs == "" then some (i, []) else
      match (cs.splitOn ".").mapM String.toNat? with
      | some l => some (i, l)
      | none => none
    | none => none
  | _ => none

def balanceStep (m : Mode) (inc : Bool) (st : St) (implTok : String) : St :=
  let bs := st.bs
  let cands := leastConns bs
  let mins := minimisers bs
  let nElig := (bs.filter elig).length
  let st := if nElig ≥ 2 then addTag st "nt" else st
  let st := addTag st (if nElig = 0 then "none-elig" else if mins.length ≥ 2 then "tie" else "single")
  let st := if nElig < bs.length then addTag st "inelig-present" else st
  -- spec oracle on the implementation's answer
  let st :=
    if implTok == "E" then (if anyElig bs then fail st "spurious-error" else st)
    else match parseTok implTok with
      | none => fail st "unparsable"
      | some (i, cs) =>
        if !((bs[i]?.map elig).getD false) then fail st "ineligible"
        else if !isMinB bs i then fail st "not-minimal"
        else if cs != mins then fail st "cands-not-minimisers"
        else st
  -- model
  let n : Nat :=
    match m, cands, parseTok implTok with
    | .randomTie, some cs, some (i, _) => cs.idxOf i
    | _, _, _ => 0
  let r := wlc m bs n
  let tok := match r.1, cands with
    | some i, some cs => toString i ++ "/" ++ dots cs
    | _, _ => "E"
  let bs' := match r.1 with
    | some i => if inc then setAt r.2 i (fun b => { b with conn := b.conn + 1 }) else r.2
    | none => r.2
  { st with bs := bs', out := tok :: st.out }

partial def steps (m : Mode) (st : St) (ss : List String) (impl : List String) : St :=
  match ss with
  | [] => st
  | s :: rest =>
    if s == "b" || s == "B" then
      let (tok, impl') := match impl with
        | [] => ("", [])
        | t :: ts => (t, ts)
      steps m (balanceStep m (s == "B") st tok) rest impl'
    else
      let k := (s.take 1).toString
      match parseSet (s.drop 1).toString with
      | none => { st with bad := true }
      | some (i, n) =>
        let bs := if k == "c" then setAt st.bs i (fun b => { b with conn := n })
          else if k == "a" then setAt st.bs i (fun b => { b with avail := n == 1 })
          else if k == "w" then setAt st.bs i (fun b => { b with w := n })
          else st.bs
        steps m { st with bs := bs } rest impl

def run (op impl : String) : Ans :=
  match op.splitOn " " with
  | ["wlc", m, bss, ss] =>
    match parseBs bss with
    | none => { model := "bad-op", verdict := "skip" }
    | some bs =>
      let mode := if m == "S" then Mode.smoothTie else Mode.randomTie
      let implToks := if impl == "-" then [] else impl.splitOn ","
      let st := steps mode { bs := bs } (ss.splitOn ",") implToks
      if st.bad then { model := "bad-op", verdict := "skip" } else
      let out := if st.out.isEmpty then "-" else ",".intercalate st.out.reverse
      { model := out, verdict := st.verdict, tags := [m] ++ st.tags }
  | _ => { model := "bad-op", verdict := "skip" }

end BfeVerif.C04
