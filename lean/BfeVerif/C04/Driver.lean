import BfeVerif.Common.Proto
import BfeVerif.C04.Model
/-!
  C04 driver.
  op     = `wlc <S|R> <backends> <steps>`
           backends = `w:cur:conn:avail,...` (`-` = empty list), list order = `brr.backends` order
           steps    = comma list of  `b` (Balance)  `B` (Balance, then IncConnNum on the chosen backend)
                      `c<i>=<n>` (connNum := n)  `a<i>=<0|1>` (SetAvail)  `w<i>=<n>` (raw weight := n)
  result = per `b`/`B` step `<chosen index>/<candidate indices joined by .>` or `E`, joined by `,` (`-` if none)
                      `u<i>:<c>/.../+:<c>` (`Update`: survivors by position with configured weight c, `+` = a new backend)
           R-mode tokens carry a third field when there are >= 2 candidates: the value `rand.Int()` returned inside
           `randomBalance` (math/rand is seeded by the harness, which replays the same source); the whole result ends
           with `;cur=<current of every backend, joined by .>`
  S = WlcSmooth, R = WlcSimple: both predicted exactly (R: chosen = candidates[n % len]).
-/
namespace BfeVerif.C04
open BfeVerif.Proto

def parseB (s : String) : Option B :=
  match s.splitOn ":" with
  | [w, c, n, a] =>
    match w.toInt?, c.toInt?, n.toInt? with
    | some w, some c, some n => some { w := w, cur := c, conn := n, avail := a == "1" }
    | _, _, _ => none
  | _ => none

def parseBs (s : String) : Option (List B) :=
  if s == "-" then some [] else (s.splitOn ",").mapM parseB

def dots (l : List Nat) : String := ".".intercalate (l.map toString)

def setAt (l : List B) (i : Nat) (f : B → B) : List B := modAt l i f

structure St where
  bs : List B
  out : List String := []      -- model tokens (reversed)
  verdict : String := "ok"
  tags : List String := []
  bad : Bool := false

def addTag (st : St) (t : String) : St := if st.tags.contains t then st else { st with tags := t :: st.tags }

def fail (st : St) (c : String) : St := if st.verdict == "ok" then { st with verdict := "FAIL:" ++ c } else st

/-- parse `<i>=<n>` -/
def parseSet (s : String) : Option (Nat × Int) :=
  match s.splitOn "=" with
  | [i, n] => match i.toNat?, n.toInt? with
    | some i, some n => some (i, n)
    | _, _ => none
  | _ => none

def parseTok2 (i cs : String) : Option (Nat × List Nat) :=
  match i.toNat? with
  | some i =>
    if cs == "" then some (i, []) else
    match (cs.splitOn ".").mapM String.toNat? with
    | some l => some (i, l)
    | none => none
  | none => none

def parseTok (t : String) : Option (Nat × List Nat) :=
  match t.splitOn "/" with
  | [i, cs] => parseTok2 i cs
  | [i, cs, _] => parseTok2 i cs
  | _ => none

/-- the scripted value of `rand.Int()` (third field), if a draw took place -/
def drawOf (t : String) : Option Nat :=
  match t.splitOn "/" with
  | [_, _, n] => n.toNat?
  | _ => none

def balanceStep (m : Mode) (inc : Bool) (st : St) (implTok : String) : St :=
  let bs := st.bs
  let cands := leastConns bs
  let mins := minimisers bs
  let nElig := (bs.filter elig).length
  let st := if nElig ≥ 2 then addTag st "nt" else st
  let st := addTag st (if nElig = 0 then "none-elig" else if mins.length ≥ 2 then "tie" else "single")
  let st := if nElig < bs.length then addTag st "inelig-present" else st
  let st := if bs.any (fun b => decide (b.conn ≥ 65536 ∨ b.w ≥ 65536)) then addTag st "huge" else st
  -- spec oracle on the implementation's answer
  let st :=
    if implTok == "E" then (if anyElig bs then fail st "spurious-error" else st)
    else match parseTok implTok with
      | none => fail st "unparsable"
      | some (i, cs) =>
        if !((bs[i]?.map elig).getD false) then fail st "ineligible"
        else if !isMinB bs i then fail st "not-minimal"
        else if cs != mins then fail st "cands-not-minimisers"
        else st
  -- model
  let n : Nat :=
    -- WlcSimple: the scripted draw is used when it explains the implementation's choice (`candidates[n % len]`, the
    -- code as written); a different but legitimate way of drawing is followed as long as it stays inside the
    -- candidates (uniformity is then judged by reachability / frequency over long runs, see `run`)
    match m, cands, drawOf implTok, parseTok implTok with
    | .randomTie, some cs, some n, some (i, _) => if cs[n % cs.length]? == some i then n else cs.idxOf i
    | .randomTie, some cs, none, some (i, _) => cs.idxOf i
    | _, _, _, _ => 0
  let r := wlc m bs n
  let tok := match r.1, cands with
    | some i, some cs => toString i ++ "/" ++ dots cs ++
        (match m, drawOf implTok with
         | .randomTie, some d => if cs.length ≥ 2 then "/" ++ toString d else ""
         | _, _ => "")
    | _, _ => "E"
  let bs' := match r.1 with
    | some i => if inc then setAt r.2 i (fun b => { b with conn := b.conn + 1 }) else r.2
    | none => r.2
  let st := match m, cands, drawOf implTok, parseTok implTok with
    | .randomTie, some cs, some d, some (i, _) => addTag st (if cs[d % cs.length]? == some i then "nth-exact" else "nth-deviates")
    | _, _, _, _ => st
  { st with bs := bs', out := tok :: st.out }

partial def steps (m : Mode) (st : St) (ss : List String) (impl : List String) : St :=
  match ss with
  | [] => st
  | s :: rest =>
    if s == "b" || s == "B" then
      let (tok, impl') := match impl with
        | [] => ("", [])
        | t :: ts => (t, ts)
      steps m (balanceStep m (s == "B") st tok) rest impl'
    else if s.startsWith "u" then
      let parts := ((s.drop 1).toString).splitOn "/"
      let parsed := parts.mapM fun t => match t.splitOn ":" with
        | [i, c] => c.toInt?.bind fun c => if i == "+" then some (none, c) else i.toNat?.map fun i => (some i, c)
        | _ => none
      match parsed with
      | none => { st with bad := true }
      | some ps =>
        let keep := ps.filterMap fun p => p.1.map fun i => (i, p.2)
        let new := ps.filterMap fun p => if p.1.isNone then some p.2 else none
        steps m (addTag { st with bs := update st.bs keep new } "update") rest impl
    else
      let k := (s.take 1).toString
      match parseSet (s.drop 1).toString with
      | none => { st with bad := true }
      | some (i, n) =>
        let bs := if k == "c" then setAt st.bs i (fun b => { b with conn := n })
          else if k == "a" then setAt st.bs i (fun b => { b with avail := n == 1 })
          else if k == "w" then setAt st.bs i (fun b => { b with w := n })
          else st.bs
        steps m { st with bs := bs } rest impl

def run (op impl : String) : Ans :=
  if impl == "bad-op" then { model := "bad-op", verdict := "skip" } else
  match op.splitOn " " with
  | ["wlc", m, bss, ss] =>
    match parseBs bss with
    | none => { model := "bad-op", verdict := "skip" }
    | some bs =>
      let mode := if m == "S" then Mode.smoothTie else Mode.randomTie
      let implMain := (impl.splitOn ";").getD 0 ""
      let implToks := if implMain == "-" then [] else implMain.splitOn ","
      let st := steps mode { bs := bs } (ss.splitOn ",") implToks
      if st.bad then { model := "bad-op", verdict := "skip" } else
      let out := if st.out.isEmpty then "-" else ",".intercalate st.out.reverse
      -- WlcSimple, many calls in ONE state (only `b` steps): every minimiser must be reached, and about equally often
      -- (math/rand is seeded, so this is a deterministic statement about the code, not a statistical test at run time)
      let chosen := implToks.filterMap fun t => (parseTok t).map (·.1)
      let mins := minimisers st.bs
      let k := mins.length
      let longRun := m == "R" && (ss.splitOn ",").all (· == "b") && decide (k ≥ 2) && decide (chosen.length ≥ 40 * k)
      let counts := mins.map fun i => (chosen.filter (· == i)).length
      let st := if longRun ∧ counts.any (· == 0) then fail st "random-never-reaches-a-minimiser"
        else if longRun ∧ counts.any (fun c => decide (3 * k * c < chosen.length ∨ k * c > 3 * chosen.length)) then fail st "random-not-uniform"
        else st
      let tags := if longRun then ["R-long-run"] else []
      { model := out ++ ";cur=" ++ ".".intercalate (st.bs.map fun b => toString b.cur)
        verdict := st.verdict, tags := [m] ++ tags ++ st.tags }
  | _ => { model := "bad-op", verdict := "skip" }

end BfeVerif.C04
