import BfeVerif.C04.Proofs
import Mathlib.Algebra.Order.Field.Basic
import Mathlib.Data.Rat.Defs
import Mathlib.Algebra.Order.Field.Rat
/-!
  C04 — weighted-least-connection mode picks a backend minimising connections/weight.
  Property theorems only.  `leastConns`, `wlc` mirror `leastConnsBalance`,
  `leastConnsSmoothBalance` / `leastConnsSimpleBalance`; `IsMin bs i` says: backend `i` is eligible
  (available, weight > 0) and `conn_i * w_j ≤ conn_j * w_i` for every eligible `j`.
-/
namespace BfeVerif.C04

/-- The cross-multiplied comparison used by `compLCWeight` is the comparison of the quotients
    connections/weight (for positive weights), so `IsMin` really is "minimal conn/weight". -/
theorem C04_cross_mul_is_ratio (a b : B) (ha : 0 < a.w) (hb : 0 < b.w) :
    leR a b ↔ (a.conn : ℚ) / (a.w : ℚ) ≤ (b.conn : ℚ) / (b.w : ℚ) := by
  unfold leR
  have ha' : (0 : ℚ) < (a.w : ℚ) := by exact_mod_cast ha
  have hb' : (0 : ℚ) < (b.w : ℚ) := by exact_mod_cast hb
  rw [div_le_div_iff₀ ha' hb']
  constructor
  · intro h; exact_mod_cast h
  · intro h; exact_mod_cast h

/-- **Candidates = exactly the minimisers**: the list returned by `leastConnsBalance` contains an index
    iff that backend is eligible and minimises connections/weight among all eligible backends. -/
theorem C04_candidates_exact (bs : List B) (cs : List Nat) (h : leastConns bs = some cs) :
    ∀ i, i ∈ cs ↔ IsMin bs i := by
  intro i
  rw [← isMinE_enum]
  exact leastConnsE_exact (enum bs) cs h i

/-- `leastConnsBalance` reports "all backend is down" exactly when no backend is eligible. -/
theorem C04_error_iff (bs : List B) : leastConns bs = none ↔ ∀ b ∈ bs, elig b = false := by
  unfold leastConns
  rw [leastConnsE_none]
  constructor
  · intro h b hb
    obtain ⟨i, hi, rfl⟩ := List.mem_iff_getElem.mp hb
    exact h (i, bs[i]) ((mem_enum _ _ _).mpr (by simp [hi]))
  · intro h y hy
    have := (mem_enum bs y.1 y.2).mp hy
    exact h y.2 (List.mem_of_getElem? this)

/-- the candidate list is never empty (under reads that are stable within one call). -/
theorem C04_candidates_nonempty (bs : List B) (cs : List Nat) (h : leastConns bs = some cs) : cs ≠ [] := by
  intro hc
  subst hc
  have hne : ¬ (∀ b ∈ bs, elig b = false) := by
    intro hall
    rw [(C04_error_iff bs).mpr hall] at h; exact absurd h (by simp)
  have hinv := pass1_final (enum bs)
  unfold leastConns leastConnsE at h
  generalize hp : pass1 (enum bs) (none, true) = st at h hinv
  obtain ⟨best, single⟩ := st
  cases best with
  | none => simp at h
  | some bb =>
    cases single with
    | true => simp at h
    | false =>
      have hx := (leastConnsE_exact (enum bs) [] (by unfold leastConnsE; rw [hp]; simpa using h) bb.1).mpr
      simp only [Inv] at hinv
      obtain ⟨hmem, hbe, hmin, _⟩ := hinv
      exact absurd (hx ⟨bb.2, hmem, hbe, hmin⟩) (by simp)

/-- **The choice is a minimiser** in both WLC modes: whatever `smoothBalance` does among the tied
    candidates and whatever value `rand.Int()` returns, the backend handed out is eligible and has
    minimal connections/weight. -/
theorem C04_choice (m : Mode) (bs : List B) (n i : Nat) (h : (wlc m bs n).1 = some i) : IsMin bs i := by
  unfold wlc at h
  split at h
  · simp at h
  · rename_i c hc
    simp at h; subst h
    exact (C04_candidates_exact bs [c] hc c).mp (by simp)
  · rename_i cs _ hcs
    cases m with
    | smoothTie =>
      simp only [] at h
      unfold smooth at h
      simp only [] at h
      split at h
      · simp at h
      · rename_i j hj
        simp at h; subst h
        rcases smoothLoop_some _ _ _ _ _ _ hj with h' | ⟨b, _, hs, _⟩
        · simp at h'
        · exact (C04_candidates_exact bs cs hcs j).mp (by simpa using hs)
    | randomTie =>
      simp only [] at h
      exact (C04_candidates_exact bs cs hcs i).mp (List.mem_of_getElem? h)

/-- A WLC call fails exactly when no backend is eligible (no spurious "all backend is down"). -/
theorem C04_wlc_error_iff (m : Mode) (bs : List B) (n : Nat) :
    (wlc m bs n).1 = none ↔ ∀ b ∈ bs, elig b = false := by
  constructor
  · intro h
    unfold wlc at h
    split at h
    · rename_i hn; exact (C04_error_iff bs).mp hn
    · simp at h
    · rename_i cs _ hcs
      have hne := C04_candidates_nonempty bs cs hcs
      obtain ⟨c, hc⟩ := List.exists_mem_of_ne_nil cs hne
      exfalso
      cases m with
      | smoothTie =>
        simp only [] at h
        unfold smooth at h
        simp only [] at h
        split at h
        · rename_i hn
          obtain ⟨_, hall⟩ := smoothLoop_none _ _ _ _ _ hn
          obtain ⟨b, hb, he, _⟩ := (C04_candidates_exact bs cs hcs c).mp hc
          exact hall (c, b) ((mem_enum _ _ _).mpr hb) ⟨by simpa using hc, he⟩
        · simp at h
      | randomTie =>
        simp only [] at h
        have hlen : 0 < cs.length := List.length_pos_iff.mpr hne
        have : n % cs.length < cs.length := Nat.mod_lt _ hlen
        simp at h
        omega
  · intro h
    unfold wlc
    rw [(C04_error_iff bs).mpr h]

/-- The executable oracle the driver applies to the implementation's answers decides `IsMin`. -/
theorem C04_oracle_sound (bs : List B) (i : Nat) : isMinB bs i = true ↔ IsMin bs i := by
  unfold isMinB IsMin
  cases hb : bs[i]? with
  | none => simp
  | some b =>
    simp only [Option.some.injEq, Bool.and_eq_true, List.all_eq_true, Bool.or_eq_true,
      Bool.not_eq_true', decide_eq_true_eq]
    constructor
    · rintro ⟨he, hall⟩
      refine ⟨b, rfl, he, fun j b' hj he' => ?_⟩
      rcases hall b' (List.mem_of_getElem? hj) with h | h
      · rw [he'] at h; exact absurd h (by decide)
      · exact h
    · rintro ⟨b0, rfl, he, hall⟩
      refine ⟨he, fun b' hb' => ?_⟩
      obtain ⟨j, hj, rfl⟩ := List.mem_iff_getElem.mp hb'
      by_cases he' : elig bs[j] = true
      · exact Or.inr (hall j bs[j] (by simp [hj]) he')
      · exact Or.inl (by simpa using he')

/-- `minimisers` (printed by the driver as the expected candidate list) is the set of minimisers. -/
theorem C04_minimisers (bs : List B) (i : Nat) : i ∈ minimisers bs ↔ IsMin bs i := by
  unfold minimisers
  rw [List.mem_filter, C04_oracle_sound]
  constructor
  · exact fun h => h.2
  · intro h
    refine ⟨?_, h⟩
    obtain ⟨b, hb, _⟩ := h
    have := (List.getElem?_eq_some_iff.mp hb).1
    simpa using this

/-- **WlcSimple maps the random draw onto exactly the minimisers, uniformly**: with `n = rand.Int()` the backend handed
    out is the `(n mod k)`-th of the `k` candidates (which are exactly the minimisers, `C04_candidates_exact`), so every
    minimiser is reachable, nothing else is, and each one owns exactly one residue class of `n`. -/
theorem C04_random_nth (bs : List B) (cs : List Nat) (n : Nat) (h : leastConns bs = some cs) :
    (wlc .randomTie bs n).1 = cs[n % cs.length]? := by
  unfold wlc
  rw [h]
  split
  · rename_i heq; simp at heq
  · rename_i c heq
    simp only [Option.some.injEq] at heq; subst heq
    simp [Nat.mod_one]
  · rename_i cs' _ heq
    simp only [Option.some.injEq] at heq; subst heq
    rfl

/-- the candidates are pairwise distinct (so the `k` residue classes belong to `k` different backends) -/
theorem C04_candidates_nodup (bs : List B) (cs : List Nat) (h : leastConns bs = some cs) : cs.Nodup := by
  have hen : ((enum bs).map (·.1)).Nodup := by
    have : (enum bs).map (·.1) = List.range' 0 bs.length := by
      unfold enum
      rw [List.map_map]
      have : ((fun x : Nat × B => x.1) ∘ fun p : B × Nat => (p.2, p.1)) = Prod.snd := rfl
      rw [this, List.zipIdx_map_snd]
    rw [this]; exact List.nodup_range'
  unfold leastConns leastConnsE at h
  split at h
  · simp at h
  · simp only [Option.some.injEq] at h; subst h; simp
  · simp only [Option.some.injEq] at h; subst h
    unfold pass2
    exact List.Nodup.sublist (List.Sublist.map _ List.filter_sublist) hen

/-! Non-vacuity: exact rational ties 2/400 = 3/600 beat 1/100, the unavailable and the weight-0 one. -/
def ex1 : List B :=
  [⟨100, 100, 1, true⟩, ⟨400, 400, 2, true⟩, ⟨600, 600, 3, true⟩, ⟨300, 300, 0, false⟩, ⟨0, 0, 0, true⟩]
example : leastConns ex1 = some [1, 2] := by decide
example : (wlc .smoothTie ex1 0).1 = some 2 := by decide
example : (wlc .randomTie ex1 7).1 = some 2 := by decide
example : IsMin ex1 1 := (C04_oracle_sound ex1 1).mp (by decide)
example : ¬ IsMin ex1 0 := fun h => absurd ((C04_oracle_sound ex1 0).mpr h) (by decide)
example : leastConns [⟨100, 100, 0, false⟩, ⟨-100, -100, 0, true⟩] = none := by decide

end BfeVerif.C04
