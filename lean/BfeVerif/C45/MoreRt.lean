import BfeVerif.C45.HelloRt
/-! C45 — round trips of nextProto, certificateRequest, certificate. -/
namespace BfeVerif.C45

theorem umNextProto_rt (p : Bytes) (hp : p.length ≤ 255) : umNextProto (mNextProto p) = .ok p := by
  unfold mNextProto
  have hl : (if p.length > 255 then 255 else p.length) = p.length := by split <;> omega
  simp only [hl, List.take_length]
  generalize hpad : 32 - (p.length + 2) % 32 = pad
  have hpad32 : pad ≤ 32 := by omega
  have hbl := byte0_toNat_le p.length hp
  have hbp := byte0_toNat_le pad (by omega)
  unfold len3
  generalize byte2 (p.length + pad + 2) = l2; generalize byte1 (p.length + pad + 2) = l1
  generalize byte0 (p.length + pad + 2) = l0
  have hdata : (67 : UInt8) :: [l2, l1, l0] ++ [byte0 p.length] ++ p ++ [byte0 pad] ++ List.replicate pad 0
      = [67, l2, l1, l0] ++ (byte0 p.length :: (p ++ (byte0 pad :: List.replicate pad 0))) := by simp
  rw [hdata]
  unfold umNextProto
  have ht4 := L_tail [67, l2, l1, l0] (byte0 p.length :: (p ++ (byte0 pad :: List.replicate pad 0))) 4 rfl
  have hsub : sub (p ++ (byte0 pad :: List.replicate pad 0)) 0 p.length = .ok p := by
    have := L_sub [] p (byte0 pad :: List.replicate pad 0) 0 p.length rfl (by simp)
    simpa using this
  have htl := L_tail p (byte0 pad :: List.replicate pad 0) p.length rfl
  have c1 : (([67, l2, l1, l0] ++ (byte0 p.length :: (p ++ (byte0 pad :: List.replicate pad 0)))).length < 5) = False := by
    simp
  simp only [require_bind, c1, decide_false, Bool.not_false, if_true, ht4, ok_bind]
  simp [idx_bind, tail_bind, require_bind, hbl, hsub, htl, hbp]

/-! ### certificateRequest -/

theorem flatCAs_length_ge (l : List Bytes) : l.length ≤ (flatCAs l).length := by
  induction l with
  | nil => simp [flatCAs]
  | cons s l ih => simp [flatCAs, len2]; omega

theorem readCAs_flat : ∀ (l : List Bytes) (fuel : Nat), (l.all fun c => decide (c.length < 65536)) = true →
    l.length < fuel → readCAs fuel (flatCAs l) = .ok l := by
  intro l
  induction l with
  | nil => intro fuel _ hf; cases fuel with
    | zero => omega
    | succ f => simp [readCAs, flatCAs]
  | cons c l ih =>
    intro fuel hok hf
    cases fuel with
    | zero => omega
    | succ f =>
      have hs : c.length < 65536 ∧ (l.all fun c => decide (c.length < 65536)) = true := by
        simp only [List.all_cons, Bool.and_eq_true, decide_eq_true_eq] at hok
        exact hok
      have hf' : l.length < f := by simp only [List.length_cons] at hf; omega
      have hu := u16_bytes c.length hs.1
      have hsub : sub (c ++ flatCAs l) 0 c.length = .ok c := by
        have := L_sub [] c (flatCAs l) 0 c.length rfl (by simp)
        simpa using this
      have htl := L_tail c (flatCAs l) c.length rfl
      simp only [flatCAs, len2, List.cons_append, List.nil_append, List.append_assoc, readCAs]
      simp only [require_bind, idx_bind, tail_bind]
      simp [hu, hsub, htl, ih f hs.2 hf']

theorem crHead_rt (types rest : Bytes) (l2 l1 l0 : UInt8)
    (hu : u24 l2 l1 l0 = (byte0 types.length :: types ++ rest).length)
    (h0 : 0 < types.length) (h255 : types.length ≤ 255) (hr : 0 < rest.length) :
    crHead ((13 : UInt8) :: [l2, l1, l0] ++ (byte0 types.length :: types ++ rest)) = .ok (types, rest) := by
  have hb := byte0_toNat_le _ h255
  have hdata : (13 : UInt8) :: [l2, l1, l0] ++ (byte0 types.length :: types ++ rest)
      = [13, l2, l1, l0, byte0 types.length] ++ (types ++ rest) := by simp
  have hsub : sub (types ++ rest) 0 types.length = .ok types := by
    have := L_sub [] types rest 0 types.length rfl (by simp)
    simpa using this
  have htl := L_tail types rest types.length rfl
  have ht5 := L_tail [13, l2, l1, l0, byte0 types.length] (types ++ rest) 5 rfl
  rw [hdata]
  unfold crHead
  have hlen : ([13, l2, l1, l0, byte0 types.length] ++ (types ++ rest)).length = 5 + types.length + rest.length := by
    simp; omega
  have hu' : u24 l2 l1 l0 = 1 + types.length + rest.length := by
    rw [hu]; simp; omega
  have c1 : (([13, l2, l1, l0, byte0 types.length] ++ (types ++ rest)).length < 5) = False := by simp
  simp only [require_bind, c1, decide_false, Bool.not_false, if_true]
  simp only [idx_bind, hlen, ht5]
  simp [hu', hb, hsub, htl, require_bind]
  have ht : ¬ types = [] := by intro h; rw [h] at h0; simp at h0
  rw [if_pos (by omega), if_pos (by omega), if_pos (by omega), if_pos (by omega), if_pos (by omega), if_pos ⟨ht, hr⟩]

theorem crSigs_rt_true (sh : List U16) (rest : Bytes) (hn : 2 * sh.length < 65536) :
    crSigs true (len2 (2 * sh.length) ++ (flatPairs sh ++ rest)) = .ok (sh, rest) := by
  have hu := u16_bytes (2 * sh.length) hn
  have hp := readPairs_flat sh rest
  have htl := L_tail (flatPairs sh) rest (2 * sh.length) (by rw [flatPairs_length])
  unfold crSigs
  simp only [len2, List.cons_append, List.nil_append, List.append_assoc, if_true]
  simp only [require_bind, idx_bind, tail_bind]
  simp [hu, hp, flatPairs_length]

theorem crCAs_rt (cas : List Bytes) (hok : (cas.all fun c => decide (c.length < 65536)) = true)
    (hn : (flatCAs cas).length < 65536) :
    crCAs (len2 (flatCAs cas).length ++ flatCAs cas) = .ok cas := by
  have hu := u16_bytes (flatCAs cas).length hn
  have hsub : sub (flatCAs cas) 0 (flatCAs cas).length = .ok (flatCAs cas) := by
    have := L_sub [] (flatCAs cas) [] 0 (flatCAs cas).length rfl (by simp)
    simpa using this
  have hr := readCAs_flat cas ((flatCAs cas).length + 1) hok (by have := flatCAs_length_ge cas; omega)
  unfold crCAs
  simp only [len2, List.cons_append, List.nil_append]
  simp only [require_bind, idx_bind, tail_bind]
  simp [hu, hsub, hr]
  exact decide_eq_false (by omega)

theorem umCertReq_rt (has : Bool) (m : CertReq) (hwf : m.wf has = true) : umCertReq has (mCertReq has m) = .ok m := by
  obtain ⟨types, sh, cas⟩ := m
  simp only [CertReq.wf, Bool.and_eq_true, decide_eq_true_eq, Bool.or_eq_true, List.isEmpty_iff] at hwf
  obtain ⟨⟨⟨⟨⟨⟨h0, h255⟩, hhas⟩, hsh⟩, hok⟩, hcl⟩, hL⟩ := hwf
  unfold umCertReq mCertReq
  simp only []
  generalize hrest : (if has = true then len2 (2 * sh.length) ++ flatPairs sh else []) ++
      len2 (flatCAs cas).length ++ flatCAs cas = rest
  have hbody : byte0 types.length :: types ++ (if has = true then len2 (2 * sh.length) ++ flatPairs sh else []) ++
      len2 (flatCAs cas).length ++ flatCAs cas = byte0 types.length :: types ++ rest := by
    subst hrest; simp
  rw [hbody]
  have hrpos : 0 < rest.length := by subst hrest; simp [len2]; omega
  have hLb : (byte0 types.length :: types ++ rest).length < 16777216 := by
    have : (mCertReq has ⟨types, sh, cas⟩).length - 4 = (byte0 types.length :: types ++ rest).length := by
      unfold mCertReq; simp only []; rw [hbody]; simp [len3]
    omega
  unfold len3
  rw [crHead_rt types rest _ _ _ (u24_bytes _ hLb) h0 h255 hrpos]
  simp only [ok_bind]
  subst hrest
  cases has
  · have : sh = [] := by rcases hhas with h | h; cases h; exact h
    subst this
    simp only [Bool.false_eq_true, if_false, List.nil_append, crSigs, pure_eq, ok_bind]
    rw [crCAs_rt cas hok hcl]; rfl
  · simp only [if_true, List.append_assoc]
    rw [crSigs_rt_true sh _ hsh]
    simp only [ok_bind]
    rw [crCAs_rt cas hok hcl]; rfl

/-! ### certificate -/

def certsOK (cs : List Bytes) : Bool := cs.all fun c => decide (0 < c.length) && decide (c.length < 16777216)

theorem certBody_length_ge (cs : List Bytes) : cs.length ≤ (certBody cs).length := by
  induction cs with
  | nil => simp [certBody]
  | cons c cs ih => simp [certBody, len3]; omega

theorem countCerts_body : ∀ (cs : List Bytes) (fuel n : Nat), certsOK cs = true → cs.length < fuel →
    countCerts fuel (certBody cs) (certBody cs).length n = .ok (n + cs.length) := by
  intro cs
  induction cs with
  | nil =>
    intro fuel n _ hf
    cases fuel with
    | zero => omega
    | succ f => simp [countCerts, certBody]
  | cons c cs ih =>
    intro fuel n hok hf
    cases fuel with
    | zero => omega
    | succ f =>
      have hs : 0 < c.length ∧ c.length < 16777216 ∧ certsOK cs = true := by
        simp only [certsOK, List.all_cons, Bool.and_eq_true, decide_eq_true_eq] at hok
        exact ⟨hok.1.1, hok.1.2, hok.2⟩
      have hf' : cs.length < f := by simp only [List.length_cons] at hf; omega
      have hu := u24_bytes c.length hs.2.1
      have htl := L_tail (len3 c.length ++ c) (certBody cs) (3 + c.length) (by simp [len3]; omega)
      have hlen : (len3 c.length ++ c ++ certBody cs).length = 3 + c.length + (certBody cs).length := by
        simp [len3]; omega
      have h0 : idx (len3 c.length ++ c ++ certBody cs) 0 = .ok (byte2 c.length) := by simp [len3, idx_eq]
      have h1 : idx (len3 c.length ++ c ++ certBody cs) 1 = .ok (byte1 c.length) := by simp [len3, idx_eq]
      have h2 : idx (len3 c.length ++ c ++ certBody cs) 2 = .ok (byte0 c.length) := by simp [len3, idx_eq]
      have hcb : certBody (c :: cs) = len3 c.length ++ c ++ certBody cs := rfl
      rw [hcb]
      generalize len3 c.length ++ c ++ certBody cs = d at htl hlen h0 h1 h2 ⊢
      rw [countCerts]
      rw [if_pos (by omega)]
      have c1 : (d.length < 4) = False := by simp; omega
      simp only [require_bind, c1, decide_false, Bool.not_false, if_true, h0, h1, h2, ok_bind, hu]
      have c2 : (d.length < 3 + c.length) = False := by simp; omega
      simp only [c2, decide_false, Bool.not_false, if_true, htl, ok_bind]
      rw [show d.length - (3 + c.length) = (certBody cs).length by omega]
      rw [ih f (n + 1) hs.2.2 hf']
      simp only [List.length_cons]
      congr 1; omega

theorem sliceCerts_body : ∀ (cs : List Bytes), certsOK cs = true → sliceCerts cs.length (certBody cs) = .ok cs := by
  intro cs
  induction cs with
  | nil => intro _; rfl
  | cons c cs ih =>
    intro hok
    have hs : 0 < c.length ∧ c.length < 16777216 ∧ certsOK cs = true := by
      simp only [certsOK, List.all_cons, Bool.and_eq_true, decide_eq_true_eq] at hok
      exact ⟨hok.1.1, hok.1.2, hok.2⟩
    have hu := u24_bytes c.length hs.2.1
    have htl := L_tail (len3 c.length ++ c) (certBody cs) (3 + c.length) (by simp [len3]; omega)
    have hsub := L_sub (len3 c.length) c (certBody cs) 3 (3 + c.length) (by simp [len3]) (by simp [len3])
    have h0 : idx (len3 c.length ++ (c ++ certBody cs)) 0 = .ok (byte2 c.length) := by simp [len3, idx_eq]
    have h1 : idx (len3 c.length ++ (c ++ certBody cs)) 1 = .ok (byte1 c.length) := by simp [len3, idx_eq]
    have h2 : idx (len3 c.length ++ (c ++ certBody cs)) 2 = .ok (byte0 c.length) := by simp [len3, idx_eq]
    have hcb : certBody (c :: cs) = len3 c.length ++ (c ++ certBody cs) := by simp [certBody]
    have htl' : tail (len3 c.length ++ (c ++ certBody cs)) (3 + c.length) = .ok (certBody cs) := by
      rw [← List.append_assoc]; exact htl
    rw [hcb]
    generalize len3 c.length ++ (c ++ certBody cs) = d at htl' hsub h0 h1 h2 ⊢
    simp only [List.length_cons, sliceCerts]
    simp only [h0, h1, h2, ok_bind, hu, htl', hsub, ih hs.2.2, pure_eq]

theorem umCertificate_rt (cs : List Bytes) (hok : certsOK cs = true) (hl : (certBody cs).length + 3 < 16777216) :
    umCertificate (mCertificate cs) = .ok cs := by
  unfold mCertificate
  simp only []
  have hu := u24_bytes (certBody cs).length (by omega)
  unfold len3
  generalize byte2 (3 + (certBody cs).length) = a2; generalize byte1 (3 + (certBody cs).length) = a1
  generalize byte0 (3 + (certBody cs).length) = a0
  have hdata : (11 : UInt8) :: [a2, a1, a0] ++ [byte2 (certBody cs).length, byte1 (certBody cs).length, byte0 (certBody cs).length]
      ++ certBody cs = [11, a2, a1, a0, byte2 (certBody cs).length, byte1 (certBody cs).length, byte0 (certBody cs).length]
        ++ certBody cs := by simp
  rw [hdata]
  have ht7 := L_tail [11, a2, a1, a0, byte2 (certBody cs).length, byte1 (certBody cs).length, byte0 (certBody cs).length]
    (certBody cs) 7 rfl
  unfold umCertificate
  simp only [require_bind, idx_bind, ht7]
  simp [hu]
  rw [countCerts_body cs _ 0 hok (by have := certBody_length_ge cs; omega)]
  simp [sliceCerts_body cs hok]

end BfeVerif.C45
