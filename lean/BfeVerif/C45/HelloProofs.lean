import BfeVerif.C45.Hello
import BfeVerif.C45.Proofs
/-! C45 — lemmas for the hello / certificateRequest models: parse safety. -/
namespace BfeVerif.C45

/-- a result that is not a crash stays not a crash under a continuation that never crashes -/
theorem bind_ne_crash {α β : Type} (x : Res α) (f : α → Res β) (hx : x ≠ .crash) (hf : ∀ a, f a ≠ .crash) :
    (x >>= f) ≠ .crash := by
  cases x with
  | ok a => exact hf a
  | rej => simp
  | crash => exact absurd rfl hx

theorem idx_drop (d : Bytes) (k j : Nat) : idx (d.drop k) j = idx d (k + j) := by
  simp only [idx_eq, List.length_drop]
  by_cases h : k + j < d.length
  · rw [dif_pos h, dif_pos (by omega)]; simp
  · rw [dif_neg h, dif_neg (by omega)]

/-! ### readPairs -/
theorem readPairs_ok : ∀ (n : Nat) (d : Bytes), 2 * n ≤ d.length → ∃ l, readPairs n d = .ok l := by
  intro n
  induction n with
  | zero => intro d _; exact ⟨[], rfl⟩
  | succ n ih =>
    intro d h
    obtain ⟨l, hl⟩ := ih (d.drop 2) (by simp; omega)
    refine ⟨(d[0], d[1]) :: l, ?_⟩
    unfold readPairs
    simp only [idx_bind, tail_bind, dif_pos (show 0 < d.length by omega), dif_pos (show 1 < d.length by omega),
      if_pos (show 2 ≤ d.length by omega), hl, ok_bind, pure_eq]

theorem readPairs_total (n : Nat) (d : Bytes) (h : 2 * n ≤ d.length) : readPairs n d ≠ .crash := by
  obtain ⟨l, hl⟩ := readPairs_ok n d h; rw [hl]; simp

/-! ### readStrings -/
theorem readStrings_total : ∀ (fuel : Nat) (d : Bytes), readStrings fuel d ≠ .crash := by
  intro fuel
  induction fuel with
  | zero => intro d; simp [readStrings]
  | succ fuel ih =>
    intro d
    unfold readStrings
    split
    · simp
    · rename_i hne
      have h0 : 0 < d.length := by omega
      simp only [idx_bind, tail_bind, require_bind, sub_bind, dif_pos h0, if_pos (show 1 ≤ d.length by omega)]
      split
      · rename_i hc
        have hc' : ¬ (d[0].toNat = 0) ∧ d[0].toNat ≤ (d.drop 1).length := by
          simp only [List.length_drop] at hc ⊢
          simp at hc; constructor <;> omega
        rw [if_pos ⟨Nat.zero_le _, hc'.2⟩, if_pos hc'.2]
        exact bind_ne_crash _ _ (ih _) (by intro a; simp)
      · simp

/-! ### sniLoop -/
theorem sniLoop_total : ∀ (n : Nat) (d : Bytes), sniLoop n d ≠ .crash := by
  intro n
  induction n with
  | zero => intro d; simp [sniLoop]
  | succ n ih =>
    intro d
    unfold sniLoop
    by_cases h3 : d.length < 3
    · simp [require_bind, h3]
    · simp only [require_bind, idx_bind, tail_bind, sub_bind, dif_pos (show 0 < d.length by omega),
        dif_pos (show 1 < d.length by omega), dif_pos (show 2 < d.length by omega), if_pos (show 3 ≤ d.length by omega)]
      simp only [h3, decide_false, Bool.not_false, if_true]
      split
      · rename_i hc
        have hle : u16 d[1] d[2] ≤ (d.drop 3).length := by simp at hc; simpa using hc
        split
        · first | (rw [if_pos ⟨Nat.zero_le _, hle⟩]; simp) | simp
        · first | (rw [if_pos hle]; exact ih _) | exact ih _
      · simp

/-! ### readSuites (indexed) = readPairs on the shifted slice -/
theorem readSuites_eq : ∀ (n i : Nat) (data : Bytes), 2 + 2 * (i + n) ≤ data.length →
    readSuites data i n = readPairs n (data.drop (2 + 2 * i)) := by
  intro n
  induction n with
  | zero => intro i data _; simp [readSuites, readPairs]
  | succ n ih =>
    intro i data h
    unfold readSuites readPairs
    rw [ih (i + 1) data (by omega)]
    rw [idx_drop, idx_drop]
    have hc : 2 ≤ data.length - (2 + 2 * i) := by omega
    have e2 : 2 + 2 * i + 1 = 3 + 2 * i := by omega
    have e3 : 2 + 2 * i + 2 = 2 + 2 * (i + 1) := by omega
    simp only [tail_bind, List.length_drop, List.drop_drop, hc, if_true, Nat.add_zero, e2, e3]

/-! ### the extension loop -/
theorem extLoop_total {σ : Type} (h : U16 → Bytes → Nat → σ → Res σ)
    (hh : ∀ e data length s, length ≤ data.length → h e data length s ≠ .crash) :
    ∀ (fuel : Nat) (data : Bytes) (s : σ), extLoop h fuel data s ≠ .crash := by
  intro fuel
  induction fuel with
  | zero => intro d s; simp [extLoop]
  | succ fuel ih =>
    intro d s
    unfold extLoop
    split
    · simp
    · by_cases h4 : d.length < 4
      · simp [require_bind, h4]
      · simp only [require_bind, idx_bind, tail_bind, dif_pos (show 0 < d.length by omega),
          dif_pos (show 1 < d.length by omega), dif_pos (show 2 < d.length by omega),
          dif_pos (show 3 < d.length by omega), if_pos (show 4 ≤ d.length by omega)]
        simp only [h4, decide_false, Bool.not_false, if_true]
        split
        · rename_i hc
          have hle : u16 d[2] d[3] ≤ (d.drop 4).length := by simp at hc; simpa using hc
          apply bind_ne_crash _ _ (hh _ _ _ _ hle)
          intro s'
          rw [if_pos hle]
          exact ih _ _
        · simp

theorem extBlock_total {σ : Type} (h : U16 → Bytes → Nat → σ → Res σ)
    (hh : ∀ e data length s, length ≤ data.length → h e data length s ≠ .crash) (data : Bytes) (s : σ) :
    extBlock h data s ≠ .crash := by
  unfold extBlock
  split
  · simp
  · by_cases h2 : data.length < 2
    · simp [require_bind, h2]
    · simp only [require_bind, idx_bind, tail_bind, dif_pos (show 0 < data.length by omega),
        dif_pos (show 1 < data.length by omega), if_pos (show 2 ≤ data.length by omega)]
      simp only [h2, decide_false, Bool.not_false, if_true]
      split
      · exact extLoop_total h hh _ _ _
      · simp

/-! ### the per-extension parsers never crash when `length ≤ len(data)` (what the loop checked) -/

theorem chSNI_total (data : Bytes) (length : Nat) (m : ClientHello) (hl : length ≤ data.length) :
    chSNI data length m ≠ .crash := by
  unfold chSNI
  by_cases h2 : length < 2
  · simp [require_bind, h2]
  · simp only [require_bind, idx_bind, tail_bind, dif_pos (show 0 < data.length by omega),
      dif_pos (show 1 < data.length by omega), if_pos (show 2 ≤ data.length by omega)]
    simp only [h2, decide_false, Bool.not_false, if_true]
    apply bind_ne_crash _ _ (sniLoop_total _ _)
    intro r; cases r <;> simp

theorem chNPN_total (length : Nat) (m : ClientHello) : chNPN length m ≠ .crash := by
  unfold chNPN; simp only [require_bind]; split <;> simp

theorem chOCSP_total (data : Bytes) (length : Nat) (m : ClientHello) (hl : length ≤ data.length) :
    chOCSP data length m ≠ .crash := by
  unfold chOCSP
  split
  · simp only [idx_bind, dif_pos (show 0 < data.length by omega)]; simp
  · simp

theorem chCurves_total (data : Bytes) (length : Nat) (m : ClientHello) (hl : length ≤ data.length) :
    chCurves data length m ≠ .crash := by
  unfold chCurves
  by_cases h2 : length < 2
  · simp [require_bind, h2]
  · simp only [require_bind, idx_bind, tail_bind, dif_pos (show 0 < data.length by omega),
      dif_pos (show 1 < data.length by omega), if_pos (show 2 ≤ data.length by omega)]
    simp only [h2, decide_false, Bool.not_false, if_true]
    split
    · rename_i hc
      have hc' : ¬ (u16 data[0] data[1] % 2 = 1) ∧ length = u16 data[0] data[1] + 2 := by
        simpa using hc
      apply bind_ne_crash _ _ (readPairs_total _ _ (by simp only [List.length_drop]; omega))
      intro a; simp
    · simp

theorem chPoints_total (data : Bytes) (length : Nat) (m : ClientHello) (hl : length ≤ data.length) :
    chPoints data length m ≠ .crash := by
  unfold chPoints
  by_cases h1 : length < 1
  · simp [require_bind, h1]
  · simp only [require_bind, idx_bind, tail_bind, dif_pos (show 0 < data.length by omega),
      if_pos (show 1 ≤ data.length by omega)]
    simp only [h1, decide_false, Bool.not_false, if_true]
    split <;> simp

theorem chTicket_total (data : Bytes) (length : Nat) (m : ClientHello) (hl : length ≤ data.length) :
    chTicket data length m ≠ .crash := by
  unfold chTicket
  simp only [sub_bind, if_pos (show 0 ≤ length ∧ length ≤ data.length from ⟨Nat.zero_le _, hl⟩)]; simp

theorem chSigs_total (data : Bytes) (length : Nat) (m : ClientHello) (hl : length ≤ data.length) :
    chSigs data length m ≠ .crash := by
  unfold chSigs
  simp only [require_bind]
  split
  · rename_i hc
    have hc' : ¬ (length < 2) ∧ length % 2 = 0 := by simpa using hc
    simp only [idx_bind, tail_bind, require_bind, dif_pos (show 0 < data.length by omega),
      dif_pos (show 1 < data.length by omega), if_pos (show 2 ≤ data.length by omega)]
    split
    · rename_i hd
      have hd' : u16 data[0] data[1] = length - 2 := by simpa using hd
      apply bind_ne_crash _ _ (readPairs_total _ _ (by simp only [List.length_drop]; omega))
      intro a; simp
    · simp
  · simp

theorem chReneg_total (data : Bytes) (length : Nat) (m : ClientHello) (hl : length ≤ data.length) :
    chReneg data length m ≠ .crash := by
  unfold chReneg
  simp only [require_bind, idx_bind]
  split
  · rename_i hc
    have : length = 1 := by simpa using hc
    rw [dif_pos (show 0 < data.length by omega)]
    split <;> simp
  · simp

theorem chALPN_total (data : Bytes) (length : Nat) (m : ClientHello) (hl : length ≤ data.length) :
    chALPN data length m ≠ .crash := by
  unfold chALPN
  by_cases h2 : length < 2
  · simp [require_bind, h2]
  · simp only [require_bind, idx_bind, sub_bind, dif_pos (show 0 < data.length by omega),
      dif_pos (show 1 < data.length by omega)]
    simp only [h2, decide_false, Bool.not_false, if_true]
    split
    · rw [if_pos ⟨by omega, hl⟩]
      apply bind_ne_crash _ _ (readStrings_total _ _)
      intro a; simp
    · simp

theorem ite_ne_crash {α : Type} (c : Prop) [Decidable c] (a b : Res α) (ha : a ≠ .crash) (hb : b ≠ .crash) :
    (if c then a else b) ≠ .crash := by
  split <;> assumption

theorem chSwitch_total (e : U16) (data : Bytes) (length : Nat) (m : ClientHello) (hl : length ≤ data.length) :
    chSwitch e data length m ≠ .crash := by
  unfold chSwitch
  refine ite_ne_crash _ _ _ (chSNI_total _ _ _ hl) ?_
  refine ite_ne_crash _ _ _ (chNPN_total _ _) ?_
  refine ite_ne_crash _ _ _ (chOCSP_total _ _ _ hl) ?_
  refine ite_ne_crash _ _ _ (chCurves_total _ _ _ hl) ?_
  refine ite_ne_crash _ _ _ (chPoints_total _ _ _ hl) ?_
  refine ite_ne_crash _ _ _ (chTicket_total _ _ _ hl) ?_
  refine ite_ne_crash _ _ _ (chSigs_total _ _ _ hl) ?_
  refine ite_ne_crash _ _ _ (chReneg_total _ _ _ hl) ?_
  refine ite_ne_crash _ _ _ (chALPN_total _ _ _ hl) ?_
  refine ite_ne_crash _ _ _ (by simp) (by simp)

theorem chExt_total (e : U16) (data : Bytes) (length : Nat) (m : ClientHello) (hl : length ≤ data.length) :
    chExt e data length m ≠ .crash := chSwitch_total _ _ _ _ hl

theorem shNPN_total (data : Bytes) (length : Nat) (m : ServerHello) (hl : length ≤ data.length) :
    shNPN data length m ≠ .crash := by
  unfold shNPN
  simp only [sub_bind, if_pos (show 0 ≤ length ∧ length ≤ data.length from ⟨Nat.zero_le _, hl⟩)]
  apply bind_ne_crash _ _ (readStrings_total _ _)
  intro a; simp

theorem shReneg_total (data : Bytes) (length : Nat) (m : ServerHello) (hl : length ≤ data.length) :
    shReneg data length m ≠ .crash := by
  unfold shReneg
  simp only [require_bind, idx_bind]
  split
  · rename_i hc
    have : length = 1 := by simpa using hc
    rw [dif_pos (show 0 < data.length by omega)]
    split <;> simp
  · simp

theorem shALPN_total (data : Bytes) (length : Nat) (m : ServerHello) (hl : length ≤ data.length) :
    shALPN data length m ≠ .crash := by
  unfold shALPN
  simp only [sub_bind, if_pos (show 0 ≤ length ∧ length ≤ data.length from ⟨Nat.zero_le _, hl⟩)]
  generalize List.drop 0 (List.take length data) = d
  by_cases h3 : d.length < 3
  · simp [require_bind, h3]
  · simp only [require_bind, idx_bind, tail_bind, dif_pos (show 0 < d.length by omega),
      dif_pos (show 1 < d.length by omega), if_pos (show 2 ≤ d.length by omega)]
    simp only [h3, decide_false, Bool.not_false, if_true]
    split
    · rw [dif_pos (show 0 < (d.drop 2).length by simp only [List.length_drop]; omega)]
      split
      · rw [if_pos (show 1 ≤ (d.drop 2).length by simp only [List.length_drop]; omega)]; simp
      · simp
    · simp

theorem shExt_total (e : U16) (data : Bytes) (length : Nat) (m : ServerHello) (hl : length ≤ data.length) :
    shExt e data length m ≠ .crash := by
  unfold shExt
  refine ite_ne_crash _ _ _ (shNPN_total _ _ _ hl) ?_
  refine ite_ne_crash _ _ _ (by unfold shOCSP; simp only [require_bind]; split <;> simp) ?_
  refine ite_ne_crash _ _ _ (by unfold shTicket; simp only [require_bind]; split <;> simp) ?_
  refine ite_ne_crash _ _ _ (shReneg_total _ _ _ hl) ?_
  refine ite_ne_crash _ _ _ (shALPN_total _ _ _ hl) (by simp)

/-! ### stages of the hello parsers -/

theorem helloFixed_total (data : Bytes) : helloFixed data ≠ .crash := by
  unfold helloFixed
  by_cases h42 : data.length < 42
  · simp [require_bind, h42]
  · simp only [require_bind, idx_bind, sub_bind, tail_bind, dif_pos (show 4 < data.length by omega),
      dif_pos (show 5 < data.length by omega), dif_pos (show 38 < data.length by omega),
      if_pos (show 6 ≤ 38 ∧ 38 ≤ data.length from ⟨by omega, by omega⟩)]
    simp only [h42, decide_false, Bool.not_false, if_true]
    split
    · rename_i hc
      have hc' : ¬ (data[38].toNat > 32) ∧ ¬ (data.length < 39 + data[38].toNat) := by simpa using hc
      rw [if_pos ⟨by omega, by omega⟩, if_pos (by omega)]; simp
    · simp

theorem chBody_total (data : Bytes) : chBody data ≠ .crash := by
  unfold chBody
  by_cases h2 : data.length < 2
  · simp [require_bind, h2]
  · simp only [require_bind, idx_bind, dif_pos (show 0 < data.length by omega), dif_pos (show 1 < data.length by omega)]
    simp only [h2, decide_false, Bool.not_false, if_true]
    split
    · rename_i hc
      have hc' : ¬ (u16 data[0] data[1] % 2 = 1) ∧ ¬ (data.length < 2 + u16 data[0] data[1]) := by simpa using hc
      rw [readSuites_eq _ _ _ (by omega)]
      obtain ⟨l, hl⟩ := readPairs_ok (u16 data[0] data[1] / 2) (data.drop (2 + 2 * 0)) (by simp only [List.length_drop]; omega)
      rw [hl]
      simp only [ok_bind, tail_bind]
      rw [if_pos (by omega)]
      generalize List.drop (2 + u16 data[0] data[1]) data = d
      by_cases h1 : d.length < 1
      · simp [require_bind, h1]
      · simp only [require_bind, idx_bind, sub_bind, tail_bind, dif_pos (show 0 < d.length by omega)]
        simp only [h1, decide_false, Bool.not_false, if_true]
        split
        · rename_i hd
          have hd' : ¬ (d.length < 1 + d[0].toNat) := by simpa using hd
          rw [if_pos ⟨by omega, by omega⟩, if_pos (by omega)]; simp
        · simp
    · simp

theorem shBody_total (data : Bytes) : shBody data ≠ .crash := by
  unfold shBody
  by_cases h3 : data.length < 3
  · simp [require_bind, h3]
  · simp only [require_bind, idx_bind, tail_bind, dif_pos (show 0 < data.length by omega),
      dif_pos (show 1 < data.length by omega), dif_pos (show 2 < data.length by omega), if_pos (show 3 ≤ data.length by omega)]
    simp [h3]

theorem umClientHello_total (data : Bytes) : umClientHello data ≠ .crash := by
  unfold umClientHello
  apply bind_ne_crash _ _ (helloFixed_total _)
  intro f
  apply bind_ne_crash _ _ (chBody_total _)
  intro b
  exact extBlock_total _ chExt_total _ _

theorem umServerHello_total (data : Bytes) : umServerHello data ≠ .crash := by
  unfold umServerHello
  apply bind_ne_crash _ _ (helloFixed_total _)
  intro f
  apply bind_ne_crash _ _ (shBody_total _)
  intro b
  exact extBlock_total _ shExt_total _ _

/-! ### certificateRequest -/

theorem readCAs_total : ∀ (fuel : Nat) (d : Bytes), readCAs fuel d ≠ .crash := by
  intro fuel
  induction fuel with
  | zero => intro d; simp [readCAs]
  | succ fuel ih =>
    intro d
    unfold readCAs
    split
    · by_cases h2 : d.length < 2
      · simp [require_bind, h2]
      · simp only [require_bind, idx_bind, tail_bind, sub_bind, dif_pos (show 0 < d.length by omega),
          dif_pos (show 1 < d.length by omega), if_pos (show 2 ≤ d.length by omega)]
        simp only [h2, decide_false, Bool.not_false, if_true]
        split
        · rename_i hc
          have hle : u16 d[0] d[1] ≤ (d.drop 2).length := by simp at hc; simpa using hc
          rw [if_pos ⟨Nat.zero_le _, hle⟩, if_pos hle]
          exact bind_ne_crash _ _ (ih _) (by intro a; simp)
        · simp
    · simp

theorem crHead_total (data : Bytes) : crHead data ≠ .crash := by
  unfold crHead
  by_cases h5 : data.length < 5
  · simp [require_bind, h5]
  · simp only [require_bind, idx_bind, tail_bind, sub_bind, dif_pos (show 1 < data.length by omega),
      dif_pos (show 2 < data.length by omega), dif_pos (show 3 < data.length by omega),
      dif_pos (show 4 < data.length by omega), if_pos (show 5 ≤ data.length by omega)]
    simp only [h5, decide_false, Bool.not_false, if_true]
    split
    · split
      · rename_i hc
        have hc' : ¬ (data[4].toNat = 0) ∧ ¬ ((data.drop 5).length ≤ data[4].toNat) := by simpa using hc
        rw [if_pos ⟨Nat.zero_le _, by omega⟩, if_pos (by omega)]; simp
      · simp
    · simp

theorem crSigs_total (has : Bool) (data : Bytes) : crSigs has data ≠ .crash := by
  unfold crSigs
  split
  · by_cases h2 : data.length < 2
    · simp [require_bind, h2]
    · simp only [require_bind, idx_bind, tail_bind, dif_pos (show 0 < data.length by omega),
        dif_pos (show 1 < data.length by omega), if_pos (show 2 ≤ data.length by omega)]
      simp only [h2, decide_false, Bool.not_false, if_true]
      split
      · split
        · rename_i hc hd
          have hle : u16 data[0] data[1] ≤ (data.drop 2).length := by simp at hd; simpa using hd
          obtain ⟨l, hl⟩ := readPairs_ok (u16 data[0] data[1] / 2) (data.drop 2) (by omega)
          rw [hl]
          simp only [ok_bind]
          rw [if_pos (by omega)]; simp
        · simp
      · simp
  · simp

theorem crCAs_total (data : Bytes) : crCAs data ≠ .crash := by
  unfold crCAs
  by_cases h2 : data.length < 2
  · simp [require_bind, h2]
  · simp only [require_bind, idx_bind, tail_bind, sub_bind, dif_pos (show 0 < data.length by omega),
      dif_pos (show 1 < data.length by omega), if_pos (show 2 ≤ data.length by omega)]
    simp only [h2, decide_false, Bool.not_false, if_true]
    split
    · rename_i hc
      have hle : u16 data[0] data[1] ≤ (data.drop 2).length := by simp at hc; simpa using hc
      rw [if_pos ⟨Nat.zero_le _, hle⟩, if_pos hle]
      apply bind_ne_crash _ _ (readCAs_total _ _)
      intro l; split <;> simp
    · simp

theorem umCertReq_total (has : Bool) (data : Bytes) : umCertReq has data ≠ .crash := by
  unfold umCertReq
  apply bind_ne_crash _ _ (crHead_total _); intro h
  apply bind_ne_crash _ _ (crSigs_total _ _); intro s
  apply bind_ne_crash _ _ (crCAs_total _); intro l
  simp

/-! ### nextProto, certificateVerify -/

theorem umNextProto_total (d : Bytes) : umNextProto d ≠ .crash := by
  unfold umNextProto
  by_cases h5 : d.length < 5
  · simp [require_bind, h5]
  · simp only [require_bind, tail_bind, if_pos (show 4 ≤ d.length by omega)]
    simp only [h5, decide_false, Bool.not_false, if_true]
    have hl4 : 0 < (d.drop 4).length := by simp only [List.length_drop]; omega
    generalize d.drop 4 = d4 at hl4 ⊢
    simp only [idx_bind, dif_pos hl4, tail_bind, if_pos (show 1 ≤ d4.length by omega), require_bind, sub_bind]
    split
    · rename_i hc
      have hle : d4[0].toNat ≤ (d4.drop 1).length := by simp at hc; simpa using hc
      rw [if_pos ⟨Nat.zero_le _, hle⟩, if_pos hle]
      generalize (d4.drop 1).drop d4[0].toNat = d5
      by_cases h1 : d5.length < 1
      · simp [h1]
      · simp only [h1, decide_false, Bool.not_false, if_true, dif_pos (show 0 < d5.length by omega),
          if_pos (show 1 ≤ d5.length by omega)]
        split <;> simp
    · simp

theorem cvTail_total (data : Bytes) (h g : UInt8) :
    (do
      require (!(data.length < 2))
      let x ← idx data 0; let y ← idx data 1
      let data ← tail data 2
      require (data.length == u16 x y)
      (pure (h, g, data) : Res (UInt8 × UInt8 × Bytes))) ≠ .crash := by
  by_cases h2 : data.length < 2
  · simp [require_bind, h2]
  · simp only [require_bind, idx_bind, tail_bind, dif_pos (show 0 < data.length by omega),
      dif_pos (show 1 < data.length by omega), if_pos (show 2 ≤ data.length by omega)]
    simp only [h2, decide_false, Bool.not_false, if_true]
    split <;> simp

theorem umCertificateVerify_total (has : Bool) (d : Bytes) : umCertificateVerify has d ≠ .crash := by
  unfold umCertificateVerify
  by_cases h6 : d.length < 6
  · simp [require_bind, h6]
  · simp only [require_bind, idx_bind, tail_bind, dif_pos (show 1 < d.length by omega),
      dif_pos (show 2 < d.length by omega), dif_pos (show 3 < d.length by omega), if_pos (show 4 ≤ d.length by omega)]
    simp only [h6, decide_false, Bool.not_false, if_true]
    split
    · have hl4 : 2 ≤ (d.drop 4).length := by simp only [List.length_drop]; omega
      generalize d.drop 4 = d4 at hl4 ⊢
      cases has
      · simp only [Bool.false_eq_true, if_false]
        have := cvTail_total d4 0 0
        simp only [require_bind, idx_bind, tail_bind] at this
        exact this
      · simp only [if_true, dif_pos (show 0 < d4.length by omega), dif_pos (show 1 < d4.length by omega),
          if_pos hl4]
        have := cvTail_total (d4.drop 2) d4[0] d4[1]
        simp only [require_bind, idx_bind, tail_bind] at this
        exact this
    · simp

end BfeVerif.C45
