import BfeVerif.C45.Hello
/-! C45 — readHandshake: the result does not depend on how the message bytes are cut into records. -/
namespace BfeVerif.C45

theorem fillHand_spec (hv : Bool) (need : Nat) : ∀ (rs : List Bytes) (hand : Bytes), recordsOK hv rs = true →
    ((hand ++ rs.flatten).length < need → fillHand hv need rs hand = .error .eof) ∧
    (need ≤ (hand ++ rs.flatten).length → ∃ hand' rest, fillHand hv need rs hand = .ok (hand', rest) ∧
        hand' ++ rest.flatten = hand ++ rs.flatten ∧ need ≤ hand'.length ∧ recordsOK hv rest = true) := by
  intro rs
  induction rs with
  | nil =>
    intro hand _
    simp only [List.flatten_nil, List.append_nil, fillHand]
    constructor
    · intro h; rw [if_neg (by omega)]
    · intro h; rw [if_pos h]; exact ⟨hand, [], rfl, by simp, h, rfl⟩
  | cons r rest ih =>
    intro hand hok
    have hr : r.length ≤ 16384 ∧ (hv = true ∨ r.length < 0x3000) ∧ recordsOK hv rest = true := by
      simp only [recordsOK, List.all_cons, Bool.and_eq_true, decide_eq_true_eq, Bool.or_eq_true] at hok
      exact ⟨hok.1.1, hok.1.2, hok.2⟩
    have hflat : hand ++ (r :: rest).flatten = (hand ++ r) ++ rest.flatten := by simp
    obtain ⟨ih1, ih2⟩ := ih (hand ++ r) hr.2.2
    rw [fillHand]
    by_cases hn : hand.length ≥ need
    · rw [if_pos hn]
      constructor
      · intro h; simp only [List.length_append] at h; omega
      · intro _; exact ⟨hand, r :: rest, rfl, rfl, hn, hok⟩
    · rw [if_neg hn, if_neg (by omega)]
      have h2 : (!hv && decide (r.length ≥ 0x3000)) = false := by
        rcases hr.2.1 with h | h
        · simp [h]
        · simp; intro _; omega
      simp only [h2, Bool.false_eq_true, if_false]
      rw [if_neg (by omega), hflat]
      exact ⟨ih1, ih2⟩

theorem readHandshake_chunking (hv : Bool) (rs : List Bytes) (hok : recordsOK hv rs = true) :
    readHandshakeBytes hv rs = hsSpec rs.flatten := by
  unfold readHandshakeBytes readHandshakeStep hsSpec
  obtain ⟨f1, f2⟩ := fillHand_spec hv 4 rs [] hok
  simp only [List.nil_append] at f1 f2
  by_cases h4 : rs.flatten.length < 4
  · rw [f1 h4, if_pos h4]
  · obtain ⟨hand, rest, hfill, hcat, hlen, hokr⟩ := f2 (by omega)
    rw [hfill, if_neg h4]
    simp only []
    have hget : ∀ i, i < 4 → hand.getD i 0 = rs.flatten.getD i 0 := by
      intro i hi
      rw [← hcat]
      simp only [List.getD_eq_getElem?_getD]
      rw [List.getElem?_append_left (by omega)]
    rw [hget 1 (by omega), hget 2 (by omega), hget 3 (by omega)]
    generalize u24 (rs.flatten.getD 1 0) (rs.flatten.getD 2 0) (rs.flatten.getD 3 0) = n
    by_cases hn : n > 65536
    · rw [if_pos hn, if_pos hn]
    · rw [if_neg hn, if_neg hn]
      obtain ⟨g1, g2⟩ := fillHand_spec hv (4 + n) rest hand hokr
      rw [hcat] at g1 g2
      by_cases hl : rs.flatten.length < 4 + n
      · rw [g1 hl, if_pos hl]
      · obtain ⟨hand2, rest2, hfill2, hcat2, hlen2, _⟩ := g2 (by omega)
        rw [hfill2, if_neg hl]
        simp only []
        rw [← hcat2, List.take_append_of_le_length hlen2]

end BfeVerif.C45
