import BfeVerif.C45.Driver
def main : IO Unit := BfeVerif.Proto.driverMain BfeVerif.C45.run
