import BfeVerif.C45.Model
/-! C45 helper lemmas -/
namespace BfeVerif.C45

@[simp] theorem ok_bind {α β : Type} (a : α) (f : α → Res β) : (Res.ok a >>= f) = f a := rfl
@[simp] theorem rej_bind {α β : Type} (f : α → Res β) : ((Res.rej : Res α) >>= f) = .rej := rfl
@[simp] theorem crash_bind {α β : Type} (f : α → Res β) : ((Res.crash : Res α) >>= f) = .crash := rfl
@[simp] theorem pure_eq {α : Type} (a : α) : (pure a : Res α) = .ok a := rfl

theorem idx_eq (d : Bytes) (i : Nat) : idx d i = if h : i < d.length then .ok d[i] else .crash := rfl

theorem require_eq (c : Bool) : require c = if c then .ok () else .rej := rfl

/-- bind of a `require`: either rejects or continues -/
theorem require_bind {β : Type} (c : Bool) (f : Unit → Res β) :
    (require c >>= f) = if c then f () else .rej := by
  unfold require; split <;> rfl

theorem idx_bind {β : Type} (d : Bytes) (i : Nat) (f : UInt8 → Res β) :
    (idx d i >>= f) = if h : i < d.length then f d[i] else .crash := by
  rw [idx_eq]; split <;> rfl

theorem tail_bind {β : Type} (d : Bytes) (a : Nat) (f : Bytes → Res β) :
    (tail d a >>= f) = if a ≤ d.length then f (d.drop a) else .crash := by
  unfold tail; split <;> rfl

theorem sub_bind {β : Type} (d : Bytes) (a b : Nat) (f : Bytes → Res β) :
    (sub d a b >>= f) = if a ≤ b ∧ b ≤ d.length then f ((d.take b).drop a) else .crash := by
  unfold sub; split <;> rfl

theorem byte0_toNat (n : Nat) : (byte0 n).toNat = n % 256 := by
  simp [byte0, UInt8.toNat_ofNat']

theorem u24_bytes (n : Nat) (h : n < 16777216) : u24 (byte2 n) (byte1 n) (byte0 n) = n := by
  simp only [u24, byte2, byte1, byte0, UInt8.toNat_ofNat']
  omega

theorem u16_bytes (n : Nat) (h : n < 65536) : u16 (byte1 n) (byte0 n) = n := by
  simp only [u16, byte1, byte0, UInt8.toNat_ofNat']
  omega

/-- closes `um… d ≠ crash` goals after unfolding: split every check, contradiction by arithmetic -/
macro "res_total" : tactic => `(tactic| (
  simp only [require_bind, idx_bind, tail_bind, sub_bind, tail, sub, pure_eq]
  repeat' split
  all_goals first | (simp; done) | (exfalso; omega) | (exfalso; simp_all <;> omega) | (simp_all; done)))

/-- closes round-trip goals after `simp` has evaluated the accesses: remaining `if`s are decided by arithmetic -/
macro "res_rt" : tactic => `(tactic| (
  repeat' split
  all_goals first | rfl | omega | (exfalso; omega) | (simp only [decide_eq_true_eq, decide_eq_false_iff_not] at *; omega) | (exfalso; simp_all <;> omega) | (simp_all; done)))

theorem countCerts_total : ∀ (fuel : Nat) (d : Bytes) (cl n : Nat), countCerts fuel d cl n ≠ .crash := by
  intro fuel
  induction fuel with
  | zero => intro d cl n; simp [countCerts]
  | succ fuel ih =>
    intro d cl n
    unfold countCerts
    simp only [require_bind, idx_bind, tail_bind]
    repeat' split
    all_goals first | exact ih _ _ _ | (simp; done) | (exfalso; omega) | (exfalso; simp_all <;> omega)

/-- what the counting loop validated is exactly what the slicing loop needs -/
theorem sliceCerts_after_count : ∀ (fuel : Nat) (d : Bytes) (cl n m : Nat),
    countCerts fuel d cl n = .ok m → n ≤ m ∧ sliceCerts (m - n) d ≠ .crash := by
  intro fuel
  induction fuel with
  | zero =>
    intro d cl n m h
    simp [countCerts] at h
    subst h
    simp [sliceCerts]
  | succ fuel ih =>
    intro d cl n m h
    unfold countCerts at h
    simp only [require_bind, idx_bind, tail_bind] at h
    split at h
    · split at h
      · split at h
        · split at h
          · split at h
            · split at h
              · split at h
                · rename_i h4 h0 h1 h2 hlen hle
                  obtain ⟨hnm, hs⟩ := ih _ _ _ _ h
                  refine ⟨by omega, ?_⟩
                  have : m - n = (m - (n + 1)) + 1 := by omega
                  rw [this]
                  unfold sliceCerts
                  simp only [idx_bind, sub_bind, tail_bind, dif_pos h0, dif_pos h1, dif_pos h2]
                  have hle' : 3 + u24 d[0] d[1] d[2] ≤ d.length := by simpa using hlen
                  rw [if_pos ⟨by omega, hle'⟩, if_pos hle']
                  revert hs
                  cases sliceCerts (m - (n + 1)) (List.drop (3 + u24 d[0] d[1] d[2]) d) <;> simp
                · cases h
              · cases h
            · cases h
          · cases h
        · cases h
      · cases h
    · cases h
      simp [sliceCerts]

end BfeVerif.C45
