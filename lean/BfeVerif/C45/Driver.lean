import BfeVerif.Common.Proto
import BfeVerif.C45.Model
import BfeVerif.C45.Hello
/-!
  C45 driver.
    um <kind> <hex>       unmarshal the bytes:            result `ok <fields>` | `rej`   (model: also `crash`)
    rt <kind> <fields>    marshal the message, unmarshal: result `m=<hex> u=<ok <fields>|rej>`
    ex <kind> <hex>       kinds that are only exercised (chl, shl, cr0, cr1, sst): real unmarshal, and if accepted
                          marshal∘unmarshal again must give an equal value: `rej` | `ok same`; the model echoes.
  kinds: fin ske cke shd cst npn nst cv0 cv1 crt;  fields: hex strings joined by `:`; crt: certificates joined by `,` (`none` = no certificate)
-/
namespace BfeVerif.C45
open BfeVerif.Proto

def hx (b : Bytes) : String := hexField b

def renderList (l : List Bytes) : String :=
  if l.isEmpty then "none" else ",".intercalate (l.map hx)

def renderRes {α} (f : α → String) : Res α → String
  | .ok a => "ok " ++ f a
  | .rej => "rej"
  | .crash => "crash"

def bl (b : Bool) : String := if b then "01" else "00"

def flat2 (l : List Bytes) : Bytes := flatCAs l

def renderCH (m : ClientHello) : String :=
  ":".intercalate [hx [m.vers.1, m.vers.2], hx m.random, hx m.sessionId, hx (flatPairs m.cipherSuites),
    hx m.compressionMethods, bl m.nextProtoNeg, hx m.serverName, bl m.ocspStapling, hx (flatPairs m.supportedCurves),
    hx m.supportedPoints, bl m.ticketSupported, hx m.sessionTicket, hx (flatPairs m.signatureAndHashes),
    bl m.secureRenegotiation, hx (flatStrings m.alpnProtocols), bl m.padding, hx (flatPairs m.extensionIds)]

def renderSH (m : ServerHello) : String :=
  ":".intercalate [hx [m.vers.1, m.vers.2], hx m.random, hx m.sessionId, hx [m.cipherSuite.1, m.cipherSuite.2],
    hx [m.compressionMethod], bl m.nextProtoNeg, hx (flatStrings m.nextProtos), bl m.ocspStapling,
    bl m.ticketSupported, bl m.secureRenegotiation, hx m.alpnProtocol]

def renderCR (m : CertReq) : String :=
  ":".intercalate [hx m.certificateTypes, hx (flatPairs m.signatureAndHashes), hx (flatCAs m.certificateAuthorities)]

/-- field decoders (the harness only produces well-formed encodings) -/
def decPairs : Bytes → List U16
  | a :: b :: r => (a, b) :: decPairs r
  | _ => []

def decStrs (w : Nat) : Nat → Bytes → List Bytes
  | 0, _ => []
  | fuel + 1, b =>
    if b.length < w then [] else
      let l := if w = 2 then u16 (b.getD 0 0) (b.getD 1 0) else (b.getD 0 0).toNat
      let r := b.drop w
      r.take l :: decStrs w fuel (r.drop l)

def pair0 (b : Bytes) : U16 := (b.getD 0 0, b.getD 1 0)
def flag (b : Bytes) : Bool := b.getD 0 0 != 0

def chOfFields (f : List Bytes) : ClientHello :=
  let g (i : Nat) : Bytes := f.getD i []
  { vers := pair0 (g 0), random := g 1, sessionId := g 2, cipherSuites := decPairs (g 3), compressionMethods := g 4,
    nextProtoNeg := flag (g 5), serverName := g 6, ocspStapling := flag (g 7), supportedCurves := decPairs (g 8),
    supportedPoints := g 9, ticketSupported := flag (g 10), sessionTicket := g 11, signatureAndHashes := decPairs (g 12),
    secureRenegotiation := flag (g 13), alpnProtocols := decStrs 1 ((g 14).length + 1) (g 14) }

def shOfFields (f : List Bytes) : ServerHello :=
  let g (i : Nat) : Bytes := f.getD i []
  { vers := pair0 (g 0), random := g 1, sessionId := g 2, cipherSuite := pair0 (g 3), compressionMethod := (g 4).getD 0 0,
    nextProtoNeg := flag (g 5), nextProtos := decStrs 1 ((g 6).length + 1) (g 6), ocspStapling := flag (g 7),
    ticketSupported := flag (g 8), secureRenegotiation := flag (g 9), alpnProtocol := g 10 }

def crOfFields (f : List Bytes) : CertReq :=
  let g (i : Nat) : Bytes := f.getD i []
  { certificateTypes := g 0, signatureAndHashes := decPairs (g 1),
    certificateAuthorities := decStrs 2 ((g 2).length + 1) (g 2) }

def umKind (kind : String) (d : Bytes) : Option String :=
  match kind with
  | "chl" => some (renderRes renderCH (umClientHello d))
  | "shl" => some (renderRes renderSH (umServerHello d))
  | "cr0" => some (renderRes renderCR (umCertReq false d))
  | "cr1" => some (renderRes renderCR (umCertReq true d))
  | "fin" => some (renderRes hx (umFinished d))
  | "ske" => some (renderRes hx (umServerKeyExchange d))
  | "cke" => some (renderRes hx (umClientKeyExchange d))
  | "shd" => some (renderRes (fun _ => ".") (umServerHelloDone d))
  | "cst" => some (renderRes (fun p => hx [p.1] ++ ":" ++ hx p.2) (umCertificateStatus d))
  | "npn" => some (renderRes hx (umNextProto d))
  | "nst" => some (renderRes hx (umNewSessionTicket d))
  | "cv0" => some (renderRes (fun p => hx p.2.2) (umCertificateVerify false d))
  | "cv1" => some (renderRes (fun p => hx [p.1] ++ ":" ++ hx [p.2.1] ++ ":" ++ hx p.2.2) (umCertificateVerify true d))
  | "crt" => some (renderRes renderList (umCertificate d))
  | _ => none

def optAll {α} : List (Option α) → Option (List α)
  | [] => some []
  | none :: _ => none
  | some a :: r => (optAll r).map (a :: ·)

def b0 (l : List Bytes) (i : Nat) : UInt8 := ((l.getD i []).head?).getD 0

/-- marshal from fields; also says whether the message is within the wire format's limits (WF) -/
def mKind (kind : String) (fs : String) : Option (Bytes × Bool) := do
  if kind == "crt" then
    let cs ← if fs == "none" then some [] else optAll ((fs.splitOn ",").map bytesOfHex)
    let wf := cs.all (fun c => !c.isEmpty && c.length < 16777216) && (certBody cs).length + 3 < 16777216
    pure (mCertificate cs, wf)
  else
    let f ← optAll ((fs.splitOn ":").map bytesOfHex)
    let g (i : Nat) : Bytes := f.getD i []
    match kind with
    | "chl" => pure (mClientHello (chOfFields f), (chOfFields f).wf)  -- expected fields: see `wantOf`
    | "shl" => pure (mServerHello (shOfFields f), (shOfFields f).wf)
    | "cr0" => pure (mCertReq false (crOfFields f), (crOfFields f).wf false)
    | "cr1" => pure (mCertReq true (crOfFields f), (crOfFields f).wf true)
    | "fin" => pure (mFinished (g 0), true)
    | "ske" => pure (mServerKeyExchange (g 0), true)
    | "cke" => pure (mClientKeyExchange (g 0), (g 0).length < 16777216)
    | "shd" => pure (mServerHelloDone, true)
    | "cst" => pure (mCertificateStatus (b0 f 0) (g 1),
        (b0 f 0 == 1 && (g 1).length + 4 < 16777216) || (b0 f 0 != 1 && (g 1).isEmpty))
    | "npn" => pure (mNextProto (g 0), (g 0).length ≤ 255)
    | "nst" => pure (mNewSessionTicket (g 0), (g 0).length < 65536)
    | "cv0" => pure (mCertificateVerify false 0 0 (g 0), (g 0).length < 65536)
    | "cv1" => pure (mCertificateVerify true (b0 f 0) (b0 f 1) (g 2), (g 2).length < 65536)
    | _ => none

/-- canonical rendering of the fields of an `rt` op (what a correct round trip must print) -/
def canonFields (kind fs : String) : String :=
  if kind == "shd" then "." else fs

/-- what a correct round trip must print for an `rt` op, and (for a recorded finding) the alternative
    outcome with its class -/
def wantOf (kind fs : String) : String × Option (String × String) :=
  if kind == "chl" then
    match optAll ((fs.splitOn ":").map bytesOfHex) with
    | some f =>
      let m := chOfFields f
      let full := { m with padding := false, extensionIds := chIds m }
      -- the renegotiation_info extension (0xff01) written by marshal is not recognised by unmarshal (it tests 0xff02)
      (renderCH full,
       if m.secureRenegotiation && !hasScsv m.cipherSuites
       then some (renderCH { full with secureRenegotiation := false }, "chl-reneg-ext-ignored") else none)
    | none => (fs, none)
  else (canonFields kind fs, none)

/-- message type byte → kind (certificateRequest / certificateVerify carry signatureAndHash from TLS 1.2 on) -/
def kindOfType (t : UInt8) (tls12 : Bool) : Option String :=
  if t = 1 then some "chl" else if t = 2 then some "shl" else if t = 4 then some "nst" else if t = 11 then some "crt"
  else if t = 12 then some "ske" else if t = 13 then some (if tls12 then "cr1" else "cr0") else if t = 14 then some "shd"
  else if t = 15 then some (if tls12 then "cv1" else "cv0") else if t = 16 then some "cke" else if t = 20 then some "fin"
  else if t = 22 then some "cst" else if t = 67 then some "npn" else none

def renderHsErr : HsErr → String
  | .eof => "err:eof"
  | .oversize => "err:other"
  | .notTLS => "err:other"
  | .alert a => "err:alert:" ++ toString a

/-- model of up to `k` consecutive Conn.readHandshake calls on plaintext records (a failed call leaves a
    sticky error: nothing is read after it) -/
def readHS (haveVers tls12 : Bool) : Nat → List Bytes → Bytes → List String
  | 0, _, _ => []
  | k + 1, records, hand =>
    match readHandshakeStep haveVers records hand with
    | .error e => [renderHsErr e]
    | .ok (msg, hand', rest) =>
      match kindOfType (msg.getD 0 0) tls12 with
      | none => ["err:alert:10"]
      | some kind =>
        match umKind kind msg with
        | some r =>
          if r.startsWith "ok" then (kind ++ " " ++ r) :: readHS haveVers tls12 k rest hand'
          else if r == "rej" then ["err:alert:10"] else ["crash"]
        | none => ["bad-op"]

def lenTag (n : Nat) : String :=
  if n == 0 then "len0" else if n < 255 then "len<255" else if n ≤ 257 then "len~256"
  else if n < 65535 then "len<64k" else if n ≤ 65537 then "len~64k" else "len>64k"

def run (op impl : String) : Ans :=
  match op.splitOn " " with
  | ["um", kind, h] =>
    match bytesOfHex h, (bytesOfHex h).bind (umKind kind) with
    | some d, some m =>
      { model := m
        verdict := if impl.startsWith "PANIC" then "FAIL:panic-" ++ kind else "ok"
        tags := ["um", kind, if m.startsWith "ok" then "accepted" else "rejected"] ++ (if d.length ≥ 4 then ["nt"] else []) }
    | _, _ => { model := "bad-op", verdict := "skip" }
  | ["rt", kind, fs] =>
    match mKind kind fs with
    | some (bytes, wf) =>
      match umKind kind bytes with
      | some u =>
        let (wf1, alt) := wantOf kind fs
        let want := "m=" ++ hx bytes ++ " u=ok " ++ wf1
        { model := "m=" ++ hx bytes ++ " u=" ++ u
          verdict := if impl.startsWith "PANIC" then "FAIL:panic-" ++ kind
                     else if wf && impl != want then
                       (match alt with
                        | some (a, cls) => if impl == "m=" ++ hx bytes ++ " u=ok " ++ a then "FAIL:" ++ cls else "FAIL:roundtrip-" ++ kind
                        | none => "FAIL:roundtrip-" ++ kind)
                     else "ok"
          tags := ["rt", kind, lenTag bytes.length, if wf then "wf" else "beyond-wire-limits"] ++ (if wf then ["nt"] else []) }
      | none => { model := "bad-op", verdict := "skip" }
    | none => { model := "bad-op", verdict := "skip" }
  | ["rh", flags, chunks] =>
    match optAll ((chunks.splitOn ",").map bytesOfHex) with
    | some recs =>
      let hv := flags.toList.getD 0 '0' == '1'
      let tls12 := flags.toList.getD 1 '0' == '1'
      let m := ";".intercalate (readHS hv tls12 3 recs [])
      -- segmentation must not matter: as long as no record trips a size rule, the result is the one for the
      -- same bytes delivered in a single record
      let small := recs.all fun r => r.length < 0x3000
      let whole := ";".intercalate (readHS hv tls12 3 [recs.foldr (· ++ ·) []] [])
      let total := (recs.foldr (· ++ ·) ([] : Bytes)).length
      { model := m
        verdict := if impl.startsWith "PANIC" then "FAIL:panic-readHandshake"
                   else if small && total < 0x3000 && impl != whole then "FAIL:segmentation-changes-result" else "ok"
        tags := ["rh", if m.startsWith "err" then "rejected" else "accepted", "recs" ++ toString (min recs.length 6)] ++
                (if recs.length > 1 then ["nt"] else []) }
    | none => { model := "bad-op", verdict := "skip" }
  | ["ex", kind, _] =>
    { model := impl
      verdict := if impl.startsWith "PANIC" then "FAIL:panic-" ++ kind
                 else if impl == "rej" || impl == "ok same" then "ok" else "FAIL:reparse-" ++ kind
      tags := ["ex", kind, if impl == "rej" then "rejected" else "accepted"] ++ (if impl != "rej" then ["nt"] else []) }
  | _ => { model := "bad-op", verdict := "skip" }

end BfeVerif.C45
