import BfeVerif.C45.Model
/-
  C45 — models of clientHelloMsg / serverHelloMsg / certificateRequestMsg marshal and unmarshal
  (handshake_messages.go).  Core-only.  Conventions as in Model.lean (`idx`/`tail`/`sub` = checked slice
  accesses, crash = Go panic).  A Go `uint16` is kept as its two wire bytes `(hi, lo)`; strings are byte lists.
  unmarshal is modelled on a fresh (zero-valued) message, as readHandshake uses it.
-/
namespace BfeVerif.C45

abbrev U16 := UInt8 × UInt8

/-! ### shared pieces -/

/-- `n` pairs read as `d[0], d[1]; d = d[2:]` -/
def readPairs : Nat → Bytes → Res (List U16)
  | 0, _ => .ok []
  | n + 1, d => do
    let a ← idx d 0
    let b ← idx d 1
    let d' ← tail d 2
    let r ← readPairs n d'
    pure ((a, b) :: r)

def flatPairs : List U16 → Bytes
  | [] => []
  | (a, b) :: r => a :: b :: flatPairs r

/-- the extension loop shared by clientHello and serverHello:
    `for len(data) != 0 { if len(data) < 4 {false}; ext, length; data = data[4:]; if len(data) < length {false};
       switch ext {…}; data = data[length:] }`;  fuel bounds the iterations (each consumes ≥ 4 bytes) -/
def extLoop {σ : Type} (h : U16 → Bytes → Nat → σ → Res σ) : Nat → Bytes → σ → Res σ
  | 0, _, s => .ok s
  | fuel + 1, data, s =>
    if data.length = 0 then .ok s
    else do
      require (!(data.length < 4))
      let e1 ← idx data 0
      let e2 ← idx data 1
      let l1 ← idx data 2
      let l2 ← idx data 3
      let data4 ← tail data 4
      require (!(data4.length < u16 l1 l2))
      let s' ← h (e1, e2) data4 (u16 l1 l2) s
      let rest ← tail data4 (u16 l1 l2)
      extLoop h fuel rest s'

/-- the optional extension block after the fixed part: nothing, or a 2-byte length that must match -/
def extBlock {σ : Type} (h : U16 → Bytes → Nat → σ → Res σ) (data : Bytes) (s : σ) : Res σ :=
  if data.length = 0 then .ok s
  else do
    require (!(data.length < 2))
    let a ← idx data 0
    let b ← idx data 1
    let data2 ← tail data 2
    require (u16 a b == data2.length)
    extLoop h (data2.length + 1) data2 s

/-- a list of length-prefixed strings `for len(d) != 0 { l := d[0]; d = d[1:]; if l == 0 || l > len(d) {false}; … }` -/
def readStrings : Nat → Bytes → Res (List Bytes)
  | 0, _ => .ok []
  | fuel + 1, d =>
    if d.length = 0 then .ok []
    else do
      let l ← idx d 0
      let d1 ← tail d 1
      require (!(l.toNat = 0 || l.toNat > d1.length))
      let s ← sub d1 0 l.toNat
      let d2 ← tail d1 l.toNat
      let r ← readStrings fuel d2
      pure (s :: r)

def flatStrings : List Bytes → Bytes
  | [] => []
  | s :: r => byte0 s.length :: s ++ flatStrings r

/-! ### clientHello -/

structure ClientHello where
  vers : U16 := (0, 0)
  random : Bytes := []
  sessionId : Bytes := []
  cipherSuites : List U16 := []
  compressionMethods : Bytes := []
  nextProtoNeg : Bool := false
  serverName : Bytes := []
  ocspStapling : Bool := false
  supportedCurves : List U16 := []
  supportedPoints : Bytes := []
  ticketSupported : Bool := false
  sessionTicket : Bytes := []
  signatureAndHashes : List U16 := []
  secureRenegotiation : Bool := false
  alpnProtocols : List Bytes := []
  padding : Bool := false
  extensionIds : List U16 := []
  deriving DecidableEq, Repr

/-- `m.cipherSuites[i] = data[2+2*i]<<8 | data[3+2*i]` for i < n -/
def readSuites (data : Bytes) : Nat → Nat → Res (List U16)
  | _, 0 => .ok []
  | i, n + 1 => do
    let a ← idx data (2 + 2 * i)
    let b ← idx data (3 + 2 * i)
    let r ← readSuites data (i + 1) n
    pure ((a, b) :: r)

/-- scsvRenegotiation = 0x00ff -/
def hasScsv (l : List U16) : Bool := l.any fun p => p == ((0 : UInt8), (0xff : UInt8))

/-- the server_name loop: `for i := 0; i < numNames; i++ {…}` over `d`, which is `data[2:]` (NOT cut at the
    extension's length).  Returns the host name if an entry of type 0 is found. -/
def sniLoop : Nat → Bytes → Res (Option Bytes)
  | 0, _ => .ok none
  | n + 1, d => do
    require (!(d.length < 3))
    let t ← idx d 0
    let a ← idx d 1
    let b ← idx d 2
    let d3 ← tail d 3
    require (!(d3.length < u16 a b))
    if t = 0 then
      let name ← sub d3 0 (u16 a b)
      pure (some name)
    else
      let d' ← tail d3 (u16 a b)
      sniLoop n d'

def chSNI (data : Bytes) (length : Nat) (m : ClientHello) : Res ClientHello := do   -- extensionServerName
  require (!(length < 2))
  let a ← idx data 0
  let b ← idx data 1
  let d ← tail data 2
  let r ← sniLoop (u16 a b) d
  match r with
  | some name => pure { m with serverName := name }
  | none => pure m

def chNPN (length : Nat) (m : ClientHello) : Res ClientHello := do                  -- extensionNextProtoNeg
  require (!(length > 0))
  pure { m with nextProtoNeg := true }

def chOCSP (data : Bytes) (length : Nat) (m : ClientHello) : Res ClientHello :=      -- extensionStatusRequest
  if length > 0 then do
    let t ← idx data 0
    pure { m with ocspStapling := t == 1 }
  else pure { m with ocspStapling := false }

def chCurves (data : Bytes) (length : Nat) (m : ClientHello) : Res ClientHello := do -- extensionSupportedCurves
  require (!(length < 2))
  let a ← idx data 0
  let b ← idx data 1
  require (!(u16 a b % 2 == 1 || length != u16 a b + 2))
  let d ← tail data 2
  let cs ← readPairs (u16 a b / 2) d
  pure { m with supportedCurves := cs }

def chPoints (data : Bytes) (length : Nat) (m : ClientHello) : Res ClientHello := do -- extensionSupportedPoints
  require (!(length < 1))
  let l ← idx data 0
  require (!(length != l.toNat + 1))
  let d ← tail data 1
  -- make([]uint8, l); copy(…, data[1:])
  pure { m with supportedPoints := d.take l.toNat ++ List.replicate (l.toNat - d.length) 0 }

def chTicket (data : Bytes) (length : Nat) (m : ClientHello) : Res ClientHello := do -- extensionSessionTicket
  let t ← sub data 0 length
  pure { m with ticketSupported := true, sessionTicket := t }

def chSigs (data : Bytes) (length : Nat) (m : ClientHello) : Res ClientHello := do   -- extensionSignatureAlgorithms
  require (!(length < 2 || length % 2 != 0))
  let a ← idx data 0
  let b ← idx data 1
  require (!(u16 a b != length - 2))
  let d ← tail data 2
  let sh ← readPairs (u16 a b / 2) d
  pure { m with signatureAndHashes := sh }

def chReneg (data : Bytes) (length : Nat) (m : ClientHello) : Res ClientHello := do  -- extensionRenegotiationInfo + 1
  require (!(length != 1))
  let z ← idx data 0
  require (!(z != 0))
  pure { m with secureRenegotiation := true }

def chALPN (data : Bytes) (length : Nat) (m : ClientHello) : Res ClientHello := do   -- extensionALPN
  require (!(length < 2))
  let a ← idx data 0
  let b ← idx data 1
  require (!(u16 a b != length - 2))
  let d ← sub data 2 length
  let ps ← readStrings (d.length + 1) d
  pure { m with alpnProtocols := m.alpnProtocols ++ ps }

/-- `switch extension { … }` of clientHelloMsg.unmarshal; `data` = bytes after the 4-byte extension header
    (to the end of the message), `length` ≤ len(data).  Note the case `extensionRenegotiationInfo + 1` = 0xff02 (sic). -/
def chSwitch (e : U16) (data : Bytes) (length : Nat) (m : ClientHello) : Res ClientHello :=
  if e = (0, 0) then chSNI data length m
  else if e = (0x33, 0x74) then chNPN length m
  else if e = (0, 5) then chOCSP data length m
  else if e = (0, 10) then chCurves data length m
  else if e = (0, 11) then chPoints data length m
  else if e = (0, 35) then chTicket data length m
  else if e = (0, 13) then chSigs data length m
  else if e = (0xff, 0x02) then chReneg data length m
  else if e = (0, 16) then chALPN data length m
  else if e = (0, 21) then pure { m with padding := true }      -- extensionPadding
  else pure m

/-- `m.extensionIds = append(m.extensionIds, extension)` then the switch -/
def chExt (e : U16) (data : Bytes) (length : Nat) (m0 : ClientHello) : Res ClientHello :=
  chSwitch e data length { m0 with extensionIds := m0.extensionIds ++ [e] }

/-- the part common to both hellos: `len(data) < 42`, version, random, session id (≤ 32 bytes, bounds checked);
    returns (vers, random, sessionId, data[39+sessionIdLen:]) -/
def helloFixed (data : Bytes) : Res (U16 × Bytes × Bytes × Bytes) := do
  require (!(data.length < 42))
  let v1 ← idx data 4
  let v2 ← idx data 5
  let random ← sub data 6 38
  let sl ← idx data 38
  require (!(sl.toNat > 32 || data.length < 39 + sl.toNat))
  let sid ← sub data 39 (39 + sl.toNat)
  let rest ← tail data (39 + sl.toNat)
  pure ((v1, v2), random, sid, rest)

/-- cipher suites and compression methods of clientHello; returns (suites, compressionMethods, rest) -/
def chBody (data : Bytes) : Res (List U16 × Bytes × Bytes) := do
  require (!(data.length < 2))
  let c1 ← idx data 0
  let c2 ← idx data 1
  require (!(u16 c1 c2 % 2 == 1 || data.length < 2 + u16 c1 c2))
  let suites ← readSuites data 0 (u16 c1 c2 / 2)
  let data ← tail data (2 + u16 c1 c2)
  require (!(data.length < 1))
  let cml ← idx data 0
  require (!(data.length < 1 + cml.toNat))
  let comp ← sub data 1 (1 + cml.toNat)
  let rest ← tail data (1 + cml.toNat)
  pure (suites, comp, rest)

def umClientHello (data : Bytes) : Res ClientHello := do
  let f ← helloFixed data
  let b ← chBody f.2.2.2
  let m : ClientHello := { vers := f.1, random := f.2.1, sessionId := f.2.2.1, cipherSuites := b.1,
                           compressionMethods := b.2.1, secureRenegotiation := hasScsv b.1 }
  extBlock chExt b.2.2 m

/-! marshal of clientHello (raw == nil).  Preconditions of the Go code that the model does not re-check:
    ALPN names of 1..255 bytes (Go panics otherwise), len(random) ≤ 32 is padded with zeros. -/

def encExt (e : U16) (body : Bytes) : Bytes := e.1 :: e.2 :: len2 body.length ++ body

def chExts (m : ClientHello) : Bytes :=
  (if m.nextProtoNeg then encExt (0x33, 0x74) [] else []) ++
  (if m.serverName.length > 0 then
     encExt (0, 0) (len2 (m.serverName.length + 3) ++ [0] ++ len2 m.serverName.length ++ m.serverName) else []) ++
  (if m.ocspStapling then encExt (0, 5) [1, 0, 0, 0, 0] else []) ++
  (if m.supportedCurves.length > 0 then
     encExt (0, 10) (len2 (2 * m.supportedCurves.length) ++ flatPairs m.supportedCurves) else []) ++
  (if m.supportedPoints.length > 0 then
     encExt (0, 11) (byte0 m.supportedPoints.length :: m.supportedPoints) else []) ++
  (if m.ticketSupported then encExt (0, 35) m.sessionTicket else []) ++
  (if m.signatureAndHashes.length > 0 then
     encExt (0, 13) (len2 (2 * m.signatureAndHashes.length) ++ flatPairs m.signatureAndHashes) else []) ++
  (if m.secureRenegotiation then encExt (0xff, 0x01) [0] else []) ++
  (if m.alpnProtocols.length > 0 then
     encExt (0, 16) (len2 (flatStrings m.alpnProtocols).length ++ flatStrings m.alpnProtocols) else [])

def extTail (exts : Bytes) : Bytes := if exts.length = 0 then [] else len2 exts.length ++ exts

def helloHead (typ : UInt8) (vers : U16) (random sid : Bytes) (rest : Bytes) : Bytes :=
  let body := vers.1 :: vers.2 :: (random ++ List.replicate 32 0).take 32 ++ byte0 sid.length :: sid ++ rest
  typ :: len3 body.length ++ body

def mClientHello (m : ClientHello) : Bytes :=
  helloHead 1 m.vers m.random m.sessionId
    (len2 (2 * m.cipherSuites.length) ++ flatPairs m.cipherSuites ++
     byte0 m.compressionMethods.length :: m.compressionMethods ++ extTail (chExts m))

/-! ### serverHello -/

structure ServerHello where
  vers : U16 := (0, 0)
  random : Bytes := []
  sessionId : Bytes := []
  cipherSuite : U16 := (0, 0)
  compressionMethod : UInt8 := 0
  nextProtoNeg : Bool := false
  nextProtos : List Bytes := []
  ocspStapling : Bool := false
  ticketSupported : Bool := false
  secureRenegotiation : Bool := false
  alpnProtocol : Bytes := []
  deriving DecidableEq, Repr

def shNPN (data : Bytes) (length : Nat) (m : ServerHello) : Res ServerHello := do    -- extensionNextProtoNeg
  let d ← sub data 0 length
  let ps ← readStrings (d.length + 1) d
  pure { m with nextProtoNeg := true, nextProtos := m.nextProtos ++ ps }

def shOCSP (length : Nat) (m : ServerHello) : Res ServerHello := do                  -- extensionStatusRequest
  require (!(length > 0))
  pure { m with ocspStapling := true }

def shTicket (length : Nat) (m : ServerHello) : Res ServerHello := do                -- extensionSessionTicket
  require (!(length > 0))
  pure { m with ticketSupported := true }

def shReneg (data : Bytes) (length : Nat) (m : ServerHello) : Res ServerHello := do  -- extensionRenegotiationInfo
  require (!(length != 1))
  let z ← idx data 0
  require (!(z != 0))
  pure { m with secureRenegotiation := true }

def shALPN (data : Bytes) (length : Nat) (m : ServerHello) : Res ServerHello := do   -- extensionALPN
  let d ← sub data 0 length
  require (!(d.length < 3))
  let a ← idx d 0
  let b ← idx d 1
  require (!(u16 a b != d.length - 2))
  let d2 ← tail d 2
  let l ← idx d2 0
  require (!(l.toNat != d2.length - 1))
  let p ← tail d2 1
  pure { m with alpnProtocol := p }

def shExt (e : U16) (data : Bytes) (length : Nat) (m : ServerHello) : Res ServerHello :=
  if e = (0x33, 0x74) then shNPN data length m
  else if e = (0, 5) then shOCSP length m
  else if e = (0, 35) then shTicket length m
  else if e = (0xff, 0x01) then shReneg data length m
  else if e = (0, 16) then shALPN data length m
  else pure m

/-- cipher suite and compression method of serverHello; returns (suite, compression, rest) -/
def shBody (data : Bytes) : Res (U16 × UInt8 × Bytes) := do
  require (!(data.length < 3))
  let c1 ← idx data 0
  let c2 ← idx data 1
  let cm ← idx data 2
  let rest ← tail data 3
  pure ((c1, c2), cm, rest)

def umServerHello (data : Bytes) : Res ServerHello := do
  let f ← helloFixed data
  let b ← shBody f.2.2.2
  let m : ServerHello := { vers := f.1, random := f.2.1, sessionId := f.2.2.1, cipherSuite := b.1,
                           compressionMethod := b.2.1 }
  extBlock shExt b.2.2 m

/- precondition of serverHello.marshal not re-checked by the model: NPN names of at most 255 bytes (longer ones
   are written truncated while the announced length counts them in full) and an ALPN name below 256 bytes (Go panics). -/
def shExts (m : ServerHello) : Bytes :=
  (if m.nextProtoNeg then encExt (0x33, 0x74) (flatStrings m.nextProtos) else []) ++
  (if m.ocspStapling then encExt (0, 5) [] else []) ++
  (if m.ticketSupported then encExt (0, 35) [] else []) ++
  (if m.secureRenegotiation then encExt (0xff, 0x01) [0] else []) ++
  (if m.alpnProtocol.length > 0 then
     encExt (0, 16) (len2 (m.alpnProtocol.length + 1) ++ byte0 m.alpnProtocol.length :: m.alpnProtocol) else [])

def mServerHello (m : ServerHello) : Bytes :=
  helloHead 2 m.vers m.random m.sessionId
    (m.cipherSuite.1 :: m.cipherSuite.2 :: m.compressionMethod :: extTail (shExts m))

/-! ### certificateRequest -/

structure CertReq where
  certificateTypes : Bytes := []
  signatureAndHashes : List U16 := []
  certificateAuthorities : List Bytes := []
  deriving DecidableEq, Repr

/-- `for len(cas) > 0 { if len(cas) < 2 {false}; caLen; cas = cas[2:]; if len(cas) < caLen {false}; …; cas = cas[caLen:] }` -/
def readCAs : Nat → Bytes → Res (List Bytes)
  | 0, _ => .ok []
  | fuel + 1, cas =>
    if cas.length > 0 then do
      require (!(cas.length < 2))
      let a ← idx cas 0
      let b ← idx cas 1
      let c2 ← tail cas 2
      require (!(c2.length < u16 a b))
      let ca ← sub c2 0 (u16 a b)
      let rest ← tail c2 (u16 a b)
      let r ← readCAs fuel rest
      pure (ca :: r)
    else .ok []

def flatCAs : List Bytes → Bytes
  | [] => []
  | c :: r => len2 c.length ++ c ++ flatCAs r

/-- length check and certificate types; returns (types, rest) -/
def crHead (data : Bytes) : Res (Bytes × Bytes) := do
  require (!(data.length < 5))
  let a ← idx data 1
  let b ← idx data 2
  let c ← idx data 3
  require (!(data.length - 4 != u24 a b c))
  let nt ← idx data 4
  let data ← tail data 5
  require (!(nt.toNat == 0 || data.length ≤ nt.toNat))
  let types ← sub data 0 nt.toNat          -- make + copy, length checked by the line above
  let rest ← tail data nt.toNat
  pure (types, rest)

/-- `if m.hasSignatureAndHash { … }`; returns (signatureAndHashes, rest) -/
def crSigs (has : Bool) (data : Bytes) : Res (List U16 × Bytes) :=
  if has then do
    require (!(data.length < 2))
    let x ← idx data 0
    let y ← idx data 1
    let data ← tail data 2
    require (!(u16 x y % 2 != 0))
    require (!(data.length < u16 x y))
    let sh ← readPairs (u16 x y / 2) data
    let rest ← tail data (2 * (u16 x y / 2))
    pure (sh, rest)
  else pure ([], data)

/-- the certificate authorities and the final `return len(data) <= 0` -/
def crCAs (data : Bytes) : Res (List Bytes) := do
  require (!(data.length < 2))
  let x ← idx data 0
  let y ← idx data 1
  let data ← tail data 2
  require (!(data.length < u16 x y))
  let cas ← sub data 0 (u16 x y)
  let data ← tail data (u16 x y)
  let l ← readCAs (cas.length + 1) cas
  require (decide (data.length ≤ 0))
  pure l

def umCertReq (has : Bool) (data : Bytes) : Res CertReq := do
  let h ← crHead data
  let s ← crSigs has h.2
  let l ← crCAs s.2
  pure { certificateTypes := h.1, signatureAndHashes := s.1, certificateAuthorities := l }

def mCertReq (has : Bool) (m : CertReq) : Bytes :=
  let body := byte0 m.certificateTypes.length :: m.certificateTypes ++
    (if has then len2 (2 * m.signatureAndHashes.length) ++ flatPairs m.signatureAndHashes else []) ++
    len2 (flatCAs m.certificateAuthorities).length ++ flatCAs m.certificateAuthorities
  13 :: len3 body.length ++ body

/-! ### Conn.readHandshake: reassembly of a message from handshake records (conn.go)

    for c.hand.Len() < 4 { readRecord }            -- one record at a time, appended to c.hand
    n := data[1]<<16 | data[2]<<8 | data[3];  if n > maxHandshake { alert internal_error }
    for c.hand.Len() < 4+n { readRecord }
    data = c.hand.Next(4 + n);  switch data[0] { … default: alert unexpected_message };  unmarshal or unexpected_message
  readRecord on a plaintext handshake record (no cipher yet): transport EOF at a record boundary → io.EOF; a record
  above maxCiphertext → "oversized record"; before the version is known (`!haveVers`, i.e. while waiting for the
  ClientHello) a record of 0x3000 bytes or more → "first record does not look like a TLS handshake"; plaintext above maxPlaintext → record_overflow. -/

inductive HsErr
  | eof | oversize | notTLS | alert (a : Nat)    -- notTLS: "first record does not look like a TLS handshake"
  deriving DecidableEq, Repr

/-- read records until `c.hand` holds at least `need` bytes; returns c.hand and the unread records -/
def fillHand (haveVers : Bool) (need : Nat) : List Bytes → Bytes → Except HsErr (Bytes × List Bytes)
  | [], hand => if hand.length ≥ need then .ok (hand, []) else .error .eof
  | r :: rest, hand =>
    if hand.length ≥ need then .ok (hand, r :: rest)
    else if r.length > 16384 + 2048 then .error .oversize
    else if !haveVers && r.length ≥ 0x3000 then .error .notTLS
    else if r.length > 16384 then .error (.alert 22)
    else fillHand haveVers need rest (hand ++ r)

/-- one `readHandshake` call: the message bytes handed to `unmarshal`, what stays in `c.hand`
    (`c.hand.Next(4+n)` leaves the rest for the next message) and the unread records -/
def readHandshakeStep (haveVers : Bool) (records : List Bytes) (hand0 : Bytes) : Except HsErr (Bytes × Bytes × List Bytes) :=
  match fillHand haveVers 4 records hand0 with
  | .error e => .error e
  | .ok (hand, rest) =>
    let n := u24 (hand.getD 1 0) (hand.getD 2 0) (hand.getD 3 0)
    if n > 65536 then .error (.alert 80)
    else match fillHand haveVers (4 + n) rest hand with
      | .error e => .error e
      | .ok (hand2, rest2) => .ok (hand2.take (4 + n), hand2.drop (4 + n), rest2)

/-- the message bytes of the first readHandshake on a fresh connection -/
def readHandshakeBytes (haveVers : Bool) (records : List Bytes) : Except HsErr Bytes :=
  match readHandshakeStep haveVers records [] with
  | .error e => .error e
  | .ok r => .ok r.1

/-- what readHandshake must return as a function of the BYTES alone (no record boundaries) -/
def hsSpec (data : Bytes) : Except HsErr Bytes :=
  if data.length < 4 then .error .eof
  else
    let n := u24 (data.getD 1 0) (data.getD 2 0) (data.getD 3 0)
    if n > 65536 then .error (.alert 80)
    else if data.length < 4 + n then .error .eof
    else .ok (data.take (4 + n))

/-- records that trip none of readRecord's size rules -/
def recordsOK (haveVers : Bool) (rs : List Bytes) : Bool :=
  rs.all fun r => decide (r.length ≤ 16384) && (haveVers || decide (r.length < 0x3000))

/-! ### wire-format limits (decidable; hypotheses of the round-trip theorems, evaluated by the driver) -/

def strsOK (l : List Bytes) : Bool := l.all fun s => decide (0 < s.length) && decide (s.length ≤ 255)

/-- extension ids in the order marshal writes them -/
def chIds (m : ClientHello) : List U16 :=
  (if m.nextProtoNeg then [((0x33 : UInt8), (0x74 : UInt8))] else []) ++
  (if m.serverName.length > 0 then [((0 : UInt8), (0 : UInt8))] else []) ++
  (if m.ocspStapling then [((0 : UInt8), (5 : UInt8))] else []) ++
  (if m.supportedCurves.length > 0 then [((0 : UInt8), (10 : UInt8))] else []) ++
  (if m.supportedPoints.length > 0 then [((0 : UInt8), (11 : UInt8))] else []) ++
  (if m.ticketSupported then [((0 : UInt8), (35 : UInt8))] else []) ++
  (if m.signatureAndHashes.length > 0 then [((0 : UInt8), (13 : UInt8))] else []) ++
  (if m.secureRenegotiation then [((0xff : UInt8), (0x01 : UInt8))] else []) ++
  (if m.alpnProtocols.length > 0 then [((0 : UInt8), (16 : UInt8))] else [])

def ClientHello.wf (m : ClientHello) : Bool :=
  m.random.length == 32 && decide (m.sessionId.length ≤ 32) && decide (2 * m.cipherSuites.length < 65536) &&
  decide (m.compressionMethods.length ≤ 255) && decide (m.serverName.length + 5 < 65536) &&
  decide (2 + 2 * m.supportedCurves.length < 65536) && decide (m.supportedPoints.length ≤ 255) &&
  (m.ticketSupported || m.sessionTicket.isEmpty) && decide (m.sessionTicket.length < 65536) &&
  decide (2 + 2 * m.signatureAndHashes.length < 65536) && strsOK m.alpnProtocols &&
  decide ((flatStrings m.alpnProtocols).length + 2 < 65536) && decide ((chExts m).length < 65536) &&
  (!hasScsv m.cipherSuites || m.secureRenegotiation)   -- the SCSV suite value sets secureRenegotiation on parsing

def ServerHello.wf (m : ServerHello) : Bool :=
  m.random.length == 32 && decide (m.sessionId.length ≤ 32) &&
  (m.nextProtoNeg || m.nextProtos.isEmpty) && strsOK m.nextProtos &&
  decide ((flatStrings m.nextProtos).length < 65536) && decide (m.alpnProtocol.length ≤ 255) &&
  decide ((shExts m).length < 65536)

def CertReq.wf (has : Bool) (m : CertReq) : Bool :=
  decide (0 < m.certificateTypes.length) && decide (m.certificateTypes.length ≤ 255) &&
  (has || m.signatureAndHashes.isEmpty) && decide (2 * m.signatureAndHashes.length < 65536) &&
  m.certificateAuthorities.all (fun c => decide (c.length < 65536)) &&
  decide ((flatCAs m.certificateAuthorities).length < 65536) &&
  decide ((mCertReq has m).length - 4 < 16777216)

end BfeVerif.C45
