import BfeVerif.C45.HelloRt
/-! C45 — round trip of clientHello: one lemma per extension, then the assembly. -/
namespace BfeVerif.C45

/-- `extensionIds` bookkeeping done before the switch -/
def addId (e : U16) (s : ClientHello) : ClientHello := { s with extensionIds := s.extensionIds ++ [e] }

theorem chExt_npn (rest : Bytes) (s : ClientHello) :
    chExt (0x33, 0x74) ([] ++ rest) ([] : Bytes).length s = .ok { addId (0x33, 0x74) s with nextProtoNeg := true } := by
  simp [chExt, chSwitch, chNPN, require_bind, addId]

theorem chExt_ocsp (rest : Bytes) (s : ClientHello) :
    chExt (0, 5) ([1, 0, 0, 0, 0] ++ rest) ([1, 0, 0, 0, 0] : Bytes).length s
      = .ok { addId (0, 5) s with ocspStapling := true } := by
  simp [chExt, chSwitch, chOCSP, idx_bind, addId]

theorem chExt_reneg (rest : Bytes) (s : ClientHello) :
    chExt (0xff, 0x01) ([0] ++ rest) ([0] : Bytes).length s = .ok (addId (0xff, 0x01) s) := by
  simp [chExt, chSwitch, addId]

theorem chExt_ticket (t rest : Bytes) (s : ClientHello) :
    chExt (0, 35) (t ++ rest) t.length s = .ok { addId (0, 35) s with ticketSupported := true, sessionTicket := t } := by
  have hsub : sub (t ++ rest) 0 t.length = .ok t := by
    have := L_sub [] t rest 0 t.length rfl (by simp)
    simpa using this
  simp [chExt, chSwitch, chTicket, hsub, addId]

theorem chExt_sni (name rest : Bytes) (s : ClientHello) (hn : name.length + 5 < 65536) :
    chExt (0, 0) ((len2 (name.length + 3) ++ [0] ++ len2 name.length ++ name) ++ rest)
        (len2 (name.length + 3) ++ [0] ++ len2 name.length ++ name).length s
      = .ok { addId (0, 0) s with serverName := name } := by
  have hu1 := u16_bytes (name.length + 3) (by omega)
  have hu2 := u16_bytes name.length (by omega)
  have hsub : sub (name ++ rest) 0 name.length = .ok name := by
    have := L_sub [] name rest 0 name.length rfl (by simp)
    simpa using this
  have hl : (len2 (name.length + 3) ++ [0] ++ len2 name.length ++ name).length = name.length + 5 := by
    simp [len2]
  rw [hl]
  have hs : sniLoop (name.length + 3) ((0 : UInt8) :: byte1 name.length :: byte0 name.length :: (name ++ rest))
      = .ok (some name) := by
    rw [show name.length + 3 = (name.length + 2) + 1 from rfl, sniLoop]
    simp only [require_bind, idx_bind, tail_bind, sub_bind]
    simp [hu2, hsub, sub]
  simp only [chExt, chSwitch, if_true, chSNI, len2, List.cons_append, List.nil_append, List.append_assoc]
  simp only [require_bind, idx_bind, tail_bind]
  simp [hu1, hs, addId]

theorem chExt_curves (cs : List U16) (rest : Bytes) (s : ClientHello) (hn : 2 + 2 * cs.length < 65536) :
    chExt (0, 10) ((len2 (2 * cs.length) ++ flatPairs cs) ++ rest) (len2 (2 * cs.length) ++ flatPairs cs).length s
      = .ok { addId (0, 10) s with supportedCurves := cs } := by
  have hu := u16_bytes (2 * cs.length) (by omega)
  have hl : (len2 (2 * cs.length) ++ flatPairs cs).length = 2 * cs.length + 2 := by
    simp [len2, flatPairs_length]
  rw [hl]
  have hp := readPairs_flat cs rest
  simp only [chExt, chSwitch, chCurves, len2, List.cons_append, List.nil_append, List.append_assoc]
  simp only [require_bind, idx_bind, tail_bind]
  simp [hu, hp, addId]

theorem chExt_sigs (cs : List U16) (rest : Bytes) (s : ClientHello) (hn : 2 + 2 * cs.length < 65536) :
    chExt (0, 13) ((len2 (2 * cs.length) ++ flatPairs cs) ++ rest) (len2 (2 * cs.length) ++ flatPairs cs).length s
      = .ok { addId (0, 13) s with signatureAndHashes := cs } := by
  have hu := u16_bytes (2 * cs.length) (by omega)
  have hl : (len2 (2 * cs.length) ++ flatPairs cs).length = 2 * cs.length + 2 := by
    simp [len2, flatPairs_length]
  rw [hl]
  have hp := readPairs_flat cs rest
  simp only [chExt, chSwitch, chSigs, len2, List.cons_append, List.nil_append, List.append_assoc]
  simp only [require_bind, idx_bind, tail_bind]
  simp [hu, hp, addId]

theorem chExt_points (ps rest : Bytes) (s : ClientHello) (hn : ps.length ≤ 255) :
    chExt (0, 11) ((byte0 ps.length :: ps) ++ rest) (byte0 ps.length :: ps).length s
      = .ok { addId (0, 11) s with supportedPoints := ps } := by
  have hb := byte0_toNat_le _ hn
  simp only [chExt, chSwitch, chPoints, List.cons_append, List.length_cons]
  simp only [require_bind, idx_bind, tail_bind]
  simp [hb, addId]

theorem chExt_alpn (ps : List Bytes) (rest : Bytes) (s : ClientHello) (hok : strsOK ps = true)
    (hn : (flatStrings ps).length + 2 < 65536) :
    chExt (0, 16) ((len2 (flatStrings ps).length ++ flatStrings ps) ++ rest)
        (len2 (flatStrings ps).length ++ flatStrings ps).length s
      = .ok { addId (0, 16) s with alpnProtocols := s.alpnProtocols ++ ps } := by
  have hu := u16_bytes (flatStrings ps).length (by omega)
  have hl : (len2 (flatStrings ps).length ++ flatStrings ps).length = (flatStrings ps).length + 2 := by
    simp [len2]
  rw [hl]
  have hsub : sub (byte1 (flatStrings ps).length :: byte0 (flatStrings ps).length :: (flatStrings ps ++ rest)) 2
      ((flatStrings ps).length + 2) = .ok (flatStrings ps) := by
    have := L_sub [byte1 (flatStrings ps).length, byte0 (flatStrings ps).length] (flatStrings ps) rest 2
      ((flatStrings ps).length + 2) rfl (by simp; omega)
    simpa using this
  have hr := readStrings_flat ps ((flatStrings ps).length + 1) hok (by have := flatStrings_length_ge ps; omega)
  simp only [chExt, chSwitch, chALPN, len2, List.cons_append, List.nil_append, List.append_assoc]
  simp only [require_bind, idx_bind]
  simp [hu, hsub, hr, addId]

/-! ### cipher suites and compression methods -/

theorem chBody_rt (suites : List U16) (comp rest : Bytes) (hs : 2 * suites.length < 65536) (hc : comp.length ≤ 255) :
    chBody (len2 (2 * suites.length) ++ flatPairs suites ++ byte0 comp.length :: comp ++ rest)
      = .ok (suites, comp, rest) := by
  have hu := u16_bytes (2 * suites.length) hs
  have hb := byte0_toNat_le _ hc
  generalize hdata : len2 (2 * suites.length) ++ flatPairs suites ++ byte0 comp.length :: comp ++ rest = data
  have hlen : data.length = 2 + 2 * suites.length + 1 + comp.length + rest.length := by
    subst hdata; simp [len2, flatPairs_length]; omega
  have h0 : idx data 0 = .ok (byte1 (2 * suites.length)) := by
    have : data = [] ++ byte1 (2 * suites.length) :: (byte0 (2 * suites.length) :: flatPairs suites ++ byte0 comp.length :: comp ++ rest) := by
      subst hdata; simp [len2]
    rw [this]; exact L_idx _ _ _ _ rfl
  have h1 : idx data 1 = .ok (byte0 (2 * suites.length)) := by
    have : data = [byte1 (2 * suites.length)] ++ byte0 (2 * suites.length) :: (flatPairs suites ++ byte0 comp.length :: comp ++ rest) := by
      subst hdata; simp [len2]
    rw [this]; exact L_idx _ _ _ _ rfl
  have hdrop : data.drop (2 + 2 * 0) = flatPairs suites ++ (byte0 comp.length :: comp ++ rest) := by
    subst hdata; simp [len2]
  have hsu : readSuites data 0 (2 * suites.length / 2) = .ok suites := by
    rw [readSuites_eq _ _ _ (by omega), hdrop, show 2 * suites.length / 2 = suites.length by omega]
    exact readPairs_flat _ _
  have ht : tail data (2 + 2 * suites.length) = .ok (byte0 comp.length :: comp ++ rest) := by
    have : data = (len2 (2 * suites.length) ++ flatPairs suites) ++ (byte0 comp.length :: comp ++ rest) := by
      subst hdata; simp
    rw [this]; exact L_tail _ _ _ (by simp [len2, flatPairs_length]; omega)
  have hsub : sub (byte0 comp.length :: (comp ++ rest)) 1 (1 + comp.length) = .ok comp := by
    have := L_sub [byte0 comp.length] comp rest 1 (1 + comp.length) rfl (by simp)
    simpa using this
  have ht2 : tail (byte0 comp.length :: (comp ++ rest)) (1 + comp.length) = .ok rest := by
    have := L_tail (byte0 comp.length :: comp) rest (1 + comp.length) (by simp; omega)
    simpa using this
  unfold chBody
  have c1 : (data.length < 2) = False := by simp; omega
  have c2 : (2 * suites.length % 2 == 1 || decide (data.length < 2 + 2 * suites.length)) = false := by
    simp; omega
  simp only [require_bind, c1, decide_false, Bool.not_false, if_true, h0, h1, ok_bind, hu, c2, hsu, ht]
  simp [require_bind, idx_bind, hb]
  rw [if_pos (by omega)]
  simp [hsub, ht2]

/-! ### assembly: the state after the first k optional extensions -/

def chIdList (m : ClientHello) : List (List U16) :=
  [ (if m.nextProtoNeg then [((0x33 : UInt8), (0x74 : UInt8))] else []),
    (if m.serverName.length > 0 then [((0 : UInt8), (0 : UInt8))] else []),
    (if m.ocspStapling then [((0 : UInt8), (5 : UInt8))] else []),
    (if m.supportedCurves.length > 0 then [((0 : UInt8), (10 : UInt8))] else []),
    (if m.supportedPoints.length > 0 then [((0 : UInt8), (11 : UInt8))] else []),
    (if m.ticketSupported then [((0 : UInt8), (35 : UInt8))] else []),
    (if m.signatureAndHashes.length > 0 then [((0 : UInt8), (13 : UInt8))] else []),
    (if m.secureRenegotiation then [((0xff : UInt8), (0x01 : UInt8))] else []),
    (if m.alpnProtocols.length > 0 then [((0 : UInt8), (16 : UInt8))] else []) ]

def chPartial (k : Nat) (m : ClientHello) : ClientHello :=
  { vers := m.vers, random := m.random, sessionId := m.sessionId, cipherSuites := m.cipherSuites,
    compressionMethods := m.compressionMethods,
    nextProtoNeg := decide (1 ≤ k) && m.nextProtoNeg,
    serverName := if 2 ≤ k then m.serverName else [],
    ocspStapling := decide (3 ≤ k) && m.ocspStapling,
    supportedCurves := if 4 ≤ k then m.supportedCurves else [],
    supportedPoints := if 5 ≤ k then m.supportedPoints else [],
    ticketSupported := decide (6 ≤ k) && m.ticketSupported,
    sessionTicket := if 6 ≤ k then m.sessionTicket else [],
    signatureAndHashes := if 7 ≤ k then m.signatureAndHashes else [],
    secureRenegotiation := hasScsv m.cipherSuites,
    alpnProtocols := if 9 ≤ k then m.alpnProtocols else [],
    padding := false,
    extensionIds := ((chIdList m).take k).flatten }

theorem nil_of_not_pos {α : Type} (l : List α) (h : ¬ (l.length > 0)) : l = [] :=
  List.eq_nil_of_length_eq_zero (by omega)

theorem chStep1 (m : ClientHello) :
    (if m.nextProtoNeg = true then { addId (0x33, 0x74) (chPartial 0 m) with nextProtoNeg := true } else chPartial 0 m)
      = chPartial 1 m := by
  cases h : m.nextProtoNeg <;> simp [chPartial, chIdList, addId, h]

theorem chStep2 (m : ClientHello) :
    (if m.serverName.length > 0 then { addId (0, 0) (chPartial 1 m) with serverName := m.serverName } else chPartial 1 m)
      = chPartial 2 m := by
  by_cases h : m.serverName.length > 0
  · simp [chPartial, chIdList, addId, h]
  · have := nil_of_not_pos _ h; simp [chPartial, chIdList, addId, this]

theorem chStep3 (m : ClientHello) :
    (if m.ocspStapling = true then { addId (0, 5) (chPartial 2 m) with ocspStapling := true } else chPartial 2 m)
      = chPartial 3 m := by
  cases h : m.ocspStapling <;> simp [chPartial, chIdList, addId, h]

theorem chStep4 (m : ClientHello) :
    (if m.supportedCurves.length > 0 then { addId (0, 10) (chPartial 3 m) with supportedCurves := m.supportedCurves }
      else chPartial 3 m) = chPartial 4 m := by
  by_cases h : m.supportedCurves.length > 0
  · simp [chPartial, chIdList, addId, h]
  · have := nil_of_not_pos _ h; simp [chPartial, chIdList, addId, this]

theorem chStep5 (m : ClientHello) :
    (if m.supportedPoints.length > 0 then { addId (0, 11) (chPartial 4 m) with supportedPoints := m.supportedPoints }
      else chPartial 4 m) = chPartial 5 m := by
  by_cases h : m.supportedPoints.length > 0
  · simp [chPartial, chIdList, addId, h]
  · have := nil_of_not_pos _ h; simp [chPartial, chIdList, addId, this]

theorem chStep6 (m : ClientHello) (ht : m.ticketSupported = true ∨ m.sessionTicket = []) :
    (if m.ticketSupported = true then
        { addId (0, 35) (chPartial 5 m) with ticketSupported := true, sessionTicket := m.sessionTicket }
      else chPartial 5 m) = chPartial 6 m := by
  cases h : m.ticketSupported
  · rcases ht with ht | ht
    · rw [h] at ht; cases ht
    · simp [chPartial, chIdList, addId, h, ht]
  · simp [chPartial, chIdList, addId, h]

theorem chStep7 (m : ClientHello) :
    (if m.signatureAndHashes.length > 0 then
        { addId (0, 13) (chPartial 6 m) with signatureAndHashes := m.signatureAndHashes }
      else chPartial 6 m) = chPartial 7 m := by
  by_cases h : m.signatureAndHashes.length > 0
  · simp [chPartial, chIdList, addId, h]
  · have := nil_of_not_pos _ h; simp [chPartial, chIdList, addId, this]

theorem chStep8 (m : ClientHello) :
    (if m.secureRenegotiation = true then addId (0xff, 0x01) (chPartial 7 m) else chPartial 7 m) = chPartial 8 m := by
  cases h : m.secureRenegotiation <;> simp [chPartial, chIdList, addId, h]

theorem chStep9 (m : ClientHello) :
    (if m.alpnProtocols.length > 0 then
        { addId (0, 16) (chPartial 8 m) with alpnProtocols := (chPartial 8 m).alpnProtocols ++ m.alpnProtocols }
      else chPartial 8 m) = chPartial 9 m := by
  by_cases h : m.alpnProtocols.length > 0
  · simp [chPartial, chIdList, addId, h]
  · have := nil_of_not_pos _ h; simp [chPartial, chIdList, addId, this]

/-- what unmarshal returns for a marshalled message: the message itself, plus the two fields only
    unmarshal sets (`extensionIds`, `padding`), and with `secureRenegotiation` decided by the SCSV suite
    alone — the renegotiation_info extension that marshal writes (0xff01) is not the one unmarshal tests (0xff02). -/
def chParsedBack (m : ClientHello) : ClientHello :=
  { m with secureRenegotiation := hasScsv m.cipherSuites, padding := false, extensionIds := chIds m }

theorem chPartial9 (m : ClientHello) : chPartial 9 m = chParsedBack m := by
  simp [chPartial, chParsedBack, chIdList, chIds]

theorem umClientHello_rt (m : ClientHello) (hwf : m.wf = true) :
    umClientHello (mClientHello m) = .ok (chParsedBack m) := by
  simp only [ClientHello.wf, Bool.and_eq_true, decide_eq_true_eq, beq_iff_eq, Bool.or_eq_true,
    List.isEmpty_iff] at hwf
  obtain ⟨⟨⟨⟨⟨⟨⟨⟨⟨⟨⟨⟨⟨hr, hs⟩, hsu⟩, hcm⟩, hsn⟩, hcu⟩, hpt⟩, htk⟩, htl⟩, hsg⟩, hok⟩, hal⟩, hel⟩, _⟩ := hwf
  unfold umClientHello mClientHello
  rw [helloFixed_rt _ _ _ _ _ hr hs (by simp [len2]; omega)]
  simp only [ok_bind]
  rw [chBody_rt _ _ _ hsu hcm]
  simp only [ok_bind]
  rw [extBlock_tail _ _ _ hel]
  have h0 : ({ vers := m.vers, random := m.random, sessionId := m.sessionId, cipherSuites := m.cipherSuites, compressionMethods := m.compressionMethods, secureRenegotiation := hasScsv m.cipherSuites } : ClientHello)
      = chPartial 0 m := by
    simp [chPartial, chIdList]
  rw [h0]
  have hx : chExts m =
      (if m.nextProtoNeg = true then encExt (0x33, 0x74) [] else []) ++
      ((if m.serverName.length > 0 then
          encExt (0, 0) (len2 (m.serverName.length + 3) ++ [0] ++ len2 m.serverName.length ++ m.serverName) else []) ++
      ((if m.ocspStapling = true then encExt (0, 5) [1, 0, 0, 0, 0] else []) ++
      ((if m.supportedCurves.length > 0 then
          encExt (0, 10) (len2 (2 * m.supportedCurves.length) ++ flatPairs m.supportedCurves) else []) ++
      ((if m.supportedPoints.length > 0 then
          encExt (0, 11) (byte0 m.supportedPoints.length :: m.supportedPoints) else []) ++
      ((if m.ticketSupported = true then encExt (0, 35) m.sessionTicket else []) ++
      ((if m.signatureAndHashes.length > 0 then
          encExt (0, 13) (len2 (2 * m.signatureAndHashes.length) ++ flatPairs m.signatureAndHashes) else []) ++
      ((if m.secureRenegotiation = true then encExt (0xff, 0x01) [0] else []) ++
      ((if m.alpnProtocols.length > 0 then
          encExt (0, 16) (len2 (flatStrings m.alpnProtocols).length ++ flatStrings m.alpnProtocols) else []) ++ [])))))))) := by
    simp [chExts]
  rw [hx]
  rw [loopAll_opt chExt _ _ _ _ _ (fun s => { addId (0x33, 0x74) s with nextProtoNeg := true }) (by simp)
    (fun _ => chExt_npn _ _), chStep1]
  rw [loopAll_opt chExt _ _ _ _ _ (fun s => { addId (0, 0) s with serverName := m.serverName }) (by simp [len2]; omega)
    (fun _ => chExt_sni _ _ _ hsn), chStep2]
  rw [loopAll_opt chExt _ _ _ _ _ (fun s => { addId (0, 5) s with ocspStapling := true }) (by simp)
    (fun _ => chExt_ocsp _ _), chStep3]
  rw [loopAll_opt chExt _ _ _ _ _ (fun s => { addId (0, 10) s with supportedCurves := m.supportedCurves })
    (by simp [len2, flatPairs_length]; omega) (fun _ => chExt_curves _ _ _ hcu), chStep4]
  rw [loopAll_opt chExt _ _ _ _ _ (fun s => { addId (0, 11) s with supportedPoints := m.supportedPoints })
    (by simp; omega) (fun _ => chExt_points _ _ _ hpt), chStep5]
  rw [loopAll_opt chExt _ _ _ _ _
    (fun s => { addId (0, 35) s with ticketSupported := true, sessionTicket := m.sessionTicket }) htl
    (fun _ => chExt_ticket _ _ _), chStep6 m htk]
  rw [loopAll_opt chExt _ _ _ _ _ (fun s => { addId (0, 13) s with signatureAndHashes := m.signatureAndHashes })
    (by simp [len2, flatPairs_length]; omega) (fun _ => chExt_sigs _ _ _ hsg), chStep7]
  rw [loopAll_opt chExt _ _ _ _ _ (fun s => addId (0xff, 0x01) s) (by simp) (fun _ => chExt_reneg _ _), chStep8]
  rw [loopAll_opt chExt _ _ _ _ _ (fun s => { addId (0, 16) s with alpnProtocols := s.alpnProtocols ++ m.alpnProtocols })
    (by simp [len2]; omega) (fun _ => chExt_alpn _ _ _ hok hal), chStep9]
  rw [loopAll_nil, chPartial9]

end BfeVerif.C45
