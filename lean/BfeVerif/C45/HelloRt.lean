import BfeVerif.C45.HelloProofs
/-! C45 — lemmas for the round-trip theorems of the hello / certificateRequest models. -/
namespace BfeVerif.C45

theorem byte0_toNat_le (n : Nat) (h : n ≤ 255) : (byte0 n).toNat = n := by
  rw [byte0_toNat]; omega

theorem readPairs_flat : ∀ (l : List U16) (rest : Bytes), readPairs l.length (flatPairs l ++ rest) = .ok l := by
  intro l
  induction l with
  | nil => intro rest; rfl
  | cons p l ih =>
    intro rest
    obtain ⟨a, b⟩ := p
    simp only [List.length_cons, flatPairs, List.cons_append, readPairs, idx_bind, tail_bind, List.length_cons]
    simp [ih]

theorem flatPairs_length (l : List U16) : (flatPairs l).length = 2 * l.length := by
  induction l with
  | nil => rfl
  | cons p l ih => obtain ⟨a, b⟩ := p; simp [flatPairs, ih]; omega

theorem flatStrings_length_ge (l : List Bytes) : l.length ≤ (flatStrings l).length := by
  induction l with
  | nil => simp [flatStrings]
  | cons s l ih => simp [flatStrings]; omega

theorem readStrings_flat : ∀ (l : List Bytes) (fuel : Nat), strsOK l = true → l.length < fuel →
    readStrings fuel (flatStrings l) = .ok l := by
  intro l
  induction l with
  | nil => intro fuel _ hf; cases fuel with
    | zero => omega
    | succ f => simp [readStrings, flatStrings]
  | cons s l ih =>
    intro fuel hok hf
    cases fuel with
    | zero => omega
    | succ f =>
      have hs : 0 < s.length ∧ s.length ≤ 255 ∧ strsOK l = true := by
        simp only [strsOK, List.all_cons, Bool.and_eq_true, decide_eq_true_eq] at hok
        exact ⟨hok.1.1, hok.1.2, hok.2⟩
      have hf' : l.length < f := by simp only [List.length_cons] at hf; omega
      have hb : (byte0 s.length).toNat = s.length := byte0_toNat_le _ hs.2.1
      simp only [flatStrings, readStrings, List.length_cons, List.cons_append]
      simp only [idx_bind, tail_bind, require_bind, sub_bind, List.length_cons, List.length_append]
      simp [hb, ih f hs.2.2 hf']
      intro hnil; rw [hnil] at hs; simp at hs

/-! ### the extension loop -/

/-- the loop with exactly the fuel `extBlock` gives it -/
def loopAll {σ : Type} (h : U16 → Bytes → Nat → σ → Res σ) (data : Bytes) (s : σ) : Res σ :=
  extLoop h (data.length + 1) data s

theorem extLoop_fuel {σ : Type} (h : U16 → Bytes → Nat → σ → Res σ) :
    ∀ (f1 f2 : Nat) (data : Bytes) (s : σ), data.length < f1 → data.length < f2 →
      extLoop h f1 data s = extLoop h f2 data s := by
  intro f1
  induction f1 with
  | zero => intro f2 data s h1; omega
  | succ f1 ih =>
    intro f2 data s h1 h2
    cases f2 with
    | zero => omega
    | succ f2 =>
      unfold extLoop
      split
      · rfl
      · by_cases h4 : data.length < 4
        · simp [require_bind, h4]
        · simp only [require_bind, idx_bind, tail_bind, dif_pos (show 0 < data.length by omega),
            dif_pos (show 1 < data.length by omega), dif_pos (show 2 < data.length by omega),
            dif_pos (show 3 < data.length by omega), if_pos (show 4 ≤ data.length by omega)]
          split
          · split
            · cases h (data[0], data[1]) (List.drop 4 data) (u16 data[2] data[3]) s with
              | ok s' =>
                simp only [ok_bind]
                split
                · apply ih <;> (simp only [List.length_drop]; omega)
                · rfl
              | rej => rfl
              | crash => rfl
            · rfl
          · rfl

theorem loopAll_nil {σ : Type} (h : U16 → Bytes → Nat → σ → Res σ) (s : σ) : loopAll h [] s = .ok s := by
  simp [loopAll, extLoop]

theorem extLoop_cons4 {σ : Type} (h : U16 → Bytes → Nat → σ → Res σ) (f : Nat) (a b c d : UInt8) (tl : Bytes) (s : σ)
    (hl : u16 c d ≤ tl.length) :
    extLoop h (f + 1) (a :: b :: c :: d :: tl) s =
      (h (a, b) tl (u16 c d) s >>= fun s' => extLoop h f (tl.drop (u16 c d)) s') := by
  rw [extLoop]
  have h0 : ¬ ((a :: b :: c :: d :: tl).length = 0) := by simp
  rw [if_neg h0]
  have h4 : ((a :: b :: c :: d :: tl).length < 4) = False := by simp
  simp only [require_bind, h4, decide_false, Bool.not_false, if_true]
  simp only [idx_eq, List.length_cons, ok_bind, tail]
  simp only [show 0 < tl.length + 1 + 1 + 1 + 1 from by omega, show 1 < tl.length + 1 + 1 + 1 + 1 from by omega,
    show 2 < tl.length + 1 + 1 + 1 + 1 from by omega, show 3 < tl.length + 1 + 1 + 1 + 1 from by omega,
    show 4 ≤ tl.length + 1 + 1 + 1 + 1 from by omega, dif_pos, if_true, ok_bind,
    List.getElem_cons_zero, List.getElem_cons_succ, List.drop_succ_cons, List.drop_zero]
  have hlt : (tl.length < u16 c d) = False := by simp; omega
  simp only [hlt, decide_false, Bool.not_false, if_true]
  cases h (a, b) tl (u16 c d) s with
  | ok s' => simp only [ok_bind, if_pos hl]
  | rej => rfl
  | crash => rfl

/-- one well-formed extension at the head of the data is handed to the handler, then the loop goes on -/
theorem loopAll_ext {σ : Type} (h : U16 → Bytes → Nat → σ → Res σ) (e : U16) (body rest : Bytes) (s : σ)
    (hb : body.length < 65536) :
    loopAll h (encExt e body ++ rest) s = (h e (body ++ rest) body.length s >>= fun s' => loopAll h rest s') := by
  unfold loopAll encExt len2
  simp only [List.cons_append, List.length_cons, List.nil_append]
  have hu : u16 (byte1 body.length) (byte0 body.length) = body.length := u16_bytes _ hb
  rw [extLoop_cons4 h _ _ _ _ _ _ s (by rw [hu]; simp only [List.length_append]; omega)]
  rw [hu]
  cases h (e.1, e.2) (body ++ rest) body.length s with
  | ok s' =>
    simp only [ok_bind, List.drop_left]
    apply extLoop_fuel <;> (try simp only [List.length_append, List.length_cons]) <;> omega
  | rej => rfl
  | crash => rfl

/-- an optional extension whose handler succeeds -/
theorem loopAll_opt {σ : Type} (h : U16 → Bytes → Nat → σ → Res σ) (c : Prop) [Decidable c] (e : U16) (body rest : Bytes)
    (s : σ) (upd : σ → σ) (hb : body.length < 65536)
    (hh : c → h e (body ++ rest) body.length s = .ok (upd s)) :
    loopAll h ((if c then encExt e body else []) ++ rest) s = loopAll h rest (if c then upd s else s) := by
  by_cases hc : c
  · simp only [if_pos hc]; rw [loopAll_ext h e body rest s hb, hh hc]; rfl
  · simp only [if_neg hc, List.nil_append]

/-- the extension block written by marshal -/
theorem extBlock_tail {σ : Type} (h : U16 → Bytes → Nat → σ → Res σ) (exts : Bytes) (s : σ)
    (hl : exts.length < 65536) : extBlock h (extTail exts) s = loopAll h exts s := by
  unfold extTail
  split
  · rename_i h0
    have : exts = [] := List.eq_nil_of_length_eq_zero h0
    subst this
    simp [extBlock, loopAll, extLoop]
  · rename_i h0
    unfold extBlock loopAll len2
    simp only [List.cons_append, List.length_cons, List.nil_append]
    simp only [require_bind, idx_bind, tail_bind]
    simp [u16_bytes _ hl]

/-! ### positional access lemmas -/

theorem L_idx (pre : Bytes) (x : UInt8) (post : Bytes) (i : Nat) (hi : i = pre.length) :
    idx (pre ++ x :: post) i = .ok x := by
  subst hi
  simp [idx_eq]

theorem L_sub (pre mid post : Bytes) (i j : Nat) (hi : i = pre.length) (hj : j = pre.length + mid.length) :
    sub (pre ++ (mid ++ post)) i j = .ok mid := by
  subst hi hj
  unfold sub
  rw [if_pos ⟨by omega, by simp only [List.length_append]; omega⟩]
  congr 1
  rw [← List.append_assoc, List.take_left' (by simp), List.drop_left]

theorem L_tail (pre post : Bytes) (k : Nat) (hk : k = pre.length) : tail (pre ++ post) k = .ok post := by
  subst hk
  unfold tail
  rw [if_pos (by simp only [List.length_append]; omega), List.drop_left]

/-- the fixed part written by marshal parses back -/
theorem helloFixed_rt (typ : UInt8) (vers : U16) (random sid rest : Bytes)
    (hr : random.length = 32) (hs : sid.length ≤ 32) (hrest : 3 ≤ rest.length) :
    helloFixed (helloHead typ vers random sid rest) = .ok (vers, random, sid, rest) := by
  have hrnd : (random ++ List.replicate 32 0).take 32 = random := by
    rw [← hr, List.take_left]
  unfold helloHead
  simp only [hrnd]
  generalize hL : (vers.1 :: vers.2 :: random ++ byte0 sid.length :: sid ++ rest).length = L
  unfold len3
  generalize byte2 L = l2; generalize byte1 L = l1; generalize byte0 L = l0
  have hb : (byte0 sid.length).toNat = sid.length := byte0_toNat_le _ (by omega)
  generalize hdata : typ :: [l2, l1, l0] ++ (vers.1 :: vers.2 :: random ++ byte0 sid.length :: sid ++ rest) = data
  have hlen : data.length = 39 + sid.length + rest.length := by
    subst hdata; simp [hr]; omega
  have h4 : idx data 4 = .ok vers.1 := by
    have : data = [typ, l2, l1, l0] ++ vers.1 :: (vers.2 :: random ++ byte0 sid.length :: sid ++ rest) := by
      subst hdata; simp
    rw [this]; exact L_idx _ _ _ _ rfl
  have h5 : idx data 5 = .ok vers.2 := by
    have : data = [typ, l2, l1, l0, vers.1] ++ vers.2 :: (random ++ byte0 sid.length :: sid ++ rest) := by
      subst hdata; simp
    rw [this]; exact L_idx _ _ _ _ rfl
  have h6 : sub data 6 38 = .ok random := by
    have : data = [typ, l2, l1, l0, vers.1, vers.2] ++ (random ++ (byte0 sid.length :: sid ++ rest)) := by
      subst hdata; simp
    rw [this]; exact L_sub _ _ _ _ _ rfl (by simp [hr])
  have h38 : idx data 38 = .ok (byte0 sid.length) := by
    have : data = ([typ, l2, l1, l0, vers.1, vers.2] ++ random) ++ byte0 sid.length :: (sid ++ rest) := by
      subst hdata; simp
    rw [this]; exact L_idx _ _ _ _ (by simp [hr])
  have h39 : sub data 39 (39 + sid.length) = .ok sid := by
    have : data = ([typ, l2, l1, l0, vers.1, vers.2] ++ random ++ [byte0 sid.length]) ++ (sid ++ rest) := by
      subst hdata; simp
    rw [this]; exact L_sub _ _ _ _ _ (by simp [hr]) (by simp [hr])
  have ht : tail data (39 + sid.length) = .ok rest := by
    have : data = ([typ, l2, l1, l0, vers.1, vers.2] ++ random ++ [byte0 sid.length] ++ sid) ++ rest := by
      subst hdata; simp
    rw [this]; exact L_tail _ _ _ (by simp [hr]; omega)
  unfold helloFixed
  have c1 : (data.length < 42) = False := by simp; omega
  have c2 : (decide (sid.length > 32) || decide (data.length < 39 + sid.length)) = false := by
    simp; omega
  simp only [require_bind, c1, decide_false, Bool.not_false, if_true, h4, h5, h6, h38, ok_bind, hb, c2, h39, ht, pure_eq]

/-! ### serverHello -/

theorem shBody_rt (c1 c2 cm : UInt8) (rest : Bytes) : shBody (c1 :: c2 :: cm :: rest) = .ok ((c1, c2), cm, rest) := by
  simp [shBody, require_bind, idx_bind, tail_bind]

theorem shExt_npn (ps : List Bytes) (rest : Bytes) (s : ServerHello) (hok : strsOK ps = true) :
    shExt (0x33, 0x74) (flatStrings ps ++ rest) (flatStrings ps).length s
      = .ok { s with nextProtoNeg := true, nextProtos := s.nextProtos ++ ps } := by
  have hsub : sub (flatStrings ps ++ rest) 0 (flatStrings ps).length = .ok (flatStrings ps) := by
    have := L_sub [] (flatStrings ps) rest 0 (flatStrings ps).length rfl (by simp)
    simpa using this
  simp only [shExt, if_true, shNPN, hsub, ok_bind]
  rw [readStrings_flat ps _ hok (by have := flatStrings_length_ge ps; omega)]
  rfl

theorem shExt_ocsp (rest : Bytes) (s : ServerHello) :
    shExt (0, 5) ([] ++ rest) ([] : Bytes).length s = .ok { s with ocspStapling := true } := by
  simp [shExt, shOCSP, require_bind]

theorem shExt_ticket (rest : Bytes) (s : ServerHello) :
    shExt (0, 35) ([] ++ rest) ([] : Bytes).length s = .ok { s with ticketSupported := true } := by
  simp [shExt, shTicket, require_bind]

theorem shExt_reneg (rest : Bytes) (s : ServerHello) :
    shExt (0xff, 0x01) ([0] ++ rest) ([0] : Bytes).length s = .ok { s with secureRenegotiation := true } := by
  simp [shExt, shReneg, require_bind, idx_bind]

theorem shExt_alpn (name rest : Bytes) (s : ServerHello) (hn : name.length ≤ 255) :
    shExt (0, 16) ((len2 (name.length + 1) ++ byte0 name.length :: name) ++ rest)
        (len2 (name.length + 1) ++ byte0 name.length :: name).length s
      = .ok { s with alpnProtocol := name } := by
  have hsub : sub ((len2 (name.length + 1) ++ byte0 name.length :: name) ++ rest) 0
      (len2 (name.length + 1) ++ byte0 name.length :: name).length
      = .ok (len2 (name.length + 1) ++ byte0 name.length :: name) := by
    have := L_sub [] (len2 (name.length + 1) ++ byte0 name.length :: name) rest 0
      (len2 (name.length + 1) ++ byte0 name.length :: name).length rfl (by simp)
    simpa using this
  have hb := byte0_toNat_le _ hn
  have hu := u16_bytes (name.length + 1) (by omega)
  simp only [shExt, shALPN, hsub, ok_bind]
  simp [len2, require_bind, idx_bind, tail_bind, hu, hb]
  exact decide_eq_false (by omega)

theorem umServerHello_rt (m : ServerHello) (hwf : m.wf = true) : umServerHello (mServerHello m) = .ok m := by
  obtain ⟨vers, random, sid, suite, comp, npn, protos, ocsp, ticket, reneg, alpn⟩ := m
  simp only [ServerHello.wf, Bool.and_eq_true, decide_eq_true_eq, beq_iff_eq, Bool.or_eq_true,
    List.isEmpty_iff] at hwf
  obtain ⟨⟨⟨⟨⟨⟨hr, hs⟩, hnp⟩, hok⟩, hpl⟩, hal⟩, hel⟩ := hwf
  unfold umServerHello mServerHello
  rw [helloFixed_rt _ _ _ _ _ hr hs (by simp)]
  simp only [ok_bind]
  rw [shBody_rt]
  simp only [ok_bind]
  rw [extBlock_tail _ _ _ hel]
  have hx : shExts ⟨vers, random, sid, suite, comp, npn, protos, ocsp, ticket, reneg, alpn⟩ =
      (if npn = true then encExt (0x33, 0x74) (flatStrings protos) else []) ++
      ((if ocsp = true then encExt (0, 5) [] else []) ++
      ((if ticket = true then encExt (0, 35) [] else []) ++
      ((if reneg = true then encExt (0xff, 0x01) [0] else []) ++
      ((if alpn.length > 0 then encExt (0, 16) (len2 (alpn.length + 1) ++ byte0 alpn.length :: alpn) else []) ++ [])))) := by
    simp [shExts]
  rw [hx]
  rw [loopAll_opt shExt _ _ _ _ _ (fun s => { s with nextProtoNeg := true, nextProtos := s.nextProtos ++ protos }) hpl
    (fun _ => shExt_npn _ _ _ hok)]
  rw [loopAll_opt shExt _ _ _ _ _ (fun s => { s with ocspStapling := true }) (by simp) (fun _ => shExt_ocsp _ _)]
  rw [loopAll_opt shExt _ _ _ _ _ (fun s => { s with ticketSupported := true }) (by simp) (fun _ => shExt_ticket _ _)]
  rw [loopAll_opt shExt _ _ _ _ _ (fun s => { s with secureRenegotiation := true }) (by simp) (fun _ => shExt_reneg _ _)]
  rw [loopAll_opt shExt _ _ _ _ _ (fun s => { s with alpnProtocol := alpn }) (by simp [len2]; omega)
    (fun _ => shExt_alpn _ _ _ hal)]
  rw [loopAll_nil]
  congr 1
  have ha : ¬ (alpn.length > 0) → alpn = [] := by
    intro h; exact List.eq_nil_of_length_eq_zero (by omega)
  by_cases hc : alpn.length > 0
  · cases npn <;> cases ocsp <;> cases ticket <;> cases reneg <;> simp_all
  · have := ha hc; subst this
    cases npn <;> cases ocsp <;> cases ticket <;> cases reneg <;> simp_all

end BfeVerif.C45
