import BfeVerif.C45.Proofs
import BfeVerif.C45.HelloRtCH
import BfeVerif.C45.MoreRt
import BfeVerif.C45.Chunking
/-!
  C45 — TLS handshake messages round-trip and parse safely.  Property theorems only.

  `C45_total_<msg>` : for EVERY byte string, the model of `unmarshal` never takes an out-of-range
                      slice access (`Res.crash` = Go's index-out-of-range panic).
  `C45_rt_<msg>`    : `unmarshal (marshal m) = ok m` for every message whose lengths fit the wire format
                      (the hypothesis is exactly that limit; non-vacuity examples at the end).
-/
namespace BfeVerif.C45

/-! ### parse safety -/

theorem C45_total_finished (d : Bytes) : umFinished d ≠ .crash := by
  unfold umFinished; res_total

theorem C45_total_serverKeyExchange (d : Bytes) : umServerKeyExchange d ≠ .crash := by
  unfold umServerKeyExchange; res_total

theorem C45_total_clientKeyExchange (d : Bytes) : umClientKeyExchange d ≠ .crash := by
  unfold umClientKeyExchange; res_total

theorem C45_total_serverHelloDone (d : Bytes) : umServerHelloDone d ≠ .crash := by
  unfold umServerHelloDone require; split <;> simp

theorem C45_total_certificateStatus (d : Bytes) : umCertificateStatus d ≠ .crash := by
  unfold umCertificateStatus; res_total

theorem C45_total_newSessionTicket (d : Bytes) : umNewSessionTicket d ≠ .crash := by
  unfold umNewSessionTicket; res_total

/-- certificate: the second loop re-reads the lengths without checks; it is safe because the first
    loop validated exactly those accesses (`sliceCerts_after_count`). -/
theorem C45_total_certificate (d : Bytes) : umCertificate d ≠ .crash := by
  unfold umCertificate
  by_cases h7 : d.length < 7
  · simp [require_bind, h7]
  · have h4 : 4 < d.length := by omega
    have h5 : 5 < d.length := by omega
    have h6 : 6 < d.length := by omega
    simp only [require_bind, idx_bind, tail_bind, dif_pos h4, dif_pos h5, dif_pos h6]
    split
    · split
      · rw [if_pos (by omega)]
        cases hc : countCerts ((d.drop 7).length + 1) (d.drop 7) (u24 d[4] d[5] d[6]) 0 with
        | ok n =>
          have := (sliceCerts_after_count _ _ _ _ _ hc).2
          simpa using this
        | rej => simp
        | crash => exact absurd hc (countCerts_total _ _ _ _)
      · simp
    · simp

/-- clientHello (all extensions bfe handles: server_name, NPN, status_request, supported_curves, ec_point_formats,
    session_ticket, signature_algorithms, 0xff02, ALPN, padding; unknown ones skipped): no byte string makes
    unmarshal index out of range — including the server_name loop, which walks `data[2:]` beyond the extension. -/
theorem C45_total_clientHello (d : Bytes) : umClientHello d ≠ .crash := umClientHello_total d

theorem C45_total_serverHello (d : Bytes) : umServerHello d ≠ .crash := umServerHello_total d

theorem C45_total_certificateRequest (has : Bool) (d : Bytes) : umCertReq has d ≠ .crash := umCertReq_total has d

theorem C45_total_nextProto (d : Bytes) : umNextProto d ≠ .crash := umNextProto_total d

theorem C45_total_certificateVerify (has : Bool) (d : Bytes) : umCertificateVerify has d ≠ .crash :=
  umCertificateVerify_total has d

/-- **C45_readHandshake_chunking.**  `Conn.readHandshake` reassembles a message from handshake records; as long as
    no record trips one of readRecord's size rules (≤ 2^14 bytes each, and < 0x3000 while the version is not yet
    known), the bytes it hands to `unmarshal` (or the error: EOF before the message is complete, internal_error for
    a length above 65536) are a function of the concatenated bytes alone — any cutting of the message into records,
    including empty records and cuts inside the 4-byte header, gives the same result. -/
theorem C45_readHandshake_chunking (haveVers : Bool) (records : List Bytes) (hok : recordsOK haveVers records = true) :
    readHandshakeBytes haveVers records = hsSpec records.flatten := readHandshake_chunking haveVers records hok

/-! ### round trip -/

/-- serverHello: every message within the wire limits (`ServerHello.wf`: 32-byte random, session id ≤ 32,
    NPN/ALPN names of 1..255 bytes, no protocol list without the NPN flag, extensions < 64 KiB) parses back to itself. -/
theorem C45_rt_serverHello (m : ServerHello) (hwf : m.wf = true) : umServerHello (mServerHello m) = .ok m :=
  umServerHello_rt m hwf

/-- clientHello, exact: what comes back is the message with the two parse-only fields filled in
    (`extensionIds` in wire order, `padding = false`) and `secureRenegotiation` = "the SCSV suite 0x00ff is listed". -/
theorem C45_rt_clientHello_exact (m : ClientHello) (hwf : m.wf = true) :
    umClientHello (mClientHello m) = .ok (chParsedBack m) := umClientHello_rt m hwf

/-- The full-strength round trip for clientHello: every field that marshal writes is read back.
    FALSE for the unchanged code (`C45_witness_clientHello_reneg`). -/
def ClientHelloRoundTrips : Prop :=
  ∀ m : ClientHello, m.wf = true →
    umClientHello (mClientHello m) = .ok { m with padding := false, extensionIds := chIds m }

/-- clientHello round trip for every message whose `secureRenegotiation` flag agrees with the presence of the
    SCSV suite (the only way the parser learns it). -/
theorem C45_rt_clientHello_partial (m : ClientHello) (hwf : m.wf = true)
    (hre : m.secureRenegotiation = hasScsv m.cipherSuites) :
    umClientHello (mClientHello m) = .ok { m with padding := false, extensionIds := chIds m } := by
  rw [umClientHello_rt m hwf]
  congr 1
  obtain ⟨vers, random, sid, suites, comp, npn, sni, ocsp, curves, points, tok, ticket, sigs, reneg, alpn, pad, ids⟩ := m
  simp only at hre
  simp [chParsedBack, hre]

def renegHello : ClientHello :=
  { vers := (3, 3), random := List.replicate 32 0, cipherSuites := [(0xc0, 0x2f)], compressionMethods := [0],
    secureRenegotiation := true }

/-- **C45_witness_clientHello_reneg.**  A clientHello that announces secure renegotiation with the
    renegotiation_info extension (as bfe's own client does) comes back with `secureRenegotiation = false`:
    marshal writes extension 0xff01, unmarshal's switch tests `extensionRenegotiationInfo + 1` = 0xff02. -/
theorem C45_witness_clientHello_reneg : ¬ ClientHelloRoundTrips := by
  intro h
  have h1 := h renegHello (by decide)
  rw [umClientHello_rt renegHello (by decide)] at h1
  revert h1
  decide

theorem C45_rt_finished (v : Bytes) : umFinished (mFinished v) = .ok v := by
  unfold umFinished mFinished
  simp [require_bind, tail]

theorem C45_rt_serverKeyExchange (k : Bytes) : umServerKeyExchange (mServerKeyExchange k) = .ok k := by
  unfold umServerKeyExchange mServerKeyExchange
  simp [len3, require_bind, tail]
  res_rt

theorem C45_rt_clientKeyExchange (c : Bytes) (h : c.length < 16777216) :
    umClientKeyExchange (mClientKeyExchange c) = .ok c := by
  unfold umClientKeyExchange mClientKeyExchange
  simp [len3, require_bind, idx_bind, tail, u24_bytes, h]
  res_rt

theorem C45_rt_serverHelloDone : umServerHelloDone mServerHelloDone = .ok () := by decide

theorem C45_rt_certificateStatus (t : UInt8) (r : Bytes)
    (h : (t = 1 ∧ r.length + 4 < 16777216) ∨ (t ≠ 1 ∧ r = [])) :
    umCertificateStatus (mCertificateStatus t r) = .ok (t, r) := by
  unfold umCertificateStatus mCertificateStatus
  rcases h with ⟨ht, hr⟩ | ⟨ht, hr⟩
  · subst ht
    simp [len3, require_bind, idx_bind, tail, u24_bytes, show r.length < 16777216 by omega]
    res_rt
  · subst hr
    simp [ht, require_bind, idx_bind]

theorem C45_rt_newSessionTicket (t : Bytes) (h : t.length < 65536) :
    umNewSessionTicket (mNewSessionTicket t) = .ok t := by
  unfold umNewSessionTicket mNewSessionTicket
  simp +arith [len3, len2, require_bind, idx_bind, tail, u16_bytes, h]
  rw [u24_bytes _ (by omega)]

theorem C45_rt_certificateVerify (has : Bool) (hash sig : UInt8) (s : Bytes) (h : s.length < 65536)
    (h0 : has = false → hash = 0 ∧ sig = 0) :
    umCertificateVerify has (mCertificateVerify has hash sig s) = .ok (hash, sig, s) := by
  unfold umCertificateVerify mCertificateVerify
  cases has
  · obtain ⟨rfl, rfl⟩ := h0 rfl
    simp [len3, len2, require_bind, idx_bind, tail_bind, tail, u24_bytes, u16_bytes, h, show 2 + s.length < 16777216 by omega]
    res_rt
  · simp [len3, len2, require_bind, idx_bind, tail_bind, tail, u24_bytes, u16_bytes, h, show 2 + s.length + 2 < 16777216 by omega]
    res_rt

theorem C45_rt_nextProto (p : Bytes) (hp : p.length ≤ 255) : umNextProto (mNextProto p) = .ok p :=
  umNextProto_rt p hp

/-- certificateRequest (1..255 certificate types, signature algorithms only with hasSignatureAndHash, CA names < 64 KiB) -/
theorem C45_rt_certificateRequest (has : Bool) (m : CertReq) (hwf : m.wf has = true) :
    umCertReq has (mCertReq has m) = .ok m := umCertReq_rt has m hwf

/-- certificate lists without empty certificates (an empty LAST certificate is rejected by the parser, see below) -/
theorem C45_rt_certificate (cs : List Bytes) (hok : certsOK cs = true) (hl : (certBody cs).length + 3 < 16777216) :
    umCertificate (mCertificate cs) = .ok cs := umCertificate_rt cs hok hl

/-! ### non-vacuity / concrete checks -/
example : renegHello.wf = true := by decide
example : ({ random := List.replicate 32 7, nextProtoNeg := true, nextProtos := [[104, 50]], alpnProtocol := [104, 50] } : ServerHello).wf = true := by decide
example : ({ certificateTypes := [1, 64], signatureAndHashes := [(4, 1)], certificateAuthorities := [[1, 2, 3]] } : CertReq).wf true = true := by decide
example : umNewSessionTicket (mNewSessionTicket [1, 2, 3]) = .ok [1, 2, 3] := by decide
example : umCertificate (mCertificate [[1, 2], [3]]) = .ok [[1, 2], [3]] := by decide
example : umNextProto (mNextProto [104, 50]) = .ok [104, 50] := by decide
/-- a certificate list whose LAST certificate is empty does not round-trip (the loop demands
    `len(d) >= 4` per certificate); such lists are outside the wire format's use (no empty certificates) -/
example : umCertificate (mCertificate [[1], []]) = .rej := by decide

end BfeVerif.C45
