/-
  C45 — models of marshal / unmarshal of bfe_tls handshake messages (handshake_messages.go).  Core-only.

  Every Go slice access is modelled with an explicit bound check:
     data[i]      ↦ `idx data i`       (crash when i ≥ len)
     data[a:]     ↦ `tail data a`      (crash when a > len)
     data[a:b]    ↦ `sub data a b`     (crash when a > b or b > len)
  `Res.crash` is the Go run-time panic "index out of range"; `Res.rej` is `return false`.
  Integer widths: lengths are `Nat`; the Go code computes them in `uint32`/`int`, exact for messages
  shorter than 2^32 bytes (readHandshake caps messages at 65536+4).
  `raw` (the cached wire form) is not a field of the model; marshal is modelled for `raw == nil`.
-/
namespace BfeVerif.C45

abbrev Bytes := List UInt8

inductive Res (α : Type) where
  | ok (a : α)
  | rej
  | crash
  deriving DecidableEq, Repr

def Res.bind {α β : Type} : Res α → (α → Res β) → Res β
  | .ok a, f => f a
  | .rej, _ => .rej
  | .crash, _ => .crash

instance : Monad Res where
  pure := Res.ok
  bind := Res.bind

def idx (d : Bytes) (i : Nat) : Res UInt8 := if h : i < d.length then .ok d[i] else .crash

def tail (d : Bytes) (a : Nat) : Res Bytes := if a ≤ d.length then .ok (d.drop a) else .crash

def sub (d : Bytes) (a b : Nat) : Res Bytes :=
  if a ≤ b ∧ b ≤ d.length then .ok ((d.take b).drop a) else .crash

/-- `if !c { return false }` -/
def require (c : Bool) : Res Unit := if c then .ok () else .rej

def u24 (a b c : UInt8) : Nat := a.toNat * 65536 + b.toNat * 256 + c.toNat
def u16 (a b : UInt8) : Nat := a.toNat * 256 + b.toNat

/-- `uint8(n >> 16), uint8(n >> 8), uint8(n)` -/
def byte2 (n : Nat) : UInt8 := UInt8.ofNat (n / 65536)
def byte1 (n : Nat) : UInt8 := UInt8.ofNat (n / 256)
def byte0 (n : Nat) : UInt8 := UInt8.ofNat n
def len3 (n : Nat) : Bytes := [byte2 n, byte1 n, byte0 n]
def len2 (n : Nat) : Bytes := [byte1 n, byte0 n]

/-! ### finished -/
def mFinished (v : Bytes) : Bytes := [20, 0, 0, byte0 v.length] ++ v   -- only x[3] is written

def umFinished (d : Bytes) : Res Bytes := do
  require (!(d.length < 4))
  tail d 4

/-! ### serverKeyExchange -/
def mServerKeyExchange (k : Bytes) : Bytes := 12 :: len3 k.length ++ k

def umServerKeyExchange (d : Bytes) : Res Bytes := do
  require (!(d.length < 4))
  tail d 4

/-! ### clientKeyExchange -/
def mClientKeyExchange (c : Bytes) : Bytes := 16 :: len3 c.length ++ c

def umClientKeyExchange (d : Bytes) : Res Bytes := do
  require (!(d.length < 4))
  let a ← idx d 1; let b ← idx d 2; let c ← idx d 3
  require (u24 a b c == d.length - 4)
  tail d 4

/-! ### serverHelloDone -/
def mServerHelloDone : Bytes := [14, 0, 0, 0]
def umServerHelloDone (d : Bytes) : Res Unit := require (d.length == 4)

/-! ### certificateStatus -/
def mCertificateStatus (t : UInt8) (r : Bytes) : Bytes :=
  if t = 1 then 22 :: len3 (r.length + 4) ++ [1] ++ len3 r.length ++ r
  else [22, 0, 0, 1, t]

def umCertificateStatus (d : Bytes) : Res (UInt8 × Bytes) := do
  require (!(d.length < 5))
  let t ← idx d 4
  if t = 1 then
    require (!(d.length < 8))
    let a ← idx d 5; let b ← idx d 6; let c ← idx d 7
    require (d.length == 4 + 4 + u24 a b c)
    let r ← tail d 8
    pure (t, r)
  else pure (t, [])

/-! ### nextProto -/
def mNextProto (p : Bytes) : Bytes :=
  let l := if p.length > 255 then 255 else p.length
  let padding := 32 - (l + 2) % 32
  let length := l + padding + 2
  67 :: len3 length ++ [byte0 l] ++ p.take l ++ [byte0 padding] ++ List.replicate padding 0

def umNextProto (d : Bytes) : Res Bytes := do
  require (!(d.length < 5))
  let data ← tail d 4
  let pl ← idx data 0
  let data ← tail data 1
  require (!(data.length < pl.toNat))
  let proto ← sub data 0 pl.toNat
  let data ← tail data pl.toNat
  require (!(data.length < 1))
  let padl ← idx data 0
  let data ← tail data 1
  require (data.length == padl.toNat)
  pure proto

/-! ### newSessionTicket -/
def mNewSessionTicket (t : Bytes) : Bytes :=
  4 :: len3 (2 + 4 + t.length) ++ [0, 0, 0, 0] ++ len2 t.length ++ t

def umNewSessionTicket (d : Bytes) : Res Bytes := do
  require (!(d.length < 10))
  let a ← idx d 1; let b ← idx d 2; let c ← idx d 3
  require (d.length - 4 == u24 a b c)
  let h ← idx d 8; let l ← idx d 9
  require (d.length - 10 == u16 h l)
  tail d 10

/-! ### certificateVerify -/
def mCertificateVerify (has : Bool) (hash sig : UInt8) (s : Bytes) : Bytes :=
  let length := 2 + s.length + (if has then 2 else 0)
  15 :: len3 length ++ (if has then [hash, sig] else []) ++ len2 s.length ++ s

/-- result: (hash, signature algorithm, signature); hash/alg stay 0 when `has` is false -/
def umCertificateVerify (has : Bool) (d : Bytes) : Res (UInt8 × UInt8 × Bytes) := do
  require (!(d.length < 6))
  let a ← idx d 1; let b ← idx d 2; let c ← idx d 3
  require (d.length - 4 == u24 a b c)
  let data ← tail d 4
  if has then
    let h ← idx data 0
    let g ← idx data 1
    let data ← tail data 2
    require (!(data.length < 2))
    let x ← idx data 0; let y ← idx data 1
    let data ← tail data 2
    require (data.length == u16 x y)
    pure (h, g, data)
  else
    require (!(data.length < 2))
    let x ← idx data 0; let y ← idx data 1
    let data ← tail data 2
    require (data.length == u16 x y)
    pure (0, 0, data)

/-! ### certificate -/
def certBody : List Bytes → Bytes
  | [] => []
  | c :: cs => len3 c.length ++ c ++ certBody cs

def mCertificate (cs : List Bytes) : Bytes :=
  let body := certBody cs
  11 :: len3 (3 + body.length) ++ len3 body.length ++ body

/-- first loop of unmarshal: `for certsLen > 0 { … }` counting the certificates (fuel = len d + 1) -/
def countCerts : Nat → Bytes → Nat → Nat → Res Nat
  | 0, _, _, n => .ok n          -- out of fuel: unreachable (each turn consumes ≥ 3 bytes)
  | fuel + 1, d, certsLen, n =>
    if certsLen > 0 then do
      require (!(d.length < 4))
      let a ← idx d 0; let b ← idx d 1; let c ← idx d 2
      let certLen := u24 a b c
      require (!(d.length < 3 + certLen))
      let d' ← tail d (3 + certLen)
      countCerts fuel d' (certsLen - (3 + certLen)) (n + 1)
    else .ok n

/-- second loop: `for i := 0; i < numCerts; i++ { … }` slicing the certificates -/
def sliceCerts : Nat → Bytes → Res (List Bytes)
  | 0, _ => .ok []
  | n + 1, d => do
    let a ← idx d 0; let b ← idx d 1; let c ← idx d 2
    let certLen := u24 a b c
    let cert ← sub d 3 (3 + certLen)
    let d' ← tail d (3 + certLen)
    let rest ← sliceCerts n d'
    pure (cert :: rest)

def umCertificate (d : Bytes) : Res (List Bytes) := do
  require (!(d.length < 7))
  let a ← idx d 4; let b ← idx d 5; let c ← idx d 6
  let certsLen := u24 a b c
  require (d.length == certsLen + 7)
  let body ← tail d 7
  let n ← countCerts (body.length + 1) body certsLen 0
  sliceCerts n body

end BfeVerif.C45
