import BfeVerif.Common.Proto
import BfeVerif.C21.Model
/-!
  C21 driver.  op = `cap=N;tok;tok;…`, result = one token per op token, joined by `;`.

    w:<hex>   Write                      -> w=<n>,<none|closed|full>
    c:<e>     CloseWithError(err e)      -> c          cf:<e>  CloseWithErrorAndCode -> c
    b:<e>     BreakWithError(err e)      -> b
    rel       Release                    -> rel        (second Release: the whole case is `PANIC:…`)
    r:<n>     start a Read(len n) in the reader thread and let it run until it returns or parks
                                         -> r=<hex>|r=err<e>[+fn]|r=blocked
    j         let the parked/woken reader run until it returns or parks again
                                         -> j=<hex>|j=err<e>[+fn]|j=blocked|j=none
    e         Err()                      -> e=<e>|e=nil
    d         Done() closed?             -> d=open|d=closed
    len       buffered bytes             -> len=<n>|len=nil
    dis       Discard()                  -> dis=<n>
  Lifecycle case: `L;caps=<c0>.<c1>…;tok;…` with tokens `n:<buf>` (NewPipeFromBufferPool where the pool hands
  out buffer <buf>; pipes are numbered in creation order; result `n`) and `<pipe>.<tok>` (any token above on
  that pipe; `rel` puts the buffer back into the pool).
  Error code 0 is io.EOF.

  The verdict is computed by `oracle`, a trace checker that knows nothing of FixedBuffer/Pipe
  internals: it replays the *implementation's* result tokens against the property text.
-/
namespace BfeVerif.C21
open BfeVerif.Proto

inductive Tok
  | w (d : List UInt8) | c (e : Nat) (fn : Bool) | b (e : Nat) | rel | r (n : Nat) | j | e | d | len | dis
deriving Repr

def parseTok (s : String) : Option Tok :=
  match s.splitOn ":" with
  | ["w", hx] => (bytesOfHex hx).map Tok.w
  | ["c", e] => e.toNat?.map (Tok.c · false)
  | ["cf", e] => e.toNat?.map (Tok.c · true)
  | ["b", e] => e.toNat?.map Tok.b
  | ["rel"] => some .rel
  | ["r", n] => n.toNat?.map Tok.r
  | ["j"] => some .j
  | ["e"] => some .e
  | ["d"] => some .d
  | ["len"] => some .len
  | ["dis"] => some .dis
  | _ => none

def parseOp (op : String) : Option (Nat × List Tok) :=
  match op.splitOn ";" with
  | capS :: rest =>
    match capS.splitOn "=" with
    | ["cap", n] =>
      match n.toNat? with
      | some cap => (rest.mapM parseTok).map (fun ts => (cap, ts))
      | none => none
    | ["size", n] =>          -- NewPipeWithSize(n) instead of NewPipeFromBufferPool: same model
      match n.toNat? with
      | some cap => (rest.mapM parseTok).map (fun ts => (cap, ts))
      | none => none
    | _ => none
  | [] => none

def renderRd (pre : String) : RdRes → String
  | .data bs => pre ++ "=" ++ hexField bs
  | .err e f => pre ++ "=err" ++ toString e ++ (if f then "+fn" else "")
  | .wait => pre ++ "=blocked"

def renderWrErr : WrErr → String
  | .none => "none" | .closed => "closed" | .full => "full"

def panicMsg : String := "PANIC:runtime error: invalid memory address or nil pointer dereference"

/-- Write/Close/Break signal; the harness lets a reader made runnable by that Signal run at once
    (until it returns or parks again) and appends its result as `>…`. -/
def auto (s : Sys) (base : String) : Sys × String :=
  match s.rd with
  | .ready _ =>
    match s.step .readerStep with
    | (s2, .read r) => (s2, base ++ ">" ++ (renderRd "" r).drop 1)
    | (s2, _) => (s2, base ++ ">?")
  | _ => (s, base)

/-- run one token on the model; `none` = crash -/
def runTok (s : Sys) (t : Tok) : Option (Sys × String) :=
  match t with
  | .w d =>
    match s.step (.write d) with
    | (s', .wrote n e) => some (auto s' ("w=" ++ toString n ++ "," ++ renderWrErr e))
    | (s', _) => some (s', "w=?")
  | .c e fn => some (auto (s.step (.close e fn)).1 "c")
  | .b e => some (auto (s.step (.brk e)).1 "b")
  | .rel =>
    match s.step .release with
    | (_, .crash) => none
    | (s', _) => some (s', "rel")
  | .r n =>
    match s.rd with
    | .idle =>
      let s1 := (s.step (.startRead n)).1
      match s1.step .readerStep with
      | (s2, .read r) => some (s2, renderRd "r" r)
      | (s2, _) => some (s2, "r=?")
    | _ => some (s, "r=busy")
  | .j =>
    match s.rd with
    | .idle => some (s, "j=none")
    | .waiting _ => some (s, "j=blocked")
    | .ready _ =>
      match s.step .readerStep with
      | (s2, .read r) => some (s2, renderRd "j" r)
      | (s2, _) => some (s2, "j=?")
  | .e =>
    match s.step .getErr with
    | (s', .errIs (some e)) => some (s', "e=" ++ toString e)
    | (s', _) => some (s', "e=nil")
  | .d =>
    match s.step .done with
    | (s', .doneIs c) => some (s', if c then "d=closed" else "d=open")
    | (s', _) => some (s', "d=?")
  | .len =>
    match s.p.b with
    | some fb => some (s, "len=" ++ toString fb.len)
    | none => some (s, "len=nil")
  | .dis =>
    match s.step .discard with
    | (s', .discarded n) => some (s', "dis=" ++ toString n)
    | (s', _) => some (s', "dis=?")

def runToks : Sys → List Tok → List String → Option (List String)
  | _, [], acc => some acc.reverse
  | s, t :: ts, acc =>
    match runTok s t with
    | none => none
    | some (s', o) => runToks s' ts (o :: acc)

/-! ### the specification as a trace checker (judges the implementation's own result string) -/

structure Sp where
  cap : Nat
  acc : List UInt8 := []       -- bytes the implementation said it accepted
  del : Nat := 0               -- number of bytes it delivered so far
  cerr : Option Nat := none
  berr : Option Nat := none
  released : Bool := false
  pending : Option Nat := none -- a Read(len n) is parked
  fnPending : Bool := false    -- a CloseWithErrorAndCode fn is installed and has not run
  ghost : List UInt8 := []     -- lifecycle: what the previous owner of the buffer left unread (must be invisible)

def Sp.buffered (s : Sp) : List UInt8 := if s.released then [] else s.acc.drop s.del

def parseRd (s : Sp) (n : Nat) (v : String) : Sp × Option String :=
  -- v is what follows `r=` / `j=`
  if v == "blocked" then
    if s.berr.isSome then (s, some "break-delayed")
    else if !s.buffered.isEmpty then ({ s with pending := some n }, some "lost-wakeup")
    else if s.cerr.isSome then (s, some "lost-wakeup-close")
    else ({ s with pending := some n }, none)
  else if v.startsWith "err" then
    let body := (v.drop 3).toString
    let code := ((body.splitOn "+").headD "").toNat?
    let ranFn := (body.splitOn "+fn").length > 1
    let s := { s with pending := none }
    match s.berr with
    | some be =>
      if code != some be then (s, some "break-delayed")
      else if ranFn then (s, some "readfn") else (s, none)
    | none =>
      match s.cerr with
      | none => (s, some "spurious-error")
      | some ce =>
        if !s.buffered.isEmpty then (s, some "early-close")
        else if code != some ce then (s, some "wrong-error")
        -- the code installed by CloseWithErrorAndCode runs exactly once, with the first close-error return
        else if ranFn != s.fnPending then (s, some "readfn")
        else ({ s with fnPending := false }, none)
  else if v == "HANG" then (s, some "hang")
  else
    match bytesOfHex v with
    | none => (s, some "bad-token")
    | some bs =>
      let s' := { s with pending := none, del := s.del + bs.length }
      if s.berr.isSome then (s', some "break-delayed")
      else
        let want := s.buffered.take n
        let foreign := !s.ghost.isEmpty && !bs.isEmpty && bs == (s.ghost ++ s.buffered).take n
        if !s.buffered.isEmpty && bs == want then (s', none)
        else if foreign then (s', some "foreign-bytes")
        else if s.buffered.isEmpty then (s', some "phantom-data")
        else (s', some "fifo")

def stepSpec0 (s : Sp) (t : Tok) (res : String) : Sp × Option String :=
  match t with
  | .w d =>
    match (res.drop 2).toString.splitOn "," with
    | [ns, es] =>
      match ns.toNat? with
      | none => (s, some "bad-token")
      | some n =>
        let refused := s.cerr.isSome || s.released
        let free := s.cap - s.buffered.length
        let s' := { s with acc := s.acc ++ d.take n }
        if n > d.length then (s', some "over-accept")
        else if refused then (if n == 0 && es == "closed" then (s', none) else (s', some "write-after-close"))
        else if n < d.length && es != "full" then (s', some "silent-trunc")
        else if n == d.length && es != "none" then (s', some "false-refusal")
        else if n != min d.length free then
          (s', some (if !s.ghost.isEmpty && n == min d.length (free - s.ghost.length) then "foreign-bytes" else "write-cap"))
        else (s', none)
    | _ => (s, some "bad-token")
  | .c e fn =>
    match s.cerr with
    | none => ({ s with cerr := some e, fnPending := fn }, none)
    | some old => (if old == 0 then { s with cerr := some e } else s, none)
  | .b e =>
    match s.berr with
    | none => ({ s with berr := some e, fnPending := false }, none)
    | some old => (if old == 0 then { s with berr := some e } else s, none)
  | .rel =>
    -- Release must Put the pipe's own buffer back (the harness takes it out of the pool again and looks)
    ({ s with released := true }, if res == "rel" then none else some "release-no-put")
  | .r n =>
    if res == "r=busy" then (s, none) else parseRd s n (res.drop 2).toString
  | .j =>
    if res == "j=none" then (s, if s.pending.isSome then some "reader-lost" else none)
    else match s.pending with
      | some n => parseRd s n (res.drop 2).toString
      | none => (s, some "no-reader")
  | .e =>
    let want := match s.berr with
      | some e => "e=" ++ toString e
      | none => match s.cerr with
        | some e => "e=" ++ toString e
        | none => "e=nil"
    (s, if res == want then none else some "err-value")
  | .d =>
    let want := if s.berr.isSome || s.cerr.isSome then "d=closed" else "d=open"
    (s, if res == want then none else some "done-chan")
  | .len =>
    let want := if s.released then "len=nil" else "len=" ++ toString s.buffered.length
    let dirty := "len=" ++ toString (s.ghost.length + s.buffered.length)
    (s, if res == want then none else if !s.ghost.isEmpty && res == dirty then some "foreign-bytes" else some "len")
  | .dis =>
    let k := s.buffered.length
    let dirty := "dis=" ++ toString (s.ghost.length + k)
    ({ s with acc := s.acc.take s.del },
      if res == "dis=" ++ toString k then none
      else if !s.ghost.isEmpty && res == dirty then some "foreign-bytes" else some "discard-count")

def isSignal : Tok → Bool | .w _ => true | .c _ _ => true | .b _ => true | _ => false

/-- a signalling op carries the woken reader's result after `>` -/
def stepSpec (s : Sp) (t : Tok) (res : String) : Sp × Option String :=
  match res.splitOn ">" with
  | [a] =>
    if isSignal t && s.pending.isSome then (s, some "reader-lost") else stepSpec0 s t a
  | [a, b] =>
    if !isSignal t then (s, some "bad-token") else
    match s.pending with
    | none => (s, some "no-reader")
    | some n =>
      match stepSpec0 s t a with
      | (s1, some cls) => (s1, some cls)
      | (s1, none) => parseRd s1 n b
  | _ => (s, some "bad-token")

def oracleGo : Sp → List Tok → List String → Option String
  | _, [], [] => none
  | s, t :: ts, r :: rs =>
    match stepSpec s t r with
    | (_, some cls) => some cls
    | (s', none) => oracleGo s' ts rs
  | _, _, _ => some "token-count"

def countRel (ts : List Tok) : Nat := (ts.filter fun t => match t with | .rel => true | _ => false).length

def isRd : Tok → Bool | .r _ => true | _ => false
def isJ : Tok → Bool | .j => true | _ => false
def isBrk : Tok → Bool | .b _ => true | _ => false
def isClose : Tok → Bool | .c _ _ => true | _ => false

/-! ### lifecycles over a shared pool -/

inductive LTok
  | new (buf : Nat)
  | on (i : Nat) (t : Tok)

def parseLTok (s : String) : Option LTok :=
  match s.splitOn "." with
  | [a] =>
    match a.splitOn ":" with
    | ["n", b] => b.toNat?.map LTok.new
    | _ => none
  | [i, t] => do
    let k ← i.toNat?
    let tok ← parseTok t
    pure (.on k tok)
  | _ => none

structure LState where
  w : World := World.init
  poolIds : List Nat := []     -- buffer id of each pooled buffer (same order as `w.pool`)
  pipeBuf : List Nat := []     -- buffer id of each pipe
  used : List Nat := []

/-- `none` = crash (second Release), `some (st, "bad-op")` for an impossible `n:` -/
def runLTok (caps : List Nat) (st : LState) : LTok → Option (LState × String)
  | .new b =>
    match st.poolIds.idxOf? b with
    | some k =>
      some ({ st with w := st.w.step (.reuse k), poolIds := st.poolIds.eraseIdx k, pipeBuf := st.pipeBuf ++ [b] }, "n")
    | none =>
      if st.used.contains b then some (st, "bad-op")
      else match caps[b]? with
        | none => some (st, "bad-op")
        | some cap =>
          some ({ st with w := st.w.step (.fresh cap), pipeBuf := st.pipeBuf ++ [b], used := b :: st.used }, "n")
  | .on i t =>
    match st.w.pipes[i]? with
    | none => some (st, "bad-op")
    | some s =>
      match t with
      | .rel =>
        match s.p.b with
        | none => none
        | some _ =>
          some ({ st with w := st.w.step (.on i .release), poolIds := st.poolIds ++ [st.pipeBuf.getD i 0] }, "rel")
      | _ =>
        match runTok s t with
        | none => none
        | some (s', o) => some ({ st with w := { st.w with pipes := st.w.pipes.set i s' } }, o)

def runLToks (caps : List Nat) : LState → List LTok → List String → Option (List String)
  | _, [], acc => some acc.reverse
  | st, t :: ts, acc =>
    match runLTok caps st t with
    | none => none
    | some (st', o) => if o == "bad-op" then some ["bad-op"] else runLToks caps st' ts (o :: acc)

structure LSpec where
  pipes : List Sp := []
  pipeBuf : List Nat := []
  leftover : List (Nat × List UInt8) := []   -- per buffer id: what its last owner left unread

def lookupLeft (l : List (Nat × List UInt8)) (b : Nat) : List UInt8 :=
  match l.find? (·.1 == b) with
  | some (_, x) => x
  | none => []

def oracleL (caps : List Nat) : LSpec → List LTok → List String → Option String
  | _, [], [] => none
  | sp, .new b :: ts, r :: rs =>
    if r != "n" then some "bad-token" else
    oracleL caps { sp with pipes := sp.pipes ++ [{ cap := caps.getD b 0, ghost := lookupLeft sp.leftover b }],
                           pipeBuf := sp.pipeBuf ++ [b] } ts rs
  | sp, .on i t :: ts, r :: rs =>
    match sp.pipes[i]? with
    | none => some "bad-token"
    | some s =>
      match stepSpec s t r with
      | (_, some cls) => some cls
      | (s', none) =>
        let b := sp.pipeBuf.getD i 0
        let left := match t with
          | .rel => (b, s.ghost ++ s.buffered) :: sp.leftover.filter (·.1 != b)
          | _ => sp.leftover
        oracleL caps { sp with pipes := sp.pipes.set i s', leftover := left } ts rs
  | _, _, _ => some "token-count"

def runLifecycle (op impl : String) : Ans :=
  match op.splitOn ";" with
  | "L" :: capS :: rest =>
    match capS.splitOn "=" with
    | ["caps", cs] =>
      match (cs.splitOn ".").mapM String.toNat?, rest.mapM parseLTok with
      | some caps, some ts =>
        let model := match runLToks caps {} ts [] with
          | none => panicMsg
          | some rs => ";".intercalate rs
        if model == "bad-op" then { model := "bad-op", verdict := "skip" } else
        let nrel := (ts.filter fun t => match t with | .on _ .rel => true | _ => false).length
        let nnew := (ts.filter fun t => match t with | .new _ => true | _ => false).length
        let verdict :=
          if impl.startsWith "PANIC" then (if model == panicMsg then "skip" else "FAIL:crash")
          else match oracleL caps {} ts (impl.splitOn ";") with
            | none => "ok"
            | some cls => "FAIL:" ++ cls
        { model := model, verdict := verdict,
          tags := ["lifecycle"] ++ (if nrel ≥ 1 && nnew ≥ 2 then ["reuse", "nt"] else []) ++
                  (if (impl.splitOn "dis=").length > 1 then ["discard"] else []) }
      | _, _ => { model := "bad-op", verdict := "skip" }
    | _ => { model := "bad-op", verdict := "skip" }
  | _ => { model := "bad-op", verdict := "skip" }

/-! ### several readers: `M;cap=N;k=K;tok;…` with `r:<i>:<n>` (reader i starts Read(len n)), `w:`, `c:`, `b:`,
    `dis`, `len`.  A signalling op wakes the longest-parked reader; the harness lets it run and appends
    `><i>:<result>`. -/

inductive MTok | w (d : List UInt8) | c (e : Nat) | b (e : Nat) | dis | len | r (i n : Nat)

def parseMTok (s : String) : Option MTok :=
  match s.splitOn ":" with
  | ["w", hx] => (bytesOfHex hx).map MTok.w
  | ["c", e] => e.toNat?.map MTok.c
  | ["b", e] => e.toNat?.map MTok.b
  | ["dis"] => some .dis
  | ["len"] => some .len
  | ["r", i, n] => do
    let a ← i.toNat?
    let k ← n.toNat?
    pure (.r a k)
  | _ => none

def rdBody (r : RdRes) : String := ((renderRd "" r).drop 1).toString

def readyIdx (rds : List RPc) : Option Nat :=
  rds.findIdx? fun pc => match pc with | .ready _ => true | _ => false

def mauto (s : MSys) (base : String) : MSys × String :=
  match readyIdx s.rds with
  | none => (s, base)
  | some i =>
    match s.step (.readerStep i) with
    | (s2, .read r) => (s2, base ++ ">" ++ toString i ++ ":" ++ rdBody r)
    | (s2, _) => (s2, base ++ ">?")

def runMTok (s : MSys) : MTok → MSys × String
  | .w d =>
    match s.step (.write d) with
    | (s', .wrote n e) => mauto s' ("w=" ++ toString n ++ "," ++ renderWrErr e)
    | (s', _) => (s', "w=?")
  | .c e => mauto (s.step (.close e false)).1 "c"
  | .b e => mauto (s.step (.brk e)).1 "b"
  | .dis =>
    match s.step .discard with
    | (s', .discarded n) => (s', "dis=" ++ toString n)
    | (s', _) => (s', "dis=?")
  | .len => (s, match s.p.b with | some fb => "len=" ++ toString fb.len | none => "len=nil")
  | .r i n =>
    match s.rds[i]? with
    | some .idle =>
      let s1 := (s.step (.startRead i n)).1
      match s1.step (.readerStep i) with
      | (s2, .read r) => (s2, "r=" ++ rdBody r)
      | (s2, _) => (s2, "r=?")
    | some _ => (s, "r=busy")
    | none => (s, "r=noreader")

def runMToks : MSys → List MTok → List String → List String
  | _, [], acc => acc.reverse
  | s, t :: ts, acc => let (s', o) := runMTok s t; runMToks s' ts (o :: acc)

/-- spec for several readers: only conservation / order / error rules are judged (a reader left parked
    next to buffered data is the known consequence of `Signal`, see `C21_witness_two_readers`) -/
def oracleM : Sp → List (Nat × Nat) → List MTok → List String → Option String
  | _, _, [], [] => none
  | s, pend, t :: ts, res :: rs =>
    let parts := res.splitOn ">"
    let a := parts.headD ""
    let step1 : Sp × List (Nat × Nat) × Option String :=
      match t with
      | .w d => let (s', c) := stepSpec0 s (.w d) a; (s', pend, c)
      | .c e => let (s', c) := stepSpec0 s (.c e false) a; (s', pend, c)
      | .b e => let (s', c) := stepSpec0 s (.b e) a; (s', pend, c)
      | .dis => let (s', c) := stepSpec0 s .dis a; (s', pend, c)
      | .len => let (s', c) := stepSpec0 s .len a; (s', pend, c)
      | .r i n =>
        if a == "r=busy" then (s, pend, none)
        else
          let v := (a.drop 2).toString
          let (s', c) := parseRd s n v
          (s', if v == "blocked" then pend ++ [(i, n)] else pend, c)
    match step1 with
    | (_, _, some c) => some c
    | (s1, pend1, none) =>
      match parts with
      | [_] => oracleM s1 pend1 ts rs
      | [_, b] =>
        match b.splitOn ":" with
        | [is, v] =>
          match is.toNat? with
          | none => some "bad-token"
          | some i =>
            match pend1.find? (·.1 == i) with
            | none => some "no-reader"
            | some (_, n) =>
              let (s2, c) := parseRd s1 n v
              match c with
              | some cls => some cls
              | none =>
                let pend2 := pend1.filter (·.1 != i)
                oracleM s2 (if v == "blocked" then pend2 ++ [(i, n)] else pend2) ts rs
        | _ => some "bad-token"
      | _ => some "bad-token"
  | _, _, _, _ => some "token-count"

def runMulti (op impl : String) : Ans :=
  match op.splitOn ";" with
  | "M" :: capS :: kS :: rest =>
    match capS.splitOn "=", kS.splitOn "=", rest.mapM parseMTok with
    | ["cap", c], ["k", k], some ts =>
      match c.toNat?, k.toNat? with
      | some cap, some kk =>
        let model := ";".intercalate (runMToks (MSys.init cap kk) ts [])
        let verdict := if impl.startsWith "PANIC" then "FAIL:crash" else
          match oracleM { cap := cap } [] ts (impl.splitOn ";") with
          | none => "ok"
          | some cls => "FAIL:" ++ cls
        { model := model, verdict := verdict, tags := ["multi-reader", "nt"] }
      | _, _ => { model := "bad-op", verdict := "skip" }
    | _, _, _ => { model := "bad-op", verdict := "skip" }
  | _ => { model := "bad-op", verdict := "skip" }

/-! ### the exported FixedBuffer driven directly: `F;cap=N;w:<hex>;r:<n>;len;reset` -/

inductive FTok | w (d : List UInt8) | r (n : Nat) | len | reset

def parseFTok (s : String) : Option FTok :=
  match s.splitOn ":" with
  | ["w", hx] => (bytesOfHex hx).map FTok.w
  | ["r", n] => n.toNat?.map FTok.r
  | ["len"] => some .len
  | ["reset"] => some .reset
  | _ => none

def runFTok (b : FB) : FTok → FB × String
  | .w d =>
    let (b', n, full) := b.write d
    (b', "w=" ++ toString n ++ "," ++ (if full then "full" else "none"))
  | .r n =>
    if b.len = 0 then (b, "r=-,empty")
    else let (b', out) := b.read n; (b', "r=" ++ hexField out ++ ",none")
  | .len => (b, "len=" ++ toString b.len)
  | .reset => (b.reset, "reset")

def runFToks : FB → List FTok → List String → List String
  | _, [], acc => acc.reverse
  | b, t :: ts, acc => let (b', o) := runFTok b t; runFToks b' ts (o :: acc)

/-- spec: a bounded FIFO of bytes (knows nothing of r/w/slide) -/
def oracleF (cap : Nat) : List UInt8 → List FTok → List String → Option String
  | _, [], [] => none
  | q, .w d :: ts, r :: rs =>
    let n := min d.length (cap - q.length)
    if r == "w=" ++ toString n ++ "," ++ (if n < d.length then "full" else "none")
    then oracleF cap (q ++ d.take n) ts rs else some "fb-write"
  | q, .r n :: ts, r :: rs =>
    if q.isEmpty then (if r == "r=-,empty" then oracleF cap q ts rs else some "fb-read-empty")
    else if r == "r=" ++ hexField (q.take n) ++ ",none" then oracleF cap (q.drop n) ts rs else some "fb-read"
  | q, .len :: ts, r :: rs => if r == "len=" ++ toString q.length then oracleF cap q ts rs else some "fb-len"
  | _, .reset :: ts, r :: rs => if r == "reset" then oracleF cap [] ts rs else some "bad-token"
  | _, _, _ => some "token-count"

def runFixedBuffer (op impl : String) : Ans :=
  match op.splitOn ";" with
  | "F" :: capS :: rest =>
    match capS.splitOn "=", rest.mapM parseFTok with
    | ["cap", n], some ts =>
      match n.toNat? with
      | some cap =>
        let model := ";".intercalate (runFToks { cap := cap, r := 0, data := [] } ts [])
        let verdict := if impl.startsWith "PANIC" then "FAIL:crash" else
          match oracleF cap [] ts (impl.splitOn ";") with
          | none => "ok"
          | some c => "FAIL:" ++ c
        { model := model, verdict := verdict, tags := ["fixedbuffer"] ++ (if ts.length ≥ 3 then ["nt"] else []) }
      | none => { model := "bad-op", verdict := "skip" }
    | _, _ => { model := "bad-op", verdict := "skip" }
  | _ => { model := "bad-op", verdict := "skip" }

/-- Stress case `S;cap=<n>;data=<hex>;wc=<sizes>;rc=<sizes>;e=<code>`: a writer goroutine writes `data`
    in chunks (retrying the refused remainder until everything was taken), then closes with `e`; a
    reader goroutine reads until it gets an error.  By `C21_fifo`, `C21_close_after_data`,
    `C21_no_lost_wakeup` and `C21_progress` every fair schedule yields exactly `data` then `e`,
    so the predicted set is this single outcome. -/
def runStress (op impl : String) : Option Ans :=
  match op.splitOn ";" with
  | ["S", _, dataS, _, _, eS] =>
    match dataS.splitOn "=", eS.splitOn "=" with
    | ["data", hx], ["e", e] =>
      let want := hx ++ ";err" ++ e
      some { model := want, verdict := if impl == want then "ok" else "FAIL:stress-fifo", tags := ["stress", "nt"] }
    | _, _ => none
  | _ => none

/-! ### real path: HTTP/2 request bodies  `P;st:<data>:<n1.n2…>;…`  (one pipe per stream, pool re-use between
    streams).  All DATA and END_STREAM have reached the pipe before the handler reads, so no Read blocks. -/

def runP1 (data : List UInt8) (sizes : List Nat) : List String :=
  let s0 := ((Sys.init 65535).step (.write data)).1
  let s1 := (s0.step (.close 0 false)).1
  let rec go (s : Sys) (ns : List Nat) (acc : List String) : List String :=
    match ns with
    | [] => acc.reverse
    | n :: rest =>
      match ((s.step (.startRead n)).1).step .readerStep with
      | (s', .read (.data bs)) => go s' rest (hexField bs :: acc)
      | (_, .read (.err e _)) => (("err" ++ toString e) :: acc).reverse
      | (_, _) => ("blocked" :: acc).reverse
  go s1 sizes []

/-- spec for one stream: the reads return consecutive pieces of exactly this stream's data, each as large as
    possible, then EOF -/
def specP1 (data : List UInt8) : List Nat → List String
  | [] => []
  | n :: rest => if data.isEmpty then ["err0"] else hexField (data.take n) :: specP1 (data.drop n) rest

def runH2Path (op impl : String) : Ans :=
  match op.splitOn ";" with
  | "P" :: sts =>
    let parsed := sts.mapM fun t =>
      match t.splitOn ":" with
      | ["st", hx, ns] => do
        let dd ← bytesOfHex hx
        let sizes ← (ns.splitOn ".").mapM String.toNat?
        pure (dd, sizes)
      | _ => none
    match parsed with
    | none => { model := "bad-op", verdict := "skip" }
    | some l =>
      let model := ";".intercalate (l.map fun (dd, ns) => ",".intercalate (runP1 dd ns))
      let spec := l.map fun (dd, ns) => ",".intercalate (specP1 dd ns)
      let got := impl.splitOn ";"
      let verdict :=
        if impl.startsWith "PANIC" || impl == "HANG" then "FAIL:h2-body-hang"
        else if got.length != spec.length then "FAIL:h2-body-streams"
        else if got == spec then "ok" else "FAIL:h2-body"
      { model := model, verdict := verdict, tags := ["h2-body", "nt"] }
  | _ => { model := "bad-op", verdict := "skip" }

/-- `S2;cap;a=<hex>;b=<hex>;wc;rc;e`: two concurrent writers and one reader.  By `C21_fifo` (every byte
    once, in acceptance order) and because each writer offers its own bytes in order, every fair schedule
    gives: writer A's bytes in order, writer B's bytes in order (printed separately), then the close error. -/
def runStress2 (op impl : String) : Ans :=
  match op.splitOn ";" with
  | ["S2", _, aS, bS, _, _, eS] =>
    match aS.splitOn "=", bS.splitOn "=", eS.splitOn "=" with
    | ["a", ha], ["b", hb], ["e", e] =>
      let want := ha ++ ";" ++ hb ++ ";err" ++ e
      { model := want, verdict := if impl == want then "ok" else "FAIL:stress-fifo", tags := ["stress2", "nt"] }
    | _, _, _ => { model := "bad-op", verdict := "skip" }
  | _ => { model := "bad-op", verdict := "skip" }

def run (op impl : String) : Ans :=
  if op.startsWith "S2;" then runStress2 op impl else
  if op.startsWith "P;" then runH2Path op impl else
  if op.startsWith "S;" then
    match runStress op impl with
    | some a => a
    | none => { model := "bad-op", verdict := "skip" }
  else if op.startsWith "L;" then runLifecycle op impl
  else if op.startsWith "F;" then runFixedBuffer op impl
  else if op.startsWith "M;" then runMulti op impl
  else
  match parseOp op with
  | none => { model := "bad-op", verdict := "skip" }
  | some (cap, ts) =>
    let model := match runToks (Sys.init cap) ts [] with
      | none => panicMsg
      | some rs => ";".intercalate rs
    let verdict :=
      if impl.startsWith "PANIC" then
        (if countRel ts ≥ 2 then "skip" else "FAIL:crash")
      else
        match oracleGo { cap := cap } ts (impl.splitOn ";") with
        | none => "ok"
        | some cls => "FAIL:" ++ cls
    let blocked := (impl.splitOn "=blocked").length > 1
    let tags :=
      (if blocked then ["blocked"] else []) ++
      (if (impl.splitOn ",full").length > 1 then ["full"] else []) ++
      (if ts.any isBrk then ["brk"] else []) ++
      (if ts.any isClose then ["close"] else []) ++
      (if countRel ts ≥ 1 then ["rel"] else []) ++
      (if countRel ts ≥ 2 then ["rel2"] else []) ++
      (if (impl.splitOn "dis=").length > 1 then ["discard"] else []) ++
      (if op.startsWith "size=" then ["sized"] else []) ++
      (if ts.any isRd && ts.length ≥ 4 then ["nt"] else [])
    { model := model, verdict := verdict, tags := tags }

end BfeVerif.C21
