/-
  C21 — model of `bfe_util/pipe` (Pipe over FixedBuffer).  Core-only.

  FixedBuffer{buf, r, w}: only `buf[r:w]` is ever observable, so the model keeps `data = buf[r:w]`,
  `r`, and `cap = len(buf)`; `w = r + data.length`.

    Read(p):   if r == w {return 0, errReadEmpty}; n = copy(p, buf[r:w]); r += n; if r == w {r, w = 0, 0}
    Write(p):  if r > 0 && len(p) > len(buf)-w { slide: w -= r; r = 0 }
               n = copy(buf[w:], p); w += n; if n < len(p) { err = errWriteFull }

  Pipe{mu, c, b, err, breakErr, donec, readFn}: every exported method is one critical section of
  `p.mu`; `Read` loops  `breakErr? -> data? -> err? -> c.Wait()`.  `c.Wait()` atomically enqueues the
  caller and releases the mutex, and only a *later* `c.Signal()` makes it runnable again
  (sync.Cond: no spurious wake-ups, no memory of past signals).  The model therefore has one
  reader thread with a program counter (`idle | ready n | waiting n`) and treats every other method
  call (any number of writer/closer threads) as one atomic action.
-/
namespace BfeVerif.C21

structure FB where
  cap : Nat
  r : Nat
  data : List UInt8
deriving Repr, DecidableEq

def FB.w (b : FB) : Nat := b.r + b.data.length
def FB.len (b : FB) : Nat := b.data.length

/-- `FixedBuffer.Write`: returns (buffer, n, errWriteFull?) -/
def FB.write (b : FB) (p : List UInt8) : FB × Nat × Bool :=
  let b1 : FB := if b.r > 0 ∧ p.length > b.cap - b.w then { b with r := 0 } else b
  let n := min p.length (b1.cap - b1.w)
  ({ b1 with data := b1.data ++ p.take n }, n, decide (n < p.length))

/-- `FixedBuffer.Read` into a slice of length `n` (only called with `len > 0`). -/
def FB.read (b : FB) (n : Nat) : FB × List UInt8 :=
  let k := min n b.data.length
  let rest := b.data.drop k
  (if rest.isEmpty then { b with r := 0, data := [] } else { b with r := b.r + k, data := rest },
   b.data.take k)

/-- `FixedBuffer.Reset` -/
def FB.reset (b : FB) : FB := { b with r := 0, data := [] }

/-- the exported FixedBuffer API as operations -/
inductive FOp
  | w (d : List UInt8) | r (n : Nat) | reset
deriving Repr, DecidableEq

inductive FRes
  | wrote (n : Nat) (full : Bool) | data (bs : List UInt8) | empty | unit
deriving Repr, DecidableEq

/-- `Read` on an empty buffer is `errReadEmpty` -/
def FB.step (b : FB) : FOp → FB × FRes
  | .w d => let (b', n, full) := b.write d; (b', .wrote n full)
  | .r n => if b.len = 0 then (b, .empty) else let (b', out) := b.read n; (b', .data out)
  | .reset => (b.reset, .unit)

/-- specification: a bounded FIFO of bytes of capacity `cap` (no r / w / slide) -/
def qStep (cap : Nat) (q : List UInt8) : FOp → List UInt8 × FRes
  | .w d => let n := min d.length (cap - q.length); (q ++ d.take n, .wrote n (decide (n < d.length)))
  | .r n => if q.isEmpty then (q, .empty) else (q.drop n, .data (q.take n))
  | .reset => ([], .unit)

/-- error codes: `0` is `io.EOF` (the only value `closeWithError` treats specially); others opaque. -/
abbrev Err := Nat

structure Pipe where
  b : Option FB            -- `none` after Release
  err : Option Err
  breakErr : Option Err
  readFn : Bool            -- a `fn` of CloseWithErrorAndCode is pending
  donec : Option Bool      -- `none`: channel not created; `some closed`
deriving Repr, DecidableEq

def Pipe.new (cap : Nat) : Pipe :=
  { b := some { cap := cap, r := 0, data := [] }, err := none, breakErr := none, readFn := false, donec := none }

inductive RdRes
  | data (bs : List UInt8)
  | err (e : Err) (ranFn : Bool)
  | wait
deriving Repr, DecidableEq

def Pipe.hasData (p : Pipe) : Bool :=
  match p.b with
  | some fb => decide (fb.len > 0)
  | none => false

/-- one pass of the loop in `Pipe.Read` with the mutex held -/
def Pipe.readTry (p : Pipe) (n : Nat) : Pipe × RdRes :=
  match p.breakErr with
  | some e => (p, .err e false)
  | none =>
    match p.b with
    | some fb =>
      if fb.len > 0 then
        let (fb', out) := fb.read n
        ({ p with b := some fb' }, .data out)
      else
        match p.err with
        | some e => ({ p with readFn := false }, .err e p.readFn)
        | none => (p, .wait)
    | none =>
      match p.err with
      | some e => ({ p with readFn := false }, .err e p.readFn)
      | none => (p, .wait)

inductive WrErr | none | closed | full
deriving Repr, DecidableEq

/-- `Pipe.Write` (the deferred Signal is applied by `Sys.step`) -/
def Pipe.write (p : Pipe) (d : List UInt8) : Pipe × Nat × WrErr :=
  if p.err.isSome then (p, 0, .closed)
  else match p.b with
    | none => (p, 0, .closed)
    | some fb =>
      let (fb', n, full) := fb.write d
      ({ p with b := some fb' }, n, if full then .full else .none)

def closeDone (d : Option Bool) : Option Bool :=
  match d with
  | none => none
  | some _ => some true

/-- `closeWithError(&p.err, e, fn)` -/
def Pipe.close (p : Pipe) (e : Err) (fn : Bool) : Pipe :=
  match p.err with
  | some old => if old = 0 then { p with err := some e } else p
  | none => { p with readFn := fn, err := some e, donec := closeDone p.donec }

/-- `closeWithError(&p.breakErr, e, nil)` -/
def Pipe.brk (p : Pipe) (e : Err) : Pipe :=
  match p.breakErr with
  | some old => if old = 0 then { p with breakErr := some e } else p
  | none => { p with readFn := false, breakErr := some e, donec := closeDone p.donec }

/-- `Discard()`: drops the buffered unread bytes, returns how many there were (no Signal) -/
def Pipe.discard (p : Pipe) : Pipe × Nat :=
  match p.b with
  | none => (p, 0)
  | some fb => ({ p with b := some fb.reset }, fb.len)

def Pipe.getErr (p : Pipe) : Option Err :=
  match p.breakErr with
  | some e => some e
  | none => p.err

/-- `Done()`: lazily creates the channel, closed iff an error is already set -/
def Pipe.done (p : Pipe) : Pipe × Bool :=
  match p.donec with
  | some c => (p, c)
  | none =>
    let c := p.err.isSome || p.breakErr.isSome
    ({ p with donec := some c }, c)

/-! ### the concurrent system: one reader thread + atomic actions of all other threads -/

inductive RPc
  | idle
  | ready (n : Nat)      -- inside `Read`, runnable: about to (re)take the mutex and run the loop body
  | waiting (n : Nat)    -- parked in `c.Wait()`
deriving Repr, DecidableEq

structure Sys where
  p : Pipe
  rd : RPc
  accepted : List UInt8     -- ghost: all bytes accepted by `Write` calls, in order
  delivered : List UInt8    -- ghost: all bytes returned by `Read` calls, in order
  ledger : List (UInt8 × Bool)  -- ghost: every byte that left the buffer, in order; `true` = handed to a
                                -- Read, `false` = dropped by Discard / Release
  crashed : Bool            -- nil dereference in a second `Release`
deriving Repr, DecidableEq

def Sys.init (cap : Nat) : Sys :=
  { p := Pipe.new cap, rd := .idle, accepted := [], delivered := [], ledger := [], crashed := false }

/-- `NewPipeFromBufferPool`: a new pipe around whatever buffer the pool hands out; fresh ghost history -/
def Sys.fromBuffer (fb : FB) : Sys :=
  { p := { b := some fb, err := none, breakErr := none, readFn := false, donec := none },
    rd := .idle, accepted := [], delivered := [], ledger := [], crashed := false }

inductive Act
  | write (d : List UInt8)
  | close (e : Err) (fn : Bool)
  | brk (e : Err)
  | release
  | discard
  | startRead (n : Nat)
  | readerStep
  | getErr
  | done
deriving Repr, DecidableEq

inductive Obs
  | wrote (n : Nat) (e : WrErr)
  | unit
  | read (r : RdRes)
  | errIs (e : Option Err)
  | doneIs (closed : Bool)
  | discarded (n : Nat)
  | disabled
  | crash
deriving Repr, DecidableEq

/-- `c.Signal()`: wakes the reader if (and only if) it is parked right now -/
def signal (s : Sys) : Sys :=
  match s.rd with
  | .waiting n => { s with rd := .ready n }
  | _ => s

def Sys.step (s : Sys) (a : Act) : Sys × Obs :=
  if s.crashed then (s, .disabled) else
  match a with
  | .write d =>
    let (p', n, e) := s.p.write d
    (signal { s with p := p', accepted := s.accepted ++ d.take n }, .wrote n e)
  | .close e fn => (signal { s with p := s.p.close e fn }, .unit)
  | .brk e => (signal { s with p := s.p.brk e }, .unit)
  | .release =>
    match s.p.b with
    | none => ({ s with crashed := true }, .crash)
    | some fb =>                                                     -- no Signal in Release
      ({ s with p := { s.p with b := none }, ledger := s.ledger ++ fb.data.map (·, false) }, .unit)
  | .discard =>
    match s.p.b with
    | none => (s, .discarded 0)
    | some fb =>
      ({ s with p := { s.p with b := some fb.reset }, ledger := s.ledger ++ fb.data.map (·, false) },
        .discarded fb.len)
  | .startRead n =>
    match s.rd with
    | .idle => ({ s with rd := .ready n }, .unit)
    | _ => (s, .disabled)
  | .readerStep =>
    match s.rd with
    | .ready n =>
      match s.p.readTry n with
      | (p', .wait) => ({ s with p := p', rd := .waiting n }, .read .wait)
      | (p', .data bs) =>
        ({ s with p := p', rd := .idle, delivered := s.delivered ++ bs,
                  ledger := s.ledger ++ bs.map (·, true) }, .read (.data bs))
      | (p', .err e f) => ({ s with p := p', rd := .idle }, .read (.err e f))
    | _ => (s, .disabled)
  | .getErr => (s, .errIs s.p.getErr)
  | .done =>
    let (p', c) := s.p.done
    ({ s with p := p' }, .doneIs c)

def Sys.run (s : Sys) : List Act → Sys × List Obs
  | [] => (s, [])
  | a :: as =>
    let (s1, o) := s.step a
    let (s2, os) := s1.run as
    (s2, o :: os)

/-- final state only -/
def Sys.exec (s : Sys) (as : List Act) : Sys := as.foldl (fun s a => (s.step a).1) s

/-! ### pipe lifecycles over a shared buffer pool

  `NewPipeFromBufferPool(pool)` takes a buffer out of the pool (or a brand-new one when `pool.New` runs),
  `Release(pool)` does `p.b.Reset(); pool.Put(p.b); p.b = nil`.  `sync.Pool.Get` may return any pooled
  item, so which buffer a new pipe gets is a parameter of the action. -/

structure World where
  pool : List FB
  pipes : List Sys
deriving Repr, DecidableEq

def World.init : World := { pool := [], pipes := [] }

inductive WAct
  | fresh (cap : Nat)      -- new pipe, the pool runs `New`: a brand-new empty buffer
  | reuse (k : Nat)        -- new pipe, `Get` returns the k-th pooled buffer
  | on (i : Nat) (a : Act) -- one atomic step of pipe `i` (or of its reader)
deriving Repr, DecidableEq

def World.step (w : World) : WAct → World
  | .fresh cap => { w with pipes := w.pipes ++ [Sys.fromBuffer { cap := cap, r := 0, data := [] }] }
  | .reuse k =>
    match w.pool[k]? with
    | none => w
    | some fb => { pool := w.pool.eraseIdx k, pipes := w.pipes ++ [Sys.fromBuffer fb] }
  | .on i a =>
    match w.pipes[i]? with
    | none => w
    | some s =>
      let pool' :=
        match a, s.crashed, s.p.b with
        | .release, false, some fb => w.pool ++ [fb.reset]       -- Reset(), then Put
        | _, _, _ => w.pool
      { pool := pool', pipes := w.pipes.set i (s.step a).1 }

def World.exec (w : World) (as : List WAct) : World := as.foldl World.step w

/-! ### several reader threads on one pipe

  `sync.Cond.Signal` wakes ONE parked goroutine, the one that has been waiting longest (ticket order).
  The pipe is designed for a single reader; this model says what still holds with several, and exhibits
  what does not (a reader can stay parked although data is buffered). -/

structure MSys where
  p : Pipe
  rds : List RPc            -- program counter of each reader thread
  waitq : List Nat          -- parked readers, longest-waiting first
  accepted : List UInt8
  ledger : List (UInt8 × Bool)
  order : List (Nat × List UInt8)   -- ghost: (reader, bytes) for every Read that returned data, in order
deriving Repr, DecidableEq

def MSys.init (cap readers : Nat) : MSys :=
  { p := Pipe.new cap, rds := List.replicate readers .idle, waitq := [], accepted := [], ledger := [], order := [] }

inductive MAct
  | write (d : List UInt8)
  | close (e : Err) (fn : Bool)
  | brk (e : Err)
  | discard
  | startRead (i n : Nat)
  | readerStep (i : Nat)
deriving Repr, DecidableEq

/-- `c.Signal()` -/
def msignal (s : MSys) : MSys :=
  match s.waitq with
  | [] => s
  | i :: q =>
    match s.rds[i]? with
    | some (.waiting n) => { s with waitq := q, rds := s.rds.set i (.ready n) }
    | _ => { s with waitq := q }

def MSys.step (s : MSys) : MAct → MSys × Obs
  | .write d =>
    let (p', n, e) := s.p.write d
    (msignal { s with p := p', accepted := s.accepted ++ d.take n }, .wrote n e)
  | .close e fn => (msignal { s with p := s.p.close e fn }, .unit)
  | .brk e => (msignal { s with p := s.p.brk e }, .unit)
  | .discard =>
    match s.p.b with
    | none => (s, .discarded 0)
    | some fb =>
      ({ s with p := { s.p with b := some fb.reset }, ledger := s.ledger ++ fb.data.map (·, false) },
        .discarded fb.len)
  | .startRead i n =>
    match s.rds[i]? with
    | some .idle => ({ s with rds := s.rds.set i (.ready n) }, .unit)
    | _ => (s, .disabled)
  | .readerStep i =>
    match s.rds[i]? with
    | some (.ready n) =>
      match s.p.readTry n with
      | (p', .wait) => ({ s with p := p', rds := s.rds.set i (.waiting n), waitq := s.waitq ++ [i] }, .read .wait)
      | (p', .data bs) =>
        ({ s with p := p', rds := s.rds.set i .idle, ledger := s.ledger ++ bs.map (·, true),
                  order := s.order ++ [(i, bs)] }, .read (.data bs))
      | (p', .err e f) => ({ s with p := p', rds := s.rds.set i .idle }, .read (.err e f))
    | _ => (s, .disabled)

def MSys.exec (s : MSys) (as : List MAct) : MSys := as.foldl (fun s a => (s.step a).1) s

end BfeVerif.C21
