import BfeVerif.C21.Driver
def main : IO Unit := BfeVerif.Proto.driverMain BfeVerif.C21.run
