import BfeVerif.C21.Model
/-! C21 helper lemmas: FixedBuffer facts, the invariant and its preservation by every step. -/
namespace BfeVerif.C21

def FB.wf (b : FB) : Prop := b.r + b.data.length ≤ b.cap

theorem FB.write_data (b : FB) (p : List UInt8) :
    (b.write p).1.data = b.data ++ p.take (b.write p).2.1 := by
  unfold FB.write; split <;> simp

theorem FB.write_n_le (b : FB) (p : List UInt8) : (b.write p).2.1 ≤ p.length := by
  unfold FB.write; split <;> simp <;> omega

theorem FB.write_full (b : FB) (p : List UInt8) :
    (b.write p).2.2 = decide ((b.write p).2.1 < p.length) := by
  unfold FB.write; split <;> simp

theorem FB.write_wf (b : FB) (p : List UInt8) (h : b.wf) : (b.write p).1.wf := by
  unfold FB.wf at *
  unfold FB.write FB.w
  split <;> simp [FB.w] <;> omega

theorem FB.write_cap (b : FB) (p : List UInt8) : (b.write p).1.cap = b.cap := by
  unfold FB.write; split <;> simp

/-- the slide makes the whole free space usable -/
theorem FB.write_n (b : FB) (p : List UInt8) (h : b.wf) :
    (b.write p).2.1 = min p.length (b.cap - b.data.length) := by
  unfold FB.wf at h
  unfold FB.write FB.w
  split <;> simp [FB.w] <;> omega

theorem FB.read_split (b : FB) (n : Nat) : b.data = (b.read n).2 ++ (b.read n).1.data := by
  unfold FB.read
  simp only
  split
  · rename_i h
    simp only [List.isEmpty_iff] at h
    simp
    have := List.take_append_drop (min n b.data.length) b.data
    rw [h] at this; simpa using this.symm
  · simp

theorem FB.read_out (b : FB) (n : Nat) : (b.read n).2 = b.data.take n := by
  unfold FB.read
  simp only
  rw [List.take_eq_take_iff]
  omega

theorem FB.read_wf (b : FB) (n : Nat) (h : b.wf) : (b.read n).1.wf := by
  unfold FB.wf at *
  unfold FB.read
  simp only
  split <;> simp <;> omega

/-- one FixedBuffer operation refines one step of the bounded FIFO -/
theorem fb_step_refines (b : FB) (op : FOp) (h : b.wf) :
    (b.step op).1.wf ∧ (b.step op).1.cap = b.cap ∧
      ((b.step op).1.data, (b.step op).2) = qStep b.cap b.data op := by
  cases op with
  | w d =>
    simp only [FB.step, qStep]
    refine ⟨FB.write_wf b d h, FB.write_cap b d, ?_⟩
    rw [FB.write_data, FB.write_full, FB.write_n b d h]
  | r n =>
    simp only [FB.step, qStep, FB.len]
    by_cases he : b.data.length = 0
    · have : b.data = [] := List.eq_nil_of_length_eq_zero he
      simp [he, this, h]
    · have hne : b.data ≠ [] := by intro h0; simp [h0] at he
      simp only [he, if_false]
      refine ⟨FB.read_wf b n h, ?_, ?_⟩
      · unfold FB.read; simp only; split <;> rfl
      · have h1 := FB.read_out b n
        have h2 := FB.read_split b n
        simp only [hne, List.isEmpty_iff, if_false]
        rw [h1] at h2 ⊢
        have : (b.read n).1.data = b.data.drop n := by
          have h3 : b.data.take n ++ (b.read n).1.data = b.data.take n ++ b.data.drop n := by
            rw [List.take_append_drop]; exact h2.symm
          exact List.append_cancel_left h3
        rw [this]
  | reset => simp [FB.step, qStep, FB.reset, FB.wf]

/-! ### Pipe level -/

/-- nothing for a reader to return: exactly the condition under which `Read` parks -/
def Pipe.quiet (p : Pipe) : Prop := p.breakErr = none ∧ p.err = none ∧ p.hasData = false

theorem readTry_wait_iff (p : Pipe) (n : Nat) : (p.readTry n).2 = .wait ↔ p.quiet := by
  unfold Pipe.readTry Pipe.quiet Pipe.hasData
  cases hb : p.breakErr <;> cases hbuf : p.b <;> cases he : p.err <;> simp
  all_goals (split <;> simp_all <;> omega)

theorem write_closed (p : Pipe) (d : List UInt8) (h : p.err.isSome ∨ p.b = none) :
    p.write d = (p, 0, .closed) := by
  unfold Pipe.write
  rcases h with h | h
  · simp [h]
  · simp [h]

theorem write_open (p : Pipe) (d : List UInt8) (fb : FB) (he : p.err = none) (hb : p.b = some fb) :
    p.write d = ({ p with b := some (fb.write d).1 }, (fb.write d).2.1,
      if (fb.write d).2.2 then .full else .none) := by
  unfold Pipe.write
  simp [he, hb]

theorem close_cases (p : Pipe) (e : Err) (fn : Bool) :
    (p.err = none ∧ p.close e fn = { p with readFn := fn, err := some e, donec := closeDone p.donec }) ∨
    (p.err = some 0 ∧ p.close e fn = { p with err := some e }) ∨
    (p.err.isSome ∧ p.close e fn = p) := by
  unfold Pipe.close
  cases he : p.err with
  | none => simp
  | some old => by_cases h0 : old = 0 <;> simp [h0]

theorem brk_cases (p : Pipe) (e : Err) :
    (p.breakErr = none ∧ p.brk e = { p with readFn := false, breakErr := some e, donec := closeDone p.donec }) ∨
    (p.breakErr = some 0 ∧ p.brk e = { p with breakErr := some e }) ∨
    (p.breakErr.isSome ∧ p.brk e = p) := by
  unfold Pipe.brk
  cases he : p.breakErr with
  | none => simp
  | some old => by_cases h0 : old = 0 <;> simp [h0]

/-- `readTry` case analysis -/
theorem readTry_cases (p : Pipe) (n : Nat) :
    (∃ e, p.breakErr = some e ∧ p.readTry n = (p, .err e false)) ∨
    (∃ fb, p.breakErr = none ∧ p.b = some fb ∧ fb.len > 0 ∧
        p.readTry n = ({ p with b := some (fb.read n).1 }, .data (fb.read n).2)) ∨
    (∃ e, p.breakErr = none ∧ p.hasData = false ∧ p.err = some e ∧
        p.readTry n = ({ p with readFn := false }, .err e p.readFn)) ∨
    (p.quiet ∧ p.readTry n = (p, .wait)) := by
  unfold Pipe.readTry Pipe.quiet Pipe.hasData
  cases hb : p.breakErr with
  | some e => simp
  | none =>
    cases hbuf : p.b with
    | none => cases he : p.err <;> simp
    | some fb =>
      by_cases hl : fb.len > 0
      · simp [hl]
      · cases he : p.err <;> simp [hl]

def bufData : Option FB → List UInt8
  | some fb => fb.data
  | none => []

/-- all bytes that left the buffer, in order -/
def gone (l : List (UInt8 × Bool)) : List UInt8 := l.map Prod.fst
/-- those of them that were handed to a Read -/
def kept (l : List (UInt8 × Bool)) : List UInt8 := (l.filter (·.2)).map Prod.fst

theorem gone_append_true (l : List (UInt8 × Bool)) (bs : List UInt8) :
    gone (l ++ bs.map (·, true)) = gone l ++ bs := by
  simp [gone, List.map_map, Function.comp_def]
theorem gone_append_false (l : List (UInt8 × Bool)) (bs : List UInt8) :
    gone (l ++ bs.map (·, false)) = gone l ++ bs := by
  simp [gone, List.map_map, Function.comp_def]
theorem kept_append_true (l : List (UInt8 × Bool)) (bs : List UInt8) :
    kept (l ++ bs.map (·, true)) = kept l ++ bs := by
  simp [kept, List.filter_map, List.map_map, Function.comp_def]
theorem kept_append_false (l : List (UInt8 × Bool)) (bs : List UInt8) :
    kept (l ++ bs.map (·, false)) = kept l := by
  simp [kept, List.filter_map, Function.comp_def]
theorem kept_sublist_gone (l : List (UInt8 × Bool)) : (kept l).Sublist (gone l) := by
  unfold kept gone
  exact (List.filter_sublist).map _
theorem kept_eq_gone (l : List (UInt8 × Bool)) (h : ∀ x ∈ l, x.2 = true) : kept l = gone l := by
  unfold kept gone
  rw [List.filter_eq_self.mpr h]

/-- the invariant carried through all interleavings -/
structure Inv (s : Sys) : Prop where
  fifo : s.accepted = gone s.ledger ++ bufData s.p.b
  del : s.delivered = kept s.ledger
  wf : ∀ fb, s.p.b = some fb → fb.wf
  wake : ∀ n, s.rd = .waiting n → s.p.quiet
  done : ∀ c, s.p.donec = some c → c = (s.p.err.isSome || s.p.breakErr.isSome)

theorem inv_init (cap : Nat) : Inv (Sys.init cap) := by
  refine ⟨?_, ?_, ?_, ?_, ?_⟩ <;> simp [Sys.init, Pipe.new, FB.wf, gone, kept, bufData]

theorem inv_fromBuffer (fb : FB) (hd : fb.data = []) (hr : fb.r = 0) : Inv (Sys.fromBuffer fb) := by
  refine ⟨?_, ?_, ?_, ?_, ?_⟩ <;> simp [Sys.fromBuffer, FB.wf, gone, kept, bufData, hd, hr]

theorem signal_p (s : Sys) : (signal s).p = s.p := by
  unfold signal; split <;> rfl
theorem signal_acc (s : Sys) : (signal s).accepted = s.accepted := by
  unfold signal; split <;> rfl
theorem signal_del (s : Sys) : (signal s).delivered = s.delivered := by
  unfold signal; split <;> rfl
theorem signal_ledger (s : Sys) : (signal s).ledger = s.ledger := by
  unfold signal; split <;> rfl
theorem signal_not_waiting (s : Sys) (n : Nat) : (signal s).rd ≠ .waiting n := by
  unfold signal; split <;> simp_all

theorem inv_signal {s : Sys} (h1 : s.accepted = gone s.ledger ++ bufData s.p.b)
    (h1' : s.delivered = kept s.ledger)
    (h2 : ∀ fb, s.p.b = some fb → fb.wf)
    (h4 : ∀ c, s.p.donec = some c → c = (s.p.err.isSome || s.p.breakErr.isSome)) : Inv (signal s) := by
  refine ⟨?_, ?_, ?_, ?_, ?_⟩
  · rw [signal_p, signal_acc, signal_ledger]; exact h1
  · rw [signal_del, signal_ledger]; exact h1'
  · rw [signal_p]; exact h2
  · intro n hn; exact absurd hn (signal_not_waiting s n)
  · rw [signal_p]; exact h4

theorem closeDone_eq (d : Option Bool) (c : Bool) (h : closeDone d = some c) : c = true := by
  unfold closeDone at h; split at h <;> simp_all

theorem inv_step (s : Sys) (a : Act) (h : Inv s) : Inv (s.step a).1 := by
  obtain ⟨h1, h1', h2, h3, h4⟩ := h
  unfold Sys.step
  split
  · exact ⟨h1, h1', h2, h3, h4⟩
  cases a with
  | write d =>
    simp only
    by_cases hc : s.p.err.isSome ∨ s.p.b = none
    · rw [write_closed _ _ hc]
      exact inv_signal (by simpa using h1) h1' h2 h4
    · have he : s.p.err = none := by
        cases h : s.p.err <;> simp_all
      obtain ⟨fb, hb⟩ : ∃ fb, s.p.b = some fb := by
        cases h : s.p.b <;> simp_all
      rw [write_open _ _ fb he hb]
      apply inv_signal
      · simp only [hb, bufData] at h1 ⊢
        simp only [FB.write_data, h1, List.append_assoc]
      · exact h1'
      · intro fb'; simp only [Option.some.injEq]
        intro h; subst h; exact FB.write_wf _ _ (h2 fb hb)
      · exact h4
  | close e fn =>
    simp only
    rcases close_cases s.p e fn with ⟨he, hr⟩ | ⟨he, hr⟩ | ⟨he, hr⟩ <;> rw [hr]
    · exact inv_signal h1 h1' h2 (by intro c hc; simp at hc ⊢; exact closeDone_eq _ _ hc)
    · exact inv_signal h1 h1' h2 (by intro c hc; have := h4 c hc; simp [he] at this ⊢; exact this)
    · exact inv_signal h1 h1' h2 h4
  | brk e =>
    simp only
    rcases brk_cases s.p e with ⟨he, hr⟩ | ⟨he, hr⟩ | ⟨he, hr⟩ <;> rw [hr]
    · exact inv_signal h1 h1' h2 (by intro c hc; simp at hc ⊢; exact closeDone_eq _ _ hc)
    · exact inv_signal h1 h1' h2 (by intro c hc; have := h4 c hc; simp [he] at this ⊢; exact this)
    · exact inv_signal h1 h1' h2 h4
  | release =>
    simp only
    cases hb : s.p.b with
    | none => exact ⟨h1, h1', h2, h3, h4⟩
    | some fb =>
      refine ⟨?_, ?_, by simp, ?_, h4⟩
      · simp only [hb, bufData] at h1 ⊢
        rw [gone_append_false, h1]; simp
      · simp only; rw [kept_append_false]; exact h1'
      · intro n hn
        have := h3 n hn
        unfold Pipe.quiet Pipe.hasData at *
        simp_all
  | discard =>
    simp only
    cases hb : s.p.b with
    | none => exact ⟨h1, h1', h2, h3, h4⟩
    | some fb =>
      refine ⟨?_, ?_, ?_, ?_, h4⟩
      · simp only [hb, bufData] at h1 ⊢
        rw [gone_append_false, h1]; simp [FB.reset]
      · simp only; rw [kept_append_false]; exact h1'
      · intro fb' hfb'; simp at hfb'; subst hfb'
        have := h2 fb hb
        unfold FB.wf FB.reset at *; simp
      · intro n hn
        have := h3 n hn
        unfold Pipe.quiet Pipe.hasData at *
        simp_all [FB.reset, FB.len]
  | startRead n =>
    simp only
    split
    · refine ⟨h1, h1', h2, ?_, h4⟩; intro m hm; simp at hm
    · exact ⟨h1, h1', h2, h3, h4⟩
  | readerStep =>
    simp only
    split
    · rename_i n hrd
      rcases readTry_cases s.p n with ⟨e, hb, hr⟩ | ⟨fb, hb, hbuf, hl, hr⟩ | ⟨e, hb, hd, he, hr⟩ | ⟨hq, hr⟩ <;>
        rw [hr] <;> simp only
      · refine ⟨h1, h1', h2, ?_, h4⟩; intro m hm; simp at hm
      · refine ⟨?_, ?_, ?_, ?_, h4⟩
        · simp only [hbuf, bufData] at h1 ⊢
          rw [gone_append_true, h1, List.append_assoc, ← FB.read_split]
        · rw [kept_append_true, h1']
        · intro fb' hfb'; simp at hfb'; subst hfb'; exact FB.read_wf _ _ (h2 fb hbuf)
        · intro m hm; simp at hm
      · refine ⟨h1, h1', h2, ?_, h4⟩; intro m hm; simp at hm
      · refine ⟨h1, h1', h2, ?_, h4⟩; intro m _; exact hq
    · exact ⟨h1, h1', h2, h3, h4⟩
  | getErr => exact ⟨h1, h1', h2, h3, h4⟩
  | done =>
    simp only [Pipe.done]
    split
    · exact ⟨h1, h1', h2, h3, h4⟩
    · refine ⟨h1, h1', h2, ?_, ?_⟩
      · intro n hn; have := h3 n hn; unfold Pipe.quiet Pipe.hasData at *; simpa using this
      · intro c hc; simp at hc ⊢; exact hc.symm

theorem inv_exec (s : Sys) (as : List Act) (h : Inv s) : Inv (s.exec as) := by
  unfold Sys.exec
  induction as generalizing s with
  | nil => exact h
  | cons a as ih => exact ih _ (inv_step s a h)

/-- bytes a `Write d` that answered `n` reported as taken -/
def accOf (a : Act) (o : Obs) : List UInt8 :=
  match a, o with
  | .write d, .wrote n _ => d.take n
  | _, _ => []

/-- bytes a `Read` returned -/
def delOf (o : Obs) : List UInt8 :=
  match o with
  | .read (.data bs) => bs
  | _ => []

def obsAccepted : List Act → List Obs → List UInt8
  | a :: as, o :: os => accOf a o ++ obsAccepted as os
  | _, _ => []

def obsDelivered : List Obs → List UInt8
  | o :: os => delOf o ++ obsDelivered os
  | [] => []

theorem step_ghost (s : Sys) (a : Act) :
    (s.step a).1.accepted = s.accepted ++ accOf a (s.step a).2 ∧
    (s.step a).1.delivered = s.delivered ++ delOf (s.step a).2 := by
  unfold Sys.step
  split
  · simp [accOf, delOf]
  cases a with
  | write d => simp [accOf, delOf, signal_acc, signal_del]
  | close e fn => simp [accOf, delOf, signal_acc, signal_del]
  | brk e => simp [accOf, delOf, signal_acc, signal_del]
  | release => simp only; split <;> simp [accOf, delOf]
  | discard => simp only; split <;> simp [accOf, delOf]
  | startRead n => simp only; split <;> simp [accOf, delOf]
  | readerStep =>
    simp only
    split
    · rename_i n _
      rcases readTry_cases s.p n with ⟨e, hb, hr⟩ | ⟨fb, hb, hbuf, hl, hr⟩ | ⟨e, hb, hd, he, hr⟩ | ⟨hq, hr⟩ <;>
        rw [hr] <;> simp [accOf, delOf]
    · simp [accOf, delOf]
  | getErr => simp [accOf, delOf]
  | done => simp [accOf, delOf]

theorem run_ghost (s : Sys) (acts : List Act) :
    (s.run acts).1.accepted = s.accepted ++ obsAccepted acts (s.run acts).2 ∧
    (s.run acts).1.delivered = s.delivered ++ obsDelivered (s.run acts).2 := by
  induction acts generalizing s with
  | nil => simp [Sys.run, obsAccepted, obsDelivered]
  | cons a as ih =>
    have h1 := step_ghost s a
    have h2 := ih (s.step a).1
    simp only [Sys.run, obsAccepted, obsDelivered]
    rw [h2.1, h2.2, h1.1, h1.2]
    simp [List.append_assoc]

theorem run_fst (s : Sys) (acts : List Act) : (s.run acts).1 = s.exec acts := by
  unfold Sys.exec
  induction acts generalizing s with
  | nil => rfl
  | cons a as ih => simp only [Sys.run, List.foldl]; exact ih _


/-! ### lifecycles over the pool -/

structure WInv (w : World) : Prop where
  poolEmpty : ∀ fb ∈ w.pool, fb.data = [] ∧ fb.r = 0
  pipes : ∀ s ∈ w.pipes, Inv s

theorem winv_init : WInv World.init := ⟨by simp [World.init], by simp [World.init]⟩

theorem winv_step (w : World) (a : WAct) (h : WInv w) : WInv (w.step a) := by
  obtain ⟨hp, hs⟩ := h
  cases a with
  | fresh cap =>
    refine ⟨hp, ?_⟩
    intro s hm
    simp only [World.step, List.mem_append, List.mem_singleton] at hm
    rcases hm with hm | rfl
    · exact hs s hm
    · exact inv_fromBuffer _ rfl rfl
  | reuse k =>
    simp only [World.step]
    cases hk : w.pool[k]? with
    | none => exact ⟨hp, hs⟩
    | some fb =>
      have hmem : fb ∈ w.pool := List.mem_of_getElem? hk
      refine ⟨?_, ?_⟩
      · intro fb' hm; exact hp fb' (List.mem_of_mem_eraseIdx hm)
      · intro s hm
        simp only [List.mem_append, List.mem_singleton] at hm
        rcases hm with hm | rfl
        · exact hs s hm
        · exact inv_fromBuffer _ (hp fb hmem).1 (hp fb hmem).2
  | on i act =>
    simp only [World.step]
    cases hi : w.pipes[i]? with
    | none => exact ⟨hp, hs⟩
    | some s =>
      have hmem : s ∈ w.pipes := List.mem_of_getElem? hi
      refine ⟨?_, ?_⟩
      · intro fb hm
        simp only at hm
        split at hm
        · simp only [List.mem_append, List.mem_singleton] at hm
          rcases hm with hm | rfl
          · exact hp fb hm
          · simp [FB.reset]
        · exact hp fb hm
      · intro s' hm
        rcases List.mem_or_eq_of_mem_set hm with hm | rfl
        · exact hs s' hm
        · exact inv_step s act (hs s hmem)

theorem winv_exec (w : World) (as : List WAct) (h : WInv w) : WInv (w.exec as) := by
  unfold World.exec
  induction as generalizing w with
  | nil => exact h
  | cons a as ih => exact ih _ (winv_step w a h)

/-! ### several readers -/

structure MInv (s : MSys) : Prop where
  fifo : s.accepted = gone s.ledger ++ bufData s.p.b
  order : (s.order.map Prod.snd).flatten = kept s.ledger
  wf : ∀ fb, s.p.b = some fb → fb.wf

theorem msignal_p (s : MSys) : (msignal s).p = s.p := by
  unfold msignal; split <;> (try split) <;> rfl
theorem msignal_acc (s : MSys) : (msignal s).accepted = s.accepted := by
  unfold msignal; split <;> (try split) <;> rfl
theorem msignal_ledger (s : MSys) : (msignal s).ledger = s.ledger := by
  unfold msignal; split <;> (try split) <;> rfl
theorem msignal_order (s : MSys) : (msignal s).order = s.order := by
  unfold msignal; split <;> (try split) <;> rfl

theorem minv_signal {s : MSys} (h : MInv s) : MInv (msignal s) :=
  ⟨by rw [msignal_acc, msignal_ledger, msignal_p]; exact h.fifo,
   by rw [msignal_order, msignal_ledger]; exact h.order,
   by rw [msignal_p]; exact h.wf⟩

theorem close_b (p : Pipe) (e : Err) (fn : Bool) : (p.close e fn).b = p.b := by
  rcases close_cases p e fn with ⟨_, hr⟩ | ⟨_, hr⟩ | ⟨_, hr⟩ <;> rw [hr]
theorem brk_b (p : Pipe) (e : Err) : (p.brk e).b = p.b := by
  rcases brk_cases p e with ⟨_, hr⟩ | ⟨_, hr⟩ | ⟨_, hr⟩ <;> rw [hr]

theorem minv_init (cap k : Nat) : MInv (MSys.init cap k) := by
  refine ⟨?_, ?_, ?_⟩ <;> simp [MSys.init, Pipe.new, gone, kept, bufData, FB.wf]

theorem minv_step (s : MSys) (a : MAct) (h : MInv s) : MInv (s.step a).1 := by
  obtain ⟨h1, h2, h3⟩ := h
  cases a with
  | write d =>
    simp only [MSys.step]
    apply minv_signal
    by_cases hc : s.p.err.isSome ∨ s.p.b = none
    · rw [write_closed _ _ hc]; exact ⟨by simpa using h1, h2, h3⟩
    · have he : s.p.err = none := by cases h : s.p.err <;> simp_all
      obtain ⟨fb, hb⟩ : ∃ fb, s.p.b = some fb := by cases h : s.p.b <;> simp_all
      rw [write_open _ _ fb he hb]
      refine ⟨?_, h2, ?_⟩
      · simp only [hb, bufData] at h1 ⊢
        simp only [FB.write_data, h1, List.append_assoc]
      · intro fb'; simp only [Option.some.injEq]
        intro h; subst h; exact FB.write_wf _ _ (h3 fb hb)
  | close e fn =>
    simp only [MSys.step]
    apply minv_signal
    exact ⟨by simp only [close_b]; exact h1, h2, by simp only [close_b]; exact h3⟩
  | brk e =>
    simp only [MSys.step]
    apply minv_signal
    exact ⟨by simp only [brk_b]; exact h1, h2, by simp only [brk_b]; exact h3⟩
  | discard =>
    simp only [MSys.step]
    cases hb : s.p.b with
    | none => exact ⟨h1, h2, h3⟩
    | some fb =>
      refine ⟨?_, ?_, ?_⟩
      · simp only [hb, bufData] at h1 ⊢
        rw [gone_append_false, h1]; simp [FB.reset]
      · simp only; rw [kept_append_false]; exact h2
      · intro fb' hfb'; simp at hfb'; subst hfb'
        have := h3 fb hb
        unfold FB.wf FB.reset at *; simp
  | startRead i n =>
    simp only [MSys.step]
    split <;> exact ⟨h1, h2, h3⟩
  | readerStep i =>
    simp only [MSys.step]
    split
    · rename_i n _
      rcases readTry_cases s.p n with ⟨e, hb, hr⟩ | ⟨fb, hb, hbuf, hl, hr⟩ | ⟨e, hb, hd, he, hr⟩ | ⟨hq, hr⟩ <;>
        rw [hr] <;> simp only
      · exact ⟨h1, h2, h3⟩
      · refine ⟨?_, ?_, ?_⟩
        · simp only [hbuf, bufData] at h1 ⊢
          rw [gone_append_true, h1, List.append_assoc, ← FB.read_split]
        · rw [kept_append_true, ← h2]; simp
        · intro fb' hfb'; simp at hfb'; subst hfb'; exact FB.read_wf _ _ (h3 fb hbuf)
      · exact ⟨h1, h2, h3⟩
      · exact ⟨h1, h2, h3⟩
    · exact ⟨h1, h2, h3⟩

theorem minv_exec (s : MSys) (as : List MAct) (h : MInv s) : MInv (s.exec as) := by
  unfold MSys.exec
  induction as generalizing s with
  | nil => exact h
  | cons a as ih => exact ih _ (minv_step s a h)

/-- Reachable pipe states: a single pipe under any schedule, or any pipe of any lifecycle over the pool -/
def Reachable (s : Sys) : Prop :=
  (∃ cap acts, s = (Sys.init cap).exec acts) ∨ (∃ was, s ∈ (World.init.exec was).pipes)

theorem reachable_inv {s : Sys} (h : Reachable s) : Inv s := by
  rcases h with ⟨cap, acts, rfl⟩ | ⟨was, hm⟩
  · exact inv_exec _ _ (inv_init cap)
  · exact (winv_exec _ was winv_init).pipes s hm

end BfeVerif.C21
