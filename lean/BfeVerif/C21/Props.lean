import BfeVerif.C21.Proofs
/-!
  C21 — body pipes deliver data in order exactly once.  Property theorems only.

  `(Sys.init cap).exec acts` is the state after an arbitrary sequence `acts` of atomic steps: any
  interleaving of one reader thread (`startRead`, `readerStep`) with the critical sections of any
  number of writer/closer threads (`write`, `close`, `brk`, `release`, `discard`, `getErr`, `done`).  Disabled
  steps are no-ops, so quantifying over all `acts` quantifies over all schedules.
  Ghost fields: `accepted` = bytes taken by `Write` calls (`d.take n` for a Write that returned `n`),
  `delivered` = bytes handed out by `Read` calls, `ledger` = every byte that left the buffer, tagged
  delivered / dropped.  `World.init.exec was` is an arbitrary LIFECYCLE: pipes created one after the other
  from a shared buffer pool (`fresh` / `reuse k`), each running its own arbitrary schedule (`on i a`).
-/
namespace BfeVerif.C21

/-- **FIFO / exactly once**: in every schedule, the bytes accepted by writes are, in order, exactly the
    bytes that have left the buffer followed by the buffer content; every byte that left was either
    handed to a Read (`true` in the ledger) or dropped by an explicit Discard / Release (`false`);
    what reads returned is exactly the `true` part, in order — no byte is duplicated or reordered, and
    none is lost except by an explicit drop. -/
theorem C21_fifo (cap : Nat) (acts : List Act) :
    let s := (Sys.init cap).exec acts
    s.accepted = gone s.ledger ++ bufData s.p.b ∧ s.delivered = kept s.ledger := by
  intro s
  have h := inv_exec _ acts (inv_init cap)
  exact ⟨h.fifo, h.del⟩

/-- without drops this is the familiar prefix form: accepted = delivered ++ buffer -/
theorem C21_fifo_prefix (s : Sys) (hs : Reachable s) (hnd : ∀ x ∈ s.ledger, x.2 = true) :
    s.accepted = s.delivered ++ bufData s.p.b ∧ s.delivered <+: s.accepted := by
  have h := reachable_inv hs
  have h1 : s.accepted = s.delivered ++ bufData s.p.b := by
    rw [h.del, kept_eq_gone _ hnd]; exact h.fifo
  exact ⟨h1, by rw [h1]; exact List.prefix_append _ _⟩

/-- every delivered byte is an accepted byte of THIS pipe, in order, at most once -/
theorem C21_delivered_sublist (s : Sys) (hs : Reachable s) : s.delivered.Sublist s.accepted := by
  have h := reachable_inv hs
  rw [h.del, h.fifo]
  exact (kept_sublist_gone _).trans (List.sublist_append_left _ _)

/-! The same statement on what an outside observer sees (this is what the trace-checking oracle of
    the driver recomputes from the implementation's own results). -/

/-- **FIFO on the observable trace**: in every schedule the concatenation of all bytes returned by
    reads is an in-order sub-sequence of the concatenation of all bytes writes reported as taken. -/
theorem C21_fifo_trace (cap : Nat) (acts : List Act) :
    (obsDelivered ((Sys.init cap).run acts).2).Sublist (obsAccepted acts ((Sys.init cap).run acts).2) := by
  have hg := run_ghost (Sys.init cap) acts
  have hf := C21_delivered_sublist ((Sys.init cap).exec acts) (Or.inl ⟨cap, acts, rfl⟩)
  rw [← run_fst] at hf
  rw [hg.1, hg.2] at hf
  simpa [Sys.init] using hf

/-- once the (unreleased) buffer is empty everything accepted has left it; if nothing was dropped,
    everything accepted has been delivered -/
theorem C21_drained_all_delivered (s : Sys) (hs : Reachable s) (fb : FB)
    (hb : s.p.b = some fb) (he : fb.data = []) :
    s.accepted = gone s.ledger ∧ ((∀ x ∈ s.ledger, x.2 = true) → s.delivered = s.accepted) := by
  have h := reachable_inv hs
  have h1 : s.accepted = gone s.ledger := by
    have := h.fifo; simpa [hb, bufData, he] using this
  exact ⟨h1, fun hnd => by rw [h.del, kept_eq_gone _ hnd, h1]⟩

/-- a `Read(len n)` that returns data returns exactly the next `min n buffered` bytes still buffered -/
theorem C21_read_returns_next (s : Sys) (hs : Reachable s) (n : Nat) (bs : List UInt8) (s' : Sys)
    (hrd : s.rd = .ready n) (hc : s.crashed = false)
    (hstep : s.step .readerStep = (s', .read (.data bs))) :
    bs = (s.accepted.drop s.ledger.length).take n ∧ s'.delivered = s.delivered ++ bs ∧
      (n > 0 → bs ≠ []) := by
  have hinv := reachable_inv hs
  unfold Sys.step at hstep
  simp only [hc, hrd] at hstep
  rcases readTry_cases s.p n with ⟨e, hb, hr⟩ | ⟨fb, hb, hbuf, hl, hr⟩ | ⟨e, hb, hd, he, hr⟩ | ⟨hq, hr⟩ <;>
    rw [hr] at hstep <;> simp at hstep
  obtain ⟨hs', hbs⟩ := hstep
  have hf := hinv.fifo
  simp only [hbuf, bufData] at hf
  subst hbs
  refine ⟨?_, by rw [← hs'], ?_⟩
  · rw [hf, FB.read_out]
    have : (gone s.ledger).length = s.ledger.length := by simp [gone]
    rw [← this]; simp
  · intro hn
    rw [FB.read_out]
    unfold FB.len at hl
    intro h0
    have : min n fb.data.length = 0 := by rw [← List.length_take, h0]; rfl
    omega

/-- **close after data**: a read reports the close error only when nothing accepted is still buffered:
    every accepted byte was delivered or explicitly dropped (Discard / Release). -/
theorem C21_close_after_data (s : Sys) (hs : Reachable s) (n : Nat) (e : Err) (f : Bool)
    (hbrk : s.p.breakErr = none) (hres : (s.p.readTry n).2 = .err e f) :
    s.p.err = some e ∧ s.accepted = gone s.ledger := by
  have hinv := reachable_inv hs
  rcases readTry_cases s.p n with ⟨e', hb, hr⟩ | ⟨fb, hb, hbuf, hl, hr⟩ | ⟨e', hb, hd, he, hr⟩ | ⟨hq, hr⟩ <;>
    rw [hr] at hres <;> simp at hres
  · rw [hbrk] at hb; cases hb
  · refine ⟨by rw [he, hres.1], ?_⟩
    have hf := hinv.fifo
    unfold Pipe.hasData at hd
    cases hfb : s.p.b with
    | none => simpa [hfb, bufData] using hf
    | some fb =>
      simp [hfb, FB.len] at hd
      simpa [hfb, bufData, hd] using hf

/-- **Discard** drops exactly the buffered bytes, reports their number, delivers nothing, and the next
    read blocks or reports the pipe's error (never old data) -/
theorem C21_discard (s : Sys) (hc : s.crashed = false) :
    (s.step .discard).2 = .discarded (bufData s.p.b).length ∧
    (s.step .discard).1.delivered = s.delivered ∧ (s.step .discard).1.accepted = s.accepted ∧
    bufData (s.step .discard).1.p.b = [] ∧ (s.step .discard).1.p.hasData = false := by
  unfold Sys.step
  simp only [hc]
  cases hb : s.p.b with
  | none => simp [hb, bufData, Pipe.hasData]
  | some fb => simp [hb, bufData, Pipe.hasData, FB.reset, FB.len]

/-- the code installed by CloseWithErrorAndCode runs only together with a close-error return (never
    with data, never with a break error) and is forgotten afterwards: it runs at most once -/
theorem C21_readfn_once (p : Pipe) (n : Nat) (e : Err) (h : (p.readTry n).2 = .err e true) :
    p.breakErr = none ∧ p.err = some e ∧ p.readFn = true ∧ (p.readTry n).1.readFn = false := by
  rcases readTry_cases p n with ⟨e', hb, hr⟩ | ⟨fb, hb, hbuf, hl, hr⟩ | ⟨e', hb, hd, he, hr⟩ | ⟨hq, hr⟩ <;>
    rw [hr] at h ⊢ <;> simp at h
  exact ⟨hb, by rw [he, h.1], h.2, rfl⟩

/-- **FixedBuffer is a bounded FIFO**: every exported operation (Write with its slide, Read, Reset) on a
    well-formed buffer is exactly one step of the specification queue of capacity `cap` — same content,
    same returned count / `full` flag / data / `errReadEmpty`; in particular the whole free space is
    usable whatever `r` and `w` are. -/
theorem C21_fixedbuffer_refines (b : FB) (op : FOp) (h : b.wf) :
    (b.step op).1.wf ∧ (b.step op).1.cap = b.cap ∧
      ((b.step op).1.data, (b.step op).2) = qStep b.cap b.data op :=
  fb_step_refines b op h

/-! ### several readers on one pipe (outside the design, which has one reader per body) -/

/-- **conservation with any number of readers**: in every schedule every accepted byte is still in the
    buffer, was dropped explicitly, or was returned by exactly one Read of exactly one reader, and the
    concatenation of all returned pieces in completion order is the delivered part of the stream. -/
theorem C21_multi_reader_fifo (cap k : Nat) (acts : List MAct) :
    let s := (MSys.init cap k).exec acts
    s.accepted = gone s.ledger ++ bufData s.p.b ∧ (s.order.map Prod.snd).flatten = kept s.ledger :=
  have h := minv_exec _ acts (minv_init cap k)
  ⟨h.fifo, h.order⟩

/-- what does NOT hold with two readers: `Signal` wakes one waiter, so after a two-byte write one reader
    takes a byte and returns while the other stays parked although a byte is buffered
    (`C21_no_lost_wakeup` needs the single-reader assumption) -/
theorem C21_witness_two_readers :
    let s := (MSys.init 4 2).exec [.startRead 0 1, .readerStep 0, .startRead 1 1, .readerStep 1,
      .write [1, 2], .readerStep 0]
    s.rds = [.idle, .waiting 1] ∧ s.waitq = [1] ∧ bufData s.p.b = [2] ∧ s.order = [(0, [1])] := by decide

/-! ### lifecycles: successive pipes over a shared buffer pool -/

/-- **a released buffer re-enters the pool empty**, in every lifecycle -/
theorem C21_pool_buffers_empty (was : List WAct) :
    ∀ fb ∈ (World.init.exec was).pool, fb.data = [] ∧ fb.r = 0 :=
  (winv_exec _ was winv_init).poolEmpty

/-- **a fresh pipe starts empty**: whatever buffer the pool hands out, the new pipe has nothing buffered
    and an empty history -/
theorem C21_fresh_pipe_empty (was : List WAct) (a : WAct) (hnew : (∃ cap, a = .fresh cap) ∨ (∃ k, a = .reuse k))
    (hlen : ((World.init.exec was).step a).pipes.length = (World.init.exec was).pipes.length + 1) :
    ∃ s, ((World.init.exec was).step a).pipes = (World.init.exec was).pipes ++ [s] ∧
      bufData s.p.b = [] ∧ s.accepted = [] ∧ s.delivered = [] ∧ s.p.err = none ∧ s.p.breakErr = none := by
  have hw := winv_exec _ was winv_init
  generalize World.init.exec was = w at hw hlen ⊢
  rcases hnew with ⟨cap, rfl⟩ | ⟨k, rfl⟩
  · exact ⟨_, rfl, by simp [Sys.fromBuffer, bufData]⟩
  · simp only [World.step] at hlen ⊢
    cases hk : w.pool[k]? with
    | none => simp [hk] at hlen
    | some fb =>
      have hmem : fb ∈ w.pool := List.mem_of_getElem? hk
      exact ⟨_, rfl, by simp [Sys.fromBuffer, bufData, (hw.poolEmpty fb hmem).1]⟩

/-- **each pipe delivers exactly the bytes written to THAT pipe**: in every lifecycle over the shared
    pool and for every pipe ever created, the FIFO ledger equation holds between that pipe's own
    accepted and delivered bytes — no byte of an earlier owner of the buffer can appear. -/
theorem C21_lifecycle_fifo (was : List WAct) (s : Sys) (hs : s ∈ (World.init.exec was).pipes) :
    s.accepted = gone s.ledger ++ bufData s.p.b ∧ s.delivered = kept s.ledger ∧
      s.delivered.Sublist s.accepted :=
  have h := (winv_exec _ was winv_init).pipes s hs
  ⟨h.fifo, h.del, C21_delivered_sublist s (Or.inr ⟨was, hs⟩)⟩

/-- **break is immediate**: with a break error set, every read returns it at once, whatever is buffered -/
theorem C21_break_immediate (p : Pipe) (e : Err) (n : Nat) (h : p.breakErr = some e) :
    p.readTry n = (p, .err e false) := by
  unfold Pipe.readTry; simp [h]

/-- a break error, once set, stays set in every later state -/
theorem C21_break_sticky (s : Sys) (a : Act) (h : s.p.breakErr.isSome) : (s.step a).1.p.breakErr.isSome := by
  unfold Sys.step
  split
  · exact h
  cases a with
  | write d =>
    simp only [signal_p]
    unfold Pipe.write; split
    · exact h
    · split <;> exact h
  | close e fn =>
    simp only [signal_p]
    rcases close_cases s.p e fn with ⟨_, hr⟩ | ⟨_, hr⟩ | ⟨_, hr⟩ <;> rw [hr] <;> exact h
  | brk e =>
    simp only [signal_p]
    rcases brk_cases s.p e with ⟨he, hr⟩ | ⟨_, hr⟩ | ⟨_, hr⟩ <;> rw [hr]
    · simp
    · simp
    · exact h
  | release => simp only; split <;> exact h
  | discard => simp only; split <;> exact h
  | startRead n => simp only; split <;> exact h
  | readerStep =>
    simp only
    split
    · rename_i n _
      obtain ⟨e, he⟩ := Option.isSome_iff_exists.mp h
      rw [C21_break_immediate _ e n he]; exact h
    · exact h
  | getErr => exact h
  | done => simp only [Pipe.done]; split <;> exact h

/-- **no silent truncation**: a `Write` that takes fewer bytes than offered says so (`full`/`closed`),
    never takes more than offered, and an error-free return means all bytes were taken. -/
theorem C21_no_silent_truncation (p : Pipe) (d : List UInt8) :
    (p.write d).2.1 ≤ d.length ∧
    ((p.write d).2.1 < d.length → (p.write d).2.2 ≠ .none) ∧
    ((p.write d).2.2 = .none → (p.write d).2.1 = d.length) := by
  by_cases hc : p.err.isSome ∨ p.b = none
  · rw [write_closed _ _ hc]; simp
  · have he : p.err = none := by cases h : p.err <;> simp_all
    obtain ⟨fb, hb⟩ : ∃ fb, p.b = some fb := by cases h : p.b <;> simp_all
    rw [write_open _ _ fb he hb]
    have h1 := FB.write_n_le fb d
    have h2 := FB.write_full fb d
    refine ⟨h1, ?_, ?_⟩
    · intro hlt; simp only; rw [h2]; simp [hlt]
    · simp only; rw [h2]; intro h
      by_cases hlt : (fb.write d).2.1 < d.length
      · simp [hlt] at h
      · omega

/-- an open pipe takes `min |d| free` bytes: sliding makes the whole free space usable, so a write
    that fits is never refused -/
theorem C21_write_takes_what_fits (s : Sys) (hs : Reachable s) (d : List UInt8) (fb : FB)
    (he : s.p.err = none) (hb : s.p.b = some fb) :
    (s.p.write d).2.1 = min d.length (fb.cap - fb.data.length) := by
  rw [write_open _ _ fb he hb]
  exact FB.write_n fb d ((reachable_inv hs).wf fb hb)

/-- **a read blocks iff there is nothing to report** -/
theorem C21_blocks_iff (p : Pipe) (n : Nat) :
    (p.readTry n).2 = .wait ↔ (p.breakErr = none ∧ p.err = none ∧ p.hasData = false) :=
  readTry_wait_iff p n

/-- **no lost wake-up**: in every schedule, whenever the reader is parked in `c.Wait()` there is
    really nothing it could return (every step that changes that signals under the mutex). -/
theorem C21_no_lost_wakeup (cap : Nat) (acts : List Act) (n : Nat)
    (h : ((Sys.init cap).exec acts).rd = .waiting n) :
    (((Sys.init cap).exec acts).p.readTry n).2 = .wait :=
  (readTry_wait_iff _ n).mpr ((inv_exec _ acts (inv_init cap)).wake n h)

/-- **no deadlock with a live writer**: if the reader is parked and another thread writes at least
    one byte, closes or breaks, the reader is runnable afterwards and its next step returns. -/
theorem C21_progress (s : Sys) (n : Nat) (a : Act) (hc : s.crashed = false) (hw : s.rd = .waiting n)
    (ha : (∃ d, a = .write d ∧ (s.p.write d).2.1 > 0) ∨ (∃ e fn, a = .close e fn) ∨ (∃ e, a = .brk e)) :
    (s.step a).1.rd = .ready n ∧
    (((s.step a).1.step .readerStep).2 ≠ .read .wait) ∧ ((s.step a).1.step .readerStep).1.rd = .idle := by
  have hsig : ∀ t : Sys, t.rd = .waiting n → (signal t).rd = .ready n := by
    intro t ht; unfold signal; simp [ht]
  have key : ∀ t : Sys, t.crashed = false → t.rd = .ready n → ¬ t.p.quiet →
      (t.step .readerStep).2 ≠ .read .wait ∧ (t.step .readerStep).1.rd = .idle := by
    intro t htc htr hnq
    unfold Sys.step
    simp only [htc, htr]
    rcases readTry_cases t.p n with ⟨e, hb, hr⟩ | ⟨fb, hb, hbuf, hl, hr⟩ | ⟨e, hb, hd, he, hr⟩ | ⟨hq, hr⟩
    · rw [hr]; simp
    · rw [hr]; simp
    · rw [hr]; simp
    · exact absurd hq hnq
  have hcr : ∀ t : Sys, (signal t).crashed = t.crashed := by
    intro t; unfold signal; split <;> rfl
  rcases ha with ⟨d, rfl, hn⟩ | ⟨e, fn, rfl⟩ | ⟨e, rfl⟩
  · have hstep : (s.step (.write d)).1 =
        signal { s with p := (s.p.write d).1, accepted := s.accepted ++ d.take (s.p.write d).2.1 } := by
      unfold Sys.step; simp [hc]
    rw [hstep]
    have hw' : ({ s with p := (s.p.write d).1, accepted := s.accepted ++ d.take (s.p.write d).2.1 } : Sys).rd
        = .waiting n := hw
    refine ⟨hsig _ hw', ?_⟩
    apply key _ (by rw [hcr]; exact hc) (hsig _ hw')
    rw [signal_p]
    intro hq
    -- after a write of ≥ 1 byte the buffer is non-empty
    by_cases hcl : s.p.err.isSome ∨ s.p.b = none
    · rw [write_closed _ _ hcl] at hn; simp at hn
    · have he : s.p.err = none := by cases h : s.p.err <;> simp_all
      obtain ⟨fb, hb⟩ : ∃ fb, s.p.b = some fb := by cases h : s.p.b <;> simp_all
      rw [write_open _ _ fb he hb] at hn hq
      unfold Pipe.quiet Pipe.hasData at hq
      simp only [FB.len, FB.write_data] at hq
      have := hq.2.2
      simp at this hn
      have h3 := this.2
      rcases h3 with h3 | h3
      · omega
      · have := FB.write_n_le fb d
        subst h3; simp at this; omega
  · have hstep : (s.step (.close e fn)).1 = signal { s with p := s.p.close e fn } := by
      unfold Sys.step; simp [hc]
    rw [hstep]
    have hw' : ({ s with p := s.p.close e fn } : Sys).rd = .waiting n := hw
    refine ⟨hsig _ hw', ?_⟩
    apply key _ (by rw [hcr]; exact hc) (hsig _ hw')
    rw [signal_p]
    intro hq
    unfold Pipe.quiet at hq
    rcases close_cases s.p e fn with ⟨he, hr⟩ | ⟨he, hr⟩ | ⟨he, hr⟩ <;> rw [hr] at hq <;> simp_all
  · have hstep : (s.step (.brk e)).1 = signal { s with p := s.p.brk e } := by
      unfold Sys.step; simp [hc]
    rw [hstep]
    have hw' : ({ s with p := s.p.brk e } : Sys).rd = .waiting n := hw
    refine ⟨hsig _ hw', ?_⟩
    apply key _ (by rw [hcr]; exact hc) (hsig _ hw')
    rw [signal_p]
    intro hq
    unfold Pipe.quiet at hq
    rcases brk_cases s.p e with ⟨he, hr⟩ | ⟨he, hr⟩ | ⟨he, hr⟩ <;> rw [hr] at hq <;> simp_all

/-- **after Release**: the only step that can crash is a *second* `Release` (nil buffer); reads and
    writes on a released pipe are safe (`Write` returns `closed`, `Read` waits for close/break). -/
theorem C21_release_safe (s : Sys) (a : Act) (hc : s.crashed = false) (h : (s.step a).1.crashed = true) :
    a = .release ∧ s.p.b = none := by
  have hcr : ∀ t : Sys, (signal t).crashed = t.crashed := by
    intro t; unfold signal; split <;> rfl
  cases a with
  | write d => unfold Sys.step at h; simp [hcr, hc] at h
  | close e fn => unfold Sys.step at h; simp [hcr, hc] at h
  | brk e => unfold Sys.step at h; simp [hcr, hc] at h
  | release =>
    cases hb : s.p.b with
    | none => exact ⟨rfl, rfl⟩
    | some fb => unfold Sys.step at h; simp [hb, hc] at h
  | discard => unfold Sys.step at h; simp only [hc] at h; cases hb : s.p.b <;> simp [hb, hc] at h
  | startRead n =>
    unfold Sys.step at h; simp only [hc] at h
    cases hrd : s.rd <;> simp [hrd, hc] at h
  | readerStep =>
    unfold Sys.step at h; simp only [hc] at h
    cases hrd : s.rd with
    | idle => simp [hrd, hc] at h
    | waiting n => simp [hrd, hc] at h
    | ready n =>
      simp only [hrd] at h
      rcases readTry_cases s.p n with ⟨e, hb, hr⟩ | ⟨fb, hb, hbuf, hl, hr⟩ | ⟨e, hb, hd, he, hr⟩ | ⟨hq, hr⟩ <;>
        rw [hr] at h <;> simp [hc] at h
  | getErr => unfold Sys.step at h; simp [hc] at h
  | done => unfold Sys.step at h; simp [hc, Pipe.done] at h

/-- the `Done()` channel, once created, is closed exactly when a close or break error is set -/
theorem C21_done_closed_iff (cap : Nat) (acts : List Act) (c : Bool)
    (h : ((Sys.init cap).exec acts).p.donec = some c) :
    c = (((Sys.init cap).exec acts).p.err.isSome || ((Sys.init cap).exec acts).p.breakErr.isSome) :=
  (inv_exec _ acts (inv_init cap)).done c h

/-! ### non-vacuity: concrete schedules -/

/-- reader parks first, writer wakes it, data arrives in order across a slide of the buffer -/
example :
    ((Sys.init 4).run [.startRead 3, .readerStep, .write [1, 2, 3, 4], .readerStep, .write [5, 6, 7],
        .startRead 9, .readerStep]).2 =
      [.unit, .read .wait, .wrote 4 .none, .read (.data [1, 2, 3]), .wrote 3 .none, .unit,
        .read (.data [4, 5, 6, 7])] := by decide

/-- close is reported after the data, break at once; an oversized write is cut *and flagged* -/
example :
    ((Sys.init 2).run [.write [1, 2, 3], .close 7 false, .startRead 1, .readerStep, .startRead 1, .readerStep,
        .startRead 1, .readerStep]).2 =
      [.wrote 2 .full, .unit, .unit, .read (.data [1]), .unit, .read (.data [2]), .unit, .read (.err 7 false)] := by
  decide
example :
    ((Sys.init 2).run [.write [1, 2], .brk 5, .startRead 1, .readerStep]).2 =
      [.wrote 2 .none, .unit, .unit, .read (.err 5 false)] := by decide

/-- a parked reader exists in reachable states (hypothesis of `C21_no_lost_wakeup` is satisfiable) -/
example : ((Sys.init 4).exec [.startRead 3, .readerStep]).rd = .waiting 3 := by decide

/-- a second Release crashes (nil buffer): outside the property's quantifier, predicted by the model -/
example : ((Sys.init 4).exec [.release, .release]).crashed = true := by decide

/-- `Signal` wakes one waiter only: the model deliberately has ONE reader.  (With two parked readers a
    single close would wake only one of them; bfe's callers have one reader per body.) -/
example : ((Sys.init 4).exec [.startRead 3, .readerStep, .close 1 false, .readerStep]).rd = .idle := by decide

/-- a lifecycle: pipe 0 is released with two unread bytes; pipe 1 gets the same buffer from the pool,
    sees an empty buffer, and reads back exactly its own bytes -/
example :
    let w := World.init.exec [.fresh 4, .on 0 (.write [1, 2, 3]), .on 0 (.startRead 1), .on 0 .readerStep,
      .on 0 .release, .reuse 0, .on 1 (.write [9, 8]), .on 1 (.startRead 7), .on 1 .readerStep]
    w.pool = [] ∧ (w.pipes.map (·.delivered)) = [[1], [9, 8]] ∧
      (w.pipes.map (·.ledger)) = [[(1, true), (2, false), (3, false)], [(9, true), (8, true)]] := by decide

/-- why Release must Reset: a pipe created around a buffer that still holds a byte violates the invariant
    (its first read would return a byte nobody wrote to it) — the defect the `foreign-bytes` class names -/
example : ¬ Inv (Sys.fromBuffer { cap := 4, r := 0, data := [7] }) := by
  intro h; have := h.fifo; simp [Sys.fromBuffer, gone, bufData] at this

/-- Discard: 2 unread bytes dropped and reported, later bytes still flow -/
example :
    ((Sys.init 4).run [.write [1, 2, 3], .startRead 1, .readerStep, .discard, .write [4], .startRead 9, .readerStep]).2 =
      [.wrote 3 .none, .unit, .read (.data [1]), .discarded 2, .wrote 1 .none, .unit, .read (.data [4])] := by decide

end BfeVerif.C21
