import BfeVerif.C21.Proofs
/-!
  C21 — body pipes deliver data in order exactly once.  Property theorems only.

  `(Sys.init cap).exec acts` is the state after an arbitrary sequence `acts` of atomic steps: any
  interleaving of one reader thread (`startRead`, `readerStep`) with the critical sections of any
  number of writer/closer threads (`write`, `close`, `brk`, `release`, `getErr`, `done`).  Disabled
  steps are no-ops, so quantifying over all `acts` quantifies over all schedules.
  Ghost fields: `accepted` = bytes taken by `Write` calls (`d.take n` for a Write that returned `n`),
  `delivered` = bytes handed out by `Read` calls.
-/
namespace BfeVerif.C21

/-- **FIFO / exactly once**: in every schedule, what was read is a prefix of what was accepted, and
    while the buffer has not been released the remainder is exactly the buffer content — no byte is
    lost, duplicated or reordered. -/
theorem C21_fifo (cap : Nat) (acts : List Act) :
    let s := (Sys.init cap).exec acts
    s.delivered <+: s.accepted ∧ ∀ fb, s.p.b = some fb → s.accepted = s.delivered ++ fb.data := by
  intro s
  have h := (inv_exec _ acts (inv_init cap)).fifo
  constructor
  · change (match s.p.b with
      | some fb => s.accepted = s.delivered ++ fb.data
      | none => s.delivered <+: s.accepted) at h
    cases hb : s.p.b with
    | none => simpa [hb] using h
    | some fb => simp only [hb] at h; rw [h]; exact List.prefix_append _ _
  · intro fb hb
    change (match s.p.b with
      | some fb => s.accepted = s.delivered ++ fb.data
      | none => s.delivered <+: s.accepted) at h
    simpa [hb] using h

/-! The same statement on what an outside observer sees (this is what the trace-checking oracle of
    the driver recomputes from the implementation's own results). -/

/-- **FIFO on the observable trace**: in every schedule the concatenation of all bytes returned by
    reads is a prefix of the concatenation of all bytes writes reported as taken. -/
theorem C21_fifo_trace (cap : Nat) (acts : List Act) :
    obsDelivered ((Sys.init cap).run acts).2 <+: obsAccepted acts ((Sys.init cap).run acts).2 := by
  have hg := run_ghost (Sys.init cap) acts
  have hf := (C21_fifo cap acts).1
  rw [← run_fst] at hf
  rw [hg.1, hg.2] at hf
  simpa [Sys.init] using hf

/-- once the (unreleased) buffer is empty everything accepted has been delivered -/
theorem C21_drained_all_delivered (cap : Nat) (acts : List Act) (fb : FB)
    (hb : ((Sys.init cap).exec acts).p.b = some fb) (he : fb.data = []) :
    ((Sys.init cap).exec acts).delivered = ((Sys.init cap).exec acts).accepted := by
  have := (C21_fifo cap acts).2 fb hb
  simp [he] at this; exact this.symm

/-- a `Read(len n)` that returns data returns exactly the next `min n buffered` undelivered bytes -/
theorem C21_read_returns_next (s : Sys) (hs : Reachable s) (n : Nat) (bs : List UInt8) (s' : Sys)
    (hrd : s.rd = .ready n) (hc : s.crashed = false)
    (hstep : s.step .readerStep = (s', .read (.data bs))) :
    bs = (s.accepted.drop s.delivered.length).take n ∧ s'.delivered = s.delivered ++ bs ∧
      (n > 0 → bs ≠ []) := by
  have hinv := reachable_inv hs
  unfold Sys.step at hstep
  simp only [hc, hrd] at hstep
  rcases readTry_cases s.p n with ⟨e, hb, hr⟩ | ⟨fb, hb, hbuf, hl, hr⟩ | ⟨e, hb, hd, he, hr⟩ | ⟨hq, hr⟩ <;>
    rw [hr] at hstep <;> simp at hstep
  obtain ⟨hs', hbs⟩ := hstep
  have hf := hinv.fifo
  simp only [hbuf] at hf
  subst hbs
  refine ⟨?_, by rw [← hs'], ?_⟩
  · rw [hf, FB.read_out]; simp
  · intro hn
    rw [FB.read_out]
    unfold FB.len at hl
    intro h0
    have : min n fb.data.length = 0 := by rw [← List.length_take, h0]; rfl
    omega

/-- **close after data**: a read reports the close error only when nothing accepted is undelivered
    (as long as the buffer was not released, which drops data by design). -/
theorem C21_close_after_data (s : Sys) (hs : Reachable s) (n : Nat) (e : Err) (f : Bool)
    (hbrk : s.p.breakErr = none) (hres : (s.p.readTry n).2 = .err e f) :
    s.p.err = some e ∧ ∀ fb, s.p.b = some fb → s.delivered = s.accepted := by
  have hinv := reachable_inv hs
  rcases readTry_cases s.p n with ⟨e', hb, hr⟩ | ⟨fb, hb, hbuf, hl, hr⟩ | ⟨e', hb, hd, he, hr⟩ | ⟨hq, hr⟩ <;>
    rw [hr] at hres <;> simp at hres
  · rw [hbrk] at hb; cases hb
  · refine ⟨by rw [he, hres.1], ?_⟩
    intro fb hfb
    have hf := hinv.fifo
    simp only [hfb] at hf
    unfold Pipe.hasData at hd
    simp [hfb, FB.len] at hd
    simp [hf, hd]

/-- **break is immediate**: with a break error set, every read returns it at once, whatever is buffered -/
theorem C21_break_immediate (p : Pipe) (e : Err) (n : Nat) (h : p.breakErr = some e) :
    p.readTry n = (p, .err e false) := by
  unfold Pipe.readTry; simp [h]

/-- a break error, once set, stays set in every later state -/
theorem C21_break_sticky (s : Sys) (a : Act) (h : s.p.breakErr.isSome) : (s.step a).1.p.breakErr.isSome := by
  unfold Sys.step
  split
  · exact h
  cases a with
  | write d =>
    simp only [signal_p]
    unfold Pipe.write; split
    · exact h
    · split <;> exact h
  | close e fn =>
    simp only [signal_p]
    rcases close_cases s.p e fn with ⟨_, hr⟩ | ⟨_, hr⟩ | ⟨_, hr⟩ <;> rw [hr] <;> exact h
  | brk e =>
    simp only [signal_p]
    rcases brk_cases s.p e with ⟨he, hr⟩ | ⟨_, hr⟩ | ⟨_, hr⟩ <;> rw [hr]
    · simp
    · simp
    · exact h
  | release => simp only; split <;> exact h
  | startRead n => simp only; split <;> exact h
  | readerStep =>
    simp only
    split
    · rename_i n _
      obtain ⟨e, he⟩ := Option.isSome_iff_exists.mp h
      rw [C21_break_immediate _ e n he]; exact h
    · exact h
  | getErr => exact h
  | done => simp only [Pipe.done]; split <;> exact h

/-- **no silent truncation**: a `Write` that takes fewer bytes than offered says so (`full`/`closed`),
    never takes more than offered, and an error-free return means all bytes were taken. -/
theorem C21_no_silent_truncation (p : Pipe) (d : List UInt8) :
    (p.write d).2.1 ≤ d.length ∧
    ((p.write d).2.1 < d.length → (p.write d).2.2 ≠ .none) ∧
    ((p.write d).2.2 = .none → (p.write d).2.1 = d.length) := by
  by_cases hc : p.err.isSome ∨ p.b = none
  · rw [write_closed _ _ hc]; simp
  · have he : p.err = none := by cases h : p.err <;> simp_all
    obtain ⟨fb, hb⟩ : ∃ fb, p.b = some fb := by cases h : p.b <;> simp_all
    rw [write_open _ _ fb he hb]
    have h1 := FB.write_n_le fb d
    have h2 := FB.write_full fb d
    refine ⟨h1, ?_, ?_⟩
    · intro hlt; simp only; rw [h2]; simp [hlt]
    · simp only; rw [h2]; intro h
      by_cases hlt : (fb.write d).2.1 < d.length
      · simp [hlt] at h
      · omega

/-- an open pipe takes `min |d| free` bytes: sliding makes the whole free space usable, so a write
    that fits is never refused -/
theorem C21_write_takes_what_fits (s : Sys) (hs : Reachable s) (d : List UInt8) (fb : FB)
    (he : s.p.err = none) (hb : s.p.b = some fb) :
    (s.p.write d).2.1 = min d.length (fb.cap - fb.data.length) := by
  rw [write_open _ _ fb he hb]
  exact FB.write_n fb d ((reachable_inv hs).wf fb hb)

/-- **a read blocks iff there is nothing to report** -/
theorem C21_blocks_iff (p : Pipe) (n : Nat) :
    (p.readTry n).2 = .wait ↔ (p.breakErr = none ∧ p.err = none ∧ p.hasData = false) :=
  readTry_wait_iff p n

/-- **no lost wake-up**: in every schedule, whenever the reader is parked in `c.Wait()` there is
    really nothing it could return (every step that changes that signals under the mutex). -/
theorem C21_no_lost_wakeup (cap : Nat) (acts : List Act) (n : Nat)
    (h : ((Sys.init cap).exec acts).rd = .waiting n) :
    (((Sys.init cap).exec acts).p.readTry n).2 = .wait :=
  (readTry_wait_iff _ n).mpr ((inv_exec _ acts (inv_init cap)).wake n h)

/-- **no deadlock with a live writer**: if the reader is parked and another thread writes at least
    one byte, closes or breaks, the reader is runnable afterwards and its next step returns. -/
theorem C21_progress (s : Sys) (n : Nat) (a : Act) (hc : s.crashed = false) (hw : s.rd = .waiting n)
    (ha : (∃ d, a = .write d ∧ (s.p.write d).2.1 > 0) ∨ (∃ e fn, a = .close e fn) ∨ (∃ e, a = .brk e)) :
    (s.step a).1.rd = .ready n ∧
    (((s.step a).1.step .readerStep).2 ≠ .read .wait) ∧ ((s.step a).1.step .readerStep).1.rd = .idle := by
  have hsig : ∀ t : Sys, t.rd = .waiting n → (signal t).rd = .ready n := by
    intro t ht; unfold signal; simp [ht]
  have key : ∀ t : Sys, t.crashed = false → t.rd = .ready n → ¬ t.p.quiet →
      (t.step .readerStep).2 ≠ .read .wait ∧ (t.step .readerStep).1.rd = .idle := by
    intro t htc htr hnq
    unfold Sys.step
    simp only [htc, htr]
    rcases readTry_cases t.p n with ⟨e, hb, hr⟩ | ⟨fb, hb, hbuf, hl, hr⟩ | ⟨e, hb, hd, he, hr⟩ | ⟨hq, hr⟩
    · rw [hr]; simp
    · rw [hr]; simp
    · rw [hr]; simp
    · exact absurd hq hnq
  have hcr : ∀ t : Sys, (signal t).crashed = t.crashed := by
    intro t; unfold signal; split <;> rfl
  rcases ha with ⟨d, rfl, hn⟩ | ⟨e, fn, rfl⟩ | ⟨e, rfl⟩
  · have hstep : (s.step (.write d)).1 =
        signal { s with p := (s.p.write d).1, accepted := s.accepted ++ d.take (s.p.write d).2.1 } := by
      unfold Sys.step; simp [hc]
    rw [hstep]
    have hw' : ({ s with p := (s.p.write d).1, accepted := s.accepted ++ d.take (s.p.write d).2.1 } : Sys).rd
        = .waiting n := hw
    refine ⟨hsig _ hw', ?_⟩
    apply key _ (by rw [hcr]; exact hc) (hsig _ hw')
    rw [signal_p]
    intro hq
    -- after a write of ≥ 1 byte the buffer is non-empty
    by_cases hcl : s.p.err.isSome ∨ s.p.b = none
    · rw [write_closed _ _ hcl] at hn; simp at hn
    · have he : s.p.err = none := by cases h : s.p.err <;> simp_all
      obtain ⟨fb, hb⟩ : ∃ fb, s.p.b = some fb := by cases h : s.p.b <;> simp_all
      rw [write_open _ _ fb he hb] at hn hq
      unfold Pipe.quiet Pipe.hasData at hq
      simp only [FB.len, FB.write_data] at hq
      have := hq.2.2
      simp at this hn
      have h3 := this.2
      rcases h3 with h3 | h3
      · omega
      · have := FB.write_n_le fb d
        subst h3; simp at this; omega
  · have hstep : (s.step (.close e fn)).1 = signal { s with p := s.p.close e fn } := by
      unfold Sys.step; simp [hc]
    rw [hstep]
    have hw' : ({ s with p := s.p.close e fn } : Sys).rd = .waiting n := hw
    refine ⟨hsig _ hw', ?_⟩
    apply key _ (by rw [hcr]; exact hc) (hsig _ hw')
    rw [signal_p]
    intro hq
    unfold Pipe.quiet at hq
    rcases close_cases s.p e fn with ⟨he, hr⟩ | ⟨he, hr⟩ | ⟨he, hr⟩ <;> rw [hr] at hq <;> simp_all
  · have hstep : (s.step (.brk e)).1 = signal { s with p := s.p.brk e } := by
      unfold Sys.step; simp [hc]
    rw [hstep]
    have hw' : ({ s with p := s.p.brk e } : Sys).rd = .waiting n := hw
    refine ⟨hsig _ hw', ?_⟩
    apply key _ (by rw [hcr]; exact hc) (hsig _ hw')
    rw [signal_p]
    intro hq
    unfold Pipe.quiet at hq
    rcases brk_cases s.p e with ⟨he, hr⟩ | ⟨he, hr⟩ | ⟨he, hr⟩ <;> rw [hr] at hq <;> simp_all

/-- **after Release**: the only step that can crash is a *second* `Release` (nil buffer); reads and
    writes on a released pipe are safe (`Write` returns `closed`, `Read` waits for close/break). -/
theorem C21_release_safe (s : Sys) (a : Act) (hc : s.crashed = false) (h : (s.step a).1.crashed = true) :
    a = .release ∧ s.p.b = none := by
  have hcr : ∀ t : Sys, (signal t).crashed = t.crashed := by
    intro t; unfold signal; split <;> rfl
  cases a with
  | write d => unfold Sys.step at h; simp [hcr, hc] at h
  | close e fn => unfold Sys.step at h; simp [hcr, hc] at h
  | brk e => unfold Sys.step at h; simp [hcr, hc] at h
  | release =>
    cases hb : s.p.b with
    | none => exact ⟨rfl, rfl⟩
    | some fb => unfold Sys.step at h; simp [hb, hc] at h
  | startRead n =>
    unfold Sys.step at h; simp only [hc] at h
    cases hrd : s.rd <;> simp [hrd, hc] at h
  | readerStep =>
    unfold Sys.step at h; simp only [hc] at h
    cases hrd : s.rd with
    | idle => simp [hrd, hc] at h
    | waiting n => simp [hrd, hc] at h
    | ready n =>
      simp only [hrd] at h
      rcases readTry_cases s.p n with ⟨e, hb, hr⟩ | ⟨fb, hb, hbuf, hl, hr⟩ | ⟨e, hb, hd, he, hr⟩ | ⟨hq, hr⟩ <;>
        rw [hr] at h <;> simp [hc] at h
  | getErr => unfold Sys.step at h; simp [hc] at h
  | done => unfold Sys.step at h; simp [hc, Pipe.done] at h

/-- the `Done()` channel, once created, is closed exactly when a close or break error is set -/
theorem C21_done_closed_iff (cap : Nat) (acts : List Act) (c : Bool)
    (h : ((Sys.init cap).exec acts).p.donec = some c) :
    c = (((Sys.init cap).exec acts).p.err.isSome || ((Sys.init cap).exec acts).p.breakErr.isSome) :=
  (inv_exec _ acts (inv_init cap)).done c h

/-! ### non-vacuity: concrete schedules -/

/-- reader parks first, writer wakes it, data arrives in order across a slide of the buffer -/
example :
    ((Sys.init 4).run [.startRead 3, .readerStep, .write [1, 2, 3, 4], .readerStep, .write [5, 6, 7],
        .startRead 9, .readerStep]).2 =
      [.unit, .read .wait, .wrote 4 .none, .read (.data [1, 2, 3]), .wrote 3 .none, .unit,
        .read (.data [4, 5, 6, 7])] := by decide

/-- close is reported after the data, break at once; an oversized write is cut *and flagged* -/
example :
    ((Sys.init 2).run [.write [1, 2, 3], .close 7 false, .startRead 1, .readerStep, .startRead 1, .readerStep,
        .startRead 1, .readerStep]).2 =
      [.wrote 2 .full, .unit, .unit, .read (.data [1]), .unit, .read (.data [2]), .unit, .read (.err 7 false)] := by
  decide
example :
    ((Sys.init 2).run [.write [1, 2], .brk 5, .startRead 1, .readerStep]).2 =
      [.wrote 2 .none, .unit, .unit, .read (.err 5 false)] := by decide

/-- a parked reader exists in reachable states (hypothesis of `C21_no_lost_wakeup` is satisfiable) -/
example : ((Sys.init 4).exec [.startRead 3, .readerStep]).rd = .waiting 3 := by decide

/-- a second Release crashes (nil buffer): outside the property's quantifier, predicted by the model -/
example : ((Sys.init 4).exec [.release, .release]).crashed = true := by decide

/-- `Signal` wakes one waiter only: the model deliberately has ONE reader.  (With two parked readers a
    single close would wake only one of them; bfe's callers have one reader per body.) -/
example : ((Sys.init 4).exec [.startRead 3, .readerStep, .close 1 false, .readerStep]).rd = .idle := by decide

end BfeVerif.C21
