import BfeVerif.C12.Proofs
import BfeVerif.C12.Compose
import BfeVerif.C18.Props
namespace BfeVerif.C12
open BfeVerif.C17 (Bytes)

theorem bitsOf_some (o : C18.Orc) (r : C18.Req) (es : List ERule) (hev : ∀ e ∈ es, (eval o r e.cond).isSome = true) :
    ∃ bs, bitsOf o r es = some bs ∧ bs.length = es.length ∧
      (bs.find? (fun b => b.cond)).map (·.cluster) =
        (es.find? fun e => eval o r e.cond == some true).map (·.cluster) ∧
      (∀ b ∈ bs, ∃ e ∈ es, b.cluster = e.cluster) := by
  induction es with
  | nil => exact ⟨[], rfl, rfl, rfl, by simp⟩
  | cons e es ih =>
    obtain ⟨bs, hb, hl, hf, hm⟩ := ih (fun x hx => hev x (by simp [hx]))
    have he := hev e (by simp)
    cases hv : eval o r e.cond with
    | none => rw [hv] at he; cases he
    | some b =>
      refine ⟨⟨b, e.cluster⟩ :: bs, by simp [bitsOf, hv, hb], by simp [hl], ?_, ?_⟩
      · cases b with
        | true => simp [List.find?_cons, hv]
        | false => simp [List.find?_cons, hv, hf]
      · intro x hx
        rcases List.mem_cons.mp hx with rfl | hx
        · exact ⟨e, by simp, rfl⟩
        · obtain ⟨e', he', hc⟩ := hm x hx
          exact ⟨e', by simp [he'], hc⟩

/-- condition trees over primitives whose C18 model is PROVED equal to the documented meaning -/
def provedPrims : List String := C18.unconditional

def Cond.overProved : Cond → Prop
  | .tt => True
  | .prim n _ _ _ => n ∈ provedPrims
  | .not c => c.overProved
  | .and a b => a.overProved ∧ b.overProved
  | .or a b => a.overProved ∧ b.overProved

/-- the documented meaning of a condition tree (C18's `specPrim`) -/
def evalSpec (o : C18.Orc) (r : C18.Req) : Cond → Option Bool
  | .tt => some true
  | .prim n a0 a1 f => C18.specPrim o n a0 a1 f r
  | .not c => (evalSpec o r c).map (!·)
  | .and a b => match evalSpec o r a, evalSpec o r b with
    | some x, some y => some (x && y)
    | _, _ => none
  | .or a b => match evalSpec o r a, evalSpec o r b with
    | some x, some y => some (x || y)
    | _, _ => none

theorem eval_eq_evalSpec (o : C18.Orc) (r : C18.Req) (c : Cond) (h : c.overProved) : eval o r c = evalSpec o r c := by
  induction c with
  | tt => rfl
  | prim n a0 a1 f => exact C18.C18_unconditional n h o a0 a1 f r
  | not c ih => simp [eval, evalSpec, ih h]
  | and a b iha ihb =>
    simp only [eval, evalSpec, iha h.1, ihb h.2]
    cases evalSpec o r a <;> cases evalSpec o r b <;> rfl
  | or a b iha ihb =>
    simp only [eval, evalSpec, iha h.1, ihb h.2]
    cases evalSpec o r a <;> cases evalSpec o r b <;> rfl

end BfeVerif.C12
