import BfeVerif.Common.Proto
import BfeVerif.C12.Full
import BfeVerif.C10.Driver
import BfeVerif.C11.Driver
/-!
  C12 history ops: real files → real loaders (`hostTableLoad` on one object / `LoadServerDataConf`) → `HostTable.Lookup`.

  op    = `hist;;<conf>;;<conf>…;;steps=<step>||<step>…`
  conf  = `C^^t=<host>tag>product&…^^d=<default>^^xp=<p,p>^^v=<addr>~<hex16|x>>product&…^^bad=<0|host|vip|route>`
          followed by any number of `^^R=<product>^^b=<basic rules|none>^^c=<structured adv rules|none>`
  step  = `L<i>` (reload conf i into the same object) | `N<i>` (fresh object from conf i; the old one stays held)
        | `Q<0|1>^^h=<host>^^ip=<nil|hex>^^p=<path|nil>^^m=<method>`  (1 = ask the held object)
  impl  = per step `ok` | `err` | `P=<product>^T=<tag>^C=<cluster>^E=<none|noproduct|noproductrule|nomatch>`, joined by `||`
-/
namespace BfeVerif.C12
open BfeVerif.Proto

def kv2 (fields : List String) (k : String) : Option String :=
  (fields.find? (fun f => f.startsWith (k ++ "="))).map (fun f => (f.drop (k.length + 1)).toString)

def dummyOrc : C18.Orc :=
  { x := { regexOk := fun _ => true, parseIP := fun _ => none, parseTime := fun _ => none, sscanf6 := fun _ => none },
    reMatch := fun _ _ => false, bucket := fun _ => 0 }

/-- `R=…^^b=…^^c=…` triples -/
def parseRoutes (parseE : String → Option (List ERule)) : List String → Option (List (String × ProdRoute))
  | r :: b :: c :: rest =>
    if r.startsWith "R=" && b.startsWith "b=" && c.startsWith "c=" then
      let bs := (b.drop 2).toString
      let cs := (c.drop 2).toString
      let basic : Option (Option (List C11.Rule)) := if bs == "none" then some none else (C11.parseRules bs).map some
      let adv : Option (Option (List ERule)) := if cs == "none" then some none else (parseE cs).map some
      match basic, adv, parseRoutes parseE rest with
      | some ba, some ad, some more => some (((r.drop 2).toString, { basic := ba, adv := ad }) :: more)
      | _, _, _ => none
    else none
  | [] => some []
  | _ => none

def parseConf (parseE : String → Option (List ERule)) (s : String) : Option Conf :=
  let f := s.splitOn "^^"
  match f with
  | "C" :: rest =>
    let head := rest.takeWhile (fun x => !x.startsWith "R=")
    let tail := rest.dropWhile (fun x => !x.startsWith "R=")
    match kv2 head "t", kv2 head "d", kv2 head "xp", kv2 head "v", kv2 head "bad" with
    | some t, some d, some xp, some v, some bad =>
      match C10.parseEntries t, C10.parseVips v, parseRoutes parseE tail with
      | some es, some vips, some routes =>
        some { entries := es, dflt := d, extraProducts := if xp == "" then [] else xp.splitOn ",",
               vips := vips, routes := routes, broken := bad != "0" }
      | _, _, _ => none
    | _, _, _, _, _ => none
  | _ => none

inductive PStep where
  | load (fresh : Bool) (i : Nat)
  | query (held : Bool) (q : Query)

def parseStep (s : String) : Option PStep :=
  if s.startsWith "L" then ((s.drop 1).toString.toNat?).map (PStep.load false)
  else if s.startsWith "N" then ((s.drop 1).toString.toNat?).map (PStep.load true)
  else if s.startsWith "Q" then
    let f := s.splitOn "^^"
    match f.head?, kv2 f "h", kv2 f "ip", kv2 f "p", kv2 f "m" with
    | some hd, some h, some ip, some p, some m =>
      let vip : Option (Option (List UInt8)) := if ip == "nil" then some none else (bytesOfHex ip).map some
      match C10.parseHost h, vip with
      | some host, some v =>
        let path : Option (List Char) := if p == "nil" then none else some p.toList
        let req : C18.Req := { host := h.toUTF8.toList, path := (if p == "nil" then "" else p).toUTF8.toList,
                               method := m.toUTF8.toList, query := [], headers := [], cookies := [], tags := [],
                               cip := none, vip := none }
        some (.query (hd == "Q1") { host := host, vip := v, path := path, req := req })
      | _, _ => none
    | _, _, _, _, _ => none
  else none

def renderRouted : Option Routed → String
  | none => "cond-not-modelled"
  | some none => "P=^T=^C=^E=noproduct"
  | some (some (r, .cluster c)) => "P=" ++ r.product ++ "^T=" ++ r.tag ++ "^C=" ++ c ++ "^E=none"
  | some (some (r, .errNoProductRule)) => "P=" ++ r.product ++ "^T=" ++ r.tag ++ "^C=^E=noproductrule"
  | some (some (r, .errNoMatchRule)) => "P=" ++ r.product ++ "^T=" ++ r.tag ++ "^C=^E=nomatch"

/-- the spec's answer in the implementation's result format, error kind left open (`E=err`) -/
def renderSpec : Option (C10.Route × Option String) → String
  | none => "P=^T=^C="
  | some (r, some c) => "P=" ++ r.product ++ "^T=" ++ r.tag ++ "^C=" ++ c
  | some (r, none) => "P=" ++ r.product ++ "^T=" ++ r.tag ++ "^C="

def stripE (s : String) : String :=
  match s.splitOn "^E=" with
  | a :: _ => a
  | [] => s

def confWF (c : Conf) : Bool :=
  C10.wfB C10.lowerC c.entries && C10.nodupKeys c.vipTable &&
  c.routes.all (fun pr => (match pr.2.adv with | some es => es.all (·.cluster != "") | none => true) &&
    (match pr.2.basic with | some rs => rs.all (·.cluster != "") | none => true)) &&
  nodupL (c.routes.map (·.1))

structure Acc where
  st : HState := {}
  prev : Option Conf := none          -- the conf the current object held before the last accepted load
  model : List String := []
  verdict : String := "ok"
  nLoads : Nat := 0
  nRejected : Nat := 0
  nQueries : Nat := 0
  nHeld : Nat := 0
  afterReload : Nat := 0

def specOf (c : Option Conf) (q : Query) : String :=
  renderSpec (fullSpec C10.lowerC dummyOrc (c.getD emptyConf) q)

/-- does the implementation's answer (with its error kind) meet the documented route? -/
def meetsSpec (c : Option Conf) (q : Query) (impl : String) : Bool :=
  match fullSpec C10.lowerC dummyOrc (c.getD emptyConf) q with
  | none => impl == "P=^T=^C=^E=noproduct"
  | some (r, some cl) => impl == renderSpec (some (r, some cl)) ++ "^E=none"
  | some (r, none) => impl == renderSpec (some (r, none)) ++ "^E=noproductrule" ||
                      impl == renderSpec (some (r, none)) ++ "^E=nomatch"

def runHist (parseE : String → Option (List ERule)) (op impl : String) : Ans :=
  let parts := op.splitOn ";;"
  match parts with
  | "hist" :: rest =>
    let confStrs := rest.filter (·.startsWith "C^^")
    let stepsStr := (rest.find? (·.startsWith "steps=")).map (fun s => (s.drop 6).toString)
    match confStrs.mapM (parseConf parseE), stepsStr with
    | some confs, some ss =>
      match (ss.splitOn "||").mapM parseStep with
      | none => { model := "bad-op", verdict := "skip" }
      | some steps =>
        let implRes := impl.splitOn "||"
        let acc : Acc := (steps.zip (implRes ++ List.replicate steps.length "")).foldl (fun (a : Acc) (sr : PStep × String) =>
          match sr.1 with
          | .load fresh i =>
            let c := confs.getD i emptyConf
            let ok := if fresh then c.loadOk && c.checkOk else c.loadOk
            let st' := step a.st (if fresh then Step.fresh c else Step.reload c)
            let v := if a.verdict != "ok" then a.verdict
                     else if sr.2 != (if ok then "ok" else "err") then
                       (if ok then "FAIL:hist-valid-conf-rejected" else "FAIL:hist-invalid-conf-accepted")
                     else "ok"
            { a with st := st', prev := if ok then a.st.cur else a.prev, model := a.model ++ [if ok then "ok" else "err"],
                     verdict := v, nLoads := a.nLoads + 1, nRejected := a.nRejected + (if ok then 0 else 1) }
          | .query held q =>
            let m := renderRouted (answer C10.lowerC dummyOrc a.st held q)
            let conf := if held then a.st.held else a.st.cur
            let wf := confWF (conf.getD emptyConf) && (C10.lower C10.lowerC q.host).head? != some '['
            let spec := specOf conf q
            let v := if a.verdict != "ok" || !wf then a.verdict
                     else if meetsSpec conf q sr.2 then "ok"
                     else if !held && a.prev.isSome && stripE sr.2 == specOf a.prev q then "FAIL:hist-stale-tables"
                     else if held && stripE sr.2 == specOf a.st.cur q then "FAIL:hist-held-object-changed"
                     else if (stripE sr.2).takeWhile (· != '^') != spec.takeWhile (· != '^') then "FAIL:hist-product"
                     else "FAIL:hist-cluster"
            { a with model := a.model ++ [m], verdict := v, nQueries := a.nQueries + 1,
                     nHeld := a.nHeld + (if held then 1 else 0),
                     afterReload := a.afterReload + (if a.nLoads ≥ 2 then 1 else 0) }) {}
        { model := "||".intercalate acc.model
          verdict := acc.verdict
          tags := ["hist"] ++ (if acc.nLoads ≥ 2 then ["hist-reload"] else [])
                  ++ (if acc.nRejected > 0 then ["hist-rejected-load"] else [])
                  ++ (if acc.nHeld > 0 then ["hist-held-query"] else [])
                  ++ (if acc.afterReload > 0 then ["nt"] else []) }
    | _, _ => { model := "bad-op", verdict := "skip" }
  | _ => { model := "bad-op", verdict := "skip" }

end BfeVerif.C12
