import BfeVerif.C12.Full
import BfeVerif.C12.ComposeProofs
import BfeVerif.C10.Props
import BfeVerif.C11.Props
namespace BfeVerif.C12

/-- the conf a step installs, if it is accepted -/
def accepts : Step → Option Conf
  | .reload c => if c.loadOk then some c else none
  | .fresh c => if c.loadOk && c.checkOk then some c else none
  | .query _ _ => none

theorem step_rejected (s : HState) (st : Step) (h : accepts st = none) : step s st = s := by
  cases st with
  | reload c => simp only [accepts] at h; split at h <;> simp_all [step]
  | fresh c => simp only [accepts] at h; split at h <;> simp_all [step]
  | query hd q => rfl

theorem step_accepted (s : HState) (st : Step) (c : Conf) (h : accepts st = some c) : (step s st).cur = some c := by
  cases st with
  | reload c' => simp only [accepts] at h; split at h <;> simp_all [step]
  | fresh c' => simp only [accepts] at h; split at h <;> simp_all [step]
  | query hd q => simp [accepts] at h

theorem runSteps_cur (s : HState) (steps : List Step) :
    (runSteps s steps).cur =
      match (steps.filterMap accepts).getLast? with
      | some c => some c
      | none => s.cur := by
  induction steps generalizing s with
  | nil => rfl
  | cons st rest ih =>
    simp only [runSteps, List.foldl_cons] at ih ⊢
    rw [ih (step s st)]
    cases ha : accepts st with
    | none => simp [List.filterMap_cons, ha, step_rejected s st ha]
    | some c =>
      simp only [List.filterMap_cons, ha]
      cases hr : (rest.filterMap accepts) with
      | nil => simp [step_accepted s st c ha]
      | cons x xs =>
        rw [List.getLast?_cons_cons]
        cases hx : (x :: xs).getLast? with
        | none => simp at hx
        | some y => rfl

theorem specLookupE_nil (o : C18.Orc) (b : Option String) (r : C18.Req) : specLookupE o b [] r = specLookup b [] := by
  cases b <;> simp [specLookupE, specLookup, specAdvanced]

end BfeVerif.C12
