import BfeVerif.C10.Model
import BfeVerif.C11.Model
import BfeVerif.C12.Compose
/-!
  C12 — the whole route of a request through one loaded `ServerDataConf`, and reload histories.  Core-only.

  `HostTable.Lookup(req)`:
      if err := t.LookupHostTagAndProduct(req); err != nil { route.Error = err; return route }
      route.Product, route.HostTag = req.Route.Product, req.Route.HostTag
      if err := t.LookupCluster(req); err != nil { route.Error = err; return route }
      route.ClusterName = req.Route.ClusterName
  composed from the C10 model (host → product), the C11 model (basic tree of that product) and C12's
  `lookupClusterE` (conditions by the C18 model).

  `ServerDataConf.hostTableLoad(hostFile, vipFile, routeFile)`: the three loaders, then `HostTable.Update`, which
  REPLACES every table; any loader error returns before `Update` and leaves the tables as they were.
-/
namespace BfeVerif.C12
open BfeVerif.C17 (Bytes)

structure ProdRoute where
  basic : Option (List C11.Rule)      -- none: the product has no entry in BasicRule
  adv : Option (List ERule)           -- none: the product has no entry in ProductRule

/-- the content of host_rule.data, vip_rule.data and route_rule.data -/
structure Conf where
  entries : List C10.Entry                      -- host → (tag, product of the tag)
  dflt : String                                 -- DefaultProduct ("" = null)
  extraProducts : List String                   -- products listed in HostTags with an empty tag list
  vips : List (Option (List UInt8) × String)    -- configured address (none = text net.ParseIP rejects) → product
  routes : List (String × ProdRoute)
  broken : Bool                                 -- one of the files does not decode

def Conf.products (c : Conf) : List String := c.entries.map (·.route.product) ++ c.extraProducts

def nodupL {α} [BEq α] : List α → Bool
  | [] => true
  | x :: xs => !xs.contains x && nodupL xs

/-- `HostRuleConfLoad`: duplicate host names and an undeclared default product are rejected -/
def Conf.hostOk (c : Conf) : Bool :=
  nodupL (c.entries.map (·.host)) && (c.dflt == "" || c.products.contains c.dflt)

/-- `VipRuleConfLoad`: every address must parse -/
def Conf.vipOk (c : Conf) : Bool := c.vips.all (·.1.isSome)

/-- `RouteConfLoad`: `checkHostInBasicRule`, `checkPathInBasicRule`, duplicate paths (C11.loadOk); the structured
    conditions of the op always build -/
def Conf.routeOk (c : Conf) : Bool :=
  c.routes.all fun pr => match pr.2.basic with | none => true | some rules => C11.loadOk rules

/-- does `hostTableLoad` accept the three files? -/
def Conf.loadOk (c : Conf) : Bool := !c.broken && c.hostOk && c.vipOk && c.routeOk

/-- `ServerDataConf.check` (cluster_conf defines every cluster that is named): every product with route rules
    must be the product of some host tag -/
def Conf.checkOk (c : Conf) : Bool :=
  c.routes.all fun pr => (pr.2.basic.isNone && pr.2.adv.isNone) || (c.entries.map (·.route.product)).contains pr.1

def Conf.vipTable (c : Conf) : List (List UInt8 × String) := c.vips.filterMap fun (a, p) => a.map fun k => (k, p)

/-- the request as the three stages see it -/
structure Query where
  host : List Char
  vip : Option (List UInt8)
  path : Option (List Char)          -- none: HttpRequest.URL == nil
  req : C18.Req

/-- `none` = ErrNoProduct; `some (r, res)` = product found, `res` the outcome of LookupCluster -/
abbrev Routed := Option (C10.Route × Res)

def basicOf (pr : Option ProdRoute) (q : Query) : Basic :=
  match pr.bind (·.basic) with
  | none => none
  | some rules => some (C11.lookupBasic ((C11.expand rules).map C11.flat) q.host (q.path.getD []))

/-- `HostTable.Lookup` on the tables of `c` (outer `none`: a condition C18 does not model) -/
def fullLookup (lc : Char → Char) (o : C18.Orc) (c : Conf) (q : Query) : Option Routed :=
  match C10.lookupHostTagAndProduct lc c.entries c.vipTable c.dflt q.host q.vip with
  | none => some none
  | some r =>
    let pr := c.routes.lookup r.product
    (lookupClusterE o (basicOf pr q) (pr.bind (·.adv)) q.req).map fun res => some (r, res)

def specBasicOf (pr : Option ProdRoute) (q : Query) : Option String :=
  match pr.bind (·.basic) with
  | none => none
  | some rules => C11.specLookupBasic (C11.expand rules) q.host (q.path.getD [])

/-- the documented route: product by the host table / VIP / default chain, then the documented basic
    precedence of that product's rules, then its advanced rules in order -/
def fullSpec (lc : Char → Char) (o : C18.Orc) (c : Conf) (q : Query) : Option (C10.Route × Option String) :=
  match C10.specLookup lc c.entries c.vipTable c.dflt q.host q.vip with
  | none => none
  | some r =>
    let pr := c.routes.lookup r.product
    some (r, specLookupE o (specBasicOf pr q) ((pr.bind (·.adv)).getD []) q.req)

/-! ### reload histories -/

inductive Step where
  | reload (c : Conf)        -- hostTableLoad on the SAME ServerDataConf object
  | fresh (c : Conf)         -- LoadServerDataConf: a new object (incl. cross-file check); the old one stays held
  | query (held : Bool) (q : Query)

structure HState where
  cur : Option Conf := none       -- tables of the current object (none: nothing accepted yet)
  held : Option Conf := none      -- tables of the object replaced by the last accepted `fresh`

def step (s : HState) : Step → HState
  | .reload c => if c.loadOk then { s with cur := some c } else s
  | .fresh c => if c.loadOk && c.checkOk then { cur := some c, held := s.cur } else s
  | .query _ _ => s

def runSteps (s : HState) (steps : List Step) : HState := steps.foldl step s

def emptyConf : Conf := { entries := [], dflt := "", extraProducts := [], vips := [], routes := [], broken := false }

/-- answer of a query in a state (an object that never loaded anything has empty tables) -/
def answer (lc : Char → Char) (o : C18.Orc) (s : HState) (held : Bool) (q : Query) : Option Routed :=
  fullLookup lc o ((if held then s.held else s.cur).getD emptyConf) q

end BfeVerif.C12
