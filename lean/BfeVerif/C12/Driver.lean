import BfeVerif.Common.Proto
import BfeVerif.C12.Model
import BfeVerif.C12.Compose
import BfeVerif.C11.Driver
import BfeVerif.C12.HistDriver
/-!
  C12 driver.
  op   = `b=<basic rules|none>;a=<adv rules|none>;h=<host>;p=<path|nil>;m=<method>`
         adv rules = `<hex cond>!<cluster>` joined by `&` (empty string = empty list)
  impl = `bits=<0/1 per advanced rule|->;basic=<notree|miss|hit:<c>>;<ok|err:nomatch|err:noproductrule> cn=<ClusterName>`
         (`err:load` when the generated config was rejected by the loader: outside the property)
  The bits (real `Cond.Match`) and the basic answer (real `BasicRouteRuleTree.Get`) are read from the
  implementation's line; the model computes the third field from them.
-/
namespace BfeVerif.C12
open BfeVerif.Proto

def kv (fields : List String) (k : String) : Option String :=
  (fields.find? (fun f => f.startsWith (k ++ "="))).map (fun f => (f.drop (k.length + 1)).toString)

def renderRes : Res → String
  | .cluster c => "ok cn=" ++ c
  | .errNoMatchRule => "err:nomatch cn="
  | .errNoProductRule => "err:noproductrule cn="

def parseBasic (s : String) : Option Basic :=
  if s == "notree" then some none
  else if s == "miss" then some (some none)
  else if s.startsWith "hit:" then some (some (some (s.drop 4).toString))
  else none

def parseAdvClusters (s : String) : Option (List String) :=
  if s == "none" then none
  else if s == "" then some []
  else some ((s.splitOn "&").map fun r => match r.splitOn "!" with | [_, c] => c | _ => "?")

/-- C12 ∘ C11: ops carrying `k=1` take the basic table's answer from the C11 MODEL (radix-contract model of the
    tree built from the op's own basic rules) and judge the implementation against the C11 SPEC (documented
    precedence); the implementation's `basic=` field is then only compared, not used.
    result: (model basic, spec basic) or none when the op is not composed / the rules do not parse -/
def composedBasic (f : List String) : Option (Basic × Basic) :=
  if kv f "k" != some "1" then none else
  match kv f "b", kv f "h", kv f "p" with
  | some b, some h, some p =>
    if b == "none" then some (none, none)
    else match C11.parseRules b with
      | none => none
      | some rules =>
        let T := C11.expand rules
        let path := if p == "nil" then [] else p.toList
        some (some (C11.lookupBasic (T.map C11.flat) h.toList path), some (C11.specLookupBasic T h.toList path))
  | _, _, _ => none

def renderBasic : Basic → String
  | none => "notree"
  | some none => "miss"
  | some (some c) => "hit:" ++ c

def basicLoadOk (f : List String) : Bool :=
  match kv f "b" with
  | some b => if b == "none" then true else match C11.parseRules b with
    | some rules => C11.loadOk rules
    | none => false
  | none => false

/-- condition in prefix notation, tokens separated by blanks:
    `& c c` | `| c c` | `~ c` | `t` | `p,<prim>,<hex a0>,<hex a1>,<0|1>` -/
def parseCond : Nat → List String → Option (Cond × List String)
  | 0, _ => none
  | _ + 1, [] => none
  | n + 1, tok :: rest =>
    if tok == "t" then some (.tt, rest)
    else if tok == "~" then (parseCond n rest).map fun (c, r) => (.not c, r)
    else if tok == "&" || tok == "|" then
      match parseCond n rest with
      | some (a, r1) => match parseCond n r1 with
        | some (b, r2) => some (if tok == "&" then .and a b else .or a b, r2)
        | none => none
      | none => none
    else match tok.splitOn "," with
      | ["p", prim, a0, a1, f] =>
        match bytesOfHex a0, bytesOfHex a1 with
        | some x, some y => some (.prim prim x y (f == "1"), rest)
        | _, _ => none
      | _ => none

def parseERules (s : String) : Option (List ERule) :=
  if s == "" then some [] else
  (s.splitOn "@").mapM fun r =>
    match r.splitOn "!" with
    | [toks, c] =>
      let ts := (toks.splitOn " ").filter (· != "")
      match parseCond (ts.length + 1) ts with
      | some (cond, []) => some { cond := cond, cluster := c }
      | _ => none
    | _ => none

/-- end-to-end variant: condition values computed by the C18 model -/
def runE (f : List String) (cS : String) (impl : String) : Ans :=
  match parseERules cS, kv f "h", kv f "p", kv f "m", impl.splitOn ";" with
  | some es, some h, some p, some m, [bitsF, basicF, resF] =>
    match parseBasic (basicF.drop 6).toString with
    | none => { model := "bad-impl", verdict := "skip" }
    | some basicImpl =>
      let comp := composedBasic f
      let basic := match comp with | some (m, _) => m | none => basicImpl
      let basicSpec := match comp with | some (_, s) => s | none => basicImpl
      let req : C18.Req := { host := h.toUTF8.toList, path := p.toUTF8.toList, method := m.toUTF8.toList,
                             query := [], headers := [], cookies := [], tags := [], cip := none, vip := none }
      let o : C18.Orc :=
        { x := { regexOk := fun _ => true, parseIP := fun _ => none, parseTime := fun _ => none, sscanf6 := fun _ => none },
          reMatch := fun _ _ => false, bucket := fun _ => 0 }
      match bitsOf o req es with
      | none => { model := "cond-not-modelled", verdict := "FAIL:cond-not-modelled", tags := ["e2e"] }
      | some bs =>
        let bitsS := if bs.isEmpty then "-" else String.mk (bs.map fun b => if b.cond then '1' else '0')
        let r := lookupCluster basic (some bs)
        let spec := specLookupE o basicSpec.join es req
        let wf := wfB bs && (match basicSpec.join with | some c => c != "" | none => true)
        let implOpt : Option (Option String) :=
          if resF.startsWith "ok cn=" then some (some (resF.drop 6).toString)
          else if resF == "err:nomatch cn=" || resF == "err:noproductrule cn=" then some none
          else none
        let verdict :=
          if !wf then "skip"
          else if bitsF != "bits=" ++ bitsS then "FAIL:e2e-condition-value"
          else if comp.isSome && basicImpl != basicSpec then
            (if basicImpl == some none then "FAIL:basic-missed-documented-rule" else "FAIL:basic-wrong-rule")
          else match implOpt with
            | none => "FAIL:unparsable"
            | some io => if io == spec then "ok" else "FAIL:e2e-destination"
        let nprim := (cS.splitOn "p,").length - 1
        { model := "bits=" ++ bitsS ++ ";" ++ (if comp.isSome then "basic=" ++ renderBasic basic else basicF) ++ ";" ++ renderRes r
          verdict := verdict
          tags := ["e2e"] ++ (if comp.isSome then ["c11-composed", "fully-modelled"] else []) ++ (if nprim ≥ 2 then ["e2e-multi-prim"] else [])
                  ++ (if bs.any (·.cond) then ["e2e-match"] else ["e2e-nomatch"])
                  ++ (if bs.length ≥ 2 then ["nt"] else []) }
  | _, _, _, _, _ => { model := "bad-op", verdict := "skip" }

def run (op impl : String) : Ans :=
  if op.startsWith "hist;;" then runHist parseERules op impl else
  let f := op.splitOn ";"
  if impl == "err:load" then { model := "err:load", verdict := "skip", tags := ["load-error"] } else
  if kv f "k" == some "1" && !basicLoadOk f then
    { model := "err:load", verdict := "FAIL:loaded-invalid-basic-rules", tags := ["c11-composed"] } else
  if let some cS := kv f "c" then runE f cS impl else
  match kv f "a", impl.splitOn ";" with
  | some a, [bitsF, basicF, resF] =>
    let bitsS := (bitsF.drop 5).toString
    let basicS := (basicF.drop 6).toString
    match parseBasic basicS with
    | none => { model := "bad-impl", verdict := "skip" }
    | some basicImpl =>
      let comp := composedBasic f
      let basic := match comp with | some (m, _) => m | none => basicImpl
      let basicSpec := match comp with | some (_, s) => s | none => basicImpl
      let clusters := parseAdvClusters a
      let bits := if bitsS == "-" then [] else bitsS.toList.map (· == '1')
      let adv : Option (List Rule) := clusters.map fun cs => (bits.zip cs).map fun (b, c) => ⟨b, c⟩
      let okShape := match clusters with | none => bits.isEmpty | some cs => cs.length == bits.length
      if !okShape then { model := "bad-bits", verdict := "FAIL:bits-shape" } else
      let r := lookupCluster basic adv
      let rules := adv.getD []
      let spec := specLookup basicSpec.join rules
      let wf := wfB rules && (match basicSpec.join with | some c => c != "" | none => true)
      -- the oracle judges the implementation's own third field
      let implOpt : Option (Option String) :=
        if resF.startsWith "ok cn=" then some (some (resF.drop 6).toString)
        else if resF == "err:nomatch cn=" || resF == "err:noproductrule cn=" then some none
        else none
      let branch :=
        match basic with
        | none => "notree"
        | some none => "basic-miss"
        | some (some c) => if c == advancedMode then "adv-mode" else "basic-hit"
      let advTag :=
        match adv with
        | none => "adv-none"
        | some rs =>
          match rs.findIdx? (·.cond) with
          | none => if rs.isEmpty then "adv-empty" else "adv-nomatch"
          | some 0 => "adv-first"
          | some _ => "adv-later"
      let multi := (rules.filter (·.cond)).length ≥ 2
      let nt := (branch != "basic-hit" && rules.length ≥ 2) || (branch == "basic-hit" && rules.any (·.cond))
      let verdict :=
        if !wf then "skip"
        else if comp.isSome && basicImpl != basicSpec then
          (if basicImpl == some none then "FAIL:basic-missed-documented-rule" else "FAIL:basic-wrong-rule")
        else match implOpt with
          | none => "FAIL:unparsable"
          | some io =>
            if io == spec then "ok"
            else match spec, io with
              | some _, none => "FAIL:" ++ branch ++ "-not-routed"
              | none, some _ => "FAIL:" ++ branch ++ "-routed-without-rule"
              | _, _ => "FAIL:" ++ branch ++ "-wrong-cluster"
      { model := bitsF ++ ";" ++ (if comp.isSome then "basic=" ++ renderBasic basic else basicF) ++ ";" ++ renderRes r
        verdict := verdict
        tags := [branch, advTag] ++ (if comp.isSome then ["c11-composed"] else []) ++ (if multi then ["multi-match"] else []) ++ (if !wf then ["empty-cluster"] else [])
                ++ (if nt then ["nt"] else []) }
  | _, _ => { model := "bad-op", verdict := "skip" }

end BfeVerif.C12
