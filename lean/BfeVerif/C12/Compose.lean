import BfeVerif.C12.Model
import BfeVerif.C18.Model
/-!
  C12 ∘ C18 — end-to-end variant: the truth values of the advanced conditions are not taken from the
  implementation but computed by the C18 model (`C18.matchPrim`) for condition trees (`&&`, `||`, `!`,
  `default_t()`) over the primitives C18 models.  Core-only.  `o` is C18's oracle record for external
  functions (regexp, murmur3, ParseIP …); the primitives used by the harness do not consult it.
-/
namespace BfeVerif.C12
open BfeVerif.C17 (Bytes)

inductive Cond where
  | tt                                                        -- default_t()
  | prim (name : String) (a0 a1 : Bytes) (fold : Bool)        -- a primitive as built by buildPrimitive
  | not (c : Cond)
  | and (a b : Cond)
  | or (a b : Cond)

/-- `Cond.Match(req)`; `none` = the condition does not build / is not modelled by C18 -/
def eval (o : C18.Orc) (r : C18.Req) : Cond → Option Bool
  | .tt => some true
  | .prim n a0 a1 f => C18.matchPrim o n a0 a1 f r
  | .not c => (eval o r c).map (!·)
  | .and a b => match eval o r a, eval o r b with
    | some x, some y => some (x && y)
    | _, _ => none
  | .or a b => match eval o r a, eval o r b with
    | some x, some y => some (x || y)
    | _, _ => none

structure ERule where
  cond : Cond
  cluster : String

/-- the bit vector `LookupCluster` sees, computed by the C18 model -/
def bitsOf (o : C18.Orc) (r : C18.Req) : List ERule → Option (List Rule)
  | [] => some []
  | e :: es => match eval o r e.cond, bitsOf o r es with
    | some b, some bs => some (⟨b, e.cluster⟩ :: bs)
    | _, _ => none

/-- `LookupCluster` with modelled conditions -/
def lookupClusterE (o : C18.Orc) (basic : Basic) (adv : Option (List ERule)) (r : C18.Req) : Option Res :=
  match adv with
  | none => some (lookupCluster basic none)
  | some es => (bitsOf o r es).map fun bs => lookupCluster basic (some bs)

/-- documented destination, conditions evaluated on the request -/
def specLookupE (o : C18.Orc) (basic : Option String) (es : List ERule) (r : C18.Req) : Option String :=
  let adv := (es.find? fun e => eval o r e.cond == some true).map (·.cluster)
  match basic with
  | some c => if c = advancedMode then adv else some c
  | none => adv

end BfeVerif.C12
