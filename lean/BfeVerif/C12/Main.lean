import BfeVerif.C12.Driver
def main : IO Unit := BfeVerif.Proto.driverMain BfeVerif.C12.run
