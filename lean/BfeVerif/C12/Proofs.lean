import BfeVerif.C12.Model
namespace BfeVerif.C12

theorem firstMatch_eq_find (rules : List Rule) :
    firstMatch rules = ((rules.find? (fun r => r.cond)).map (fun r => r.cluster)).getD "" := by
  induction rules with
  | nil => rfl
  | cons r rs ih =>
    unfold firstMatch
    by_cases h : r.cond <;> simp [h, List.find?, ih]

theorem wfB_iff (rules : List Rule) : wfB rules = true ↔ WF rules := by
  unfold wfB WF
  simp [List.all_eq_true]

theorem advancedPart_spec (adv : Option (List Rule)) (hwf : WF (adv.getD [])) :
    (advancedPart adv).toOption = specAdvanced (adv.getD []) := by
  cases adv with
  | none => simp [advancedPart, Res.toOption, specAdvanced]
  | some rules =>
    simp only [advancedPart, Option.getD_some, specAdvanced]
    rw [firstMatch_eq_find]
    cases hf : rules.find? (fun r => r.cond) with
    | none => simp [Res.toOption]
    | some r =>
      have hm : r ∈ rules := List.mem_of_find?_eq_some hf
      have hne : r.cluster ≠ "" := hwf r (by simpa using hm)
      simp [Res.toOption, hne]

end BfeVerif.C12
