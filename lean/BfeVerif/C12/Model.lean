/-
  C12 — model of `HostTable.LookupCluster` (bfe_route/host_table.go).  Core-only.

    basicRules, ok := t.productBasicRouteTree[product]
    if ok { clusterName, found := basicRules.Get(host, path)        -- NB: `:=` shadows the outer clusterName
            if found && clusterName != AdvancedMode { req.Route.ClusterName = clusterName; return nil } }
    rules, ok := t.productAdvancedRouteTable[product]
    if !ok { ClusterName = ""; Error = ErrNoProductRule; return }
    for _, rule := range rules { if rule.Cond.Match(req) { clusterName = rule.ClusterName; break } }
    if clusterName == "" { ClusterName = ""; Error = ErrNoMatchRule; return }
    req.Route.ClusterName = clusterName; return nil

  The basic tree's answer and the truth value of every advanced condition on the request are inputs
  (the basic tree is C11's subject, conditions are C16–C18's); the harness obtains them from the real
  `BasicRouteRuleTree.Get` and the real `condition.Build(..).Match`.
-/
namespace BfeVerif.C12

def advancedMode : String := "ADVANCED_MODE"

/-- an advanced rule as `LookupCluster` sees it: the truth value of `rule.Cond.Match(req)` and the cluster -/
structure Rule where
  cond : Bool
  cluster : String
deriving Repr, DecidableEq

/-- answer of the basic table: `none` = the product has no basic tree, `some none` = `Get` says not found,
    `some (some c)` = found cluster `c` -/
abbrev Basic := Option (Option String)

inductive Res where
  | cluster (c : String)
  | errNoProductRule
  | errNoMatchRule
deriving Repr, DecidableEq

/-- the `for … { if Match { clusterName = rule.ClusterName; break } }` loop, starting from `""` -/
def firstMatch : List Rule → String
  | [] => ""
  | r :: rs => if r.cond then r.cluster else firstMatch rs

def advancedPart (adv : Option (List Rule)) : Res :=
  match adv with
  | none => .errNoProductRule
  | some rules =>
    let c := firstMatch rules
    if c == "" then .errNoMatchRule else .cluster c

def lookupCluster (basic : Basic) (adv : Option (List Rule)) : Res :=
  match basic with
  | some (some c) => if c != advancedMode then .cluster c else advancedPart adv
  | _ => advancedPart adv

/-- `req.Route.ClusterName` after the call -/
def Res.clusterName : Res → String
  | .cluster c => c
  | _ => ""

/-- is the request forwarded (LookupCluster returned nil)? -/
def Res.isOk : Res → Bool
  | .cluster _ => true
  | _ => false

/-! ### Specification (written from docs/zh_cn/introduction/route.md, "匹配顺序" and "高级规则表")

  * the basic table is consulted first; a hit that names a real cluster decides;
  * a miss, or a hit on `ADVANCED_MODE`, goes to the advanced table, which is searched *in order*;
    the first rule whose condition holds decides;
  * otherwise there is no destination.                                                            -/

/-- index-free statement of "first rule in configured order whose condition holds" -/
def specAdvanced (rules : List Rule) : Option String :=
  (rules.find? (fun r => r.cond)).map (fun r => r.cluster)

/-- `basic` = the basic table's hit (if any); `rules` = the product's advanced rules (`[]` if it has none) -/
def specLookup (basic : Option String) (rules : List Rule) : Option String :=
  match basic with
  | some c => if c = advancedMode then specAdvanced rules else some c
  | none => specAdvanced rules

def Res.toOption : Res → Option String
  | .cluster c => some c
  | _ => none

/-- well-formedness: cluster names are non-empty (C13: every rule's cluster exists in cluster_conf) -/
def WF (rules : List Rule) : Prop := ∀ r ∈ rules, r.cluster ≠ ""

def wfB (rules : List Rule) : Bool := rules.all (fun r => r.cluster != "")

end BfeVerif.C12
