import BfeVerif.C12.Proofs
import BfeVerif.C12.ComposeProofs
import BfeVerif.C11.Props
import BfeVerif.C12.FullProofs
/-!
  C12 — cluster lookup combines basic and advanced rules as documented.
  Property theorems only.
-/
namespace BfeVerif.C12

/-- Refinement: for every basic-table answer and every advanced table with non-empty cluster names,
    `LookupCluster`'s destination is exactly the documented one (basic hit on a real cluster, else the
    first advanced rule in order whose condition holds, else none). -/
theorem C12_refines (basic : Basic) (adv : Option (List Rule)) (hwf : WF (adv.getD [])) :
    (lookupCluster basic adv).toOption = specLookup basic.join (adv.getD []) := by
  unfold lookupCluster specLookup
  rcases basic with _ | _ | c
  · simpa using advancedPart_spec adv hwf
  · simpa using advancedPart_spec adv hwf
  · by_cases h : c = advancedMode
    · simpa [h] using advancedPart_spec adv hwf
    · simp [h, Res.toOption]

/-- A basic hit naming a real cluster decides, whatever the advanced table contains. -/
theorem C12_basic_wins (c : String) (adv : Option (List Rule)) (h : c ≠ advancedMode) :
    lookupCluster (some (some c)) adv = .cluster c := by
  simp [lookupCluster, h]

/-- `ADVANCED_MODE`, a basic miss and a product without basic tree all hand over to the advanced table. -/
theorem C12_adv_mode_falls_through (adv : Option (List Rule)) :
    lookupCluster (some (some advancedMode)) adv = advancedPart adv ∧
    lookupCluster (some none) adv = advancedPart adv ∧
    lookupCluster none adv = advancedPart adv := by
  simp [lookupCluster]

/-- The advanced answer is the cluster of the index-minimal satisfied rule. -/
theorem C12_first_match (rules : List Rule) (c : String) (hwf : WF rules)
    (h : advancedPart (some rules) = .cluster c) :
    ∃ i, ∃ hi : i < rules.length, rules[i].cond = true ∧ rules[i].cluster = c ∧
      ∀ j, ∀ hj : j < rules.length, j < i → rules[j].cond = false := by
  have hs := advancedPart_spec (some rules) (by simpa using hwf)
  rw [h] at hs
  simp only [Res.toOption, Option.getD_some, specAdvanced] at hs
  cases hf : rules.find? (fun r => r.cond) with
  | none => simp [hf] at hs
  | some r =>
    rw [hf] at hs
    simp only [Option.map_some, Option.some.injEq] at hs
    obtain ⟨hc, i, hi, hri, hlt⟩ := List.find?_eq_some_iff_getElem.mp hf
    refine ⟨i, hi, by simpa [hri] using hc, by simpa [hri] using hs.symm, ?_⟩
    intro j hj hji
    have := hlt j hji
    simpa using this

/-- If no advanced condition holds (or the product has no advanced table) and the basic table does not
    decide, the request gets an error and `ClusterName` is empty: it is not forwarded. -/
theorem C12_no_match_error (basic : Basic) (adv : Option (List Rule))
    (hb : basic.join = none ∨ basic.join = some advancedMode)
    (hn : ∀ r ∈ adv.getD [], r.cond = false) :
    (lookupCluster basic adv).isOk = false ∧ (lookupCluster basic adv).clusterName = "" ∧
    (lookupCluster basic adv = .errNoMatchRule ∨ lookupCluster basic adv = .errNoProductRule) := by
  have hadv : advancedPart adv = .errNoMatchRule ∨ advancedPart adv = .errNoProductRule := by
    cases adv with
    | none => simp [advancedPart]
    | some rules =>
      left
      have : rules.find? (fun r => r.cond) = none := by
        simp only [List.find?_eq_none]
        intro r hr; simpa using hn r (by simpa using hr)
      simp [advancedPart, firstMatch_eq_find, this]
  have hl : lookupCluster basic adv = advancedPart adv := by
    rcases basic with _ | _ | c
    · rfl
    · rfl
    · rcases hb with hb | hb
      · simp at hb
      · simp only [Option.join_some, Option.some.injEq] at hb
        simp [lookupCluster, hb]
  rw [hl]
  rcases hadv with h | h <;> simp [h, Res.isOk, Res.clusterName]

/-- Every error leaves `ClusterName` empty (nothing to forward to). -/
theorem C12_error_not_forwarded (basic : Basic) (adv : Option (List Rule))
    (h : (lookupCluster basic adv).isOk = false) : (lookupCluster basic adv).clusterName = "" := by
  cases hr : lookupCluster basic adv <;> simp_all [Res.isOk, Res.clusterName]

/-- The hypothesis `WF` of `C12_refines` is needed: the code turns a *matching* rule whose cluster name
    is the empty string into `ErrNoMatchRule` (and does not look at later rules). -/
theorem C12_witness_empty_cluster :
    ¬ ∀ (basic : Basic) (adv : Option (List Rule)),
        (lookupCluster basic adv).toOption = specLookup basic.join (adv.getD []) := by
  intro h
  have := h none (some [⟨true, ""⟩, ⟨true, "c"⟩])
  revert this; decide

/-- C12 ∘ C18 (end to end): when the advanced conditions are trees over primitives the C18 model covers
    (every condition evaluates), `LookupCluster` with the MODELLED condition values sends the request to the
    basic hit naming a real cluster, else to the first rule in order whose condition holds on the request,
    else nowhere. -/
theorem C12_compose_C18 (o : C18.Orc) (basic : Basic) (es : List ERule) (r : C18.Req)
    (hev : ∀ e ∈ es, (eval o r e.cond).isSome = true) (hwf : ∀ e ∈ es, e.cluster ≠ "") :
    ∃ res, lookupClusterE o basic (some es) r = some res ∧ res.toOption = specLookupE o basic.join es r := by
  obtain ⟨bs, hb, _, hf, hm⟩ := bitsOf_some o r es hev
  refine ⟨lookupCluster basic (some bs), by simp [lookupClusterE, hb], ?_⟩
  have hwfb : WF ((some bs).getD []) := by
    intro b hbm
    obtain ⟨e, he, hc⟩ := hm b (by simpa using hbm)
    rw [hc]; exact hwf e he
  rw [C12_refines basic (some bs) hwfb]
  simp only [specLookup, specLookupE, specAdvanced, Option.getD_some, hf]
  cases Option.join basic <;> rfl

/-- … and for condition trees over the primitives whose C18 model is proved equal to the documentation
    (C18's list `unconditional`: path, method, cookie, query-key, tag, IP-range … primitives), "holds" is the DOCUMENTED meaning of the condition. -/
theorem C12_compose_documented (o : C18.Orc) (r : C18.Req) (c : Cond) (h : c.overProved) : eval o r c = evalSpec o r c :=
  eval_eq_evalSpec o r c h

/-- C12 ∘ C11 (end to end on the basic side): for every basic rule file the loader accepts and every request host
    and path, `LookupCluster` fed with the answer of the basic TREE (C11's radix-contract model, port stripped
    first) sends the request to the rule the DOCUMENTED basic precedence selects (`C11.specLookupBasic`: host class
    exact > one-label wildcard > any, no fallback; exact path > longest prefix) when that names a real cluster,
    else to the first advanced rule in order whose condition holds, else nowhere. -/
theorem C12_compose_C11 (rules : List C11.Rule) (hok : C11.loadOk rules = true) (host path : List Char)
    (adv : Option (List Rule)) (hwf : WF (adv.getD [])) :
    (lookupCluster (some (C11.lookupBasic ((C11.expand rules).map C11.flat) host path)) adv).toOption =
      specLookup (C11.specLookupBasic (C11.expand rules) host path) (adv.getD []) := by
  rw [C12_refines _ adv hwf, C11.C11_lookup_refines rules hok host path]
  rfl

/-- C12 ∘ C11 ∘ C18: nothing taken from the implementation — basic answer from the C11 model, condition values
    from the C18 model. -/
theorem C12_compose_C11_C18 (o : C18.Orc) (rules : List C11.Rule) (hok : C11.loadOk rules = true)
    (host path : List Char) (es : List ERule) (r : C18.Req)
    (hev : ∀ e ∈ es, (eval o r e.cond).isSome = true) (hwf : ∀ e ∈ es, e.cluster ≠ "") :
    ∃ res, lookupClusterE o (some (C11.lookupBasic ((C11.expand rules).map C11.flat) host path)) (some es) r = some res ∧
      res.toOption = specLookupE o (C11.specLookupBasic (C11.expand rules) host path) es r := by
  obtain ⟨res, h1, h2⟩ := C12_compose_C18 o (some (C11.lookupBasic ((C11.expand rules).map C11.flat) host path)) es r hev hwf
  refine ⟨res, h1, ?_⟩
  rw [h2, C11.C11_lookup_refines rules hok host path]
  rfl

/-- The whole route through one loaded configuration (`HostTable.Lookup`): for a well-formed host table, a request
    host that is not a bracketed IPv6 literal, loader-accepted basic rules and advanced conditions C18 models,
    the product is the documented one (host table > VIP > default) and the cluster is the documented one for THAT
    product's tables (documented basic precedence, else first matching advanced rule, else none). -/
theorem C12_full_lookup (lc : Char → Char) (o : C18.Orc) (c : Conf) (q : Query)
    (hwf : C10.WF lc c.entries) (hb : (C10.lower lc q.host).head? ≠ some '[')
    (hbasic : ∀ p pr rules, c.routes.lookup p = some pr → pr.basic = some rules → C11.loadOk rules = true)
    (hadv : ∀ p pr es, c.routes.lookup p = some pr → pr.adv = some es →
      (∀ e ∈ es, (eval o q.req e.cond).isSome = true) ∧ (∀ e ∈ es, e.cluster ≠ "")) :
    ∃ res, fullLookup lc o c q = some res ∧
      res.map (fun x => (x.1, x.2.toOption)) = fullSpec lc o c q := by
  unfold fullLookup fullSpec
  rw [C10.C10_chain_partial lc c.entries c.vipTable c.dflt q.host q.vip hwf hb]
  cases C10.specLookup lc c.entries c.vipTable c.dflt q.host q.vip with
  | none => exact ⟨none, rfl, rfl⟩
  | some r =>
    dsimp only
    -- the basic stage of this product
    have hbas : (basicOf (c.routes.lookup r.product) q).join = specBasicOf (c.routes.lookup r.product) q := by
      unfold basicOf specBasicOf
      cases hpr : c.routes.lookup r.product with
      | none => rfl
      | some pr =>
        cases hbs : pr.basic with
        | none => simp [hbs]
        | some rules =>
          simp only [Option.bind_some, hbs, Option.join_some]
          exact C11.C11_lookup_refines rules (hbasic _ _ _ hpr hbs) q.host (q.path.getD [])
    rw [← hbas]
    cases hadvo : (c.routes.lookup r.product).bind (·.adv) with
    | none =>
      refine ⟨some (r, lookupCluster (basicOf (c.routes.lookup r.product) q) none), by simp [lookupClusterE], ?_⟩
      simp only [Option.map_some, Option.getD_none, specLookupE_nil]
      rw [C12_refines _ none (by intro x hx; simp at hx)]
      rfl
    | some es =>
      obtain ⟨pr, hpr, hes⟩ : ∃ pr, c.routes.lookup r.product = some pr ∧ pr.adv = some es := by
        cases hpr : c.routes.lookup r.product with
        | none => simp [hpr] at hadvo
        | some pr => exact ⟨pr, rfl, by simpa [hpr] using hadvo⟩
      obtain ⟨hev, hne⟩ := hadv _ _ _ hpr hes
      obtain ⟨res, h1, h2⟩ := C12_compose_C18 o (basicOf (c.routes.lookup r.product) q) es q.req hev hne
      refine ⟨some (r, res), by simp [h1], ?_⟩
      simp only [Option.map_some, Option.getD_some, h2]

/-- Reload histories: after ANY sequence of reloads (same object), fresh loads (new object) and queries, the
    current tables are those of the LAST ACCEPTED configuration — a rejected reload (undecodable file, loader
    error, failed cross-file check) changes nothing, a query changes nothing, nothing of earlier configurations
    survives an accepted one. -/
theorem C12_history_last_accepted (s : HState) (steps : List Step) :
    (runSteps s steps).cur =
      match (steps.filterMap accepts).getLast? with
      | some c => some c
      | none => s.cur := runSteps_cur s steps

/-- A rejected step leaves the whole state (current and held tables) untouched. -/
theorem C12_rejected_reload_changes_nothing (s : HState) (st : Step) (h : accepts st = none) : step s st = s :=
  step_rejected s st h

/-- The object replaced by an accepted fresh load keeps ITS tables: a request still holding it is answered from
    the old configuration, whatever is loaded into the new object afterwards by reloads. -/
theorem C12_held_tables_stable (s : HState) (c : Conf) (h : (c.loadOk && c.checkOk) = true) (later : List Conf) :
    (runSteps (step s (.fresh c)) (later.map Step.reload)).held = s.cur := by
  have h0 : (step s (.fresh c)).held = s.cur := by simp [step, h]
  generalize step s (.fresh c) = s1 at h0
  induction later generalizing s1 with
  | nil => exact h0
  | cons c' rest ih =>
    simp only [List.map_cons, runSteps, List.foldl_cons]
    apply ih
    simp only [step]
    split <;> exact h0

/-! non-vacuity: the documented example of route.md (www.c.com → ADVANCED_MODE → Demo-D1 / Demo-D / Demo-E) -/
example : WF [⟨false, "Demo-D1"⟩, ⟨true, "Demo-D"⟩, ⟨true, "Demo-E"⟩] := (wfB_iff _).mp (by decide)
example : lookupCluster (some (some advancedMode)) (some [⟨false, "Demo-D1"⟩, ⟨true, "Demo-D"⟩, ⟨true, "Demo-E"⟩])
    = .cluster "Demo-D" := by decide
example : lookupCluster (some (some "Demo-A")) (some [⟨true, "Demo-E"⟩]) = .cluster "Demo-A" := by decide
example : lookupCluster (some none) (some [⟨false, "x"⟩]) = .errNoMatchRule := by decide
example : lookupCluster none none = .errNoProductRule := by decide

/-- end-to-end example: `req_path_prefix_in("/a", false) -> A ; default_t() -> E` behind an ADVANCED_MODE basic hit -/
def exRules : List ERule :=
  [⟨.prim "req_path_prefix_in" [47, 97] [] false, "A"⟩, ⟨.tt, "E"⟩]
def exOrc : C18.Orc :=
  { x := { regexOk := fun _ => true, parseIP := fun _ => none, parseTime := fun _ => none, sscanf6 := fun _ => none },
    reMatch := fun _ _ => false, bucket := fun _ => 0 }
def exReq (p : List UInt8) : C18.Req :=
  { host := [], path := p, method := [71, 69, 84], query := [], headers := [], cookies := [],
    tags := [], cip := none, vip := none }
example : lookupClusterE exOrc (some (some advancedMode)) (some exRules) (exReq [47, 97, 47, 98]) = some (.cluster "A") := by decide
example : lookupClusterE exOrc (some (some advancedMode)) (some exRules) (exReq [47, 98]) = some (.cluster "E") := by decide
example : ∀ e ∈ exRules, (eval exOrc (exReq [47, 98]) e.cond).isSome = true := by decide

/-- the shape of seeded change C12-b: `*` and `*.foo.com` in one product, request two labels below foo.com —
    the documented precedence (and the tree model) give the any-host rule, not a miss -/
def starRules : List C11.Rule :=
  [⟨["*".toList], ["*".toList], "ANY"⟩, ⟨["*.foo.com".toList], ["*".toList], "FOO"⟩]
example : C11.loadOk starRules = true := by decide
example : lookupCluster (some (C11.lookupBasic ((C11.expand starRules).map C11.flat) "a.img.foo.com:80".toList "/".toList))
    (some [⟨true, "ADV"⟩]) = .cluster "ANY" := by decide
example : lookupCluster (some (C11.lookupBasic ((C11.expand starRules).map C11.flat) "img.foo.com".toList "/".toList))
    (some [⟨true, "ADV"⟩]) = .cluster "FOO" := by decide

end BfeVerif.C12
