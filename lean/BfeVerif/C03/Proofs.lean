import BfeVerif.C03.Model
import BfeVerif.C02.Props
import BfeVerif.C04.Props
/-! C03 helper lemmas -/
namespace BfeVerif.C03
open BfeVerif

theorem elig_toB (b : Be) : C04.elig b.toB = elig b := rfl

theorem walk_mem {α : Type} (cs : List (α × Int)) (v : Int) (k : α) (h : C02.walk cs v = some k) :
    ∃ w, (k, w) ∈ cs := by
  induction cs generalizing v with
  | nil => simp [C02.walk] at h
  | cons p cs ih =>
    obtain ⟨k0, w0⟩ := p
    unfold C02.walk at h
    split at h
    · simp at h; subst h; exact ⟨w0, by simp⟩
    · obtain ⟨w, hw⟩ := ih _ h
      exact ⟨w, by simp [hw]⟩

theorem getElem?_map_toB (bs : List Be) (j : Nat) (b' : C04.B) (h : (bs.map Be.toB)[j]? = some b') :
    ∃ b, bs[j]? = some b ∧ b.toB = b' := by
  rw [List.getElem?_map] at h
  cases hb : bs[j]? with
  | none => simp [hb] at h
  | some b => simp [hb] at h; exact ⟨b, rfl, h⟩

/-- whatever algorithm: a backend handed out by `SubCluster.balance` is in the list, available, weight > 0 -/
theorem subPick_some (a : Algo) (bs : List Be) (h : Nat) (b : Be) (hp : (subPick a bs h).1 = some b) :
    b ∈ bs ∧ elig b = true := by
  unfold subPick at hp
  split at hp
  · simp at hp
  · cases a with
    | smooth =>
      simp only [] at hp
      obtain ⟨j, hj, hb⟩ := Option.bind_eq_some_iff.mp hp
      obtain ⟨b', hb', _, he⟩ := C04.smooth_some _ _ _ hj
      obtain ⟨b0, hb0, rfl⟩ := getElem?_map_toB _ _ _ hb'
      rw [hb] at hb0; simp at hb0; subst hb0
      exact ⟨List.mem_of_getElem? hb, he⟩
    | wlc =>
      simp only [] at hp
      obtain ⟨j, hj, hb⟩ := Option.bind_eq_some_iff.mp hp
      obtain ⟨b', hb', he, _⟩ := C04.C04_choice _ _ _ _ hj
      obtain ⟨b0, hb0, rfl⟩ := getElem?_map_toB _ _ _ hb'
      rw [hb] at hb0; simp at hb0; subst hb0
      exact ⟨List.mem_of_getElem? hb, he⟩
    | sticky =>
      simp only [] at hp
      unfold stickyBe at hp
      simp only [] at hp
      split at hp
      · simp at hp
      · obtain ⟨w, hw⟩ := walk_mem _ _ _ hp
        simp only [List.mem_map, List.mem_filter, Prod.mk.injEq] at hw
        obtain ⟨b0, ⟨hm, he⟩, rfl, _⟩ := hw
        exact ⟨(C02.isort_perm _ bs).mem_iff.mp hm, he⟩

/-- whatever algorithm: `SubCluster.balance` fails only if no backend is available with weight > 0 -/
theorem subPick_none (a : Algo) (bs : List Be) (h : Nat) (hp : (subPick a bs h).1 = none) :
    ∀ b ∈ bs, elig b = false := by
  intro b hb
  obtain ⟨i, hi, rfl⟩ := List.mem_iff_getElem.mp hb
  have hbi : bs[i]? = some bs[i] := by simp [hi]
  have hmi : (bs.map Be.toB)[i]? = some bs[i].toB := by simp [hi]
  unfold subPick at hp
  split at hp
  · rename_i he; simp at he; subst he; simp at hi
  · cases a with
    | smooth =>
      simp only [] at hp
      cases hr : (C04.smooth (bs.map Be.toB) fun _ => true).1 with
      | none =>
        have := C04.smooth_none _ _ hr i _ hmi
        simp only [true_and, elig_toB] at this
        simpa using this
      | some j =>
        rw [hr] at hp
        obtain ⟨b', hb', _, _⟩ := C04.smooth_some _ _ _ hr
        obtain ⟨b0, hb0, _⟩ := getElem?_map_toB _ _ _ hb'
        simp [hb0] at hp
    | wlc =>
      simp only [] at hp
      cases hr : (C04.wlc .smoothTie (bs.map Be.toB) 0).1 with
      | none =>
        have := (C04.C04_wlc_error_iff _ _ _).mp hr bs[i].toB (List.mem_of_getElem? hmi)
        rw [elig_toB] at this; exact this
      | some j =>
        rw [hr] at hp
        obtain ⟨b', hb', _, _⟩ := C04.C04_choice _ _ _ _ hr
        obtain ⟨b0, hb0, _⟩ := getElem?_map_toB _ _ _ hb'
        simp [hb0] at hp
    | sticky =>
      simp only [] at hp
      unfold stickyBe at hp
      simp only [] at hp
      split at hp
      · rename_i hemp
        simp only [List.isEmpty_iff, List.map_eq_nil_iff] at hemp
        have hm : bs[i] ∈ C02.isort (·.addr) bs := (C02.isort_perm _ bs).mem_iff.mpr (List.getElem_mem hi)
        by_cases he : elig bs[i] = true
        · have : bs[i] ∈ (C02.isort (·.addr) bs).filter elig := List.mem_filter.mpr ⟨hm, he⟩
          rw [hemp] at this; simp at this
        · simpa using he
      · rename_i hne
        exfalso
        generalize hcs : ((C02.isort (·.addr) bs).filter elig).map (fun b => (b, b.w)) = cs at hp hne
        have hpos : ∀ p ∈ cs, 0 < p.2 := by
          intro p hp'
          rw [← hcs] at hp'
          simp only [List.mem_map, List.mem_filter] at hp'
          obtain ⟨b0, ⟨_, he⟩, rfl⟩ := hp'
          unfold elig at he; simp at he; exact he.2
        have hne' : cs ≠ [] := by simpa using hne
        have hW := C02.sumW_pos cs hpos hne'
        obtain ⟨k, hk⟩ := C02.C02_total cs (C02.getHash h (C02.sumW cs))
          (Int.emod_nonneg _ (by omega)) (Int.emod_lt_of_pos _ hW)
        rw [hk] at hp; simp at hp

theorem hasElig_false_iff (a : Algo) (s : SubSt) : hasElig a s = false ↔ ∀ b ∈ effBs a s, elig b = false := by
  unfold hasElig; simp

theorem mem_findSub (c : Cl) (name : String) (s : SubSt) (h : findSub c name = some s) : s ∈ c.subs :=
  List.mem_of_find?_eq_some h

theorem firstChoice_mem (c : Cl) (h : Nat) (s : SubSt) (hf : firstChoice c h = some s) : s ∈ c.subs := by
  unfold firstChoice at hf
  obtain ⟨x, _, hx⟩ := Option.bind_eq_some_iff.mp hf
  exact mem_findSub c _ s hx

theorem rse_mem (c : Cl) (cur o : SubSt) (n : Nat) (h : randomSelectExclude c cur n = some o) :
    o ∈ c.subs ∧ o.name ≠ cur.name ∧ 0 ≤ o.w ∧ o.name ≠ blackholeName := by
  unfold randomSelectExclude at h
  simp only [] at h
  split at h
  · simp at h
  · have := List.mem_of_getElem? h
    unfold others at this
    simp only [List.mem_filter, Bool.and_eq_true, bne_iff_ne, ne_eq, decide_eq_true_eq] at this
    exact ⟨this.1, this.2.1.1, this.2.1.2, this.2.2⟩

theorem eq_of_nodup_map {α β : Type} (f : α → β) : ∀ (l : List α), (l.map f).Nodup →
    ∀ x ∈ l, ∀ y ∈ l, f x = f y → x = y := by
  intro l
  induction l with
  | nil => intro _ x hx; simp at hx
  | cons a t ih =>
    intro hnd x hx y hy hxy
    rw [List.map_cons] at hnd
    obtain ⟨hna, hnt⟩ := List.nodup_cons.mp hnd
    rcases List.mem_cons.mp hx with rfl | hx' <;> rcases List.mem_cons.mp hy with rfl | hy'
    · rfl
    · exact absurd (List.mem_map.mpr ⟨y, hy', hxy.symm⟩) hna
    · exact absurd (List.mem_map.mpr ⟨x, hx', hxy⟩) hna
    · exact ih hnt x hx' y hy' hxy

def resOk : Res → Bool
  | .ok _ _ => true
  | .err _ _ => false

theorem subPick_isSome (a : Algo) (s : SubSt) (h : Nat) :
    (∃ b, (subPick a (effBs a s) h).1 = some b) ↔ hasElig a s = true := by
  constructor
  · rintro ⟨b, hb⟩
    obtain ⟨hm, he⟩ := subPick_some a (effBs a s) h b hb
    unfold hasElig; exact List.any_eq_true.mpr ⟨b, hm, he⟩
  · intro he
    cases hp : (subPick a (effBs a s) h).1 with
    | some b => exact ⟨b, rfl⟩
    | none =>
      have := (hasElig_false_iff a s).mpr (subPick_none a (effBs a s) h hp)
      rw [this] at he; exact absurd he (by decide)

theorem crossPart_ok_iff (c c1 : Cl) (cur : SubSt) (r : Int) (h n : Nat) :
    resOk (crossPart c c1 cur r h n).1 = true ↔
      (0 < c.crossRetry ∧ ∃ o, randomSelectExclude c cur n = some o ∧ hasElig c.algo o = true) := by
  unfold crossPart
  by_cases hc : c.crossRetry ≤ 0
  · simp only [hc, if_true, resOk]
    constructor
    · intro h'; exact absurd h' (by decide)
    · intro ⟨h', _⟩; omega
  · simp only [hc, if_false]
    cases ho : randomSelectExclude c cur n with
    | none => simp [resOk]
    | some o =>
      simp only []
      split
      · rename_i b bs' hp
        have : hasElig c.algo o = true := (subPick_isSome c.algo o h).mp ⟨b, by rw [hp]⟩
        simp [resOk, this]; omega
      · rename_i bs' hp
        have : hasElig c.algo o = false := (hasElig_false_iff c.algo o).mpr (subPick_none c.algo (effBs c.algo o) h (by rw [hp]))
        simp [resOk, this]

theorem crossPart_ok (c c1 : Cl) (cur : SubSt) (r : Int) (h n : Nat) (sub : String) (b : Be)
    (hres : (crossPart c c1 cur r h n).1 = .ok sub b) :
    ∃ o, randomSelectExclude c cur n = some o ∧ o.name = sub ∧ (subPick c.algo (effBs c.algo o) h).1 = some b := by
  unfold crossPart at hres
  split at hres
  · simp at hres
  · split at hres
    · simp at hres
    · rename_i o ho
      split at hres
      · rename_i b' bs' hp
        simp at hres
        exact ⟨o, ho, hres.1, by rw [hp, ← hres.2]⟩
      · simp at hres

/-! ### Reload -/

def confSubs (conf : GConf) : List C02.Sub := conf.map fun p => { name := p.1, w := p.2 }

def NamesNodup (c : Cl) : Prop := (c.subs.map (·.name)).Nodup

theorem find?_of_nodup_keys (conf : GConf) (hnd : (conf.map (·.1)).Nodup) (p : String × Int) (hp : p ∈ conf) :
    conf.find? (·.1 == p.1) = some p := by
  induction conf with
  | nil => simp at hp
  | cons q t ih =>
    rw [List.map_cons] at hnd
    obtain ⟨hq, ht⟩ := List.nodup_cons.mp hnd
    rcases List.mem_cons.mp hp with rfl | hp'
    · simp
    · have hne : q.1 ≠ p.1 := fun h => hq (h ▸ List.mem_map.mpr ⟨p, hp', rfl⟩)
      rw [List.find?_cons]
      have : (q.1 == p.1) = false := by simpa using hne
      simp only [this]
      exact ih ht hp'

theorem lookupW_some_iff (conf : GConf) (hnd : (conf.map (·.1)).Nodup) (n : String) (w : Int) :
    lookupW conf n = some w ↔ (n, w) ∈ conf := by
  unfold lookupW
  constructor
  · intro h
    obtain ⟨p, hp, hw⟩ := Option.map_eq_some_iff.mp h
    have hm := List.mem_of_find?_eq_some hp
    have hk := List.find?_some hp
    have : p = (n, w) := by
      obtain ⟨a, b⟩ := p
      simp at hk hw; subst hk; subst hw; rfl
    rw [← this]; exact hm
  · intro h
    have := find?_of_nodup_keys conf hnd (n, w) h
    simp only [] at this
    rw [this]; rfl

theorem mem_kept (subs : List SubSt) (conf : GConf) (x : SubSt) :
    x ∈ kept subs conf ↔ ∃ s ∈ subs, ∃ w, lookupW conf s.name = some w ∧ x = { s with w := w } := by
  unfold kept
  rw [List.mem_filterMap]
  constructor
  · rintro ⟨s, hs, h⟩
    obtain ⟨w, hw, rfl⟩ := Option.map_eq_some_iff.mp h
    exact ⟨s, hs, w, hw, rfl⟩
  · rintro ⟨s, hs, w, hw, rfl⟩
    exact ⟨s, hs, by simp [hw]⟩

theorem mem_added (subs : List SubSt) (conf : GConf) (x : SubSt) :
    x ∈ added subs conf ↔ ∃ p ∈ conf, (∀ s ∈ subs, s.name ≠ p.1) ∧ x = { name := p.1, w := p.2, bs := [] } := by
  unfold added
  simp only [List.mem_map, List.mem_filter, Bool.not_eq_true', List.any_eq_false, beq_iff_eq]
  constructor
  · rintro ⟨p, ⟨hp, hn⟩, rfl⟩
    exact ⟨p, hp, fun s hs => by simpa using hn s hs, rfl⟩
  · rintro ⟨p, hp, hn, rfl⟩
    exact ⟨p, ⟨hp, fun s hs => by simpa using hn s hs⟩, rfl⟩

theorem kept_names_nodup (subs : List SubSt) (conf : GConf) (h : (subs.map (·.name)).Nodup) :
    ((kept subs conf).map (·.name)).Nodup := by
  induction subs with
  | nil => simp [kept]
  | cons s t ih =>
    rw [List.map_cons] at h
    obtain ⟨hs, ht⟩ := List.nodup_cons.mp h
    have hk : kept (s :: t) conf = (match lookupW conf s.name with
        | some w => [{ s with w := w }] | none => []) ++ kept t conf := by
      unfold kept
      rw [List.filterMap_cons]
      cases lookupW conf s.name <;> simp
    rw [hk]
    cases hl : lookupW conf s.name with
    | none => simpa using ih ht
    | some w =>
      simp only [List.singleton_append, List.map_cons]
      refine List.nodup_cons.mpr ⟨?_, ih ht⟩
      intro hm
      obtain ⟨x, hx, hxn⟩ := List.mem_map.mp hm
      obtain ⟨s', hs', w', _, rfl⟩ := (mem_kept t conf x).mp hx
      exact hs (List.mem_map.mpr ⟨s', hs', by simpa using hxn⟩)

theorem reload_list_names_nodup (subs : List SubSt) (conf : GConf)
    (hs : (subs.map (·.name)).Nodup) (hnd : (conf.map (·.1)).Nodup) :
    ((kept subs conf ++ added subs conf).map (·.name)).Nodup := by
  rw [List.map_append]
  refine List.nodup_append.mpr ⟨kept_names_nodup subs conf hs, ?_, ?_⟩
  · -- added: a filtered sub-list of the conf keys
    unfold added
    rw [List.map_map]
    have : ((fun s : SubSt => s.name) ∘ fun p : String × Int => ({ name := p.1, w := p.2, bs := [] } : SubSt)) = (·.1) := rfl
    rw [this]
    exact List.Nodup.sublist (List.Sublist.map _ List.filter_sublist) hnd
  · intro a ha b hb hab
    obtain ⟨x, hx, rfl⟩ := List.mem_map.mp ha
    obtain ⟨y, hy, rfl⟩ := List.mem_map.mp hb
    obtain ⟨s, hs', w, _, rfl⟩ := (mem_kept subs conf x).mp hx
    obtain ⟨p, _, hn, rfl⟩ := (mem_added subs conf y).mp hy
    exact hn s hs' hab

theorem mem_toSubs_reload (subs : List SubSt) (conf : GConf) (hnd : (conf.map (·.1)).Nodup) (x : C02.Sub) :
    x ∈ toSubs (kept subs conf ++ added subs conf) ↔ x ∈ confSubs conf := by
  unfold toSubs confSubs
  simp only [List.mem_map, List.mem_append]
  constructor
  · rintro ⟨y, hy | hy, rfl⟩
    · obtain ⟨s, _, w, hw, rfl⟩ := (mem_kept subs conf y).mp hy
      exact ⟨(s.name, w), (lookupW_some_iff conf hnd _ _).mp hw, rfl⟩
    · obtain ⟨p, hp, _, rfl⟩ := (mem_added subs conf y).mp hy
      exact ⟨p, hp, rfl⟩
  · rintro ⟨p, hp, rfl⟩
    by_cases hex : ∃ s ∈ subs, s.name = p.1
    · obtain ⟨s, hs, hn⟩ := hex
      refine ⟨{ s with w := p.2 }, Or.inl ((mem_kept subs conf _).mpr ⟨s, hs, p.2, ?_, rfl⟩), by simp [hn]⟩
      rw [hn]; exact (lookupW_some_iff conf hnd _ _).mpr hp
    · refine ⟨{ name := p.1, w := p.2, bs := [] }, Or.inr ((mem_added subs conf _).mpr ⟨p, hp, ?_, rfl⟩), rfl⟩
      intro s hs hn; exact hex ⟨s, hs, hn⟩

theorem nodup_of_nodup_map {α β : Type} (f : α → β) (l : List α) (h : (l.map f).Nodup) : l.Nodup := by
  induction l with
  | nil => simp
  | cons a t ih =>
    rw [List.map_cons] at h
    obtain ⟨ha, ht⟩ := List.nodup_cons.mp h
    exact List.nodup_cons.mpr ⟨fun hm => ha (List.mem_map.mpr ⟨a, hm, rfl⟩), ih ht⟩

theorem ins_map_comm {α β : Type} (k : α → String) (k' : β → String) (f : α → β) (hk : ∀ x, k' (f x) = k x)
    (x : α) (l : List α) : (C02.ins k x l).map f = C02.ins k' (f x) (l.map f) := by
  induction l with
  | nil => simp [C02.ins]
  | cons y ys ih =>
    unfold C02.ins
    simp only [List.map_cons, hk]
    split
    · simp
    · simp [ih]

theorem isort_map_comm {α β : Type} (k : α → String) (k' : β → String) (f : α → β) (hk : ∀ x, k' (f x) = k x)
    (l : List α) : (C02.isort k l).map f = C02.isort k' (l.map f) := by
  induction l with
  | nil => simp [C02.isort]
  | cons x xs ih =>
    have e1 : C02.isort k (x :: xs) = C02.ins k x (C02.isort k xs) := rfl
    have e2 : C02.isort k' ((x :: xs).map f) = C02.ins k' (f x) (C02.isort k' (xs.map f)) := rfl
    rw [e1, e2, ins_map_comm k k' f hk, ih]

theorem toSubs_names (l : List SubSt) : (toSubs l).map (·.name) = l.map (·.name) := by
  simp [toSubs, List.map_map, Function.comp_def]

theorem confSubs_names (conf : GConf) : (confSubs conf).map (·.name) = conf.map (·.1) := by
  simp [confSubs, List.map_map, Function.comp_def]

/-- **history independence of the list**: whatever the old sub-cluster list was, the (name, weight) list
    installed by a reload is the sorted configuration -/
theorem reload_subs_eq (subs : List SubSt) (conf : GConf)
    (hs : (subs.map (·.name)).Nodup) (hnd : (conf.map (·.1)).Nodup) :
    toSubs (C02.isort (·.name) (kept subs conf ++ added subs conf)) = C02.isort (·.name) (confSubs conf) := by
  have hcomm : toSubs (C02.isort (·.name) (kept subs conf ++ added subs conf)) =
      C02.isort (·.name) (toSubs (kept subs conf ++ added subs conf)) :=
    isort_map_comm (fun s : SubSt => s.name) (fun s : C02.Sub => s.name)
      (fun s : SubSt => ({ name := s.name, w := s.w } : C02.Sub)) (fun _ => rfl) _
  rw [hcomm]
  have hn1 : ((toSubs (kept subs conf ++ added subs conf)).map (·.name)).Nodup := by
    rw [toSubs_names]; exact reload_list_names_nodup subs conf hs hnd
  have hn2 : ((confSubs conf).map (·.name)).Nodup := by rw [confSubs_names]; exact hnd
  have hperm : (toSubs (kept subs conf ++ added subs conf)).Perm (confSubs conf) :=
    (List.perm_ext_iff_of_nodup (nodup_of_nodup_map _ _ hn1) (nodup_of_nodup_map _ _ hn2)).mpr
      (mem_toSubs_reload subs conf hnd)
  apply C02.sorted_unique (·.name) _ _
    ((C02.isort_perm _ _).trans (hperm.trans (C02.isort_perm _ _).symm))
    (C02.isort_sorted _ _) (C02.isort_sorted _ _)
  exact ((C02.isort_perm _ _).map _).nodup_iff.mpr hn1

end BfeVerif.C03
