import BfeVerif.C03.Model
import BfeVerif.C02.Props
import BfeVerif.C04.Props
/-! C03 helper lemmas -/
namespace BfeVerif.C03
open BfeVerif

theorem elig_toB (b : Be) : C04.elig b.toB = elig b := rfl

theorem walk_mem {α : Type} (cs : List (α × Int)) (v : Int) (k : α) (h : C02.walk cs v = some k) :
    ∃ w, (k, w) ∈ cs := by
  induction cs generalizing v with
  | nil => simp [C02.walk] at h
  | cons p cs ih =>
    obtain ⟨k0, w0⟩ := p
    unfold C02.walk at h
    split at h
    · simp at h; subst h; exact ⟨w0, by simp⟩
    · obtain ⟨w, hw⟩ := ih _ h
      exact ⟨w, by simp [hw]⟩

theorem getElem?_map_toB (bs : List Be) (j : Nat) (b' : C04.B) (h : (bs.map Be.toB)[j]? = some b') :
    ∃ b, bs[j]? = some b ∧ b.toB = b' := by
  rw [List.getElem?_map] at h
  cases hb : bs[j]? with
  | none => simp [hb] at h
  | some b => simp [hb] at h; exact ⟨b, rfl, h⟩

/-- whatever algorithm: a backend handed out by `SubCluster.balance` is in the list, available, weight > 0 -/
theorem subPick_some (a : Algo) (bs : List Be) (h : Nat) (b : Be) (hp : (subPick a bs h).1 = some b) :
    b ∈ bs ∧ elig b = true := by
  unfold subPick at hp
  split at hp
  · simp at hp
  · cases a with
    | smooth =>
      simp only [] at hp
      obtain ⟨j, hj, hb⟩ := Option.bind_eq_some_iff.mp hp
      obtain ⟨b', hb', _, he⟩ := C04.smooth_some _ _ _ hj
      obtain ⟨b0, hb0, rfl⟩ := getElem?_map_toB _ _ _ hb'
      rw [hb] at hb0; simp at hb0; subst hb0
      exact ⟨List.mem_of_getElem? hb, he⟩
    | wlc =>
      simp only [] at hp
      obtain ⟨j, hj, hb⟩ := Option.bind_eq_some_iff.mp hp
      obtain ⟨b', hb', he, _⟩ := C04.C04_choice _ _ _ _ hj
      obtain ⟨b0, hb0, rfl⟩ := getElem?_map_toB _ _ _ hb'
      rw [hb] at hb0; simp at hb0; subst hb0
      exact ⟨List.mem_of_getElem? hb, he⟩
    | sticky =>
      simp only [] at hp
      unfold stickyBe at hp
      simp only [] at hp
      split at hp
      · simp at hp
      · obtain ⟨w, hw⟩ := walk_mem _ _ _ hp
        simp only [List.mem_map, List.mem_filter, Prod.mk.injEq] at hw
        obtain ⟨b0, ⟨hm, he⟩, rfl, _⟩ := hw
        exact ⟨(C02.isort_perm _ bs).mem_iff.mp hm, he⟩

/-- whatever algorithm: `SubCluster.balance` fails only if no backend is available with weight > 0 -/
theorem subPick_none (a : Algo) (bs : List Be) (h : Nat) (hp : (subPick a bs h).1 = none) :
    ∀ b ∈ bs, elig b = false := by
  intro b hb
  obtain ⟨i, hi, rfl⟩ := List.mem_iff_getElem.mp hb
  have hbi : bs[i]? = some bs[i] := by simp [hi]
  have hmi : (bs.map Be.toB)[i]? = some bs[i].toB := by simp [hi]
  unfold subPick at hp
  split at hp
  · rename_i he; simp at he; subst he; simp at hi
  · cases a with
    | smooth =>
      simp only [] at hp
      cases hr : (C04.smooth (bs.map Be.toB) fun _ => true).1 with
      | none =>
        have := C04.smooth_none _ _ hr i _ hmi
        simp only [true_and, elig_toB] at this
        simpa using this
      | some j =>
        rw [hr] at hp
        obtain ⟨b', hb', _, _⟩ := C04.smooth_some _ _ _ hr
        obtain ⟨b0, hb0, _⟩ := getElem?_map_toB _ _ _ hb'
        simp [hb0] at hp
    | wlc =>
      simp only [] at hp
      cases hr : (C04.wlc .smoothTie (bs.map Be.toB) 0).1 with
      | none =>
        have := (C04.C04_wlc_error_iff _ _ _).mp hr bs[i].toB (List.mem_of_getElem? hmi)
        rw [elig_toB] at this; exact this
      | some j =>
        rw [hr] at hp
        obtain ⟨b', hb', _, _⟩ := C04.C04_choice _ _ _ _ hr
        obtain ⟨b0, hb0, _⟩ := getElem?_map_toB _ _ _ hb'
        simp [hb0] at hp
    | sticky =>
      simp only [] at hp
      unfold stickyBe at hp
      simp only [] at hp
      split at hp
      · rename_i hemp
        simp only [List.isEmpty_iff, List.map_eq_nil_iff] at hemp
        have hm : bs[i] ∈ C02.isort (·.addr) bs := (C02.isort_perm _ bs).mem_iff.mpr (List.getElem_mem hi)
        by_cases he : elig bs[i] = true
        · have : bs[i] ∈ (C02.isort (·.addr) bs).filter elig := List.mem_filter.mpr ⟨hm, he⟩
          rw [hemp] at this; simp at this
        · simpa using he
      · rename_i hne
        exfalso
        generalize hcs : ((C02.isort (·.addr) bs).filter elig).map (fun b => (b, b.w)) = cs at hp hne
        have hpos : ∀ p ∈ cs, 0 < p.2 := by
          intro p hp'
          rw [← hcs] at hp'
          simp only [List.mem_map, List.mem_filter] at hp'
          obtain ⟨b0, ⟨_, he⟩, rfl⟩ := hp'
          unfold elig at he; simp at he; exact he.2
        have hne' : cs ≠ [] := by simpa using hne
        have hW := C02.sumW_pos cs hpos hne'
        obtain ⟨k, hk⟩ := C02.C02_total cs (C02.getHash h (C02.sumW cs))
          (Int.emod_nonneg _ (by omega)) (Int.emod_lt_of_pos _ hW)
        rw [hk] at hp; simp at hp

theorem hasElig_false_iff (s : SubSt) : hasElig s = false ↔ ∀ b ∈ s.bs, elig b = false := by
  unfold hasElig; simp

theorem mem_findSub (c : Cl) (name : String) (s : SubSt) (h : findSub c name = some s) : s ∈ c.subs :=
  List.mem_of_find?_eq_some h

theorem firstChoice_mem (c : Cl) (h : Nat) (s : SubSt) (hf : firstChoice c h = some s) : s ∈ c.subs := by
  unfold firstChoice at hf
  obtain ⟨x, _, hx⟩ := Option.bind_eq_some_iff.mp hf
  exact mem_findSub c _ s hx

theorem rse_mem (c : Cl) (cur o : SubSt) (n : Nat) (h : randomSelectExclude c cur n = some o) :
    o ∈ c.subs ∧ o.name ≠ cur.name ∧ 0 ≤ o.w ∧ o.name ≠ blackholeName := by
  unfold randomSelectExclude at h
  simp only [] at h
  split at h
  · simp at h
  · have := List.mem_of_getElem? h
    unfold others at this
    simp only [List.mem_filter, Bool.and_eq_true, bne_iff_ne, ne_eq, decide_eq_true_eq] at this
    exact ⟨this.1, this.2.1.1, this.2.1.2, this.2.2⟩

theorem eq_of_nodup_map {α β : Type} (f : α → β) : ∀ (l : List α), (l.map f).Nodup →
    ∀ x ∈ l, ∀ y ∈ l, f x = f y → x = y := by
  intro l
  induction l with
  | nil => intro _ x hx; simp at hx
  | cons a t ih =>
    intro hnd x hx y hy hxy
    rw [List.map_cons] at hnd
    obtain ⟨hna, hnt⟩ := List.nodup_cons.mp hnd
    rcases List.mem_cons.mp hx with rfl | hx' <;> rcases List.mem_cons.mp hy with rfl | hy'
    · rfl
    · exact absurd (List.mem_map.mpr ⟨y, hy', hxy.symm⟩) hna
    · exact absurd (List.mem_map.mpr ⟨x, hx', hxy⟩) hna
    · exact ih hnt x hx' y hy' hxy

def resOk : Res → Bool
  | .ok _ _ => true
  | .err _ _ => false

theorem subPick_isSome (a : Algo) (s : SubSt) (h : Nat) :
    (∃ b, (subPick a s.bs h).1 = some b) ↔ hasElig s = true := by
  constructor
  · rintro ⟨b, hb⟩
    obtain ⟨hm, he⟩ := subPick_some a s.bs h b hb
    unfold hasElig; exact List.any_eq_true.mpr ⟨b, hm, he⟩
  · intro he
    cases hp : (subPick a s.bs h).1 with
    | some b => exact ⟨b, rfl⟩
    | none =>
      have := (hasElig_false_iff s).mpr (subPick_none a s.bs h hp)
      rw [this] at he; exact absurd he (by decide)

theorem crossPart_ok_iff (c c1 : Cl) (cur : SubSt) (r : Int) (h n : Nat) :
    resOk (crossPart c c1 cur r h n).1 = true ↔
      (0 < c.crossRetry ∧ ∃ o, randomSelectExclude c cur n = some o ∧ hasElig o = true) := by
  unfold crossPart
  by_cases hc : c.crossRetry ≤ 0
  · simp only [hc, if_true, resOk]
    constructor
    · intro h'; exact absurd h' (by decide)
    · intro ⟨h', _⟩; omega
  · simp only [hc, if_false]
    cases ho : randomSelectExclude c cur n with
    | none => simp [resOk]
    | some o =>
      simp only []
      split
      · rename_i b bs' hp
        have : hasElig o = true := (subPick_isSome c.algo o h).mp ⟨b, by rw [hp]⟩
        simp [resOk, this]; omega
      · rename_i bs' hp
        have : hasElig o = false := (hasElig_false_iff o).mpr (subPick_none c.algo o.bs h (by rw [hp]))
        simp [resOk, this]

theorem crossPart_ok (c c1 : Cl) (cur : SubSt) (r : Int) (h n : Nat) (sub : String) (b : Be)
    (hres : (crossPart c c1 cur r h n).1 = .ok sub b) :
    ∃ o, randomSelectExclude c cur n = some o ∧ o.name = sub ∧ (subPick c.algo o.bs h).1 = some b := by
  unfold crossPart at hres
  split at hres
  · simp at hres
  · split at hres
    · simp at hres
    · rename_i o ho
      split at hres
      · rename_i b' bs' hp
        simp at hres
        exact ⟨o, ho, hres.1, by rw [hp, ← hres.2]⟩
      · simp at hres

end BfeVerif.C03
