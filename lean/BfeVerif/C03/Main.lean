import BfeVerif.C03.Driver
def main : IO Unit := BfeVerif.Proto.driverMain BfeVerif.C03.run
