import BfeVerif.Common.Proto
import BfeVerif.C03.Model
/-!
  C03 driver.
  op = `gb <wrr|wlc> <sticky 0|1> <retryMax> <crossRetry> <subs> <steps>`
       subs  = `name=weight=addr/weight/conn/avail,...;...` (`-` = no backend), backend `current` starts at weight
       steps = `q<RetryTime>:<client ip hex>` (Balance, strategy ClientIpOnly)
               `a<sub>.<backend>=<0|1>` (SetAvail)  `c<sub>.<backend>=<n>` (connNum := n)   (positions in op order)
               `R<name>:<weight>/<name>:<weight>...` (`bal.Reload` with that gslb conf; result token `Rok` | `Rerr`)
               `U<name>=<backend>` (`BackendReload` giving one backend to a sub-cluster that has none; it is marked restarted)
               `S<seconds>` (`bal.SetSlowStart`)  `r<sub>.<backend>=1` (`SetRestart(true)`, as the health checker does)
               `t<sub>.<backend>=<seconds>` (clock hook: the backend's slow start began that many seconds ago)
  result = per `q`: `ok:<SubclusterName>:<AddrInfo with : -> _>:<RetryTime after>` | `err:<code>:<SubclusterName|?>:<RetryTime after>`
  op = `bt <wrr|wlc> <sticky> <retryMax> <crossRetry> <script>`: the same through the REAL path: configuration files
       (gslb.data, cluster_table.data) -> GslbConfLoad / ClusterTableLoad -> BalTable.Init / BalTableReload -> Lookup -> Balance
       `L<version>~<cluster>!<sub>=<gslb weight>=<addr>/<configured weight>+...;...&<cluster>!...` (token `Lok` | `Lrej`)
       `q<cluster>:<RetryTime>:<ip hex>`   `a<cluster>|<sub>|<addrinfo>=<0|1>`   `c<cluster>|<sub>|<addrinfo>=<n>`
  The `rand` of randomSelectExclude is read back from the implementation's answer: the model repeats the
  implementation's cross sub-cluster iff it is one of those `randomSelectExclude` may return.
-/
namespace BfeVerif.C03
open BfeVerif.Proto BfeVerif

def parseBe (s : String) : Option Be :=
  match s.splitOn "/" with
  | [a, w, c, av] => match w.toInt?, c.toInt? with
    | some w, some c => some { addr := a, w := w, cur := w, conn := c, avail := av == "1", final := w }
    | _, _ => none
  | _ => none

def parseSub (s : String) : Option SubSt :=
  match s.splitOn "=" with
  | [n, w, b] =>
    match w.toInt?, (if b == "-" then some [] else (b.splitOn ",").mapM parseBe) with
    | some w, some bs => some { name := n, w := w, bs := bs }
    | _, _ => none
  | _ => none

def errName : Err → String
  | .retryTooMany => "retry-too-many" | .noSubCluster => "no-sub" | .blackhole => "blackhole"
  | .noBackend => "no-backend" | .noSubClusterCross => "no-sub-cross" | .crossRetryBalance => "cross-retry-balance"

def showRes (r : Res) (retry : Int) : String :=
  match r with
  | .ok s b => "ok:" ++ s ++ ":" ++ b.addr.replace ":" "_" ++ ":" ++ toString retry
  | .err e s => "err:" ++ errName e ++ ":" ++ (if s == "" then "?" else s) ++ ":" ++ toString retry

/-- specification of the first choice, independent of `subBalance`: interval form over the
    positive-weight sub-clusters in name order (library merge sort) -/
def specFirst (c : Cl) (h : Nat) : Option SubSt :=
  let ps := (c.subs.filter fun s => decide (0 < s.w)).mergeSort fun a b => decide (a.name ≤ b.name)
  let cs := ps.map fun s => (s, s.w)
  if cs.isEmpty then none else C02.intervalPick cs 0 ((h : Int) % C02.sumW cs)

/-- the executable property: is the implementation's answer `tok` acceptable in state `c`? `none` = yes -/
def judge (c : Cl) (retry : Int) (h : Nat) (tok : String) : Option String :=
  let f := tok.splitOn ":"
  let kind := f.getD 0 ""
  let a1 := f.getD 1 ""
  let a2 := f.getD 2 ""
  let first := specFirst c h
  let subOf (n : String) := c.subs.find? (·.name == n)
  let budget := decide (retry ≤ c.retryMax + c.crossRetry)
  let inOk := match first with
    | some cur => cur.name != blackholeName && decide (retry ≤ c.retryMax) && hasElig c.algo cur
    | none => false
  let oth : List SubSt := match first with
    | some cur => c.subs.filter fun (s : SubSt) => s.name != cur.name && decide (0 ≤ s.w) && s.name != blackholeName
    | none => []
  if kind == "ok" then
    match subOf a1 with
    | none => some "unknown-sub"
    | some s =>
      if s.name == blackholeName then some "blackhole-forwarded"
      else if s.w < 0 then some "negative-weight-sub"
      else match (effBs c.algo s).find? (fun b => b.addr.replace ":" "_" == a2) with
        | none => some "unknown-backend"
        | some b =>
          if !b.avail then some "unavailable-backend"
          else if b.w ≤ 0 then some "nonpositive-weight-backend"
          else if !budget then some "over-budget"
          else match first with
            | none => some "no-first-choice"
            | some cur =>
              if cur.name == blackholeName then some "blackhole-forwarded"
              else if s.name == cur.name then
                (if s.w ≤ 0 then some "first-choice-nonpositive" else if decide (retry ≤ c.retryMax) then none else some "in-cluster-after-budget")
              else if inOk then (if s.w ≤ 0 then some "traffic-to-nonpositive-sub" else some "cross-although-in-cluster-eligible")
              else if c.crossRetry ≤ 0 then some "cross-disabled"
              else none
  else if kind == "err" then
    if !budget then (if a1 == "retry-too-many" then none else some "wrong-error")
    else match first with
      | none => if a1 == "no-sub" then none else some "wrong-error"
      | some cur =>
        if cur.name == blackholeName then (if a1 == "blackhole" then none else some "blackhole-not-rejected")
        else if inOk then some "spurious-error"
        else if c.crossRetry ≤ 0 then (if a1 == "no-backend" then none else some "wrong-error")
        else if oth.isEmpty then (if a1 == "no-sub-cross" then none else some "spurious-error")
        else if a1 == "cross-retry-balance" then
          (match oth.find? (fun (o : SubSt) => o.name == a2) with
           | some o => if hasElig c.algo o then some "spurious-error" else none
           | none => some "spurious-error")
        else some "spurious-error"
  else some "unparsable"


structure St where
  c : Cl          -- model state
  sc : Cl         -- specification state: only names, weights and backend lists are used (by `judge`)
  out : List String := []
  verdict : Option String := none
  tags : List String := []
  bad : Bool := false

def addTag (st : St) (t : String) : St := if st.tags.contains t then st else { st with tags := t :: st.tags }

def updBe (c : Cl) (subName addr : String) (f : Be → Be) : Cl :=
  { c with subs := c.subs.map fun s =>
      if s.name == subName then { s with bs := s.bs.map fun b => if b.addr == addr then f b else b } else s }

def setBs (c : Cl) (subName : String) (bs : List Be) : Cl :=
  { c with subs := c.subs.map fun s => if s.name == subName then { s with bs := bs } else s }

/-- what a reload must amount to, independent of the history: exactly the sub-clusters of the new conf with
    its weights; a sub-cluster that already existed keeps its backends, a new one has none -/
def specReload (c : Cl) (conf : GConf) : Cl :=
  { c with subs := conf.map fun p =>
      { name := p.1, w := p.2, bs := ((c.subs.find? fun s => s.name == p.1).map (·.bs)).getD [] } }

def parseConf (s : String) : Option GConf :=
  (s.splitOn "/").mapM fun t => match t.splitOn ":" with
    | [n, w] => w.toInt?.map fun w => (n, w)
    | _ => none

def qStep (st : St) (retry : Int) (key : List UInt8) (tok : String) : St :=
  let c := st.c
  let h := (C02.sum64 key).toNat
  let f := tok.splitOn ":"
  let iSub := if f.getD 0 "" == "ok" then f.getD 1 "" else f.getD 2 ""
  let n : Nat := match firstChoice c h with
    | some cur => ((others c cur).map (·.name)).idxOf iSub
    | none => 0
  let r := balance c retry h n
  let st := match judge st.sc retry h tok, st.verdict with
    | some cls, none => { st with verdict := some cls }
    | _, _ => st
  -- the specification state follows the restart flags consumed by checkSlowStart in the sub-clusters this
  -- call visited: the hash choice (if an in-cluster attempt is due) and the sub-cluster the implementation names
  let sc := st.sc
  let firstN := (specFirst sc h).map fun (s : SubSt) => s.name
  let visitFirst := decide (retry ≤ sc.retryMax + sc.crossRetry) && decide (retry ≤ sc.retryMax) && firstN != some blackholeName
  let sc := { sc with subs := sc.subs.map fun s =>
      if (visitFirst && firstN == some s.name) || (decide (retry ≤ sc.retryMax + sc.crossRetry) && s.name == iSub && firstN != some iSub)
      then { s with bs := effBs sc.algo s } else s }
  let st := { st with sc := sc }
  let st := if c.subs.any (fun s => decide (0 < s.ss) && s.bs.any fun b => b.restart || b.inSS) then addTag st "slow-start" else st
  let st := if c.subs.any (fun s => decide (0 < s.ss) && s.bs.any fun b => b.restart && decide (b.final ≤ 0) && b.avail) then addTag st "ss-restart-weight0" else st
  let st := match r.1 with
    | .ok s _ => addTag (if (firstChoice c h).map (·.name) == some s then addTag st "in-cluster" else addTag st "cross-ok") "nt"
    | .err e _ => addTag st ("e-" ++ errName e)
  let st := if c.subs.any (fun s => s.bs.any fun b => !elig b) then addTag st "inelig-present" else st
  { st with c := r.2.2, out := showRes r.1 r.2.1 :: st.out }

/-- `R<name>:<w>/...` : `bal.Reload(conf)`; token `Rok` / `Rerr` -/
def rStep (st : St) (conf : GConf) (tok : String) : St :=
  let r := reload st.c conf
  let posOld := (st.sc.subs.filter fun s => decide (0 < s.w)).map fun (s : SubSt) => s.name
  let sc' := specReload st.sc conf
  let pos := sc'.subs.filter fun s => decide (0 < s.w)
  let expect := if pos.isEmpty then "Rerr" else "Rok"
  let st := if tok != expect ∧ st.verdict.isNone then { st with verdict := some "reload-result" } else st
  let st := addTag st "reload"
  let st := if pos.length == 1 then addTag st "reload-single" else st
  let newNames := (conf.map (·.1)).filter fun n => !(st.sc.subs.any fun s => s.name == n)
  let st := match pos with
    | [p] => if newNames.any (fun n => decide (n < p.name)) then addTag st "reload-single-new-before" else st
    | _ => st
  let st := if (conf.map (·.1)).contains blackholeName then addTag st "reload-blackhole" else st
  let st := if posOld != pos.map (·.name) then addTag st "reload-moves-traffic" else st
  -- a failed reload is outside the quantifier of the property (config check rejects total weight <= 0):
  -- the specification state then follows the model so that later requests are still compared
  { st with c := r.1, sc := if r.2 then sc' else { st.sc with subs := r.1.subs }
            out := (if r.2 then "Rok" else "Rerr") :: st.out }

def step (subsOp : List SubSt) (st : St) (s : String) (tok : String) : St :=
  if s.startsWith "q" then
    match ((s.drop 1).toString).splitOn ":" with
    | [r, k] => match r.toInt?, bytesOfHex k with
      | some r, some key => qStep st r key tok
      | _, _ => { st with bad := true }
    | _ => { st with bad := true }
  else if s.startsWith "R" then
    match parseConf (s.drop 1).toString with
    | some conf => rStep st conf tok
    | none => { st with bad := true }
  else if s.startsWith "U" then
    -- `U<name>=<backend>`: BackendReload gives ONE backend to a sub-cluster that has none
    match ((s.drop 1).toString).splitOn "=" with
    | [n, b] => match parseBe b, st.c.subs.find? (fun x => x.name == n) with
      | some b, some sub =>
        -- `Update` marks a new backend as restarted
        if sub.bs.isEmpty then { st with c := setBs st.c n [{ b with restart := true }], sc := setBs st.sc n [{ b with restart := true }] }
        else { st with bad := true }
      | _, _ => { st with bad := true }
    | _ => { st with bad := true }
  else if s.startsWith "S" then
    -- `S<seconds>`: bal.SetSlowStart on every sub-cluster that exists now
    match ((s.drop 1).toString).toInt? with
    | some t =>
      let f := fun (c : Cl) => { c with subs := c.subs.map fun x => { x with ss := t } }
      { st with c := f st.c, sc := f st.sc }
    | none => { st with bad := true }
  else
    let kind := (s.take 1).toString
    match ((s.drop 1).toString).splitOn "=" with
    | [pos, v] => match pos.splitOn ".", v.toInt? with
      | [si, bi], some v => match si.toNat?, bi.toNat? with
        | some si, some bi =>
          match subsOp[si]? with
          | some sub => match sub.bs[bi]? with
            | some b =>
              let f : Be → Be := if kind == "a" then (fun x => { x with avail := v == 1 })
                else if kind == "r" then (fun x => { x with restart := true })   -- health checker: SetRestart(true)
                else if kind == "t" then (fun x => { x with age := v })          -- clock: startTime = now - v seconds
                else (fun x => { x with conn := v })
              { st with c := updBe st.c sub.name b.addr f, sc := updBe st.sc sub.name b.addr f }
            | none => { st with bad := true }
          | none => { st with bad := true }
        | _, _ => { st with bad := true }
      | _, _ => { st with bad := true }
    | _ => { st with bad := true }

def runSteps (subsOp : List SubSt) : St → List String → List String → St
  | st, [], _ => st
  | st, s :: rest, toks =>
    if s.startsWith "q" || s.startsWith "R" then
      match toks with
      | t :: ts => runSteps subsOp (step subsOp st s t) rest ts
      | [] => runSteps subsOp (step subsOp st s "") rest []
    else runSteps subsOp (step subsOp st s "") rest toks

/-! ### `bt`: the real path — configuration FILES -> loaders -> BalTable.Init / BalTableReload -> Lookup -> Balance -/

structure CConf where
  name : String
  subs : List (String × Int × BConf)     -- sub-cluster name, gslb weight, backends (AddrInfo, configured weight)

def parseBConf (s : String) : Option BConf :=
  if s == "-" then some [] else
  (s.splitOn "+").mapM fun (t : String) => match t.splitOn "/" with
    | [a, w] => (String.toInt? w).map fun w => (a, w)
    | _ => none

def parseCConf (s : String) : Option CConf :=
  match s.splitOn "!" with
  | [n, ss] =>
    ((ss.splitOn ";").mapM fun (t : String) => match t.splitOn "=" with
      | [sn, w, b] => match String.toInt? w, parseBConf b with
        | some w, some b => some (sn, w, b)
        | _, _ => none
      | _ => none).map fun subs => { name := n, subs := subs }
  | _ => none

/-- what the loaders accept: every cluster has a positive total gslb weight (GslbClusterConf.Check) and every
    sub-cluster lists a backend with weight > 0 (SubClusterBackend.Check) -/
def validConf (cs : List CConf) : Bool :=
  cs.all fun c => (c.subs.any fun s => decide (0 < s.2.1)) && c.subs.all fun s => s.2.2.any fun b => decide (0 < b.2)

structure BtSt where
  tab : List (String × Cl × Cl) := []     -- cluster name, model state, specification state
  loaded : Bool := false
  out : List String := []
  verdict : Option String := none
  tags : List String := []
  bad : Bool := false
  initErr : Bool := false

def emptyCl (rmax cross : Int) (algo : Algo) : Cl :=
  { subs := [], g := { subs := [], total := 0, single := false, avail := 0 }, retryMax := rmax, crossRetry := cross, algo := algo }

/-- specification state after an accepted load: exactly the configuration; a backend that existed under the same
    sub-cluster keeps what the configuration does not speak about (availability, connections) -/
def specLoad (old : Option Cl) (c : CConf) (rmax cross : Int) (algo : Algo) : Cl :=
  { emptyCl rmax cross algo with
    subs := c.subs.map fun s =>
      let oldBs := ((old.bind fun o => o.subs.find? fun x => x.name == s.1).map (·.bs)).getD []
      { name := s.1, w := s.2.1, bs := s.2.2.map fun p =>
          match oldBs.find? fun b => b.addr == p.1 with
          | some b => { b with w := 100 * p.2 }
          | none => { addr := p.1, w := 100 * p.2, cur := 100 * p.2, conn := 0, avail := true, final := 100 * p.2 } } }

def btLoad (st : BtSt) (cs : List CConf) (rmax cross : Int) (algo : Algo) : BtSt :=
  if !validConf cs then
    (if st.loaded then { st with out := "Lrej" :: st.out, tags := "load-rejected" :: st.tags } else { st with initErr := true })
  else if !st.loaded then
    let tab := cs.filterMap fun c =>
      (mkCluster (c.subs.map fun s => { name := s.1, w := s.2.1, bs := initBs s.2.2 }) rmax cross algo).map fun m =>
        (c.name, m, specLoad none c rmax cross algo)
    { st with tab := tab, loaded := true, out := "Lok" :: st.out }
  else
    let tab := cs.map fun c =>
      let old := st.tab.find? fun x => x.1 == c.name
      let m0 := (old.map (·.2.1)).getD (emptyCl rmax cross algo)
      let m1 := (reload m0 (c.subs.map fun s => (s.1, s.2.1))).1
      let m2 := { m1 with subs := m1.subs.map fun s => match c.subs.find? fun x => x.1 == s.name with
        | some x => { s with bs := updateBs s.bs x.2.2 }
        | none => s }
      (c.name, m2, specLoad (old.map (·.2.2)) c rmax cross algo)
    { st with tab := tab, out := "Lok" :: st.out, tags := "reload" :: st.tags }

def btStep (rmax cross : Int) (algo : Algo) (st : BtSt) (s : String) (tok : String) : BtSt :=
  if s.startsWith "L" then
    match ((s.drop 1).toString).splitOn "~" with
    | [_, cs] => match (cs.splitOn "&").mapM parseCConf with
      | some cs => btLoad st cs rmax cross algo
      | none => { st with bad := true }
    | _ => { st with bad := true }
  else if s.startsWith "q" then
    match ((s.drop 1).toString).splitOn ":" with
    | [cn, r, k] => match r.toInt?, bytesOfHex k with
      | some r, some key =>
        match st.tab.find? fun x => x.1 == cn with
        | none => { st with out := "nocluster" :: st.out,
                            verdict := if tok != "nocluster" ∧ st.verdict.isNone then some "removed-cluster-still-served" else st.verdict }
        | some x =>
          let q := qStep { c := x.2.1, sc := x.2.2 } r key tok
          { st with tab := st.tab.map fun y => if y.1 == cn then (cn, q.c, q.sc) else y
                    out := q.out ++ st.out
                    verdict := if st.verdict.isNone then q.verdict else st.verdict
                    tags := q.tags ++ st.tags }
      | _, _ => { st with bad := true }
    | _ => { st with bad := true }
  else if s.startsWith "a" || s.startsWith "c" then
    match ((s.drop 1).toString).splitOn "=" with
    | [pos, v] => match pos.splitOn "|", v.toInt? with
      | [cn, sn, ad], some v =>
        let f : Be → Be := if s.startsWith "a" then (fun x => { x with avail := v == 1 }) else (fun x => { x with conn := v })
        { st with tab := st.tab.map fun y => if y.1 == cn then (cn, updBe y.2.1 sn ad f, updBe y.2.2 sn ad f) else y }
      | _, _ => { st with bad := true }
    | _ => { st with bad := true }
  else { st with bad := true }

def btRun (rmax cross : Int) (algo : Algo) : BtSt → List String → List String → BtSt
  | st, [], _ => st
  | st, s :: rest, toks =>
    if st.initErr then st else
    if s.startsWith "q" || s.startsWith "L" then
      match toks with
      | t :: ts => btRun rmax cross algo (btStep rmax cross algo st s t) rest ts
      | [] => btRun rmax cross algo (btStep rmax cross algo st s "") rest []
    else btRun rmax cross algo (btStep rmax cross algo st s "") rest toks

def run (op impl : String) : Ans :=
  if impl == "bad-op" then { model := "bad-op", verdict := "skip" } else
  match op.splitOn " " with
  | ["gb", mode, stk, rmax, cross, subsS, stepsS] =>
    match rmax.toInt?, cross.toInt?, (subsS.splitOn ";").mapM parseSub with
    | some rmax, some cross, some subs =>
      let algo := if stk == "1" then Algo.sticky else if mode == "wlc" then Algo.wlc else Algo.smooth
      match mkCluster subs rmax cross algo with
      | none => { model := "init-err", verdict := if impl == "init-err" then "ok" else "FAIL:init", tags := ["init-err"] }
      | some c =>
        let st := runSteps subs { c := c, sc := c } (stepsS.splitOn ",") (impl.splitOn ",")
        if st.bad then { model := "bad-op", verdict := "skip" } else
        -- many identical requests in one state whose hash choice has nothing eligible: the random cross retry must reach
        -- every sub-cluster `randomSelectExclude` may return (failure probability of a correct draw < 1e-20)
        let stepL := stepsS.splitOn ","
        let toks := impl.splitOn ","
        let st := match stepL with
          | s0 :: _ =>
            if stepL.all (· == s0) ∧ s0.startsWith "q0:" then
              match bytesOfHex (s0.drop 3).toString with
              | some key =>
                match specFirst c (C02.sum64 key).toNat with
                | some cur =>
                  let oth := (c.subs.filter fun (s : SubSt) => s.name != cur.name && decide (0 ≤ s.w) && s.name != blackholeName).map fun (s : SubSt) => s.name
                  let reached := toks.map fun (t : String) => let f := t.splitOn ":"; if f.getD 0 "" == "ok" then f.getD 1 "" else f.getD 2 ""
                  if !hasElig c.algo cur ∧ cur.name != blackholeName ∧ 0 < c.crossRetry ∧ 0 ≤ c.retryMax ∧ oth.length ≥ 2 ∧ toks.length ≥ 40 * oth.length then
                    let st := addTag st "cross-long-run"
                    if oth.any (fun o => !reached.contains o) ∧ st.verdict.isNone then { st with verdict := some "cross-never-reaches-a-sub" } else st
                  else st
                | none => st
              | none => st
            else st
          | [] => st
        { model := ",".intercalate st.out.reverse
          verdict := match st.verdict with
            | some cls => "FAIL:" ++ cls
            | none => "ok"
          tags := [if stk == "1" then "sticky" else mode] ++ st.tags }
    | _, _, _ => { model := "bad-op", verdict := "skip" }
  | ["bt", mode, stk, rmax, cross, script] =>
    match rmax.toInt?, cross.toInt? with
    | some rmax, some cross =>
      let algo := if stk == "1" then Algo.sticky else if mode == "wlc" then Algo.wlc else Algo.smooth
      let st := btRun rmax cross algo {} (script.splitOn ",") (impl.splitOn ",")
      if st.bad then { model := "bad-op", verdict := "skip" }
      else if st.initErr then { model := "init-err", verdict := if impl == "init-err" then "ok" else "FAIL:init", tags := ["bt", "init-err"] }
      else
        { model := ",".intercalate st.out.reverse
          verdict := match st.verdict with
            | some cls => "FAIL:" ++ cls
            | none => "ok"
          tags := (["bt", if stk == "1" then "sticky" else mode] ++ st.tags).eraseDups }
    | _, _ => { model := "bad-op", verdict := "skip" }
  | _ => { model := "bad-op", verdict := "skip" }

end BfeVerif.C03
