import BfeVerif.C03.Proofs
/-!
  C03 — a balancing decision never returns an ineligible target and errs exactly when the path the request
  is entitled to contains no eligible target.  Property theorems only.
  `balance c retry h n` mirrors `BalanceGslb.Balance` (h = hash of the key, n = the `rand` value drawn by
  `randomSelectExclude`); every theorem holds for all `h` and `n`.
-/
namespace BfeVerif.C03
open BfeVerif

/-- **Per algorithm** (smooth WRR, WLC, sticky): a backend returned by `SubCluster.balance` belongs to the
    sub-cluster, is available and has weight > 0; and the call fails iff no such backend exists. -/
theorem C03_instance_level (a : Algo) (bs : List Be) (h : Nat) :
    (∀ b, (subPick a bs h).1 = some b → b ∈ bs ∧ b.avail = true ∧ 0 < b.w) ∧
    ((subPick a bs h).1 = none ↔ ∀ b ∈ bs, elig b = false) := by
  refine ⟨fun b hb => ?_, ⟨subPick_none a bs h, fun hall => ?_⟩⟩
  · obtain ⟨hm, he⟩ := subPick_some a bs h b hb
    unfold elig at he; simp at he
    exact ⟨hm, he.1, he.2⟩
  · cases hp : (subPick a bs h).1 with
    | none => rfl
    | some b =>
      obtain ⟨hm, he⟩ := subPick_some a bs h b hp
      rw [hall b hm] at he; exact absurd he (by decide)

/-- the request still has an eligible target on the path it is entitled to: budget left, first choice not the
    black hole, and either an in-cluster attempt is allowed and the first choice has an eligible backend, or
    cross retry is enabled and the sub-cluster drawn by `randomSelectExclude` has one. -/
def EligiblePath (c : Cl) (retry : Int) (h n : Nat) : Prop :=
  retry ≤ c.retryMax + c.crossRetry ∧ ∃ cur, firstChoice c h = some cur ∧ cur.name ≠ blackholeName ∧
    ((retry ≤ c.retryMax ∧ hasElig c.algo cur = true) ∨
     (0 < c.crossRetry ∧ ∃ o, randomSelectExclude c cur n = some o ∧ hasElig c.algo o = true))

/-- **Error iff nothing eligible**: `Balance` succeeds exactly when the entitled path has an eligible target,
    for every balancing mode, hash value and random draw. -/
theorem C03_ok_iff (c : Cl) (retry : Int) (h n : Nat) :
    resOk (balance c retry h n).1 = true ↔ EligiblePath c retry h n := by
  unfold balance EligiblePath
  by_cases h1 : retry > c.retryMax + c.crossRetry
  · simp only [h1, if_true, resOk]
    constructor
    · intro h'; exact absurd h' (by decide)
    · intro ⟨h', _⟩; omega
  · simp only [h1, if_false]
    have hle : retry ≤ c.retryMax + c.crossRetry := by omega
    cases hf : firstChoice c h with
    | none => simp [resOk]
    | some cur =>
      simp only []
      by_cases hb : (cur.name == blackholeName) = true
      · simp only [hb, if_true, resOk]
        constructor
        · intro h'; exact absurd h' (by decide)
        · rintro ⟨_, cur', hc', hne, _⟩
          simp at hc'; subst hc'
          exact absurd (by simpa using hb) hne
      · have hb' : (cur.name == blackholeName) = false := by simpa using hb
        simp only [hb', Bool.false_eq_true, if_false]
        have hne : cur.name ≠ blackholeName := by simpa using hb
        by_cases hr : retry ≤ c.retryMax
        · simp only [hr, if_true]
          rcases hp : subPick c.algo (effBs c.algo cur) h with ⟨ob, bs'⟩
          cases ob with
          | some b =>
            have he : hasElig c.algo cur = true := (subPick_isSome c.algo cur h).mp ⟨b, by rw [hp]⟩
            simp only [resOk, true_iff]
            exact ⟨hle, cur, rfl, hne, Or.inl ⟨trivial, he⟩⟩
          | none =>
            have he : hasElig c.algo cur = false := (hasElig_false_iff c.algo cur).mpr (subPick_none c.algo (effBs c.algo cur) h (by rw [hp]))
            simp only []
            rw [crossPart_ok_iff]
            constructor
            · intro hx; exact ⟨hle, cur, rfl, hne, Or.inr hx⟩
            · rintro ⟨_, cur', hc', _, hx⟩
              simp at hc'; subst hc'
              rcases hx with ⟨_, hx⟩ | hx
              · rw [he] at hx; exact absurd hx (by decide)
              · exact hx
        · simp only [hr, if_false]
          rw [crossPart_ok_iff]
          constructor
          · intro hx; exact ⟨hle, cur, rfl, hne, Or.inr hx⟩
          · rintro ⟨_, cur', hc', _, hx⟩
            simp at hc'; subst hc'
            rcases hx with ⟨hx, _⟩ | hx
            · exact hx.elim
            · exact hx

theorem C03_err_iff (c : Cl) (retry : Int) (h n : Nat) :
    (∃ e s, (balance c retry h n).1 = .err e s) ↔ ¬ EligiblePath c retry h n := by
  rw [← C03_ok_iff]
  cases (balance c retry h n).1 with
  | ok s b => simp [resOk]
  | err e s => simp [resOk]

/-- **Never an ineligible target**: whatever `Balance` returns belongs to a configured sub-cluster that is not
    the black hole, is available and has weight > 0; the sub-cluster is the first (hash) choice or a
    cross-retry target of weight ≥ 0 different from it. -/
theorem C03_backend_ok (c : Cl) (retry : Int) (h n : Nat) (sub : String) (b : Be)
    (hres : (balance c retry h n).1 = .ok sub b) :
    ∃ s ∈ c.subs, s.name = sub ∧ b ∈ effBs c.algo s ∧ b.avail = true ∧ 0 < b.w ∧ sub ≠ blackholeName ∧
      (firstChoice c h = some s ∨ (0 ≤ s.w ∧ 0 < c.crossRetry)) := by
  have key : ∀ (c1 : Cl) (cur : SubSt) (r : Int), (crossPart c c1 cur r h n).1 = .ok sub b →
      ∃ s ∈ c.subs, s.name = sub ∧ b ∈ effBs c.algo s ∧ b.avail = true ∧ 0 < b.w ∧ sub ≠ blackholeName ∧
        (firstChoice c h = some s ∨ (0 ≤ s.w ∧ 0 < c.crossRetry)) := by
    intro c1 cur r hx
    have hpos : 0 < c.crossRetry := ((crossPart_ok_iff c c1 cur r h n).mp (by rw [hx]; rfl)).1
    obtain ⟨o, ho, hn, hp⟩ := crossPart_ok c c1 cur r h n sub b hx
    obtain ⟨hm, _, hw, hbh⟩ := rse_mem c cur o n ho
    obtain ⟨hb1, hb2, hb3⟩ := (C03_instance_level c.algo (effBs c.algo o) h).1 b hp
    exact ⟨o, hm, hn, hb1, hb2, hb3, hn ▸ hbh, Or.inr ⟨hw, hpos⟩⟩
  unfold balance at hres
  split at hres
  · simp at hres
  · split at hres
    · simp at hres
    · rename_i cur hf
      split at hres
      · simp at hres
      · rename_i hbh
        have hne : cur.name ≠ blackholeName := by simpa using hbh
        split at hres
        · split at hres
          · rename_i b' bs' hp
            simp at hres
            obtain ⟨hb1, hb2, hb3⟩ := (C03_instance_level c.algo (effBs c.algo cur) h).1 b (by rw [hp, ← hres.2])
            exact ⟨cur, firstChoice_mem c h cur hf, hres.1, hb1, hb2, hb3, hres.1 ▸ hne, Or.inl hf⟩
          · exact key _ _ _ hres
        · exact key _ _ _ hres

/-- **Black hole**: a request whose hash choice is `GSLB_BLACKHOLE` is rejected with `ErrGslbBlackhole`
    (never forwarded), as long as it is within its retry budget. -/
theorem C03_blackhole (c : Cl) (retry : Int) (h n : Nat) (cur : SubSt)
    (hbud : retry ≤ c.retryMax + c.crossRetry)
    (hf : firstChoice c h = some cur) (hb : cur.name = blackholeName) :
    (balance c retry h n).1 = .err .blackhole blackholeName := by
  unfold balance
  have : ¬ retry > c.retryMax + c.crossRetry := by omega
  simp [this, hf, hb]

/-- **First choice has positive weight**: on a cluster built by `Init`, the hash-chosen sub-cluster has weight > 0. -/
theorem C03_first_choice_positive (conf : List SubSt) (rm cr : Int) (a : Algo) (c : Cl)
    (hnd : (conf.map (·.name)).Nodup)
    (hc : mkCluster conf rm cr a = some c) (h : Nat) (s : SubSt) (hf : firstChoice c h = some s) : 0 < s.w := by
  unfold mkCluster at hc
  split at hc
  · simp at hc
  · rename_i g hg
    simp at hc; subst hc
    unfold firstChoice at hf
    simp only [] at hf
    obtain ⟨x, hx, hfs⟩ := Option.bind_eq_some_iff.mp hf
    unfold C02.gslbInit at hg
    obtain ⟨x', hx', _, hxw, hxm⟩ := C02.C02_sub_partition _ g hg h
    rw [hx] at hx'; simp at hx'; subst hx'
    -- the sub-cluster found by name carries the same weight: both lists are sorted images of `conf`
    unfold findSub at hfs
    simp only [] at hfs
    have hs := List.find?_some hfs
    have hsm := List.mem_of_find?_eq_some hfs
    have hsm' : s ∈ conf := (C02.isort_perm _ conf).mem_iff.mp hsm
    have hxm' : x ∈ conf.map (fun s => ({ name := s.name, w := s.w } : C02.Sub)) :=
      (C02.isort_perm _ _).mem_iff.mp hxm
    obtain ⟨s', hs', hx'⟩ := List.mem_map.mp hxm'
    have hname : s.name = s'.name := by
      have : s.name = x.name := by simpa using hs
      rw [this, ← hx']
    have : s = s' := eq_of_nodup_map (·.name) conf hnd s hsm' s' hs' hname
    subst this
    rw [← hx'] at hxw; exact hxw

/-! ### Slow start -/

/-- `checkSlowStart` never leaves a (re)starting backend above its configured weight: the `weight = 1` written by
    `initSlowStart` is recomputed by `updateSlowStart` in the same pass. -/
theorem C03_slowstart_never_above_final (ssT : Int) (b : Be) (h : b.restart = true ∨ b.inSS = true) :
    (ssStep ssT b).w ≤ b.final ∧ (ssStep ssT b).final = b.final ∧ (ssStep ssT b).addr = b.addr ∧
    (ssStep ssT b).avail = b.avail := by
  unfold ssStep
  by_cases hr : b.restart = true
  · simp only [hr, if_true]
    by_cases hge : (b.final * 0).tdiv ssT ≥ b.final
    · simp only [hge, if_true]; simp
    · simp only [hge, if_false]; simp at hge ⊢; omega
  · have hr' : b.restart = false := by simpa using hr
    have hi : b.inSS = true := by rcases h with h | h; exact absurd h hr; exact h
    simp only [hr', Bool.false_eq_true, if_false, hi, if_true]
    by_cases hge : (b.final * b.age).tdiv ssT ≥ b.final
    · simp only [hge, if_true]; simp
    · simp only [hge, if_false]; simp; omega

/-- **A restarted backend with configured weight ≤ 0 is never handed out**: with slow start enabled, whatever
    `Balance` returns is an available backend of the sub-cluster, and if it is just restarted or still in slow
    start its configured weight (`final`) is > 0 — for every mode, key, retry counter and random draw. -/
theorem C03_slowstart_configured_positive (c : Cl) (retry : Int) (h n : Nat) (sub : String) (b : Be)
    (hres : (balance c retry h n).1 = .ok sub b) :
    ∃ s ∈ c.subs, s.name = sub ∧ ∃ b0 ∈ s.bs, b0.addr = b.addr ∧ b0.avail = true ∧
      (c.algo ≠ .sticky → 0 < s.ss → (b0.restart = true ∨ b0.inSS = true) → 0 < b0.final) := by
  obtain ⟨s, hs, hn, hb, hav, hw, _, _⟩ := C03_backend_ok c retry h n sub b hres
  refine ⟨s, hs, hn, ?_⟩
  unfold effBs at hb
  split at hb
  · rename_i hc
    refine ⟨b, hb, rfl, hav, fun h1 h2 _ => ?_⟩
    rcases hc with hc | hc
    · exact absurd hc h1
    · omega
  · obtain ⟨b0, hb0, rfl⟩ := List.mem_map.mp hb
    by_cases ht : b0.restart = true ∨ b0.inSS = true
    · obtain ⟨h1, _, h3, h4⟩ := C03_slowstart_never_above_final s.ss b0 ht
      exact ⟨b0, hb0, h3.symm, by rw [← h4]; exact hav, fun _ _ _ => by omega⟩
    · have hid : ssStep s.ss b0 = b0 := by
        have h1 : b0.restart = false := by cases hx : b0.restart <;> simp_all
        have h2 : b0.inSS = false := by cases hx : b0.inSS <;> simp_all
        unfold ssStep; simp [h1, h2]
      rw [hid] at hav
      exact ⟨b0, hb0, by rw [hid], hav, fun _ _ h3 => absurd h3 ht⟩

/-! ### Backend reload (`BalanceRR.Update`) -/

/-- **The weights after a backend reload are those of the LAST configuration**, whatever the list was before:
    the new list holds exactly the configured addresses, each with 100 x its configured weight (so a backend
    re-configured with weight <= 0 is ineligible from then on, and a removed one is gone). -/
theorem C03_update_last_conf (bs : List Be) (conf : BConf) (hnd : (conf.map (·.1)).Nodup) :
    (∀ b ∈ updateBs bs conf, ∃ p ∈ conf, p.1 = b.addr ∧ b.w = 100 * p.2) ∧
    (∀ p ∈ conf, ∃ b ∈ updateBs bs conf, b.addr = p.1 ∧ b.w = 100 * p.2) := by
  unfold updateBs
  constructor
  · intro b hb
    rcases List.mem_append.mp hb with hb | hb
    · obtain ⟨b0, _, h⟩ := List.mem_filterMap.mp hb
      obtain ⟨p, hp, rfl⟩ := Option.map_eq_some_iff.mp h
      have hk := List.find?_some hp
      exact ⟨p, List.mem_of_find?_eq_some hp, by simpa using hk, rfl⟩
    · obtain ⟨p, hp, rfl⟩ := List.mem_map.mp hb
      exact ⟨p, (List.mem_filter.mp hp).1, rfl, rfl⟩
  · intro p hp
    by_cases hex : ∃ b0 ∈ bs, b0.addr = p.1
    · obtain ⟨b0, hb0, ha⟩ := hex
      have hf : conf.find? (·.1 == b0.addr) = some p := by
        rw [ha]; exact find?_of_nodup_keys conf hnd p hp
      refine ⟨{ b0 with w := 100 * p.2, cur := if p.2 ≤ 0 then 0 else b0.cur }, ?_, ha, rfl⟩
      exact List.mem_append.mpr (Or.inl (List.mem_filterMap.mpr ⟨b0, hb0, by simp [hf]⟩))
    · refine ⟨_, List.mem_append.mpr (Or.inr (List.mem_map.mpr ⟨p, List.mem_filter.mpr ⟨hp, ?_⟩, rfl⟩)), rfl, rfl⟩
      simp only [Bool.not_eq_true', List.any_eq_false, beq_iff_eq]
      intro b0 hb0 ha
      exact hex ⟨b0, hb0, by simpa using ha⟩

/-! ### Reload histories -/

/-- the sub-cluster list keeps pairwise distinct names through `Init` and through every `Reload`, successful or not -/
theorem C03_reload_names_nodup (c : Cl) (conf : GConf) (hc : NamesNodup c) (hnd : (conf.map (·.1)).Nodup) :
    NamesNodup (reload c conf).1 := by
  unfold reload NamesNodup
  simp only []
  split
  · rw [List.map_map, List.map_congr_left (g := fun s : SubSt => s.name)]
    · exact hc
    · intro s _; simp only [Function.comp]; cases lookupW conf s.name <;> rfl
  · exact ((C02.isort_perm _ _).map _).nodup_iff.mpr (reload_list_names_nodup c.subs conf hc hnd)

theorem C03_init_names_nodup (conf : List SubSt) (rm cr : Int) (a : Algo) (c : Cl)
    (hnd : (conf.map (·.name)).Nodup) (hc : mkCluster conf rm cr a = some c) : NamesNodup c := by
  unfold mkCluster at hc
  split at hc
  · simp at hc
  · simp at hc; subst hc
    exact ((C02.isort_perm _ _).map _).nodup_iff.mpr hnd

/-- arbitrary reload sequences (each conf a map, i.e. distinct keys) keep the invariant -/
theorem C03_reload_sequence_names_nodup (c : Cl) (confs : List GConf) (hc : NamesNodup c)
    (hnd : ∀ cf ∈ confs, (cf.map (·.1)).Nodup) :
    NamesNodup (confs.foldl (fun c cf => (reload c cf).1) c) := by
  induction confs generalizing c with
  | nil => exact hc
  | cons cf rest ih =>
    simp only [List.foldl_cons]
    exact ih _ (C03_reload_names_nodup c cf hc (hnd cf (by simp))) (fun x hx => hnd x (by simp [hx]))

/-- **History independence**: a `Reload` that returns nil installs exactly the balancer a FRESH `Init` of the same
    configuration builds — same sorted (name, weight) list, totalWeight, `single`, and (when `single`) `avail` —
    whatever sub-clusters existed before (added, removed, re-weighted, any name order). -/
theorem C03_reload_fresh (c : Cl) (conf : GConf) (c' : Cl) (hc : NamesNodup c) (hnd : (conf.map (·.1)).Nodup)
    (hr : reload c conf = (c', true)) :
    ∃ g0, C02.gslbInit (confSubs conf) = some g0 ∧ toSubs c'.subs = g0.subs ∧ c'.g.subs = g0.subs ∧
      c'.g.total = g0.total ∧ c'.g.single = g0.single ∧ (g0.single = true → c'.g.avail = g0.avail) := by
  unfold reload at hr
  simp only [] at hr
  rw [reload_subs_eq c.subs conf hc hnd] at hr
  split at hr
  · simp at hr
  · rename_i htot
    simp only [Prod.mk.injEq, and_true] at hr
    subst hr
    unfold C02.gslbInit C02.gslbInitOn
    simp only [htot, if_false]
    refine ⟨_, rfl, ?_, rfl, rfl, rfl, ?_⟩
    · exact reload_subs_eq c.subs conf hc hnd
    · intro hs; simp only [] at hs ⊢; simp [hs]

/-- hence every hash decision after the reload equals the decision of a fresh load -/
theorem C03_reload_decision_fresh (c : Cl) (conf : GConf) (c' : Cl) (hc : NamesNodup c)
    (hnd : (conf.map (·.1)).Nodup) (hr : reload c conf = (c', true)) :
    ∃ g0, C02.gslbInit (confSubs conf) = some g0 ∧ ∀ h, C02.subBalance c'.g h = C02.subBalance g0 h := by
  obtain ⟨g0, hg, _, h2, h3, h4, h5⟩ := C03_reload_fresh c conf c' hc hnd hr
  refine ⟨g0, hg, fun h => ?_⟩
  unfold C02.subBalance
  rw [h2, h3, h4]
  by_cases hs : g0.single = true
  · simp [hs, h5 hs]
  · simp [hs]

/-- **After any Reload that returns nil the hash-chosen sub-cluster has weight > 0** (for every key),
    the list is sorted by name, and in `single` mode `avail` indexes the only positive-weight sub-cluster
    IN THAT SORTED LIST. -/
theorem C03_reload_first_choice_positive (c : Cl) (conf : GConf) (c' : Cl) (hc : NamesNodup c)
    (hnd : (conf.map (·.1)).Nodup) (hr : reload c conf = (c', true)) :
    (∀ h s, firstChoice c' h = some s → 0 < s.w) ∧ C02.Sorted (·.name) c'.subs ∧
    (c'.g.single = true → ∃ x, C02.posW (toSubs c'.subs) = [x] ∧ (toSubs c'.subs)[c'.g.avail]? = some x) := by
  obtain ⟨g0, hg, h1, h2, h3, h4, h5⟩ := C03_reload_fresh c conf c' hc hnd hr
  obtain ⟨_, _, hdec⟩ := C03_reload_decision_fresh c conf c' hc hnd hr
  have hnn : NamesNodup c' := by
    have := C03_reload_names_nodup c conf hc hnd; rw [hr] at this; exact this
  have hgOn : C02.gslbInitOn (C02.isort (·.name) (confSubs conf)) = some g0 := hg
  have hS : g0.subs = C02.isort (·.name) (confSubs conf) := by
    unfold C02.gslbInitOn at hgOn; simp only [] at hgOn
    split at hgOn
    · simp at hgOn
    · simp at hgOn; rw [← hgOn]
  refine ⟨?_, ?_, ?_⟩
  · intro h s hf
    unfold firstChoice at hf
    obtain ⟨x, hx, hfs⟩ := Option.bind_eq_some_iff.mp hf
    obtain ⟨g0', hg', hd'⟩ := C03_reload_decision_fresh c conf c' hc hnd hr
    rw [hg] at hg'; simp at hg'; subst hg'
    rw [hd' h] at hx
    obtain ⟨x', hx', _, hxw, hxm⟩ := C02.C02_sub_partition _ g0 hgOn h
    rw [hx] at hx'; simp at hx'; subst hx'
    rw [← hS, ← h1] at hxm
    obtain ⟨s', hs', hsx⟩ := List.mem_map.mp hxm
    have hsm := List.mem_of_find?_eq_some hfs
    have hsn : s.name = x.name := by simpa using List.find?_some hfs
    have : s = s' := eq_of_nodup_map (fun s : SubSt => s.name) c'.subs hnn s hsm s' hs' (by show s.name = s'.name; rw [hsn, ← hsx])
    subst this
    rw [← hsx] at hxw; exact hxw
  · unfold reload at hr
    simp only [] at hr
    split at hr
    · simp at hr
    · simp only [Prod.mk.injEq, and_true] at hr
      rw [← hr]; exact C02.isort_sorted _ _
  · intro hs
    rw [h4] at hs
    have hav := h5 hs
    unfold C02.gslbInitOn at hgOn; simp only [] at hgOn
    split at hgOn
    · simp at hgOn
    · simp only [Option.some.injEq] at hgOn
      rw [← hgOn] at hs hav
      simp only [] at hs hav
      have hlen : (C02.posW (C02.isort (·.name) (confSubs conf))).length = 1 := by simpa using hs
      obtain ⟨x, hx⟩ := List.length_eq_one_iff.mp hlen
      have hne : C02.posW (C02.isort (·.name) (confSubs conf)) ≠ [] := by rw [hx]; simp
      obtain ⟨j, hj, hl⟩ := (C02.lastPos_spec (C02.isort (·.name) (confSubs conf)) 0 0).1 hne
      rw [h1, hS]
      refine ⟨x, hx, ?_⟩
      rw [hav, hj, Nat.zero_add, hl, hx]; rfl

/-! ### non-vacuity: first choice `a` is all down, cross retry lands on `b` (n = 0) -/
def exCl : Cl :=
  { subs := [{ name := "a", w := 1, bs := [{ addr := "x:1", w := 100, cur := 100, conn := 0, avail := false }] },
              { name := "b", w := 0, bs := [{ addr := "y:1", w := 100, cur := 100, conn := 0, avail := true }, { addr := "z:1", w := 0, cur := 0, conn := 0, avail := true }] }]
    g := { subs := [⟨"a", 1⟩, ⟨"b", 0⟩], total := 1, single := true, avail := 0 }
    retryMax := 2, crossRetry := 1, algo := .smooth }
example : (balance exCl 0 7 0).1 = .ok "b" { addr := "y:1", w := 100, cur := 100, conn := 0, avail := true } := by decide
example : (balance { exCl with crossRetry := 0 } 0 7 0).1 = .err .noBackend "a" := by decide
example : (balance exCl 4 7 0).1 = .err .retryTooMany "" := by decide

/-- the scenario of a stale `avail`: {idc-b:100, idc-c:0} reloaded to {idc-a:0, idc-b:100, idc-c:0} -/
def exR : Cl :=
  { subs := [{ name := "idc-b", w := 100, bs := [{ addr := "x:1", w := 100, cur := 100, conn := 0, avail := true }] }, { name := "idc-c", w := 0, bs := [] }]
    g := { subs := [⟨"idc-b", 100⟩, ⟨"idc-c", 0⟩], total := 100, single := true, avail := 0 }
    retryMax := 2, crossRetry := 1, algo := .smooth }
example : ((reload exR [("idc-c", 0), ("idc-a", 0), ("idc-b", 100)]).1.g.avail,
           (reload exR [("idc-c", 0), ("idc-a", 0), ("idc-b", 100)]).2) = (1, true) := by decide
example : (firstChoice (reload exR [("idc-c", 0), ("idc-a", 0), ("idc-b", 100)]).1 12345).map (·.name) = some "idc-b" := by
  decide

end BfeVerif.C03
