import BfeVerif.C03.Proofs
/-!
  C03 — a balancing decision never returns an ineligible target and errs exactly when the path the request
  is entitled to contains no eligible target.  Property theorems only.
  `balance c retry h n` mirrors `BalanceGslb.Balance` (h = hash of the key, n = the `rand` value drawn by
  `randomSelectExclude`); every theorem holds for all `h` and `n`.
-/
namespace BfeVerif.C03
open BfeVerif

/-- **Per algorithm** (smooth WRR, WLC, sticky): a backend returned by `SubCluster.balance` belongs to the
    sub-cluster, is available and has weight > 0; and the call fails iff no such backend exists. -/
theorem C03_instance_level (a : Algo) (bs : List Be) (h : Nat) :
    (∀ b, (subPick a bs h).1 = some b → b ∈ bs ∧ b.avail = true ∧ 0 < b.w) ∧
    ((subPick a bs h).1 = none ↔ ∀ b ∈ bs, elig b = false) := by
  refine ⟨fun b hb => ?_, ⟨subPick_none a bs h, fun hall => ?_⟩⟩
  · obtain ⟨hm, he⟩ := subPick_some a bs h b hb
    unfold elig at he; simp at he
    exact ⟨hm, he.1, he.2⟩
  · cases hp : (subPick a bs h).1 with
    | none => rfl
    | some b =>
      obtain ⟨hm, he⟩ := subPick_some a bs h b hp
      rw [hall b hm] at he; exact absurd he (by decide)

/-- the request still has an eligible target on the path it is entitled to: budget left, first choice not the
    black hole, and either an in-cluster attempt is allowed and the first choice has an eligible backend, or
    cross retry is enabled and the sub-cluster drawn by `randomSelectExclude` has one. -/
def EligiblePath (c : Cl) (retry : Int) (h n : Nat) : Prop :=
  retry ≤ c.retryMax + c.crossRetry ∧ ∃ cur, firstChoice c h = some cur ∧ cur.name ≠ blackholeName ∧
    ((retry ≤ c.retryMax ∧ hasElig cur = true) ∨
     (0 < c.crossRetry ∧ ∃ o, randomSelectExclude c cur n = some o ∧ hasElig o = true))

/-- **Error iff nothing eligible**: `Balance` succeeds exactly when the entitled path has an eligible target,
    for every balancing mode, hash value and random draw. -/
theorem C03_ok_iff (c : Cl) (retry : Int) (h n : Nat) :
    resOk (balance c retry h n).1 = true ↔ EligiblePath c retry h n := by
  unfold balance EligiblePath
  by_cases h1 : retry > c.retryMax + c.crossRetry
  · simp only [h1, if_true, resOk]
    constructor
    · intro h'; exact absurd h' (by decide)
    · intro ⟨h', _⟩; omega
  · simp only [h1, if_false]
    have hle : retry ≤ c.retryMax + c.crossRetry := by omega
    cases hf : firstChoice c h with
    | none => simp [resOk]
    | some cur =>
      simp only []
      by_cases hb : (cur.name == blackholeName) = true
      · simp only [hb, if_true, resOk]
        constructor
        · intro h'; exact absurd h' (by decide)
        · rintro ⟨_, cur', hc', hne, _⟩
          simp at hc'; subst hc'
          exact absurd (by simpa using hb) hne
      · have hb' : (cur.name == blackholeName) = false := by simpa using hb
        simp only [hb', Bool.false_eq_true, if_false]
        have hne : cur.name ≠ blackholeName := by simpa using hb
        by_cases hr : retry ≤ c.retryMax
        · simp only [hr, if_true]
          rcases hp : subPick c.algo cur.bs h with ⟨ob, bs'⟩
          cases ob with
          | some b =>
            have he : hasElig cur = true := (subPick_isSome c.algo cur h).mp ⟨b, by rw [hp]⟩
            simp only [resOk, true_iff]
            exact ⟨hle, cur, rfl, hne, Or.inl ⟨trivial, he⟩⟩
          | none =>
            have he : hasElig cur = false := (hasElig_false_iff cur).mpr (subPick_none c.algo cur.bs h (by rw [hp]))
            simp only []
            rw [crossPart_ok_iff]
            constructor
            · intro hx; exact ⟨hle, cur, rfl, hne, Or.inr hx⟩
            · rintro ⟨_, cur', hc', _, hx⟩
              simp at hc'; subst hc'
              rcases hx with ⟨_, hx⟩ | hx
              · rw [he] at hx; exact absurd hx (by decide)
              · exact hx
        · simp only [hr, if_false]
          rw [crossPart_ok_iff]
          constructor
          · intro hx; exact ⟨hle, cur, rfl, hne, Or.inr hx⟩
          · rintro ⟨_, cur', hc', _, hx⟩
            simp at hc'; subst hc'
            rcases hx with ⟨hx, _⟩ | hx
            · exact hx.elim
            · exact hx

theorem C03_err_iff (c : Cl) (retry : Int) (h n : Nat) :
    (∃ e s, (balance c retry h n).1 = .err e s) ↔ ¬ EligiblePath c retry h n := by
  rw [← C03_ok_iff]
  cases (balance c retry h n).1 with
  | ok s b => simp [resOk]
  | err e s => simp [resOk]

/-- **Never an ineligible target**: whatever `Balance` returns belongs to a configured sub-cluster that is not
    the black hole, is available and has weight > 0; the sub-cluster is the first (hash) choice or a
    cross-retry target of weight ≥ 0 different from it. -/
theorem C03_backend_ok (c : Cl) (retry : Int) (h n : Nat) (sub : String) (b : Be)
    (hres : (balance c retry h n).1 = .ok sub b) :
    ∃ s ∈ c.subs, s.name = sub ∧ b ∈ s.bs ∧ b.avail = true ∧ 0 < b.w ∧ sub ≠ blackholeName ∧
      (firstChoice c h = some s ∨ (0 ≤ s.w ∧ 0 < c.crossRetry)) := by
  have key : ∀ (c1 : Cl) (cur : SubSt) (r : Int), (crossPart c c1 cur r h n).1 = .ok sub b →
      ∃ s ∈ c.subs, s.name = sub ∧ b ∈ s.bs ∧ b.avail = true ∧ 0 < b.w ∧ sub ≠ blackholeName ∧
        (firstChoice c h = some s ∨ (0 ≤ s.w ∧ 0 < c.crossRetry)) := by
    intro c1 cur r hx
    have hpos : 0 < c.crossRetry := ((crossPart_ok_iff c c1 cur r h n).mp (by rw [hx]; rfl)).1
    obtain ⟨o, ho, hn, hp⟩ := crossPart_ok c c1 cur r h n sub b hx
    obtain ⟨hm, _, hw, hbh⟩ := rse_mem c cur o n ho
    obtain ⟨hb1, hb2, hb3⟩ := (C03_instance_level c.algo o.bs h).1 b hp
    exact ⟨o, hm, hn, hb1, hb2, hb3, hn ▸ hbh, Or.inr ⟨hw, hpos⟩⟩
  unfold balance at hres
  split at hres
  · simp at hres
  · split at hres
    · simp at hres
    · rename_i cur hf
      split at hres
      · simp at hres
      · rename_i hbh
        have hne : cur.name ≠ blackholeName := by simpa using hbh
        split at hres
        · split at hres
          · rename_i b' bs' hp
            simp at hres
            obtain ⟨hb1, hb2, hb3⟩ := (C03_instance_level c.algo cur.bs h).1 b (by rw [hp, ← hres.2])
            exact ⟨cur, firstChoice_mem c h cur hf, hres.1, hb1, hb2, hb3, hres.1 ▸ hne, Or.inl hf⟩
          · exact key _ _ _ hres
        · exact key _ _ _ hres

/-- **Black hole**: a request whose hash choice is `GSLB_BLACKHOLE` is rejected with `ErrGslbBlackhole`
    (never forwarded), as long as it is within its retry budget. -/
theorem C03_blackhole (c : Cl) (retry : Int) (h n : Nat) (cur : SubSt)
    (hbud : retry ≤ c.retryMax + c.crossRetry)
    (hf : firstChoice c h = some cur) (hb : cur.name = blackholeName) :
    (balance c retry h n).1 = .err .blackhole blackholeName := by
  unfold balance
  have : ¬ retry > c.retryMax + c.crossRetry := by omega
  simp [this, hf, hb]

/-- **First choice has positive weight**: on a cluster built by `Init`, the hash-chosen sub-cluster has weight > 0. -/
theorem C03_first_choice_positive (conf : List SubSt) (rm cr : Int) (a : Algo) (c : Cl)
    (hnd : (conf.map (·.name)).Nodup)
    (hc : mkCluster conf rm cr a = some c) (h : Nat) (s : SubSt) (hf : firstChoice c h = some s) : 0 < s.w := by
  unfold mkCluster at hc
  split at hc
  · simp at hc
  · rename_i g hg
    simp at hc; subst hc
    unfold firstChoice at hf
    simp only [] at hf
    obtain ⟨x, hx, hfs⟩ := Option.bind_eq_some_iff.mp hf
    unfold C02.gslbInit at hg
    obtain ⟨x', hx', _, hxw, hxm⟩ := C02.C02_sub_partition _ g hg h
    rw [hx] at hx'; simp at hx'; subst hx'
    -- the sub-cluster found by name carries the same weight: both lists are sorted images of `conf`
    unfold findSub at hfs
    simp only [] at hfs
    have hs := List.find?_some hfs
    have hsm := List.mem_of_find?_eq_some hfs
    have hsm' : s ∈ conf := (C02.isort_perm _ conf).mem_iff.mp hsm
    have hxm' : x ∈ conf.map (fun s => ({ name := s.name, w := s.w } : C02.Sub)) :=
      (C02.isort_perm _ _).mem_iff.mp hxm
    obtain ⟨s', hs', hx'⟩ := List.mem_map.mp hxm'
    have hname : s.name = s'.name := by
      have : s.name = x.name := by simpa using hs
      rw [this, ← hx']
    have : s = s' := eq_of_nodup_map (·.name) conf hnd s hsm' s' hs' hname
    subst this
    rw [← hx'] at hxw; exact hxw

/-! ### non-vacuity: first choice `a` is all down, cross retry lands on `b` (n = 0) -/
def exCl : Cl :=
  { subs := [⟨"a", 1, [⟨"x:1", 100, 100, 0, false⟩]⟩, ⟨"b", 0, [⟨"y:1", 100, 100, 0, true⟩, ⟨"z:1", 0, 0, 0, true⟩]⟩]
    g := { subs := [⟨"a", 1⟩, ⟨"b", 0⟩], total := 1, single := true, avail := 0 }
    retryMax := 2, crossRetry := 1, algo := .smooth }
example : (balance exCl 0 7 0).1 = .ok "b" ⟨"y:1", 100, 100, 0, true⟩ := by decide
example : (balance { exCl with crossRetry := 0 } 0 7 0).1 = .err .noBackend "a" := by decide
example : (balance exCl 4 7 0).1 = .err .retryTooMany "" := by decide

end BfeVerif.C03
