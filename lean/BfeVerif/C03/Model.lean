import BfeVerif.C02.Model
import BfeVerif.C04.Model
/-
  C03 — model of `BalanceGslb.Balance` (bfe_balance/bal_gslb/bal_gslb.go) down to the instance level:
    retry budget check, sub-cluster choice by hash (`subClusterBalance`, model in C02), black-hole check,
    in-cluster attempt (`SubCluster.balance` -> `BalanceRR.Balance` with WrrSmooth / WlcSmooth / WrrSticky),
    `req.RetryTime = retryMax`, cross-cluster retry through `randomSelectExclude` (its `rand` value is the
    oracle parameter `n`).
  Reuses the loops modelled for C02 (`walk`, `isort`, `subBalance`, `gslbInit`) and C04 (`smooth`, `wlc`).
  Core-only.
-/
namespace BfeVerif.C03
open BfeVerif

structure Be where
  addr : String
  w : Int
  cur : Int
  conn : Int
  avail : Bool
  final : Int := 0        -- BackendRR.weightSS.final (weight at Init, target of a slow start)
  inSS : Bool := false    -- BackendRR.inSlowStart
  age : Int := 0          -- seconds since weightSS.startTime (the harness controls it through a hook)
  restart : Bool := false -- BfeBackend.restarted (set by Update for new backends and by the health checker)
deriving Repr, DecidableEq

def Be.toB (b : Be) : C04.B := { w := b.w, cur := b.cur, conn := b.conn, avail := b.avail }

/-- negation of the skip test `!Avail() || weight <= 0` used by every algorithm -/
def elig (b : Be) : Bool := b.avail && decide (0 < b.w)

def setCurs (bs : List Be) (ns : List C04.B) : List Be :=
  List.zipWith (fun b n => { b with cur := n.cur }) bs ns

inductive Algo | smooth | wlc | sticky
deriving Repr, DecidableEq

/-- `stickyBalance` on the sorted list (both error returns are `none`) -/
def stickyBe (sorted : List Be) (h : Nat) : Option Be :=
  let cands := (sorted.filter elig).map fun b => (b, b.w)
  if cands.isEmpty then none else C02.walk cands (C02.getHash h (C02.sumW cands))

/-- `SubCluster.balance(algor, key)`: (backend or error, new list state) -/
def subPick (a : Algo) (bs : List Be) (h : Nat) : Option Be × List Be :=
  if bs.isEmpty then (none, bs)          -- "no backend in sub cluster"
  else match a with
    | .smooth =>
      let r := C04.smooth (bs.map Be.toB) (fun _ => true)
      (r.1.bind (bs[·]?), setCurs bs r.2)
    | .wlc =>
      let r := C04.wlc .smoothTie (bs.map Be.toB) 0
      (r.1.bind (bs[·]?), setCurs bs r.2)
    | .sticky =>
      let s := C02.isort (·.addr) bs     -- `ensureSortedUnlocked` sorts `brr.backends` in place
      (stickyBe s h, s)

structure SubSt where
  name : String
  w : Int
  bs : List Be
  ss : Int := 0           -- BalanceRR.slowStartTime of this sub-cluster (0 for one created by Reload)
deriving Repr, DecidableEq

/-- one iteration of the loop in `checkSlowStart` (slowStartTime = `ssT` > 0):
      if backend.GetRestart() { SetRestart(false); initSlowStart(ssT) }   -- weight = current = 1, startTime = now
      updateSlowStart()            -- in the SAME pass: weight = final * elapsed / ssT, capped at final (then leave slow start)
    so the `weight = 1` of initSlowStart never survives the call: the weight used for the decision is ≤ final. -/
def ssStep (ssT : Int) (b : Be) : Be :=
  let b1 : Be := if b.restart then { b with restart := false, inSS := true, age := 0, w := 1, cur := 1 } else b
  if b1.inSS then
    let w := Int.tdiv (b1.final * b1.age) ssT
    if w ≥ b1.final then { b1 with w := b1.final, inSS := false } else { b1 with w := w }
  else b1

/-- the backend list as `checkSlowStart` leaves it (`Balance` skips it for WrrSticky) -/
def effBs (a : Algo) (s : SubSt) : List Be :=
  if a = .sticky ∨ s.ss ≤ 0 then s.bs else s.bs.map (ssStep s.ss)

def blackholeName : String := "GSLB_BLACKHOLE"

structure Cl where
  subs : List SubSt      -- in `bal.subClusters` order (sorted by name)
  g : C02.Gslb           -- totalWeight / single / avail and the (name, weight) list
  retryMax : Int
  crossRetry : Int
  algo : Algo

inductive Err
  | retryTooMany | noSubCluster | blackhole | noBackend | noSubClusterCross | crossRetryBalance
deriving Repr, DecidableEq

inductive Res
  | ok (sub : String) (b : Be)
  | err (e : Err) (sub : String)     -- `sub` = req.Backend.SubclusterName as left by the call ("" if untouched)
deriving Repr, DecidableEq

def findSub (c : Cl) (name : String) : Option SubSt := c.subs.find? (·.name == name)

/-- first choice: `subClusterBalance(hashKey)` -/
def firstChoice (c : Cl) (h : Nat) : Option SubSt :=
  (C02.subBalance c.g h).bind fun s => findSub c s.name

/-- the sub-clusters `randomSelectExclude(current)` may return -/
def others (c : Cl) (cur : SubSt) : List SubSt :=
  c.subs.filter fun s => s.name != cur.name && decide (0 ≤ s.w) && s.name != blackholeName

/-- `randomSelectExclude`: `n` = `int(r.Int31())` -/
def randomSelectExclude (c : Cl) (cur : SubSt) (n : Nat) : Option SubSt :=
  let o := others c cur
  if o.isEmpty then none else o[n % o.length]?

def setSub (c : Cl) (name : String) (bs : List Be) : Cl :=
  { c with subs := c.subs.map fun s => if s.name == name then { s with bs := bs } else s }

/-- the part of `Balance` after the in-cluster attempt: cross-retry check, `randomSelectExclude`, second attempt.
    `c1` = state after the in-cluster attempt (names and weights of sub-clusters are those of `c`, and the
    sub-cluster picked here differs from `cur`, so its backend list is the one in `c`). -/
def crossPart (c c1 : Cl) (cur : SubSt) (retry1 : Int) (h n : Nat) : Res × Int × Cl :=
  if c.crossRetry ≤ 0 then (.err .noBackend cur.name, retry1, c1)
  else match randomSelectExclude c cur n with
    | none => (.err .noSubClusterCross cur.name, retry1, c1)
    | some o =>
      match subPick c.algo (effBs c.algo o) h with
      | (some b, bs') => (.ok o.name b, retry1, setSub c1 o.name bs')
      | (none, bs') => (.err .crossRetryBalance o.name, retry1, setSub c1 o.name bs')

/-- `BalanceGslb.Balance`: (result, RetryTime after the call, new cluster state) -/
def balance (c : Cl) (retry : Int) (h : Nat) (n : Nat) : Res × Int × Cl :=
  if retry > c.retryMax + c.crossRetry then (.err .retryTooMany "", retry, c)
  else match firstChoice c h with
    | none => (.err .noSubCluster "", retry, c)
    | some cur =>
      if cur.name == blackholeName then (.err .blackhole cur.name, retry, c)
      else if retry ≤ c.retryMax then
        match subPick c.algo (effBs c.algo cur) h with
        | (some b, bs') => (.ok cur.name b, retry, setSub c cur.name bs')
        | (none, bs') => crossPart c (setSub c cur.name bs') cur c.retryMax h n   -- `req.RetryTime = bal.retryMax`
      else crossPart c c cur retry h n

/-- build the cluster as `Init` + `BackendInit` do (`none`: total weight 0) -/
def mkCluster (conf : List SubSt) (retryMax crossRetry : Int) (algo : Algo) : Option Cl :=
  match C02.gslbInit (conf.map fun s => { name := s.name, w := s.w }) with
  | none => none
  | some g => some { subs := C02.isort (·.name) conf, g := g, retryMax := retryMax, crossRetry := crossRetry, algo := algo }

/-! ### backend lists: `BalanceRR.Init` / `BalanceRR.Update` (reached through BackendInit / BackendReload) -/

/-- the backend part of the configuration of one sub-cluster: AddrInfo -> configured weight (keys distinct) -/
abbrev BConf := List (String × Int)

/-- `BalanceRR.Init(conf)`: weight = current = final = 100 * configured weight, available, no connection -/
def initBs (conf : BConf) : List Be :=
  conf.map fun p => { addr := p.1, w := 100 * p.2, cur := 100 * p.2, conn := 0, avail := true, final := 100 * p.2 }

/-- `BalanceRR.Update(conf)`: the old list is walked in order; a backend found in the conf survives with
    `UpdateWeight` (weight = 100*c; current := 0 if c <= 0; avail, connNum, `final` and slow-start state stay),
    the others are released; the backends only in the conf are appended as new, marked restarted. -/
def updateBs (bs : List Be) (conf : BConf) : List Be :=
  (bs.filterMap fun b => (conf.find? (·.1 == b.addr)).map fun p =>
      { b with w := 100 * p.2, cur := if p.2 ≤ 0 then 0 else b.cur }) ++
  (conf.filter fun p => !(bs.any fun b => b.addr == p.1)).map fun p =>
      { addr := p.1, w := 100 * p.2, cur := 100 * p.2, conn := 0, avail := true, final := 100 * p.2, restart := true }

/-! ### `BalanceGslb.Reload` -/

/-- the Go map `gslb_conf.GslbClusterConf` as an association list (keys distinct) -/
abbrev GConf := List (String × Int)

def lookupW (conf : GConf) (n : String) : Option Int := (conf.find? (·.1 == n)).map (·.2)

/-- first loop of `Reload`: existing sub-clusters found in the new conf, in their old order, re-weighted -/
def kept (subs : List SubSt) (conf : GConf) : List SubSt :=
  subs.filterMap fun s => (lookupW conf s.name).map fun w => { s with w := w }

/-- second loop: sub-clusters of the conf that did not exist, created without backends
    (Go iterates the map in arbitrary order; the list is sorted right afterwards) -/
def added (subs : List SubSt) (conf : GConf) : List SubSt :=
  (conf.filter fun p => !(subs.any fun s => s.name == p.1)).map fun p => { name := p.1, w := p.2, bs := [] }

def toSubs (l : List SubSt) : List C02.Sub := l.map fun s => { name := s.name, w := s.w }

/-- `Reload`: sort FIRST, then totalWeight / availableNum / lastAvailIndex over the sorted list.
    `false` = error return ("gslb total weight = 0"): `bal.subClusters`, totalWeight, single, avail are left
    alone, but the weights of the surviving sub-cluster objects have already been overwritten. -/
def reload (c : Cl) (conf : GConf) : Cl × Bool :=
  let l := C02.isort (·.name) (kept c.subs conf ++ added c.subs conf)
  let total := ((C02.posW (toSubs l)).map (·.w)).sum
  if total = 0 then
    let subs' := c.subs.map fun s => match lookupW conf s.name with
      | some w => { s with w := w }
      | none => s
    ({ c with subs := subs', g := { c.g with subs := toSubs subs' } }, false)
  else
    let single := (C02.posW (toSubs l)).length == 1
    ({ c with subs := l
              g := { subs := toSubs l, total := total, single := single
                     avail := if single then C02.lastPos (toSubs l) 0 0 else c.g.avail } }, true)

/-- an eligible backend exists once `checkSlowStart` has run -/
def hasElig (a : Algo) (s : SubSt) : Bool := (effBs a s).any elig

end BfeVerif.C03
