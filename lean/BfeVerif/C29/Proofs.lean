import BfeVerif.C29.Model
/-! Lemmas for C29 (core Lean only). -/
namespace BfeVerif.C29
open BfeVerif.C25

theorem hvals_hset_same (h : Hdr) (k v : Bytes) : hvals (hset h k v) k = some [v] := by
  induction h with
  | nil => simp [hset, hvals]
  | cons kv rest ih =>
    unfold hset
    cases e : (kv.1 == k) with
    | true => simp [hvals]
    | false =>
      simp only [Bool.false_eq_true, if_false]
      unfold hvals at ih ⊢
      simp only [List.find?_cons, e]
      exact ih

theorem hvals_hset_ne (h : Hdr) (k k' v : Bytes) (hne : k ≠ k') : hvals (hset h k' v) k = hvals h k := by
  induction h with
  | nil =>
    have : (k' == k) = false := by simp [Ne.symm hne]
    simp [hset, hvals, this]
  | cons kv rest ih =>
    unfold hset
    cases e : (kv.1 == k') with
    | true =>
      have e' : kv.1 = k' := by simpa using e
      have h1 : (kv.1 == k) = false := by simp [e', Ne.symm hne]
      have h2 : (k' == k) = false := by simp [Ne.symm hne]
      simp only [if_true]
      unfold hvals
      simp only [List.find?_cons, h1, h2]
    | false =>
      simp only [Bool.false_eq_true, if_false]
      unfold hvals at ih ⊢
      simp only [List.find?_cons]
      cases e2 : (kv.1 == k) with
      | true => rfl
      | false => exact ih

/-- `v` is the list element `t`, or ends with `", " t` -/
def EndsWithElem (v t : Bytes) : Prop := v = t ∨ ∃ p, v = p ++ commaSp ++ t

theorem hvals_appendTo_same (h : Hdr) (k v : Bytes) :
    ∃ x, hvals (appendTo h k v) k = some [x] ∧ EndsWithElem x v := by
  unfold appendTo
  cases hvals h k with
  | none => exact ⟨v, hvals_hset_same h k v, Or.inl rfl⟩
  | some prior => exact ⟨_, hvals_hset_same h k _, Or.inr ⟨joinCS prior, rfl⟩⟩

theorem hvals_appendTo_ne (h : Hdr) (k k' v : Bytes) (hne : k ≠ k') :
    hvals (appendTo h k' v) k = hvals h k := by
  unfold appendTo
  cases hvals h k' with
  | none => exact hvals_hset_ne h k k' v hne
  | some prior => exact hvals_hset_ne h k k' _ hne

/-- the first (optional) step of `setDefaultHeader` does not touch key `k ≠ X-Forwarded-Host` -/
theorem hvals_xfh (i : In) (k : Bytes) (hne : k ≠ kXFHost) :
    hvals (if i.host.isEmpty then i.hdr else appendTo i.hdr kXFHost i.host) k = hvals i.hdr k := by
  split
  · rfl
  · exact hvals_appendTo_ne _ _ _ _ hne

/-! ## the hop-by-hop removal that follows mod_header keeps the headers BFE set -/
theorem hvals_filter_ne (h : Hdr) (k k' : Bytes) (hne : k ≠ k') :
    hvals (h.filter fun kv => kv.1 != k') k = hvals h k := by
  unfold hvals
  induction h with
  | nil => rfl
  | cons x xs ih =>
    by_cases hx : x.1 = k'
    · have h1 : (x.1 != k') = false := by simp [hx]
      have h2 : (x.1 == k) = false := by
        simp only [beq_eq_false_iff_ne, ne_eq]; intro e; exact hne (e.symm.trans hx)
      simp only [List.filter_cons, h1, List.find?_cons, h2]
      exact ih
    · have h1 : (x.1 != k') = true := by simp [hx]
      simp only [List.filter_cons, h1, if_true, List.find?_cons]
      cases h2 : (x.1 == k) with
      | true => rfl
      | false => exact ih

theorem hvals_hopStep_ne (h : Hdr) (k k' : Bytes) (hne : k ≠ k') :
    hvals (BfeVerif.C26.hopStep h k') k = hvals h k := by
  unfold BfeVerif.C26.hopStep
  simp only
  split
  · rfl
  · split
    · rfl
    · exact hvals_filter_ne h k k' hne

theorem hvals_foldl_hopStep (l : List Bytes) (h : Hdr) (k : Bytes) (hl : ∀ k' ∈ l, k ≠ k') :
    hvals (l.foldl BfeVerif.C26.hopStep h) k = hvals h k := by
  induction l generalizing h with
  | nil => rfl
  | cons k' ks ih =>
    simp only [List.foldl_cons]
    rw [ih _ (fun x hx => hl x (List.mem_cons_of_mem _ hx)), hvals_hopStep_ne h k k' (hl k' (List.mem_cons_self ..))]

/-- no name BFE protects is a standard hop-by-hop header (both tables regenerated from the source) -/
theorem protected_not_hop :
    ∀ k ∈ BfeVerif.Generated.C29.hopProtected, k ∉ BfeVerif.Generated.C29.hopHeaders := by decide

theorem upstream_keeps (i : In) (k : Bytes) (hk : k ∈ BfeVerif.Generated.C29.hopProtected) :
    hvals (upstream i) k = hvals (resolve i).2 k := by
  unfold upstream BfeVerif.C26.hopRemoveP
  apply hvals_foldl_hopStep
  intro k' hk' e
  subst e
  rcases List.mem_append.mp hk' with h1 | h1
  · exact protected_not_hop k hk h1
  · unfold BfeVerif.C26.connNamesP at h1
    have := (List.mem_filter.mp h1).2
    simp only [Bool.and_eq_true, Bool.not_eq_true'] at this
    rw [List.contains_iff_mem.mpr hk] at this
    exact absurd this.2 (by simp)

end BfeVerif.C29
