import BfeVerif.C29.Model
/-! Lemmas for C29 (core Lean only). -/
namespace BfeVerif.C29
open BfeVerif.C25

theorem hvals_hset_same (h : Hdr) (k v : Bytes) : hvals (hset h k v) k = some [v] := by
  induction h with
  | nil => simp [hset, hvals]
  | cons kv rest ih =>
    unfold hset
    cases e : (kv.1 == k) with
    | true => simp [hvals]
    | false =>
      simp only [Bool.false_eq_true, if_false]
      unfold hvals at ih ⊢
      simp only [List.find?_cons, e]
      exact ih

theorem hvals_hset_ne (h : Hdr) (k k' v : Bytes) (hne : k ≠ k') : hvals (hset h k' v) k = hvals h k := by
  induction h with
  | nil =>
    have : (k' == k) = false := by simp [Ne.symm hne]
    simp [hset, hvals, this]
  | cons kv rest ih =>
    unfold hset
    cases e : (kv.1 == k') with
    | true =>
      have e' : kv.1 = k' := by simpa using e
      have h1 : (kv.1 == k) = false := by simp [e', Ne.symm hne]
      have h2 : (k' == k) = false := by simp [Ne.symm hne]
      simp only [if_true]
      unfold hvals
      simp only [List.find?_cons, h1, h2]
    | false =>
      simp only [Bool.false_eq_true, if_false]
      unfold hvals at ih ⊢
      simp only [List.find?_cons]
      cases e2 : (kv.1 == k) with
      | true => rfl
      | false => exact ih

/-- `v` is the list element `t`, or ends with `", " t` -/
def EndsWithElem (v t : Bytes) : Prop := v = t ∨ ∃ p, v = p ++ commaSp ++ t

theorem hvals_appendTo_same (h : Hdr) (k v : Bytes) :
    ∃ x, hvals (appendTo h k v) k = some [x] ∧ EndsWithElem x v := by
  unfold appendTo
  cases hvals h k with
  | none => exact ⟨v, hvals_hset_same h k v, Or.inl rfl⟩
  | some prior => exact ⟨_, hvals_hset_same h k _, Or.inr ⟨joinCS prior, rfl⟩⟩

theorem hvals_appendTo_ne (h : Hdr) (k k' v : Bytes) (hne : k ≠ k') :
    hvals (appendTo h k' v) k = hvals h k := by
  unfold appendTo
  cases hvals h k' with
  | none => exact hvals_hset_ne h k k' v hne
  | some prior => exact hvals_hset_ne h k k' _ hne

/-- the first (optional) step of `setDefaultHeader` does not touch key `k ≠ X-Forwarded-Host` -/
theorem hvals_xfh (i : In) (k : Bytes) (hne : k ≠ kXFHost) :
    hvals (if i.host.isEmpty then i.hdr else appendTo i.hdr kXFHost i.host) k = hvals i.hdr k := by
  split
  · rfl
  · exact hvals_appendTo_ne _ _ _ _ hne

end BfeVerif.C29
