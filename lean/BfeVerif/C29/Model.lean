import BfeVerif.C25.Model
import BfeVerif.C26.Model
import BfeVerif.Generated.C29
/-
  C29 — model of the client-address resolution:
    mod_trust_clientip.acceptHandler   trusted := trustTable.Search(peer IP)         (SPEC of the table:
                                       membership in the union of the configured [begin,end] ranges)
    bfe_server.setClientAddr           untrusted: ClientAddr = RemoteAddr; trusted: X-Real-Ip, X-Real-Port, else
                                       first element of X-Forwarded-For, X-Forwarded-Port, if it parses
    mod_header.setDefaultHeader        X-Forwarded-Host, -For, -Port appended, X-Real-Ip, X-Real-Port overwritten
                                       when ClientAddr != nil, X-Bfe-Ip set
  `net.ParseIP(s)` (rendered with IP.String()) and `strconv.Atoi(s)` are parameters: dictionaries carried
  by the op and re-checked by the harness.  Core-only.
-/
namespace BfeVerif.C29
open BfeVerif.C25

abbrev Hdr := List (Bytes × List Bytes)

def kXRealIp : Bytes := [88, 45, 82, 101, 97, 108, 45, 73, 112]
def kXRealPort : Bytes := [88, 45, 82, 101, 97, 108, 45, 80, 111, 114, 116]
def kXFF : Bytes := [88, 45, 70, 111, 114, 119, 97, 114, 100, 101, 100, 45, 70, 111, 114]
def kXFPort : Bytes := [88, 45, 70, 111, 114, 119, 97, 114, 100, 101, 100, 45, 80, 111, 114, 116]
def kXFHost : Bytes := [88, 45, 70, 111, 114, 119, 97, 114, 100, 101, 100, 45, 72, 111, 115, 116]
def kXBfeIp : Bytes := [88, 45, 66, 102, 101, 45, 73, 112]
def commaSp : Bytes := [44, 32]

structure In where
  table : List (Bytes × Bytes)      -- trusted ranges, 16-byte addresses, begin ≤ end
  peerIP : Bytes                    -- 16-byte form of the socket peer
  peerText : Bytes                  -- its text (IP.String() = host part of RemoteAddr)
  peerPort : Nat
  host : Bytes                      -- HttpRequest.Host
  hdr : Hdr                         -- keys canonical, distinct
  localText : Bytes                 -- local address text (X-Bfe-Ip)
  ipd : List (Bytes × Option Bytes) -- net.ParseIP(s).String()
  ptd : List (Bytes × Option Int)   -- strconv.Atoi(s)

def bytesLe (a b : Bytes) : Bool := !bytesLt b a

/-- SPEC of `IPTable.Search` after `ipItemsMake`: the peer lies in one of the configured ranges -/
def trusted (i : In) : Bool := i.table.any fun r => bytesLe r.1 i.peerIP && bytesLe i.peerIP r.2

/-- strings.TrimSpace on ASCII -/
def isSpace (b : UInt8) : Bool := b == 32 || b == 9 || b == 10 || b == 11 || b == 12 || b == 13
def trimSpace (v : Bytes) : Bytes := ((v.dropWhile isSpace).reverse.dropWhile isSpace).reverse

/-- `getFirstSplitFromHeader(req, header, ",")` -/
def firstSplit (h : Hdr) (k : Bytes) : Bytes :=
  let s := getFirst h k
  if s.isEmpty then [] else trimSpace (s.takeWhile (· != 44))

def parseIP (i : In) (s : Bytes) : Option Bytes :=
  match i.ipd.find? (fun e => e.1 == s) with
  | some (_, r) => r
  | none => none

def atoi (i : In) (s : Bytes) : Option Int :=
  match i.ptd.find? (fun e => e.1 == s) with
  | some (_, r) => r
  | none => none

/-- the (ip, port) strings `setClientAddr` hands to `parseClientAddr` on the trusted path -/
def candidate (i : In) : Bytes × Bytes :=
  let ip := getFirst i.hdr kXRealIp
  if ip.isEmpty then (firstSplit i.hdr kXFF, firstSplit i.hdr kXFPort)
  else (ip, getFirst i.hdr kXRealPort)

/-- `setClientAddr`: the client address (text, port) or nil -/
def clientAddr (i : In) : Option (Bytes × Int) :=
  if !trusted i then some (i.peerText, (i.peerPort : Int))
  else
    let c := candidate i
    if c.1.isEmpty then none
    else match parseIP i c.1 with
      | none => none
      | some ip => some (ip, (atoi i c.2).getD 0)

/-- `Header.Set(k, v)` on a map (keys distinct): replace the entry of `k` or add one -/
def hset : Hdr → Bytes → Bytes → Hdr
  | [], k, v => [(k, [v])]
  | kv :: rest, k, v => if kv.1 == k then (k, [v]) :: rest else kv :: hset rest k v

def hvals (h : Hdr) (k : Bytes) : Option (List Bytes) := (h.find? fun kv => kv.1 == k).map (·.2)

def joinCS : List Bytes → Bytes
  | [] => []
  | [v] => v
  | v :: vs => v ++ commaSp ++ joinCS vs

/-- `prior, exist := Header[k]; if exist { v = strings.Join(prior, ", ") + ", " + v }; Header.Set(k, v)` -/
def appendTo (h : Hdr) (k v : Bytes) : Hdr :=
  match hvals h k with
  | some prior => hset h k (joinCS prior ++ commaSp ++ v)
  | none => hset h k v

def itoa (n : Int) : Bytes := if n < 0 then 45 :: toDec n.natAbs else toDec n.toNat

/-- `mod_header.setDefaultHeader` -/
def defaultHeader (i : In) (ca : Option (Bytes × Int)) : Hdr :=
  let h := i.hdr
  let h := if i.host.isEmpty then h else appendTo h kXFHost i.host
  let h := appendTo h kXFF i.peerText
  let h := appendTo h kXFPort (toDec i.peerPort)
  let h := match ca with
    | some (ip, port) => hset (hset h kXRealIp ip) kXRealPort (itoa port)
    | none => h
  hset h kXBfeIp i.localText

def resolve (i : In) : Option (Bytes × Int) × Hdr :=
  let ca := clientAddr i
  (ca, defaultHeader i ca)

/-- what is sent upstream: `ReverseProxy.ServeHTTP` copies the request and runs `hopByHopHeaderRemove`
    (model of C26, incl. the names a Connection token cannot remove) AFTER mod_header set its headers -/
def upstream (i : In) : Hdr :=
  BfeVerif.C26.hopRemoveP BfeVerif.Generated.C29.hopHeaders BfeVerif.Generated.C29.hopProtected (resolve i).2

/-! ## trust-table reload histories: the table in force is the one most recently loaded SUCCESSFULLY -/
structure Load where
  version : Bytes                    -- "Version" of the data file (plays no role in the specification)
  ranges : List (Bytes × Bytes)
  good : Bool                        -- the file parses, has a Version and a Config, every begin ≤ end

def tableAfter (init : List (Bytes × Bytes)) : List Load → List (Bytes × Bytes)
  | [] => init
  | l :: ls => tableAfter (if l.good then l.ranges else init) ls

/-! ## SPEC side (judges the implementation's observable result) -/
/-- `s` ends with the list element `t`: `s = t` or `s = … ", " t` -/
def endsWithElem (s t : Bytes) : Bool :=
  s == t || (s.length ≥ t.length + 2 && s.drop (s.length - t.length) == t &&
             (s.take (s.length - t.length)).drop (s.length - t.length - 2) == commaSp)

/-- what the property demands for an untrusted peer, on the observed (clientAddr, headers) -/
def untrustedViolation (i : In) (ca : Option (Bytes × Int)) (h : Hdr) : Option String :=
  if ca != some (i.peerText, (i.peerPort : Int)) then some "untrusted-clientaddr"
  else if hvals h kXRealIp != some [i.peerText] then some "untrusted-realip"
  else if hvals h kXRealPort != some [toDec i.peerPort] then some "untrusted-realport"
  else match hvals h kXFF with
    | some [v] => if endsWithElem v i.peerText then none else some "untrusted-xff"
    | _ => some "untrusted-xff"

/-- the documented precedence for a trusted peer: X-Real-Ip (with X-Real-Port), else the first element
    of X-Forwarded-For (with the first of X-Forwarded-Port); unparsable ⇒ no client address -/
def trustedExpected (i : In) : Option (Bytes × Int) :=
  let rip := getFirst i.hdr kXRealIp
  if !rip.isEmpty then (parseIP i rip).map fun ip => (ip, (atoi i (getFirst i.hdr kXRealPort)).getD 0)
  else
    let f := firstSplit i.hdr kXFF
    if f.isEmpty then none
    else (parseIP i f).map fun ip => (ip, (atoi i (firstSplit i.hdr kXFPort)).getD 0)

def trustedViolation (i : In) (ca : Option (Bytes × Int)) (h : Hdr) : Option String :=
  if ca != trustedExpected i then some "trusted-precedence"
  else match ca with
    | some (ip, port) =>
      if hvals h kXRealIp != some [ip] || hvals h kXRealPort != some [itoa port] then some "trusted-realip" else none
    | none => if (hvals h kXRealIp).getD [] != (hvals i.hdr kXRealIp).getD [] then some "trusted-realip-touched" else none

end BfeVerif.C29
