import BfeVerif.C29.Driver
def main : IO Unit := BfeVerif.Proto.driverMain BfeVerif.C29.run
