import BfeVerif.C29.Proofs
/-!
  C29 — client address cannot be spoofed by untrusted peers.  Property theorems only.
  `resolve i` = (`req.ClientAddr` after `setClientAddr`, header map after `mod_header.setDefaultHeader`);
  `trusted i` = the peer lies in one of the configured trusted ranges.  Quantified over ALL header maps,
  trust tables, peers, hosts and over arbitrary `net.ParseIP` / `strconv.Atoi` behaviours (`i.ipd`, `i.ptd`).
-/
namespace BfeVerif.C29
open BfeVerif.C25

/-- **Untrusted peer**: whatever the request headers say, the client address is the socket peer,
    `X-Real-Ip` / `X-Real-Port` are overwritten with it and `X-Forwarded-For` ends with the peer IP. -/
theorem C29_untrusted (i : In) (hu : trusted i = false) :
    (resolve i).1 = some (i.peerText, (i.peerPort : Int)) ∧
    hvals (resolve i).2 kXRealIp = some [i.peerText] ∧
    hvals (resolve i).2 kXRealPort = some [toDec i.peerPort] ∧
    ∃ v, hvals (resolve i).2 kXFF = some [v] ∧ EndsWithElem v i.peerText := by
  have hca : clientAddr i = some (i.peerText, (i.peerPort : Int)) := by
    unfold clientAddr; simp [hu]
  have hitoa : itoa (i.peerPort : Int) = toDec i.peerPort := by
    unfold itoa
    have : ¬ ((i.peerPort : Int) < 0) := by omega
    simp [this]
  unfold resolve
  simp only [hca]
  unfold defaultHeader
  simp only []
  refine ⟨trivial, ?_, ?_, ?_⟩
  · rw [hvals_hset_ne _ _ _ _ (by decide), hvals_hset_ne _ _ _ _ (by decide), hvals_hset_same]
  · rw [hvals_hset_ne _ _ _ _ (by decide), hvals_hset_same, hitoa]
  · rw [hvals_hset_ne _ _ _ _ (by decide), hvals_hset_ne _ _ _ _ (by decide), hvals_hset_ne _ _ _ _ (by decide),
        hvals_appendTo_ne _ _ _ _ (by decide)]
    exact hvals_appendTo_same _ _ _

/-- **X-Forwarded-For always ends with the socket peer** (trusted or not, any client address). -/
theorem C29_xff_appended (i : In) :
    ∃ v, hvals (resolve i).2 kXFF = some [v] ∧ EndsWithElem v i.peerText := by
  unfold resolve defaultHeader
  simp only []
  rw [hvals_hset_ne _ _ _ _ (by decide)]
  cases clientAddr i with
  | none =>
    simp only []
    rw [hvals_appendTo_ne _ _ _ _ (by decide)]
    exact hvals_appendTo_same _ _ _
  | some c =>
    simp only []
    rw [hvals_hset_ne _ _ _ _ (by decide), hvals_hset_ne _ _ _ _ (by decide), hvals_appendTo_ne _ _ _ _ (by decide)]
    exact hvals_appendTo_same _ _ _

/-- **Trusted peer, documented precedence**: X-Real-Ip (port from X-Real-Port) when present and non-empty,
    else the first element of X-Forwarded-For (port: first element of X-Forwarded-Port); an address that
    does not parse gives no client address; an unparsable port gives port 0. -/
theorem C29_trusted (i : In) (ht : trusted i = true) : (resolve i).1 = trustedExpected i := by
  unfold resolve clientAddr trustedExpected candidate
  simp only [ht]
  cases h1 : (getFirst i.hdr kXRealIp).isEmpty with
  | true =>
    cases h2 : (firstSplit i.hdr kXFF).isEmpty with
    | true => simp [h2]
    | false => cases h3 : parseIP i (firstSplit i.hdr kXFF) <;> simp [h2, h3]
  | false => cases h3 : parseIP i (getFirst i.hdr kXRealIp) <;> simp [h1, h3]

/-- Trusted peer without a usable address header: `ClientAddr` stays nil and the client's X-Real-Ip
    header is left as it came (nothing is invented). -/
theorem C29_trusted_nil_untouched (i : In) (hn : (resolve i).1 = none) :
    hvals (resolve i).2 kXRealIp = hvals i.hdr kXRealIp := by
  unfold resolve at hn ⊢
  simp only [] at hn ⊢
  unfold defaultHeader
  simp only [hn]
  rw [hvals_hset_ne _ _ _ _ (by decide), hvals_appendTo_ne _ _ _ _ (by decide), hvals_appendTo_ne _ _ _ _ (by decide)]
  exact hvals_xfh i kXRealIp (by decide)

/-! ### what reaches the backend: hop-by-hop removal runs AFTER mod_header -/

/-- **Upstream headers of an untrusted peer**: also after `hopByHopHeaderRemove` — whatever the client's
    `Connection` header names (`Connection: X-Real-Ip, X-Forwarded-For` included) — the request sent upstream
    carries X-Real-Ip / X-Real-Port of the socket peer and an X-Forwarded-For ending with it.
    (Holds since the second C26 fix: names in `hopByHopProtected` are exempt from Connection-token removal;
    with fix cd2d7d0 alone `Connection: X-Real-Ip` stripped the header BFE had just set.) -/
theorem C29_untrusted_upstream (i : In) (hu : trusted i = false) :
    hvals (upstream i) kXRealIp = some [i.peerText] ∧
    hvals (upstream i) kXRealPort = some [toDec i.peerPort] ∧
    ∃ v, hvals (upstream i) kXFF = some [v] ∧ EndsWithElem v i.peerText := by
  have h := C29_untrusted i hu
  rw [upstream_keeps i kXRealIp (by decide), upstream_keeps i kXRealPort (by decide),
      upstream_keeps i kXFF (by decide)]
  exact h.2

/-- the same for every peer: none of the headers BFE sets itself can be removed by the client's Connection header -/
theorem C29_upstream_keeps_bfe_headers (i : In) :
    ∀ k ∈ BfeVerif.Generated.C29.hopProtected, hvals (upstream i) k = hvals (resolve i).2 k :=
  fun k hk => upstream_keeps i k hk

/-! ### trust-table reloads: the table in force is the one most recently loaded successfully -/

/-- a failed load keeps the table, a successful one replaces it — whatever the Version strings are -/
theorem C29_reload_last_good (init : List (Bytes × Bytes)) (ls : List Load) (l : Load) :
    tableAfter init (ls ++ [l]) = if l.good then l.ranges else tableAfter init ls := by
  induction ls generalizing init with
  | nil => simp [tableAfter]
  | cons x xs ih => simp only [List.cons_append, tableAfter]; exact ih _

/-- **A peer removed by a reload is untrusted at once**: after any history of loads, a connection whose peer is
    outside the ranges of the last successful load gets the socket peer as client address and in the upstream
    headers, whatever it was before and whatever Version the files carried. -/
theorem C29_reload_untrusted (loads : List Load) (i : In)
    (hi : i.table = tableAfter [] loads) (hu : trusted i = false) :
    (resolve i).1 = some (i.peerText, (i.peerPort : Int)) ∧
    hvals (upstream i) kXRealIp = some [i.peerText] :=
  ⟨(C29_untrusted i hu).1, (C29_untrusted_upstream i hu).1⟩

/-! ### trusted-peer corner cases, stated explicitly (all are instances of `C29_trusted`; the peer text,
    IPv4 or IPv6, and the dictionaries `ipd`/`ptd` are arbitrary, so nothing below depends on the address family) -/

/-- **Several X-Forwarded-For lines / list elements**: with no usable X-Real-Ip, only the FIRST comma-separated
    element of the FIRST X-Forwarded-For value is consulted: the client address of a trusted peer does not
    depend on further X-Forwarded-For (or X-Forwarded-Port) lines. -/
theorem C29_trusted_first_xff_only (i : In) (ht : trusted i = true)
    (hx : getFirst i.hdr kXRealIp = []) :
    (resolve i).1 =
      (if (firstSplit i.hdr kXFF).isEmpty then none
       else (parseIP i (firstSplit i.hdr kXFF)).map fun ip => (ip, (atoi i (firstSplit i.hdr kXFPort)).getD 0)) := by
  rw [C29_trusted i ht]
  unfold trustedExpected
  simp [hx]

/-- `firstSplit` really ignores later lines and later list elements: it is a function of the first value up to
    its first comma. -/
theorem C29_firstSplit_first_only (k v : Bytes) (more : List Bytes) (rest rest' : Hdr) :
    firstSplit ((k, v :: more) :: rest) k = firstSplit ((k, [v]) :: rest') k := by
  unfold firstSplit getFirst
  simp

/-- **Ports out of range are honoured as sent**: for a trusted peer whose X-Real-Ip parses, whatever integer
    `strconv.Atoi` returns for X-Real-Port (negative, > 65535) becomes `ClientAddr.Port` and is written to
    X-Real-Port; there is no range check.  (Recorded behaviour for TRUSTED peers only: by `C29_untrusted` an
    untrusted peer cannot reach this branch.) -/
theorem C29_trusted_port_unchecked (i : In) (ht : trusted i = true) (ip : Bytes) (n : Int)
    (hx : getFirst i.hdr kXRealIp ≠ []) (hip : parseIP i (getFirst i.hdr kXRealIp) = some ip)
    (hp : atoi i (getFirst i.hdr kXRealPort) = some n) :
    (resolve i).1 = some (ip, n) ∧ hvals (resolve i).2 kXRealPort = some [itoa n] := by
  have hca : (resolve i).1 = some (ip, n) := by
    rw [C29_trusted i ht]
    unfold trustedExpected
    have : (getFirst i.hdr kXRealIp).isEmpty = false := by
      cases h : getFirst i.hdr kXRealIp with
      | nil => exact absurd h hx
      | cons _ _ => rfl
    simp [this, hip, hp]
  refine ⟨hca, ?_⟩
  unfold resolve at hca ⊢
  simp only [] at hca ⊢
  unfold defaultHeader
  simp only [hca]
  rw [hvals_hset_ne _ _ _ _ (by decide), hvals_hset_same]

/-- an unparsable port gives port 0 (and X-Real-Port "0"), not the peer's port -/
theorem C29_trusted_bad_port_zero (i : In) (ht : trusted i = true) (ip : Bytes)
    (hx : getFirst i.hdr kXRealIp ≠ []) (hip : parseIP i (getFirst i.hdr kXRealIp) = some ip)
    (hp : atoi i (getFirst i.hdr kXRealPort) = none) :
    (resolve i).1 = some (ip, 0) := by
  rw [C29_trusted i ht]
  unfold trustedExpected
  have : (getFirst i.hdr kXRealIp).isEmpty = false := by
    cases h : getFirst i.hdr kXRealIp with
    | nil => exact absurd h hx
    | cons _ _ => rfl
  simp [this, hip, hp]

/-! non-vacuity: an untrusted peer that sends spoofed headers, and a trusted one whose header is honoured -/
def exIn (tr : Bool) : In :=
  { table := [([10], [20])], peerIP := if tr then [15] else [30], peerText := [112], peerPort := 4242, host := [104],
    hdr := [(kXRealIp, [[49]]), (kXFF, [[50, 44, 32, 51]])], localText := [108],
    ipd := [([49], some [49]), ([50], some [50])], ptd := [([], none)] }
example : trusted (exIn false) = false := by decide
example : trusted (exIn true) = true := by decide
example : (resolve (exIn true)).1 = some ([49], 0) := by decide
example : (resolve (exIn false)).1 = some ([112], 4242) := by decide
/-- an IPv6 peer (`2001:db8::1`), trusted range `2001:db8::/124`, X-Forwarded-For `2001:db8::9, 1.1.1.1` twice, port 70000 -/
def exV6 : In :=
  { table := [([32,1,13,184,0,0,0,0,0,0,0,0,0,0,0,0], [32,1,13,184,0,0,0,0,0,0,0,0,0,0,0,15])],
    peerIP := [32,1,13,184,0,0,0,0,0,0,0,0,0,0,0,1], peerText := [50,48,48,49,58,100,98,56,58,58,49], peerPort := 65535, host := [],
    hdr := [(kXFF, [[50,48,48,49,58,100,98,56,58,58,57,44,32,49,46,49,46,49,46,49], [54,46,54,46,54,46,54]]), (kXFPort, [[55,48,48,48,48]])],
    localText := [108], ipd := [([50,48,48,49,58,100,98,56,58,58,57], some [50,48,48,49,58,100,98,56,58,58,57])], ptd := [([55,48,48,48,48], some 70000)] }
/-- same Version, peer removed: the second file decides -/
example : tableAfter [] [⟨[118], [([10], [20])], true⟩, ⟨[118], [], true⟩, ⟨[119], [([1], [2])], false⟩] = [] := by decide
example : trusted exV6 = true ∧ (resolve exV6).1 = some ([50,48,48,49,58,100,98,56,58,58,57], 70000) := by decide

end BfeVerif.C29
