import BfeVerif.C29.Proofs
/-!
  C29 — client address cannot be spoofed by untrusted peers.  Property theorems only.
  `resolve i` = (`req.ClientAddr` after `setClientAddr`, header map after `mod_header.setDefaultHeader`);
  `trusted i` = the peer lies in one of the configured trusted ranges.  Quantified over ALL header maps,
  trust tables, peers, hosts and over arbitrary `net.ParseIP` / `strconv.Atoi` behaviours (`i.ipd`, `i.ptd`).
-/
namespace BfeVerif.C29
open BfeVerif.C25

/-- **Untrusted peer**: whatever the request headers say, the client address is the socket peer,
    `X-Real-Ip` / `X-Real-Port` are overwritten with it and `X-Forwarded-For` ends with the peer IP. -/
theorem C29_untrusted (i : In) (hu : trusted i = false) :
    (resolve i).1 = some (i.peerText, (i.peerPort : Int)) ∧
    hvals (resolve i).2 kXRealIp = some [i.peerText] ∧
    hvals (resolve i).2 kXRealPort = some [toDec i.peerPort] ∧
    ∃ v, hvals (resolve i).2 kXFF = some [v] ∧ EndsWithElem v i.peerText := by
  have hca : clientAddr i = some (i.peerText, (i.peerPort : Int)) := by
    unfold clientAddr; simp [hu]
  have hitoa : itoa (i.peerPort : Int) = toDec i.peerPort := by
    unfold itoa
    have : ¬ ((i.peerPort : Int) < 0) := by omega
    simp [this]
  unfold resolve
  simp only [hca]
  unfold defaultHeader
  simp only []
  refine ⟨trivial, ?_, ?_, ?_⟩
  · rw [hvals_hset_ne _ _ _ _ (by decide), hvals_hset_ne _ _ _ _ (by decide), hvals_hset_same]
  · rw [hvals_hset_ne _ _ _ _ (by decide), hvals_hset_same, hitoa]
  · rw [hvals_hset_ne _ _ _ _ (by decide), hvals_hset_ne _ _ _ _ (by decide), hvals_hset_ne _ _ _ _ (by decide),
        hvals_appendTo_ne _ _ _ _ (by decide)]
    exact hvals_appendTo_same _ _ _

/-- **X-Forwarded-For always ends with the socket peer** (trusted or not, any client address). -/
theorem C29_xff_appended (i : In) :
    ∃ v, hvals (resolve i).2 kXFF = some [v] ∧ EndsWithElem v i.peerText := by
  unfold resolve defaultHeader
  simp only []
  rw [hvals_hset_ne _ _ _ _ (by decide)]
  cases clientAddr i with
  | none =>
    simp only []
    rw [hvals_appendTo_ne _ _ _ _ (by decide)]
    exact hvals_appendTo_same _ _ _
  | some c =>
    simp only []
    rw [hvals_hset_ne _ _ _ _ (by decide), hvals_hset_ne _ _ _ _ (by decide), hvals_appendTo_ne _ _ _ _ (by decide)]
    exact hvals_appendTo_same _ _ _

/-- **Trusted peer, documented precedence**: X-Real-Ip (port from X-Real-Port) when present and non-empty,
    else the first element of X-Forwarded-For (port: first element of X-Forwarded-Port); an address that
    does not parse gives no client address; an unparsable port gives port 0. -/
theorem C29_trusted (i : In) (ht : trusted i = true) : (resolve i).1 = trustedExpected i := by
  unfold resolve clientAddr trustedExpected candidate
  simp only [ht]
  cases h1 : (getFirst i.hdr kXRealIp).isEmpty with
  | true =>
    cases h2 : (firstSplit i.hdr kXFF).isEmpty with
    | true => simp [h2]
    | false => cases h3 : parseIP i (firstSplit i.hdr kXFF) <;> simp [h2, h3]
  | false => cases h3 : parseIP i (getFirst i.hdr kXRealIp) <;> simp [h1, h3]

/-- Trusted peer without a usable address header: `ClientAddr` stays nil and the client's X-Real-Ip
    header is left as it came (nothing is invented). -/
theorem C29_trusted_nil_untouched (i : In) (hn : (resolve i).1 = none) :
    hvals (resolve i).2 kXRealIp = hvals i.hdr kXRealIp := by
  unfold resolve at hn ⊢
  simp only [] at hn ⊢
  unfold defaultHeader
  simp only [hn]
  rw [hvals_hset_ne _ _ _ _ (by decide), hvals_appendTo_ne _ _ _ _ (by decide), hvals_appendTo_ne _ _ _ _ (by decide)]
  exact hvals_xfh i kXRealIp (by decide)

/-! non-vacuity: an untrusted peer that sends spoofed headers, and a trusted one whose header is honoured -/
def exIn (tr : Bool) : In :=
  { table := [([10], [20])], peerIP := if tr then [15] else [30], peerText := [112], peerPort := 4242, host := [104],
    hdr := [(kXRealIp, [[49]]), (kXFF, [[50, 44, 32, 51]])], localText := [108],
    ipd := [([49], some [49]), ([50], some [50])], ptd := [([], none)] }
example : trusted (exIn false) = false := by decide
example : trusted (exIn true) = true := by decide
example : (resolve (exIn true)).1 = some ([49], 0) := by decide
example : (resolve (exIn false)).1 = some ([112], 4242) := by decide

end BfeVerif.C29
