import BfeVerif.Common.Proto
import BfeVerif.C25.Driver
import BfeVerif.C29.Model
/-!
  C29 driver.  op: `ca t=<b-e,b-e|_>;p=<ip16 hex>;pt=<text hex>;pp=<port>;h=<host hex>;hd=<map>;lt=<text hex>;ipd=<s:canon|s:nil,…|_>;ptd=<s:int|s:nil,…|_>`
  result: `ca=<text hex>:<port>|nil hd=<map, keys sorted>`
-/
namespace BfeVerif.C29
open BfeVerif.Proto BfeVerif.C25

def rangesOf (s : String) : Option (List (Bytes × Bytes)) :=
  if s == "_" then some []
  else (s.splitOn ",").mapM fun e =>
    match e.splitOn "-" with
    | [a, b] => do
      let a' ← bytesOfHex a
      let b' ← bytesOfHex b
      if a'.length == 16 && b'.length == 16 then pure (a', b') else none
    | _ => none

def dictOf {α : Type} (f : String → Option α) (s : String) : Option (List (Bytes × Option α)) :=
  if s == "_" then some []
  else (s.splitOn ",").mapM fun e =>
    match e.splitOn ":" with
    | [k, v] => do
      let k' ← bytesOfHex k
      if v == "nil" then pure (k', none) else do
        let v' ← f v
        pure (k', some v')
    | _ => none

def inOf (s : String) : Option In := do
  let m := kvOf s
  let t ← (← look m "t") |> rangesOf
  let p ← (← look m "p") |> bytesOfHex
  let pt ← (← look m "pt") |> bytesOfHex
  let pp ← (← look m "pp").toNat?
  let h ← (← look m "h") |> bytesOfHex
  let hd ← (← look m "hd") |> hdrOf
  let lt ← (← look m "lt") |> bytesOfHex
  let ipd ← (← look m "ipd") |> dictOf bytesOfHex
  let ptd ← (← look m "ptd") |> dictOf (fun x => x.toInt?)
  if p.length != 16 || !distinctKeys (hd.map (·.1)) then none
  else pure { table := t, peerIP := p, peerText := pt, peerPort := pp, host := h, hdr := hd,
              localText := lt, ipd := ipd, ptd := ptd }

def renderHdr (h : Hdr) : String :=
  if h.isEmpty then "_"
  else "|".intercalate ((sortKV h).map fun kv =>
    hexField kv.1 ++ ":" ++ (if kv.2.isEmpty then "_" else ",".intercalate (kv.2.map hexField)))

def renderCA : Option (Bytes × Int) → String
  | none => "nil"
  | some (ip, port) => hexField ip ++ ":" ++ toString port

def render (r : Option (Bytes × Int) × Hdr) : String := "ca=" ++ renderCA r.1 ++ " hd=" ++ renderHdr r.2

/-- the strings the model looks up must all be in the dictionaries -/
def dictsComplete (i : In) : Bool :=
  let c := candidate i
  let c2 := (getFirst i.hdr kXRealIp, getFirst i.hdr kXRealPort)
  let c3 := (firstSplit i.hdr kXFF, firstSplit i.hdr kXFPort)
  [c.1, c2.1, c3.1].all (fun s => s.isEmpty || i.ipd.any (·.1 == s)) &&
  [c.2, c2.2, c3.2].all (fun s => i.ptd.any (·.1 == s))

def implOf (s : String) : Option (Option (Bytes × Int) × Hdr) :=
  match s.splitOn " " with
  | [a, b] =>
    if a.startsWith "ca=" && b.startsWith "hd=" then do
      let cas := (a.drop 3).toString
      let hd ← hdrOf (b.drop 3).toString
      if cas == "nil" then pure (none, hd)
      else match cas.splitOn ":" with
        | [x, y] => do
          let ip ← bytesOfHex x
          let port ← y.toInt?
          pure (some (ip, port), hd)
        | _ => none
    else none
  | _ => none

def run (op impl : String) : Ans :=
  match op.splitOn " " with
  | ["ca", s] =>
    (match inOf s with
     | none => { model := "bad-op", verdict := "skip" }
     | some i =>
       if impl == "bad-op" || !dictsComplete i then { model := "bad-op", verdict := "skip", tags := ["bad-op"] }
       else
         let m := render (resolve i)
         let tr := trusted i
         let tags := [if tr then "trusted" else "untrusted"] ++
           (if (hvals i.hdr kXRealIp).isSome then ["has-xri"] else []) ++
           (if (hvals i.hdr kXFF).isSome then ["has-xff"] else []) ++
           (if i.table.isEmpty then ["empty-table"] else []) ++
           (if (hvals i.hdr kXRealIp).isSome || (hvals i.hdr kXFF).isSome then ["nt"] else []) ++
           (match clientAddr i with | none => ["ca-nil"] | some _ => [])
         match implOf impl with
         | none => { model := m, verdict := "FAIL:unreadable", tags := tags }
         | some (ca, h) =>
           let v := if tr then trustedViolation i ca h else untrustedViolation i ca h
           match v with
           | none => { model := m, verdict := "ok", tags := tags }
           | some c => { model := m, verdict := "FAIL:" ++ c, tags := tags })
  | _ => { model := "bad-op", verdict := "skip" }

end BfeVerif.C29
