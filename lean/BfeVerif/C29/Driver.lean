import BfeVerif.Common.Proto
import BfeVerif.C25.Driver
import BfeVerif.C29.Model
/-!
  C29 driver.  op: `ca t=<b-e,b-e|_>;p=<ip16 hex>;pt=<text hex>;pp=<port>;h=<host hex>;hd=<map>;lt=<text hex>;ipd=<s:canon|s:nil,…|_>;ptd=<s:int|s:nil,…|_>`
  result: `ca=<text hex>:<port>|nil hd=<map, keys sorted>`
-/
namespace BfeVerif.C29
open BfeVerif.Proto BfeVerif.C25

def rangesOf (s : String) : Option (List (Bytes × Bytes)) :=
  if s == "_" then some []
  else (s.splitOn ",").mapM fun e =>
    match e.splitOn "-" with
    | [a, b] => do
      let a' ← bytesOfHex a
      let b' ← bytesOfHex b
      if a'.length == 16 && b'.length == 16 then pure (a', b') else none
    | _ => none

def dictOf {α : Type} (f : String → Option α) (s : String) : Option (List (Bytes × Option α)) :=
  if s == "_" then some []
  else (s.splitOn ",").mapM fun e =>
    match e.splitOn ":" with
    | [k, v] => do
      let k' ← bytesOfHex k
      if v == "nil" then pure (k', none) else do
        let v' ← f v
        pure (k', some v')
    | _ => none

def inOf (s : String) : Option In := do
  let m := kvOf s
  let t ← (← look m "t") |> rangesOf
  let p ← (← look m "p") |> bytesOfHex
  let pt ← (← look m "pt") |> bytesOfHex
  let pp ← (← look m "pp").toNat?
  let h ← (← look m "h") |> bytesOfHex
  let hd ← (← look m "hd") |> hdrOf
  let lt ← (← look m "lt") |> bytesOfHex
  let ipd ← (← look m "ipd") |> dictOf bytesOfHex
  let ptd ← (← look m "ptd") |> dictOf (fun x => x.toInt?)
  if p.length != 16 || !distinctKeys (hd.map (·.1)) then none
  else pure { table := t, peerIP := p, peerText := pt, peerPort := pp, host := h, hdr := hd,
              localText := lt, ipd := ipd, ptd := ptd }

def renderHdr (h0 : Hdr) : String :=
  let h := h0.filter fun kv => !kv.2.isEmpty   -- keys without values are not part of the comparison
  if h.isEmpty then "_"
  else "|".intercalate ((sortKV h).map fun kv =>
    hexField kv.1 ++ ":" ++ (if kv.2.isEmpty then "_" else ",".intercalate (kv.2.map hexField)))

def renderCA : Option (Bytes × Int) → String
  | none => "nil"
  | some (ip, port) => hexField ip ++ ":" ++ toString port

def render (r : Option (Bytes × Int) × Hdr) : String := "ca=" ++ renderCA r.1 ++ " hd=" ++ renderHdr r.2

/-- the strings the model looks up must all be in the dictionaries -/
def dictsComplete (i : In) : Bool :=
  let c := candidate i
  let c2 := (getFirst i.hdr kXRealIp, getFirst i.hdr kXRealPort)
  let c3 := (firstSplit i.hdr kXFF, firstSplit i.hdr kXFPort)
  [c.1, c2.1, c3.1].all (fun s => s.isEmpty || i.ipd.any (·.1 == s)) &&
  [c.2, c2.2, c3.2].all (fun s => i.ptd.any (·.1 == s))

def implOf (s : String) : Option (Option (Bytes × Int) × Hdr × Hdr) :=
  match s.splitOn " " with
  | [a, b, c] =>
    if a.startsWith "ca=" && b.startsWith "hd=" && c.startsWith "up=" then do
      let cas := (a.drop 3).toString
      let hd ← hdrOf (b.drop 3).toString
      let up ← hdrOf (c.drop 3).toString
      if cas == "nil" then pure (none, hd, up)
      else match cas.splitOn ":" with
        | [x, y] => do
          let ip ← bytesOfHex x
          let port ← y.toInt?
          pure (some (ip, port), hd, up)
        | _ => none
    else none
  | _ => none

def renderAll (i : In) : String := render (resolve i) ++ " up=" ++ renderHdr (upstream i)

/-- what the property demands of the headers sent upstream (after hopByHopHeaderRemove) -/
def upstreamViolation (i : In) (ca : Option (Bytes × Int)) (up : Hdr) : Option String :=
  if !trusted i then (untrustedViolation i ca up).map fun c => c ++ "-upstream"
  else match ca with
    | some (ip, port) =>
      if hvals up kXRealIp != some [ip] || hvals up kXRealPort != some [itoa port] then some "trusted-realip-upstream" else none
    | none => none

/-- one connection: model output, verdict, tags -/
def judgeConn (i : In) (impl : String) : Ans :=
  if impl == "bad-op" || !dictsComplete i then { model := "bad-op", verdict := "skip", tags := ["bad-op"] }
  else
    let m := renderAll i
    let tr := trusted i
    let tags := [if tr then "trusted" else "untrusted"] ++
      (if (hvals i.hdr kXRealIp).isSome then ["has-xri"] else []) ++
      (if (hvals i.hdr kXFF).isSome then ["has-xff"] else []) ++
      (if i.table.isEmpty then ["empty-table"] else []) ++
      (if (BfeVerif.C26.connNamesP BfeVerif.Generated.C29.hopProtected (resolve i).2).isEmpty then [] else ["conn-tokens"]) ++
      (if (hvals i.hdr BfeVerif.C25.kConnection).isSome &&
          (BfeVerif.C26.lookup i.hdr BfeVerif.C25.kConnection).any (fun v => !(BfeVerif.C25.splitOn 44 v).all fun t =>
            !(BfeVerif.Generated.C29.hopProtected.contains (BfeVerif.C26.canon (BfeVerif.C26.trimSpace t)))) then ["conn-names-bfe-header"] else []) ++
      (if (hvals i.hdr kXRealIp).isSome || (hvals i.hdr kXFF).isSome then ["nt"] else []) ++
      (match clientAddr i with | none => ["ca-nil"] | some _ => [])
    match implOf impl with
    | none => { model := m, verdict := "FAIL:unreadable", tags := tags }
    | some (ca, h, up) =>
      let v := if tr then trustedViolation i ca h else untrustedViolation i ca h
      match v with
      | some c => { model := m, verdict := "FAIL:" ++ c, tags := tags }
      | none =>
        match upstreamViolation i ca up with
        | some c => { model := m, verdict := "FAIL:" ++ c, tags := tags }
        | none => { model := m, verdict := "ok", tags := tags }

/-- a reload history: steps `L.<version>.<ranges>.<kind>` (kind `ok` = a file the loader accepts) and `C.<connection>`;
    the table of a connection is the one of the last successful load (the model ignores versions) -/
def runHistory (steps : List String) (impls : List String) : Ans :=
  let rec go (steps impls : List String) (table : List (Bytes × Bytes)) (cur : String) (acc : List Ans) : List Ans :=
    match steps with
    | [] => acc.reverse
    | st :: rest =>
      let impl := impls.headD ""
      match st.splitOn "." with
      | ["L", ver, rs, kind] =>
        (match rangesOf rs with
         | none => go rest impls.tail table cur ({ model := "bad-op", verdict := "skip" } :: acc)
         | some r =>
           let good := kind == "ok"
           let sameVer := good && ver == cur && r != table
           let a : Ans := { model := if good then "L=ok" else "L=err", verdict := "skip",
                            tags := ["load-" ++ kind] ++ (if sameVer then ["reload-same-version"] else []) }
           go rest impls.tail (if good then r else table) (if good then ver else cur) (a :: acc))
      | ["C", payload] =>
        (match inOf payload with
         | none => go rest impls.tail table cur ({ model := "bad-op", verdict := "skip" } :: acc)
         | some i => go rest impls.tail table cur (judgeConn { i with table := table } impl :: acc))
      | ["W", payload] =>
        -- wire bytes through the real listener / conn path.  Effective peer (fields p/pt/pp) = the address of a valid
        -- PROXY v1 header on a PROXY listener, else the socket peer `sk` (which must then equal p).
        let m := kvOf payload
        (match inOf payload, look m "sk", look m "px" with
         | some i, some sk, some px =>
           let sockOK := px == "v1" || sk == hexField i.peerIP ++ ":" ++ toString i.peerPort
           if !sockOK then go rest impls.tail table cur ({ model := "bad-op", verdict := "skip" } :: acc)
           else if impl == "reject" then
             go rest impls.tail table cur ({ model := "reject", verdict := "FAIL:wire-rejected", tags := ["wire"] } :: acc)
           else
             let a := judgeConn { i with table := table } impl
             go rest impls.tail table cur ({ a with tags := a.tags ++ ["wire", "px-" ++ px] ++
               (if (look m "seg").getD "-" != "-" then ["segmented"] else []) } :: acc)
         | _, _, _ => go rest impls.tail table cur ({ model := "bad-op", verdict := "skip" } :: acc))
      | _ => go rest impls.tail table cur ({ model := "bad-op", verdict := "skip" } :: acc)
  let answers := go steps impls [] "\u0000none" []
  let fails := answers.filter fun a => a.verdict.startsWith "FAIL"
  let oks := answers.filter fun a => a.verdict == "ok"
  { model := "/".intercalate (answers.map (·.model)),
    verdict := (match fails with | a :: _ => a.verdict | [] => if oks.isEmpty then "skip" else "ok"),
    tags := ("history" :: answers.flatMap (·.tags)).eraseDups }

def run (op impl : String) : Ans :=
  match op.splitOn " " with
  | ["ca", s] =>
    (match inOf s with
     | none => { model := "bad-op", verdict := "skip" }
     | some i => judgeConn i impl)
  | ["rl", s] =>
    if impl == "bad-op" then { model := "bad-op", verdict := "skip", tags := ["bad-op"] }
    else runHistory (s.splitOn "/") (impl.splitOn "/")
  | _ => { model := "bad-op", verdict := "skip" }

end BfeVerif.C29
