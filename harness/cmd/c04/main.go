// C04: weighted least connections — drives the real BalanceRR.Balance(WlcSmooth / WlcSimple)
// on hook-built backend lists (raw weight/current, connNum via Inc/DecConnNum, SetAvail).
package main

import (
	"fmt"
	"math/rand"
	"strconv"
	"strings"

	"bfeverif/harness/internal/vh"
	"github.com/bfenetworks/bfe/bfe_balance/backend"
	"github.com/bfenetworks/bfe/bfe_balance/bal_slb"
	"github.com/bfenetworks/bfe/bfe_config/bfe_cluster_conf/cluster_table_conf"
)

type be struct{ w, cur, conn, a int }

func fmtBs(bs []be) string {
	if len(bs) == 0 {
		return "-"
	}
	s := make([]string, len(bs))
	for i, b := range bs {
		s[i] = fmt.Sprintf("%d:%d:%d:%d", b.w, b.cur, b.conn, b.a)
	}
	return strings.Join(s, ",")
}

// ratios that produce many exact rational ties
var tieW = []int{1, 2, 3, 4, 6, 100, 200, 300, 400, 600}

func gen(r *vh.Rand) string {
	n := r.Range(1, 7)
	switch r.Intn(12) {
	case 0:
		n = r.Range(0, 1)
	case 1:
		n = r.Range(8, 12)
	}
	bs := make([]be, n)
	style := r.Intn(5)
	hugeK := 1 << uint(r.Range(12, 22))
	ratioN, ratioD := r.Range(0, 4), r.Range(1, 3)
	for i := range bs {
		var w, c int
		switch style {
		case 0: // small raw weights, small conns: dense ties
			w = r.Range(1, 6)
			c = r.Range(0, 8)
		case 1: // configured weights (x100), conn near a common ratio
			w = tieW[r.Intn(len(tieW))]
			if w < 100 {
				w *= 100
			}
			c = w / 100 * ratioN / ratioD
			if r.Chance(1, 3) {
				c += r.Range(-1, 1)
			}
		case 2: // exact multiples of one ratio
			k := r.Range(1, 5)
			w = k * ratioD * pick2(r, 1, 100)
			c = k * ratioN
			if r.Chance(1, 4) {
				c += r.Range(0, 2)
			}
		case 3: // huge connNum / weights with exact ties: products up to 2^61, still no int64 wrap
			k := r.Range(1, 120)
			w = k * r.Range(1, 3) * hugeK
			c = k * r.Range(0, 3) * (hugeK >> uint(r.Intn(8)))
			if r.Chance(1, 4) {
				c += r.Range(-1, 1)
			}
			if r.Chance(1, 6) {
				w, c = big-r.Intn(3), big-r.Intn(3)
			}
		default:
			w = r.Range(1, 1200)
			c = r.Range(0, 50)
		}
		a := 1
		if r.Chance(1, 6) {
			a = 0
		}
		if r.Chance(1, 10) {
			w = pick2(r, 0, -100) // weight 0 / negative: ineligible
		}
		if r.Chance(1, 25) {
			c = -r.Range(1, 3) // more DecConnNum than IncConnNum
		}
		cur := w
		if r.Chance(1, 3) && w < 100000 && w > -100000 {
			cur = r.Range(-w-5, w+5)
		}
		bs[i] = be{w, cur, c, a}
	}
	mode := "S"
	if r.Chance(1, 3) {
		mode = "R"
	}
	k := r.Range(1, 10)
	if r.Chance(1, 10) {
		k = r.Range(10, 40)
	}
	steps := make([]string, 0, k)
	for j := 0; j < k; j++ {
		x := r.Intn(20)
		switch {
		case n == 0 || x < 8:
			steps = append(steps, "B")
		case x < 12:
			steps = append(steps, "b")
		case x < 15:
			steps = append(steps, fmt.Sprintf("c%d=%d", r.Intn(n), r.Range(0, 9)))
		case x < 17:
			steps = append(steps, fmt.Sprintf("a%d=%d", r.Intn(n), r.Intn(2)))
		case x < 18:
			steps = append(steps, fmt.Sprintf("w%d=%d", r.Intn(n), r.Range(0, 6)*pick2(r, 1, 100)))
		case x < 19 && r.Chance(1, 2):
			// Update: drop some, re-weight the rest (configured weights), maybe one new backend
			var parts []string
			kept := 0
			for i := 0; i < n; i++ {
				if r.Chance(1, 5) {
					continue
				}
				parts = append(parts, fmt.Sprintf("%d:%d", i, []int{1, 1, 2, 3, 4, 6, 0, -1}[r.Intn(8)]))
				kept++
			}
			if r.Chance(1, 2) || kept == 0 {
				parts = append(parts, fmt.Sprintf("+:%d", r.Range(0, 4)))
				kept++
			}
			steps = append(steps, "u"+strings.Join(parts, "/"))
			n = kept
		default:
			steps = append(steps, "B")
		}
	}
	if mode == "R" && n >= 2 && n <= 7 && r.Chance(1, 5) {
		// one state, many draws: every minimiser must be reached about equally often
		steps = steps[:0]
		for j := 0; j < 48*n; j++ {
			steps = append(steps, "b")
		}
	}
	if steps[len(steps)-1] != "b" && steps[len(steps)-1] != "B" {
		steps = append(steps, "b")
	}
	return "wlc " + mode + " " + fmtBs(bs) + " " + strings.Join(steps, ",")
}

func pick2(r *vh.Rand, a, b int) int {
	if r.Bool() {
		return a
	}
	return b
}

func setConn(b *backend.BfeBackend, n int) {
	if d := b.ConnNum() - n; d > 1000 || d < -1000 {
		b.VerifC04SetConnNum(n) // far away: the Inc/DecConnNum loop would take minutes
		return
	}
	for b.ConnNum() < n {
		b.IncConnNum()
	}
	for b.ConnNum() > n {
		b.DecConnNum()
	}
}

const big = 1 << 31

// scriptSeed seeds math/rand's global source (used by randomBalance) and a private replica of it, so that the
// harness knows every value rand.Int() returns inside the implementation.
const scriptSeed = 20240229

func exec(op string) string {
	rand.Seed(scriptSeed)
	replica := rand.New(rand.NewSource(scriptSeed))
	nextAddr := 0
	f := strings.Split(op, " ")
	if len(f) != 4 || f[0] != "wlc" {
		return "bad-op"
	}
	algor := bal_slb.WlcSmooth
	if f[1] == "R" {
		algor = bal_slb.WlcSimple
	}
	var bs []be
	if f[2] != "-" {
		for _, t := range strings.Split(f[2], ",") {
			p := strings.Split(t, ":")
			if len(p) != 4 {
				return "bad-op"
			}
			var v [4]int
			for i := range p {
				x, err := strconv.Atoi(p[i])
				if err != nil {
					return "bad-op"
				}
				v[i] = x
			}
			if v[2] > big || v[2] < -big || v[0] > big || v[0] < -big || v[1] > big*4 || v[1] < -big*4 {
				return "bad-op" // products stay below 2^62: no int64 wrap (assumption of C04)
			}
			bs = append(bs, be{v[0], v[1], v[2], v[3]})
		}
	}
	// build the real balancer: Init from a configuration, then bring it to the described state
	var conf cluster_table_conf.SubClusterBackend
	for i := range bs {
		name := fmt.Sprintf("b%d", i)
		addr := fmt.Sprintf("10.0.0.%d", i)
		port := 80
		w := 1
		conf = append(conf, &cluster_table_conf.BackendConf{Name: &name, Addr: &addr, Port: &port, Weight: &w})
	}
	brr := bal_slb.NewBalanceRR("sub")
	brr.Init(conf)
	hs := brr.VerifC04Backends()
	nextAddr = len(bs)
	for i, b := range bs {
		brr.VerifC04SetRaw(i, b.w, b.cur)
		setConn(hs[i], b.conn)
		hs[i].SetAvail(b.a == 1)
	}
	var out []string
	for _, s := range strings.Split(f[3], ",") {
		if s == "b" || s == "B" {
			cands, ok := brr.VerifC04Candidates()
			got, err := brr.Balance(algor, nil)
			if err != nil {
				if ok {
					out = append(out, "E!cands") // error although candidates exist
				} else {
					out = append(out, "E")
				}
				continue
			}
			idx := -1
			for i, h := range hs {
				if h == got {
					idx = i
				}
			}
			cs := make([]string, len(cands))
			for i, c := range cands {
				cs[i] = strconv.Itoa(c)
			}
			tok := fmt.Sprintf("%d/%s", idx, strings.Join(cs, "."))
			if algor == bal_slb.WlcSimple && len(cands) >= 2 {
				// randomBalance draws exactly one rand.Int() when there are >= 2 candidates
				tok += fmt.Sprintf("/%d", replica.Int())
			}
			out = append(out, tok)
			if s == "B" {
				got.IncConnNum()
			}
			continue
		}
		if s[0] == 'u' {
			// `u<i>:<c>/.../+:<c>`: brr.Update with the listed survivors (configured weight c) and at most one new backend
			var conf cluster_table_conf.SubClusterBackend
			seen := map[int]bool{}
			plus := 0
			for _, t := range strings.Split(s[1:], "/") {
				p := strings.Split(t, ":")
				if len(p) != 2 {
					return "bad-op"
				}
				c, err := strconv.Atoi(p[1])
				if err != nil || c > 1000 || c < -1000 {
					return "bad-op"
				}
				var addr string
				if p[0] == "+" {
					plus++
					if plus > 1 {
						return "bad-op"
					}
					addr = fmt.Sprintf("10.0.0.%d", nextAddr)
					nextAddr++
				} else {
					i, err := strconv.Atoi(p[0])
					if err != nil || i < 0 || i >= len(hs) || seen[i] {
						return "bad-op"
					}
					seen[i] = true
					addr = hs[i].Addr
				}
				name, port, w := "u"+addr, 80, c
				a := addr
				conf = append(conf, &cluster_table_conf.BackendConf{Name: &name, Addr: &a, Port: &port, Weight: &w})
			}
			brr.Update(conf)
			hs = brr.VerifC04Backends()
			continue
		}
		if len(s) < 4 {
			return "bad-op"
		}
		eq := strings.IndexByte(s, '=')
		if eq < 0 {
			return "bad-op"
		}
		i, e1 := strconv.Atoi(s[1:eq])
		n, e2 := strconv.Atoi(s[eq+1:])
		if e1 != nil || e2 != nil || i < 0 || i >= len(hs) || n > big || n < -big {
			return "bad-op"
		}
		switch s[0] {
		case 'c':
			setConn(hs[i], n)
		case 'a':
			hs[i].SetAvail(n == 1)
		case 'w':
			brr.VerifC04SetWeight(i, n)
		default:
			return "bad-op"
		}
	}
	curs := brr.VerifC04Currents()
	cs := make([]string, len(curs))
	for i, c := range curs {
		cs[i] = strconv.Itoa(c)
	}
	res := "-"
	if len(out) > 0 {
		res = strings.Join(out, ",")
	}
	return res + ";cur=" + strings.Join(cs, ".")
}

func main() {
	vh.Pre = func(emit func(string), thorough bool) {
		// exhaustive: 3 backends, weights 1..3, conns 0..3, all up; plus one down
		maxc := 3
		if thorough {
			maxc = 5
		}
		for w0 := 1; w0 <= 3; w0++ {
			for w1 := 1; w1 <= 3; w1++ {
				for w2 := 1; w2 <= 3; w2++ {
					for c0 := 0; c0 <= maxc; c0++ {
						for c1 := 0; c1 <= maxc; c1++ {
							for c2 := 0; c2 <= maxc; c2++ {
								bs := []be{{w0, w0, c0, 1}, {w1, w1, c1, 1}, {w2, w2, c2, 1}}
								emit("wlc S " + fmtBs(bs) + " B,B,b")
							}
						}
					}
				}
			}
		}
	}
	pre0 := vh.Pre
	vh.Pre = func(emit func(string), thorough bool) {
		pre0(emit, thorough)
		// WlcSimple: k tied minimisers (conn/weight = 1/100 in different shapes) among worse and ineligible ones;
		// 48*k draws: every minimiser must be reachable and nothing else
		for k := 2; k <= 7; k++ {
			var bs []be
			for i := 0; i < k; i++ {
				m := i + 1
				bs = append(bs, be{100 * m, 100 * m, m, 1})
				if i%2 == 0 {
					bs = append(bs, be{100 * m, 100 * m, m + 1, 1}) // worse
				}
				if i == 1 {
					bs = append(bs, be{100, 100, 0, 0}, be{0, 0, 0, 1}) // better ratio but ineligible
				}
			}
			st := make([]string, 48*k)
			for i := range st {
				st[i] = "b"
			}
			emit("wlc R " + fmtBs(bs) + " " + strings.Join(st, ","))
		}
	}
	vh.Main(gen, exec)
}
