// C23: chunked transfer coding — drives the real bfe_http chunkedReader / chunkedWriter / parseHexUint.
//
// ops:
//
//	dec <hex stream> <k>            decode the stream with the real chunkedReader; k seeds the schedule
//	                                (sizes of the underlying reads and of the Read buffers) and must not
//	                                influence the result
//	enc <hex,hex,...|-> <hex rest> <k>  write every chunk with the real chunkedWriter, Close, append rest,
//	                                decode as above
//	hex <hex bytes>                 parseHexUint
//
// results:
//
//	dec: <err> <consumed|-> <hex body>      consumed is printed only when err = eof (clean end)
//	enc: <hex wire> <err> <consumed|-> <hex body>
//	hex: ok:<decimal> | <err>
package main

import (
	"bytes"
	"fmt"
	"io"
	"strconv"
	"strings"

	"bfeverif/harness/internal/vh"
	"github.com/bfenetworks/bfe/bfe_bufio"
	"github.com/bfenetworks/bfe/bfe_http"
)

func errName(err error) string {
	switch {
	case err == nil:
		return "nil"
	case err == io.EOF:
		return "eof"
	case err == io.ErrUnexpectedEOF:
		return "ueof"
	case err == bfe_http.ErrLineTooLong:
		return "toolong"
	}
	switch err.Error() {
	case "invalid byte in chunk length":
		return "badhex"
	case "malformed chunked encoding":
		return "malformed"
	case "http chunk length too large":
		return "toolarge"
	case "empty hex number for chunk length":
		return "empty"
	}
	return "other:" + strings.ReplaceAll(err.Error(), " ", "_")
}

// segReader is the scripted underlying reader: it hands out the stream in segments chosen by the schedule
// PRNG (the result must not depend on them).  Modes: 0-3 everything that fits (about half of the cases),
// 4 one byte per Read, 5 a cut after every LF (each read ends exactly at the end of a line), 6 short random
// pieces with empty reads (0, nil) in between, 7 cuts placed at / around CR, LF and random places with empty
// reads.  With eofWithData the last piece is returned together with io.EOF.
type slowReader struct {
	data        []byte
	r           *vh.Rand
	mode        int
	eofWithData bool
	lastEmpty   bool
}

func newSlowReader(data []byte, sr *vh.Rand) *slowReader {
	return &slowReader{data: data, r: sr, mode: sr.Intn(8), eofWithData: sr.Bool()}
}

func (s *slowReader) Read(p []byte) (int, error) {
	if len(s.data) == 0 {
		return 0, io.EOF
	}
	if len(p) == 0 {
		return 0, nil
	}
	n := len(p)
	switch s.mode {
	case 0, 1, 2, 3:
	case 4:
		n = 1
	case 5:
		if i := bytes.IndexByte(s.data, '\n'); i >= 0 {
			n = i + 1
		}
	case 6:
		if !s.lastEmpty && s.r.Chance(1, 4) {
			s.lastEmpty = true
			return 0, nil
		}
		n = s.r.Range(1, 9)
	default:
		if !s.lastEmpty && s.r.Chance(1, 6) {
			s.lastEmpty = true
			return 0, nil
		}
		switch s.r.Intn(4) {
		case 0: // up to and including the next CR (cut between CR and LF)
			if i := bytes.IndexByte(s.data, '\r'); i >= 0 {
				n = i + 1
			}
		case 1: // up to just before the next CR / LF
			if i := bytes.IndexAny(s.data, "\r\n"); i > 0 {
				n = i
			} else {
				n = 1
			}
		case 2: // through the next LF
			if i := bytes.IndexByte(s.data, '\n'); i >= 0 {
				n = i + 1
			}
		default:
			n = s.r.Range(1, 300)
		}
	}
	s.lastEmpty = false
	if n > len(p) {
		n = len(p)
	}
	if n > len(s.data) {
		n = len(s.data)
	}
	copy(p, s.data[:n])
	s.data = s.data[n:]
	if len(s.data) == 0 && s.eofWithData {
		return n, io.EOF
	}
	return n, nil
}

var bufSizes = []int{1, 2, 3, 7, 16, 100, 1000, 4095, 4096, 4097, 8192, 20000}

func decode(stream []byte, k uint64) string {
	sr := vh.NewRand(k)
	under := newSlowReader(stream, sr)
	br := bfe_bufio.NewReader(under)
	cr := bfe_http.VerifNewChunkedReader(br)
	var body []byte
	var err error
	fixed := -1
	if sr.Bool() {
		fixed = bufSizes[sr.Intn(len(bufSizes))]
	}
	idle := 0
	for steps := 0; ; steps++ {
		sz := fixed
		if sz < 0 {
			sz = bufSizes[sr.Intn(len(bufSizes))]
		}
		p := make([]byte, sz)
		var n int
		n, err = cr.Read(p)
		body = append(body, p[:n]...)
		if err != nil {
			break
		}
		if n == 0 {
			idle++
			if idle > 1000 {
				return "HANG"
			}
		} else {
			idle = 0
		}
		if steps > 10000000 {
			return "HANG"
		}
	}
	// a second Read must repeat the error and deliver nothing
	n2, err2 := cr.Read(make([]byte, 8))
	if n2 != 0 || err2 != err {
		return "sticky-error-violated"
	}
	cons := "-"
	if err == io.EOF {
		rest, _ := io.ReadAll(br)
		cons = strconv.Itoa(len(stream) - len(rest))
		if !bytes.Equal(rest, stream[len(stream)-len(rest):]) {
			return "rest-is-not-a-suffix"
		}
	}
	return fmt.Sprintf("%s %s %s", errName(err), cons, vh.Hex(body))
}

func exec(op string) string {
	f := strings.Fields(op)
	if len(f) == 0 {
		return "bad-op"
	}
	switch f[0] {
	case "dec":
		if len(f) != 3 {
			return "bad-op"
		}
		s, ok := vh.UnHex(f[1])
		k, e := strconv.ParseUint(f[2], 10, 64)
		if !ok || e != nil {
			return "bad-op"
		}
		return decode(s, k)
	case "enc":
		if len(f) != 4 {
			return "bad-op"
		}
		var wire bytes.Buffer
		cw := bfe_http.VerifNewChunkedWriter(&wire)
		if f[1] != "-" {
			for _, c := range strings.Split(f[1], ",") {
				var b []byte
				if c != "" {
					var ok bool
					if b, ok = vh.UnHex(c); !ok {
						return "bad-op"
					}
				}
				n, err := cw.Write(b)
				if err != nil || n != len(b) {
					return "write-failed"
				}
			}
		}
		if cw.Close() != nil {
			return "close-failed"
		}
		rest, ok := vh.UnHex(f[2])
		k, e := strconv.ParseUint(f[3], 10, 64)
		if !ok || e != nil {
			return "bad-op"
		}
		w := append([]byte(nil), wire.Bytes()...)
		return vh.Hex(w) + " " + decode(append(w, rest...), k)
	case "hex":
		if len(f) != 2 {
			return "bad-op"
		}
		b, ok := vh.UnHex(f[1])
		if !ok {
			return "bad-op"
		}
		n, err := bfe_http.VerifParseHexUint(b)
		if err != nil {
			return errName(err)
		}
		return "ok:" + strconv.FormatUint(n, 10)
	}
	return "bad-op"
}

// ---------------------------------------------------------------- generators

const hexd = "0123456789abcdefABCDEF"

func randData(r *vh.Rand, n int) []byte {
	b := make([]byte, n)
	switch r.Intn(4) {
	case 0: // bytes that look like framing
		const al = "\r\n0 5;a\t"
		for i := range b {
			b[i] = al[r.Intn(len(al))]
		}
	case 1:
		for i := range b {
			b[i] = byte('a' + r.Intn(26))
		}
	default:
		copy(b, r.Bytes(n))
	}
	return b
}

func chunkLen(r *vh.Rand) int {
	switch r.Intn(20) {
	case 0:
		return 0 // the writer must skip it
	case 1:
		return r.Range(4090, 4100)
	case 2:
		return r.Range(4097, 12000)
	case 3:
		return r.Range(15, 17)
	case 4, 5:
		return r.Range(250, 260)
	default:
		return r.Range(1, 40)
	}
}

func genRest(r *vh.Rand) []byte {
	switch r.Intn(6) {
	case 0:
		return nil
	case 1, 2:
		return []byte("\r\n")
	case 3:
		return []byte("\r\nGET / HTTP/1.1\r\n\r\n")
	case 4:
		return []byte("X-T: 1\r\n\r\n")
	}
	return randData(r, r.Range(1, 12))
}

func genEnc(r *vh.Rand) string {
	k := r.Intn(6)
	if r.Chance(1, 10) {
		k = r.Range(6, 20)
	}
	var cs []string
	for i := 0; i < k; i++ {
		d := randData(r, chunkLen(r))
		if len(d) == 0 {
			cs = append(cs, "")
		} else {
			cs = append(cs, vh.Hex(d))
		}
	}
	c := "-"
	if len(cs) > 0 {
		c = strings.Join(cs, ",")
		if c == "" {
			c = "-"
		}
	}
	return fmt.Sprintf("enc %s %s %d", c, vh.Hex(genRest(r)), r.Intn(1<<30))
}

func sizeDigits(r *vh.Rand, n int) string {
	// a size line text for value n with variations
	s := strconv.FormatInt(int64(n), 16)
	if r.Chance(1, 3) {
		s = strings.ToUpper(s)
	}
	switch r.Intn(12) {
	case 0:
		s = strings.Repeat("0", r.Range(1, 3)) + s
	case 1: // pad with zeros to 15..18 digits
		t := r.Range(15, 18)
		if len(s) < t {
			s = strings.Repeat("0", t-len(s)) + s
		}
	case 2: // wrap: 17+ digits whose low 64 bits are n
		s = fmt.Sprintf("%s%016x", r.Pick("1", "f", "10", "abc", "0001"), n)
	}
	return s
}

func lineEnd(r *vh.Rand, mal bool) string {
	if !mal || r.Chance(6, 10) {
		return "\r\n"
	}
	return r.Pick("\n", "\r", "", "\r\r\n", " \r\n", "\t\n", " \t \r\n", "\r \n", "\n\r", "\r\n\r\n")
}

func genMal(r *vh.Rand) string {
	var w []byte
	nch := r.Range(0, 4)
	budget := 3 // number of malformations injected
	mal := func() bool {
		if budget > 0 && r.Chance(1, 4) {
			budget--
			return true
		}
		return false
	}
	for i := 0; i <= nch; i++ {
		last := i == nch
		n := 0
		if !last {
			n = chunkLen(r)
			if n == 0 {
				n = 1
			}
			if n > 300 && r.Chance(2, 3) {
				n = r.Range(1, 30)
			}
		}
		line := sizeDigits(r, n)
		if mal() {
			switch r.Intn(16) {
			case 0:
				line = "" // empty size line
			case 1:
				line = "0x" + line
			case 2:
				line = r.Pick("+", "-") + line
			case 3:
				line = r.Pick(" ", "\t", "  ") + line
			case 4:
				line = line + r.Pick(";a=b", ";x", "; a = b", ";a=\"q\\\"\r\n\"", ";", ";=", ";a=")
			case 5: // 0..40 random hex digits
				d := r.Range(0, 40)
				b := make([]byte, d)
				for j := range b {
					b[j] = hexd[r.Intn(len(hexd))]
				}
				line = string(b)
			case 6:
				line = line + r.Pick("g", "G", "h", ".", ",", "\x00", "\x80", ":", "/", "@", "`")
			case 7: // very long line around the 4096 limit
				line = line + strings.Repeat(r.Pick(" ", "\t", "0"), r.Range(4085, 4100))
			case 8:
				line = strings.Repeat("0", r.Range(4085, 4100)) + line
			case 9:
				line = strings.Repeat(r.Pick("f", "F"), r.Range(15, 18))
			case 10:
				line = line + " " + line
			case 11:
				line = line[:len(line)/2] + r.Pick(" ", "\r", "\t") + line[len(line)/2:]
			case 12:
				line = "1" + strings.Repeat("0", 16-1) + strconv.FormatInt(int64(n), 16) // 17 digits
			case 13:
				line = "10000000000000000" // 2^64: wraps to 0
			case 14:
				line = "\r" + line
			case 15:
				line = strconv.Itoa(n) // decimal instead of hex
			}
		}
		w = append(w, line...)
		w = append(w, lineEnd(r, mal())...)
		if last {
			break
		}
		d := randData(r, n)
		if mal() {
			switch r.Intn(4) {
			case 0: // less data than announced
				d = d[:r.Intn(len(d))]
			case 1:
				d = append(d, randData(r, r.Range(1, 3))...)
			case 2:
				// cut the stream inside the data
				w = append(w, d[:r.Intn(len(d)+1)]...)
				return fmt.Sprintf("dec %s %d", vh.Hex(w), r.Intn(1<<30))
			case 3:
				w = append(w, d...)
				// cut before / inside the CRLF
				w = append(w, "\r\n"[:r.Intn(2)]...)
				return fmt.Sprintf("dec %s %d", vh.Hex(w), r.Intn(1<<30))
			}
		}
		w = append(w, d...)
		if mal() {
			w = append(w, r.Pick("\n", "\r", "", "\r\r\n", " \r\n", "\n\r", "\rx", "\r\n\r\n")...)
		} else {
			w = append(w, "\r\n"...)
		}
	}
	w = append(w, genRest(r)...)
	if r.Chance(1, 30) && len(w) > 0 { // truncate anywhere
		w = w[:r.Intn(len(w))]
	}
	return fmt.Sprintf("dec %s %d", vh.Hex(w), r.Intn(1<<30))
}

func genHex(r *vh.Rand) string {
	d := r.Range(0, 20)
	if r.Chance(1, 4) {
		d = r.Range(14, 19)
	}
	b := make([]byte, d)
	for j := range b {
		b[j] = hexd[r.Intn(len(hexd))]
	}
	if d > 0 && r.Chance(1, 6) {
		b[r.Intn(d)] = r.Pick("g", "G", " ", "x", "/", ":", "@", "`", "\x00", "\xff")[0]
	}
	if d > 0 && r.Chance(1, 4) {
		for j := 0; j < d-r.Intn(3)-1; j++ {
			b[j] = '0'
		}
	}
	return "hex " + vh.Hex(b)
}

func gen(r *vh.Rand) string {
	switch x := r.Intn(20); {
	case x < 7:
		return genEnc(r)
	case x < 18:
		return genMal(r)
	default:
		return genHex(r)
	}
}

func main() {
	vh.Pre = func(emit func(string), thorough bool) {
		// every length 0..20 of '0'..'f' digits at the boundaries, every single byte as a size line
		for d := 0; d <= 20; d++ {
			for _, c := range []string{"0", "1", "f", "F", "8"} {
				emit("hex " + vh.Hex([]byte(strings.Repeat(c, d))))
				emit("dec " + vh.Hex([]byte(strings.Repeat(c, d)+"\r\n")) + " 1")
			}
		}
		for b := 0; b < 256; b++ {
			emit("hex " + vh.Hex([]byte{byte(b)}))
			emit("dec " + vh.Hex([]byte{'1', byte(b), '\r', '\n', 'x', 'y', '\r', '\n', '0', '\r', '\n'}) + " 2")
			emit("dec " + vh.Hex([]byte{'1', '\r', '\n', 'x', byte(b), '\n', '0', '\r', '\n'}) + " 3")
			emit("dec " + vh.Hex([]byte{'1', '\r', '\n', 'x', '\r', byte(b), '0', '\r', '\n'}) + " 3")
		}
		for pad := 4080; pad <= 4100; pad++ {
			emit("dec " + vh.Hex([]byte("1"+strings.Repeat(" ", pad)+"\r\nx\r\n0\r\n")) + " 4")
			emit("dec " + vh.Hex([]byte("1"+strings.Repeat(" ", pad))) + " 4")
		}
	}
	vh.Main(gen, exec)
}
