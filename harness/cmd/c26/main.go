// C26: hop-by-hop headers are not forwarded.
//
//	hop <header map> <canon>   a client header map as a frontend builds it (keys through the real
//	                           CanonicalHeaderKey when canon=1) -> Request copy -> REAL httpProtoSet +
//	                           hopByHopHeaderRemove -> REAL Request.Write;   result: ok|err <hex bytes>
package main

import (
	"bytes"
	"strings"

	"bfeverif/harness/internal/c25lib"
	"bfeverif/harness/internal/vh"
	"github.com/bfenetworks/bfe/bfe_http"
	"github.com/bfenetworks/bfe/bfe_server"
)

func exec(op string) string {
	f := strings.Split(op, " ")
	if len(f) != 3 || f[0] != "hop" {
		return "bad-op"
	}
	h, ok := c25lib.ParseHeader(f[1])
	if !ok {
		return "bad-op"
	}
	if f[2] == "1" {
		for k := range h {
			if bfe_http.CanonicalHeaderKey(k) != k {
				return "bad-op"
			}
		}
	}
	q := &c25lib.R{Method: "GET", RequestURI: "/", Host: "a", Header: h, AtLeast11: true, TrailerNil: true}
	u, err := q.URL()
	if err != nil {
		return "bad-op"
	}
	q.FillDerived(u)
	req, err := q.Build()
	if err != nil {
		return "bad-op"
	}
	req.Proto, req.ProtoMajor, req.ProtoMinor = "HTTP/1.0", 1, 0 // whatever the client spoke
	req.Close = true
	// ReverseProxy.ServeHTTP: outreq = shallow copy; httpProtoSet; hopByHopHeaderRemove
	outreq := new(bfe_http.Request)
	*outreq = *req
	bfe_server.VerifHttpProtoSet(outreq)
	bfe_server.VerifHopByHopHeaderRemove(outreq, req)
	var buf bytes.Buffer
	if err := outreq.Write(&buf); err != nil {
		return "err " + vh.Hex(buf.Bytes())
	}
	return "ok " + vh.Hex(buf.Bytes())
}

var hopNames = []string{"Connection", "Keep-Alive", "Proxy-Authenticate", "Proxy-Authorization", "TE", "Trailer", "Trailers",
	"Transfer-Encoding", "Upgrade", "Proxy-Connection"}
var plainNames = []string{"Accept", "Cookie", "X-Foo", "X-Bar", "Content-Length", "Host", "User-Agent", "Authorization", "X-Forwarded-For", "X-Real-Ip", "X-Bfe-Log-Id"}

func randCase(r *vh.Rand, s string) string {
	b := []byte(s)
	for i := range b {
		if r.Bool() {
			b[i] = strings.ToUpper(string(b[i]))[0]
		} else {
			b[i] = strings.ToLower(string(b[i]))[0]
		}
	}
	return string(b)
}

func ows(r *vh.Rand) string { return r.Pick("", "", " ", "\t", "  ") }

func gen(r *vh.Rand) string {
	h := map[string][]string{}
	canon := !r.Chance(1, 10)
	add := func(name, v string) {
		k := randCase(r, name)
		if canon {
			k = bfe_http.CanonicalHeaderKey(k) // what ReadRequest / h2 / spdy do with a token name
		}
		h[k] = append(h[k], v)
	}
	var present []string
	n := r.Intn(5)
	for i := 0; i < n; i++ {
		name := plainNames[r.Intn(len(plainNames))]
		present = append(present, name)
		add(name, r.Pick("1", "abc", "", "a, b", "x y"))
	}
	nh := r.Intn(4)
	for i := 0; i < nh; i++ {
		name := hopNames[r.Intn(len(hopNames))]
		switch name {
		case "Connection":
			nv := r.Range(1, 2)
			for j := 0; j < nv; j++ {
				var toks []string
				nt := r.Range(0, 3)
				for t := 0; t < nt; t++ {
					tok := r.Pick("close", "keep-alive", "upgrade", "te", "X-Foo", "x-bar", "Cookie", "host", "content-length", "Nope", "x-real-ip", "X-Forwarded-For")
					if len(present) > 0 && r.Chance(1, 2) {
						tok = randCase(r, present[r.Intn(len(present))])
					}
					toks = append(toks, ows(r)+tok+ows(r))
				}
				add(name, strings.Join(toks, ","))
			}
		case "TE":
			add(name, r.Pick("trailers", "trailers", "gzip", "trailers, deflate", "", "Trailers", " trailers"))
			if r.Chance(1, 3) {
				add(name, r.Pick("trailers", "gzip", "deflate;q=0.5"))
			}
		default:
			if r.Chance(1, 5) {
				add(name, "") // empty first value
			}
			add(name, r.Pick("close", "timeout=5", "Basic abc", "websocket", "chunked", "X-T", "h2c", ""))
			if r.Chance(1, 4) {
				add(name, r.Pick("x", "chunked", "websocket"))
			}
		}
	}
	return "hop " + c25lib.HeaderString(h) + " " + map[bool]string{true: "1", false: "0"}[canon]
}

func pre(emit func(string), thorough bool) {
	H := func(kv ...string) string {
		h := map[string][]string{}
		for i := 0; i+1 < len(kv); i += 2 {
			h[kv[i]] = append(h[kv[i]], kv[i+1])
		}
		return "hop " + c25lib.HeaderString(h) + " 1"
	}
	emit(H("Connection", "X-Foo", "X-Foo", "1"))                // header named by a Connection token
	emit(H("Connection", "", "Connection", "close"))            // empty first value hides the rest
	emit(H("Upgrade", "", "Upgrade", "websocket"))              //
	emit(H("Te", "trailers", "Te", "gzip"))                     // only the first TE value is looked at
	emit(H("Te", "trailers"))                                   // kept, allowed
	emit(H("Te", "gzip"))                                       // removed
	emit(H("Connection", "close", "Keep-Alive", "timeout=5", "Proxy-Authorization", "Basic x", "Upgrade", "h2c", "Transfer-Encoding", "chunked", "Trailer", "X-T", "Proxy-Authenticate", "x"))
	emit(H("Trailers", "x"))
	emit(H("Connection", "X-Real-Ip, x-forwarded-for, X-Foo", "X-Real-Ip", "1.2.3.4", "X-Forwarded-For", "5.6.7.8", "X-Foo", "1")) // BFE's own headers are exempt
}

func main() {
	vh.Pre = pre
	vh.Main(gen, exec)
}
