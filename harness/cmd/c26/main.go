// C26: hop-by-hop headers are not forwarded.
//
//	hop <header map> <canon>   a client header map as a frontend builds it (keys through the real
//	                           CanonicalHeaderKey when canon=1) -> Request copy -> REAL httpProtoSet +
//	                           hopByHopHeaderRemove -> REAL Request.Write;   result: ok|err <hex bytes>
//
//	rdh <hex raw>   WIRE BYTES of one HTTP/1.x request (strict syntax, no body) -> the REAL bfe_http.ReadRequest (readTransfer
//	                included) -> copy, httpProtoSet, hopByHopHeaderRemove -> Request.Write;  result: reject | ok|err <hex bytes>.
//	                The driver parses the same bytes itself: the client's fields are what was on the wire, not what the
//	                read path left in the map.
package main

import (
	"bytes"
	"strings"

	"github.com/bfenetworks/bfe/bfe_bufio"

	"bfeverif/harness/internal/c25lib"
	"bfeverif/harness/internal/vh"
	"github.com/bfenetworks/bfe/bfe_http"
	"github.com/bfenetworks/bfe/bfe_server"
)

func execWire(hexraw, seg string) string {
	raw, ok := vh.UnHex(hexraw)
	if !ok {
		return "bad-op"
	}
	sr, ok := c25lib.NewSegReader(raw, seg)
	if !ok {
		return "bad-op"
	}
	req, err := bfe_http.ReadRequest(bfe_bufio.NewReader(sr), bfe_http.MaxUriSize)
	if err != nil {
		return "reject"
	}
	outreq := new(bfe_http.Request)
	*outreq = *req
	bfe_server.VerifHttpProtoSet(outreq)
	bfe_server.VerifHopByHopHeaderRemove(outreq, req)
	var buf bytes.Buffer
	if err := outreq.Write(&buf); err != nil {
		return "err " + vh.Hex(buf.Bytes())
	}
	// the head only: the body is C25's business
	out := buf.Bytes()
	if i := bytes.Index(out, []byte("\r\n\r\n")); i >= 0 {
		out = out[:i+4]
	}
	return "ok " + vh.Hex(out)
}

func exec(op string) string {
	if f := strings.Split(op, " "); (len(f) == 2 || len(f) == 3) && f[0] == "rdh" {
		seg := "-"
		if len(f) == 3 {
			seg = f[2]
		}
		return execWire(f[1], seg)
	}
	f := strings.Split(op, " ")
	if len(f) != 3 || f[0] != "hop" {
		return "bad-op"
	}
	h, ok := c25lib.ParseHeader(f[1])
	if !ok {
		return "bad-op"
	}
	if f[2] == "1" {
		for k := range h {
			if bfe_http.CanonicalHeaderKey(k) != k {
				return "bad-op"
			}
		}
	}
	q := &c25lib.R{Method: "GET", RequestURI: "/", Host: "a", Header: h, AtLeast11: true, TrailerNil: true}
	u, err := q.URL()
	if err != nil {
		return "bad-op"
	}
	q.FillDerived(u)
	req, err := q.Build()
	if err != nil {
		return "bad-op"
	}
	req.Proto, req.ProtoMajor, req.ProtoMinor = "HTTP/1.0", 1, 0 // whatever the client spoke
	req.Close = true
	// ReverseProxy.ServeHTTP: outreq = shallow copy; httpProtoSet; hopByHopHeaderRemove
	outreq := new(bfe_http.Request)
	*outreq = *req
	bfe_server.VerifHttpProtoSet(outreq)
	bfe_server.VerifHopByHopHeaderRemove(outreq, req)
	var buf bytes.Buffer
	if err := outreq.Write(&buf); err != nil {
		return "err " + vh.Hex(buf.Bytes())
	}
	return "ok " + vh.Hex(buf.Bytes())
}

var hopNames = []string{"Connection", "Keep-Alive", "Proxy-Authenticate", "Proxy-Authorization", "TE", "Trailer", "Trailers",
	"Transfer-Encoding", "Upgrade", "Proxy-Connection"}
var plainNames = []string{"Accept", "Cookie", "X-Foo", "X-Bar", "Content-Length", "Host", "User-Agent", "Authorization", "X-Forwarded-For", "X-Real-Ip", "X-Bfe-Log-Id"}

func randCase(r *vh.Rand, s string) string {
	b := []byte(s)
	for i := range b {
		if r.Bool() {
			b[i] = strings.ToUpper(string(b[i]))[0]
		} else {
			b[i] = strings.ToLower(string(b[i]))[0]
		}
	}
	return string(b)
}

func ows(r *vh.Rand) string { return r.Pick("", "", " ", "\t", "  ") }

// genWire: a strict HTTP/1.x request text: Host: a, plain fields, and the Connection header as 1-3 FIELD LINES whose first
// value is close / keep-alive (any case) half of the time; later lines and list elements name fields that are present.
func genWire(r *vh.Rand) string {
	var b strings.Builder
	method := r.Pick("GET", "GET", "POST", "PUT", "DELETE")
	proto := r.Pick("HTTP/1.1", "HTTP/1.1", "HTTP/1.0")
	framing := r.Intn(6) // 0,1,2: none  3: Content-Length  4: chunked  5: Content-Length: 0 / repeated
	if framing == 4 {
		proto = "HTTP/1.1"
	}
	b.WriteString(method + " / " + proto + "\r\n")
	line := func(n, v string) { b.WriteString(randCase(r, n) + ":" + ows(r) + v + ows(r) + "\r\n") }
	line("Host", "a")
	var present []string
	for i, n := 0, r.Intn(4); i < n; i++ {
		name := r.Pick("Accept", "Cookie", "X-Foo", "X-Bar", "X-Hop-Secret", "User-Agent", "X-Real-Ip", "Cache-Control")
		present = append(present, name)
		line(name, r.Pick("1", "abc", "a, b", "x y"))
		if r.Chance(1, 5) { // the same field again on another line, in another case
			line(name, r.Pick("2", "z"))
		}
	}
	if r.Chance(1, 6) {
		line("Pragma", r.Pick("no-cache", "no-cache", "x", "No-Cache"))
	}
	tok := func() string {
		t := r.Pick("x-hop-secret", "upgrade", "te", "Nope", "keep-alive", "close", "x-real-ip", "content-length", "trailer")
		if len(present) > 0 && r.Chance(2, 3) {
			t = randCase(r, present[r.Intn(len(present))])
		}
		switch r.Intn(12) { // odd but legal-looking list syntax
		case 0:
			return "\"" + t + "\""
		case 1:
			return t + ";q=1"
		case 2:
			return ""
		case 3:
			return "\t" + t + " \t"
		}
		return t
	}
	nl := r.Intn(4)
	for i := 0; i < nl; i++ {
		var v string
		switch {
		case i == 0 && r.Chance(1, 2):
			v = r.Pick("close", "Close", "CLOSE", "keep-alive", "Keep-Alive", "close, "+tok(), "", ",", ", ,")
		case r.Chance(1, 12): // very many tokens
			var ts []string
			for j := 0; j < 40+r.Intn(40); j++ {
				ts = append(ts, "x-t"+itoa(j))
			}
			ts = append(ts, tok())
			v = strings.Join(ts, r.Pick(",", ", ", " ,"))
		default:
			n := r.Range(1, 3)
			var ts []string
			for j := 0; j < n; j++ {
				ts = append(ts, ows(r)+tok())
			}
			v = strings.Join(ts, ",")
		}
		line("Connection", v)
		if r.Chance(1, 3) { // other fields between the Connection lines
			name := r.Pick("X-Hop-Secret", "X-Foo", "Keep-Alive", "Upgrade")
			present = append(present, name)
			line(name, r.Pick("1", "timeout=5", "websocket"))
		}
	}
	if r.Chance(1, 4) {
		line(r.Pick("Keep-Alive", "Upgrade", "TE", "Proxy-Authorization", "Proxy-Connection"), r.Pick("timeout=5", "h2c", "trailers", "gzip", "Basic x"))
	}
	body := ""
	switch framing {
	case 3:
		n := r.Range(1, 12)
		body = string(r.Bytes(n))
		line("Content-Length", itoa(n))
		if r.Chance(1, 5) {
			line("Content-Length", itoa(n))
		}
	case 4:
		line("Transfer-Encoding", r.Pick("chunked", "chunked", "Chunked", "identity"))
		if r.Chance(1, 3) {
			line("Trailer", r.Pick("X-T", "x-t, x-u"))
		}
		if r.Chance(1, 4) {
			line("Content-Length", "3") // must be dropped: chunked wins
		}
		data := string(r.Bytes(r.Range(1, 9)))
		body = hexs(len(data)) + "\r\n" + data + "\r\n0\r\n" + r.Pick("", "X-T: 1\r\n") + "\r\n"
	case 5:
		line("Content-Length", "0")
		if r.Chance(1, 3) {
			line("Trailer", "X-T")
		}
	}
	b.WriteString("\r\n")
	raw := b.String() + body
	seg := "-"
	switch r.Intn(5) {
	case 0:
		seg = "1"
	case 1, 2: // cuts after line ends, inside names/values, inside CRLF
		var cuts []string
		last := 0
		for i := 0; i < r.Range(1, 6); i++ {
			last += r.Range(1, 1+len(raw)/3)
			if last >= len(raw) {
				break
			}
			cuts = append(cuts, itoa(last))
		}
		if len(cuts) > 0 {
			seg = "c" + strings.Join(cuts, ",")
		}
	}
	if seg != "-" && r.Chance(1, 3) {
		seg = "e" + seg
	}
	return "rdh " + vh.Hex([]byte(raw)) + " " + seg
}

func itoa(n int) string {
	if n == 0 {
		return "0"
	}
	s := ""
	for n > 0 {
		s = string(rune('0'+n%10)) + s
		n /= 10
	}
	return s
}

func hexs(n int) string {
	const d = "0123456789abcdef"
	if n == 0 {
		return "0"
	}
	s := ""
	for n > 0 {
		s = string(d[n%16]) + s
		n /= 16
	}
	return s
}

func gen(r *vh.Rand) string {
	if r.Chance(1, 3) {
		return genWire(r)
	}
	h := map[string][]string{}
	canon := !r.Chance(1, 10)
	add := func(name, v string) {
		k := randCase(r, name)
		if canon {
			k = bfe_http.CanonicalHeaderKey(k) // what ReadRequest / h2 / spdy do with a token name
		}
		h[k] = append(h[k], v)
	}
	var present []string
	n := r.Intn(5)
	for i := 0; i < n; i++ {
		name := plainNames[r.Intn(len(plainNames))]
		present = append(present, name)
		add(name, r.Pick("1", "abc", "", "a, b", "x y"))
	}
	nh := r.Intn(4)
	for i := 0; i < nh; i++ {
		name := hopNames[r.Intn(len(hopNames))]
		switch name {
		case "Connection":
			nv := r.Range(1, 2)
			for j := 0; j < nv; j++ {
				var toks []string
				nt := r.Range(0, 3)
				for t := 0; t < nt; t++ {
					tok := r.Pick("close", "keep-alive", "upgrade", "te", "X-Foo", "x-bar", "Cookie", "host", "content-length", "Nope", "x-real-ip", "X-Forwarded-For")
					if len(present) > 0 && r.Chance(1, 2) {
						tok = randCase(r, present[r.Intn(len(present))])
					}
					toks = append(toks, ows(r)+tok+ows(r))
				}
				add(name, strings.Join(toks, ","))
			}
		case "TE":
			add(name, r.Pick("trailers", "trailers", "gzip", "trailers, deflate", "", "Trailers", " trailers"))
			if r.Chance(1, 3) {
				add(name, r.Pick("trailers", "gzip", "deflate;q=0.5"))
			}
		default:
			if r.Chance(1, 5) {
				add(name, "") // empty first value
			}
			add(name, r.Pick("close", "timeout=5", "Basic abc", "websocket", "chunked", "X-T", "h2c", ""))
			if r.Chance(1, 4) {
				add(name, r.Pick("x", "chunked", "websocket"))
			}
		}
	}
	return "hop " + c25lib.HeaderString(h) + " " + map[bool]string{true: "1", false: "0"}[canon]
}

func pre(emit func(string), thorough bool) {
	for _, raw := range []string{
		"GET / HTTP/1.1\r\nHost: a\r\nConnection: close\r\nConnection: x-hop-secret\r\nX-Hop-Secret: 1\r\n\r\n",
		"GET / HTTP/1.1\r\nHost: a\r\nConnection: keep-alive\r\nX-Hop-Secret: 1\r\nConnection: X-HOP-SECRET , upgrade\r\nUpgrade: h2c\r\n\r\n",
		"GET / HTTP/1.0\r\nHost: a\r\nconnection: Close\r\nconnection: x-foo\r\nx-foo: 1\r\nAccept: */*\r\n\r\n",
		"GET / HTTP/1.1\r\nHost: a\r\nConnection: close, x-hop-secret\r\nX-Hop-Secret: 1\r\n\r\n",
		"POST / HTTP/1.1\r\nHost: a\r\nContent-Length: 3\r\nConnection: content-length, x-foo\r\nX-Foo: 1\r\n\r\nabc",
		"POST / HTTP/1.1\r\nHost: a\r\nTransfer-Encoding: chunked\r\nContent-Length: 3\r\nTrailer: X-T\r\nPragma: no-cache\r\nConnection: \"x-foo\", x-bar;q=1,,\tx-baz\r\nX-Baz: 1\r\nX-Bar: 1\r\n\r\n3\r\nabc\r\n0\r\nX-T: 1\r\n\r\n",
	} {
		emit("rdh " + vh.Hex([]byte(raw)) + " -")
		emit("rdh " + vh.Hex([]byte(raw)) + " 1")
		emit("rdh " + vh.Hex([]byte(raw)) + " ec7,19,20,33")
	}
	H := func(kv ...string) string {
		h := map[string][]string{}
		for i := 0; i+1 < len(kv); i += 2 {
			h[kv[i]] = append(h[kv[i]], kv[i+1])
		}
		return "hop " + c25lib.HeaderString(h) + " 1"
	}
	emit(H("Connection", "X-Foo", "X-Foo", "1"))     // header named by a Connection token
	emit(H("Connection", "", "Connection", "close")) // empty first value hides the rest
	emit(H("Upgrade", "", "Upgrade", "websocket"))   //
	emit(H("Te", "trailers", "Te", "gzip"))          // only the first TE value is looked at
	emit(H("Te", "trailers"))                        // kept, allowed
	emit(H("Te", "gzip"))                            // removed
	emit(H("Connection", "close", "Keep-Alive", "timeout=5", "Proxy-Authorization", "Basic x", "Upgrade", "h2c", "Transfer-Encoding", "chunked", "Trailer", "X-T", "Proxy-Authenticate", "x"))
	emit(H("Trailers", "x"))
	emit(H("Connection", "X-Real-Ip, x-forwarded-for, X-Foo", "X-Real-Ip", "1.2.3.4", "X-Forwarded-For", "5.6.7.8", "X-Foo", "1")) // BFE's own headers are exempt
}

func main() {
	vh.Pre = pre
	vh.Main(gen, exec)
}
