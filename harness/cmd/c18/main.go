// C18: condition primitives vs their documented matching — builds each primitive with
// condition.Build and calls the real Match on a request assembled from the op line.
//
// op = "m;prim;a0;a1;fold;pips;host;path;method;query;headers;cookies;tags;cip;vip" (see Lean driver).
// result = T | F | builderr.
package main

import (
	"net"
	"net/url"
	"strings"

	"bfeverif/harness/internal/vh"
	"github.com/bfenetworks/bfe/bfe_basic"
	"github.com/bfenetworks/bfe/bfe_basic/condition"
	"github.com/bfenetworks/bfe/bfe_http"
)

type prim struct {
	name  string
	nargs int  // string arguments
	fold  bool // has a case_insensitive argument
	kind  string
}

var prims = []prim{
	{"req_host_in", 1, false, "host"}, {"req_host_suffix_in", 1, false, "host"}, {"req_port_in", 1, false, "port"},
	{"req_method_in", 1, false, "method"},
	{"req_path_in", 1, true, "path"}, {"req_path_prefix_in", 1, true, "path"}, {"req_path_suffix_in", 1, true, "path"},
	{"req_path_contain", 1, true, "path"}, {"req_path_element_prefix_in", 1, true, "path"},
	{"req_query_key_in", 1, false, "qkey"}, {"req_query_value_in", 2, true, "qval"}, {"req_query_value_prefix_in", 2, true, "qval"},
	{"req_query_value_suffix_in", 2, true, "qval"}, {"req_query_value_contain", 2, true, "qval"},
	{"req_header_key_in", 1, false, "hkey"}, {"req_header_value_in", 2, true, "hval"}, {"req_header_value_prefix_in", 2, true, "hval"},
	{"req_header_value_suffix_in", 2, true, "hval"}, {"req_header_value_contain", 2, true, "hval"},
	{"req_cookie_key_in", 1, false, "ckey"}, {"req_cookie_value_in", 2, true, "cval"}, {"req_cookie_value_prefix_in", 2, true, "cval"},
	{"req_tag_match", 2, false, "tag"}, {"req_cip_range", 2, false, "ip"}, {"req_vip_in", 1, false, "vip"},
}

var (
	hostNames = []string{"example.org", "Example.ORG", "www.example.org", "a.b", "localhost", "", "[::1]", "[2001:db8::1]", "10.0.0.1"}
	ports     = []string{"", ":80", ":8080", ":443", ":"}
	paths     = []string{"/", "/a", "/A", "/a/", "/a/b", "/a/B/c", "/ab", "/api/report", "/api/reports", "/API/report/x", "", "/a//b", "/x.jpg", "/X.JPG"}
	words     = []string{"a", "A", "ab", "Ab", "abc", "b", "v1", "V1", "", "x-y", "GET", "get", "POST", "80", "8080", "443"}
	keys      = []string{"k", "K", "key", "uid", "X-Key", "User-Agent", "Referer", "X-Empty"}
	ipPool    = []string{"1.1.1.1", "1.1.1.0", "1.1.1.2", "10.0.0.1", "10.0.0.255", "10.0.1.0", "255.255.255.255", "0.0.0.0", "::1", "::2", "2001:db8::1", "2001:db8::ffff", "bad"}
)

func pick(r *vh.Rand, xs []string) string { return xs[r.Intn(len(xs))] }

func patList(r *vh.Rand, pool []string, want string) string {
	n := r.Range(1, 3)
	var ps []string
	for i := 0; i < n; i++ {
		if want != "" && r.Chance(1, 2) {
			// derive a pattern from the value: exact / prefix / suffix / infix / case-flipped
			w := want
			switch r.Intn(5) {
			case 1:
				w = w[:r.Intn(len(w)+1)]
			case 2:
				w = w[r.Intn(len(w)+1):]
			case 3:
				a := r.Intn(len(w) + 1)
				w = w[a : a+r.Intn(len(w)-a+1)]
			case 4:
				w = strings.ToUpper(w)
			}
			ps = append(ps, w)
		} else {
			ps = append(ps, pick(r, pool))
		}
	}
	return strings.Join(ps, "|")
}

func kvs(r *vh.Rand, keyPool, valPool []string, max int) [][2]string {
	n := r.Intn(max + 1)
	var out [][2]string
	seen := map[string]bool{}
	for i := 0; i < n; i++ {
		k := pick(r, keyPool)
		if seen[k] {
			continue
		}
		seen[k] = true
		out = append(out, [2]string{k, pick(r, valPool)})
	}
	return out
}

func encPairs(p [][2]string) string {
	if len(p) == 0 {
		return "-"
	}
	var s []string
	for _, kv := range p {
		s = append(s, vh.Hex([]byte(kv[0]))+":"+vh.Hex([]byte(kv[1])))
	}
	return strings.Join(s, ",")
}

func ip16(s string) string {
	ip := net.ParseIP(s)
	if ip == nil {
		return "x"
	}
	return vh.Hex(ip.To16())
}

func gen(r *vh.Rand) string {
	p := prims[r.Intn(len(prims))]
	host := pick(r, hostNames) + pick(r, ports)
	path := pick(r, paths)
	method := r.Pick("GET", "POST", "get", "HEAD")
	query := kvs(r, []string{"k", "K", "key", "uid", "q"}, words, 3)
	headers := kvs(r, []string{"X-Key", "User-Agent", "Referer", "X-Empty"}, words, 3)
	cookies := kvs(r, []string{"k", "uid", "sid"}, []string{"a", "A", "abc", "v1", "x-y"}, 3)
	var tags []string
	if r.Chance(2, 3) {
		tags = append(tags, vh.Hex([]byte(r.Pick("t1", "t2")))+":"+vh.Hex([]byte(r.Pick("a", "a:1", "b:x:y", "")))+"/"+vh.Hex([]byte(r.Pick("b", "c:2", "a"))))
	}
	cip, vip := "n", "n"
	if r.Chance(5, 6) {
		cip = ip16(pick(r, ipPool[:12]))
	}
	if r.Chance(5, 6) {
		vip = ip16(pick(r, ipPool[:12]))
	}
	a0, a1, pips := "", "", "-"
	find := func(kv [][2]string, k string) string {
		for _, e := range kv {
			if e[0] == k {
				return e[1]
			}
		}
		return ""
	}
	switch p.kind {
	case "host":
		a0 = patList(r, []string{"example.org", "EXAMPLE.org", ".org", "a.b", "[", "", "[::1]", "10.0.0.1", "x:1"}, strings.SplitN(host, ":", 2)[0])
	case "port":
		a0 = patList(r, []string{"80", "8080", "443", ""}, "")
	case "method":
		a0 = patList(r, []string{"GET", "get", "POST", "HEAD|GET"}, method)
	case "path":
		a0 = patList(r, paths, path)
	case "qkey":
		a0 = patList(r, []string{"k", "K", "key", "uid", "q", "zz"}, "")
	case "hkey":
		a0 = patList(r, []string{"X-Key", "User-Agent", "Referer", "X-Empty", "X-None"}, "")
	case "ckey":
		a0 = patList(r, []string{"k", "uid", "sid", "zz"}, "")
	case "qval":
		a0 = pick(r, []string{"k", "K", "key", "uid", "q", "zz"})
		a1 = patList(r, words, find(query, a0))
	case "hval":
		a0 = pick(r, []string{"X-Key", "User-Agent", "Referer", "X-Empty", "X-None"})
		a1 = patList(r, words, find(headers, a0))
	case "cval":
		a0 = pick(r, []string{"k", "uid", "sid", "zz"})
		a1 = patList(r, []string{"a", "A", "abc", "v1", "x-y", ""}, find(cookies, a0))
	case "tag":
		a0 = r.Pick("t1", "t2", "t3")
		a1 = r.Pick("a", "b", "c", "a:1", "")
	case "ip":
		a0, a1 = pick(r, ipPool), pick(r, ipPool)
		if r.Chance(1, 2) && cip != "n" {
			// boundaries: the client address is start, end, start-1 or end+1 of a small range
			base := net.ParseIP(pick(r, ipPool[:5])).To4()
			lo, hi := net.IPv4(base[0], base[1], base[2], base[3]), net.IPv4(base[0], base[1], base[2], base[3]+byte(r.Intn(3)))
			a0, a1 = lo.String(), hi.String()
			c := net.IPv4(base[0], base[1], base[2], base[3]+byte(r.Intn(5))-1)
			cip = vh.Hex(c.To16())
		}
		pips = ip16(a0) + "," + ip16(a1)
	case "vip":
		a0 = patList(r, ipPool, "")
		var ps []string
		for _, s := range strings.Split(a0, "|") {
			ps = append(ps, ip16(s))
		}
		pips = strings.Join(ps, ",")
	}
	fold := "0"
	if p.fold && r.Bool() {
		fold = "1"
	}
	tg := "-"
	if len(tags) > 0 {
		tg = strings.Join(tags, ",")
	}
	return strings.Join([]string{"m", p.name, vh.Hex([]byte(a0)), vh.Hex([]byte(a1)), fold, pips, vh.Hex([]byte(host)),
		vh.Hex([]byte(path)), vh.Hex([]byte(method)), encPairs(query), encPairs(headers), encPairs(cookies), tg, cip, vip}, ";")
}

// ---- execution --------------------------------------------------------------------------------

func unpairs(s string) ([][2]string, bool) {
	if s == "-" {
		return nil, true
	}
	var out [][2]string
	for _, kv := range strings.Split(s, ",") {
		p := strings.Split(kv, ":")
		if len(p) != 2 {
			return nil, false
		}
		k, ok1 := vh.UnHex(p[0])
		v, ok2 := vh.UnHex(p[1])
		if !ok1 || !ok2 {
			return nil, false
		}
		out = append(out, [2]string{string(k), string(v)})
	}
	return out, true
}

func quote(s string) string {
	if !strings.ContainsAny(s, "`\r") {
		return "`" + s + "`"
	}
	return `"` + s + `"`
}

func exec(op string) string {
	f := strings.Split(op, ";")
	if len(f) != 15 || f[0] != "m" {
		return "bad-op"
	}
	var p *prim
	for i := range prims {
		if prims[i].name == f[1] {
			p = &prims[i]
		}
	}
	if p == nil {
		return "bad-op"
	}
	un := func(s string) string { b, _ := vh.UnHex(s); return string(b) }
	a0, a1 := un(f[2]), un(f[3])
	args := []string{quote(a0)}
	if p.nargs == 2 {
		args = append(args, quote(a1))
	}
	if p.fold {
		if f[4] == "1" {
			args = append(args, "true")
		} else {
			args = append(args, "false")
		}
	}
	cond, err := condition.Build(p.name + "(" + strings.Join(args, ",") + ")")
	if err != nil {
		return "builderr"
	}
	query, ok1 := unpairs(f[9])
	headers, ok2 := unpairs(f[10])
	cookies, ok3 := unpairs(f[11])
	if !ok1 || !ok2 || !ok3 {
		return "bad-op"
	}
	hr := &bfe_http.Request{Method: un(f[8]), Host: un(f[6]), URL: &url.URL{Path: un(f[7])}, Header: bfe_http.Header{}}
	var q []string
	for _, kv := range query {
		q = append(q, url.QueryEscape(kv[0])+"="+url.QueryEscape(kv[1]))
	}
	hr.URL.RawQuery = strings.Join(q, "&")
	for _, kv := range headers {
		hr.Header[kv[0]] = []string{kv[1]}
	}
	if len(cookies) > 0 {
		var cs []string
		for _, kv := range cookies {
			cs = append(cs, kv[0]+"="+kv[1])
		}
		hr.Header["Cookie"] = []string{strings.Join(cs, "; ")}
	}
	req := &bfe_basic.Request{Session: &bfe_basic.Session{}, HttpRequest: hr}
	if f[12] != "-" {
		req.Tags.TagTable = map[string][]string{}
		for _, kv := range strings.Split(f[12], ",") {
			p := strings.Split(kv, ":")
			if len(p) != 2 {
				return "bad-op"
			}
			var vs []string
			for _, v := range strings.Split(p[1], "/") {
				vs = append(vs, un(v))
			}
			req.Tags.TagTable[un(p[0])] = vs
		}
	}
	if f[13] != "n" {
		b, _ := vh.UnHex(f[13])
		req.ClientAddr = &net.TCPAddr{IP: net.IP(b), Port: 1234}
	}
	if f[14] != "n" {
		b, _ := vh.UnHex(f[14])
		req.Session.Vip = net.IP(b)
	}
	if cond.Match(req) {
		return "T"
	}
	return "F"
}

func main() { vh.Main(gen, exec) }
