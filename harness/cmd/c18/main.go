// C18: condition primitives vs their documented matching — builds each of the primitives of funcProtos
// with condition.Build and calls the real Match on a request assembled from the op line.
//
// op = 28 ';'-separated fields, see the Lean driver (BfeVerif/C18/Driver.lean).  result = T | F | builderr.
package main

import (
	"fmt"
	"net"
	"net/url"
	"regexp"
	"sort"
	"strconv"
	"strings"

	"bfeverif/harness/internal/vh"
	"github.com/bfenetworks/bfe/bfe_basic"
	"github.com/bfenetworks/bfe/bfe_basic/condition"
	"github.com/bfenetworks/bfe/bfe_basic/condition/parser"
	"github.com/bfenetworks/bfe/bfe_http"
	"github.com/bfenetworks/bfe/bfe_tls"
	"github.com/bfenetworks/bfe/bfe_util"
)

var (
	protos = parser.VerifFuncProtos()
	names  []string
)

func init() {
	for k := range protos {
		names = append(names, k)
	}
	sort.Strings(names)
}

var (
	hostNames = []string{"example.org", "Example.ORG", "www.example.org", "a.b", "localhost", "", "[::1]", "[2001:db8::1]", "10.0.0.1"}
	ports     = []string{"", ":80", ":8080", ":443", ":"}
	paths     = []string{"/", "/a", "/A", "/a/", "/a/b", "/a/B/c", "/ab", "/api/report", "/api/reports", "/API/report/x", "", "/a//b", "/x.jpg", "/X.JPG"}
	words     = []string{"a", "A", "ab", "Ab", "abc", "b", "v1", "V1", "", "x-y", "GET", "get", "POST", "80", "8080", "443", "B", "aa", "Z", "a0", "_"}
	ipPool    = []string{"1.1.1.1", "1.1.1.0", "1.1.1.2", "10.0.0.1", "10.0.0.255", "10.0.1.0", "255.255.255.255", "0.0.0.0", "::1", "::2", "2001:db8::1", "2001:db8::ffff", "bad"}
	regs      = []string{"a*", "^a", "b$", "^/a(/|$)", "(?i)^ab", "[0-9]+", ".", "^$", "(", "example\\.org$", "x-y|v1"}
	hashes    = []string{"0-9999", "0-4999", "5000-9999", "0", "1|2|3", "0-99|9900-9999", "2500-7499", "10000", "5-3", "a", "-1", "0--1", "99999999999999999999", "9223372036854775808", " 0 - 9999 ", "+5", "+0-+9999", "9999-9999", "0-0", "0-9999|", "|0", "0-10000", "1-2-3", "", "-"}
	times     = []string{"20190204203000H", "20190204203000Z", "20190204123000Z", "20190205000000Z", "20190203235959Z", "20190204203001H", "20190204202959H", "19700101000000Z", "19691231235959A", "bad", "20190204203000"}
	tods      = []string{"203000H", "123000Z", "000000Z", "235959Z", "203000Z", "120000H", "043000A", "12 Z", "bad", "240000Z", "203001H", "202959H"}
)

func pick(r *vh.Rand, xs []string) string { return xs[r.Intn(len(xs))] }

func mmss(r *vh.Rand) int {
	if r.Chance(1, 3) {
		return []int{0, 59, 30}[r.Intn(3)]
	}
	return r.Intn(60)
}

// all military time zone letters of bfe_util.TimeZoneMap (J is not a zone), east and west of UTC
const zoneLetters = "ABCDEFGHIKLMNOPQRSTUVWXYZ"

func zone(r *vh.Rand) string {
	z := string(zoneLetters[r.Intn(len(zoneLetters))])
	if r.Chance(1, 6) {
		z = strings.ToLower(z)
	}
	return z
}

// tod returns hhmmss biased to both sides of midnight, noon and zone-offset boundaries
func tod(r *vh.Rand) string {
	switch r.Intn(6) {
	case 0:
		return r.Pick("000000", "000001", "000059", "003000", "005959", "010000")
	case 1:
		return r.Pick("235959", "235958", "233000", "230000", "225959", "120000", "115959")
	default:
		return fmt.Sprintf("%02d%02d%02d", r.Intn(24), mmss(r), mmss(r))
	}
}

func patList(r *vh.Rand, pool []string, want string) string {
	n := r.Range(1, 5)
	var ps []string
	for i := 0; i < n; i++ {
		if want != "" && r.Chance(1, 2) {
			w := want
			switch r.Intn(5) {
			case 1:
				w = w[:r.Intn(len(w)+1)]
			case 2:
				w = w[r.Intn(len(w)+1):]
			case 3:
				a := r.Intn(len(w) + 1)
				w = w[a : a+r.Intn(len(w)-a+1)]
			case 4:
				w = strings.ToUpper(w)
			}
			ps = append(ps, w)
		} else {
			ps = append(ps, pick(r, pool))
		}
	}
	switch r.Intn(12) {
	case 0:
		ps = append(ps, "")
	case 1:
		ps = append([]string{""}, ps...)
	case 2:
		ps = append(ps[:1], append([]string{""}, ps[1:]...)...)
	}
	return strings.Join(ps, "|")
}

func kvs(r *vh.Rand, keyPool, valPool []string, max int) [][2]string {
	n := r.Intn(max + 1)
	var out [][2]string
	seen := map[string]bool{}
	for i := 0; i < n; i++ {
		k := pick(r, keyPool)
		if seen[k] && !r.Chance(1, 2) {
			continue // repeated keys are kept half of the time: the first occurrence must win
		}
		seen[k] = true
		out = append(out, [2]string{k, pick(r, valPool)})
	}
	return out
}

func hx(s string) string { return vh.Hex([]byte(s)) }

func encPairs(p [][2]string) string {
	if len(p) == 0 {
		return "-"
	}
	var s []string
	for _, kv := range p {
		s = append(s, hx(kv[0])+":"+hx(kv[1]))
	}
	return strings.Join(s, ",")
}

func ip16(s string) string {
	ip := net.ParseIP(s)
	if ip == nil {
		return "x"
	}
	return vh.Hex(ip.To16())
}

func find(kv [][2]string, k string) string {
	for _, e := range kv {
		if e[0] == k {
			return e[1]
		}
	}
	return ""
}

func gen(r *vh.Rand) string {
	name := names[r.Intn(len(names))]
	kinds := protos[name]
	hasFold := len(kinds) > 0 && kinds[len(kinds)-1] == parser.BOOL
	host := pick(r, hostNames) + pick(r, ports)
	path := pick(r, paths)
	method := r.Pick("GET", "POST", "get", "HEAD")
	qkeys := []string{"k", "K", "key", "uid", "q"}
	hkeys := []string{"X-Key", "User-Agent", "Referer", "X-Empty"}
	ckeys := []string{"k", "uid", "sid"}
	query := kvs(r, qkeys, words, 4)
	headers := kvs(r, hkeys, words, 4)
	cookies := kvs(r, ckeys, []string{"a", "A", "abc", "v1", "x-y", "B"}, 4)
	var tags []string
	if r.Chance(2, 3) {
		tags = append(tags, hx(r.Pick("t1", "t2"))+":"+hx(r.Pick("a", "a:1", "b:x:y", ""))+"/"+hx(r.Pick("b", "c:2", "a")))
	}
	cip, vip, sip, cipstr := "n", "n", "n", "-"
	if r.Chance(5, 6) {
		s := pick(r, ipPool[:12])
		cip, cipstr = ip16(s), hx(net.ParseIP(s).String())
	}
	if r.Chance(5, 6) {
		vip = ip16(pick(r, ipPool[:12]))
	}
	if r.Chance(5, 6) {
		sip = ip16(pick(r, ipPool[:12]))
	}
	uri := path
	if len(query) > 0 {
		uri += "?" + query[0][0] + "=" + query[0][1]
	}
	proto := r.Pick("HTTP/1.1", "HTTP/1.0", "http/1.1")
	secure := r.Chance(1, 2)
	sesproto := r.Pick("h2", "H2", "spdy/3.1", "http/1.1", "")
	tls := "n"
	if r.Chance(2, 3) {
		auth := "0"
		if r.Bool() {
			auth = "1"
		}
		tls = hx(r.Pick("example.org", "Example.org", "", "a.b")) + ":" + auth + ":" + hx(r.Pick("ca1", "CA1", "", "ca2"))
	}
	hosttag := r.Pick("", "t1", "T1", "vip")
	trusted := r.Pick("0", "1")
	resp := "n"
	var rheaders [][2]string
	if r.Chance(2, 3) {
		rheaders = kvs(r, []string{"X-Key", "Server", "X-Empty"}, words, 2)
		resp = hx(r.Pick("200", "404", "500", "301")) + "|" + encPairs(rheaders)
	}
	ctx := "n"
	ctxVals := map[string]string{}
	if r.Chance(3, 4) {
		var cs []string
		for _, k := range []string{"ck", "uid"} {
			if r.Bool() {
				if r.Chance(1, 5) {
					cs = append(cs, hx(k)+":*")
				} else {
					v := pick(r, words)
					ctxVals[k] = v
					cs = append(cs, hx(k)+":"+hx(v))
				}
			}
		}
		ctx = "-"
		if len(cs) > 0 {
			ctx = strings.Join(cs, ",")
		}
	}

	a0, a1 := "", ""
	hints := map[string]bool{}
	ipHint := func(v string) { hints["i"+hx(v)+"="+ip16(v)] = true }
	tHint := func(v string) {
		if t, e := bfe_util.ParseTime(v); e == nil {
			hints[fmt.Sprintf("t%s=%d", hx(v), t.Unix())] = true
		} else {
			hints["t"+hx(v)+"=x"] = true
		}
	}
	sHint := func(v string) {
		var p, z string
		if _, e := fmt.Sscanf(v, "%6s%s", &p, &z); e == nil {
			hints["s"+hx(v)+"="+hx(p)+":"+hx(z)] = true
		} else {
			hints["s"+hx(v)+"=x"] = true
		}
	}
	hostPart := strings.SplitN(host, ":", 2)[0]
	valPat := func(v string) string { return patList(r, words, v) }
	switch {
	case name == "req_host_in" || name == "req_host_suffix_in":
		a0 = patList(r, []string{"example.org", "EXAMPLE.org", ".org", "a.b", "[", "", "[::1]", "10.0.0.1", "x:1", "b.a", "z"}, hostPart)
	case name == "req_host_tag_in":
		a0 = patList(r, []string{"t1", "T1", "vip", "", "x"}, hosttag)
	case name == "req_port_in":
		a0 = patList(r, []string{"80", "8080", "443", "", "1"}, "")
	case name == "req_method_in":
		a0 = patList(r, []string{"GET", "get", "POST", "HEAD", "PUT", "A"}, method)
	case name == "req_proto_match":
		a0 = r.Pick("HTTP/1.1", "http/1.1", "h2", "H2", "spdy/3.1", "")
	case strings.HasPrefix(name, "req_path_") && !strings.HasSuffix(name, "regmatch"):
		a0 = patList(r, paths, path)
	case name == "req_query_key_in" || name == "req_query_key_prefix_in":
		a0 = patList(r, []string{"k", "K", "key", "uid", "q", "zz", "ke", "u", ""}, "")
	case name == "req_header_key_in" || name == "res_header_key_in":
		a0 = patList(r, []string{"X-Key", "User-Agent", "Referer", "X-Empty", "X-None", "Server", "x-key", "X-KEY", "user-agent", "x-eMPTY", "X Key", "x_key", "server"}, "")
	case name == "req_cookie_key_in":
		a0 = patList(r, []string{"k", "uid", "sid", "zz"}, "")
	case strings.HasPrefix(name, "req_query_value_"):
		a0 = pick(r, append(qkeys, "zz"))
		a1 = valPat(find(query, a0))
	case strings.HasPrefix(name, "req_header_value_"):
		a0 = pick(r, append(hkeys, "X-None"))
		a1 = valPat(find(headers, a0))
		if r.Chance(1, 4) { // header names are case-insensitive: Header.Get canonicalises the key
			a0 = r.Pick(strings.ToLower(a0), strings.ToUpper(a0), strings.ToLower(a0[:1])+a0[1:], strings.Replace(a0, "-", " ", 1), strings.Replace(a0, "-", "_", 1))
		}
	case strings.HasPrefix(name, "req_cookie_value_"):
		a0 = pick(r, append(ckeys, "zz"))
		a1 = valPat(find(cookies, a0))
	case name == "res_header_value_in":
		a0 = pick(r, []string{"X-Key", "Server", "X-Empty", "X-None"})
		a1 = valPat(find(rheaders, a0))
		if r.Chance(1, 4) {
			a0 = r.Pick(strings.ToLower(a0), strings.ToUpper(a0))
		}
	case name == "res_code_in":
		a0 = patList(r, []string{"200", "404", "500", "301", "20", ""}, "")
	case name == "req_context_value_in":
		a0 = r.Pick("ck", "uid", "zz", "")
		a1 = valPat(ctxVals[a0])
	case name == "req_tag_match":
		a0 = r.Pick("t1", "t2", "t3")
		a1 = r.Pick("a", "b", "c", "a:1", "")
	case strings.HasSuffix(name, "ip_range"):
		a0, a1 = pick(r, ipPool), pick(r, ipPool)
		if r.Chance(1, 2) {
			base := net.ParseIP(pick(r, ipPool[:5])).To4()
			lo, hi := net.IPv4(base[0], base[1], base[2], base[3]), net.IPv4(base[0], base[1], base[2], base[3]+byte(r.Intn(3)))
			a0, a1 = lo.String(), hi.String()
			c := vh.Hex(net.IPv4(base[0], base[1], base[2], base[3]+byte(r.Intn(5))-1).To16())
			if cip != "n" {
				cip = c
				b, _ := vh.UnHex(c)
				cipstr = hx(net.IP(b).String())
			}
			if vip != "n" {
				vip = c
			}
			if sip != "n" {
				sip = c
			}
		}
		ipHint(a0)
		ipHint(a1)
	case name == "req_vip_in":
		a0 = patList(r, ipPool, "")
		ipHint(a0)
		for _, s := range strings.Split(a0, "|") {
			ipHint(s)
		}
	case name == "ses_tls_sni_in":
		a0 = patList(r, []string{"example.org", "EXAMPLE.ORG", "a.b", "", "x"}, "")
	case name == "ses_tls_client_ca_in":
		a0 = patList(r, []string{"ca1", "CA1", "ca2", "", "x"}, "")
	}
	if strings.HasSuffix(name, "regmatch") {
		p := pick(r, regs)
		if len(kinds) == 2 {
			a1 = p
		} else {
			a0 = p
		}
	}
	if strings.HasSuffix(name, "hash_in") {
		p := pick(r, hashes)
		if name == "req_cip_hash_in" {
			a0 = p
		} else {
			a1 = p
		}
	}
	if strings.HasPrefix(name, "bfe_") {
		// debug time: a date next to a day / month / year boundary, a time of day next to midnight or anywhere,
		// in any zone: the local date in the primitive's zone is the previous, the same or the next day
		day := r.Pick("20190204", "20190205", "20190301", "20190228", "20200229", "20191231", "20200101", "19700101")
		dz := zone(r)
		dt := day + tod(r) + dz
		if r.Chance(1, 12) {
			dt = pick(r, times)
		}
		if name == "bfe_time_range" {
			a0, a1 = pick(r, times), pick(r, times)
			switch r.Intn(4) {
			case 0, 1: // a window around / next to the debug time, start and end in (other) random zones
				z1, z2 := zone(r), zone(r)
				a0 = r.Pick("20190203", day, "19691231") + tod(r) + z1
				a1 = r.Pick(day, "20200301", "20190206") + tod(r) + z2
			case 2: // the debug instant itself as a bound, written in the same zone
				a0 = dt
				a1 = r.Pick("20200301", day) + tod(r) + dz
			}
		} else {
			a0, a1 = pick(r, tods), pick(r, tods)
			if !r.Chance(1, 8) {
				z := zone(r)
				s1, s2 := tod(r), tod(r)
				if s1 > s2 && r.Chance(3, 4) {
					s1, s2 = s2, s1
				}
				z2 := z
				if r.Chance(1, 10) {
					z2 = zone(r)
				}
				a0, a1 = s1+z, s2+z2
			}
		}
		headers = append(headers, [2]string{"X-Bfe-Debug-Time", dt})
		tHint(dt)
		tHint(a0)
		tHint(a1)
		sHint(a0)
		sHint(a1)
	}
	// regexp and hash oracles on candidate values
	re, hb := "-", "-"
	if strings.HasSuffix(name, "regmatch") {
		p := a0
		if len(kinds) == 2 {
			p = a1
		}
		rx, err := regexp.Compile(p)
		if err != nil {
			re = "x"
		} else {
			cands := map[string]bool{"": true, hostPart: true, path: true, uri: true}
			for _, kv := range append(append([][2]string{}, query...), headers...) {
				cands[kv[1]] = true
			}
			var out []string
			for v := range cands {
				b := "0"
				if rx.MatchString(v) {
					b = "1"
				}
				out = append(out, hx(v)+"="+b)
			}
			sort.Strings(out)
			re = strings.Join(out, ",")
		}
	}
	if strings.HasSuffix(name, "hash_in") {
		cands := map[string]bool{"": true}
		for _, kv := range append(append(append([][2]string{}, query...), headers...), cookies...) {
			cands[kv[1]] = true
			cands[strings.ToLower(kv[1])] = true
		}
		if cipstr != "-" {
			b, _ := vh.UnHex(cipstr)
			cands[string(b)] = true
		}
		var out []string
		for v := range cands {
			out = append(out, hx(v)+"="+strconv.Itoa(condition.GetHash([]byte(v), condition.HashMatcherBucketSize)))
		}
		sort.Strings(out)
		hb = strings.Join(out, ",")
	}
	fold := "0"
	if hasFold && r.Bool() {
		fold = "1"
	}
	// non-ASCII and invalid UTF-8 in patterns and attributes, where the primitive does not fold case
	// (strings.ToUpper is modelled on ASCII only)
	noFold := map[string]bool{"req_port_in": true, "req_query_key_in": true, "req_query_key_prefix_in": true, "req_tag_match": true,
		"res_code_in": true, "ses_tls_client_ca_in": true}
	if r.Chance(1, 8) && ((hasFold && fold == "0" && !strings.HasSuffix(name, "hash_in") && !strings.HasPrefix(name, "req_cookie")) || noFold[name]) {
		na := []string{"é", "\xff", "日本", "\xc3", "ı", "ß", "\xef\xbf\xbd"}
		for i := range na {
			if u, err := strconv.Unquote(`"` + na[i] + `"`); err == nil {
				na[i] = u
			}
		}
		x := pick(r, na)
		switch {
		case strings.HasPrefix(name, "req_path_"):
			path = path + x + r.Pick("", "/", "a")
			a0 = r.Pick(path, a0+"|"+path, x, a0+x, "/"+x)
		case strings.HasPrefix(name, "req_query_value_") && len(query) > 0:
			query[0][1] += x
			a0 = query[0][0]
			a1 = r.Pick(query[0][1], x, a1+"|"+x)
		case strings.HasPrefix(name, "req_header_value_") && len(headers) > 0:
			headers[0][1] += x
			a0 = headers[0][0]
			a1 = r.Pick(headers[0][1], x, a1+"|"+x)
		case name == "req_query_key_in" || name == "req_query_key_prefix_in":
			query = append(query, [2]string{"k" + x, "v"})
			a0 = r.Pick("k"+x, "k", a0+"|k"+x)
		case name == "req_tag_match":
			a1 = a1 + x
			tags = []string{hx(a0) + ":" + hx(a1+":1") + "/" + hx(a1)}
		case name == "req_port_in":
			host = "example.org:80" + x
			a0 = r.Pick("80"+x, "80")
		}
	}
	tg := "-"
	if len(tags) > 0 {
		tg = strings.Join(tags, ",")
	}
	hs := "-"
	if len(hints) > 0 {
		var l []string
		for h := range hints {
			l = append(l, h)
		}
		sort.Strings(l)
		hs = strings.Join(l, ",")
	}
	sec := "0"
	if secure {
		sec = "1"
	}
	return strings.Join([]string{"m", name, hx(a0), hx(a1), fold, hs, hx(host), hx(path), hx(method), encPairs(query),
		encPairs(headers), encPairs(cookies), tg, cip, vip, hx(uri), hx(proto), sec, hx(sesproto), tls, sip, hx(hosttag),
		trusted, resp, ctx, cipstr, re, hb}, ";")
}

// ---- execution --------------------------------------------------------------------------------

func un(s string) string { b, _ := vh.UnHex(s); return string(b) }

func unpairs(s string) ([][2]string, bool) {
	if s == "-" {
		return nil, true
	}
	var out [][2]string
	for _, kv := range strings.Split(s, ",") {
		p := strings.Split(kv, ":")
		if len(p) != 2 {
			return nil, false
		}
		out = append(out, [2]string{un(p[0]), un(p[1])})
	}
	return out, true
}

func quote(s string) string {
	if !strings.ContainsAny(s, "`\r") {
		return "`" + s + "`"
	}
	return `"` + s + `"`
}

func ipOf(s string) net.IP {
	if s == "n" {
		return nil
	}
	b, _ := vh.UnHex(s)
	return net.IP(b)
}

func exec(op string) string {
	f := strings.Split(op, ";")
	if len(f) != 28 || f[0] != "m" {
		return "bad-op"
	}
	kinds, ok := protos[f[1]]
	if !ok {
		return "bad-op"
	}
	strs := []string{un(f[2]), un(f[3]), ""}
	var args []string
	si := 0
	for _, k := range kinds {
		if k == parser.BOOL {
			if f[4] == "1" {
				args = append(args, "true")
			} else {
				args = append(args, "false")
			}
		} else {
			args = append(args, quote(strs[si]))
			si++
		}
	}
	cond, err := condition.Build(f[1] + "(" + strings.Join(args, ",") + ")")
	if err != nil {
		return "builderr"
	}
	query, ok1 := unpairs(f[9])
	headers, ok2 := unpairs(f[10])
	cookies, ok3 := unpairs(f[11])
	if !ok1 || !ok2 || !ok3 {
		return "bad-op"
	}
	hr := &bfe_http.Request{Method: un(f[8]), Host: un(f[6]), URL: &url.URL{Path: un(f[7])}, Header: bfe_http.Header{},
		RequestURI: un(f[15]), Proto: un(f[16])}
	var q []string
	for _, kv := range query {
		q = append(q, url.QueryEscape(kv[0])+"="+url.QueryEscape(kv[1]))
	}
	hr.URL.RawQuery = strings.Join(q, "&")
	for _, kv := range headers {
		hr.Header[kv[0]] = append(hr.Header[kv[0]], kv[1])
	}
	if len(cookies) > 0 {
		var cs []string
		for _, kv := range cookies {
			cs = append(cs, kv[0]+"="+kv[1])
		}
		hr.Header["Cookie"] = []string{strings.Join(cs, "; ")}
	}
	ses := &bfe_basic.Session{IsSecure: f[17] == "1", Proto: un(f[18])}
	ses.SetTrustSource(f[22] == "1")
	if f[19] != "n" {
		p := strings.Split(f[19], ":")
		if len(p) != 3 {
			return "bad-op"
		}
		ses.TlsState = &bfe_tls.ConnectionState{ServerName: un(p[0]), ClientAuth: p[1] == "1", ClientCAName: un(p[2])}
	}
	if ip := ipOf(f[20]); ip != nil {
		ses.RemoteAddr = &net.TCPAddr{IP: ip, Port: 4321}
	}
	ses.Vip = ipOf(f[14])
	req := &bfe_basic.Request{Session: ses, HttpRequest: hr}
	req.Route.HostTag = un(f[21])
	if f[12] != "-" {
		req.Tags.TagTable = map[string][]string{}
		for _, kv := range strings.Split(f[12], ",") {
			p := strings.Split(kv, ":")
			if len(p) != 2 {
				return "bad-op"
			}
			var vs []string
			for _, v := range strings.Split(p[1], "/") {
				vs = append(vs, un(v))
			}
			req.Tags.TagTable[un(p[0])] = vs
		}
	}
	if ip := ipOf(f[13]); ip != nil {
		req.ClientAddr = &net.TCPAddr{IP: ip, Port: 1234}
	}
	if f[23] != "n" {
		p := strings.Split(f[23], "|")
		if len(p) != 2 {
			return "bad-op"
		}
		code, _ := strconv.Atoi(un(p[0]))
		rh, ok := unpairs(p[1])
		if !ok {
			return "bad-op"
		}
		req.HttpResponse = &bfe_http.Response{StatusCode: code, Header: bfe_http.Header{}}
		for _, kv := range rh {
			req.HttpResponse.Header[kv[0]] = append(req.HttpResponse.Header[kv[0]], kv[1])
		}
	}
	if f[24] != "n" {
		req.Context = map[interface{}]interface{}{}
		if f[24] != "-" {
			for _, kv := range strings.Split(f[24], ",") {
				p := strings.Split(kv, ":")
				if len(p) != 2 {
					return "bad-op"
				}
				if p[1] == "*" {
					req.Context[un(p[0])] = 42
				} else {
					req.Context[un(p[0])] = un(p[1])
				}
			}
		}
	}
	first := cond.Match(req)
	// the request caches its parsed query and cookies: a second evaluation, and one after other primitives
	// touched the caches, must agree
	if warm, err := condition.Build("req_query_exist() || req_cookie_key_in(\"k\") || default_t()"); err == nil {
		warm.Match(req)
	}
	if cond.Match(req) != first {
		return "unstable"
	}
	if first {
		return "T"
	}
	return "F"
}

func main() { vh.Main(gen, exec) }
