// C40: SPDY server enforces stream and flow-control rules — a scripted SPDY client over net.Pipe against a real
// server connection (bfe_spdy handleConn + serve, hook VerifC40Serve), and the real flow arithmetic.
//
//	sv <maxStreams> E1 E2 ...   events: S<id>,<fin>  D<id>,<len>,<fin>  W<id>,<delta>  R<id>,<status>  I<val>  P<id>
//	                            after every event the client sends a barrier PING and collects what the server sent
//	                            before the echo (RST_STREAM / GOAWAY / PING all travel in the FIFO control queue).
//	                            The handler never reads the body and never writes: all output comes from the serve loop.
//	fa <n0> <n>                 flow.add(n) on a window holding n0        -> "<new> <ok>"
//	ft <s> <c> <n>              take(n) on stream window s / conn window c -> "<s'> <c'> <avail>" or PANIC
//
// result of sv: per event `[tok,tok,...]` ; tok = rst(id,status) | goaway(last,status) | ping(id) ; `closed` when the
// server closed the connection (then the script stops), `goaway` also stops the script (the server closes 250 ms later).
package main

import (
	"fmt"
	"net"
	"strconv"
	"strings"
	"time"

	"bfeverif/harness/internal/vh"
	http "github.com/bfenetworks/bfe/bfe_http"
	spdy "github.com/bfenetworks/bfe/bfe_spdy"
)

const barrierBase = 1000001

func handler(w http.ResponseWriter, r *http.Request) {
	<-w.(http.CloseNotifier).CloseNotify()
}

func atoi(s string) (uint32, bool) {
	v, err := strconv.ParseUint(s, 10, 32)
	return uint32(v), err == nil
}

func execSv(toks []string) string {
	if len(toks) < 1 {
		return "bad-op"
	}
	maxS, ok := atoi(toks[0])
	if !ok || maxS == 0 {
		return "bad-op"
	}
	cc, sc := net.Pipe()
	done := spdy.VerifC40Serve(sc, http.HandlerFunc(handler), maxS)
	fr, err := spdy.NewFramer(cc, cc)
	if err != nil {
		return "newframer-failed"
	}
	frames := make(chan spdy.Frame, 64)
	go func() {
		for {
			f, err := fr.ReadFrame()
			if err != nil {
				close(frames)
				return
			}
			frames <- f
		}
	}()
	defer func() {
		cc.Close()
		select {
		case <-done:
		case <-time.After(5 * time.Second):
		}
		fr.ReleaseWriter()
	}()
	// the server's initial SETTINGS
	select {
	case f, ok := <-frames:
		if _, isSet := f.(*spdy.SettingsFrame); !ok || !isSet {
			return "no-initial-settings"
		}
	case <-time.After(10 * time.Second):
		return "HANG"
	}
	var out []string
	write := func(f spdy.Frame) bool {
		cc.SetWriteDeadline(time.Now().Add(10 * time.Second))
		return fr.WriteFrame(f) == nil
	}
	for k, ev := range toks[1:] {
		if len(ev) < 2 {
			return "bad-op"
		}
		a := strings.Split(ev[1:], ",")
		n := make([]uint32, len(a))
		for i := range a {
			v, ok := atoi(a[i])
			if !ok {
				return "bad-op"
			}
			n[i] = v
		}
		var f spdy.Frame
		switch {
		case ev[0] == 'S' && len(n) == 2:
			s := &spdy.SynStreamFrame{StreamId: spdy.StreamId(n[0]), Headers: http.Header{}}
			s.Headers.Set(":method", "POST")
			s.Headers.Set(":path", "/")
			s.Headers.Set(":version", "HTTP/1.1")
			s.Headers.Set(":host", "spdy.bfe.com")
			s.Headers.Set(":scheme", "https")
			if n[1] != 0 {
				s.Headers.Set(":method", "GET")
				s.CFHeader.Flags = spdy.ControlFlagFin
			}
			f = s
		case ev[0] == 'D' && len(n) == 3 && n[1] <= 1<<20:
			d := &spdy.DataFrame{StreamId: spdy.StreamId(n[0]), Data: make([]byte, n[1])}
			if n[2] != 0 {
				d.Flags = spdy.DataFlagFin
			}
			f = d
		case ev[0] == 'W' && len(n) == 2:
			f = &spdy.WindowUpdateFrame{StreamId: spdy.StreamId(n[0]), DeltaWindowSize: n[1]}
		case ev[0] == 'R' && len(n) == 2 && n[1] != 0:
			f = &spdy.RstStreamFrame{StreamId: spdy.StreamId(n[0]), Status: spdy.RstStreamStatus(n[1])}
		case ev[0] == 'I' && len(n) == 1:
			f = &spdy.SettingsFrame{FlagIdValues: []spdy.SettingsFlagIdValue{{Id: spdy.SettingsInitialWindowSize, Value: n[0]}}}
		case ev[0] == 'P' && len(n) == 1:
			f = &spdy.PingFrame{Id: n[0]}
		default:
			return "bad-op"
		}
		// frames the client-side writer itself refuses (stream id 0 ...) are not sent: the event is a no-op
		sent := write(f)
		barrier := uint32(barrierBase + 2*k)
		if !write(&spdy.PingFrame{Id: barrier}) {
			sent = false
		}
		_ = sent
		var toksOut []string
		closed, goaway := false, false
	wait:
		for {
			select {
			case g, ok := <-frames:
				if !ok {
					closed = true
					break wait
				}
				switch g := g.(type) {
				case *spdy.PingFrame:
					if g.Id == barrier {
						break wait
					}
					toksOut = append(toksOut, fmt.Sprintf("ping(%d)", g.Id))
				case *spdy.RstStreamFrame:
					toksOut = append(toksOut, fmt.Sprintf("rst(%d,%d)", g.StreamId, g.Status))
				case *spdy.GoAwayFrame:
					toksOut = append(toksOut, fmt.Sprintf("goaway(%d,%d)", g.LastGoodStreamId, g.Status))
					goaway = true
					break wait // after an error GOAWAY the server writes nothing more and closes 250 ms later
				case *spdy.WindowUpdateFrame:
					toksOut = append(toksOut, fmt.Sprintf("wu(%d,%d)", g.StreamId, g.DeltaWindowSize))
				default:
					toksOut = append(toksOut, fmt.Sprintf("other(%T)", g))
				}
			case <-time.After(20 * time.Second):
				return strings.Join(out, " ") + " HANG"
			}
		}
		if closed {
			// what arrived before the close is timing dependent only in whether a GOAWAY made it: keep rst/goaway
			out = append(out, "["+strings.Join(toksOut, ",")+"]", "closed")
			break
		}
		out = append(out, "["+strings.Join(toksOut, ",")+"]")
		if goaway {
			out = append(out, "stop")
			break
		}
	}
	return strings.Join(out, " ")
}

func exec(op string) string {
	f := strings.Split(op, " ")
	switch f[0] {
	case "sv":
		return vh.SafeTimeout(60*time.Second, func() string { return execSv(f[1:]) })
	case "fa":
		if len(f) != 3 {
			return "bad-op"
		}
		a, e1 := strconv.ParseInt(f[1], 10, 32)
		b, e2 := strconv.ParseInt(f[2], 10, 32)
		if e1 != nil || e2 != nil {
			return "bad-op"
		}
		n, ok := spdy.VerifC40FlowAdd(int32(a), int32(b))
		return fmt.Sprintf("%d %v", n, ok)
	case "ft":
		if len(f) != 4 {
			return "bad-op"
		}
		a, e1 := strconv.ParseInt(f[1], 10, 32)
		b, e2 := strconv.ParseInt(f[2], 10, 32)
		c, e3 := strconv.ParseInt(f[3], 10, 32)
		if e1 != nil || e2 != nil || e3 != nil {
			return "bad-op"
		}
		x, y, z := spdy.VerifC40FlowTake(int32(a), int32(b), int32(c))
		return fmt.Sprintf("%d %d %d", x, y, z)
	}
	return "bad-op"
}

func i32(r *vh.Rand) int64 {
	switch r.Intn(8) {
	case 0:
		return 0
	case 1:
		return 2147483647 - int64(r.Intn(3))
	case 2:
		return -2147483648 + int64(r.Intn(3))
	case 3:
		return -int64(r.Intn(70000))
	case 4:
		return 65536
	}
	return int64(r.Intn(1 << 31))
}

func gen(r *vh.Rand) string {
	switch r.Intn(10) {
	case 0, 1:
		return fmt.Sprintf("fa %d %d", i32(r), i32(r))
	case 2:
		return fmt.Sprintf("ft %d %d %d", i32(r), i32(r), i32(r))
	}
	maxS := r.Range(1, 4)
	n := r.Range(1, 9)
	p := []string{"sv", strconv.Itoa(maxS)}
	next := 1
	var ids []int
	pickID := func() int {
		if len(ids) > 0 && !r.Chance(1, 6) {
			return ids[r.Intn(len(ids))]
		}
		return pick(r, 0, 1, 2, 3, 5, 7, 9, 11)
	}
	for i := 0; i < n; i++ {
		switch r.Intn(12) {
		case 0, 1, 2, 3:
			id := next
			switch r.Intn(8) {
			case 0:
				id = pickID() // reuse / lower / even / zero
			case 1:
				id = next + 2*r.Intn(3)
			}
			if id >= next {
				next = id + 2
			}
			if id%2 == 1 {
				ids = append(ids, id)
			}
			p = append(p, fmt.Sprintf("S%d,%d", id, r.Intn(3)/2))
		case 4, 5, 6, 7:
			l := pick(r, 0, 1, 100, 16384, 32768, 65535, 65536, 65537, 40000)
			p = append(p, fmt.Sprintf("D%d,%d,%d", pickID(), l, r.Intn(4)/3))
		case 8:
			d := pick(r, 0, 1, 65536, 2147418111, 2147418112, 2147483647, 2147483648+5)
			id := pickID()
			if r.Chance(1, 3) {
				id = 0
			}
			p = append(p, fmt.Sprintf("W%d,%d", id, d))
		case 9:
			p = append(p, fmt.Sprintf("R%d,%d", pickID(), pick(r, 1, 5, 8)))
		case 10:
			p = append(p, fmt.Sprintf("I%d", pick(r, 0, 1, 65536, 65535, 100000, 2147483647, 2147483648, 4294967295)))
		default:
			p = append(p, fmt.Sprintf("P%d", pick(r, 0, 1, 2, 3, 7)))
		}
	}
	return strings.Join(p, " ")
}

func main() { vh.Main(gen, exec) }

func pick(r *vh.Rand, xs ...int) int { return xs[r.Intn(len(xs))] }
