// C40: SPDY server enforces stream and flow-control rules — a scripted SPDY client over net.Pipe against a real
// server connection (bfe_spdy handleConn + serve, hook VerifC40Serve), and the real flow arithmetic.
//
//	sv <maxStreams> E1 E2 ...   events: S<id>,<fin>  D<id>,<len>,<fin>  W<id>,<delta>  R<id>,<status>  I<val>  P<id>
//	                            after every event the client sends a barrier PING and collects what the server sent
//	                            before the echo (RST_STREAM / GOAWAY / PING all travel in the FIFO control queue).
//	                            The handler never reads the body and never writes: all output comes from the serve loop.
//	fa <n0> <n>                 flow.add(n) on a window holding n0        -> "<new> <ok>"
//	ft <s> <c> <n>              take(n) on stream window s / conn window c -> "<s'> <c'> <avail>" or PANIC
//
// result of sv: per event `[tok,tok,...]` ; tok = rst(id,status) | goaway(last,status) | ping(id) ; `closed` when the
// server closed the connection (then the script stops), `goaway` also stops the script (the server closes 250 ms later).
package main

import (
	"fmt"
	"io"
	"net"
	"os"
	"runtime"
	"sort"
	"strconv"
	"strings"
	"sync"
	"time"

	"bfeverif/harness/internal/vh"
	http "github.com/bfenetworks/bfe/bfe_http"
	spdy "github.com/bfenetworks/bfe/bfe_spdy"
)

// ---------------------------------------------------------------- quiescence

var waitPrefixes = []string{"chan receive", "chan send", "select", "IO wait", "sync.", "sleep",
	"GC worker (idle)", "force gc (idle)", "GC sweep wait", "GC scavenge wait", "finalizer wait", "timer goroutine (idle)",
	"cleanup wait"}

// quiesce returns once every goroutine except the caller is blocked (channel, select, cond, mutex ...): nothing
// in the process can make progress until the harness acts (timers of the server are hours away).  The decision is
// taken on a stop-the-world snapshot of all goroutine states (runtime.Stack), never on elapsed time.
var stackBuf = make([]byte, 1<<20)

func quiesce() string {
	buf := stackBuf
	deadline := time.Now().Add(15 * time.Second)
	for spins := 0; ; spins++ {
		runtime.Gosched()
		n := runtime.Stack(buf, true)
		busy := ""
		first := true
		for _, blk := range strings.Split(string(buf[:n]), "\n\n") {
			if !strings.HasPrefix(blk, "goroutine ") {
				continue
			}
			i, j := strings.IndexByte(blk, '['), strings.IndexByte(blk, ']')
			if i < 0 || j < i {
				continue
			}
			if first { // the caller is listed first
				first = false
				continue
			}
			st := blk[i+1 : j]
			if k := strings.IndexByte(st, ','); k >= 0 {
				st = st[:k]
			}
			ok := false
			for _, p := range waitPrefixes {
				if strings.HasPrefix(st, p) {
					ok = true
					break
				}
			}
			if !ok {
				busy = st
				break
			}
		}
		if busy == "" {
			if os.Getenv("C40_DEBUG") != "" {
				fmt.Fprintf(os.Stderr, "---- quiescent after %d spins\n%s\n", spins, string(buf[:n]))
			}
			return ""
		}
		if time.Now().After(deadline) {
			return "HANG(" + busy + ")"
		}
		if spins > 50 {
			time.Sleep(20 * time.Microsecond)
		}
	}
}

// ---------------------------------------------------------------- scripted handlers

type cmd struct {
	kind byte // 'r' read n bytes of the body (io.ReadFull), 'w' write n bytes and flush, 'f' return
	n    int
}

type registry struct {
	mu      sync.Mutex
	h       map[uint32]chan cmd
	read    map[uint32]int  // bytes the handlers got from their request bodies since the last event
	corrupt map[uint32]bool // streams whose handler read bytes that are not the ones the client sent
	rend    []string        // how the handlers' read commands ended: rend(id,full|eof|err), in completion order
}

// every request body and every response body carries a position dependent pattern, checked by the other side
func patIn(id uint32, o int) byte  { return byte(int(id)*31 + o*7 + (o>>8)*3 + 13) }
func patOut(id uint32, o int) byte { return byte(int(id)*17 + o*5 + (o>>8)*11 + 1) }

var reg *registry

func handler(w http.ResponseWriter, r *http.Request) {
	id := uint32(r.State.SerialNumber-1)*2 + 1
	ch := make(chan cmd, 256)
	myReg := reg
	myReg.mu.Lock()
	myReg.h[id] = ch
	myReg.mu.Unlock()
	defer func() {
		myReg.mu.Lock()
		delete(myReg.h, id)
		myReg.mu.Unlock()
	}()
	buf := make([]byte, 1<<17)
	roff, woff := 0, 0
	for c := range ch {
		switch c.kind {
		case 'r':
			// io.ReadFull, with every partial read accounted for as soon as it returns
			var lastErr error
			for rem := c.n; rem > 0; {
				n, err := r.Body.Read(buf[:rem])
				bad := false
				for i := 0; i < n; i++ {
					if buf[i] != patIn(id, roff+i) {
						bad = true
					}
				}
				roff += n
				myReg.mu.Lock()
				myReg.read[id] += n
				if bad {
					myReg.corrupt[id] = true
				}
				myReg.mu.Unlock()
				rem -= n
				if err != nil {
					lastErr = err
					break
				}
			}
			// the contract of Read: all bytes, or io.EOF after the client's FIN, or the error the stream was closed with
			kind := "full"
			if lastErr == io.EOF {
				kind = "eof"
			} else if lastErr != nil {
				kind = "err"
			}
			myReg.mu.Lock()
			myReg.rend = append(myReg.rend, fmt.Sprintf("rend(%d,%s)", id, kind))
			myReg.mu.Unlock()
		case 'w':
			for i := 0; i < c.n; i++ {
				buf[i] = patOut(id, woff+i)
			}
			woff += c.n
			w.Write(buf[:c.n])
			w.(http.Flusher).Flush()
		case 'f':
			return
		}
	}
}

type clientView struct {
	mu      sync.Mutex
	frames  []spdy.Frame
	closed  bool
	roff    map[uint32]int
	corrupt map[uint32]bool // streams on which the client received response bytes the handler did not write
}

func atoi(s string) (uint32, bool) {
	v, err := strconv.ParseUint(s, 10, 32)
	return uint32(v), err == nil
}

// render groups what arrived during one event by stream id (0 = connection), keeps the arrival order inside a
// group and merges the WINDOW_UPDATEs of a group into one token (their split depends on read sizes only).
func render(fs []spdy.Frame, reads map[uint32]int, rends []string) string {
	type tok struct {
		id   uint32
		s    string
		wu   bool
		sum  uint64
		rank int // order inside a stream's group: goaway, ping, rst, reply, data (arrival order), wu, read
	}
	var toks []*tok
	wuOf := map[uint32]*tok{}
	for _, g := range fs {
		switch g := g.(type) {
		case *spdy.PingFrame:
			toks = append(toks, &tok{id: 0, s: fmt.Sprintf("ping(%d)", g.Id), rank: 1})
		case *spdy.RstStreamFrame:
			toks = append(toks, &tok{id: uint32(g.StreamId), s: fmt.Sprintf("rst(%d,%d)", g.StreamId, g.Status), rank: 2})
		case *spdy.GoAwayFrame:
			toks = append(toks, &tok{id: 0, s: fmt.Sprintf("goaway(%d,%d)", g.LastGoodStreamId, g.Status)})
		case *spdy.WindowUpdateFrame:
			id := uint32(g.StreamId)
			if t, ok := wuOf[id]; ok {
				t.sum += uint64(g.DeltaWindowSize)
			} else {
				t := &tok{id: id, wu: true, sum: uint64(g.DeltaWindowSize), rank: 5}
				wuOf[id] = t
				toks = append(toks, t)
			}
		case *spdy.SynReplyFrame:
			fin := 0
			if g.StreamEnded() {
				fin = 1
			}
			toks = append(toks, &tok{id: uint32(g.StreamId), s: fmt.Sprintf("reply(%d,%d)", g.StreamId, fin), rank: 3})
		case *spdy.DataFrame:
			fin := 0
			if g.StreamEnded() {
				fin = 1
			}
			toks = append(toks, &tok{id: uint32(g.StreamId), s: fmt.Sprintf("data(%d,%d,%d)", g.StreamId, len(g.Data), fin), rank: 4})
		default:
			toks = append(toks, &tok{id: 0, s: fmt.Sprintf("other(%T)", g)})
		}
	}
	// what the handlers consumed (observed in the handler, not on the wire): last token of the stream's group
	rids := make([]int, 0, len(reads))
	for id := range reads {
		rids = append(rids, int(id))
	}
	sort.Ints(rids)
	for _, id := range rids {
		if n := reads[uint32(id)]; n > 0 {
			toks = append(toks, &tok{id: uint32(id), s: fmt.Sprintf("read(%d,%d)", id, n), rank: 6})
		}
	}
	for _, e := range rends {
		var id uint32
		fmt.Sscanf(e, "rend(%d,", &id)
		toks = append(toks, &tok{id: id, s: e, rank: 7})
	}
	sort.SliceStable(toks, func(i, j int) bool {
		if toks[i].id != toks[j].id {
			return toks[i].id < toks[j].id
		}
		return toks[i].rank < toks[j].rank
	})
	var out []string
	for _, t := range toks {
		if t.wu {
			out = append(out, fmt.Sprintf("wu(%d,%d)", t.id, t.sum))
		} else {
			out = append(out, t.s)
		}
	}
	return "[" + strings.Join(out, ",") + "]"
}

// segWriter hands the client's frames to the connection in pieces of n bytes (n = 0: as written)
type segWriter struct {
	c net.Conn
	n int
}

func (w *segWriter) Write(p []byte) (int, error) {
	if w.n <= 0 {
		return w.c.Write(p)
	}
	done := 0
	for done < len(p) {
		k := w.n
		if k > len(p)-done {
			k = len(p) - done
		}
		m, err := w.c.Write(p[done : done+k])
		done += m
		if err != nil {
			return done, err
		}
	}
	return done, nil
}

func execSv(toks []string) string {
	if len(toks) < 1 {
		return "bad-op"
	}
	// "<MaxConcurrentStreams>[:<k>]": with :k the client's bytes reach the server in writes of k bytes
	advSeg := strings.Split(toks[0], ":")
	maxS, ok := atoi(advSeg[0])
	if !ok || maxS == 0 || len(advSeg) > 2 {
		return "bad-op"
	}
	segN := uint32(0)
	if len(advSeg) == 2 {
		if segN, ok = atoi(advSeg[1]); !ok || segN == 0 {
			return "bad-op"
		}
	}
	reg = &registry{h: map[uint32]chan cmd{}, read: map[uint32]int{}, corrupt: map[uint32]bool{}}
	myReg := reg
	var panicMu sync.Mutex
	panicMsg := ""
	spdy.VerifC40OnPanic(func(msg string) {
		panicMu.Lock()
		if panicMsg == "" {
			panicMsg = msg
		}
		panicMu.Unlock()
	})
	cc, sc := net.Pipe()
	done, graceCh := spdy.VerifC40ServeGraceful(sc, http.HandlerFunc(handler), maxS)
	graceDone := false
	fr, err := spdy.NewFramer(&segWriter{cc, int(segN)}, cc)
	if err != nil {
		return "newframer-failed"
	}
	cv := &clientView{roff: map[uint32]int{}, corrupt: map[uint32]bool{}}
	go func() {
		for {
			f, err := fr.ReadFrame()
			cv.mu.Lock()
			if err != nil {
				cv.closed = true
				cv.mu.Unlock()
				return
			}
			if d, ok := f.(*spdy.DataFrame); ok {
				id := uint32(d.StreamId)
				for i, b := range d.Data {
					if b != patOut(id, cv.roff[id]+i) {
						cv.corrupt[id] = true
					}
				}
				cv.roff[id] += len(d.Data)
			}
			cv.frames = append(cv.frames, f)
			cv.mu.Unlock()
		}
	}()
	defer func() {
		cc.Close()
		myReg.mu.Lock()
		for _, ch := range myReg.h {
			close(ch)
		}
		myReg.mu.Unlock()
		select {
		case <-done:
		case <-time.After(10 * time.Second):
		}
		fr.ReleaseWriter()
		quiesce()
	}()
	if h := quiesce(); h != "" {
		return h
	}
	cv.mu.Lock()
	okSet := len(cv.frames) == 1
	if okSet {
		_, okSet = cv.frames[0].(*spdy.SettingsFrame)
	}
	cv.frames = nil
	cv.mu.Unlock()
	if !okSet {
		return "no-initial-settings"
	}
	var out []string
	sent := map[uint32]int{} // request body bytes sent per stream (position of the pattern)
	synSeen := map[uint32]bool{}
	for _, group := range toks[1:] {
		// a group `a+b+c` is a BURST: the frames are written back to back, quiescence is awaited once
		for _, ev := range strings.Split(group, "+") {
			if len(ev) < 2 {
				return "bad-op"
			}
			a := strings.Split(ev[1:], ",")
			n := make([]uint32, len(a))
			for i := range a {
				v, ok := atoi(a[i])
				if !ok {
					return "bad-op"
				}
				n[i] = v
			}
			var f spdy.Frame
			switch {
			case ev[0] == 'S' && (len(n) == 2 || len(n) == 4):
				// S id,fin[,method,cl]  method 0 POST 1 GET 2 HEAD (default: POST, GET with FIN);
				// cl 0 = no Content-Length, 1 = "abc", 2 = "-5", k+10 = the number k
				s := &spdy.SynStreamFrame{StreamId: spdy.StreamId(n[0]), Headers: http.Header{}}
				if !synSeen[n[0]] {
					// a request body starts here (DATA before the first SYN_STREAM of the id is refused, not delivered;
					// a repeated SYN_STREAM never starts a second body)
					synSeen[n[0]] = true
					sent[n[0]] = 0
				}
				meth := "POST"
				if n[1] != 0 {
					meth = "GET"
					s.CFHeader.Flags = spdy.ControlFlagFin
				}
				if len(n) == 4 {
					if n[2] > 2 {
						return "bad-op"
					}
					meth = []string{"POST", "GET", "HEAD"}[n[2]]
					switch {
					case n[3] == 1:
						s.Headers.Set("content-length", "abc")
					case n[3] == 2:
						s.Headers.Set("content-length", "-5")
					case n[3] >= 10:
						s.Headers.Set("content-length", strconv.Itoa(int(n[3]-10)))
					case n[3] != 0:
						return "bad-op"
					}
				}
				s.Headers.Set(":method", meth)
				s.Headers.Set(":path", "/")
				s.Headers.Set(":version", "HTTP/1.1")
				s.Headers.Set(":host", "spdy.bfe.com")
				s.Headers.Set(":scheme", "https")
				f = s
			case ev[0] == 'D' && len(n) == 3 && n[1] <= 1<<20:
				d := &spdy.DataFrame{StreamId: spdy.StreamId(n[0]), Data: make([]byte, n[1])}
				for i := range d.Data {
					d.Data[i] = patIn(n[0], sent[n[0]]+i)
				}
				if n[0] != 0 {
					sent[n[0]] += int(n[1])
				}
				if n[2] != 0 {
					d.Flags = spdy.DataFlagFin
				}
				f = d
			case ev[0] == 'W' && len(n) == 2:
				f = &spdy.WindowUpdateFrame{StreamId: spdy.StreamId(n[0]), DeltaWindowSize: n[1]}
			case ev[0] == 'R' && len(n) == 2 && n[1] != 0:
				f = &spdy.RstStreamFrame{StreamId: spdy.StreamId(n[0]), Status: spdy.RstStreamStatus(n[1])}
			case ev[0] == 'I' && len(n) == 1:
				f = &spdy.SettingsFrame{FlagIdValues: []spdy.SettingsFlagIdValue{{Id: spdy.SettingsInitialWindowSize, Value: n[0]}}}
			case ev[0] == 'P' && len(n) == 1:
				f = &spdy.PingFrame{Id: n[0]}
			case (ev[0] == 'r' || ev[0] == 'w') && len(n) == 2 && n[1] <= 1<<17:
				myReg.mu.Lock()
				if ch, ok := myReg.h[n[0]]; ok {
					ch <- cmd{ev[0], int(n[1])}
				}
				myReg.mu.Unlock()
			case ev[0] == 'G' && len(n) == 1:
				// graceful shutdown of the server (bfe closes http.Server.CloseNotifyCh): once per connection
				if !graceDone {
					graceDone = true
					close(graceCh)
				}
			case ev[0] == 'f' && len(n) == 1:
				myReg.mu.Lock()
				if ch, ok := myReg.h[n[0]]; ok {
					ch <- cmd{'f', 0}
				}
				myReg.mu.Unlock()
			default:
				return "bad-op"
			}
			if f != nil {
				// frames the client-side writer itself refuses (stream id 0 ...) are not sent: the event is a no-op
				cc.SetWriteDeadline(time.Now().Add(30 * time.Second))
				fr.WriteFrame(f)
			}
		}
		if h := quiesce(); h != "" {
			return strings.Join(out, " ") + " " + h
		}
		cv.mu.Lock()
		got := cv.frames
		cv.frames = nil
		closed := cv.closed
		cv.mu.Unlock()
		myReg.mu.Lock()
		reads := myReg.read
		myReg.read = map[uint32]int{}
		rends := myReg.rend
		myReg.rend = nil
		var bad []string
		for id := range myReg.corrupt {
			bad = append(bad, fmt.Sprintf("corrupt(%d)", id))
		}
		myReg.corrupt = map[uint32]bool{}
		myReg.mu.Unlock()
		cv.mu.Lock()
		for id := range cv.corrupt {
			bad = append(bad, fmt.Sprintf("corruptout(%d)", id))
		}
		cv.corrupt = map[uint32]bool{}
		cv.mu.Unlock()
		sort.Strings(bad)
		if closed {
			// the connection is gone: every handler's pending read is released with an error — not part of the event
			reads, rends = nil, nil
		}
		out = append(out, render(got, reads, rends))
		if len(bad) > 0 {
			out = append(out, strings.Join(bad, ","))
			break
		}
		panicMu.Lock()
		pm := panicMsg
		panicMu.Unlock()
		if pm != "" {
			// the serve goroutine panicked (recovered by notePanic, the connection is gone)
			out = append(out, "PANIC("+strings.ReplaceAll(pm, " ", "_")+")")
			break
		}
		goaway := false
		for _, g := range got {
			if ga, ok := g.(*spdy.GoAwayFrame); ok && ga.Status != spdy.GoAwayOK {
				goaway = true
			}
		}
		if goaway {
			out = append(out, "stop") // after an error GOAWAY the server sends nothing more and closes 250 ms later
			break
		}
		if closed {
			out = append(out, "closed")
			break
		}
	}
	return strings.Join(out, " ")
}

func exec(op string) string {
	f := strings.Split(op, " ")
	switch f[0] {
	case "sv":
		return vh.SafeTimeout(60*time.Second, func() string { return execSv(f[1:]) })
	case "fa":
		if len(f) != 3 {
			return "bad-op"
		}
		a, e1 := strconv.ParseInt(f[1], 10, 32)
		b, e2 := strconv.ParseInt(f[2], 10, 32)
		if e1 != nil || e2 != nil {
			return "bad-op"
		}
		n, ok := spdy.VerifC40FlowAdd(int32(a), int32(b))
		return fmt.Sprintf("%d %v", n, ok)
	case "ft":
		if len(f) != 4 {
			return "bad-op"
		}
		a, e1 := strconv.ParseInt(f[1], 10, 32)
		b, e2 := strconv.ParseInt(f[2], 10, 32)
		c, e3 := strconv.ParseInt(f[3], 10, 32)
		if e1 != nil || e2 != nil || e3 != nil {
			return "bad-op"
		}
		x, y, z := spdy.VerifC40FlowTake(int32(a), int32(b), int32(c))
		return fmt.Sprintf("%d %d %d", x, y, z)
	}
	return "bad-op"
}

func i32(r *vh.Rand) int64 {
	switch r.Intn(8) {
	case 0:
		return 0
	case 1:
		return 2147483647 - int64(r.Intn(3))
	case 2:
		return -2147483648 + int64(r.Intn(3))
	case 3:
		return -int64(r.Intn(70000))
	case 4:
		return 65536
	}
	return int64(r.Intn(1 << 31))
}

func gen(r *vh.Rand) string {
	switch r.Intn(10) {
	case 0, 1:
		return fmt.Sprintf("fa %d %d", i32(r), i32(r))
	case 2:
		return fmt.Sprintf("ft %d %d %d", i32(r), i32(r), i32(r))
	}
	if r.Chance(1, 5) {
		return harden(r, genUpload(r))
	}
	maxS := r.Range(1, 4)
	n := r.Range(1, 12)
	p := []string{"sv", strconv.Itoa(maxS)}
	next := 1
	var ids []int
	pickID := func() int {
		if len(ids) > 0 && !r.Chance(1, 6) {
			return ids[r.Intn(len(ids))]
		}
		return pick(r, 0, 1, 2, 3, 5, 7, 9, 11)
	}
	for i := 0; i < n; i++ {
		k := r.Intn(18)
		if i == 0 && r.Chance(3, 4) {
			k = 0
		}
		switch k {
		case 0, 1, 2, 3:
			id := next
			switch r.Intn(8) {
			case 0:
				id = pickID() // reuse / lower / even / zero
			case 1:
				id = next + 2*r.Intn(3)
			}
			if id >= next {
				next = id + 2
			}
			if id%2 == 1 {
				ids = append(ids, id)
			}
			fin := r.Intn(3) / 2
			if r.Chance(1, 2) {
				p = append(p, fmt.Sprintf("S%d,%d", id, fin))
			} else {
				meth := pick(r, 0, 0, 1, 1, 2)
				cl := pick(r, 0, 1, 2, 10, 10, 10, 15, 15, 20, 110, 65546, 70010)
				p = append(p, fmt.Sprintf("S%d,%d,%d,%d", id, fin, meth, cl))
			}
		case 4, 5, 6, 7:
			l := pick(r, 0, 0, 1, 5, 5, 10, 100, 16384, 32768, 65535, 65536, 65537, 40000, 7)
			p = append(p, fmt.Sprintf("D%d,%d,%d", pickID(), l, r.Intn(3)/2))
		case 8:
			d := pick(r, 0, 1, 65536, 2147418111, 2147418112, 2147483647, 2147483648+5, 10, 20000)
			id := pickID()
			if r.Chance(1, 3) {
				id = 0
			}
			p = append(p, fmt.Sprintf("W%d,%d", id, d))
		case 9:
			p = append(p, fmt.Sprintf("R%d,%d", pickID(), pick(r, 1, 5, 8)))
		case 10:
			p = append(p, fmt.Sprintf("I%d", pick(r, 0, 1, 65536, 65535, 100000, 2147483647, 2147483648, 4294967295, 10, 30000)))
		case 11:
			p = append(p, fmt.Sprintf("P%d", pick(r, 0, 1, 2, 3, 7)))
		case 12, 13:
			p = append(p, fmt.Sprintf("r%d,%d", pickID(), pick(r, 0, 1, 7, 100, 16384, 40000, 65536, 131072)))
		case 14, 15, 16:
			p = append(p, fmt.Sprintf("w%d,%d", pickID(), pick(r, 0, 1, 10, 4096, 4097, 16384, 16385, 40000, 65536, 70000, 131072)))
		default:
			if r.Chance(1, 3) {
				p = append(p, "G0")
			} else {
				p = append(p, fmt.Sprintf("f%d", pickID()))
			}
		}
	}
	return harden(r, strings.Join(p, " "))
}

// harden: some scripts get their client bytes delivered in small writes ("adv:k"), some get neighbouring events
// merged into bursts ("a+b+c": written back to back, compared once everything is quiet)
func harden(r *vh.Rand, op string) string {
	p := strings.Split(op, " ")
	if len(p) < 3 {
		return op
	}
	if r.Chance(1, 5) {
		p[1] += fmt.Sprintf(":%d", pick(r, 1, 2, 5, 9, 1000))
	}
	if r.Chance(1, 3) {
		q := p[:3:3]
		for _, e := range p[3:] {
			last := q[len(q)-1]
			frame := func(x string) bool { return strings.ContainsRune("SDWRIP", rune(x[len(x)-len(x):][0])) }
			if r.Chance(1, 2) && frame(e) && frame(last[strings.LastIndex(last, "+")+1:]) {
				q[len(q)-1] += "+" + e // only client frames are merged (handler commands and G travel on other channels)
			} else {
				q = append(q, e)
			}
		}
		p = q
	}
	return strings.Join(p, " ")
}

// genUpload: an upload in progress (DATA, handler reads, more DATA), on one or two streams, with the server's
// graceful shutdown somewhere in between: windows must keep being replenished by what the handler consumes.
func genUpload(r *vh.Rand) string {
	p := []string{"sv", "3", "S1,0"}
	ids := []int{1}
	if r.Chance(1, 3) {
		p = append(p, "S3,0")
		ids = append(ids, 3)
	}
	grace := r.Intn(7)
	for i, n := 0, r.Range(3, 9); i < n; i++ {
		id := ids[r.Intn(len(ids))]
		if i == grace {
			p = append(p, "G0")
		}
		switch r.Intn(7) {
		case 0, 1, 2:
			p = append(p, fmt.Sprintf("D%d,%d,%d", id, pick(r, 1, 100, 16384, 30000, 40000, 65536), r.Intn(8)/7))
		case 3, 4, 5:
			p = append(p, fmt.Sprintf("r%d,%d", id, pick(r, 1, 100, 16384, 40000, 65536, 131072)))
		default:
			p = append(p, pick2(r, fmt.Sprintf("w%d,%d", id, pick(r, 0, 10, 20000)), fmt.Sprintf("R%d,5", id), "P1", fmt.Sprintf("f%d", id)))
		}
	}
	return strings.Join(p, " ")
}

func pick2(r *vh.Rand, xs ...string) string { return xs[r.Intn(len(xs))] }

func main() { vh.Main(gen, exec) }

func pick(r *vh.Rand, xs ...int) int { return xs[r.Intn(len(xs))] }
