// C17: totality and type-checking of condition.Build — drives the real condition.Build on
// grammar-generated and mutated byte strings under recover() with a watchdog.
//
// op = "b <hex input> <hints>"; hints give the results of the external functions (regexp.Compile,
// net.ParseIP, bfe_util.ParseTime, fmt.Sscanf("%6s%s")) on the string literals of the input, see the
// Lean driver.  result = ok | err | crash | hang.
package main

import (
	"bufio"
	"fmt"
	"net"
	"os"
	"regexp"
	"sort"
	"strings"
	"time"

	"bfeverif/harness/internal/vh"
	"github.com/bfenetworks/bfe/bfe_basic/condition"
	"github.com/bfenetworks/bfe/bfe_basic/condition/parser"
	"github.com/bfenetworks/bfe/bfe_util"
)

var (
	protoNames []string
	protos     = parser.VerifFuncProtos()
)

func init() {
	for k := range protos {
		protoNames = append(protoNames, k)
	}
	sort.Strings(protoNames)
}

// ---- hints ------------------------------------------------------------------------------------

func hintsFor(src string) string {
	set := map[string]bool{}
	add := func(s string) { set[s] = true }
	ipHint := func(v string) {
		ip := net.ParseIP(v)
		if ip == nil {
			add("i" + vh.Hex([]byte(v)) + "=x")
		} else {
			add("i" + vh.Hex([]byte(v)) + "=" + vh.Hex(ip.To16()))
		}
	}
	vh.Safe(func() string {
		ast, _, err := parser.Parse(src)
		if err != nil || ast == nil {
			return ""
		}
		parser.Inspect(ast, func(n parser.Node) bool {
			c, ok := n.(*parser.CallExpr)
			if !ok {
				return true
			}
			name := c.Fun.Name
			for _, a := range c.Args {
				if a.Kind != parser.STRING {
					continue
				}
				v := a.Value
				if strings.Contains(name, "regmatch") {
					_, e := regexp.Compile(v)
					if e == nil {
						add("r" + vh.Hex([]byte(v)) + "=1")
					} else {
						add("r" + vh.Hex([]byte(v)) + "=0")
					}
				}
				if strings.Contains(name, "ip_") {
					ipHint(v)
					for _, p := range strings.Split(v, "|") {
						ipHint(p)
					}
				}
				if strings.Contains(name, "time_range") {
					if t, e := bfe_util.ParseTime(v); e == nil {
						add(fmt.Sprintf("t%s=%d", vh.Hex([]byte(v)), t.Unix()))
					} else {
						add("t" + vh.Hex([]byte(v)) + "=x")
					}
					var p, z string
					if _, e := fmt.Sscanf(v, "%6s%s", &p, &z); e == nil {
						add("s" + vh.Hex([]byte(v)) + "=" + vh.Hex([]byte(p)) + ":" + vh.Hex([]byte(z)))
					} else {
						add("s" + vh.Hex([]byte(v)) + "=x")
					}
				}
			}
			return false
		})
		return ""
	})
	if len(set) == 0 {
		return "-"
	}
	var hs []string
	for h := range set {
		hs = append(hs, h)
	}
	sort.Strings(hs)
	return strings.Join(hs, ",")
}

func mkop(src string) string { return "b " + vh.Hex([]byte(src)) + " " + hintsFor(src) }

// ---- generation -------------------------------------------------------------------------------

var (
	ips    = []string{"1.1.1.1", "10.0.0.1", "255.255.255.255", "0.0.0.0", "::1", "2001:DB8:2de::e13", "::ffff:1.2.3.4", "1.1.1", "1.1.1.256", "01.1.1.1", "::g", "", "1.1.1.1|2.2.2.2", "1.1.1.1|x", "fe80::1%eth0"}
	hashes = []string{"0", "0-99", "9999", "10000", "0-10000", "5-3", " 1 - 2 ", "a", "", "-1", "1-2-3", "99999999999999999999", "1|2|3-4", "1||2", "100-200|300", "+5", "0-9999", "-", "1-", "9223372036854775808"}
	regs   = []string{"a*", "(", "[a", ".*", "^/x/(a|b)$", "\\\\d+", "a{2,1}", "(?i)abc", "", "*"}
	times  = []string{"20190204203000H", "20190204203000", "2019020420300H", "20190204203000Z", "20200204203000h", "20191304203000Z", "20190230203000Z", "  20190204203000 Z", "20190204203000ZZ", "", "x", "20190204203000J"}
	tods   = []string{"203000H", "235959Z", "000000Z", "12 Z", "1 Z", "123 Z", "12345 Z", "240000Z", "206000Z", "203060Z", "203000", "203000 h", "  203000H", "20300H", "", "203000J", "2030 0Z", "ab3000Z", "203000ZZ", "203000Z x", "1 2", "a b"}
	hosts  = []string{"a.com", "a.com:80", "A.com|b.com", "", "a|b:1"}
	plain  = []string{"", "a", "/abc", "GET|POST", "k", "X-Key", "v1|v2", "80|443", "a b", "é", "a,b", "a)b", "a(b", "x;y", "//c"}
)

func argFor(r *vh.Rand, name string, i int) string {
	switch {
	case strings.Contains(name, "periodic"):
		if i == 2 {
			return r.Pick("", "", "", "x")
		}
		if r.Chance(1, 8) {
			return r.Pick(times...)
		}
		return r.Pick(tods...)
	case strings.Contains(name, "time_range"):
		if r.Chance(1, 8) {
			return r.Pick(tods...)
		}
		return r.Pick(times...)
	case strings.Contains(name, "ip_range") || strings.Contains(name, "vip_in"):
		if r.Chance(1, 10) {
			return r.Pick(plain...)
		}
		return r.Pick(ips...)
	case strings.Contains(name, "hash_in") && (i == 1 || strings.Contains(name, "cip")):
		if r.Chance(1, 10) {
			return r.Pick(plain...)
		}
		return r.Pick(hashes...)
	case strings.Contains(name, "regmatch") && (i == 1 || len(protos[name]) == 1):
		return r.Pick(regs...)
	case name == "req_host_in":
		return r.Pick(hosts...)
	}
	return r.Pick(plain...)
}

func strLit(r *vh.Rand, v string) string {
	switch r.Intn(12) {
	case 0:
		if !strings.Contains(v, "`") {
			return "`" + v + "`"
		}
	case 1:
		return `"` + v + r.Pick(`\"`, `\x41`, `\n`, `\101`, `é`, `\\`) + `"`
	case 2:
		if r.Chance(1, 3) {
			return `"` + v + r.Pick(`\q`, `\x4`, `\400`, `\ud800`, `\`) + `"`
		}
	}
	return `"` + v + `"`
}

func genCall(r *vh.Rand) string {
	name := protoNames[r.Intn(len(protoNames))]
	kinds := protos[name]
	if r.Chance(1, 25) {
		name = r.Pick("req_unknown", "default", "req_host", "Req_host_in", name+"2", "x", "if", "go", "default_f")
	}
	n := len(kinds)
	if r.Chance(1, 12) {
		n = r.Range(0, 4)
	}
	var args []string
	for i := 0; i < n; i++ {
		var k parser.Token = parser.STRING
		if i < len(kinds) {
			k = kinds[i]
		}
		if r.Chance(1, 15) {
			k = []parser.Token{parser.STRING, parser.BOOL, parser.INT}[r.Intn(3)]
		}
		switch k {
		case parser.BOOL:
			args = append(args, r.Pick("true", "false", "true", "false", "TRUE", "1"))
		case parser.INT:
			args = append(args, r.Pick("1", "0x1f", "017", "1.5", "1e3", "2i", "0x", "089", "-1", "-0", "+1", "99999999999999999999",
				"0x7fffffffffffffffffff", "1e999", "9223372036854775808", "00", "1_000", ".5", "1.", "0b1"))
		default:
			args = append(args, strLit(r, argFor(r, name, i)))
		}
	}
	sep := r.Pick(",", ", ", " , ")
	return name + r.Pick("(", "(", " (") + strings.Join(args, sep) + ")"
}

func genExpr(r *vh.Rand, depth int) string {
	if depth <= 0 || r.Chance(1, 3) {
		if r.Chance(1, 30) {
			return r.Pick("v", "some_var", "$x", "true", "x-y")
		}
		return genCall(r)
	}
	switch r.Intn(5) {
	case 0:
		return "!" + genExpr(r, depth-1)
	case 1:
		return "(" + genExpr(r, depth-1) + ")"
	case 2:
		return genExpr(r, depth-1) + " || " + genExpr(r, depth-1)
	default:
		return genExpr(r, depth-1) + r.Pick(" && ", "&&", " &&\n") + genExpr(r, depth-1)
	}
}

var special = []string{`"`, "`", "(", ")", ",", `\`, "\n", "\x00", "\xff", "é", "&", "|", "!", ";", "/", "//", " ", "\r", "\xef\xbb\xbf", "1", "a", "-", "\t"}

func mutate(r *vh.Rand, s string) string {
	b := []byte(s)
	for k := r.Range(1, 3); k > 0; k-- {
		if len(b) == 0 {
			b = append(b, r.Pick(special...)...)
			continue
		}
		i := r.Intn(len(b))
		switch r.Intn(5) {
		case 0: // delete a byte
			b = append(b[:i], b[i+1:]...)
		case 1: // insert a special string
			ins := r.Pick(special...)
			b = append(b[:i], append([]byte(ins), b[i:]...)...)
		case 2: // truncate
			b = b[:i]
		case 3: // truncate right after a quote if there is one
			if j := strings.LastIndexAny(string(b[:i+1]), "\"`"); j >= 0 {
				b = b[:j+1]
			} else {
				b[i] = byte(r.U64())
			}
		default: // replace
			b[i] = r.Pick(special...)[0]
		}
	}
	return string(b)
}

// genBig: long chains, deep nesting and long negation runs (parser stack growth, recursion in build)
func genBig(r *vh.Rand) string {
	n := r.Range(20, 300)
	if vh.Thorough && r.Chance(1, 4) {
		n = r.Range(300, 3000)
	}
	leaf := func() string {
		if r.Chance(1, 40) {
			return r.Pick("v", "x-y", "req_unknown()", `req_path_in("/a")`)
		}
		return r.Pick("default_t()", `req_path_in("/a", false)`, `req_method_in("GET")`, `!default_t()`, `req_cip_hash_in("0-99")`)
	}
	var b strings.Builder
	switch r.Intn(5) {
	case 0, 1: // long chain
		for i := 0; i < n; i++ {
			if i > 0 {
				b.WriteString(r.Pick(" && ", " || ", "&&", "||\n"))
			}
			b.WriteString(leaf())
		}
	case 2: // deep parentheses, balanced or not
		closeN := n
		if r.Chance(1, 6) {
			closeN = n + r.Range(-2, 2)
		}
		b.WriteString(strings.Repeat("(", n) + leaf() + strings.Repeat(")", closeN))
	case 3: // negation run, with and without parentheses
		if r.Bool() {
			b.WriteString(strings.Repeat("!", n) + leaf())
		} else {
			b.WriteString(strings.Repeat("!(", n) + leaf() + strings.Repeat(")", n))
		}
	default: // right-nested: a && (b || (c && ( … )))
		for i := 0; i < n; i++ {
			b.WriteString(leaf() + r.Pick(" && (", " || (", " && !("))
		}
		b.WriteString(leaf() + strings.Repeat(")", n))
	}
	return b.String()
}

func gen(r *vh.Rand) string {
	var s string
	if r.Chance(1, 60) {
		return mkop(genBig(r))
	}
	switch r.Intn(10) {
	case 0, 1, 2: // one call, argument focus
		s = genCall(r)
	case 3:
		s = string(r.Bytes(r.Range(0, 12)))
	default:
		s = genExpr(r, r.Range(0, 3))
	}
	if r.Chance(1, 4) {
		s = mutate(r, s)
	}
	if r.Chance(1, 40) {
		s = "\xef\xbb\xbf" + s
	}
	return mkop(s)
}

// ---- execution --------------------------------------------------------------------------------

func exec(op string) string {
	f := strings.Split(op, " ")
	if len(f) != 3 || f[0] != "b" {
		return "bad-op"
	}
	src, ok := vh.UnHex(f[1])
	if !ok {
		return "bad-op"
	}
	res := vh.SafeTimeout(30*time.Second, func() string { // generous: the verdict must not depend on machine load
		c, err := condition.Build(string(src))
		if err != nil {
			return "err"
		}
		if c == nil {
			return "nil-condition"
		}
		return "ok"
	})
	if strings.HasPrefix(res, "PANIC:") {
		return "crash"
	}
	if res == "HANG" {
		return "hang"
	}
	return res
}

func main() {
	if os.Getenv("C17_MKOP") != "" {
		// helper: one source string per stdin line (Go-unquoted if it starts with a quote) -> op line
		sc := bufio.NewScanner(os.Stdin)
		for sc.Scan() {
			fmt.Println(mkop(sc.Text()))
		}
		return
	}
	vh.Pre = func(emit func(op string), thorough bool) {
		// every primitive with every pooled argument in every STRING position
		for _, name := range protoNames {
			kinds := protos[name]
			pools := [][]string{ips, hashes, regs, times, tods, hosts}
			for _, pool := range pools {
				for _, v := range pool {
					if strings.ContainsAny(v, "\"\n") {
						continue
					}
					var args []string
					for _, k := range kinds {
						if k == parser.BOOL {
							args = append(args, "false")
						} else {
							args = append(args, `"`+v+`"`)
						}
					}
					emit(mkop(name + "(" + strings.Join(args, ",") + ")"))
					if !thorough {
						break
					}
				}
			}
		}
		for _, a := range tods {
			for _, b := range tods {
				emit(mkop(`bfe_periodic_time_range("` + a + `","` + b + `","")`))
			}
		}
		for _, a := range times {
			for _, b := range times {
				emit(mkop(`bfe_time_range("` + a + `","` + b + `")`))
			}
		}
		for _, a := range ips {
			for _, b := range ips {
				emit(mkop(`req_cip_range("` + a + `","` + b + `")`))
			}
		}
		for _, h := range hashes {
			emit(mkop(`req_cip_hash_in("` + h + `")`))
			emit(mkop(`req_cookie_value_hash_in("k","` + h + `",true)`))
		}
	}
	vh.Main(gen, exec)
}
