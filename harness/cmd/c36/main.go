// C36: HTTP/2 priority tree — drives the real adjustStreamPriority / serverConn.processPriority of
// bfe_http2 (verif hook VerifPrioTree) over sequences of HEADERS(+priority) / PRIORITY / close and
// dumps every stream object's parent pointer after every step.
package main

import (
	"fmt"
	"strconv"
	"strings"
	"time"

	"bfeverif/harness/internal/vh"
	"github.com/bfenetworks/bfe/bfe_http2"
)

func prioStr(dep int, excl bool, w int) string {
	c := "s"
	if excl {
		c = "e"
	}
	return fmt.Sprintf("%d%s%d", dep, c, w)
}

func gen(r *vh.Rand) string {
	if r.Chance(1, 2) {
		return "W;" + genSeq(r, true)
	}
	return genSeq(r, false)
}

// wire: frames that end the connection (stream id 0, RST of an idle stream, bad HEADERS ids) are rare,
// so that most sequences run to their end.
func genSeq(r *vh.Rand, wire bool) string {
	maxStreams := r.Range(2, 12)
	nsteps := r.Range(4, 40)
	if vh.Thorough && r.Chance(1, 4) {
		maxStreams = r.Range(12, 40)
		nsteps = r.Range(40, 120)
	}
	if r.Chance(1, 10) {
		return genChain(r)
	}
	var ids []int   // every id created so far
	open := map[int]bool{}
	next := 1
	var ops []string
	pickW := func() int {
		switch r.Intn(4) {
		case 0:
			return 0
		case 1:
			return 255
		case 2:
			return 15
		}
		return r.Intn(256)
	}
	pickDep := func(self int) int {
		switch r.Intn(24) {
		case 0:
			return 0
		case 1, 2, 3:
			return self
		case 4:
			return next + 2*r.Intn(3) // idle stream
		case 5:
			return 2 * r.Range(1, 6) // even id, never a stream
		case 6, 7:
			if len(ids) > 0 {
				return ids[len(ids)-1] // the stream opened last
			}
		case 8, 9:
			var closed []int
			for _, id := range ids {
				if !open[id] {
					closed = append(closed, id)
				}
			}
			if len(closed) > 0 {
				return closed[r.Intn(len(closed))]
			}
		}
		if len(ids) == 0 {
			return 0
		}
		return ids[r.Intn(len(ids))]
	}
	for len(ops) < nsteps {
		k := r.Intn(10)
		switch {
		case len(ids) >= 2 && k < 3 && r.Chance(1, map[bool]int{false: 8, true: 30}[wire]):
			// HEADERS that must not create a stream: even id, id below maxStreamID, open stream (trailers), 0
			bad := []int{2 * r.Range(1, 12), ids[r.Intn(len(ids))], 0, next - 2}[r.Intn(4)]
			ops = append(ops, fmt.Sprintf("n%d:%s", bad, prioStr(pickDep(bad), r.Chance(2, 5), pickW())))
		case len(ids) < 2 || (k < 3 && len(ids) < maxStreams):
			id := next
			next += 2
			if r.Chance(1, 10) {
				next += 2 * r.Intn(3) // leave idle ids behind
			}
			if r.Chance(1, 2) {
				ops = append(ops, fmt.Sprintf("n%d:%s", id, prioStr(pickDep(id), r.Chance(2, 5), pickW())))
			} else {
				ops = append(ops, fmt.Sprintf("n%d", id))
			}
			ids = append(ids, id)
			open[id] = true
		case k < 4:
			id := ids[r.Intn(len(ids))]
			if open[id] || r.Chance(1, 4) {
				ops = append(ops, fmt.Sprintf("c%d", id))
				delete(open, id)
			}
		default:
			var id int
			switch r.Intn(map[bool]int{false: 10, true: 60}[wire]) {
			case 0:
				id = next // idle
			case 1:
				id = 0
			default:
				id = ids[r.Intn(len(ids))]
			}
			ops = append(ops, fmt.Sprintf("p%d:%s", id, prioStr(pickDep(id), r.Chance(2, 5), pickW())))
		}
	}
	return strings.Join(ops, ";")
}

// genChain builds a long dependency chain (each stream under the previous one, or older under newer),
// closes some interior nodes, then re-parents the root under the leaf / an interior node under a
// descendant, exclusive or not: the ancestor walk has to cross the whole chain and closed streams.
func genChain(r *vh.Rand) string {
	n := r.Range(6, 14)
	var ops []string
	ids := make([]int, n)
	for i := range ids {
		ids[i] = 2*i + 1
	}
	up := r.Bool() // up: i depends on i-1 (HEADERS priority); else built afterwards with PRIORITY, older under newer
	for i, id := range ids {
		if up && i > 0 {
			ops = append(ops, fmt.Sprintf("n%d:%s", id, prioStr(ids[i-1], r.Chance(1, 3), r.Intn(256))))
		} else {
			ops = append(ops, fmt.Sprintf("n%d", id))
		}
	}
	if !up {
		for i := 0; i+1 < n; i++ {
			ops = append(ops, fmt.Sprintf("p%d:%s", ids[i], prioStr(ids[i+1], r.Chance(1, 3), r.Intn(256))))
		}
	}
	for k := r.Intn(4); k > 0; k-- {
		ops = append(ops, fmt.Sprintf("c%d", ids[r.Range(1, n-2)]))
	}
	for k := r.Range(1, 4); k > 0; k-- {
		a, b := ids[r.Intn(n)], ids[r.Intn(n)]
		ops = append(ops, fmt.Sprintf("p%d:%s", a, prioStr(b, r.Chance(1, 2), r.Intn(256))))
	}
	root, leaf := ids[0], ids[n-1]
	if !up {
		root, leaf = leaf, root
	}
	ops = append(ops, fmt.Sprintf("p%d:%s", root, prioStr(leaf, r.Chance(1, 2), 7)))
	return strings.Join(ops, ";")
}

func parsePrio(s string) (p bfe_http2.PriorityParam, ok bool) {
	i := strings.IndexAny(s, "es")
	if i < 0 {
		return p, false
	}
	d, e1 := strconv.ParseUint(s[:i], 10, 32)
	w, e2 := strconv.ParseUint(s[i+1:], 10, 8)
	if e1 != nil || e2 != nil {
		return p, false
	}
	return bfe_http2.PriorityParam{StreamDep: uint32(d), Exclusive: s[i] == 'e', Weight: uint8(w)}, true
}

func execSeq(op string) string {
	t := bfe_http2.NewVerifPrioTree() // created on this goroutine: it is the connection's serve goroutine
	defer t.Done()
	wire := strings.HasPrefix(op, "W;")
	if wire {
		op = op[2:]
		t.WireStart()
	}
	var out []string
	for _, s := range strings.Split(op, ";") {
		if len(s) < 2 {
			return "bad-op"
		}
		body := s[1:]
		switch s[0] {
		case 'c':
			id, err := strconv.ParseUint(body, 10, 32)
			if err != nil {
				return "bad-op"
			}
			if wire {
				t.WireReset(uint32(id))
			} else {
				t.Close(uint32(id))
			}
		case 'n', 'p':
			var p bfe_http2.PriorityParam
			has := false
			idStr := body
			if i := strings.IndexByte(body, ':'); i >= 0 {
				var ok bool
				if p, ok = parsePrio(body[i+1:]); !ok {
					return "bad-op"
				}
				has = true
				idStr = body[:i]
			}
			id, err := strconv.ParseUint(idStr, 10, 32)
			if err != nil {
				return "bad-op"
			}
			switch {
			case s[0] == 'n' && wire:
				t.WireOpen(uint32(id), has, p) // bytes -> Framer (ReadMetaHeaders) -> processFrameFromReader
			case s[0] == 'n':
				t.Open(uint32(id), has, p) // the REAL serverConn.processHeaders
			case !has:
				return "bad-op"
			case wire:
				t.WirePriority(uint32(id), p)
			default:
				t.Priority(uint32(id), p)
			}
		default:
			return "bad-op"
		}
		out = append(out, t.Dump())
		if wire && t.ReaderGone() {
			break // terminal read error: the connection reads no further frame
		}
		if t.HasCycle() {
			// stop here: the next ancestor walk of the real code would not return
			break
		}
	}
	return strings.Join(out, ";")
}

func exec(op string) string {
	return vh.SafeTimeout(60*time.Second, func() string { return execSeq(op) })
}

func main() {
	vh.Pre = func(emit0 func(string), thorough bool) {
		emit := func(op string) { emit0(op); emit0("W;" + op) }
		for _, sh := range []string{"n1;n3;n5", "n1;n3:1s1;n5:3s1", "n1;n3:1s1;n5:1s1;c1", "n1;n3:1s1;n5:3s1;c3"} {
			for _, dep := range []int{0, 1, 3, 5, 7, 9} {
				for _, e := range []bool{false, true} {
					for _, follow := range []string{"", ";p1:7s2", ";p7:7e3", ";p5:7e4;p7:5s1", ";n9:7s1;p7:9e1"} {
						emit(sh + fmt.Sprintf(";n7:%s", prioStr(dep, e, 9)) + follow)
					}
				}
			}
		}
		// exhaustive: 3 open streams 1,3,5 in a chain / star / flat, then every single PRIORITY
		shapes := []string{"n1;n3;n5", "n1;n3:1s1;n5:3s1", "n1;n3:1s1;n5:1s1", "n1;n3:1s1;n5:1s1;c1", "n1;n3:1s1;n5:3s1;c3", "n1;n3:1s1;n5:3s1;c1;c3"}
		for _, sh := range shapes {
			for _, id := range []int{1, 3, 5, 7} {
				for _, dep := range []int{0, 1, 3, 5, 7} {
					for _, e := range []bool{false, true} {
						emit(sh + fmt.Sprintf(";p%d:%s", id, prioStr(dep, e, 9)))
					}
				}
			}
		}
	}
	vh.Main(gen, exec)
}
