// C13: configuration loaders — drives the real bfe loaders on generated JSON files.
package main

import (
	"fmt"
	"os"
	"path/filepath"
	"sort"
	"strings"

	"bytes"
	stdjson "encoding/json"

	"bfeverif/harness/internal/vh"
	"github.com/bfenetworks/bfe/bfe_balance"
	"github.com/bfenetworks/bfe/bfe_config/bfe_tls_conf/session_ticket_key_conf"
	"github.com/bfenetworks/bfe/bfe_config/bfe_tls_conf/tls_rule_conf"
	"github.com/bfenetworks/bfe/bfe_modules/mod_auth_basic"
	"github.com/bfenetworks/bfe/bfe_config/bfe_tls_conf/server_cert_conf"
	"github.com/bfenetworks/bfe/bfe_modules/mod_auth_jwt"
	"github.com/bfenetworks/bfe/bfe_modules/mod_auth_request"
	"github.com/bfenetworks/bfe/bfe_modules/mod_errors"
	"github.com/bfenetworks/bfe/bfe_modules/mod_key_log"
	"github.com/bfenetworks/bfe/bfe_modules/mod_markdown"
	"github.com/bfenetworks/bfe/bfe_modules/mod_tag"
	"github.com/bfenetworks/bfe/bfe_modules/mod_trace"
	"github.com/bfenetworks/bfe/bfe_modules/mod_userid"
	"github.com/bfenetworks/bfe/bfe_modules/mod_waf"
	"github.com/bfenetworks/bfe/bfe_modules/mod_block"
	"github.com/bfenetworks/bfe/bfe_modules/mod_compress"
	"github.com/bfenetworks/bfe/bfe_modules/mod_cors"
	"github.com/bfenetworks/bfe/bfe_modules/mod_header"
	"github.com/bfenetworks/bfe/bfe_modules/mod_prison"
	"github.com/bfenetworks/bfe/bfe_modules/mod_redirect"
	"github.com/bfenetworks/bfe/bfe_modules/mod_rewrite"
	"github.com/bfenetworks/bfe/bfe_modules/mod_secure_link"
	"github.com/bfenetworks/bfe/bfe_modules/mod_static"
	"github.com/bfenetworks/bfe/bfe_modules/mod_trust_clientip"
	"github.com/bfenetworks/bfe/bfe_util/bns"
	"github.com/bfenetworks/bfe/bfe_config/bfe_cluster_conf/cluster_conf"
	"github.com/bfenetworks/bfe/bfe_config/bfe_cluster_conf/cluster_table_conf"
	"github.com/bfenetworks/bfe/bfe_config/bfe_cluster_conf/gslb_conf"
	"github.com/bfenetworks/bfe/bfe_config/bfe_route_conf/host_rule_conf"
	"github.com/bfenetworks/bfe/bfe_config/bfe_route_conf/route_rule_conf"
	"github.com/bfenetworks/bfe/bfe_config/bfe_route_conf/vip_rule_conf"
	"github.com/bfenetworks/bfe/bfe_route"
)

var tmpDir string

func writeTmp(name, content string) string {
	if tmpDir == "" {
		d, err := os.MkdirTemp("", "verif-c13-")
		if err != nil {
			panic(err)
		}
		tmpDir = d
	}
	p := filepath.Join(tmpDir, name)
	if err := os.WriteFile(p, []byte(content), 0644); err != nil {
		panic(err)
	}
	return p
}

// errClass maps a loader error to decode / check.
func errClass(err error, checkPrefixes ...string) string {
	s := err.Error()
	for _, p := range checkPrefixes {
		if strings.HasPrefix(s, p) {
			return "check"
		}
	}
	return "decode"
}


// modLoaders: rule-file loaders driven at accept / reject / crash level only (no Lean model of their checks)
var modLoaders = map[string]func(string) error{
	"block":          func(f string) error { _, e := mod_block.ProductRuleConfLoad(f); return e },
	"header":         func(f string) error { _, e := mod_header.HeaderConfLoad(f); return e },
	"rewrite":        func(f string) error { _, e := mod_rewrite.ReWriteConfLoad(f); return e },
	"redirect":       mod_redirect.VerifC13RedirectConfLoad,
	"cors":           func(f string) error { _, e := mod_cors.CorsRuleFileLoad(f); return e },
	"prison":         mod_prison.VerifC13ProductRuleConfLoad,
	"static":         func(f string) error { _, e := mod_static.StaticConfLoad(f); return e },
	"compress":       func(f string) error { _, e := mod_compress.ProductRuleConfLoad(f); return e },
	"auth_basic":     func(f string) error { _, e := mod_auth_basic.AuthBasicConfLoad(f); return e },
	"auth_jwt":       func(f string) error { _, e := mod_auth_jwt.AuthJWTConfLoad(f); return e },
	"secure_link":    func(f string) error { _, e := mod_secure_link.DataLoad(f); return e },
	"trust_clientip": func(f string) error { _, e := mod_trust_clientip.TrustIPConfLoad(f); return e },
	"tls_rule":       func(f string) error { _, e := tls_rule_conf.TlsRuleConfLoad(f); return e },
}

// further rule loaders, driven with the sample file of the tree (read at run time) as mutation seed
var modLoadersMore = map[string]string{ // name -> sample file under conf/
	"auth_request": "mod_auth_request/auth_request_rule.data",
	"errors":       "mod_errors/errors_rule.data",
	"key_log":      "mod_key_log/key_log.data",
	"markdown":     "mod_markdown/mod_markdown.data",
	"tag":          "mod_tag/tag_rule.data",
	"trace":        "mod_trace/trace_rule.data",
	"userid":       "mod_userid/userid_rule.data",
	"waf":          "mod_waf/waf_rule.data",
	"mime_type":    "mod_static/mime_type.data",
	"ip_blocklist": "mod_block/ip_blocklist.data",
	"server_cert":  "tls_conf/server_cert_conf.data",
}

var modNamesMore = []string{"auth_request", "errors", "ip_blocklist", "key_log", "markdown", "mime_type", "server_cert", "tag", "trace", "userid", "waf"}

func sampleOf(name string) string {
	if ex, ok := examples[name]; ok {
		return ex
	}
	rel, ok := modLoadersMore[name]
	if !ok {
		return ""
	}
	b, err := os.ReadFile(filepath.Join(confRoot(), filepath.FromSlash(rel)))
	if err != nil {
		return ""
	}
	return string(b)
}

var modNames = []string{"auth_basic", "auth_jwt", "block", "compress", "cors", "header", "prison", "redirect", "rewrite", "secure_link", "static", "tls_rule", "trust_clientip"}

// sideDir: the shipped examples of auth_basic / auth_jwt name files relative to bfe's bin directory
// ("../conf/mod_auth_basic/userfile"): they are written under <tmp>/conf and the process runs in <tmp>/bin.
var sideReady bool

func ensureSide() {
	if sideReady {
		return
	}
	writeTmp("x", "")
	for rel, content := range sideFiles {
		p := filepath.Join(tmpDir, rel)
		os.MkdirAll(filepath.Dir(p), 0755)
		os.WriteFile(p, []byte(content), 0644)
	}
	os.MkdirAll(filepath.Join(tmpDir, "bin"), 0755)
	os.Chdir(filepath.Join(tmpDir, "bin"))
	sideReady = true
}

func execMod(name, body string) string {
	ld, ok := modLoaders[name]
	if !ok {
		rel, ok2 := modLoadersMore[name]
		if !ok2 {
			return "bad-op"
		}
		cl := confLoaders[rel]
		root := confRoot()
		ld = func(f string) error { return cl(f, root) }
	}
	ensureSide()
	if err := ld(writeTmp("mod_"+name+".data", body)); err != nil {
		return "err"
	}
	return "ok"
}

func execBal(body string) string {
	parts := strings.Split(body, "~")
	if len(parts) != 2 {
		return "bad-op"
	}
	gf := writeTmp("gslb.data", parts[0])
	cf := writeTmp("cluster_table.data", parts[1])
	t := bfe_balance.NewBalTable(nil)
	if err := t.Init(gf, cf); err != nil {
		if strings.HasPrefix(err.Error(), "error in ClusterTable.") {
			return "err:init"
		}
		return "err:load"
	}
	g, err := gslb_conf.GslbConfLoad(gf)
	if err != nil {
		return "err:reload"
	}
	var out []string
	for cl, subs := range *g.Clusters {
		bal, err := t.Lookup(cl)
		if err != nil {
			out = append(out, cl+":missing")
			continue
		}
		for sub, w := range subs {
			n := -1
			if rr := bal.VerifC02SubRR(sub); rr != nil {
				n = rr.Len()
			}
			out = append(out, fmt.Sprintf("%s:%s=%d/%d", cl, sub, w, n))
		}
		bal.Release()
	}
	sort.Strings(out)
	if len(out) == 0 {
		return "ok -"
	}
	return "ok " + strings.Join(out, ",")
}

// ---- conf: every sample configuration shipped under <repo>/conf, loaded from the tree through its real loader -----

func e1(err error) error { return err }

// confLoaders: relative path under conf/ -> loader (the file list itself is read from the tree at run time)
var confLoaders = map[string]func(f, confRoot string) error{
	"server_data_conf/host_rule.data":     func(f, _ string) error { _, e := host_rule_conf.HostRuleConfLoad(f); return e },
	"server_data_conf/vip_rule.data":      func(f, _ string) error { _, e := vip_rule_conf.VipRuleConfLoad(f); return e },
	"server_data_conf/route_rule.data":    func(f, _ string) error { _, e := route_rule_conf.RouteConfLoad(f); return e },
	"server_data_conf/cluster_conf.data":  func(f, _ string) error { _, e := cluster_conf.ClusterConfLoad(f); return e },
	"server_data_conf/name_conf.data":     func(f, _ string) error { return bns.LoadLocalNameConf(f) },
	"cluster_conf/gslb.data":              func(f, _ string) error { _, e := gslb_conf.GslbConfLoad(f); return e },
	"cluster_conf/cluster_table.data":     func(f, _ string) error { _, e := cluster_table_conf.ClusterTableLoad(f); return e },
	"tls_conf/tls_rule_conf.data":         func(f, _ string) error { _, e := tls_rule_conf.TlsRuleConfLoad(f); return e },
	"tls_conf/session_ticket_key.data":    func(f, _ string) error { _, e := session_ticket_key_conf.SessionTicketKeyConfLoad(f); return e },
	"tls_conf/server_cert_conf.data":      func(f, root string) error { _, e := server_cert_conf.ServerCertConfLoad(f, root); return e },
	"mod_auth_basic/auth_basic_rule.data": func(f, _ string) error { _, e := mod_auth_basic.AuthBasicConfLoad(f); return e },
	"mod_auth_jwt/auth_jwt_rule.data":     func(f, _ string) error { _, e := mod_auth_jwt.AuthJWTConfLoad(f); return e },
	"mod_auth_request/auth_request_rule.data": func(f, _ string) error { _, e := mod_auth_request.AuthRequestRuleFileLoad(f); return e },
	"mod_block/block_rules.data":          func(f, _ string) error { _, e := mod_block.ProductRuleConfLoad(f); return e },
	"mod_block/ip_blocklist.data":         func(f, _ string) error { _, e := mod_block.GlobalIPTableLoad(f); return e },
	"mod_compress/compress_rule.data":     func(f, _ string) error { _, e := mod_compress.ProductRuleConfLoad(f); return e },
	"mod_cors/cors_rule.data":             func(f, _ string) error { _, e := mod_cors.CorsRuleFileLoad(f); return e },
	"mod_errors/errors_rule.data":         func(f, _ string) error { _, e := mod_errors.ErrorsConfLoad(f); return e },
	"mod_header/header_rule.data":         func(f, _ string) error { _, e := mod_header.HeaderConfLoad(f); return e },
	"mod_key_log/key_log.data":            func(f, _ string) error { return mod_key_log.VerifC13KeyLogConfLoad(f) },
	"mod_markdown/mod_markdown.data":      func(f, _ string) error { _, e := mod_markdown.ProductRuleConfLoad(f); return e },
	"mod_prison/prison.data":              func(f, _ string) error { return mod_prison.VerifC13ProductRuleConfLoad(f) },
	"mod_redirect/redirect.data":          func(f, _ string) error { return mod_redirect.VerifC13RedirectConfLoad(f) },
	"mod_rewrite/rewrite.data":            func(f, _ string) error { _, e := mod_rewrite.ReWriteConfLoad(f); return e },
	"mod_static/mime_type.data":           func(f, _ string) error { _, e := mod_static.MimeTypeConfLoad(f); return e },
	"mod_static/static_rule.data":         func(f, _ string) error { _, e := mod_static.StaticConfLoad(f); return e },
	"mod_tag/tag_rule.data":               func(f, _ string) error { _, e := mod_tag.TagRuleFileLoad(f); return e },
	"mod_trace/trace_rule.data":           func(f, _ string) error { _, e := mod_trace.TraceRuleFileLoad(f); return e },
	"mod_trust_clientip/trust_client_ip.data": func(f, _ string) error { _, e := mod_trust_clientip.TrustIPConfLoad(f); return e },
	"mod_userid/userid_rule.data":         func(f, _ string) error { _, e := mod_userid.NewConfigFromFile(f); return e },
	"mod_waf/waf_rule.data":               func(f, _ string) error { _, e := mod_waf.ProductWafRuleConfLoad(f); return e },
}

func confRoot() string { return filepath.Join(bfe_route.VerifC13RepoRoot(), "conf") }

// confFiles lists conf/**/*.data of the tree the harness was built from, sorted.
func confFiles() []string {
	var out []string
	root := confRoot()
	filepath.Walk(root, func(p string, info os.FileInfo, err error) error {
		if err == nil && !info.IsDir() && strings.HasSuffix(p, ".data") {
			rel, _ := filepath.Rel(root, p)
			out = append(out, filepath.ToSlash(rel))
		}
		return nil
	})
	sort.Strings(out)
	return out
}

// execConf loads the shipped file in place; relative paths inside sample files are relative to bfe's bin directory,
// i.e. "../conf/…": the process runs in <repo>/conf (any sibling of conf's parent works for "../conf").
func execConf(rel string) string {
	root0 := confRoot()
	switch rel {
	case "@server_data": // the four server_data_conf samples together, with the cross-file check
		d := filepath.Join(root0, "server_data_conf")
		if _, err := bfe_route.LoadServerDataConf(filepath.Join(d, "host_rule.data"), filepath.Join(d, "vip_rule.data"),
			filepath.Join(d, "route_rule.data"), filepath.Join(d, "cluster_conf.data")); err != nil {
			return "err"
		}
		return "ok"
	case "@baltable": // gslb.data + cluster_table.data through BalTable.Init
		d := filepath.Join(root0, "cluster_conf")
		if err := bfe_balance.NewBalTable(nil).Init(filepath.Join(d, "gslb.data"), filepath.Join(d, "cluster_table.data")); err != nil {
			return "err"
		}
		return "ok"
	}
	ld, ok := confLoaders[rel]
	if !ok {
		return "no-loader"
	}
	root := confRoot()
	old, _ := os.Getwd()
	os.Chdir(root)
	defer os.Chdir(old)
	sideReady = false // the working directory of the mod / moddoc ops is re-established lazily
	if err := ld(filepath.Join(root, filepath.FromSlash(rel)), root); err != nil {
		return "err"
	}
	return "ok"
}

// exec runs the order-sensitive single-file kinds several times (Go ranges over the decoded maps in a new random order
// each time): differing outcomes are reported as a set `a|b`.
func exec(op string) string {
	i := strings.IndexByte(op, ' ')
	if i > 0 {
		switch op[:i] {
		case "vip", "route", "cc", "gslb", "ct", "name", "bal":
			seen := map[string]bool{}
			for k := 0; k < 6; k++ {
				seen[exec1(op)] = true
			}
			if len(seen) == 1 {
				for r := range seen {
					return r
				}
			}
			var out []string
			for r := range seen {
				out = append(out, r)
			}
			sort.Strings(out)
			return strings.Join(out, "|")
		}
	}
	return exec1(op)
}

func exec1(op string) string {
	i := strings.IndexByte(op, ' ')
	if i < 0 {
		return "bad-op"
	}
	kind, body := op[:i], op[i+1:]
	switch kind {
	case "bal":
		return execBal(body)
	case "name":
		f := writeTmp("name_conf.data", body)
		if err := bns.LoadLocalNameConf(f); err != nil {
			return "err:" + errClass(err, "invalid instance")
		}
		return "ok"
	case "ticket":
		f := writeTmp("session_ticket_key.data", body)
		if _, err := session_ticket_key_conf.SessionTicketKeyConfLoad(f); err != nil {
			return "err"
		}
		return "ok"
	case "mod":
		j := strings.IndexByte(body, ' ')
		if j < 0 {
			return "bad-op"
		}
		return execMod(body[:j], body[j+1:])
	case "conf":
		return execConf(body)
	case "moddoc":
		ex, ok := examples[body]
		if !ok {
			return "bad-op"
		}
		return execMod(body, ex)
	case "host":
		f := writeTmp("host.data", body)
		c, err := host_rule_conf.HostRuleConfLoad(f)
		if err != nil {
			return "err:" + errClass(err, "no Version", "no Hosts", "no HostTags", "no HostTagList", "no HostnameList", "hostTag[", "defaultProruct[", "host duplicate")
		}
		return fmt.Sprintf("ok h=%d t=%d", len(c.HostMap), len(c.HostTagMap))
	case "vip":
		f := writeTmp("vip.data", body)
		c, err := vip_rule_conf.VipRuleConfLoad(f)
		if err != nil {
			return "err:" + errClass(err, "no Version", "invalid vip")
		}
		return fmt.Sprintf("ok v=%d", len(c.VipMap))
	case "route":
		f := writeTmp("route.data", body)
		c, err := route_rule_conf.RouteConfLoad(f)
		if err != nil {
			return "err:" + errClass(err, "no Version", "no product rule", "no cluster name", "no cond", "error build", "no hostname or path", "host[", "path[", "hostname is empty", "empth path")
		}
		return fmt.Sprintf("ok b=%d a=%d", len(c.BasicRuleMap), len(c.AdvancedRuleMap))
	case "cc":
		f := writeTmp("cluster_conf.data", body)
		c, err := cluster_conf.ClusterConfLoad(f)
		if err != nil {
			return "err:" + errClass(err, "nil BfeClusterConf", "no Version", "no Config", "BfeClusterConf.Config:")
		}
		return fmt.Sprintf("ok c=%d", len(*c.Config))
	case "gslb":
		f := writeTmp("gslb.data", body)
		c, err := gslb_conf.GslbConfLoad(f)
		if err != nil {
			return "err:" + errClass(err, "Check Nil", "Clusters check err")
		}
		return fmt.Sprintf("ok g=%d", len(*c.Clusters))
	case "ct":
		f := writeTmp("cluster_table.data", body)
		c, err := cluster_table_conf.ClusterTableLoad(f)
		if err != nil {
			return "err:" + errClass(err, "no Version", "no Config", "ClusterTableConf.Config:")
		}
		return fmt.Sprintf("ok c=%d", len(*c.Config))
	case "all":
		parts := strings.Split(body, "~")
		if len(parts) != 4 {
			return "bad-op"
		}
		hf := writeTmp("host.data", parts[0])
		vf := writeTmp("vip.data", parts[1])
		rf := writeTmp("route.data", parts[2])
		cf := writeTmp("cluster_conf.data", parts[3])
		sc, err := bfe_route.LoadServerDataConf(hf, vf, rf, cf)
		if err != nil {
			s := err.Error()
			switch {
			case strings.HasPrefix(s, "hostTableLoad"):
				return "err:table"
			case strings.HasPrefix(s, "clusterTableLoad"):
				return "err:cluster"
			case strings.HasPrefix(s, "ServerDataConf.check"):
				return "err:xref"
			}
			return "err:other"
		}
		d := bfe_route.VerifC13Dump(sc)
		return "ok " + d
	}
	return "bad-op"
}

// ---------------------------------------------------------------------------------------------
// generator: a tiny ordered JSON AST, documented-format builders per file, and a mutation stream

type raw string // literal token (numbers that are not int64, floats)
type obj struct {
	k []string
	v []interface{}
}

func (o *obj) set(k string, v interface{}) *obj { o.k = append(o.k, k); o.v = append(o.v, v); return o }

func render(b *strings.Builder, j interface{}) {
	switch x := j.(type) {
	case nil:
		b.WriteString("null")
	case bool:
		if x {
			b.WriteString("true")
		} else {
			b.WriteString("false")
		}
	case int:
		fmt.Fprintf(b, "%d", x)
	case int64:
		fmt.Fprintf(b, "%d", x)
	case raw:
		b.WriteString(string(x))
	case string:
		b.WriteByte('"')
		for i := 0; i < len(x); i++ {
			if x[i] == '"' || x[i] == '\\' {
				b.WriteByte('\\')
			}
			b.WriteByte(x[i])
		}
		b.WriteByte('"')
	case []interface{}:
		b.WriteByte('[')
		for i, e := range x {
			if i > 0 {
				b.WriteByte(',')
			}
			render(b, e)
		}
		b.WriteByte(']')
	case *obj:
		b.WriteByte('{')
		for i := range x.k {
			if i > 0 {
				b.WriteByte(',')
			}
			render(b, x.k[i])
			b.WriteByte(':')
			render(b, x.v[i])
		}
		b.WriteByte('}')
	}
}

func js(j interface{}) string {
	var b strings.Builder
	render(&b, j)
	return b.String()
}

func strs(xs ...string) []interface{} {
	out := make([]interface{}, len(xs))
	for i, x := range xs {
		out[i] = x
	}
	return out
}

var products = []string{"p1", "p2", "p3", "p4"}
var clusters = []string{"c1", "c2", "c3", "c4", "c5"}
var hostPool = []string{"a.com", "b.com", "www.a.com", "*.a.com", "x.org", "y.x.org", "*.org", "A.com", "a.com.", "*", "n1.example.net", "n2.example.net"}
var pathPool = []string{"/", "/a", "/a/", "/a*", "/a/*", "/a/b", "/b*", "*", "/c/d/e"}
var vipOK = []string{"1.2.3.4", "10.0.0.1", "192.168.0.255", "::1", "0:0:0:0:0:0:0:1", "2001:db8::1", "2001:DB8::1"}
var vipBad = []string{"", "1.2.3", "1.2.3.04", "a.b.c.d", "1.2.3.256", "::g"}
var condOK = []string{"default_t()", "req_host_in(\"a.com\")", "req_host_in(\"x.org|b.com\")", "req_path_prefix_in(\"/a\", false)"}
var condBad = []string{"", "bogus()", "req_host_in(", "default_t() &&", "req_host_in(a.com)"}

// subset picks between lo and hi distinct members of pool, in pool order rotated.
func subset(r *vh.Rand, pool []string, lo, hi int) []string {
	n := r.Range(lo, hi)
	if n > len(pool) {
		n = len(pool)
	}
	off := r.Intn(len(pool))
	var out []string
	for i := 0; i < len(pool) && len(out) < n; i++ {
		if r.Chance(2, 3) || len(pool)-i <= n-len(out) {
			out = append(out, pool[(i+off)%len(pool)])
		}
	}
	return out
}

// genHost builds a documented host_rule.data for the given products (every product gets >= 0 tags).
func genHost(r *vh.Rand, prods []string) *obj {
	hosts := &obj{}
	tags := &obj{}
	hs := subset(r, hostPool, 0, 7)
	// drop hosts that collide after normalisation unless asked (C14's business): keep first of {a.com, A.com, a.com.}
	seen := map[string]bool{}
	var hs2 []string
	for _, h := range hs {
		k := strings.TrimSuffix(strings.ToLower(h), ".")
		if !seen[k] || r.Chance(1, 6) {
			hs2 = append(hs2, h)
		}
		seen[k] = true
	}
	hs = hs2
	nt := 0
	for _, p := range prods {
		var tl []interface{}
		k := r.Range(1, 2)
		if r.Chance(1, 12) {
			k = 0
		}
		for i := 0; i < k; i++ {
			nt++
			t := fmt.Sprintf("t%d", nt)
			tl = append(tl, t)
			var hl []interface{}
			m := r.Intn(3)
			for j := 0; j < m && len(hs) > 0; j++ {
				hl = append(hl, hs[0])
				hs = hs[1:]
			}
			if hl == nil {
				hl = []interface{}{}
			}
			if r.Chance(9, 10) {
				hosts.set(t, hl)
			}
		}
		if tl == nil {
			tl = []interface{}{}
		}
		tags.set(p, tl)
	}
	o := &obj{}
	o.set("Version", "v1")
	if r.Chance(1, 3) && len(prods) > 0 {
		o.set("DefaultProduct", prods[r.Intn(len(prods))])
	}
	o.set("Hosts", hosts).set("HostTags", tags)
	return o
}

func genVip(r *vh.Rand, prods []string) *obj {
	m := &obj{}
	// deal the pool without giving one address (in canonical form) to two products, except rarely
	canon := map[string]string{"0:0:0:0:0:0:0:1": "::1", "2001:DB8::1": "2001:db8::1"}
	used := map[string]bool{}
	for _, p := range prods {
		if r.Chance(1, 2) {
			var l []string
			for _, v := range subset(r, vipOK, 0, 3) {
				c := v
				if x, ok := canon[v]; ok {
					c = x
				}
				if used[c] && !r.Chance(1, 12) {
					continue
				}
				used[c] = true
				l = append(l, v)
			}
			m.set(p, strs(l...))
		}
	}
	o := &obj{}
	o.set("Version", "v1")
	if r.Chance(9, 10) {
		o.set("Vips", m)
	}
	return o
}

func genRoute(r *vh.Rand, prods, cls []string) *obj {
	pick := func() string {
		if len(cls) == 0 {
			return "c1"
		}
		return cls[r.Intn(len(cls))]
	}
	basic := &obj{}
	adv := &obj{}
	for _, p := range prods {
		if r.Chance(2, 3) {
			var rules []interface{}
			n := r.Intn(4)
			usedHosts := map[string]bool{}
			for i := 0; i < n; i++ {
				ru := &obj{}
				// distinct host per rule keeps (host,path) keys distinct; a shared host needs distinct paths
				h := hostPool[r.Intn(len(hostPool))]
				k := strings.ToUpper(strings.TrimSuffix(h, "."))
				if usedHosts[k] && !r.Chance(1, 5) {
					continue
				}
				usedHosts[k] = true
				withHost := r.Chance(4, 5)
				if withHost {
					ru.set("Hostname", strs(h))
				} else if usedHosts["*"] && !r.Chance(1, 5) {
					continue
				} else {
					usedHosts["*"] = true
				}
				if r.Chance(1, 2) || !withHost {
					ps := subset(r, pathPool, 1, 2)
					if len(ps) == 2 && strings.TrimSuffix(strings.TrimSuffix(ps[0], "*"), "/") == strings.TrimSuffix(strings.TrimSuffix(ps[1], "*"), "/") && !r.Chance(1, 4) {
						ps = ps[:1]
					}
					ru.set("Path", strs(ps...))
				}
				if r.Chance(1, 5) {
					ru.set("ClusterName", "ADVANCED_MODE")
				} else {
					ru.set("ClusterName", pick())
				}
				rules = append(rules, ru)
			}
			if rules == nil {
				rules = []interface{}{}
			}
			basic.set(p, rules)
		}
		if r.Chance(2, 3) {
			var rules []interface{}
			n := r.Intn(3)
			// the reserved name ADVANCED_MODE is meaningful in BASIC rules only: as the target of an advanced rule it
			// is an ordinary cluster name that must exist in cluster_conf
			pickAdv := func() string {
				if r.Chance(1, 10) {
					return "ADVANCED_MODE"
				}
				return pick()
			}
			for i := 0; i < n; i++ {
				rules = append(rules, (&obj{}).set("Cond", condOK[r.Intn(len(condOK))]).set("ClusterName", pickAdv()))
			}
			rules = append(rules, (&obj{}).set("Cond", "default_t()").set("ClusterName", pickAdv()))
			adv.set(p, rules)
		}
	}
	o := &obj{}
	o.set("Version", "v1")
	switch r.Intn(6) {
	case 0:
		o.set("BasicRule", basic)
	case 1:
		o.set("ProductRule", adv)
	default:
		o.set("BasicRule", basic).set("ProductRule", adv)
	}
	return o
}

func genCC(r *vh.Rand, cls []string) *obj {
	cfg := &obj{}
	for _, c := range cls {
		cc := &obj{}
		if r.Chance(1, 2) {
			b := &obj{}
			if r.Chance(1, 2) {
				b.set("Protocol", r.Pick("http", "HTTP", "tcp", "ws", "fcgi", "h2c", "H2C"))
			}
			if r.Chance(1, 2) {
				b.set("TimeoutConnSrv", r.Range(0, 5000)).set("MaxConnsPerHost", r.Range(-2, 10))
			}
			if r.Chance(1, 4) {
				b.set("FCGIConf", (&obj{}).set("EnvVars", (&obj{}).set("A", "b")).set("Root", "/r"))
			}
			cc.set("BackendConf", b)
		}
		if r.Chance(1, 2) {
			k := &obj{}
			sch := r.Pick("http", "tcp", "")
			if sch != "" {
				k.set("Schem", sch)
			}
			if r.Chance(1, 2) {
				k.set("Uri", r.Pick("/", "/health", "/a/b"))
			}
			if r.Chance(1, 2) {
				k.set("StatusCode", []int{0, 1, 31, 100, 200, 599}[r.Intn(6)])
			}
			if r.Chance(1, 2) {
				k.set("SuccNum", r.Range(1, 3)).set("FailNum", r.Range(0, 3))
			}
			cc.set("CheckConf", k)
		}
		if r.Chance(1, 2) {
			g := &obj{}
			if r.Chance(1, 2) {
				h := &obj{}
				st := r.Intn(4)
				h.set("HashStrategy", st)
				if st == 0 || st == 2 || r.Chance(1, 3) {
					h.set("HashHeader", r.Pick("X-Id", "Cookie:UID", "Cookie: uid ", "a:b"))
				}
				if r.Chance(1, 2) {
					h.set("SessionSticky", r.Bool())
				}
				g.set("HashConf", h)
			}
			if r.Chance(1, 2) {
				g.set("BalanceMode", r.Pick("WRR", "WLC", "wrr", "wlc", "Wlc"))
			}
			if r.Chance(1, 2) {
				g.set("CrossRetry", r.Intn(3)).set("RetryMax", r.Intn(4))
			}
			cc.set("GslbBasic", g)
		}
		if r.Chance(1, 2) {
			b := &obj{}
			if r.Chance(1, 2) {
				b.set("TimeoutReadClient", r.Range(0, 90000))
			}
			if r.Chance(1, 2) {
				b.set("ReqWriteBufferSize", r.Range(0, 4096)).set("ResFlushInterval", r.Range(-1, 100))
			}
			if r.Chance(1, 2) {
				b.set("CancelOnClientClose", r.Bool())
			}
			cc.set("ClusterBasic", b)
		}
		cfg.set(c, cc)
	}
	return (&obj{}).set("Version", "v1").set("Config", cfg)
}

func genGslb(r *vh.Rand, cls []string) *obj {
	m := &obj{}
	for _, c := range cls {
		sub := &obj{}
		n := r.Range(1, 3)
		for i := 0; i < n; i++ {
			var w interface{} = r.Range(0, 100)
			switch r.Intn(12) {
			case 0:
				w = -1
			case 1:
				w = raw("9223372036854775807")
			case 2:
				w = raw("4611686018427387904")
			}
			sub.set(fmt.Sprintf("s%d", i), w)
		}
		if r.Chance(4, 5) {
			sub.set("sx", r.Range(1, 100))
		}
		m.set(c, sub)
	}
	return (&obj{}).set("Clusters", m).set("Hostname", "gslb.example").set("Ts", "20200101000000")
}

func genCt(r *vh.Rand, cls []string) *obj {
	m := &obj{}
	for _, c := range cls {
		sub := &obj{}
		n := r.Range(0, 2)
		for i := 0; i < n; i++ {
			var bs []interface{}
			k := r.Range(1, 3)
			for j := 0; j < k; j++ {
				w := r.Range(0, 10)
				if j == 0 && r.Chance(4, 5) {
					w = r.Range(1, 10)
				}
				bs = append(bs, (&obj{}).set("Name", fmt.Sprintf("b%d", j)).set("Addr", "10.0.0."+fmt.Sprint(j)).set("Port", 8000+j).set("Weight", w))
			}
			sub.set(fmt.Sprintf("s%d", i), bs)
		}
		m.set(c, sub)
	}
	return (&obj{}).set("Version", "v1").set("Config", m)
}

// mutate replaces / deletes one random node (type confusion, null at every position, missing keys, empty
// containers, huge / negative / fractional numbers, hostile strings).
func mutate(r *vh.Rand, j interface{}, depth int) interface{} {
	replacement := func() interface{} {
		switch r.Intn(16) {
		case 0, 1, 2:
			return nil
		case 3:
			return true
		case 4:
			return r.Range(-3, 700)
		case 5:
			return "x"
		case 6:
			return ""
		case 7:
			return []interface{}{}
		case 8:
			return &obj{}
		case 9:
			return []interface{}{nil}
		case 10:
			return raw("99999999999999999999")
		case 11:
			return raw("1.5")
		case 12:
			return raw("-9223372036854775808")
		case 13:
			return []interface{}{"*.*.a.com", "/a*b", "", "a*"}[r.Intn(4)]
		case 14:
			return (&obj{}).set("k", nil)
		default:
			return raw("9223372036854775808")
		}
	}
	descend := r.Chance(3, 4) || depth == 0
	switch x := j.(type) {
	case *obj:
		if len(x.k) > 0 && descend {
			i := r.Intn(len(x.k))
			n := &obj{k: append([]string(nil), x.k...), v: append([]interface{}(nil), x.v...)}
			switch r.Intn(10) {
			case 0: // delete the key
				n.k = append(n.k[:i], n.k[i+1:]...)
				n.v = append(n.v[:i], n.v[i+1:]...)
			case 1: // unknown extra key
				n.set("Extra", replacement())
			case 2: // lower-case the key (decoder matches case-insensitively)
				n.k[i] = strings.ToLower(n.k[i])
			case 3: // duplicate key: same value, null, or a re-mutated copy; before or after the original
				var v interface{} = x.v[i]
				switch r.Intn(4) {
				case 0:
					v = nil
				case 1, 2:
					v = mutate(r, x.v[i], depth+1)
				}
				k := n.k[i]
				if r.Chance(1, 4) {
					k = strings.ToLower(k)
				}
				if r.Bool() {
					n.set(k, v)
				} else {
					n.k = append([]string{k}, n.k...)
					n.v = append([]interface{}{v}, n.v...)
				}
			default:
				n.v[i] = mutate(r, x.v[i], depth+1)
			}
			return n
		}
	case []interface{}:
		if len(x) > 0 && descend {
			i := r.Intn(len(x))
			n := append([]interface{}(nil), x...)
			if r.Chance(1, 6) {
				return append(n, n[i]) // duplicate an element
			}
			if r.Chance(1, 5) {
				n[i] = nil // null element (nil pointer / zero value after decoding)
				return n
			}
			n[i] = mutate(r, x[i], depth+1)
			return n
		}
	}
	return replacement()
}

func genAll(r *vh.Rand) string {
	prods := subset(r, products, 1, 3)
	cls := subset(r, clusters, 1, 4)
	h := interface{}(genHost(r, prods))
	rp := prods
	rc := cls
	v := interface{}(genVip(r, prods))
	switch r.Intn(12) {
	case 0: // route rules for a product the host file does not know
		rp = append(append([]string(nil), prods...), "p9")
	case 1: // rules naming a cluster cluster_conf does not define
		rc = append(append([]string(nil), cls...), "c9")
	case 2: // vip of an unknown product
		v = genVip(r, append(append([]string(nil), prods...), "p9"))
	}
	ro := interface{}(genRoute(r, rp, rc))
	ccCls := cls
	if r.Chance(1, 8) { // a real cluster that happens to be called ADVANCED_MODE
		ccCls = append(append([]string(nil), cls...), "ADVANCED_MODE")
	}
	cc := interface{}(genCC(r, ccCls))
	if r.Chance(1, 5) {
		switch r.Intn(4) {
		case 0:
			h = mutate(r, h, 0)
		case 1:
			v = mutate(r, v, 0)
		case 2:
			ro = mutate(r, ro, 0)
		default:
			cc = mutate(r, cc, 0)
		}
	}
	return "all " + js(h) + "~" + js(v) + "~" + js(ro) + "~" + js(cc)
}

func genCore(r *vh.Rand) string {
	prods := subset(r, products, 0, 3)
	cls := subset(r, clusters, 0, 4)
	var kind string
	var j interface{}
	switch r.Intn(16) {
	case 0, 1:
		kind, j = "host", genHost(r, prods)
	case 2:
		kind, j = "vip", genVip(r, prods)
		if r.Chance(1, 4) {
			j.(*obj).set("Vips2", nil)
			m := (&obj{}).set("p1", strs(vipBad[r.Intn(len(vipBad))], "1.2.3.4"))
			j = (&obj{}).set("Version", "v").set("Vips", m)
		}
	case 3, 4:
		kind, j = "route", genRoute(r, prods, cls)
		if r.Chance(1, 6) {
			j = (&obj{}).set("Version", "v").set("ProductRule", (&obj{}).set("p1", []interface{}{(&obj{}).set("Cond", condBad[r.Intn(len(condBad))]).set("ClusterName", "c1")}))
		}
	case 5, 6:
		kind, j = "cc", genCC(r, cls)
	case 7:
		kind, j = "gslb", genGslb(r, cls)
	case 8, 9:
		kind, j = "ct", genCt(r, cls)
	default:
		return genAll(r)
	}
	if r.Chance(2, 5) {
		j = mutate(r, j, 0)
		if r.Chance(1, 4) {
			j = mutate(r, j, 0)
		}
	}
	return kind + " " + js(j)
}


// parseOrdered turns JSON text into the generator's ordered AST.
func parseOrdered(txt string) interface{} {
	dec := stdjson.NewDecoder(bytes.NewReader([]byte(txt)))
	dec.UseNumber()
	var rd func() interface{}
	rd = func() interface{} {
		t, err := dec.Token()
		if err != nil {
			panic(err)
		}
		switch v := t.(type) {
		case stdjson.Delim:
			if v == '{' {
				o := &obj{}
				for dec.More() {
					k, _ := dec.Token()
					o.set(k.(string), rd())
				}
				dec.Token()
				return o
			}
			arr := []interface{}{}
			for dec.More() {
				arr = append(arr, rd())
			}
			dec.Token()
			return arr
		case stdjson.Number:
			return raw(v.String())
		default:
			return t
		}
	}
	return rd()
}

func genMod(r *vh.Rand) string {
	name := modNames[r.Intn(len(modNames))]
	if r.Chance(2, 5) {
		name = modNamesMore[r.Intn(len(modNamesMore))]
	}
	txt := sampleOf(name)
	if txt == "" {
		return "moddoc " + modNames[0]
	}
	j := parseOrdered(txt)
	n := r.Range(1, 3)
	for i := 0; i < n; i++ {
		j = mutate(r, j, 0)
	}
	return "mod " + name + " " + js(j)
}

func genName(r *vh.Rand) string {
	cfg := &obj{}
	for _, c := range subset(r, clusters, 0, 3) {
		var l []interface{}
		for i := r.Range(0, 2); i > 0; i-- {
			l = append(l, (&obj{}).set("Host", r.Pick("10.0.0.1", "h.example", "h.example", "")).
				set("Port", []int{0, 80, 65535, 65536, -1}[r.Intn(5)]).set("Weight", r.Range(-1, 5)))
		}
		if l == nil {
			l = []interface{}{}
		}
		cfg.set(c, l)
	}
	var j interface{} = (&obj{}).set("Version", "v1").set("Config", cfg)
	if r.Chance(2, 5) {
		j = mutate(r, j, 0)
	}
	return "name " + js(j)
}

func genTicket(r *vh.Rand) string {
	hexd := "0123456789abcdefABCDEF"
	n := []int{96, 96, 96, 95, 97, 94, 0, 48}[r.Intn(8)]
	b := make([]byte, n)
	for i := range b {
		b[i] = hexd[r.Intn(len(hexd))]
	}
	if n > 0 && r.Chance(1, 6) {
		b[r.Intn(n)] = 'g'
	}
	switch r.Intn(8) {
	case 0: // raw 48-byte key file (not JSON): the loader falls back to the raw format
		return "ticket " + strings.Repeat("k", 47) + r.Pick("x", "xy", "")
	case 1:
		return "ticket " + js(mutate(r, (&obj{}).set("Version", "v").set("SessionTicketKey", string(b)), 0))
	}
	return "ticket " + js((&obj{}).set("Version", r.Pick("v1", "v1", "")).set("SessionTicketKey", string(b)))
}

func genBal(r *vh.Rand) string {
	cls := subset(r, clusters, 1, 3)
	g := genGslb(r, cls)
	ctCls := cls
	switch r.Intn(6) {
	case 0: // a gslb cluster missing from the cluster table
		if len(cls) > 1 {
			ctCls = cls[1:]
		}
	case 1:
		ctCls = append(append([]string(nil), cls...), "c9")
	}
	ct := genCt(r, ctCls)
	var gj, cj interface{} = g, ct
	if r.Chance(1, 6) {
		if r.Bool() {
			gj = mutate(r, gj, 0)
		} else {
			cj = mutate(r, cj, 0)
		}
	}
	return "bal " + js(gj) + "~" + js(cj)
}

func gen(r *vh.Rand) string {
	switch r.Intn(10) {
	case 0, 1:
		return genMod(r)
	case 2:
		switch r.Intn(3) {
		case 0:
			return genName(r)
		case 1:
			return genTicket(r)
		}
		return genBal(r)
	}
	return genCore(r)
}

func main() {
	vh.Pre = func(emit func(string), thorough bool) {
		for _, n := range modNames {
			emit("moddoc " + n)
		}
		for _, f := range confFiles() {
			emit("conf " + f)
		}
		emit("conf @server_data")
		emit("conf @baltable")
	}
	defer func() {
		if tmpDir != "" {
			os.RemoveAll(tmpDir)
		}
	}()
	vh.Main(gen, exec)
}
