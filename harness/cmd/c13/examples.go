// Code generated from /repo/conf (shipped example configurations); do not edit.
package main

var examples = map[string]string{
	"auth_basic": "{\"Config\":{\"example_product\":[{\"Cond\":\"req_host_in(\\\"www.example.org\\\")\",\"UserFile\":\"../conf/mod_auth_basic/userfile\",\"Realm\":\"example_product\"}]},\"Version\":\"init version\"}",
	"auth_jwt": "{\"Config\":{\"example_product\":[{\"Cond\":\"req_host_in(\\\"www.example.org\\\")\",\"KeyFile\":\"../conf/mod_auth_jwt/key_file\",\"Realm\":\"example_product\"}]},\"Version\":\"init version\"}",
	"block": "{\"Version\":\"init version\",\"Config\":{\"example_product\":[{\"action\":{\"cmd\":\"CLOSE\",\"params\":[]},\"name\":\"example rule\",\"cond\":\"req_path_in(\\\"/limit\\\", false)\"}]}}",
	"compress": "{\"Version\":\"init version\",\"Config\":{\"example_product\":[{\"Cond\":\"req_host_in(\\\"example.org\\\")\",\"Action\":{\"Cmd\":\"GZIP\",\"Quality\":9,\"FlushSize\":512}}]}}",
	"cors": "{\"Version\":\"cors_rule.data.version\",\"Config\":{\"example_product\":[{\"Cond\":\"req_host_in(\\\"example.org\\\")\",\"AccessControlAllowOrigins\":[\"%origin\"],\"AccessControlAllowCredentials\":true,\"AccessControlExposeHeaders\":[\"X-Custom-Header\"],\"AccessControlAllowMethods\":[\"HEAD\",\"GET\",\"POST\",\"PUT\",\"DELETE\",\"OPTIONS\",\"PATCH\"],\"AccessControlAllowHeaders\":[\"X-Custom-Header\"],\"AccessControlMaxAge\":-1}]}}",
	"header": "{\"Version\":\"init version\",\"Config\":{\"example_product\":[{\"cond\":\"req_path_prefix_in(\\\"/header\\\", false)\",\"actions\":[{\"cmd\":\"RSP_HEADER_SET\",\"params\":[\"X-Proxied-By\",\"bfe\"]}],\"last\":true}]}}",
	"name": "{\"Version\":\"init version\",\"Config\":{\"example.redis.cluster\":[{\"Host\":\"192.168.1.1\",\"Port\":6439,\"Weight\":10}]}}",
	"prison": "{\"Version\":\"20190101000000\",\"Config\":{\"example_product\":[{\"Name\":\"example_prison\",\"Cond\":\"req_path_prefix_in(\\\"/prison\\\", false)\",\"accessSignConf\":{\"url\":false,\"path\":false,\"query\":[],\"header\":[],\"Cookie\":[\"UID\"]},\"action\":{\"cmd\":\"CLOSE\",\"params\":[]},\"checkPeriod\":10,\"stayPeriod\":10,\"threshold\":5,\"accessDictSize\":1000,\"prisonDictSize\":1000}]}}",
	"redirect": "{\"Version\":\"init version\",\"Config\":{\"example_product\":[{\"Cond\":\"req_path_prefix_in(\\\"/redirect\\\", false)\",\"Actions\":[{\"Cmd\":\"URL_SET\",\"Params\":[\"https://example.org\"]}],\"Status\":301}]}}",
	"rewrite": "{\"Version\":\"init version\",\"Config\":{\"example_product\":[{\"Cond\":\"req_path_prefix_in(\\\"/rewrite\\\", false)\",\"Actions\":[{\"Cmd\":\"PATH_PREFIX_ADD\",\"Params\":[\"/bfe/\"]}],\"Last\":true}]}}",
	"static": "{\"Config\":{\"example_product\":[{\"Cond\":\"req_host_in(\\\"example.org\\\")\",\"Action\":{\"Cmd\":\"BROWSE\",\"Params\":[\"../conf/mod_static\",\"index.html\"]}}]},\"Version\":\"20190101000000\"}",
	"ticket": "{\"Version\":\"init version\",\"SessionTicketKey\":\"08a0d852ef494143af613ef32d3c39314758885f7108e9ab021d55f422a454f7c9cd5a53978f48fa1063eadcdc06878f\"}",
	"tls_rule": "{\"Version\":\"12\",\"DefaultNextProtos\":[\"http/1.1\"],\"Config\":{\"example_product\":{\"VipConf\":[\"10.199.4.14\"],\"SniConf\":[\"example.org\"],\"CertName\":\"example.org\",\"NextProtos\":[\"h2;rate=100;isw=65535;mcs=200;level=0\",\"http/1.1\"],\"Grade\":\"C\",\"ClientAuth\":false,\"ClientCAName\":\"example_ca\"}}}",
	"trust_clientip": "{\"Version\":\"init version\",\"Config\":{\"inner-idc\":[{\"Begin\":\"10.0.0.0\",\"End\":\"10.255.255.255\"}]}}",
	"secure_link": "{\"Version\":\"2019-12-10184356\",\"Config\":{\"p1\":[{\"Cond\":\"default_t()\",\"ChecksumKey\":\"sign\",\"ExpiresKey\":\"time\",\"ExpressionNodes\":[{\"Type\":\"query\",\"Param\":\"time\"},{\"Type\":\"uri\"},{\"Type\":\"remote_addr\"},{\"Type\":\"label\",\"Param\":\" secret\"}]}]}}",
}

var sideFiles = map[string]string{
	"conf/mod_static/index.html": "<html></html>\n",
	"conf/mod_auth_basic/userfile": "# user1, 123456\nuser1:$apr1$mI7SilJz$CWwYJyYKbhVDNl26sdUSh/\n\nuser2:{SHA}fEqNCco3Yq9h5ZUglD3CZJT4lBs=:user2, 123456\n",
	"conf/mod_auth_jwt/key_file": "[\n    {\n        \"k\": \"YmZland0Mg\",\n        \"kty\": \"oct\",\n        \"kid\": \"0001\"\n    }\n]",
}
