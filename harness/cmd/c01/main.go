// C01: smooth weighted round-robin — drives the real bal_slb.BalanceRR (Init / Balance(WrrSmooth) /
// SetAvail / Update); histories starting with `ginit` go through the real bal_gslb.BalanceGslb
// (Init / BackendInit / Balance / BackendReload) of a cluster with a single sub-cluster.
package main

import (
	"encoding/json"
	"fmt"
	"os"
	"path/filepath"
	"strconv"
	"strings"
	"time"

	"bfeverif/harness/internal/vh"
	"github.com/baidu/go-lib/web-monitor/metrics"
	"github.com/bfenetworks/bfe/bfe_balance"
	"github.com/bfenetworks/bfe/bfe_balance/bal_gslb"
	"github.com/bfenetworks/bfe/bfe_balance/bal_slb"
	"github.com/bfenetworks/bfe/bfe_basic"
	"github.com/bfenetworks/bfe/bfe_config/bfe_cluster_conf/cluster_table_conf"
	"github.com/bfenetworks/bfe/bfe_config/bfe_cluster_conf/gslb_conf"
)

func addrOf(id int) string { return fmt.Sprintf("10.0.%d.%d", id/250, id%250) }
func infoOf(id int) string { return addrOf(id) + ":80" }

func idOfInfo(s string) int {
	var a, b int
	if _, err := fmt.Sscanf(s, "10.0.%d.%d:80", &a, &b); err != nil {
		return 9999
	}
	return a*250 + b
}

func conf(id, w int) *cluster_table_conf.BackendConf {
	name := "b" + strconv.Itoa(id)
	addr := addrOf(id)
	port := 80
	weight := w
	return &cluster_table_conf.BackendConf{Name: &name, Addr: &addr, Port: &port, Weight: &weight}
}

// ---- generator -------------------------------------------------------------------------------

var primes = []int{2, 3, 5, 7, 11, 13, 17, 19, 23, 29, 31, 37}

func genWeights(r *vh.Rand) []int {
	var n int
	switch r.Intn(10) {
	case 0:
		n = 1
	case 1, 2, 3:
		n = 2
	case 4, 5, 6:
		n = r.Range(3, 4)
	default:
		n = r.Range(5, 12)
	}
	ws := make([]int, n)
	mode := r.Intn(8)
	base := r.Range(1, 40)
	for i := range ws {
		switch mode {
		case 0: // all equal
			ws[i] = base
		case 1: // one heavy, rest 1
			ws[i] = 1
		case 2: // multiples of a common factor
			ws[i] = base%7 + 1
			ws[i] *= r.Range(1, 5)
		case 3: // small
			ws[i] = r.Range(1, 3)
		case 4: // primes
			ws[i] = primes[r.Intn(len(primes))]
		default:
			ws[i] = r.Range(1, 40)
		}
	}
	if mode == 1 {
		ws[r.Intn(n)] = r.Range(2, 40)
	}
	// rare: very large weights around 2^31 and 10^9 (weight*100 and the credits must not be narrowed to 32 bits)
	if r.Chance(1, 25) {
		big := []int{1<<31 - 1, 1 << 31, 1<<31 + 1, 1000000000, 21474837, 21474836, 1 << 20}
		for i := range ws {
			if r.Chance(1, 2) {
				ws[i] = big[r.Intn(len(big))]
			}
		}
	}
	// sometimes a member that is ineligible from the start (weight 0 / negative)
	if n >= 2 && r.Chance(1, 8) {
		ws[r.Intn(n)] = -r.Intn(3)
	}
	return ws
}

func sumPos(ws []int) int {
	s := 0
	for _, w := range ws {
		if w > 0 {
			s += w
		}
	}
	return s
}

func joinInts(xs []int) string {
	if len(xs) == 0 {
		return "-"
	}
	p := make([]string, len(xs))
	for i, x := range xs {
		p[i] = strconv.Itoa(x)
	}
	return strings.Join(p, ",")
}

const maxCalls = 1600

// balOps emits one or several `bal` ops covering `total` calls.
func balOps(r *vh.Rand, total int) []string {
	if total < 1 {
		total = 1
	}
	if total > maxCalls {
		total = maxCalls
	}
	if total >= 2 && r.Chance(1, 4) {
		a := r.Range(1, total-1)
		return []string{"bal " + strconv.Itoa(a), "bal " + strconv.Itoa(total-a)}
	}
	return []string{"bal " + strconv.Itoa(total)}
}

const ssT = 1000000 // slowStartTime used in generated histories (seconds)

// genSlowStart: histories with slow start on: restarted / new backends, calls before, at and after the end of the
// ramp (also a LATE crossing: the first call that observes elapsed ≥ slowStartTime comes up to 4x late), then
// steady-state calls with the configured weights.
func genSlowStart(r *vh.Rand) string {
	n := r.Range(1, 6)
	ws := make([]int, n)
	eq := r.Chance(1, 4)
	for i := range ws {
		ws[i] = r.Range(1, 20)
		if eq {
			ws[i] = ws[0]
		}
	}
	if n >= 2 && r.Chance(1, 10) {
		ws[r.Intn(n)] = -r.Intn(2)
	}
	ids := make([]int, n)
	for i := range ids {
		ids[i] = i
	}
	nextID := n
	W := func() int { return sumPos(ws) }
	head := "init "
	if r.Chance(1, 8) {
		head = "ginit "
	}
	ops := []string{head + joinInts(ws)}
	if r.Chance(1, 2) {
		ops = append(ops, fmt.Sprintf("ss %d", ssT))
		ops = append(ops, balOps(r, W()+r.Range(0, 5))...)
	} else {
		ops = append(ops, balOps(r, W()+r.Range(0, 5))...)
		ops = append(ops, fmt.Sprintf("ss %d", ssT))
	}
	rounds := r.Range(1, 2)
	for k := 0; k < rounds; k++ {
		// who enters slow start
		switch r.Intn(5) {
		case 0: // a new member through Update
			ws = append(ws, r.Range(1, 20))
			ids = append(ids, nextID)
			nextID++
			p := make([]string, len(ws))
			for i := range ws {
				p[i] = fmt.Sprintf("%d:%d", ids[i], ws[i])
			}
			ops = append(ops, "upd "+strings.Join(p, ","))
		case 1: // two restarted backends
			ops = append(ops, fmt.Sprintf("rs %d", ids[r.Intn(len(ids))]), fmt.Sprintf("rs %d", ids[r.Intn(len(ids))]))
		default:
			ops = append(ops, fmt.Sprintf("rs %d", ids[r.Intn(len(ids))]))
		}
		// the call(s) in which the ramp begins
		ops = append(ops, fmt.Sprintf("bal %d@0", r.Range(1, 3)))
		// calls during the ramp
		for j := r.Intn(3); j > 0; j-- {
			ops = append(ops, fmt.Sprintf("bal %d@%d", r.Range(1, 2*W()+2), 1000*r.Range(1, 999)))
		}
		// rare: slow start switched off in mid-ramp, or a second restart in mid-ramp
		if r.Chance(1, 12) {
			ops = append(ops, "ss 0")
			ops = append(ops, balOps(r, 2*W()+1)...)
			ops = append(ops, fmt.Sprintf("ss %d", ssT))
		}
		// the crossing: exactly at the end, a little late, or very late (quiet sub-cluster)
		var e int
		switch r.Intn(4) {
		case 0:
			e = ssT
		case 1:
			e = ssT + 1000*r.Range(1, 50)
		case 2:
			e = ssT + 1000*r.Range(100, 900)
		default:
			e = 1000 * r.Range(1500, 4000)
		}
		ops = append(ops, fmt.Sprintf("bal %d@%d", r.Range(1, 3), e))
		// steady state afterwards: settle, then 2..3 periods that the oracle judges on their own
		ops = append(ops, fmt.Sprintf("bal %d@%d", r.Range(1, 4)*W()+r.Range(1, 3), e+1000))
		ops = append(ops, balOps(r, r.Range(2, 3)*W()+r.Range(0, 5))...)
		// rare: a reload that changes a weight, so that a later ramp meets a stale weightSS.final
		if k+1 < rounds && r.Chance(1, 6) {
			i := r.Intn(len(ws))
			ws[i] = r.Range(1, 20)
			p := make([]string, len(ws))
			for j := range ws {
				p[j] = fmt.Sprintf("%d:%d", ids[j], ws[j])
			}
			ops = append(ops, "upd "+strings.Join(p, ","))
			ops = append(ops, balOps(r, W()+2)...)
		}
	}
	return strings.Join(ops, "|")
}

func gen(r *vh.Rand) string {
	if r.Chance(1, 3) {
		return genSlowStart(r)
	}
	ws := genWeights(r)
	ids := make([]int, len(ws))
	avail := make([]bool, len(ws))
	for i := range ids {
		ids[i] = i
		avail[i] = true
	}
	nextID := len(ws)
	head := "init "
	switch r.Intn(8) {
	case 0:
		head = "ginit "
	case 1:
		if sumPos(ws) > 0 {
			head = "tinit " // through BalTable: conf files, real loaders, BalTableReload
		}
	}
	ops := []string{head + joinInts(ws)}
	// availability flips BEFORE the first call: the state of the remaining members is still canonical
	if len(ws) >= 2 && r.Chance(1, 6) {
		k := r.Range(1, 2)
		for j := 0; j < k; j++ {
			i := r.Intn(len(ws))
			avail[i] = !avail[i]
			ops = append(ops, fmt.Sprintf("av %d %d", ids[i], b2i(avail[i])))
		}
	}
	elig := func() int {
		s := 0
		for i, w := range ws {
			if w > 0 && avail[i] {
				s += w
			}
		}
		return s
	}
	W := elig()
	// steady phase: a bit more than 1..3 periods
	ops = append(ops, balOps(r, r.Range(1, 3)*W+r.Range(0, 7))...)
	// availability flips EXACTLY at a period boundary (the state is the initial state again: windows must stay exact)
	if len(ws) >= 2 && W > 0 && W <= 400 && r.Chance(1, 5) {
		ops = ops[:len(ops)-0]
		// replace the steady phase by whole periods
		for len(ops) > 0 && strings.HasPrefix(ops[len(ops)-1], "bal ") {
			ops = ops[:len(ops)-1]
		}
		ops = append(ops, balOps(r, r.Range(1, 2)*W)...)
		for j := r.Range(1, 2); j > 0; j-- {
			i := r.Intn(len(ws))
			avail[i] = !avail[i]
			ops = append(ops, fmt.Sprintf("av %d %d", ids[i], b2i(avail[i])))
			if w2 := elig(); w2 > 0 && w2 <= 400 {
				ops = append(ops, balOps(r, r.Range(1, 2)*w2)...)
			} else {
				ops = append(ops, "bal 3")
				break
			}
		}
		ops = append(ops, balOps(r, elig()+r.Range(1, 5))...)
	}
	// BalTable histories: a reload the loaders must REJECT (no backend of weight > 0, or an empty sub-cluster) in the
	// middle of a steady run: nothing may change, the windows across it stay exact
	if head == "tinit " && r.Chance(1, 2) {
		p := make([]string, 0, len(ws))
		for i := range ws {
			if r.Chance(3, 4) {
				p = append(p, fmt.Sprintf("%d:%d", ids[i], -r.Intn(2)))
			}
		}
		if len(p) == 0 {
			ops = append(ops, "upd -")
		} else {
			ops = append(ops, "upd "+strings.Join(p, ","))
		}
		ops = append(ops, balOps(r, elig()+r.Range(1, 9))...)
	}
	// a session-sticky call in between (sorts the list by AddrInfo: with >= 11 members, or after members were added,
	// that changes the tie-break order of smoothBalance), in mid-period or exactly at a period boundary
	if (len(ws) >= 11 || r.Chance(1, 12)) && r.Chance(1, 2) && W > 0 && W <= 500 {
		if r.Chance(1, 2) {
			for len(ops) > 0 && strings.HasPrefix(ops[len(ops)-1], "bal ") {
				ops = ops[:len(ops)-1]
			}
			ops = append(ops, balOps(r, r.Range(1, 2)*W)...)
		}
		ops = append(ops, "sticky")
		ops = append(ops, balOps(r, r.Range(1, 2)*elig()+r.Range(0, 5))...)
	}
	// 40%: configuration / availability changes followed by more calls
	if r.Chance(2, 5) {
		rounds := r.Range(1, 3)
		for k := 0; k < rounds; k++ {
			switch r.Intn(6) {
			case 0: // reload with identical conf (sometimes preceded by a sticky call that sorts the list)
				if r.Chance(1, 4) {
					ops = append(ops, "sticky")
					ops = append(ops, balOps(r, elig()+r.Range(0, 5))...)
				}
			case 1: // change one weight
				i := r.Intn(len(ws))
				ws[i] = r.Range(-1, 40)
			case 2: // drop a member
				if len(ws) >= 2 {
					i := r.Intn(len(ws))
					ws = append(ws[:i:i], ws[i+1:]...)
					ids = append(ids[:i:i], ids[i+1:]...)
					avail = append(avail[:i:i], avail[i+1:]...)
				}
			case 3: // add 1..3 members (Update appends new members in Go map order: the driver takes their order from the result)
				for j := r.Range(1, 3); j > 0; j-- {
					ws = append(ws, r.Range(1, 40))
					ids = append(ids, nextID)
					avail = append(avail, true)
					nextID++
				}
			default: // availability flip
				i := r.Intn(len(ws))
				avail[i] = !avail[i]
				ops = append(ops, fmt.Sprintf("av %d %d", ids[i], b2i(avail[i])))
				ops = append(ops, balOps(r, r.Range(1, 2)*elig()+r.Range(0, 5))...)
				continue
			}
			// conf lists the members in a rotated order (order of the conf must not matter for old members)
			p := make([]string, len(ws))
			off := r.Intn(len(ws))
			for i := range ws {
				j := (i + off) % len(ws)
				p[i] = fmt.Sprintf("%d:%d", ids[j], ws[j])
			}
			ops = append(ops, "upd "+strings.Join(p, ","))
			ops = append(ops, balOps(r, r.Range(1, 2)*elig()+r.Range(0, 5))...)
		}
	}
	return strings.Join(ops, "|")
}

func b2i(b bool) int {
	if b {
		return 1
	}
	return 0
}

// pre: every weight vector with n ≤ 3 (thorough: 4) members and weights ≤ 5 (thorough: 6), 3 periods + 2
func pre(emit func(string), thorough bool) {
	maxN, maxW := 3, 5
	if thorough {
		maxN, maxW = 4, 6
	}
	var rec func(ws []int)
	rec = func(ws []int) {
		if len(ws) > 0 {
			emit(fmt.Sprintf("init %s|bal %d", joinInts(ws), 3*sumPos(ws)+2))
		}
		if len(ws) == maxN {
			return
		}
		for w := 1; w <= maxW; w++ {
			rec(append(append([]int(nil), ws...), w))
		}
	}
	rec(nil)
	emit("init -|bal 3")
	emit("ginit 5,1,1|bal 15")
}

// ---- executor --------------------------------------------------------------------------------

type world struct {
	brr   *bal_slb.BalanceRR
	gslb  *bal_gslb.BalanceGslb
	slack time.Duration // longest (set clock → end of Balance) interval of the case
	table *bfe_balance.BalTable // tinit: the history runs through the real BalTable (files → loaders → Init / BalTableReload → Lookup → Balance)
	dir   string
	ver   int
}

const clusterName = "cluster"

// writeConfs writes gslb.data and cluster_table.data for one cluster with one sub-cluster.
func (wd *world) writeConfs(c cluster_table_conf.SubClusterBackend) (string, string, error) {
	wd.ver++
	type bk struct {
		Name   string
		Addr   string
		Port   int
		Weight int
	}
	l := []bk{}
	for _, b := range c {
		l = append(l, bk{*b.Name, *b.Addr, *b.Port, *b.Weight})
	}
	g := map[string]interface{}{"Clusters": map[string]map[string]int{clusterName: {subName: 100}},
		"Hostname": "verif", "Ts": strconv.Itoa(wd.ver)}
	t := map[string]interface{}{"Version": strconv.Itoa(wd.ver),
		"Config": map[string]map[string][]bk{clusterName: {subName: l}}}
	gf, tf := filepath.Join(wd.dir, "gslb.data"), filepath.Join(wd.dir, "cluster_table.data")
	gb, _ := json.Marshal(g)
	tb, _ := json.Marshal(t)
	if err := os.WriteFile(gf, gb, 0644); err != nil {
		return "", "", err
	}
	return gf, tf, os.WriteFile(tf, tb, 0644)
}

// dump: current, weight, inSlowStart, weightSS.final and id of every list entry, in list order
func (wd *world) dump() string {
	addr, wt, cur := wd.brr.VerifC01Dump()
	inSS, fin := wd.brr.VerifC01DumpSS()
	ss := make([]int, len(inSS))
	for i, b := range inSS {
		ss[i] = b2i(b)
	}
	ids := make([]int, len(addr))
	for i, a := range addr {
		ids[i] = idOfInfo(a)
	}
	return "c=" + joinInts(cur) + ";w=" + joinInts(wt) + ";s=" + joinInts(ss) + ";f=" + joinInts(fin) + ";i=" + joinInts(ids)
}

// The harness chooses elapsed times as multiples of slowStartTime/1000 with weights ≤ 20 (final ≤ 2000) and
// slowStartTime = 10^6 s, so the weight computed by updateSlowStart, floor(final*elapsed/slowStartTime), only
// changes if the real clock adds ≥ 0.5 s between the hook call and time.Since inside Balance.  A case in which
// that interval exceeded maxSlack is executed again (so the result never depends on scheduling delays).
const maxSlack = 100 * time.Millisecond

func exec(op string) string {
	for try := 0; try < 8; try++ {
		r, slack := exec1(op)
		if slack <= maxSlack {
			return r
		}
	}
	return "timing-unstable"
}

const subName = "sub"

func parsePairs(s string) (cluster_table_conf.SubClusterBackend, bool) {
	var c cluster_table_conf.SubClusterBackend
	if s == "-" {
		return c, true
	}
	for _, p := range strings.Split(s, ",") {
		kv := strings.Split(p, ":")
		if len(kv) != 2 {
			return nil, false
		}
		id, e1 := strconv.Atoi(kv[0])
		w, e2 := strconv.Atoi(kv[1])
		if e1 != nil || e2 != nil || id < 0 {
			return nil, false
		}
		c = append(c, conf(id, w))
	}
	return c, true
}

func (wd *world) balance() string {
	if wd.table != nil {
		g, err := wd.table.Lookup(clusterName)
		if err != nil {
			return "e"
		}
		b, err := g.Balance(&bfe_basic.Request{})
		if err != nil || b == nil {
			return "e"
		}
		return strconv.Itoa(idOfInfo(b.AddrInfo))
	}
	if wd.gslb != nil {
		req := &bfe_basic.Request{}
		b, err := wd.gslb.Balance(req)
		if err != nil || b == nil {
			return "e"
		}
		return strconv.Itoa(idOfInfo(b.AddrInfo))
	}
	b, err := wd.brr.Balance(bal_slb.WrrSmooth, nil)
	if err != nil || b == nil {
		return "e"
	}
	return strconv.Itoa(idOfInfo(b.AddrInfo))
}

func exec1(op string) (string, time.Duration) {
	r, wd := exec2(op)
	return r, wd.slack
}

func exec2(op string) (string, *world) {
	wd := &world{}
	r := exec3(op, wd)
	if wd.dir != "" {
		os.RemoveAll(wd.dir)
	}
	return r, wd
}

func exec3(op string, wd *world) string {
	var out []string
	for k, o := range strings.Split(op, "|") {
		f := strings.Split(o, " ")
		if (k == 0) != (f[0] == "init" || f[0] == "ginit" || f[0] == "tinit") {
			return "bad-op"
		}
		switch {
		case (f[0] == "init" || f[0] == "ginit" || f[0] == "tinit") && len(f) == 2:
			var c cluster_table_conf.SubClusterBackend
			if f[1] != "-" {
				for i, s := range strings.Split(f[1], ",") {
					w, err := strconv.Atoi(s)
					if err != nil {
						return "bad-op"
					}
					c = append(c, conf(i, w))
				}
			}
			if f[0] == "tinit" {
				d, err := os.MkdirTemp("/var/tmp", "verif-c01-")
				if err != nil {
					return "bad-op"
				}
				wd.dir = d
				gf, tf, err := wd.writeConfs(c)
				if err != nil {
					return "bad-op"
				}
				t := bfe_balance.NewBalTable(nil)
				if err := t.Init(gf, tf); err != nil {
					return "bad-op" // the loaders reject a conf without a positive weight
				}
				g, err := t.Lookup(clusterName)
				if err != nil {
					return "bad-op"
				}
				wd.table = t
				wd.brr = g.VerifC01SubBalancer(subName)
			} else if f[0] == "ginit" {
				g := bal_gslb.NewBalanceGslb("cluster")
				if err := g.Init(gslb_conf.GslbClusterConf{subName: 100}); err != nil {
					return "bad-op"
				}
				g.BackendInit(cluster_table_conf.ClusterBackend{subName: c})
				wd.gslb = g
				wd.brr = g.VerifC01SubBalancer(subName)
			} else {
				wd.brr = bal_slb.NewBalanceRR(subName)
				wd.brr.Init(c)
			}
			out = append(out, "ok;"+wd.dump())
		case f[0] == "bal" && len(f) == 2:
			ke := strings.Split(f[1], "@")
			n, err := strconv.Atoi(ke[0])
			if err != nil || n < 0 || n > 100000 || len(ke) > 2 {
				return "bad-op"
			}
			elapsed := 0
			if len(ke) == 2 {
				if elapsed, err = strconv.Atoi(ke[1]); err != nil || elapsed < 0 || elapsed > 4100000 {
					return "bad-op"
				}
			}
			ps := make([]string, n)
			for i := range ps {
				// the clock: every backend in slow start observes `elapsed` seconds in this call
				t0 := time.Now()
				wd.brr.VerifC01SetElapsed(time.Duration(elapsed) * time.Second)
				ps[i] = wd.balance()
				if d := time.Since(t0); d > wd.slack {
					wd.slack = d
				}
			}
			p := "-"
			if n > 0 {
				p = strings.Join(ps, ",")
			}
			out = append(out, "p="+p+";"+wd.dump())
		case f[0] == "sticky" && len(f) == 1:
			// one session-sticky selection on the same BalanceRR (what a cluster switched to SessionSticky does):
			// stickyBalance sorts brr.backends by AddrInfo; which backend it returns is C02's business
			wd.brr.Balance(bal_slb.WrrSticky, []byte("k"))
			out = append(out, "ok;"+wd.dump())
		case f[0] == "ss" && len(f) == 2:
			t, err := strconv.Atoi(f[1])
			if err != nil || t < 0 {
				return "bad-op"
			}
			wd.brr.SetSlowStart(t)
			out = append(out, "ok")
		case f[0] == "rs" && len(f) == 2:
			id, err := strconv.Atoi(f[1])
			if err != nil {
				return "bad-op"
			}
			wd.brr.VerifC01SetRestart(infoOf(id))
			out = append(out, "ok")
		case f[0] == "av" && len(f) == 3:
			id, err := strconv.Atoi(f[1])
			if err != nil {
				return "bad-op"
			}
			wd.brr.VerifC01SetAvail(infoOf(id), f[2] == "1")
			out = append(out, "ok")
		case f[0] == "upd" && len(f) == 2:
			c, ok := parsePairs(f[1])
			if !ok {
				return "bad-op"
			}
			res := "ok"
			if wd.table != nil {
				gf, tf, err := wd.writeConfs(c)
				if err != nil {
					return "bad-op"
				}
				// what the server does on a reload: load + check the files, then BalTableReload
				gc, bc, err := wd.table.BalTableConfLoad(gf, tf)
				if err != nil {
					res = "rej"
				} else if err := wd.table.BalTableReload(gc, bc); err != nil {
					res = "rej"
				}
				if g, err := wd.table.Lookup(clusterName); err == nil {
					wd.brr = g.VerifC01SubBalancer(subName)
				}
			} else if wd.gslb != nil {
				wd.gslb.BackendReload(cluster_table_conf.ClusterBackend{subName: c})
			} else {
				wd.brr.Update(c)
			}
			out = append(out, res+";"+wd.dump())
		default:
			return "bad-op"
		}
	}
	return strings.Join(out, "|")
}

func main() {
	// bal_gslb counts errors in package-level counters that the server registers at start-up
	st := bal_gslb.GetBalErrState()
	st.ErrBkNoSubCluster = new(metrics.Counter)
	st.ErrBkNoSubClusterCross = new(metrics.Counter)
	st.ErrBkNoBackend = new(metrics.Counter)
	st.ErrBkRetryTooMany = new(metrics.Counter)
	st.ErrGslbBlackhole = new(metrics.Counter)
	vh.Pre = pre
	vh.Main(gen, exec)
}
